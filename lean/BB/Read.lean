/-
  BB.Read — read_lines (asm.py, def read_lines, with fix F11) over a filesystem model, and
  assemble() from source text / a path.

  Filesystem model: a POSIX filesystem WITHOUT symbolic links.  `FS.files` / `FS.dirs` list the
  regular files (with their bytes) and the directories under their absolute paths in NORMAL FORM
  (no "//", "/./", "/../", no trailing "/"; every ancestor of an entry is listed in `dirs`).
  Path STRINGS are kept exactly as the code builds them (`os.path.join(dir, rel)` verbatim — the
  code never normalises the path it opens, and error messages / `Line.file` carry that string);
  `FS.resolve` is what the operating system does with such a string: walk the components from the
  root, every step starting from an existing directory, "" and "." staying, ".." going to the
  parent (of the root: the root), a name descending — and the final entry must exist.
  `os.path.exists / isdir / getsize / open().read()` = `existsAt / isDirAt / readAt` go through it.
  `os.path.abspath` of an absolute path (`normPath`) is lexical, as in Python.
  `FS.readBytes / isDir / exists` are the same questions for a path already in normal form
  (used by the command-line model BB.Cli).
  Outside the model (`Err.unsupported`): symbolic links, a leading "//" (which POSIX and
  os.path.normpath keep apart from "/"), NUL characters in paths, relative -i directories or main
  paths (they depend on the working directory by definition); include / include_bytes lines with
  non-ASCII characters, files that are not well-formed UTF-8 (`Err.unsupported "non-ASCII source"`).
  Source text outside ASCII is otherwise read as it is (UTF-8 files) and left to the lexer
  (BB.Lex: `string` text, `error` messages and comments are modelled, the rest is refused there).
-/
import BB.Lex
import BB.Parse
import BB.Passes
import BB.Spec.Utf8
namespace BB

structure FS where
  files : List (String × List Nat)     -- absolute normal path ↦ bytes
  dirs : List String                   -- absolute normal paths of directories
  deriving Repr, Inhabited

/-! ### questions about a path in normal form -/

def FS.readBytes (fs : FS) (p : String) : Option (List Nat) := fs.files.lookup p
def FS.isDir (fs : FS) (p : String) : Bool := fs.dirs.contains p
def FS.exists (fs : FS) (p : String) : Bool := (fs.files.lookup p).isSome || fs.isDir p

/-- an absolute path in normal form -/
def normAbs (p : String) : Bool :=
  let cs := p.toList
  match cs with
  | '/' :: _ =>
    let comps := (p.splitOn "/").drop 1
    (p = "/") || comps.all (fun c => c ≠ "" ∧ c ≠ "." ∧ c ≠ "..")
  | _ => false

/-- a relative path without empty / dot components -/
def normRel (p : String) : Bool :=
  p ≠ "" && !(p.toList.head? = some '/') && (p.splitOn "/").all (fun c => c ≠ "" ∧ c ≠ "." ∧ c ≠ "..")

/-! ### path strings as the code builds them -/

/-- `os.path.join(dir, path)` -/
def pathJoin (dir path : String) : String :=
  if path.toList.head? = some '/' then path
  else if dir = "" ∨ dir.toList.getLast? = some '/' then dir ++ path else dir ++ "/" ++ path

/-- `os.path.dirname(p)`: everything up to the last "/", trailing slashes removed unless that is
    all there is -/
def pathDirname (p : String) : String :=
  let head := (p.toList.reverse.dropWhile (fun c => c ≠ '/')).reverse
  if head.all (fun c => c = '/') then String.ofList head
  else String.ofList (head.reverse.dropWhile (fun c => c = '/')).reverse

/-- `s.split('/')` -/
def splitSlash : List Char → List (List Char)
  | [] => [[]]
  | c :: cs =>
    match splitSlash cs with
    | [] => [[]]
    | h :: t => if c = '/' then [] :: h :: t else (c :: h) :: t

/-- the absolute normal path with these components (innermost first) -/
def stackPath (stack : List (List Char)) : String :=
  match stack with
  | [] => "/"
  | _ => String.ofList (stack.reverse.flatMap (fun c => '/' :: c))

/-- one component of a path, applied lexically: "" and "." stay, ".." pops, a name pushes -/
def stepComp (stack : List (List Char)) (c : List Char) : List (List Char) :=
  if c = [] ∨ c = ['.'] then stack else if c = ['.', '.'] then stack.tail else c :: stack

/-- `os.path.normpath` / `os.path.abspath` of an absolute path that does not start with "//":
    purely lexical -/
def normPath (p : String) : String :=
  match p.toList with
  | '/' :: cs => stackPath ((splitSlash cs).foldl stepComp [])
  | _ => p

/-! ### what the operating system does with a path string (no symbolic links) -/

/-- the directory with these components exists (the root always does) -/
def FS.dirAt (fs : FS) (stack : List (List Char)) : Bool :=
  stack.isEmpty || fs.dirs.contains (stackPath stack)

/-- walk the components; every step starts from an existing directory -/
def FS.walk (fs : FS) : List (List Char) → List (List Char) → Option (List (List Char))
  | stack, [] => some stack
  | stack, c :: rest => if fs.dirAt stack then fs.walk (stepComp stack c) rest else none

/-- the normal form of the existing file or directory the string `p` names; `none` = no such
    file or directory (or not a directory on the way, or `p` is not absolute) -/
def FS.resolve (fs : FS) (p : String) : Option String :=
  match p.toList with
  | '/' :: cs =>
    match fs.walk [] (splitSlash cs) with
    | some stack =>
      let q := stackPath stack
      if fs.dirAt stack || (fs.files.lookup q).isSome then some q else none
    | none => none
  | _ => none

/-- `os.path.exists(p)` -/
def FS.existsAt (fs : FS) (p : String) : Bool := (fs.resolve p).isSome
/-- `os.path.isdir(p)` -/
def FS.isDirAt (fs : FS) (p : String) : Bool :=
  match fs.resolve p with
  | some q => q = "/" || fs.dirs.contains q
  | none => false
/-- `open(p, 'rb').read()`; `none` = no such regular file -/
def FS.readAt (fs : FS) (p : String) : Option (List Nat) := (fs.resolve p).bind (fun q => fs.files.lookup q)

/-- a path string inside the model: no leading "//", no NUL -/
def pathOk (p : String) : Bool :=
  !(("//".toList).isPrefixOf p.toList) && !p.toList.contains '\x00'

/-- an absolute path string inside the model -/
def absOk (p : String) : Bool := p.toList.head? = some '/' && pathOk p

/-- `str.splitlines()`: \n, \r\n, \r, \v, \f, \x1c, \x1d, \x1e, and outside ASCII \x85 (NEL),
    \u2028 (LINE SEPARATOR), \u2029 (PARAGRAPH SEPARATOR) — so such a character inside a comment
    or inside the text of a `string` line ends the line there -/
def isLineBreak (c : Char) : Bool :=
  c = '\n' || c = '\r' || c = '\x0b' || c = '\x0c' || c = '\x1c' || c = '\x1d' || c = '\x1e' ||
  c = '\x85' || c = '\u2028' || c = '\u2029'

def splitLinesAux : List Char → List Char → List (List Char)
  | [], cur => if cur.isEmpty then [] else [cur.reverse]
  | '\r' :: '\n' :: rest, cur => cur.reverse :: splitLinesAux rest []
  | c :: rest, cur =>
    if isLineBreak c then cur.reverse :: splitLinesAux rest [] else splitLinesAux rest (c :: cur)

def splitLines (s : List Char) : List (List Char) := splitLinesAux s []

/-- `s.split()` : maximal runs of non-whitespace -/
def splitWs (l : List Char) : List (List Char) :=
  (chunks (l.map (fun c => if c = ',' then '\x01' else c))).map (fun w => w.map (fun c => if c = '\x01' then ',' else c))

def lowerL (l : List Char) : List Char := l.map Char.toLower

def stripQuotes (l : List Char) : List Char :=
  let q := fun c => c = '"' || c = '\''
  ((l.dropWhile q).reverse.dropWhile q).reverse

/-- `lookup(path, dirs)` -/
def lookupPath (fs : FS) (rel : String) : List String → Option String
  | [] => none
  | d :: ds => if fs.existsAt (pathJoin d rel) then some (pathJoin d rel) else lookupPath fs rel ds

/-- an include / include_bytes line with a character outside ASCII (in the path, or Unicode white
    space that `str.split()` would honour) is outside the model -/
def includeLineOk (raw : List Char) : Bool :=
  if ("include ".toList).isPrefixOf (lowerL raw) || ("include_bytes ".toList).isPrefixOf (lowerL raw)
  then raw.all (fun c => c.toNat < 128) else true

/-- a source text inside the model: its include / include_bytes lines are ASCII (non-ASCII text
    elsewhere is the lexer's business: `string` text, `error` messages and comments are modelled,
    anything else is `unsupported` there) -/
def sourceOk (text : List Char) : Bool := (splitLines text).all includeLineOk

/-- `open(path).read()`: the file decoded as UTF-8 (the locale encoding of the runs; strict —
    an ill-formed file is a raw UnicodeDecodeError in the real code and `none` here), and inside
    the model (`sourceOk`) -/
def bytesToText (bs : List Nat) : Option (List Char) :=
  match Utf8.decode bs with
  | some cps =>
    if cps.all Utf8.isScalar then
      let text := cps.map Char.ofNat
      if sourceOk text then some text else none
    else none
  | none => none

/-- the directory nested includes of the file `p` are relative to:
    `os.path.dirname(os.path.abspath(p))` -/
def baseOf (p : String) : String := pathDirname (normPath p)

/-- read_lines on an already-read source; `fuel` bounds the include depth -/
def readLinesAux (fs : FS) (includeDirs : List String) : Nat → String → String → List Char →
    Except Err (List Line)
  | 0, _, _, _ => .error (.unsupported "include depth")
  | fuel + 1, path, basePath, source =>
    let currentDirs := includeDirs ++ [basePath]
    let rec go (n : Nat) : List (List Char) → Except Err (List Line)
      | [] => .ok []
      | raw :: rest =>
        if (stripWs raw).isEmpty then go (n + 1) rest
        else
          let line : Line := { file := path, number := n, contents := String.ofList raw }
          let low := lowerL raw
          if ("include ".toList).isPrefixOf low then
            -- strip any comments from the include line, isolate the path, strip quotes
            match splitWs (stripComment raw) with
            | [_, rel] =>
              let rel := String.ofList (stripQuotes rel)
              if !(pathOk rel) then .error (.unsupported "include path form") else
              match lookupPath fs rel currentDirs with
              | none => .error (.asm line)
              | some incPath =>
                if fs.isDirAt incPath then .error (.internal "IsADirectoryError") else
                match fs.readAt incPath with
                | none => .error (.internal "FileNotFoundError")
                | some bs =>
                  match bytesToText bs with
                  | none => .error (.unsupported "non-ASCII source")
                  | some src => do
                    let inc ← readLinesAux fs includeDirs fuel incPath (baseOf incPath) src
                    let more ← go (n + 1) rest
                    pure (inc ++ more)
            | _ => .error (.asm line)
          else if ("include_bytes ".toList).isPrefixOf low then
            match splitWs raw with
            | [kw, rel] =>
              let rel := String.ofList rel
              if !(pathOk rel) then .error (.unsupported "include path form") else
              match lookupPath fs rel currentDirs with
              | none => .error (.asm line)
              | some incPath =>
                match fs.readAt incPath with
                | none => .error (.unsupported "include_bytes of a directory")
                | some bs => do
                  let line' : Line := { line with
                    contents := String.ofList kw ++ " " ++ incPath ++ " " ++ toString bs.length }
                  let more ← go (n + 1) rest
                  pure (line' :: more)
            | _ => .error (.asm line)
          else do
            let more ← go (n + 1) rest
            pure (line :: more)
    termination_by rest => (fuel, rest.length + 1)
    go 1 (splitLines source)
termination_by fuel _ _ _ => (fuel, 0)

/-- what `assemble()` is given: source text, or the path of a file -/
inductive Input where
  | source (text : String)
  | path (p : String)
  deriving Repr

/-- `lex_tokens(line)`: an escape unicode_escape rejects in an `error` / `string` line is an
    AssemblerError on that line (fix b49f1cd) -/
def lexLine (l : Line) : Except Err (List String) :=
  match lexTokens l.contents.toList with
  | .ok t => .ok t
  | .error e => if e = .internal "UnicodeDecodeError" then .error (.asm l) else .error e

/-- read + lex + parse (asm.py:3365-3372) -/
def frontEnd (fs : FS) (cwd : String) (includeDirs : List String) (input : Input) : Except Err (List Item) := do
  if !normAbs cwd then throw (.unsupported "cwd form")
  if !includeDirs.all absOk then throw (.unsupported "include dir form")
  let fuel := fs.files.length + 2
  let lines ← match input with
    | .source text =>
      if !sourceOk text.toList then throw (.unsupported "non-ASCII source")
      readLinesAux fs includeDirs fuel "<string>" cwd text.toList
    | .path p =>
      if !absOk p then throw (.unsupported "path form")
      match fs.readAt p with
      | none => throw (.unsupported "main file missing")
      | some bs =>
        match bytesToText bs with
        | none => throw (.unsupported "non-ASCII source")
        | some src => readLinesAux fs includeDirs fuel p (baseOf p) src
  let lines := lines.filter (fun l => l.contents.length > 0)
  -- tokens = [lex_tokens(l) for l in lines]; tokens = [t for t in tokens if len(t) > 0]
  let rec lexAll : List Line → Except Err (List (Line × List String))
    | [] => .ok []
    | l :: rest => do
      let toks ← lexLine l
      let more ← lexAll rest
      pure (if toks.isEmpty then more else (l, toks) :: more)
  -- items = [parse_item(t) for t in tokens]
  let rec parseAll : List (Line × List String) → Except Err (List Item)
    | [] => .ok []
    | (l, toks) :: rest => do
      let it ← parseItem l toks
      let more ← parseAll rest
      pure (it :: more)
  let toks ← lexAll lines
  parseAll toks

def textHooks (fs : FS) : Hooks :=
  { arith := evalArith, parseImm := parseImmediate, readFile := fun p => fs.readAt p }

/-- `assemble(path_or_source, compress=…, include_dirs=…)` with fresh label / constant tables -/
def assembleText (fs : FS) (cwd : String) (includeDirs : List String) (compress : Bool) (input : Input) :
    Except Err AsmResult := do
  let items ← frontEnd fs cwd includeDirs input
  assembleItems (textHooks fs) compress items [] []

end BB
