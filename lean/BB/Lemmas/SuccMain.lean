/-
  BB.Lemmas.SuccMain — every item of the -c run's final list lands (`lands_run1`, `lands_final`), from
  the plain run's `Land`, `Corr`, `SpanOK` and `Good`.
-/
import BB.Lemmas.SuccCases
set_option linter.unusedSimpArgs false
set_option linter.unusedVariables false
namespace BB.Lemmas
open BB BB.Spec
open BB.Props.C03 (Land Finish)
open BB.Props.C20 (GrowHyps)

variable {H : Hooks} {constants : Dict}

/-! ### `Land` on ghost lists -/

theorem land_ghost {L : Dict} : ∀ (G : List Item) (p : Int) (out : List Item),
    Land H constants L p (strip G) out →
    ∀ P a S, G = P ++ a :: S → (∀ l n, a ≠ .label l n) → Lands H constants L (p + sizeSum P) a := by
  intro G
  induction G with
  | nil => intro p out _ P a S e; simp at e
  | cons y G ih =>
    intro p out h P a S e hnl
    by_cases hl : ∃ l n, y = .label l n
    · obtain ⟨l, n, rfl⟩ := hl
      rw [strip_label] at h
      cases P with
      | nil =>
        simp only [List.nil_append, List.cons.injEq] at e
        exact absurd e.1.symm (hnl l n)
      | cons p0 P =>
        simp only [List.cons_append, List.cons.injEq] at e
        obtain ⟨rfl, e⟩ := e
        have := ih p out h P a S e hnl
        rw [sizeSum_cons, sizeD_label]
        have e2 : p + (0 + sizeSum P) = p + sizeSum P := by omega
        rw [e2]; exact this
    · have hynl : ∀ l n, y ≠ .label l n := fun l n e => hl ⟨l, n, e⟩
      rw [strip_cons_of_not_label hynl] at h
      cases h with
      | @step _ _ it' line d _ out' hbody hfin hlen hrest =>
        cases P with
        | nil =>
          simp only [List.nil_append, List.cons.injEq] at e
          obtain ⟨rfl, _⟩ := e
          simp only [sizeSum, List.map_nil, List.sum_nil, Int.add_zero]
          exact ⟨it', line, d, hbody, hfin, hlen⟩
        | cons p0 P =>
          simp only [List.cons_append, List.cons.injEq] at e
          obtain ⟨e0, e⟩ := e
          have := ih (p + d.length) out' hrest P a S e hnl
          rw [sizeSum_cons, ← e0]
          have e2 : p + (y.sizeD + sizeSum P) = p + (d.length : Int) + sizeSum P := by omega
          rw [e2]; exact this

theorem landsG_to_land {L : Dict} : ∀ (G : List Item) (p : Int),
    (∀ P a S, G = P ++ a :: S → (∀ l n, a ≠ .label l n) → Lands H constants L (p + sizeSum P) a) →
    ∃ out, Land H constants L p (strip G) out := by
  intro G
  induction G with
  | nil => intro p _; exact ⟨[], .nil p⟩
  | cons y G ih =>
    intro p h
    by_cases hl : ∃ l n, y = .label l n
    · obtain ⟨l, n, rfl⟩ := hl
      rw [strip_label]
      apply ih p
      intro P a S e hnl
      have := h (.label l n :: P) a S (by rw [e]; rfl) hnl
      rw [sizeSum_cons, sizeD_label] at this
      have e2 : p + (0 + sizeSum P) = p + sizeSum P := by omega
      rw [e2] at this; exact this
    · have hynl : ∀ l n, y ≠ .label l n := fun l n e => hl ⟨l, n, e⟩
      rw [strip_cons_of_not_label hynl]
      obtain ⟨it', line, d, hb, hf, hlen⟩ := h [] y G rfl hynl
      simp only [sizeSum, List.map_nil, List.sum_nil, Int.add_zero] at hb
      obtain ⟨out, ho⟩ := ih (p + d.length) (by
        intro P a S e hnl
        have := h (y :: P) a S (by rw [e]; rfl) hnl
        rw [sizeSum_cons] at this
        have e2 : p + (y.sizeD + sizeSum P) = p + (d.length : Int) + sizeSum P := by omega
        rw [e2] at this; exact this)
      exact ⟨.blob line d :: out, .step p hb hf hlen ho⟩

theorem lands_blob {L : Dict} (q : Int) (l : Line) (zs : List Nat) : Lands H constants L q (.blob l zs) := by
  refine ⟨.blob l zs, l, zs, ?_, ⟨_, _, _, _, rfl, rfl, rfl, rfl, rfl⟩, ?_⟩
  · simp [immBody, keepItem, Item.sizeE, Item.size?, bind, Except.bind, pure, Except.pure]
  · simp [Item.sizeD, Item.size?]

/-! ### `Good` of the plain run's decided list -/

theorem srcOK_good {names : List String} {x : Item} (h : SrcOK H constants names x) (hnp : ∀ l n a, x ≠ .pseudo l n a) :
    Good H constants names x := by
  cases x with
  | instr line ins =>
    simp only [SrcOK] at h
    obtain ⟨hwk, haj, himm⟩ := h
    simp only [Good]
    rcases himm with hfree | ⟨n, hn, hc, hoff, hs⟩
    · exact Or.inl ⟨hfree, haj⟩
    · exact Or.inr ⟨n, hn, hc, Or.inl ⟨⟨hwk, hs⟩, hoff⟩⟩
  | pseudo l n a => exact absurd rfl (hnp l n a)
  | pack l f i => exact h
  | shorthandPack l f i => exact h
  | _ => trivial

theorem good_pseudo_trivial {names : List String} (l : Line) (n : String) (a : List String) :
    Good H constants names (.pseudo l n a) := trivial

/-- every item of the plain run's decided ghost list is `Good` -/
theorem good_A5 (hoff : OffsetHook H) (hlit : ∀ line p env, LitOK (evalAt H env line p)) (hneg : Neg1OK H)
    {names : List String} {G1 A4 : List Item} {l2 l4 : Dict}
    (hsrc : ∀ x ∈ G1, (∀ l n a, x ≠ .pseudo l n a) → Good H constants names x)
    (hps : ∀ line name args, Item.pseudo line name args ∈ G1 → PseudoGood H constants names line name args)
    (wa4 : walk (pseudoBody H constants) G1 0 l2 = .ok (A4, l4)) :
    ∀ a ∈ resolveRegisterAliases A4 constants, Good H constants names a := by
  apply good_aliases
  intro a ha
  obtain ⟨_, hmem⟩ := walk_out_mem [] G1 0 l2 A4 l4 (defined_nil _) wa4
  rcases hmem a ha with h | ⟨it, hit, hnl, q, Lq, repl, n, _, hb, hr⟩
  · by_cases hp : ∃ l n ar, a = .pseudo l n ar
    · obtain ⟨l, n, ar, rfl⟩ := hp; trivial
    · exact hsrc a h (fun l n ar e => hp ⟨l, n, ar, e⟩)
  · by_cases hp : ∃ l n ar, it = .pseudo l n ar
    · obtain ⟨line, name, args, rfl⟩ := hp
      simp only [pseudoBody, bind, Except.bind] at hb
      cases he : expandPseudo H (chainGet constants Lq) line name args q with
      | error e => simp [he] at hb
      | ok r =>
        obtain ⟨instrs, short⟩ := r
        simp only [he, pure, Except.pure, Except.ok.injEq, Prod.mk.injEq] at hb
        obtain ⟨rfl, _⟩ := hb
        obtain ⟨i, hi, rfl⟩ := List.mem_map.mp hr
        unfold expandPseudo at he
        cases hk : pseudoKind name with
        | none => simp [hk] at he
        | some k =>
          simp only [hk] at he
          exact expansion_good hoff hlit hneg hk (hps line name args hit) he i hi
    · have hnp : ∀ l n ar, it ≠ .pseudo l n ar := fun l n ar e => hp ⟨l, n, ar, e⟩
      obtain ⟨rfl, _⟩ := keep_pseudoBody hnp hb
      simp only [List.mem_singleton] at hr
      subst hr
      exact hsrc a hit hnp

/-! ### one item of the -c run -/

theorem decided_name_base {line : Line} {cf ins : Instr} {c : String} {preds : List Pred} {p : Int} {L : Dict}
    (d : DecidedAt H constants line cf ins c preds p L) : ins.name ∈ baseNames := by
  obtain ⟨_, _, hmem, hall, _⟩ := d
  have hp := (allPreds_true_iff H _ line ins p preds).mp hall
  simp only [criteria, List.mem_cons, Prod.mk.injEq, List.mem_nil_iff, or_false] at hmem
  rcases hmem with ⟨rfl, rfl⟩ | ⟨rfl, rfl⟩ | ⟨rfl, rfl⟩ | ⟨rfl, rfl⟩ | ⟨rfl, rfl⟩ | ⟨rfl, rfl⟩ | ⟨rfl, rfl⟩ |
    ⟨rfl, rfl⟩ | ⟨rfl, rfl⟩ | ⟨rfl, rfl⟩ | ⟨rfl, rfl⟩ | ⟨rfl, rfl⟩ | ⟨rfl, rfl⟩ | ⟨rfl, rfl⟩ | ⟨rfl, rfl⟩ |
    ⟨rfl, rfl⟩ | ⟨rfl, rfl⟩ | ⟨rfl, rfl⟩ | ⟨rfl, rfl⟩ | ⟨rfl, rfl⟩ | ⟨rfl, rfl⟩ | ⟨rfl, rfl⟩ | ⟨rfl, rfl⟩ |
    ⟨rfl, rfl⟩ | ⟨rfl, rfl⟩ | ⟨rfl, rfl⟩ | ⟨rfl, rfl⟩ | ⟨rfl, rfl⟩ | ⟨rfl, rfl⟩
  all_goals (
    have hn := hp _ List.mem_cons_self
    simp only [Pred.holds] at hn
    rw [hn]; decide)

theorem instr_pos (line : Line) (i : Instr) : 0 < (Item.instr line i).sizeD := by
  rw [instr_sizeD]; split <;> omega

theorem refs_instr {line : Line} {ins : Instr} {imm : Imm} {n : String} (hi : ins.imm? = some imm)
    (hr : refOf imm = some n) : Item.refs (.instr line ins) n := Or.inl ⟨line, ins, imm, rfl, hi, hr⟩

theorem lands_run1 {la7 lb7 : Dict} {A5 B6 : List Item} {names : List String}
    (hlit : ∀ line p env, LitOK (evalAt H env line p))
    (corr : Corr H constants A5 B6) (nn0 : NonNeg A5) (nn1 : NonNeg B6) (nodup : (labelNames B6).Nodup)
    (hnames : labelNames B6 = names)
    (agree0 : ∀ ℓ u, labelPos (alignImg A5 0) 0 ℓ = some u → la7.get ℓ = some u)
    (agree1 : ∀ ℓ u, labelPos (alignImg B6 0) 0 ℓ = some u → lb7.get ℓ = some u)
    (span : SpanOK B6) (good : ∀ a ∈ A5, Good H constants names a)
    (lands0 : ∀ P a S, alignImg A5 0 = P ++ a :: S → (∀ l n, a ≠ .label l n) → Lands H constants la7 (sizeSum P) a)
    {P1 : List Item} {x : Item} {S1 : List Item} (hB : B6 = P1 ++ x :: S1)
    (hxnl : ∀ l n, x ≠ .label l n) (hxna : ∀ l a, x ≠ .align l a)
    (horacle : ∀ line cf, x = .instr line cf → cf.isCompressed = true →
      DecOracle H constants lb7 names (sizeSum (alignImg P1 0)) line cf) :
    Lands H constants lb7 (sizeSum (alignImg P1 0)) x := by
  have corr' := corr
  rw [hB] at corr'
  obtain ⟨P0, S0, cP, cS, hor⟩ := corr'.split
  -- distances, once the label is known
  have dist : ∀ (m0 : List Item) (n : String), A5 = P0 ++ (m0 ++ S0) → Corr H constants m0 [x] → Item.refs x n →
      n ∈ names → 0 < x.sizeD →
      ∃ d0 d1 : Int, la7.get n = some (sizeSum (alignImg P0 0) + d0) ∧ lb7.get n = some (sizeSum (alignImg P1 0) + d1) ∧
        Closer d0 d1 ∧ d1 % 2 = d0 % 2 ∧ -1048575 ≤ d1 ∧ d1 ≤ 1048575 := by
    intro m0 n hA cm hr hn hpos
    obtain ⟨d0, d1, e0, e1, hcl, hpar, hlo, hhi⟩ :=
      two_run_dist hB hA cP cS cm hr span nn1 nn0 nodup (by rw [hnames]; exact hn) hpos
    exact ⟨d0, d1, agree0 n _ e0, agree1 n _ e1, hcl, hpar, hlo, hhi⟩
  rcases hor with ⟨a, hA, hs⟩ | ⟨line, rd, rA, imm, hA, hs⟩
  · -- one item of the plain run
    have hanl : ∀ l n, a ≠ .label l n := hs.not_label.mpr hxnl
    have hana : ∀ l al, a ≠ .align l al := hs.not_align.mpr hxna
    have hA' : A5 = P0 ++ ([a] ++ S0) := by rw [hA]; rfl
    have himg : alignImg A5 0 = alignImg P0 0 ++ a :: alignImg S0 (0 + sizeSum (alignImg P0 0) + a.sizeD) := by
      rw [hA, alignImg_append, alignImg_cons_of_not_align hana]
    have hl0 := lands0 _ a _ himg hanl
    have hgood := good a (by rw [hA]; exact List.mem_append_right _ List.mem_cons_self)
    cases hs with
    | same =>
      -- the same item in both runs
      cases x with
      | instr line ins =>
        simp only [Good] at hgood
        rcases hgood with ⟨hfree, _⟩ | ⟨n, hn, hc, hshape⟩
        · exact lands_indep (x := .instr line ins) hfree hl0
        · have hrefs : Item.refs (.instr line ins) n := by
            rcases hshape with ⟨_, hi⟩ | ⟨rA, rfl⟩ | ⟨rd, rA, rfl⟩
            · exact refs_instr hi rfl
            · exact refs_instr rfl rfl
            · exact refs_instr rfl rfl
          obtain ⟨d0, d1, e0, e1, hcl, hpar, _, _⟩ :=
            dist [.instr line ins] n hA' (.step (.same _) .nil) hrefs hn (instr_pos line ins)
          rcases hshape with ht1 | ⟨rA, rfl⟩ | ⟨rd, rA, rfl⟩
          · exact lands_T1 ht1 hc e0 e1 hcl hpar hl0
          · exact lands_T2 hc e0 e1 hl0
          · exact lands_T3 hc e0 e1 hpar hl0
      | pack l f i => exact lands_indep (x := .pack l f i) hgood hl0
      | shorthandPack l f i => exact lands_indep (x := .shorthandPack l f i) hgood hl0
      | label l n => exact absurd rfl (hxnl l n)
      | constant l n e => exact lands_indep (x := .constant l n e) trivial hl0
      | includeBytes l pth sz => exact lands_indep (x := .includeBytes l pth sz) trivial hl0
      | string l v => exact lands_indep (x := .string l v) trivial hl0
      | sequence l nm vs => exact lands_indep (x := .sequence l nm vs) trivial hl0
      | align l al => exact absurd rfl (hxna l al)
      | blob l d => exact lands_indep (x := .blob l d) trivial hl0
      | pseudo l nm ar => exact lands_indep (x := .pseudo l nm ar) trivial hl0
    | comp line ins cf c preds p L d hfix =>
      simp only [Good] at hgood
      rcases hgood with ⟨hfree, _⟩ | ⟨n, hn, hc, hshape⟩
      · exact lands_comp_free hlit d hfree hl0
      · rcases hshape with ⟨htr, himm⟩ | ⟨rA, rfl⟩ | ⟨rd, rA, rfl⟩
        · -- a compressed transfer
          obtain ⟨hname, hcfimm⟩ := compressedForm_of_transfer d.2.2.2.2 htr.2
          have hcfi : cf.imm? = some (.offset n) := by rw [hcfimm]; exact himm
          obtain ⟨d0, d1, e0, e1, hcl, hpar, _, _⟩ :=
            dist [.instr line ins] n hA' (.step (.comp line ins cf c preds p L d hfix) .nil)
              (refs_instr hcfi rfl) hn (instr_pos line cf)
          -- the plain run's distance is even
          have hev0 : d0 % 2 = 0 := by
            obtain ⟨rins0, bs0, hres0, henc0⟩ := accepts_of_lands hl0
            simp only [ajPos, isTransfer_aj htr, Bool.false_eq_true, if_false] at hres0
            have ev0 : evalAt H (chainGet constants la7) line (sizeSum (alignImg P0 0)) (.offset n) = some d0 := by
              rw [evalAt_offset _ hc e0]; congr 1; omega
            simp only [resolveWith, himm, ev0, Option.map_some, Option.some.injEq] at hres0
            subst hres0
            exact ((transfer_encode_iff htr line d0).mp ⟨bs0, henc0⟩).2.2.2
          exact lands_comp_transfer (d1 := d1) hlit (horacle line cf rfl (compressedForm_sizes d.2.2.2.2).2) hname hcfi hn hc
            (by rw [e1]; congr 1; omega) (by omega)
        · exact absurd (decided_name_base d) (by simp [Instr.name, baseNames])
        · have := d.2.1
          simp [Instr.isAuipcJump] at this
  · -- a far pair of the plain run, near in the -c run
    have hA' : A5 = P0 ++ ([.instr line (.u "auipc" rA (.hi imm)), .instr line (.i "jalr" rd rA (.lo imm) true)] ++ S0) := by
      rw [hA]; rfl
    have hgood := good (.instr line (.i "jalr" rd rA (.lo imm) true))
      (by rw [hA]; exact List.mem_append_right _ (List.mem_cons_of_mem _ List.mem_cons_self))
    simp only [Good] at hgood
    rcases hgood with ⟨_, haj⟩ | ⟨n, hn, hc, hshape⟩
    · simp [Instr.isAuipcJump] at haj
    have himm : imm = .offset n := by
      rcases hshape with ⟨htr, _⟩ | ⟨rA', e⟩ | ⟨rd', rA', e⟩
      · rcases htr.2 with ⟨_, _, _, _, e⟩ | ⟨_, _, _, e⟩ <;> cases e
      · cases e
      · simp only [Instr.i.injEq, Imm.lo.injEq] at e; exact e.2.2.2.1
    subst himm
    -- the plain run's jalr
    have himg : alignImg A5 0 = (alignImg P0 0 ++ [.instr line (.u "auipc" rA (.hi (.offset n)))]) ++
        .instr line (.i "jalr" rd rA (.lo (.offset n)) true) :: alignImg S0 (0 + sizeSum (alignImg P0 0) + 4 + 4) := by
      rw [hA, alignImg_append, alignImg_cons_of_not_align (by intro l a e; cases e),
        alignImg_cons_of_not_align (by intro l a e; cases e)]
      simp [instr_sizeD, Instr.isCompressed]
    have hl0 := lands0 _ _ _ himg (by intro l m e; cases e)
    obtain ⟨rins0, bs0, hres0, henc0⟩ := accepts_of_lands hl0
    have hxrefs : Item.refs x n ∧ 0 < x.sizeD := by
      cases hs with
      | same => exact ⟨refs_instr rfl rfl, instr_pos _ _⟩
      | comp _ _ cf c preds p L d hfix =>
        obtain ⟨_, hcfimm⟩ := compressedForm_of_transfer d.2.2.2.2 (Or.inr ⟨_, _, _, rfl⟩)
        exact ⟨refs_instr hcfimm rfl, instr_pos _ _⟩
    obtain ⟨d0, d1, e0, e1, hcl, hpar, hlo, hhi⟩ := dist _ n hA' (.near line rd rA (.offset n) hs .nil) hxrefs.1 hn hxrefs.2
    have hq : sizeSum (alignImg P0 0 ++ [Item.instr line (.u "auipc" rA (.hi (.offset n)))]) - 4 = sizeSum (alignImg P0 0) := by
      rw [sizeSum_append]; simp [sizeSum, instr_sizeD, Instr.isCompressed]
    simp only [ajPos, Instr.isAuipcJump, if_true, resolveWith, Instr.imm?, hq, evalAt_lo _ hc e0,
      Option.map_some, Option.some.injEq, Instr.setImm] at hres0
    subst hres0
    obtain ⟨⟨r1, hr1⟩, _, hev⟩ := jalr_lo_facts henc0
    have hev1 : d1 % 2 = 0 := by omega
    cases hs with
    | same => exact lands_jal hr1 hc e1 hev1 hlo hhi
    | comp _ _ cf c preds p L d hfix =>
      obtain ⟨hname, hcfimm⟩ := compressedForm_of_transfer d.2.2.2.2 (Or.inr ⟨_, _, _, rfl⟩)
      exact lands_comp_transfer (d1 := d1) hlit (horacle line cf rfl (compressedForm_sizes d.2.2.2.2).2) hname hcfimm hn hc
        (by rw [e1]; congr 1; omega) hev1

/-- every item of the -c run's final ghost list lands -/
theorem lands_final {la7 lb7 : Dict} {A5 B6 : List Item} {names : List String}
    (hlit : ∀ line p env, LitOK (evalAt H env line p))
    (corr : Corr H constants A5 B6) (nn0 : NonNeg A5) (nn1 : NonNeg B6) (nodup : (labelNames B6).Nodup)
    (hnames : labelNames B6 = names)
    (agree0 : ∀ ℓ u, labelPos (alignImg A5 0) 0 ℓ = some u → la7.get ℓ = some u)
    (agree1 : ∀ ℓ u, labelPos (alignImg B6 0) 0 ℓ = some u → lb7.get ℓ = some u)
    (span : SpanOK B6) (good : ∀ a ∈ A5, Good H constants names a)
    {out0 : List Item} (hland0 : Land H constants la7 0 (strip (alignImg A5 0)) out0)
    (horacle : ∀ P line cf S, alignImg B6 0 = P ++ .instr line cf :: S → cf.isCompressed = true →
      DecOracle H constants lb7 names (sizeSum P) line cf) :
    ∃ out1, Land H constants lb7 0 (strip (alignImg B6 0)) out1 := by
  apply landsG_to_land
  intro P x S e hxnl
  rw [Int.zero_add]
  rcases alignImg_split B6 0 P x S e with ⟨l, zs, rfl⟩ | ⟨P1, S1, hB, hxna, rfl⟩
  · exact lands_blob _ l zs
  · refine lands_run1 hlit corr nn0 nn1 nodup hnames agree0 agree1 span good ?_ hB hxnl hxna ?_
    · intro P a S' ea hanl
      have := land_ghost _ 0 out0 hland0 P a S' ea hanl
      rw [Int.zero_add] at this; exact this
    · intro line cf ex hc
      subst ex
      exact horacle _ line cf S e hc

end BB.Lemmas
