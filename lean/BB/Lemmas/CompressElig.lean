/-
  BB.Lemmas.CompressElig — the decision logic against the RVC specification, per base mnemonic:
  if the 32-bit instruction (registers `r`, immediate `v`) is the expansion of a legal RV32C
  instruction (`eligible`, Spec/Compressible — written from the RVC chapter, independent of the
  `criteria` table), then the numeric decision procedure `firstMatchN` finds a criterion.
-/
import BB.Lemmas.CompressDecide
import Mathlib.Tactic.CasesM
set_option linter.unusedSimpArgs false
set_option linter.unusedVariables false
set_option linter.unusedTactic false
namespace BB.Lemmas
open BB BB.Spec
open BB.Props.C02 (mnOf)

theorem any_ite {α : Type} (c : Prop) [Decidable c] (l1 l2 : List α) (f : α → Bool) :
    (if c then l1 else l2).any f = if c then l1.any f else l2.any f := by split <;> rfl

theorem bool_ite_eq_true (c : Prop) [Decidable c] (a b : Bool) :
    (if c then a else b) = true ↔ (c ∧ a = true) ∨ (¬ c ∧ b = true) := by
  split <;> simp [*]

set_option hygiene false in
/-- unfold `eligible` on a concrete instruction shape into arithmetic (hypothesis `h`) -/
macro "elig_unfold" : tactic =>
  `(tactic| (
    simp only [eligible, candidates, List.any_filter, List.any_cons, List.any_nil, List.any_append, legal_text, mnOf,
      CInstr.text, legalOf16, expand16, beq_iff_eq, Instr32.i.injEq, Instr32.load.injEq, Instr32.store.injEq,
      Instr32.lui.injEq, Instr32.jal.injEq, Instr32.branch.injEq, Instr32.sh.injEq, Instr32.r.injEq,
      Instr32.jalr.injEq, Bool.or_eq_true, Bool.and_eq_true, decide_eq_true_eq,
      isReg, isRegC, simm, uimm, multOf, Bool.or_false, Int.reducePow, Nat.reduceSub, Nat.reducePow, ne_eq,
      bne_iff_ne, Bool.not_eq_true', decide_eq_false_iff_not, true_and, and_true, Bool.decide_and, Bool.and_true,
      Bool.true_and, Bool.false_and, Bool.and_false, reduceCtorEq, false_and, and_false, or_false, false_or,
      any_ite, bool_ite_eq_true, ite_true, ite_false, Bool.false_eq_true, and_false, or_false] at h))

set_option hygiene false in
/-- unfold `firstMatchN name r v criteria` into the if-chain over the entries of that mnemonic and
    close the goal from the (already arithmetic) hypothesis `h` -/
macro "elig_close" : tactic =>
  `(tactic| (
    simp only [criteria, firstMatchN, List.all_cons, List.all_nil, Pred.evalN, Bool.and_true, String.reduceEq,
      decide_false, decide_true, Bool.false_and, Bool.true_and, if_false, Bool.false_eq_true,
      Bool.and_eq_true, decide_eq_true_eq, ge_iff_le, ne_eq]
    try casesm* _ ∨ _
    all_goals (
      repeat' split
      all_goals first | rfl | (exfalso; omega))))

theorem elig_addi (r : Fld → Nat) (v : Int) (h : eligible (.i .addi (r .rd) (r .rs1) v) = true) :
    (firstMatchN "addi" r v criteria).isSome = true := by
  elig_unfold; elig_close

theorem elig_andi (r : Fld → Nat) (v : Int) (h : eligible (.i .andi (r .rd) (r .rs1) v) = true) :
    (firstMatchN "andi" r v criteria).isSome = true := by
  elig_unfold; elig_close

theorem elig_lw (r : Fld → Nat) (v : Int) (h : eligible (.load .lw (r .rd) (r .rs1) v) = true) :
    (firstMatchN "lw" r v criteria).isSome = true := by
  elig_unfold; elig_close

theorem elig_sw (r : Fld → Nat) (v : Int) (h : eligible (.store .sw (r .rs1) (r .rs2) v) = true) :
    (firstMatchN "sw" r v criteria).isSome = true := by
  elig_unfold; elig_close

theorem elig_jal (r : Fld → Nat) (v : Int) (h : eligible (.jal (r .rd) v) = true) :
    (firstMatchN "jal" r v criteria).isSome = true := by
  elig_unfold; elig_close

theorem elig_beq (r : Fld → Nat) (v : Int) (h : eligible (.branch .beq (r .rs1) (r .rs2) v) = true) :
    (firstMatchN "beq" r v criteria).isSome = true := by
  elig_unfold; elig_close

theorem elig_bne (r : Fld → Nat) (v : Int) (h : eligible (.branch .bne (r .rs1) (r .rs2) v) = true) :
    (firstMatchN "bne" r v criteria).isSome = true := by
  elig_unfold; elig_close

theorem elig_srli (r : Fld → Nat) (v : Int) (h : eligible (.sh .srli (r .rd) (r .rs1) (r .rs2)) = true) :
    (firstMatchN "srli" r v criteria).isSome = true := by
  elig_unfold; elig_close

theorem elig_srai (r : Fld → Nat) (v : Int) (h : eligible (.sh .srai (r .rd) (r .rs1) (r .rs2)) = true) :
    (firstMatchN "srai" r v criteria).isSome = true := by
  elig_unfold; elig_close

theorem elig_slli (r : Fld → Nat) (v : Int) (h : eligible (.sh .slli (r .rd) (r .rs1) (r .rs2)) = true) :
    (firstMatchN "slli" r v criteria).isSome = true := by
  elig_unfold; elig_close

theorem elig_add (r : Fld → Nat) (v : Int) (h : eligible (.r .add (r .rd) (r .rs1) (r .rs2)) = true) :
    (firstMatchN "add" r v criteria).isSome = true := by
  elig_unfold; elig_close

theorem elig_sub (r : Fld → Nat) (v : Int) (h : eligible (.r .sub (r .rd) (r .rs1) (r .rs2)) = true) :
    (firstMatchN "sub" r v criteria).isSome = true := by
  elig_unfold; elig_close

theorem elig_xor (r : Fld → Nat) (v : Int) (h : eligible (.r .xor (r .rd) (r .rs1) (r .rs2)) = true) :
    (firstMatchN "xor" r v criteria).isSome = true := by
  elig_unfold; elig_close

theorem elig_or (r : Fld → Nat) (v : Int) (h : eligible (.r .or (r .rd) (r .rs1) (r .rs2)) = true) :
    (firstMatchN "or" r v criteria).isSome = true := by
  elig_unfold; elig_close

theorem elig_and (r : Fld → Nat) (v : Int) (h : eligible (.r .and (r .rd) (r .rs1) (r .rs2)) = true) :
    (firstMatchN "and" r v criteria).isSome = true := by
  elig_unfold; elig_close

theorem elig_jalr (r : Fld → Nat) (v : Int) (h : eligible (.jalr (r .rd) (r .rs1) v) = true) :
    (firstMatchN "jalr" r v criteria).isSome = true := by
  elig_unfold; elig_close

/-- lui: the operand must be one the 32-bit encoder accepts (−0x80000 … 0xfffff, both spellings);
    `lui rd, 2^20 + 5` names no instruction at all -/
theorem elig_lui (r : Fld → Nat) (v : Int) (hleg : -524288 ≤ v ∧ v ≤ 1048575)
    (h : eligible (.lui (r .rd) (v % 1048576).toNat) = true) :
    (firstMatchN "lui" r v criteria).isSome = true := by
  elig_unfold; elig_close

theorem elig_ebreak (r : Fld → Nat) (v : Int) : (firstMatchN "ebreak" r v criteria).isSome = true := by
  simp only [criteria, firstMatchN, List.all_cons, List.all_nil, Pred.evalN, Bool.and_true, String.reduceEq,
    decide_false, decide_true, Bool.false_and, Bool.true_and, if_false, Bool.false_eq_true, if_true]
  rfl

end BB.Lemmas
