/-
  BB.Lemmas.SuccDist — the two decided ghost lists (`Corr`) and what resolve_aligns makes of them:
  `alignImg` (the output of resolve_aligns as a function of the list and the start position),
  stretches without `align` go through untouched, sizes of `Corr`-related lists differ by an even,
  non-negative amount, and `Corr` splits at any item of the -c side.
-/
import BB.Lemmas.SuccAccept
set_option linter.unusedSimpArgs false
set_option linter.unusedVariables false
namespace BB.Lemmas
open BB BB.Spec

def NoAlign (s : List Item) : Prop := ∀ x ∈ s, ∀ l a, x ≠ .align l a

theorem NoAlign.append {a b : List Item} (ha : NoAlign a) (hb : NoAlign b) : NoAlign (a ++ b) := by
  intro x hx
  rcases List.mem_append.mp hx with hx | hx
  · exact ha x hx
  · exact hb x hx

theorem NoAlign.cons {x : Item} {s : List Item} (hx : ∀ l a, x ≠ .align l a) (hs : NoAlign s) : NoAlign (x :: s) := by
  intro y hy
  rcases List.mem_cons.mp hy with rfl | hy
  · exact hx
  · exact hs y hy

theorem noAlign_nil : NoAlign [] := fun x hx => by simp at hx

/-! ### resolve_aligns as a function -/

/-- what resolve_aligns puts in the place of `align a` met at position `p` -/
def padItems (l : Line) (a p : Int) : List Item :=
  match alignPadding a p with
  | some pad => if pad = 0 then [] else [.blob l (List.replicate pad.toNat 0)]
  | none => []

def alignImg : List Item → Int → List Item
  | [], _ => []
  | .align l a :: G, p => padItems l a p ++ alignImg G (p + sizeSum (padItems l a p))
  | x :: G, p => x :: alignImg G (p + x.sizeD)

theorem alignImg_cons_of_not_align {x : Item} (h : ∀ l a, x ≠ .align l a) (G : List Item) (p : Int) :
    alignImg (x :: G) p = x :: alignImg G (p + x.sizeD) := by
  cases x <;> first | rfl | exact absurd rfl (h _ _)

theorem alignImg_append (X G : List Item) : ∀ p : Int,
    alignImg (X ++ G) p = alignImg X p ++ alignImg G (p + sizeSum (alignImg X p)) := by
  induction X with
  | nil => intro p; simp [alignImg, sizeSum]
  | cons x X ih =>
    intro p
    by_cases ha : ∃ l a, x = .align l a
    · obtain ⟨l, a, rfl⟩ := ha
      simp only [List.cons_append, alignImg, ih, List.append_assoc, sizeSum_append]
      rw [Int.add_assoc]
    · have hna : ∀ l a, x ≠ .align l a := fun l a e => ha ⟨l, a, e⟩
      rw [List.cons_append, alignImg_cons_of_not_align hna, alignImg_cons_of_not_align hna, ih,
        List.cons_append, sizeSum_cons, Int.add_assoc]

theorem alignImg_noalign {M : List Item} (h : NoAlign M) : ∀ p : Int, alignImg M p = M := by
  induction M with
  | nil => intro p; rfl
  | cons x M ih =>
    intro p
    rw [alignImg_cons_of_not_align (h x List.mem_cons_self), ih (fun y hy => h y (List.mem_cons_of_mem _ hy))]

/-- the list resolve_aligns returns is `alignImg` of its input -/
theorem walk_alignImg (G : List Item) : ∀ (p : Int) (L : Dict) (R : List Item) (L' : Dict),
    walk alignBody G p L = .ok (R, L') → R = alignImg G p := by
  induction G with
  | nil =>
    intro p L R L' h
    simp only [walk, Except.ok.injEq, Prod.mk.injEq] at h
    rw [← h.1]; rfl
  | cons x G ih =>
    intro p L R L' h
    by_cases hl : ∃ l n, x = .label l n
    · obtain ⟨l, n, rfl⟩ := hl
      simp only [walk, bind, Except.bind] at h
      cases hr : walk alignBody G p L with
      | error e => simp [hr] at h
      | ok r =>
        obtain ⟨o, l2⟩ := r
        simp only [hr, pure, Except.pure, Except.ok.injEq, Prod.mk.injEq] at h
        rw [← h.1, ih p L o l2 hr]
        simp [alignImg, sizeD_label]
    · have hnl : ∀ l n, x ≠ .label l n := fun l n e => hl ⟨l, n, e⟩
      rw [walk_cons_of_not_label hnl] at h
      simp only [bind, Except.bind] at h
      cases hb : alignBody x p L with
      | error e => simp [hb] at h
      | ok rn =>
        obtain ⟨repl, n⟩ := rn
        simp only [hb] at h
        cases hr : walk alignBody G (p + sizeSum repl) (L.shiftAbove p n) with
        | error e => simp [hr] at h
        | ok r =>
          obtain ⟨o, l2⟩ := r
          simp only [hr, pure, Except.pure, Except.ok.injEq, Prod.mk.injEq] at h
          rw [← h.1, ih _ _ o l2 hr]
          by_cases ha : ∃ l a, x = .align l a
          · obtain ⟨l, a, rfl⟩ := ha
            have hrepl : repl = padItems l a p := by
              simp only [alignBody] at hb
              unfold padItems
              cases hp : alignPadding a p with
              | none => simp [hp] at hb
              | some pad =>
                simp only [hp] at hb ⊢
                by_cases h0 : pad = 0
                · simp only [h0, if_true, pure, Except.pure, Except.ok.injEq, Prod.mk.injEq] at hb ⊢
                  exact hb.1.symm
                · simp only [h0, if_false] at hb ⊢
                  split at hb
                  · simp at hb
                  · simp only [pure, Except.pure, Except.ok.injEq, Prod.mk.injEq] at hb
                    exact hb.1.symm
            simp only [alignImg, hrepl]
          · have hna : ∀ l a, x ≠ .align l a := fun l a e => ha ⟨l, a, e⟩
            have hk : keepItem x = .ok (repl, n) := by
              cases x <;> first | (simpa [alignBody] using hb) | exact absurd rfl (hna _ _)
            obtain ⟨rfl, rfl⟩ := keepItem_ok hk
            rw [alignImg_cons_of_not_align hna]
            simp [sizeSum]

theorem mem_padItems {l : Line} {a p : Int} {x : Item} (h : x ∈ padItems l a p) : ∃ zs, x = .blob l zs := by
  unfold padItems at h
  split at h
  · split at h
    · simp at h
    · simp only [List.mem_singleton] at h; exact ⟨_, h⟩
  · simp at h

/-- an item of the output of resolve_aligns is padding, or an item of the input that is no `align` -/
theorem alignImg_split (G : List Item) : ∀ (p : Int) (P : List Item) (x : Item) (S : List Item),
    alignImg G p = P ++ x :: S →
    (∃ l zs, x = .blob l zs) ∨
    ∃ P1 S1, G = P1 ++ x :: S1 ∧ (∀ l a, x ≠ .align l a) ∧ P = alignImg P1 p := by
  induction G with
  | nil => intro p P x S h; simp [alignImg] at h
  | cons y G ih =>
    intro p P x S h
    by_cases ha : ∃ l a, y = .align l a
    · obtain ⟨l, a, rfl⟩ := ha
      simp only [alignImg] at h
      rcases List.append_eq_append_iff.mp h with ⟨c, hc1, hc2⟩ | ⟨c, hc1, hc2⟩
      · -- P = pad ++ c, rest = c ++ x :: S
        rcases ih _ c x S hc2 with hb | ⟨P1, S1, e1, e2, e3⟩
        · exact Or.inl hb
        · refine Or.inr ⟨.align l a :: P1, S1, by rw [e1]; rfl, e2, ?_⟩
          simp only [alignImg, hc1, e3]
      · -- pad = P ++ c, x :: S = c ++ rest
        cases c with
        | nil =>
          simp only [List.append_nil] at hc1
          simp only [List.nil_append] at hc2
          rcases ih _ [] x S hc2.symm with hb | ⟨P1, S1, e1, e2, e3⟩
          · exact Or.inl hb
          · refine Or.inr ⟨.align l a :: P1, S1, by rw [e1]; rfl, e2, ?_⟩
            subst hc1
            simp only [alignImg, ← e3, List.append_nil]
        | cons c0 c =>
          simp only [List.cons_append, List.cons.injEq] at hc2
          obtain ⟨rfl, _⟩ := hc2
          have : x ∈ padItems l a p := by rw [hc1]; simp
          obtain ⟨zs, e⟩ := mem_padItems this
          exact Or.inl ⟨l, zs, e⟩
    · have hna : ∀ l a, y ≠ .align l a := fun l a e => ha ⟨l, a, e⟩
      rw [alignImg_cons_of_not_align hna] at h
      cases P with
      | nil =>
        simp only [List.nil_append, List.cons.injEq] at h
        obtain ⟨rfl, _⟩ := h
        exact Or.inr ⟨[], G, rfl, hna, rfl⟩
      | cons p0 P =>
        simp only [List.cons_append, List.cons.injEq] at h
        obtain ⟨rfl, h⟩ := h
        rcases ih _ P x S h with hb | ⟨P1, S1, e1, e2, e3⟩
        · exact Or.inl hb
        · exact Or.inr ⟨y :: P1, S1, by rw [e1]; rfl, e2, by rw [alignImg_cons_of_not_align hna, e3]⟩

/-! ### label positions in a list with a known stretch -/

theorem labelPos_label_self (l : Line) (ℓ : String) (G : List Item) (p : Int) :
    labelPos (.label l ℓ :: G) p ℓ = some p := by simp [labelPos]

/-- forward: `X ++ (x :: Sa ++ label ℓ :: Y)`, ℓ not named in `X`, `x`, `Sa` -/
theorem labelPos_forward {X Sa Y : List Item} {x : Item} {l : Line} {ℓ : String}
    (hx : ∀ l n, x ≠ .label l n) (h1 : ℓ ∉ labelNames X) (h2 : ℓ ∉ labelNames Sa) :
    labelPos (X ++ x :: (Sa ++ .label l ℓ :: Y)) 0 ℓ = some (sizeSum X + x.sizeD + sizeSum Sa) := by
  rw [labelPos_append_not_mem _ _ _ _ h1, labelPos_cons_of_not_label hx, labelPos_append_not_mem _ _ _ _ h2,
    labelPos_label_self]
  congr 1; omega

/-- backward: `X ++ label ℓ :: Y`, ℓ not named in `X` -/
theorem labelPos_backward {X Y : List Item} {l : Line} {ℓ : String} (h1 : ℓ ∉ labelNames X) :
    labelPos (X ++ .label l ℓ :: Y) 0 ℓ = some (sizeSum X) := by
  rw [labelPos_append_not_mem _ _ _ _ h1, labelPos_label_self]
  congr 1; omega

theorem labelNames_split {S : List Item} {ℓ : String} (h : ℓ ∈ labelNames S) :
    ∃ Sa l Sb, S = Sa ++ .label l ℓ :: Sb ∧ ℓ ∉ labelNames Sa := by
  induction S with
  | nil => simp [labelNames] at h
  | cons y S ih =>
    by_cases hy : ∃ l, y = .label l ℓ
    · obtain ⟨l, rfl⟩ := hy
      exact ⟨[], l, S, rfl, by simp [labelNames]⟩
    · have hm : ℓ ∈ labelNames S := by
        cases y with
        | label l n =>
          simp only [labelNames, List.mem_cons] at h
          rcases h with rfl | h
          · exact absurd ⟨l, rfl⟩ hy
          · exact h
        | _ => simpa [labelNames] using h
      obtain ⟨Sa, l, Sb, rfl, hn⟩ := ih hm
      refine ⟨y :: Sa, l, Sb, rfl, ?_⟩
      cases y with
      | label l' n =>
        simp only [labelNames, List.mem_cons, not_or]
        exact ⟨fun e => hy ⟨l', by rw [e]⟩, hn⟩
      | _ => simpa [labelNames] using hn

/-! ### `Corr`: sizes, splits -/

variable {H : Hooks} {constants : Dict}

theorem StepRel.size {a b : Item} (h : StepRel H constants a b) : ∃ k : Int, 0 ≤ k ∧ a.sizeD = b.sizeD + 2 * k := by
  cases h with
  | same => exact ⟨0, Int.le_refl _, by omega⟩
  | comp line ins cf c preds p L d _ =>
    obtain ⟨h0, h1⟩ := decided_uncompressed d
    exact ⟨1, by omega, by rw [instr_sizeD, instr_sizeD, h0, h1]; rfl⟩

theorem StepRel.not_label {a b : Item} (h : StepRel H constants a b) : (∀ l n, a ≠ .label l n) ↔ (∀ l n, b ≠ .label l n) := by
  cases h with
  | same => exact Iff.rfl
  | comp => exact ⟨(fun _ l n e => by cases e), (fun _ l n e => by cases e)⟩

theorem StepRel.not_align {a b : Item} (h : StepRel H constants a b) : (∀ l n, a ≠ .align l n) ↔ (∀ l n, b ≠ .align l n) := by
  cases h with
  | same => exact Iff.rfl
  | comp => exact ⟨(fun _ l n e => by cases e), (fun _ l n e => by cases e)⟩

theorem StepRel.from_instr {line : Line} {i : Instr} {b : Item} (h : StepRel H constants (.instr line i) b) :
    ∃ i', b = .instr line i' := by
  cases h with
  | same => exact ⟨i, rfl⟩
  | comp _ _ cf => exact ⟨cf, rfl⟩

theorem Corr.size {G0 G1 : List Item} (h : Corr H constants G0 G1) :
    ∃ k : Int, 0 ≤ k ∧ sizeSum G0 = sizeSum G1 + 2 * k := by
  induction h with
  | nil => exact ⟨0, Int.le_refl _, by simp [sizeSum]⟩
  | step hs _ ih =>
    obtain ⟨k1, h1, e1⟩ := hs.size
    obtain ⟨k2, h2, e2⟩ := ih
    exact ⟨k1 + k2, by omega, by rw [sizeSum_cons, sizeSum_cons]; omega⟩
  | near line rd rA imm hs _ ih =>
    obtain ⟨k1, h1, e1⟩ := hs.size
    obtain ⟨k2, h2, e2⟩ := ih
    refine ⟨k1 + k2 + 2, by omega, ?_⟩
    rw [sizeSum_cons, sizeSum_cons, sizeSum_cons]
    rw [instr_sizeD] at e1 ⊢
    rw [instr_sizeD]
    simp only [Instr.isCompressed] at e1 ⊢
    simp at e1 ⊢
    omega

theorem Corr.noAlign {G0 G1 : List Item} (h : Corr H constants G0 G1) (h1 : NoAlign G1) : NoAlign G0 := by
  induction h with
  | nil => exact noAlign_nil
  | step hs _ ih =>
    exact NoAlign.cons (hs.not_align.mpr (h1 _ List.mem_cons_self)) (ih (fun y hy => h1 y (List.mem_cons_of_mem _ hy)))
  | near line rd rA imm hs _ ih =>
    exact NoAlign.cons (by intro l a e; cases e) (NoAlign.cons (by intro l a e; cases e)
      (ih (fun y hy => h1 y (List.mem_cons_of_mem _ hy))))

theorem Corr.labelNames_eq {G0 G1 : List Item} (h : Corr H constants G0 G1) : labelNames G0 = labelNames G1 := by
  induction h with
  | nil => rfl
  | @step a b _ _ hs _ ih =>
    cases hs with
    | same => cases a <;> simp only [labelNames, ih]
    | comp => simp only [labelNames, ih]
  | @near line rd rA imm x _ _ hs _ ih =>
    obtain ⟨i', rfl⟩ := hs.from_instr
    simp only [labelNames, ih]

/-- `Corr` read at one item of the -c side -/
theorem Corr.split {P1 : List Item} : ∀ {G0 : List Item} {x : Item} {S1 : List Item},
    Corr H constants G0 (P1 ++ x :: S1) →
    ∃ P0 S0, Corr H constants P0 P1 ∧ Corr H constants S0 S1 ∧
      ((∃ a, G0 = P0 ++ a :: S0 ∧ StepRel H constants a x) ∨
       (∃ line rd rA imm, G0 = P0 ++ .instr line (.u "auipc" rA (.hi imm)) :: .instr line (.i "jalr" rd rA (.lo imm) true) :: S0 ∧
          StepRel H constants (.instr line (.j "jal" rd imm)) x)) := by
  induction P1 with
  | nil =>
    intro G0 x S1 h
    simp only [List.nil_append] at h
    cases h with
    | @step a _ G0' _ hs hr => exact ⟨[], G0', .nil, hr, Or.inl ⟨a, rfl, hs⟩⟩
    | @near line rd rA imm _ G0' _ hs hr => exact ⟨[], G0', .nil, hr, Or.inr ⟨line, rd, rA, imm, rfl, hs⟩⟩
  | cons y P1 ih =>
    intro G0 x S1 h
    simp only [List.cons_append] at h
    cases h with
    | @step a _ G0' _ hs hr =>
      obtain ⟨P0, S0, c1, c2, hor⟩ := ih hr
      refine ⟨a :: P0, S0, .step hs c1, c2, ?_⟩
      rcases hor with ⟨a', rfl, hs'⟩ | ⟨line, rd, rA, imm, rfl, hs'⟩
      · exact Or.inl ⟨a', rfl, hs'⟩
      · exact Or.inr ⟨line, rd, rA, imm, rfl, hs'⟩
    | @near line rd rA imm _ G0' _ hs hr =>
      obtain ⟨P0, S0, c1, c2, hor⟩ := ih hr
      refine ⟨_ :: _ :: P0, S0, .near line rd rA imm hs c1, c2, ?_⟩
      rcases hor with ⟨a', rfl, hs'⟩ | ⟨line', rd', rA', imm', rfl, hs'⟩
      · exact Or.inl ⟨a', rfl, hs'⟩
      · exact Or.inr ⟨line', rd', rA', imm', rfl, hs'⟩

/-- … at a marker -/
theorem Corr.split_label {Sa1 Sb1 G0 : List Item} {l : Line} {ℓ : String}
    (h : Corr H constants G0 (Sa1 ++ .label l ℓ :: Sb1)) :
    ∃ Sa0 Sb0, G0 = Sa0 ++ .label l ℓ :: Sb0 ∧ Corr H constants Sa0 Sa1 ∧ Corr H constants Sb0 Sb1 := by
  obtain ⟨P0, S0, c1, c2, hor⟩ := h.split
  rcases hor with ⟨a, rfl, hs⟩ | ⟨line, rd, rA, imm, rfl, hs⟩
  · cases hs with
    | same => exact ⟨P0, S0, rfl, c1, c2⟩
  · obtain ⟨i', e⟩ := hs.from_instr
    cases e

end BB.Lemmas
