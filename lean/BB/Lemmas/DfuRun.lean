/-
  BB.Lemmas.DfuRun — symbolic execution of the host program against the device specification:
  single steps, the polling loops (induction on the list of busy polls the schedule prescribes),
  one erase iteration, one write iteration.
-/
import BB.Lemmas.DfuDevice
namespace BB.Dfu

variable {h : HostCfg} {s : Schedule}

/-! ### single steps -/

theorem step_request {c : Config} {pc' : PC} {r : Request} (hx : c.exit = none)
    (hn : next h c.pc c.resp = (pc', .request r)) :
    step h c = { c with pc := pc', resp := (c.dev.handle r).2, dev := (c.dev.handle r).1,
                        trace := .req r (c.dev.handle r).2 :: c.trace } := by
  simp [step, hx, hn]

theorem step_sleep {c : Config} {pc' : PC} {ms : Nat} (hx : c.exit = none)
    (hn : next h c.pc c.resp = (pc', .sleep ms)) :
    step h c = { c with pc := pc', resp := .unit, dev := c.dev.tick ms, trace := .sleep ms :: c.trace } := by
  simp [step, hx, hn]

theorem step_tau {c : Config} {pc' : PC} (hx : c.exit = none)
    (hn : next h c.pc c.resp = (pc', .tau)) :
    step h c = { c with pc := pc', resp := .unit } := by
  simp [step, hx, hn]

theorem step_print {c : Config} {pc' : PC} {m : Msg} (hx : c.exit = none)
    (hn : next h c.pc c.resp = (pc', .print m)) :
    step h c = { c with pc := pc', resp := .unit, out := m :: c.out } := by
  simp [step, hx, hn]

theorem step_exit {c : Config} {pc' : PC} {code : Nat} {m : ExitMsg} (hx : c.exit = none)
    (hn : next h c.pc c.resp = (pc', .exit code m)) :
    step h c = { c with pc := pc', resp := .unit, exit := some (code, m) } := by
  simp [step, hx, hn]

/-- the host sits at `pc`, has not exited, has printed nothing, and the device looks like `v` -/
structure At (h : HostCfg) (s : Schedule) (c : Config) (pc : PC) (v : View) (slack : Nat) : Prop where
  pc : c.pc = pc
  exit : c.exit = none
  out : c.out = []
  dev : Sees h.pageCount s c.dev v slack

/-- the host's next action is the GETSTATUS poll of operation (k, p) -/
structure Polling (h : HostCfg) (c : Config) (k : Kind) (p : Nat) : Prop where
  exit : c.exit = none
  out : c.out = []
  next : next h c.pc c.resp = (.status k p, .request getStatusReq)

/-- a poll and the sleep that follows it: the host ends up in `slept` with what the device said -/
theorem poll_reply {c : Config} {k : Kind} {p : Nat} {v' : View} {s' t' st' : Nat}
    (hp : Polling h c k p)
    (hr : (c.dev.handle getStatusReq).2 = .bytes (statusReply s' t' st'))
    (hs : Sees h.pageCount s (c.dev.handle getStatusReq).1 v' (t' % 16777216)) :
    At h s (steps h 2 c) (.slept k p (s' % 256) st') v' 0 ∧ (steps h 2 c).resp = .unit := by
  have e1 := step_request hp.exit hp.next
  have hn2 : next h (step h c).pc (step h c).resp = (.slept k p (s' % 256) st', .sleep (t' % 16777216)) := by
    rw [e1]; simp [next, onStatus, hr, parse_statusReply]
  have hx2 : (step h c).exit = none := by rw [e1]; exact hp.exit
  have e2 := step_sleep hx2 hn2
  have : steps h 2 c = step h (step h c) := rfl
  rw [this, e2]
  refine ⟨⟨rfl, hx2, ?_, ?_⟩, rfl⟩
  · show (step h c).out = []
    rw [e1]; exact hp.out
  · show Sees h.pageCount s ((step h c).dev.tick (t' % 16777216)) v' 0
    have hd : (step h c).dev = (c.dev.handle getStatusReq).1 := by rw [e1]
    rw [hd]
    have := hs.tick (t' % 16777216)
    simpa using this

/-- a host that has just slept after a dfuDNBUSY reply polls again, whatever it is polling for -/
theorem polling_of_slept_busy {c : Config} {k : Kind} {p : Nat} {v : View} {st : Nat}
    (ha : At h s c (.slept k p st 4) v 0) : Polling h c k p := by
  refine ⟨ha.exit, ha.out, ?_⟩
  rw [ha.pc]
  cases k <;> simp [next, stDNLOAD_IDLE, stERROR, stDNBUSY]

/-- the busy polls: after two steps per scheduled busy reply the host is about to poll again and
    the device has no busy reply left -/
theorem poll_busy (k : Kind) (p : Nat) (op : Op) :
    ∀ (l : List Nat) (c : Config) (v : View), Polling h c k p → Sees h.pageCount s c.dev v 0 →
      v.pending = some op → v.busyLeft = l → v.status = 0 →
      Polling h (steps h (2 * l.length) c) k p ∧
        ∃ st, Sees h.pageCount s (steps h (2 * l.length) c).dev { v with state := st, busyLeft := [] } 0 := by
  intro l
  induction l with
  | nil =>
    intro c v hp hs hpend hb _
    refine ⟨hp, v.state, ?_⟩
    have : ({ v with state := v.state, busyLeft := [] } : View) = v := by
      cases v; simp_all
    simpa [steps, this] using hs
  | cons t rest ih =>
    intro c v hp hs hpend hb hst
    obtain ⟨hr, hs'⟩ := getStatus_busy hs hpend hb
    rw [hst] at hr
    obtain ⟨hat, _⟩ := poll_reply hp hr hs'
    have hp2 := polling_of_slept_busy hat
    have := ih (steps h 2 c) _ hp2 hat.dev hpend rfl hst
    have e : 2 * (t :: rest).length = 2 + 2 * rest.length := by simp [List.length_cons]; omega
    rw [e, steps_add]
    exact this

/-! ### starting an operation -/

/-- the host sends a DNLOAD the device accepts: afterwards it is about to poll for it -/
theorem send_dnload {c : Config} {pc : PC} {v : View} {k : Kind} {p w : Nat} {data : List Nat} {op : Op}
    (ha : At h s c pc v 0)
    (hn : next h c.pc c.resp = (.sent k p, .request (dnloadReq w data)))
    (hlen : data.length = (match k with | .data => (h.chunk p).length | _ => 5))
    (hp : v.pending = none) (hst : v.state = .idle ∨ v.state = .dnloadIdle)
    (hne : data ≠ []) (hdec : decodeOp v.ptr w data = some op)
    (hin : opOutside h.pageCount op = false) :
    Polling h (step h c) k p ∧
      Sees h.pageCount s (step h c).dev
        { v with state := .dnloadSync, pending := some op, busyLeft := (s.op v.opIdx).busy,
                 doneTimeout := (s.op v.opIdx).doneTimeout, fault := (s.op v.opIdx).fault, soft := (s.op v.opIdx).statusOnly,
                 opIdx := v.opIdx + 1 } 0 := by
  obtain ⟨hr, hs⟩ := dnload_accept (wValue := w) ha.dev hp hst hne hdec hin
  have e1 := step_request ha.exit hn
  rw [e1]
  refine ⟨⟨ha.exit, ha.out, ?_⟩, hs⟩
  simp only [hr]
  cases k <;> simp_all [next, onCount]

/-- one fault-free erase iteration: dfu.py:246-261 for one page -/
theorem erase_iter {c : Config} {v : View} {p : Nat}
    (ha : At h s c (.loopErase p) v 0) (hp : p < h.pages) (hpc : p < h.pageCount) (hsm : h.pageCount ≤ 128)
    (hpend : v.pending = none) (hst : v.state = .idle ∨ v.state = .dnloadIdle) (hstat : v.status = 0)
    (hf : (s.op v.opIdx).fault % 256 = 0) :
    At h s (steps h (opCost (s.op v.opIdx)) c) (.loopErase (p + 1))
      { v with state := .dnloadIdle, pending := none, busyLeft := [],
               doneTimeout := (s.op v.opIdx).doneTimeout, fault := (s.op v.opIdx).fault, soft := (s.op v.opIdx).statusOnly,
               opIdx := v.opIdx + 1, flash := setCell v.flash p .erased, erasedLog := v.erasedLog ++ [p] } 0 := by
  have hn : next h c.pc c.resp = (.sent .erase p, .request (dnloadReq 0 (eraseCmd (pageAddr p)))) := by
    rw [ha.pc]; simp [next, hp]
  have haddr : pageAddr p < 4294967296 := by simp only [pageAddr, flashBase, pageSize]; omega
  obtain ⟨hp1, hs1⟩ := send_dnload (op := .erase (pageAddr p)) ha hn (by simp [eraseCmd, leBytes]) hpend hst
    (by simp [eraseCmd]) (decode_eraseCmd _ _ haddr) (by simp [opOutside, inRange_page hpc])
  obtain ⟨hp2, st, hs2⟩ := poll_busy .erase p (.erase (pageAddr p)) (s.op v.opIdx).busy (step h c) _ hp1 hs1 rfl rfl hstat
  obtain ⟨hr3, hs3⟩ := getStatus_done_erase hs2 rfl rfl hf hpc
  obtain ⟨ha3, _⟩ := poll_reply hp2 hr3 hs3
  have e : opCost (s.op v.opIdx) = 1 + (2 * (s.op v.opIdx).busy.length + (2 + 1)) := by simp [opCost]; omega
  rw [e, steps_add, steps_add, steps_add, steps_one, steps_one]
  generalize steps h 2 (steps h (2 * (s.op v.opIdx).busy.length) (step h c)) = c3 at ha3
  have hn4 : next h c3.pc c3.resp = (.loopErase (p + 1), .tau) := by
    rw [ha3.pc]; simp [next, hstat, stDNBUSY]
  rw [step_tau ha3.exit hn4]
  exact ⟨rfl, ha3.exit, ha3.out, ha3.dev⟩

/-- an erase iteration whose operation the schedule makes fail: the host exits naming page and status -/
theorem erase_iter_fault {c : Config} {v : View} {p : Nat}
    (ha : At h s c (.loopErase p) v 0) (hp : p < h.pages) (hpc : p < h.pageCount) (hsm : h.pageCount ≤ 128)
    (hpend : v.pending = none) (hst : v.state = .idle ∨ v.state = .dnloadIdle) (hstat : v.status = 0)
    (hf : (s.op v.opIdx).fault % 256 ≠ 0) :
    (steps h (opCost (s.op v.opIdx)) c).exit = some (1, .eraseFailed (pageAddr p) ((s.op v.opIdx).fault % 256)) ∧
    (steps h (opCost (s.op v.opIdx)) c).out = [] := by
  have hn : next h c.pc c.resp = (.sent .erase p, .request (dnloadReq 0 (eraseCmd (pageAddr p)))) := by
    rw [ha.pc]; simp [next, hp]
  have haddr : pageAddr p < 4294967296 := by simp only [pageAddr, flashBase, pageSize]; omega
  obtain ⟨hp1, hs1⟩ := send_dnload (op := .erase (pageAddr p)) ha hn (by simp [eraseCmd, leBytes]) hpend hst
    (by simp [eraseCmd]) (decode_eraseCmd _ _ haddr) (by simp [opOutside, inRange_page hpc])
  obtain ⟨hp2, st, hs2⟩ := poll_busy .erase p (.erase (pageAddr p)) (s.op v.opIdx).busy (step h c) _ hp1 hs1 rfl rfl hstat
  obtain ⟨hr3, hs3⟩ := getStatus_fault hs2 rfl rfl hf
  obtain ⟨ha3, _⟩ := poll_reply hp2 hr3 hs3
  have e : opCost (s.op v.opIdx) = 1 + (2 * (s.op v.opIdx).busy.length + (2 + 1)) := by simp [opCost]; omega
  rw [e, steps_add, steps_add, steps_add, steps_one, steps_one]
  generalize steps h 2 (steps h (2 * (s.op v.opIdx).busy.length) (step h c)) = c3 at ha3
  have hn4 : next h c3.pc c3.resp = (.halted, .exit 1 (.eraseFailed (pageAddr p) ((s.op v.opIdx).fault % 256))) := by
    rw [ha3.pc]; cases (s.op v.opIdx).statusOnly <;> simp [next, stDNBUSY, hf, failState, DState.code]
  rw [step_exit ha3.exit hn4]
  exact ⟨rfl, ha3.out⟩

/-! ### one page of the write loop -/

/-- steps of a fault-free write iteration: set-address operation `a`, data operation `b` -/
def writeCost (a b : OpSched) : Nat := 2 * a.busy.length + 2 * b.busy.length + 7

/-- the set-address half of a write iteration, up to the moment the host has slept after the
    completing GETSTATUS (which said status OK, dfuDNLOAD_IDLE) -/
theorem write_iter_addr {c : Config} {v : View} {p : Nat}
    (ha : At h s c (.loopWrite p) v 0) (hp : p < h.pages) (hpc : p < h.pageCount) (hsm : h.pageCount ≤ 128)
    (hpend : v.pending = none) (hst : v.state = .idle ∨ v.state = .dnloadIdle) (hstat : v.status = 0)
    (hf : (s.op v.opIdx).fault % 256 = 0) :
    At h s (steps h (2 * (s.op v.opIdx).busy.length + 3) c) (.slept .addr p 0 5)
      { v with state := .dnloadIdle, pending := none, busyLeft := [],
               doneTimeout := (s.op v.opIdx).doneTimeout, fault := (s.op v.opIdx).fault, soft := (s.op v.opIdx).statusOnly,
               opIdx := v.opIdx + 1, ptr := pageAddr p } 0 := by
  have hn : next h c.pc c.resp = (.sent .addr p, .request (dnloadReq 0 (setAddrCmd (pageAddr p)))) := by
    rw [ha.pc]; simp [next, hp]
  have haddr : pageAddr p < 4294967296 := by simp only [pageAddr, flashBase, pageSize]; omega
  obtain ⟨hp1, hs1⟩ := send_dnload (op := .setAddr (pageAddr p)) ha hn (by simp [setAddrCmd, leBytes]) hpend hst
    (by simp [setAddrCmd]) (decode_setAddrCmd _ _ haddr) (by simp [opOutside, inRange_page hpc])
  obtain ⟨hp2, st, hs2⟩ := poll_busy .addr p (.setAddr (pageAddr p)) (s.op v.opIdx).busy (step h c) _ hp1 hs1 rfl rfl hstat
  obtain ⟨hr3, hs3⟩ := getStatus_done_setAddr hs2 rfl rfl hf hpc
  simp only [hstat] at hr3
  obtain ⟨ha3, _⟩ := poll_reply hp2 hr3 hs3
  have e : 2 * (s.op v.opIdx).busy.length + 3 = 1 + (2 * (s.op v.opIdx).busy.length + 2) := by omega
  rw [e, steps_add, steps_add, steps_one]
  exact ha3

/-- the set-address half when the schedule makes it fail, either flavour: the host tests the status
    after the poll loop (dfu.py:282-284) and exits naming address and status; no data is sent -/
theorem write_iter_addr_fault {c : Config} {v : View} {p : Nat}
    (ha : At h s c (.loopWrite p) v 0) (hp : p < h.pages) (hpc : p < h.pageCount) (hsm : h.pageCount ≤ 128)
    (hpend : v.pending = none) (hst : v.state = .idle ∨ v.state = .dnloadIdle) (hstat : v.status = 0)
    (hf : (s.op v.opIdx).fault % 256 ≠ 0) :
    (steps h (2 * (s.op v.opIdx).busy.length + 4) c).exit = some (1, .addrFailed (pageAddr p) ((s.op v.opIdx).fault % 256)) ∧
    (steps h (2 * (s.op v.opIdx).busy.length + 4) c).out = [] := by
  have hn : next h c.pc c.resp = (.sent .addr p, .request (dnloadReq 0 (setAddrCmd (pageAddr p)))) := by
    rw [ha.pc]; simp [next, hp]
  have haddr : pageAddr p < 4294967296 := by simp only [pageAddr, flashBase, pageSize]; omega
  obtain ⟨hp1, hs1⟩ := send_dnload (op := .setAddr (pageAddr p)) ha hn (by simp [setAddrCmd, leBytes]) hpend hst
    (by simp [setAddrCmd]) (decode_setAddrCmd _ _ haddr) (by simp [opOutside, inRange_page hpc])
  obtain ⟨hp2, st, hs2⟩ := poll_busy .addr p (.setAddr (pageAddr p)) (s.op v.opIdx).busy (step h c) _ hp1 hs1 rfl rfl hstat
  obtain ⟨hr3, hs3⟩ := getStatus_fault hs2 rfl rfl hf
  obtain ⟨ha3, _⟩ := poll_reply hp2 hr3 hs3
  have e : 2 * (s.op v.opIdx).busy.length + 4 = 1 + (2 * (s.op v.opIdx).busy.length + (2 + 1)) := by omega
  rw [e, steps_add, steps_add, steps_add, steps_one, steps_one]
  generalize steps h 2 (steps h (2 * (s.op v.opIdx).busy.length) (step h c)) = c3 at ha3
  have hn4 : next h c3.pc c3.resp = (.halted, .exit 1 (.addrFailed (pageAddr p) ((s.op v.opIdx).fault % 256))) := by
    rw [ha3.pc]; cases (s.op v.opIdx).statusOnly <;> simp [next, stDNBUSY, hf, failState, DState.code]
  rw [step_exit ha3.exit hn4]
  exact ⟨rfl, ha3.out⟩

/-- the data half of a write iteration, from the moment the host has slept after set-address -/
theorem write_iter_data {c : Config} {v : View} {p : Nat}
    (ha : At h s c (.slept .addr p 0 5) v 0) (hpc : p < h.pageCount)
    (hpend : v.pending = none) (hst : v.state = .dnloadIdle) (hstat : v.status = 0)
    (hptr : v.ptr = pageAddr p) (hlen : (h.chunk p).length = 1024) (her : v.flash p = .erased)
    (hf : (s.op v.opIdx).fault % 256 = 0) :
    At h s (steps h (2 * (s.op v.opIdx).busy.length + 4) c) (.loopWrite (p + 1))
      { v with state := .dnloadIdle, pending := none, busyLeft := [],
               doneTimeout := (s.op v.opIdx).doneTimeout, fault := (s.op v.opIdx).fault, soft := (s.op v.opIdx).statusOnly,
               opIdx := v.opIdx + 1, flash := setCell v.flash p (.data (h.chunk p)),
               writtenLog := v.writtenLog ++ [p] } 0 := by
  have hn : next h c.pc c.resp = (.sent .data p, .request (dnloadReq 2 (h.chunk p))) := by
    rw [ha.pc]; simp [next, stDNBUSY]
  have hne : h.chunk p ≠ [] := by intro h0; rw [h0] at hlen; simp at hlen
  obtain ⟨hp1, hs1⟩ := send_dnload (op := .write (pageAddr p) (h.chunk p)) ha hn rfl hpend (Or.inr hst)
    hne (by rw [hptr]; exact decode_write _ _ (by omega)) (by simp [opOutside, inRange_page hpc (Nat.le_of_eq hlen)])
  obtain ⟨hp2, st2, hs2⟩ := poll_busy .data p (.write (pageAddr p) (h.chunk p)) (s.op v.opIdx).busy (step h c) _ hp1 hs1 rfl rfl hstat
  obtain ⟨hr3, hs3⟩ := getStatus_done_write hs2 rfl rfl hf hpc hlen her
  obtain ⟨ha3, _⟩ := poll_reply hp2 hr3 hs3
  have e : 2 * (s.op v.opIdx).busy.length + 4 = 1 + (2 * (s.op v.opIdx).busy.length + (2 + 1)) := by omega
  rw [e, steps_add, steps_add, steps_add, steps_one, steps_one]
  generalize steps h 2 (steps h (2 * (s.op v.opIdx).busy.length) (step h c)) = c3 at ha3
  have hn4 : next h c3.pc c3.resp = (.loopWrite (p + 1), .tau) := by
    rw [ha3.pc]; simp [next, hstat, stDNLOAD_IDLE, stERROR]
  rw [step_tau ha3.exit hn4]
  exact ⟨rfl, ha3.exit, ha3.out, ha3.dev⟩

/-- the data half when the schedule makes the write fail: the host exits naming page and status -/
theorem write_iter_data_fault {c : Config} {v : View} {p : Nat}
    (ha : At h s c (.slept .addr p 0 5) v 0) (hpc : p < h.pageCount)
    (hpend : v.pending = none) (hst : v.state = .dnloadIdle) (hstat : v.status = 0)
    (hptr : v.ptr = pageAddr p) (hlen : (h.chunk p).length = 1024)
    (hf : (s.op v.opIdx).fault % 256 ≠ 0) :
    (steps h (2 * (s.op v.opIdx).busy.length + 4) c).exit = some (1, .writeFailed (pageAddr p) ((s.op v.opIdx).fault % 256)) ∧
    (steps h (2 * (s.op v.opIdx).busy.length + 4) c).out = [] := by
  have hn : next h c.pc c.resp = (.sent .data p, .request (dnloadReq 2 (h.chunk p))) := by
    rw [ha.pc]; simp [next, stDNBUSY]
  have hne : h.chunk p ≠ [] := by intro h0; rw [h0] at hlen; simp at hlen
  obtain ⟨hp1, hs1⟩ := send_dnload (op := .write (pageAddr p) (h.chunk p)) ha hn rfl hpend (Or.inr hst)
    hne (by rw [hptr]; exact decode_write _ _ (by omega)) (by simp [opOutside, inRange_page hpc (Nat.le_of_eq hlen)])
  obtain ⟨hp2, st2, hs2⟩ := poll_busy .data p (.write (pageAddr p) (h.chunk p)) (s.op v.opIdx).busy (step h c) _ hp1 hs1 rfl rfl hstat
  obtain ⟨hr3, hs3⟩ := getStatus_fault hs2 rfl rfl hf
  obtain ⟨ha3, _⟩ := poll_reply hp2 hr3 hs3
  have e : 2 * (s.op v.opIdx).busy.length + 4 = 1 + (2 * (s.op v.opIdx).busy.length + (2 + 1)) := by omega
  rw [e, steps_add, steps_add, steps_add, steps_one, steps_one]
  generalize steps h 2 (steps h (2 * (s.op v.opIdx).busy.length) (step h c)) = c3 at ha3
  have hn4 : next h c3.pc c3.resp = (.halted, .exit 1 (.writeFailed (pageAddr p) ((s.op v.opIdx).fault % 256))) := by
    rw [ha3.pc]; cases (s.op v.opIdx).statusOnly <;> simp [next, stDNLOAD_IDLE, stERROR, hf, failState, DState.code]
  rw [step_exit ha3.exit hn4]
  exact ⟨rfl, ha3.out⟩

end BB.Dfu
