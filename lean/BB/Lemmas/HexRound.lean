/-
  BB.Lemmas.HexRound — an Intel HEX *encoder* and the round trip through the decoder specification
  `BB.Spec.Hex`:  `decode (encode offset bytes) = some (image offset bytes)`.

  Record layout of `encode`: the bytes are cut into chunks of at most 16 bytes that never cross a
  64 KiB boundary (`chunkLen a = min 16 (65536 - a % 65536)`); before EVERY chunk an extended linear
  address record (type 04, data = upper 16 bits of the chunk address) is emitted, then the data
  record (type 00, AAAA = low 16 bits of the chunk address).  Upper-case hex, every record ends in
  "\n", the file ends with the EOF record ":00000001FF\n".  Valid for offset + |bytes| ≤ 2^32.
-/
import BB.Spec.Hex

namespace BB.Hex

def hexChar : Nat → Char
  | 0 => '0' | 1 => '1' | 2 => '2' | 3 => '3' | 4 => '4' | 5 => '5' | 6 => '6' | 7 => '7'
  | 8 => '8' | 9 => '9' | 10 => 'A' | 11 => 'B' | 12 => 'C' | 13 => 'D' | 14 => 'E' | _ => 'F'

def byteHex (b : Nat) : List Char := [hexChar (b / 16), hexChar (b % 16)]

def checksum (bs : List Nat) : Nat := (256 - bs.sum % 256) % 256

def recordLine (off ty : Nat) (data : List Nat) : List Char :=
  ':' :: (data.length :: off / 256 :: off % 256 :: ty ::
    (data ++ [checksum (data.length :: off / 256 :: off % 256 :: ty :: data)])).flatMap byteHex

def eofLine : List Char := recordLine 0 1 []

def chunkLen (a : Nat) : Nat := min 16 (65536 - a % 65536)

def encodeAux : Nat → Nat → List Nat → List Char
  | 0, _, _ => eofLine ++ ['\n']
  | _ + 1, _, [] => eofLine ++ ['\n']
  | fuel + 1, a, b :: bs =>
    recordLine 0 4 [a / 16777216 % 256, a / 65536 % 256] ++ '\n' ::
      (recordLine (a % 65536) 0 ((b :: bs).take (chunkLen a)) ++ '\n' ::
        encodeAux fuel (a + chunkLen a) ((b :: bs).drop (chunkLen a)))

def encode (offset : Nat) (bytes : List Nat) : List Char := encodeAux bytes.length offset bytes


theorem hexDigit_hexChar (n : Nat) (h : n < 16) : hexDigit? (hexChar n) = some n := by
  match n, h with
  | 0, _ => decide | 1, _ => decide | 2, _ => decide | 3, _ => decide
  | 4, _ => decide | 5, _ => decide | 6, _ => decide | 7, _ => decide
  | 8, _ => decide | 9, _ => decide | 10, _ => decide | 11, _ => decide
  | 12, _ => decide | 13, _ => decide | 14, _ => decide | 15, _ => decide
  | n + 16, h => omega

theorem hexChar_ne_nl (n : Nat) : hexChar n ≠ '\n' := by
  unfold hexChar; split <;> decide

theorem hexChar_ne_cr (n : Nat) : hexChar n ≠ '\r' := by
  unfold hexChar; split <;> decide

theorem hexPairs_flatMap (bs : List Nat) (h : ∀ b ∈ bs, b < 256) :
    hexPairs (bs.flatMap byteHex) = some bs := by
  induction bs with
  | nil => rfl
  | cons b bs ih =>
    have hb : b < 256 := h b (List.mem_cons_self)
    have ih' := ih (fun x hx => h x (List.mem_cons_of_mem _ hx))
    simp only [List.flatMap_cons, byteHex, List.cons_append, List.nil_append, hexPairs]
    rw [hexDigit_hexChar _ (by omega), hexDigit_hexChar _ (by omega), ih']
    simp only []
    congr 2
    omega

theorem splitLinesAux_line (l rest cur : List Char) (h : ∀ c ∈ l, c ≠ '\n') :
    splitLinesAux (l ++ '\n' :: rest) cur = (cur.reverse ++ l) :: splitLinesAux rest [] := by
  induction l generalizing cur with
  | nil => simp [splitLinesAux]
  | cons c l ih =>
    have hc : c ≠ '\n' := h c List.mem_cons_self
    rw [List.cons_append, splitLinesAux.eq_3 _ _ _ (by intro h1; exact hc h1) ]
    rw [ih _ (fun x hx => h x (List.mem_cons_of_mem _ hx))]
    simp

theorem stripCR_snoc (pre : List Char) (c : Char) (h : c ≠ '\r') : stripCR (pre ++ [c]) = pre ++ [c] := by
  unfold stripCR
  simp only [List.reverse_append, List.reverse_cons, List.reverse_nil, List.nil_append, List.cons_append]
  split
  · rename_i heq
    simp only [List.cons.injEq] at heq
    exact absurd heq.1 h
  · rfl

theorem checksum_lt (bs : List Nat) : checksum bs < 256 := by
  unfold checksum; omega

theorem parseRecord_recordLine (off ty : Nat) (data : List Nat)
    (hoff : off < 65536) (hty : ty < 256) (hd : ∀ b ∈ data, b < 256) (hl : data.length < 256) :
    parseRecord (recordLine off ty data) = some { offset := off, type := ty, data := data } := by
  unfold recordLine parseRecord
  simp only
  rw [hexPairs_flatMap]
  · simp only [List.length_append, List.length_cons, List.length_nil, List.sum_append,
      List.sum_cons, List.sum_nil, checksum, List.dropLast_concat]
    generalize data.sum = s
    generalize data.length = n
    rw [if_pos]
    · congr 2
      omega
    · refine ⟨trivial, ?_⟩
      omega
  · intro b hb
    simp only [List.mem_cons, List.mem_append, List.not_mem_nil, or_false] at hb
    rcases hb with rfl | rfl | rfl | rfl | hb | rfl
    · exact hl
    · omega
    · omega
    · exact hty
    · exact hd b hb
    · exact checksum_lt _

theorem recordLine_no_nl (off ty : Nat) (data : List Nat) : ∀ c ∈ recordLine off ty data, c ≠ '\n' := by
  intro c hc
  unfold recordLine at hc
  simp only [List.mem_cons, List.mem_flatMap, byteHex, List.not_mem_nil, or_false] at hc
  rcases hc with rfl | ⟨_, _, rfl | rfl⟩
  · decide
  · exact hexChar_ne_nl _
  · exact hexChar_ne_nl _

theorem stripCR_recordLine (off ty : Nat) (data : List Nat) :
    stripCR (recordLine off ty data) = recordLine off ty data := by
  unfold recordLine
  generalize checksum _ = ck
  have : ':' :: (data.length :: off / 256 :: off % 256 :: ty :: (data ++ [ck])).flatMap byteHex
      = (':' :: (data.length :: off / 256 :: off % 256 :: ty :: data).flatMap byteHex
          ++ [hexChar (ck / 16)]) ++ [hexChar (ck % 16)] := by
    simp [List.flatMap_append, byteHex]
  rw [this]
  exact stripCR_snoc _ _ (hexChar_ne_cr _)

theorem lines_recordLine (off ty : Nat) (data : List Nat) (rest : List Char) :
    lines (recordLine off ty data ++ '\n' :: rest) = recordLine off ty data :: lines rest := by
  unfold lines
  rw [splitLinesAux_line _ _ _ (recordLine_no_nl off ty data)]
  simp only [List.reverse_nil, List.nil_append, List.map_cons, stripCR_recordLine]

theorem lines_nil : lines [] = [[]] := by decide

theorem image_nil (a : Nat) : image a [] = [] := rfl

theorem image_append (a : Nat) (xs ys : List Nat) :
    image a (xs ++ ys) = image a xs ++ image (a + xs.length) ys := by
  unfold image
  rw [List.zipIdx_append, List.map_append]
  congr 1
  rw [List.zipIdx_eq_map_add (i := 0 + xs.length), List.map_map]
  apply List.map_congr_left
  intro ⟨b, i⟩ _
  simp only [Function.comp, Nat.zero_add, Nat.add_assoc]

theorem image_take_drop (a n : Nat) (l : List Nat) :
    image a (l.take n) ++ image (a + n) (l.drop n) = image a l := by
  by_cases h : n ≤ l.length
  · have := image_append a (l.take n) (l.drop n)
    rw [List.take_append_drop, List.length_take, Nat.min_eq_left h] at this
    exact this.symm
  · rw [List.drop_of_length_le (by omega), List.take_of_length_le (by omega), image_nil, List.append_nil]

theorem dataPairs_linear (a : Nat) (chunk : List Nat) (h : a + chunk.length ≤ 4294967296) :
    dataPairs (.linear ((a / 16777216 % 256 * 256 + a / 65536 % 256) * 65536)) (a % 65536) chunk
      = image a chunk := by
  unfold dataPairs image
  apply List.map_congr_left
  intro ⟨b, i⟩ hm
  have hi := (List.mem_zipIdx hm).2.1
  simp only [Base.addr]
  congr 1
  generalize chunk.length = n at *
  clear hm
  omega

theorem decode_step4 (l : List Char) (rest : List (List Char)) (base : Base) (h lo : Nat)
    (hp : parseRecord l = some { offset := 0, type := 4, data := [h, lo] }) :
    decodeRecords (l :: rest) base = decodeRecords rest (.linear ((h * 256 + lo) * 65536)) := by
  rw [decodeRecords]
  simp [hp]

theorem decode_step0 (l : List Char) (rest : List (List Char)) (base : Base) (off : Nat)
    (data : List Nat) (more : List (Nat × Nat))
    (hp : parseRecord l = some { offset := off, type := 0, data := data })
    (hm : decodeRecords rest base = some more) :
    decodeRecords (l :: rest) base = some (dataPairs base off data ++ more) := by
  rw [decodeRecords]
  simp [hp, hm]

theorem decode_eof (base : Base) : decodeRecords (lines (eofLine ++ ['\n'])) base = some [] := by
  unfold eofLine
  rw [lines_recordLine, lines_nil, decodeRecords,
    parseRecord_recordLine 0 1 [] (by omega) (by omega) (by simp) (by simp)]
  simp

theorem chunkLen_pos (a : Nat) : 1 ≤ chunkLen a := by unfold chunkLen; omega
theorem chunkLen_le (a : Nat) : chunkLen a ≤ 16 := by unfold chunkLen; omega
theorem chunkLen_bound (a : Nat) : a % 65536 + chunkLen a ≤ 65536 := by unfold chunkLen; omega

theorem decodeRecords_encodeAux (fuel : Nat) : ∀ (a : Nat) (bytes : List Nat) (base : Base),
    bytes.length ≤ fuel → (∀ b ∈ bytes, b < 256) → a + bytes.length ≤ 4294967296 →
    decodeRecords (lines (encodeAux fuel a bytes)) base = some (image a bytes) := by
  induction fuel with
  | zero =>
    intro a bytes base hf _ _
    have : bytes = [] := List.eq_nil_of_length_eq_zero (by omega)
    subst this
    rw [encodeAux]; exact decode_eof base
  | succ fuel ih =>
    intro a bytes base hf hb hr
    cases bytes with
    | nil => rw [encodeAux]; exact decode_eof base
    | cons b bs =>
      rw [encodeAux, lines_recordLine, lines_recordLine]
      have hn1 := chunkLen_pos a
      have hn16 := chunkLen_le a
      have hnb := chunkLen_bound a
      generalize chunkLen a = n at *
      have hlen : (b :: bs).length = bs.length + 1 := rfl
      have ha : a < 4294967296 := by omega
      have htl : ((b :: bs).take n).length ≤ n := by rw [List.length_take]; omega
      have hdl : ((b :: bs).drop n).length = (b :: bs).length - n := List.length_drop
      have hrec := ih (a + n) ((b :: bs).drop n) (.linear ((a / 16777216 % 256 * 256 + a / 65536 % 256) * 65536))
        (by omega) (fun x hx => hb x (List.mem_of_mem_drop hx)) (by omega)
      rw [decode_step4 _ _ _ _ _ (parseRecord_recordLine 0 4 _ (by omega) (by omega)
        (by intro x hx; simp only [List.mem_cons, List.not_mem_nil, or_false] at hx; omega) (by simp))]
      rw [decode_step0 _ _ _ _ _ _ (parseRecord_recordLine (a % 65536) 0 _ (by omega) (by omega)
        (fun x hx => hb x (List.mem_of_mem_take hx)) (by omega)) hrec]
      rw [dataPairs_linear a _ (by rw [List.length_take]; omega), image_take_drop]

theorem hex_roundtrip (offset : Nat) (bytes : List Nat)
    (hb : ∀ b ∈ bytes, b < 256) (hr : offset + bytes.length ≤ 4294967296) :
    decode (encode offset bytes) = some (image offset bytes) :=
  decodeRecords_encodeAux bytes.length offset bytes (.linear 0) (Nat.le_refl _) hb hr

/-! concrete checks -/

example : eofLine = ":00000001FF".toList := by decide

example : encode 0x0800FFF0 [0x93, 0x80, 0x10, 0x00]
    = ":020000040800F2\n:04FFF00093801000EA\n:00000001FF\n".toList := by decide

example : decode (encode 0x0800FFF0 [0x93, 0x80, 0x10, 0x00])
    = some [(0x0800FFF0, 0x93), (0x0800FFF1, 0x80), (0x0800FFF2, 0x10), (0x0800FFF3, 0x00)] := by
  decide

-- a chunk that would cross a 64 KiB boundary is split
example : encode 0x0800FFFE [0x93, 0x80, 0x10, 0x00]
    = (":020000040800F2\n:02FFFE009380EE\n" ++
       ":020000040801F1\n:020000001000EE\n:00000001FF\n").toList := by decide

example : decode (encode 0x0800FFFE [0x93, 0x80, 0x10, 0x00])
    = some [(0x0800FFFE, 0x93), (0x0800FFFF, 0x80), (0x08010000, 0x10), (0x08010001, 0x00)] := by
  decide

example : decode (encode 0 []) = some [] := by decide

-- a real `intelhex` output
example : decode ":020000040800F2\n:04FFF00093801000EA\n:00000001FF\n".toList
    = some [(134283248, 147), (134283249, 128), (134283250, 16), (134283251, 0)] := by decide

-- same with CR LF line ends and lower-case digits
example : decode ":020000040800f2\r\n:04fff00093801000ea\r\n:00000001ff\r\n".toList
    = some [(134283248, 147), (134283249, 128), (134283250, 16), (134283251, 0)] := by decide

-- bad checksum (EA → EB)
example : decode ":020000040800F2\n:04FFF00093801000EB\n:00000001FF\n".toList = none := by decide

-- missing EOF record
example : decode ":020000040800F2\n:04FFF00093801000EA\n".toList = none := by decide

end BB.Hex
