/-
  BB.Lemmas.Bodies — the three shrinking loop bodies satisfy `BodyOK`.
-/
import BB.Lemmas.Layout
namespace BB.Lemmas
open BB

theorem keepItem_ok {it : Item} {repl : List Item} {n : Int} (h : keepItem it = .ok (repl, n)) :
    repl = [it] ∧ n = 0 := by
  unfold keepItem at h
  cases hs : it.sizeE with
  | error e => simp [hs, bind, Except.bind] at h
  | ok v =>
    simp only [hs, bind, Except.bind, pure, Except.pure, Except.ok.injEq, Prod.mk.injEq] at h
    exact ⟨h.1.symm, h.2.symm⟩

theorem bodyOK_of_keep {it : Item} {repl : List Item} {n : Int}
    (hnl : ∀ line nm, it ≠ .label line nm) (hsz : 0 ≤ it.sizeD) (h : keepItem it = .ok (repl, n)) :
    NoLabel repl ∧ NonNeg repl ∧ sizeSum repl = it.sizeD - n ∧ 0 ≤ n ∧ (0 < n → 0 < it.sizeD) := by
  obtain ⟨rfl, rfl⟩ := keepItem_ok h
  refine ⟨?_, ?_, ?_, by omega, by omega⟩
  · intro x hx line nm; simp only [List.mem_singleton] at hx; subst hx; exact hnl line nm
  · intro x hx; simp only [List.mem_singleton] at hx; subst hx; exact hsz
  · simp [sizeSum]

/-! ### transform_compressible -/

theorem compressedForm_sizes {c : String} {ins ci : Instr} (h : compressedForm c ins = some ci) :
    ins.isCompressed = false ∧ ci.isCompressed = true := by
  unfold compressedForm at h
  split at h
  all_goals (try (simp at h; done))
  all_goals (refine ⟨rfl, ?_⟩)
  all_goals (repeat' split at h)
  all_goals (first | (simp at h; done) | (simp only [Option.some.injEq] at h; subst h; rfl))

theorem compressBody_ok (H : Hooks) (constants : Dict) : BodyOK (compressBody H constants) := by
  constructor
  intro it p labels repl n hnl hsz h
  cases it with
  | instr line ins =>
    simp only [compressBody] at h
    by_cases haj : ins.isAuipcJump = true
    · rw [if_pos haj] at h; exact bodyOK_of_keep hnl hsz h
    · rw [if_neg haj] at h
      cases hm : firstMatch H (chainGet constants labels) line ins p criteria with
      | error e =>
        rw [hm] at h
        split at h <;> first | (simp at h; done) | (rename_i heq; cases heq; done) | (rename_i heq _; cases heq; done)
      | ok m =>
        rw [hm] at h
        cases m with
        | none => exact bodyOK_of_keep hnl hsz h
        | some c =>
          simp only at h
          cases hci : compressedForm c ins with
          | none => simp [hci] at h
          | some ci =>
            simp only [hci, pure, Except.pure, Except.ok.injEq, Prod.mk.injEq] at h
            obtain ⟨rfl, rfl⟩ := h
            obtain ⟨h1, h2⟩ := compressedForm_sizes hci
            have e1 : (Item.instr line ins).sizeD = 4 := by
              simp [Item.sizeD, Item.size?, Instr.size, h1]
            have e2 : (Item.instr line ci).sizeD = 2 := by
              simp [Item.sizeD, Item.size?, Instr.size, h2]
            refine ⟨?_, ?_, ?_, by omega, by omega⟩
            · intro x hx l nm; simp only [List.mem_singleton] at hx; subst hx; simp
            · intro x hx; simp only [List.mem_singleton] at hx; subst hx; omega
            · simp only [sizeSum, List.map_cons, List.map_nil, List.sum_cons, List.sum_nil]; omega
  | _ => exact bodyOK_of_keep hnl hsz (by simpa [compressBody] using h)

/-! ### transform_pseudo_instructions -/

theorem pseudoKind_big {name : String} {k : PKind} (h : pseudoKind name = some k) :
    k.isBig = true ↔ (name = "li" ∨ name = "call" ∨ name = "tail") := by
  by_cases h0 : name = "nop"
  · subst h0; have hk : pseudoKind "nop" = some k := h; revert hk; revert k; decide
  by_cases h1 : name = "li"
  · subst h1; have hk : pseudoKind "li" = some k := h; revert hk; revert k; decide
  by_cases h2 : name = "mv"
  · subst h2; have hk : pseudoKind "mv" = some k := h; revert hk; revert k; decide
  by_cases h3 : name = "not"
  · subst h3; have hk : pseudoKind "not" = some k := h; revert hk; revert k; decide
  by_cases h4 : name = "neg"
  · subst h4; have hk : pseudoKind "neg" = some k := h; revert hk; revert k; decide
  by_cases h5 : name = "seqz"
  · subst h5; have hk : pseudoKind "seqz" = some k := h; revert hk; revert k; decide
  by_cases h6 : name = "snez"
  · subst h6; have hk : pseudoKind "snez" = some k := h; revert hk; revert k; decide
  by_cases h7 : name = "sltz"
  · subst h7; have hk : pseudoKind "sltz" = some k := h; revert hk; revert k; decide
  by_cases h8 : name = "sgtz"
  · subst h8; have hk : pseudoKind "sgtz" = some k := h; revert hk; revert k; decide
  by_cases h9 : name = "beqz"
  · subst h9; have hk : pseudoKind "beqz" = some k := h; revert hk; revert k; decide
  by_cases h10 : name = "bnez"
  · subst h10; have hk : pseudoKind "bnez" = some k := h; revert hk; revert k; decide
  by_cases h11 : name = "bgez"
  · subst h11; have hk : pseudoKind "bgez" = some k := h; revert hk; revert k; decide
  by_cases h12 : name = "bltz"
  · subst h12; have hk : pseudoKind "bltz" = some k := h; revert hk; revert k; decide
  by_cases h13 : name = "blez"
  · subst h13; have hk : pseudoKind "blez" = some k := h; revert hk; revert k; decide
  by_cases h14 : name = "bgtz"
  · subst h14; have hk : pseudoKind "bgtz" = some k := h; revert hk; revert k; decide
  by_cases h15 : name = "bgt"
  · subst h15; have hk : pseudoKind "bgt" = some k := h; revert hk; revert k; decide
  by_cases h16 : name = "ble"
  · subst h16; have hk : pseudoKind "ble" = some k := h; revert hk; revert k; decide
  by_cases h17 : name = "bgtu"
  · subst h17; have hk : pseudoKind "bgtu" = some k := h; revert hk; revert k; decide
  by_cases h18 : name = "bleu"
  · subst h18; have hk : pseudoKind "bleu" = some k := h; revert hk; revert k; decide
  by_cases h19 : name = "j"
  · subst h19; have hk : pseudoKind "j" = some k := h; revert hk; revert k; decide
  by_cases h20 : name = "jal"
  · subst h20; have hk : pseudoKind "jal" = some k := h; revert hk; revert k; decide
  by_cases h21 : name = "jr"
  · subst h21; have hk : pseudoKind "jr" = some k := h; revert hk; revert k; decide
  by_cases h22 : name = "jalr"
  · subst h22; have hk : pseudoKind "jalr" = some k := h; revert hk; revert k; decide
  by_cases h23 : name = "ret"
  · subst h23; have hk : pseudoKind "ret" = some k := h; revert hk; revert k; decide
  by_cases h24 : name = "call"
  · subst h24; have hk : pseudoKind "call" = some k := h; revert hk; revert k; decide
  by_cases h25 : name = "tail"
  · subst h25; have hk : pseudoKind "tail" = some k := h; revert hk; revert k; decide
  by_cases h26 : name = "fence"
  · subst h26; have hk : pseudoKind "fence" = some k := h; revert hk; revert k; decide
  · simp [pseudoKind, h0, h1, h2, h3, h4, h5, h6, h7, h8, h9, h10, h11, h12, h13, h14, h15, h16, h17, h18, h19, h20, h21, h22, h23, h24, h25, h26] at h

/-- every expansion consists of uncompressed instructions: one (short form: `true`) or two for the
    big pseudo-instructions, exactly one for the others -/
theorem expandKind_shape {H : Hooks} {env} {line} {k : PKind} {args} {p} {instrs} {short}
    (h : expandKind H env line k args p = .ok (instrs, short)) :
    (∀ i ∈ instrs, i.isCompressed = false) ∧
    ((k.isBig = true ∧ short = true ∧ instrs.length = 1) ∨
     (k.isBig = true ∧ short = false ∧ instrs.length = 2) ∨
     (k.isBig = false ∧ short = false ∧ instrs.length = 1)) := by
  unfold expandKind at h
  cases k <;> simp only at h
  all_goals (repeat' split at h)
  all_goals (try (simp at h; done))
  all_goals (try (simp only [Except.ok.injEq, Prod.mk.injEq] at h; obtain ⟨rfl, rfl⟩ := h;
                  simp [PKind.isBig, Instr.isCompressed]; done))
  all_goals (
    simp only [bind, Except.bind, pure, Except.pure] at h
    repeat' split at h
    all_goals (try (simp at h; done))
    all_goals (try (simp only [Except.ok.injEq, Prod.mk.injEq] at h; obtain ⟨rfl, rfl⟩ := h;
                    simp [PKind.isBig, Instr.isCompressed]; done)))

theorem pseudoBody_ok (H : Hooks) (constants : Dict) : BodyOK (pseudoBody H constants) := by
  constructor
  intro it p labels repl n hnl hsz h
  cases it with
  | pseudo line name args =>
    simp only [pseudoBody, bind, Except.bind] at h
    cases hres : expandPseudo H (chainGet constants labels) line name args p with
    | error e => simp [hres] at h
    | ok res =>
      obtain ⟨instrs, short⟩ := res
      simp only [hres, pure, Except.pure, Except.ok.injEq, Prod.mk.injEq] at h
      obtain ⟨rfl, rfl⟩ := h
      unfold expandPseudo at hres
      cases hk : pseudoKind name with
      | none => simp [hk] at hres
      | some k =>
        simp only [hk] at hres
        obtain ⟨hunc, hshape⟩ := expandKind_shape hres
        have hbig := pseudoKind_big hk
        have hsize : (Item.pseudo line name args).sizeD = if k.isBig then 8 else 4 := by
          simp only [Item.sizeD, Item.size?, Option.getD_some]
          by_cases hb : k.isBig = true
          · simp [hb, hbig.mp hb]
          · have : ¬ (name = "li" ∨ name = "call" ∨ name = "tail") := fun hh => hb (hbig.mpr hh)
            simp [hb, this]
        have hsum : ∀ l : List Instr, (∀ i ∈ l, i.isCompressed = false) →
            sizeSum (l.map (Item.instr line)) = 4 * (l.length : Int) := by
          intro l hl
          induction l with
          | nil => simp [sizeSum]
          | cons i t ih =>
            have hi := hl i List.mem_cons_self
            have ht := ih (fun x hx => hl x (List.mem_cons_of_mem _ hx))
            simp only [List.map_cons, sizeSum_cons, ht, List.length_cons]
            simp only [Item.sizeD, Item.size?, Instr.size, hi, Option.getD_some]
            push_cast
            omega
        refine ⟨?_, ?_, ?_, ?_, ?_⟩
        · intro x hx l nm
          simp only [List.mem_map] at hx
          obtain ⟨i, _, rfl⟩ := hx
          simp
        · intro x hx
          simp only [List.mem_map] at hx
          obtain ⟨i, hi, rfl⟩ := hx
          simp [Item.sizeD, Item.size?, Instr.size, hunc i hi]
        · rw [hsum instrs hunc, hsize]
          rcases hshape with ⟨hb, hs, hl⟩ | ⟨hb, hs, hl⟩ | ⟨hb, hs, hl⟩ <;> simp [hb, hs, hl]
        · split <;> omega
        · intro hn
          rw [hsize]; split <;> omega
  | _ => exact bodyOK_of_keep hnl hsz (by simpa [pseudoBody] using h)

/-! ### resolve_aligns -/

theorem alignPadding_range {a p pad : Int} (ha : 0 < a) (h : alignPadding a p = some pad) :
    0 ≤ pad ∧ pad < a ∧ (p + pad) % a = 0 := by
  have hm : pyMod p a = p % a := by
    unfold pyMod; exact Int.fmod_eq_emod_of_nonneg p (by omega)
  unfold alignPadding at h
  rw [if_neg (by omega), hm] at h
  simp only at h
  have h1 : 0 ≤ p % a := Int.emod_nonneg p (by omega)
  have h2 : p % a < a := Int.emod_lt_of_pos p ha
  split at h
  · rename_i heq
    simp only [Option.some.injEq] at h; subst h
    have : p % a = 0 := by omega
    refine ⟨by omega, ha, ?_⟩
    simpa using this
  · simp only [Option.some.injEq] at h; subst h
    refine ⟨by omega, by omega, ?_⟩
    have : (p + (a - p % a)) = (p - p % a) + a := by omega
    rw [this, Int.add_emod_right]
    have hd : p - p % a = a * (p / a) := by
      have := Int.emod_add_mul_ediv p a
      omega
    rw [hd]; exact Int.mul_emod_right a (p / a)

theorem alignBody_ok : BodyOK alignBody := by
  constructor
  intro it p labels repl n hnl hsz h
  cases it with
  | align line alignment =>
    simp only [alignBody] at h
    have hsd : (Item.align line alignment).sizeD = alignment := by simp [Item.sizeD, Item.size?]
    rw [hsd] at hsz ⊢
    split at h
    · simp at h
    · rename_i padding hpad
      have hpos : 0 < alignment := by
        by_cases h0 : 0 < alignment
        · exact h0
        · have : alignment = 0 := by omega
          subst this; simp [alignPadding] at hpad
      obtain ⟨r1, r2, _⟩ := alignPadding_range hpos hpad
      split at h
      · rename_i hz
        simp only [pure, Except.pure, Except.ok.injEq, Prod.mk.injEq] at h
        obtain ⟨rfl, rfl⟩ := h
        subst hz
        exact ⟨fun x hx => by simp at hx, fun x hx => by simp at hx, by simp [sizeSum], by omega, fun _ => hpos⟩
      · split at h
        · simp at h
        · simp only [pure, Except.pure, Except.ok.injEq, Prod.mk.injEq] at h
          obtain ⟨rfl, rfl⟩ := h
          have hb : (Item.blob line (List.replicate padding.toNat 0)).sizeD = padding := by
            simp [Item.sizeD, Item.size?]; omega
          refine ⟨?_, ?_, ?_, by omega, fun _ => hpos⟩
          · intro x hx l nm; simp only [List.mem_singleton] at hx; subst hx; simp
          · intro x hx; simp only [List.mem_singleton] at hx; subst hx; rw [hb]; exact r1
          · simp only [sizeSum, List.map_cons, List.map_nil, List.sum_cons, List.sum_nil, hb]; omega
  | _ => exact bodyOK_of_keep hnl hsz (by simpa [alignBody] using h)

end BB.Lemmas
