/-
  BB.Lemmas.ImmCongPasses — every pass of `assembleItems` on two item lists that differ only in how
  their immediates are written (`ItemRel`): the same error, or related results; from
  resolve_immediates on the results are EQUAL.  `assemble_congr` puts the passes together.
-/
import BB.Lemmas.ImmCong
set_option linter.unusedSimpArgs false
set_option linter.unusedVariables false
namespace BB.Lemmas
open BB

variable {H : Hooks} {P : Env → Prop}

def ListDictRel (H : Hooks) (P : Env → Prop) (r r' : List Item × Dict) : Prop := Rel2 (ItemRel H P) r.1 r'.1 ∧ r.2 = r'.2

/-! ### resolve_constants, resolve_labels, aliases -/

theorem icResolveConstants_cons {it : Item} (h : ∀ l n e, it ≠ .constant l n e) (rest : List Item) (c : Dict) :
    resolveConstants H (it :: rest) c = (do
      let (out, c') ← resolveConstants H rest c
      pure (it :: out, c')) := by
  cases it <;> first | rfl | exact absurd rfl (h _ _ _)

theorem resolveConstants_rel {items items' : List Item} (h : Rel2 (ItemRel H P) items items') :
    ∀ c, ExRel (ListDictRel H P) (resolveConstants H items c) (resolveConstants H items' c) := by
  induction h with
  | nil => intro c; exact ⟨.nil, rfl⟩
  | @cons a b l l' hab _ ih =>
    intro c
    have other : ∀ (a b : Item), ItemRel H P a b → (∀ l n e, a ≠ .constant l n e) → (∀ l n e, b ≠ .constant l n e) →
        ExRel (ListDictRel H P) (resolveConstants H (a :: l) c) (resolveConstants H (b :: l') c) := by
      intro a b hab ha hb
      rw [icResolveConstants_cons ha, icResolveConstants_cons hb]
      refine ExRel.bind (ih c) ?_
      rintro ⟨o, c1⟩ ⟨o', c1'⟩ ⟨h1, h2⟩
      exact ⟨.cons hab h1, h2⟩
    have same_const : ∀ line name (e : Imm),
        ExRel (ListDictRel H P) (resolveConstants H (.constant line name e :: l) c) (resolveConstants H (.constant line name e :: l') c) := by
      intro line name e
      simp only [resolveConstants]
      cases e with
      | arith s =>
        simp only
        split
        · rfl
        · split
          · rfl
          · simp only [bind, Except.bind]
            split
            · rfl
            · exact ih _
      | _ => rfl
    cases hab with
    | refl a =>
      by_cases hc : ∃ line name e, a = .constant line name e
      · obtain ⟨line, name, e, rfl⟩ := hc
        exact same_const line name e
      · exact other a a (.refl a) (fun l n e h => hc ⟨l, n, e, h⟩) (fun l n e h => hc ⟨l, n, e, h⟩)
    | instr line hr => exact other _ _ (.instr line hr) (by intro l n e h; cases h) (by intro l n e h; cases h)
    | pack line fmt hr => exact other _ _ (.pack line fmt hr) (by intro l n e h; cases h) (by intro l n e h; cases h)
    | shorthand line name hr => exact other _ _ (.shorthand line name hr) (by intro l n e h; cases h) (by intro l n e h; cases h)
    | pseudo line name args args' hr =>
      exact other _ _ (.pseudo line name args args' hr) (by intro l n e h; cases h) (by intro l n e h; cases h)
    | constant line name hr =>
      cases hr with
      | refl => exact same_const line name _
      | arith e e' he =>
        simp only [resolveConstants]
        split
        · rfl
        · split
          · rfl
          · simp only [bind, Except.bind, he _ trivial]
            split
            · rfl
            · exact ih _
      | position ref e e' he => rfl
      | hi _ => rfl
      | lo _ => rfl

theorem icResolveLabelsAux_cons {it : Item} (h : ∀ l n, it ≠ .label l n) (rest : List Item) (p : Int) (L : Dict)
    (d : List String) :
    resolveLabelsAux (it :: rest) p L d = (do
      let sz ← it.sizeE
      let (out, l) ← resolveLabelsAux rest (p + sz) L d
      pure (it :: out, l)) := by
  cases it <;> first | rfl | exact absurd rfl (h _ _)

theorem resolveLabelsAux_rel {items items' : List Item} (h : Rel2 (ItemRel H P) items items') :
    ∀ p L d, ExRel (ListDictRel H P) (resolveLabelsAux items p L d) (resolveLabelsAux items' p L d) := by
  induction h with
  | nil => intro p L d; exact ⟨.nil, rfl⟩
  | @cons a b l l' hab _ ih =>
    intro p L d
    by_cases hl : ∃ ln n, a = .label ln n
    · obtain ⟨ln, n, rfl⟩ := hl
      have := hab.label_left
      subst this
      simp only [resolveLabelsAux]
      split
      · rfl
      · exact ih _ _ _
    · have hnl : ∀ ln n, a ≠ .label ln n := fun ln n e => hl ⟨ln, n, e⟩
      have hnl' : ∀ ln n, b ≠ .label ln n := by
        intro ln n e; subst e
        exact hnl ln n hab.label_right
      rw [icResolveLabelsAux_cons hnl, icResolveLabelsAux_cons hnl', hab.sizeE]
      refine ExRel.bind (R := Eq) (ExRel.of_eq rfl) ?_
      rintro sz _ rfl
      refine ExRel.bind (ih (p + sz) L d) ?_
      rintro ⟨o, l1⟩ ⟨o', l1'⟩ ⟨h1, h2⟩
      exact ⟨.cons hab h1, h2⟩

theorem aliases_rel (constants : Dict) {items items' : List Item} (h : Rel2 (ItemRel H P) items items') :
    Rel2 (ItemRel H P) (resolveRegisterAliases items constants) (resolveRegisterAliases items' constants) := by
  unfold resolveRegisterAliases
  refine Rel2.map ?_ h
  intro a b hab
  cases hab with
  | refl a => exact .refl _
  | instr line hr => exact .instr line (hr.mapRegs _)
  | constant line name hr => exact .constant line name hr
  | pack line fmt hr => exact .pack line fmt hr
  | shorthand line name hr => exact .shorthand line name hr
  | pseudo line name args args' hr => exact .pseudo line name args args' hr

/-! ### the loop bodies -/

theorem keepItem_rel {a b : Item} (h : ItemRel H P a b) : ExRel (BodyRel (ItemRel H P)) (keepItem a) (keepItem b) := by
  unfold keepItem
  rw [h.sizeE]
  cases a.sizeE with
  | error e => rfl
  | ok v => exact ⟨.cons h .nil, rfl⟩

theorem compressBody_rel (constants : Dict) (hP : ∀ L, P (chainGet constants L)) {a b : Item} (h : ItemRel H P a b)
    (p : Int) (L : Dict) :
    ExRel (BodyRel (ItemRel H P)) (compressBody H constants a p L) (compressBody H constants b p L) := by
  have keep : ∀ a b : Item, ItemRel H P a b → (∀ l i, a ≠ .instr l i) → (∀ l i, b ≠ .instr l i) →
      ExRel (BodyRel (ItemRel H P)) (compressBody H constants a p L) (compressBody H constants b p L) := by
    intro a b hab ha hb
    have e1 : compressBody H constants a p L = keepItem a := by
      cases a <;> first | rfl | exact absurd rfl (ha _ _)
    have e2 : compressBody H constants b p L = keepItem b := by
      cases b <;> first | rfl | exact absurd rfl (hb _ _)
    rw [e1, e2]; exact keepItem_rel hab
  have instrs : ∀ line (x y : Instr), InstrRel H P x y →
      ExRel (BodyRel (ItemRel H P)) (compressBody H constants (.instr line x) p L) (compressBody H constants (.instr line y) p L) := by
    intro line x y hr
    simp only [compressBody, hr.aj, hr.firstMatch _ (hP L)]
    split
    · exact keepItem_rel (.instr line hr)
    · cases firstMatch H (chainGet constants L) line x p criteria with
      | error e =>
        split <;> first | rfl | (rename_i heq; cases heq)
      | ok o =>
        cases o with
        | none => exact keepItem_rel (.instr line hr)
        | some c =>
          simp only
          rcases hr.compressedForm c with ⟨h1, h2⟩ | ⟨cf, cf', h1, h2, h3⟩
          · rw [h1, h2]; rfl
          · rw [h1, h2]; exact ⟨.cons (.instr line h3) .nil, rfl⟩
  cases h with
  | refl a =>
    by_cases hi : ∃ l i, a = .instr l i
    · obtain ⟨l, i, rfl⟩ := hi
      exact instrs l i i (.refl i)
    · exact keep a a (.refl a) (fun l i e => hi ⟨l, i, e⟩) (fun l i e => hi ⟨l, i, e⟩)
  | instr line hr => exact instrs line _ _ hr
  | constant line name hr => exact keep _ _ (.constant line name hr) (by intro l i e; cases e) (by intro l i e; cases e)
  | pack line fmt hr => exact keep _ _ (.pack line fmt hr) (by intro l i e; cases e) (by intro l i e; cases e)
  | shorthand line name hr => exact keep _ _ (.shorthand line name hr) (by intro l i e; cases e) (by intro l i e; cases e)
  | pseudo line name args args' hr =>
    exact keep _ _ (.pseudo line name args args' hr) (by intro l i e; cases e) (by intro l i e; cases e)

theorem pseudoBody_rel (constants : Dict) (hP : ∀ L, P (chainGet constants L)) {a b : Item} (h : ItemRel H P a b)
    (p : Int) (L : Dict) :
    ExRel (BodyRel (ItemRel H P)) (pseudoBody H constants a p L) (pseudoBody H constants b p L) := by
  have keep : ∀ a b : Item, ItemRel H P a b → (∀ l n ar, a ≠ .pseudo l n ar) → (∀ l n ar, b ≠ .pseudo l n ar) →
      ExRel (BodyRel (ItemRel H P)) (pseudoBody H constants a p L) (pseudoBody H constants b p L) := by
    intro a b hab ha hb
    have e1 : pseudoBody H constants a p L = keepItem a := by
      cases a <;> first | rfl | exact absurd rfl (ha _ _ _)
    have e2 : pseudoBody H constants b p L = keepItem b := by
      cases b <;> first | rfl | exact absurd rfl (hb _ _ _)
    rw [e1, e2]; exact keepItem_rel hab
  have pseudos : ∀ line name args args',
      ExRel (fun r r' => Rel2 (InstrRel H P) r.1 r'.1 ∧ r.2 = r'.2)
        (expandPseudo H (chainGet constants L) line name args p) (expandPseudo H (chainGet constants L) line name args' p) →
      ExRel (BodyRel (ItemRel H P)) (pseudoBody H constants (.pseudo line name args) p L)
        (pseudoBody H constants (.pseudo line name args') p L) := by
    intro line name args args' hr
    simp only [pseudoBody]
    refine ExRel.bind hr ?_
    rintro ⟨i1, s1⟩ ⟨i2, s2⟩ ⟨h1, h2⟩
    simp only at h1 h2
    subst h2
    exact ⟨Rel2.map (fun x y hxy => ItemRel.instr line hxy) h1, rfl⟩
  cases h with
  | refl a =>
    by_cases hi : ∃ l n ar, a = .pseudo l n ar
    · obtain ⟨l, n, ar, rfl⟩ := hi
      refine pseudos l n ar ar ?_
      cases expandPseudo H (chainGet constants L) l n ar p with
      | error e => rfl
      | ok r => exact ⟨Rel2.refl InstrRel.refl _, rfl⟩
    · exact keep a a (.refl a) (fun l n ar e => hi ⟨l, n, ar, e⟩) (fun l n ar e => hi ⟨l, n, ar, e⟩)
  | instr line hr => exact keep _ _ (.instr line hr) (by intro l n ar e; cases e) (by intro l n ar e; cases e)
  | constant line name hr => exact keep _ _ (.constant line name hr) (by intro l n ar e; cases e) (by intro l n ar e; cases e)
  | pack line fmt hr => exact keep _ _ (.pack line fmt hr) (by intro l n ar e; cases e) (by intro l n ar e; cases e)
  | shorthand line name hr => exact keep _ _ (.shorthand line name hr) (by intro l n ar e; cases e) (by intro l n ar e; cases e)
  | pseudo line name args args' hr => exact pseudos line name args args' (hr _ p (hP L))

theorem alignBody_rel {a b : Item} (h : ItemRel H P a b) (p : Int) (L : Dict) :
    ExRel (BodyRel (ItemRel H P)) (alignBody a p L) (alignBody b p L) := by
  have keep : ∀ a b : Item, ItemRel H P a b → (∀ l al, a ≠ .align l al) → (∀ l al, b ≠ .align l al) →
      ExRel (BodyRel (ItemRel H P)) (alignBody a p L) (alignBody b p L) := by
    intro a b hab ha hb
    have e1 : alignBody a p L = keepItem a := by
      cases a <;> first | rfl | exact absurd rfl (ha _ _)
    have e2 : alignBody b p L = keepItem b := by
      cases b <;> first | rfl | exact absurd rfl (hb _ _)
    rw [e1, e2]; exact keepItem_rel hab
  cases h with
  | refl a =>
    cases hr : alignBody a p L with
    | error e => rfl
    | ok r => exact ⟨Rel2.refl ItemRel.refl _, rfl⟩
  | instr line hr => exact keep _ _ (.instr line hr) (by intro l n e; cases e) (by intro l n e; cases e)
  | constant line name hr => exact keep _ _ (.constant line name hr) (by intro l n e; cases e) (by intro l n e; cases e)
  | pack line fmt hr => exact keep _ _ (.pack line fmt hr) (by intro l n e; cases e) (by intro l n e; cases e)
  | shorthand line name hr => exact keep _ _ (.shorthand line name hr) (by intro l n e; cases e) (by intro l n e; cases e)
  | pseudo line name args args' hr =>
    exact keep _ _ (.pseudo line name args args' hr) (by intro l n e; cases e) (by intro l n e; cases e)

/-! ### from resolve_immediates on -/

/-- what may still differ after resolve_immediates: items that should be gone by then -/
inductive TailRel : Item → Item → Prop
  | refl (a : Item) : TailRel a a
  | constant (line : Line) (name : String) (e e' : Imm) : TailRel (.constant line name e) (.constant line name e')
  | pseudo (line : Line) (name : String) (args args' : List String) : TailRel (.pseudo line name args) (.pseudo line name args')

theorem TailRel.sizeD {a b : Item} (h : TailRel a b) : b.sizeD = a.sizeD := by cases h <;> rfl

theorem tail_sizeSum {l l' : List Item} (h : Rel2 TailRel l l') : sizeSum l' = sizeSum l := by
  induction h with
  | nil => rfl
  | cons h _ ih => rw [sizeSum_cons, sizeSum_cons, h.sizeD, ih]

theorem immBody_rel (constants : Dict) (hP : ∀ L, P (chainGet constants L)) {a b : Item} (h : ItemRel H P a b)
    (p : Int) (L : Dict) : ExRel (BodyRel TailRel) (immBody H constants a p L) (immBody H constants b p L) := by
  have same : ∀ a : Item, ExRel (BodyRel TailRel) (immBody H constants a p L) (immBody H constants a p L) := by
    intro a
    cases immBody H constants a p L with
    | error e => rfl
    | ok r => exact ⟨Rel2.refl TailRel.refl _, rfl⟩
  cases h with
  | refl a => exact same a
  | instr line hr =>
    rename_i x y
    simp only [immBody]
    rcases hr.imm with ⟨h1, h2⟩ | ⟨u, v, h1, h2, hr'⟩
    · have : y = x := by
        rcases hr with rfl | ⟨imm, _, hi, _, _⟩
        · rfl
        · rw [h1] at hi; cases hi
      subst this
      exact same (.instr line y)
    · simp only [h1, h2, hr.aj, ← hr'.eval _ (hP L)]
      cases u.eval H (chainGet constants L) line (if x.isAuipcJump = true then p - 4 else p) with
      | error e => rfl
      | ok val =>
        simp only [bind, Except.bind, pure, Except.pure, hr.setValue]
        exact ⟨Rel2.refl TailRel.refl _, rfl⟩
  | constant line name hr =>
    simp only [immBody, keepItem, Item.sizeE, Item.size?, bind, Except.bind, pure, Except.pure]
    exact ⟨.cons (.constant line name _ _) .nil, rfl⟩
  | pack line fmt hr =>
    simp only [immBody, ← hr.eval _ (hP L)]
    exact same (.pack line fmt _) |> fun h => by simpa only [immBody] using h
  | shorthand line name hr =>
    simp only [immBody, ← hr.eval _ (hP L)]
    exact same (.shorthandPack line name _) |> fun h => by simpa only [immBody] using h
  | pseudo line name args args' hr =>
    simp only [immBody, keepItem, Item.sizeE, Item.size?, bind, Except.bind, pure, Except.pure]
    exact ⟨.cons (.pseudo line name _ _) .nil, rfl⟩

theorem mapM_rel {g : Item → Except Err Item} (hg : ∀ a b, TailRel a b → ExRel TailRel (g a) (g b)) {l l' : List Item}
    (h : Rel2 TailRel l l') : ExRel (Rel2 TailRel) (l.mapM g) (l'.mapM g) := by
  induction h with
  | nil => exact .nil
  | @cons a b t t' hab _ ih =>
    rw [List.mapM_cons, List.mapM_cons]
    refine ExRel.bind (hg a b hab) ?_
    intro x y hxy
    refine ExRel.bind ih ?_
    intro o o' hoo
    exact .cons hxy hoo

theorem step_rel {g : Item → Except Err Item} (hc : ∀ l n e, g (.constant l n e) = .ok (.constant l n e))
    (hp : ∀ l n ar ar', (∃ e, g (.pseudo l n ar) = .error e ∧ g (.pseudo l n ar') = .error e) ∨
      (g (.pseudo l n ar) = .ok (.pseudo l n ar) ∧ g (.pseudo l n ar') = .ok (.pseudo l n ar')))
    (a b : Item) (h : TailRel a b) : ExRel TailRel (g a) (g b) := by
  cases h with
  | refl a =>
    cases g a with
    | error e => rfl
    | ok r => exact .refl r
  | constant line name e e' => rw [hc, hc]; exact .constant line name e e'
  | pseudo line name args args' =>
    rcases hp line name args args' with ⟨e, h1, h2⟩ | ⟨h1, h2⟩
    · rw [h1, h2]; rfl
    · rw [h1, h2]; exact .pseudo line name args args'

theorem resolveBlobs_rel {l l' : List Item} (h : Rel2 TailRel l l') : resolveBlobs l = resolveBlobs l' := by
  induction h with
  | nil => rfl
  | @cons a b t t' hab _ ih =>
    cases hab with
    | refl a => cases a <;> simp only [resolveBlobs, ih]
    | constant => rfl
    | pseudo => rfl

/-- the passes after resolve_immediates -/
def tailOf (H : Hooks) (items : List Item) : Except Err (List Nat) := do
  let items ← resolveInstructions items
  let items := resolveStrings items
  let items ← resolveSequences items
  let items ← transformShorthandPacks items
  let items ← resolvePacks items
  let items ← resolveIncludeBytes H items
  resolveBlobs items

theorem tail_rel {l l' : List Item} (h : Rel2 TailRel l l') : tailOf H l = tailOf H l' := by
  unfold tailOf resolveInstructions resolveSequences transformShorthandPacks resolvePacks resolveIncludeBytes
  apply ExRel.eq
  refine ExRel.bind (mapM_rel (step_rel (g := instrStep) (fun _ _ _ => rfl) (fun _ _ _ _ => Or.inl ⟨_, rfl, rfl⟩)) h) ?_
  intro a b hab
  have hs : Rel2 TailRel (resolveStrings a) (resolveStrings b) := by
    unfold resolveStrings
    refine Rel2.map ?_ hab
    intro x y hxy
    cases hxy with
    | refl x => exact .refl _
    | constant line name e e' => exact .constant line name e e'
    | pseudo line name args args' => exact .pseudo line name args args'
  refine ExRel.bind (mapM_rel (step_rel (g := seqStep) (fun _ _ _ => rfl) (fun _ _ _ _ => Or.inr ⟨rfl, rfl⟩)) hs) ?_
  intro a2 b2 h2
  refine ExRel.bind (mapM_rel (step_rel (g := shorthandStep) (fun _ _ _ => rfl) (fun _ _ _ _ => Or.inr ⟨rfl, rfl⟩)) h2) ?_
  intro a3 b3 h3
  refine ExRel.bind (mapM_rel (step_rel (g := packStep) (fun _ _ _ => rfl) (fun _ _ _ _ => Or.inr ⟨rfl, rfl⟩)) h3) ?_
  intro a4 b4 h4
  refine ExRel.bind (mapM_rel (step_rel (g := includeBytesStep H) (fun _ _ _ => rfl) (fun _ _ _ _ => Or.inr ⟨rfl, rfl⟩)) h4) ?_
  intro a5 b5 h5
  exact ExRel.of_eq (resolveBlobs_rel h5)

theorem assembleItems_tail (H : Hooks) (compress : Bool) (items : List Item) (cs ls : Dict) :
    assembleItems H compress items cs ls = (do
      let (items, constants) ← resolveConstants H items cs
      let (items, labels) ← resolveLabels items ls
      let items := resolveRegisterAliases items constants
      let (items, labels) ← maybeCompress H compress items constants labels
      let (items, labels) ← transformPseudo H items constants labels
      let items := resolveRegisterAliases items constants
      let (items, labels) ← maybeCompress H compress items constants labels
      let (items, labels) ← resolveAligns items labels
      let items ← resolveImmediates H items constants labels
      let bytes ← tailOf H items
      pure { bytes := bytes, labels := labels, constants := constants }) := by
  unfold assembleItems tailOf
  simp only [bind_assoc]

/-- **the whole pipeline on related lists** -/
theorem assemble_congr (H : Hooks) (P : Env → Prop) (compress : Bool) {items items' : List Item} (cs ls : Dict)
    (h : Rel2 (ItemRel H P) items items')
    (hP : ∀ out constants, resolveConstants H items cs = .ok (out, constants) → ∀ L, P (chainGet constants L)) :
    assembleItems H compress items cs ls = assembleItems H compress items' cs ls := by
  rw [assembleItems_tail, assembleItems_tail]
  have h1 := resolveConstants_rel h cs
  cases e1 : resolveConstants H items cs with
  | error e =>
    rw [e1] at h1
    cases e1' : resolveConstants H items' cs with
    | error e' => rw [e1'] at h1; simp only [ExRel] at h1; subst h1; rfl
    | ok r => rw [e1'] at h1; simp only [ExRel] at h1
  | ok r1 =>
    obtain ⟨i1, constants⟩ := r1
    rw [e1] at h1
    cases e1' : resolveConstants H items' cs with
    | error e' => rw [e1'] at h1; simp only [ExRel] at h1
    | ok r1' =>
      obtain ⟨i1', constants'⟩ := r1'
      rw [e1'] at h1
      obtain ⟨r1, hc⟩ := h1
      simp only at r1 hc
      subst hc
      have hPc := hP i1 constants e1
      apply ExRel.eq
      simp only [bind, Except.bind]
      show ExRel Eq _ _
      -- resolve_labels
      refine ExRel.bind (R := ListDictRel H P) (resolveLabelsAux_rel r1 0 ls []) ?_
      rintro ⟨i2, l2⟩ ⟨i2', l2'⟩ ⟨r2, hl2⟩
      simp only at r2 hl2
      subst hl2
      have r2a := aliases_rel constants r2
      -- the walks
      have wcomp : ∀ {G G' : List Item}, Rel2 (ItemRel H P) G G' → ∀ L,
          ExRel (WalkRel (ItemRel H P)) (maybeCompress H compress G constants L) (maybeCompress H compress G' constants L) := by
        intro G G' hG L
        unfold maybeCompress transformCompressible
        cases compress with
        | false => exact ⟨hG, rfl⟩
        | true =>
          exact walk_rel (R := ItemRel H P) (fun _ _ _ h => h.label_left) (fun _ _ _ h => h.label_right) (fun l n => .refl _)
            (fun _ _ h => rel2_sizeSum h) (fun a b hab _ p L => compressBody_rel constants hPc hab p L) hG 0 L
      refine ExRel.bind (wcomp r2a l2) ?_
      rintro ⟨i3, l3⟩ ⟨i3', l3'⟩ ⟨r3, hl3⟩
      simp only at r3 hl3
      subst hl3
      refine ExRel.bind (R := WalkRel (ItemRel H P)) (walk_rel (R := ItemRel H P) (fun _ _ _ h => h.label_left) (fun _ _ _ h => h.label_right)
        (fun l n => .refl _) (fun _ _ h => rel2_sizeSum h) (fun a b hab _ p L => pseudoBody_rel constants hPc hab p L) r3 0 l3) ?_
      rintro ⟨i4, l4⟩ ⟨i4', l4'⟩ ⟨r4, hl4⟩
      simp only at r4 hl4
      subst hl4
      refine ExRel.bind (wcomp (aliases_rel constants r4) l4) ?_
      rintro ⟨i6, l6⟩ ⟨i6', l6'⟩ ⟨r6, hl6⟩
      simp only at r6 hl6
      subst hl6
      refine ExRel.bind (R := WalkRel (ItemRel H P)) (walk_rel (R := ItemRel H P) (fun _ _ _ h => h.label_left) (fun _ _ _ h => h.label_right)
        (fun l n => .refl _) (fun _ _ h => rel2_sizeSum h) (fun a b hab _ p L => alignBody_rel hab p L) r6 0 l6) ?_
      rintro ⟨i7, l7⟩ ⟨i7', l7'⟩ ⟨r7, hl7⟩
      simp only at r7 hl7
      subst hl7
      -- resolve_immediates
      have himm : ExRel (Rel2 TailRel) (resolveImmediates H i7 constants l7) (resolveImmediates H i7' constants l7) := by
        unfold resolveImmediates
        refine ExRel.bind (R := WalkRel TailRel) (walk_rel (R := ItemRel H P) (fun _ _ _ h => h.label_left) (fun _ _ _ h => h.label_right)
          (fun l n => .refl _) (fun _ _ h => tail_sizeSum h) (fun a b hab _ p L => immBody_rel constants hPc hab p L) r7 0 l7) ?_
        rintro ⟨o, _⟩ ⟨o', _⟩ ⟨ho, _⟩
        exact ho
      refine ExRel.bind himm ?_
      intro i8 i8' r8
      rw [tail_rel r8]
      exact ExRel.of_eq rfl

end BB.Lemmas
