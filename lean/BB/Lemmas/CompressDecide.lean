/-
  BB.Lemmas.CompressDecide — the decision procedure of transform_compressible as a pure function
  of the mnemonic, the register NUMBERS and the immediate's VALUE.

  `Pred.evalN`, `firstMatchN`  : numeric mirror of `Pred.eval`, `firstMatch` (no hooks, no errors)
  `Instr.wellKinded`           : the instruction's class is the one INSTRUCTIONS lists for its name
                                 (what the parser guarantees)
  `firstMatch_eq_N`            : on a well-kinded instruction whose registers look up and whose
                                 immediate evaluates, `firstMatch … criteria = .ok (firstMatchN …)`
-/
import BB.Lemmas.CompressPreds
set_option linter.unusedSimpArgs false
set_option linter.unusedVariables false
namespace BB.Lemmas
open BB BB.Spec

def _root_.BB.Pred.evalN (name : String) (r : Fld → Nat) (v : Int) : Pred → Bool
  | .nameEq s => decide (name = s)
  | .regEq f n => decide (r f = n)
  | .regNe f n => decide (r f ≠ n)
  | .regBetween f lo hi => decide (r f ≥ lo ∧ r f ≤ hi)
  | .regsMatch a b => decide (r a = r b)
  | .immEq x => decide (v = x)
  | .immNe x => decide (v ≠ x)
  | .immDiv x => decide (v % x = 0)
  | .immBetween lo hi => decide (v ≥ lo ∧ v ≤ hi)

/-- first criterion all of whose predicates hold of (name, registers, immediate) -/
def firstMatchN (name : String) (r : Fld → Nat) (v : Int) : List (String × List Pred) → Option String
  | [] => none
  | (c, preds) :: rest => if preds.all (Pred.evalN name r v) then some c else firstMatchN name r v rest

/-- the operands a predicate consults exist and have the values `r`, `v` -/
def PredDefined (H : Hooks) (env : String → Option Int) (line : Line) (ins : Instr) (p : Int)
    (r : Fld → Nat) (v : Int) : Pred → Prop
  | .nameEq _ => True
  | .regEq f _ => regOf line ins f = .ok (r f)
  | .regNe f _ => regOf line ins f = .ok (r f)
  | .regBetween f _ _ => regOf line ins f = .ok (r f)
  | .regsMatch a b => regOf line ins a = .ok (r a) ∧ regOf line ins b = .ok (r b)
  | .immEq _ => immOf H env line ins p = .ok v
  | .immNe _ => immOf H env line ins p = .ok v
  | .immDiv _ => immOf H env line ins p = .ok v
  | .immBetween _ _ => immOf H env line ins p = .ok v

theorem pred_eval_eq_N {H : Hooks} {env} {line : Line} {ins : Instr} {p : Int} {r : Fld → Nat} {v : Int}
    {pr : Pred} (hd : PredDefined H env line ins p r v pr) :
    pr.eval H env line ins p = .ok (pr.evalN ins.name r v) := by
  cases pr <;> simp only [PredDefined] at hd <;>
    simp [Pred.eval, Pred.evalN, hd, bind, Except.bind, pure, Except.pure]

theorem allPreds_eq_N {H : Hooks} {env} {line : Line} {ins : Instr} {p : Int} {r : Fld → Nat} {v : Int}
    {preds : List Pred} (hd : ∀ pr ∈ preds, PredDefined H env line ins p r v pr) :
    allPreds H env line ins p preds = .ok (preds.all (Pred.evalN ins.name r v)) := by
  induction preds with
  | nil => rfl
  | cons pr rest ih =>
    have h1 := pred_eval_eq_N (hd pr List.mem_cons_self)
    have h2 := ih (fun q hq => hd q (List.mem_cons_of_mem _ hq))
    simp only [allPreds, h1, bind, Except.bind, List.all_cons]
    cases hb : pr.evalN ins.name r v
    · simp [pure, Except.pure]
    · simp [h2]

/-- a predicate list that starts with a failing `NameEquals` is `False` without consulting anything -/
theorem allPreds_name_ne {H : Hooks} {env} {line : Line} {ins : Instr} {p : Int} {s : String}
    {rest : List Pred} (hne : ins.name ≠ s) : allPreds H env line ins p (.nameEq s :: rest) = .ok false := by
  simp [allPreds, Pred.eval, hne, bind, Except.bind, pure, Except.pure]

theorem all_name_ne {name s : String} {r : Fld → Nat} {v : Int} {rest : List Pred} (hne : name ≠ s) :
    (Pred.nameEq s :: rest).all (Pred.evalN name r v) = false := by
  simp [Pred.evalN, hne]

/-- every entry starts with `NameEquals`, and when the name matches, all operands it consults are
    defined -/
def EntriesDefined (H : Hooks) (env : String → Option Int) (line : Line) (ins : Instr) (p : Int)
    (r : Fld → Nat) (v : Int) (crit : List (String × List Pred)) : Prop :=
  ∀ cp ∈ crit, ∃ s rest, cp.2 = .nameEq s :: rest ∧
    (ins.name = s → ∀ pr ∈ rest, PredDefined H env line ins p r v pr)

theorem firstMatch_eq_N' {H : Hooks} {env} {line : Line} {ins : Instr} {p : Int} {r : Fld → Nat} {v : Int}
    {crit : List (String × List Pred)} (hd : EntriesDefined H env line ins p r v crit) :
    firstMatch H env line ins p crit = .ok (firstMatchN ins.name r v crit) := by
  induction crit with
  | nil => rfl
  | cons cp rest ih =>
    obtain ⟨c, preds⟩ := cp
    obtain ⟨s, ps, hps, hdef⟩ := hd (c, preds) List.mem_cons_self
    simp only at hps
    subst hps
    have ih' := ih (fun q hq => hd q (List.mem_cons_of_mem _ hq))
    by_cases hn : ins.name = s
    · have hall : allPreds H env line ins p (.nameEq s :: ps)
          = .ok ((Pred.nameEq s :: ps).all (Pred.evalN ins.name r v)) := by
        apply allPreds_eq_N
        intro pr hpr
        rcases List.mem_cons.mp hpr with rfl | hpr
        · trivial
        · exact hdef hn pr hpr
      simp only [firstMatch, firstMatchN, hall, bind, Except.bind]
      cases (Pred.nameEq s :: ps).all (Pred.evalN ins.name r v)
      · simpa using ih'
      · simp [pure, Except.pure]
    · simp only [firstMatch, firstMatchN, allPreds_name_ne hn, all_name_ne hn, bind, Except.bind]
      simpa using ih'

/-! ### well-kinded instructions -/

/-- the item class the parser builds for an INSTRUCTIONS row of this kind -/
def kindMatches : EncKind → Instr → Bool
  | .r .., .r .. => true
  | .i .., .i .. => true
  | .ij .., .i .. => true
  | .ie .., .ie .. => true
  | .s .., .s .. => true
  | .b .., .b .. => true
  | .u .., .u .. => true
  | .j .., .j .. => true
  | .fence .., .fence .. => true
  | .a .., .a .. => true
  | .al .., .al .. => true
  | _, _ => false

/-- the instruction's class is the one INSTRUCTIONS lists for its mnemonic (32-bit rows) -/
def _root_.BB.Instr.wellKinded (ins : Instr) : Bool :=
  match instrTable.lookup ins.name with
  | some k => kindMatches k ins
  | none => false

/-- register numbers / immediate value of an instruction (0 where there is none) -/
def regsOf (ins : Instr) : Fld → Nat := fun f => ((ins.fld f).bind lookupRegister).getD 0
def immValOf (H : Hooks) (env : String → Option Int) (line : Line) (p : Int) (ins : Instr) : Int :=
  (immVal ins (evalAt H env line p)).getD 0

/-- every register operand looks up, the immediate (if any) evaluates -/
def OperandsOK (H : Hooks) (env : String → Option Int) (line : Line) (p : Int) (ins : Instr) : Prop :=
  (∀ f x, ins.fld f = some x → (lookupRegister x).isSome) ∧
  (∀ imm, ins.imm? = some imm → ∃ v, imm.eval H env line p = .ok v)

theorem regOf_of_ok {H : Hooks} {env} {line : Line} {p : Int} {ins : Instr} (hok : OperandsOK H env line p ins)
    {f : Fld} (hf : (ins.fld f).isSome) : regOf line ins f = .ok (regsOf ins f) := by
  cases hx : ins.fld f with
  | none => rw [hx] at hf; simp at hf
  | some x =>
    have := hok.1 f x hx
    cases hl : lookupRegister x with
    | none => rw [hl] at this; simp at this
    | some n => simp [regOf, regsOf, hx, hl]

theorem immOf_of_ok {H : Hooks} {env} {line : Line} {p : Int} {ins : Instr} (hok : OperandsOK H env line p ins)
    (hi : ins.imm?.isSome) : immOf H env line ins p = .ok (immValOf H env line p ins) := by
  cases hx : ins.imm? with
  | none => rw [hx] at hi; simp at hi
  | some imm =>
    obtain ⟨v, hv⟩ := hok.2 imm hx
    simp [immOf, immValOf, immVal, hx, hv, evalAt, Except.toOption]

set_option hygiene false in
/-- discharge `PredDefined` goals for an instruction of known constructor -/
macro "pd_tac" hok:ident : tactic =>
  `(tactic| (
    intro pr hpr
    simp only [List.mem_cons, List.mem_nil_iff, or_false] at hpr
    rcases hpr with rfl | rfl | rfl | rfl | rfl | rfl <;>
      simp only [PredDefined] <;>
      first
        | trivial
        | exact regOf_of_ok $hok rfl
        | exact immOf_of_ok $hok rfl
        | exact ⟨regOf_of_ok $hok rfl, regOf_of_ok $hok rfl⟩))

end BB.Lemmas

namespace BB.Lemmas
open BB BB.Spec

section
variable {H : Hooks} {env : String → Option Int} {line : Line} {p : Int} {ins : Instr}

theorem wk_kind {s : String} {k : EncKind} (hk : instrTable.lookup s = some k) (hn : ins.name = s)
    (hwk : ins.wellKinded = true) : kindMatches k ins = true := by
  unfold Instr.wellKinded at hwk
  rw [hn, hk] at hwk
  exact hwk

 set_option hygiene false in
/-- `EntriesDefined` for one entry whose mnemonic has table row `k` -/
macro "ed_entry" k:term : tactic =>
  `(tactic| (
    refine ⟨_, _, rfl, fun hn => ?_⟩
    have hkm := wk_kind (by decide : instrTable.lookup _ = some $k) hn hwk
    cases ins <;> simp only [kindMatches, Bool.false_eq_true] at hkm
    pd_tac hok))

/-- on a well-kinded instruction with valid operands no predicate of `criteria` can fail to evaluate -/
theorem entriesDefined_criteria (hwk : ins.wellKinded = true) (hok : OperandsOK H env line p ins) :
    EntriesDefined H env line ins p (regsOf ins) (immValOf H env line p ins) criteria := by
  intro cp hcp
  simp only [criteria, List.mem_cons, List.mem_nil_iff, or_false] at hcp
  rcases hcp with rfl | rfl | rfl | rfl | rfl | rfl | rfl | rfl | rfl | rfl | rfl | rfl | rfl | rfl | rfl |
    rfl | rfl | rfl | rfl | rfl | rfl | rfl | rfl | rfl | rfl | rfl | rfl | rfl | rfl
  · ed_entry (.i 19 0)
  · ed_entry (.i 19 0)
  · ed_entry (.i 3 2)
  · ed_entry (.s 35 2)
  · ed_entry (.i 19 0)
  · ed_entry (.i 19 0)
  · ed_entry (.j 111)
  · ed_entry (.i 19 0)
  · ed_entry (.u 55)
  · ed_entry (.u 55)
  · ed_entry (.r 19 5 0)
  · ed_entry (.r 19 5 32)
  · ed_entry (.i 19 7)
  · ed_entry (.r 51 0 32)
  · ed_entry (.r 51 4 0)
  · ed_entry (.r 51 6 0)
  · ed_entry (.r 51 7 0)
  · ed_entry (.j 111)
  · ed_entry (.b 99 0)
  · ed_entry (.b 99 1)
  · ed_entry (.r 19 1 0)
  · ed_entry (.i 3 2)
  · ed_entry (.ij 103 0)
  · ed_entry (.r 51 0 0)
  · ed_entry (.i 19 0)
  · exact ⟨_, _, rfl, fun _ pr hpr => by simp at hpr⟩
  · ed_entry (.r 51 0 0)
  · ed_entry (.ij 103 0)
  · ed_entry (.s 35 2)

/-- **the decision of transform_compressible is a function of mnemonic, register numbers and
    immediate value**: on a well-kinded instruction whose operands are valid, `firstMatch` cannot
    fail and returns what the numeric procedure `firstMatchN` returns -/
theorem firstMatch_eq_N (hwk : ins.wellKinded = true) (hok : OperandsOK H env line p ins) :
    firstMatch H env line ins p criteria
      = .ok (firstMatchN ins.name (regsOf ins) (immValOf H env line p ins) criteria) :=
  firstMatch_eq_N' (entriesDefined_criteria hwk hok)

/-- a matched entry never leaves the instruction uncompressed for lack of a replacement form, on
    well-kinded instructions: `compressedForm` is defined for every criterion on the class its
    `NameEquals` selects -/
theorem matched_has_form {c : String} {preds : List Pred} (hmem : (c, preds) ∈ criteria) {ins : Instr}
    {ev : Imm → Option Int} (hwk : ins.wellKinded = true) (hp : ∀ pr ∈ preds, pr.holds ins ev) :
    ∃ cf, compressedForm c ins = some cf := by
  simp only [criteria, List.mem_cons, Prod.mk.injEq, List.mem_nil_iff, or_false] at hmem
  rcases hmem with ⟨rfl, rfl⟩ | ⟨rfl, rfl⟩ | ⟨rfl, rfl⟩ | ⟨rfl, rfl⟩ | ⟨rfl, rfl⟩ | ⟨rfl, rfl⟩ | ⟨rfl, rfl⟩ |
    ⟨rfl, rfl⟩ | ⟨rfl, rfl⟩ | ⟨rfl, rfl⟩ | ⟨rfl, rfl⟩ | ⟨rfl, rfl⟩ | ⟨rfl, rfl⟩ | ⟨rfl, rfl⟩ | ⟨rfl, rfl⟩ |
    ⟨rfl, rfl⟩ | ⟨rfl, rfl⟩ | ⟨rfl, rfl⟩ | ⟨rfl, rfl⟩ | ⟨rfl, rfl⟩ | ⟨rfl, rfl⟩ | ⟨rfl, rfl⟩ | ⟨rfl, rfl⟩ |
    ⟨rfl, rfl⟩ | ⟨rfl, rfl⟩ | ⟨rfl, rfl⟩ | ⟨rfl, rfl⟩ | ⟨rfl, rfl⟩ | ⟨rfl, rfl⟩
  all_goals (
    have hn := hp _ List.mem_cons_self
    simp only [Pred.holds] at hn
    first
      | have hkm := wk_kind (by decide : instrTable.lookup _ = some (.i 19 0)) hn hwk
      | have hkm := wk_kind (by decide : instrTable.lookup _ = some (.i 3 2)) hn hwk
      | have hkm := wk_kind (by decide : instrTable.lookup _ = some (.i 19 7)) hn hwk
      | have hkm := wk_kind (by decide : instrTable.lookup _ = some (.ij 103 0)) hn hwk
      | have hkm := wk_kind (by decide : instrTable.lookup _ = some (.s 35 2)) hn hwk
      | have hkm := wk_kind (by decide : instrTable.lookup _ = some (.b 99 0)) hn hwk
      | have hkm := wk_kind (by decide : instrTable.lookup _ = some (.b 99 1)) hn hwk
      | have hkm := wk_kind (by decide : instrTable.lookup _ = some (.j 111)) hn hwk
      | have hkm := wk_kind (by decide : instrTable.lookup _ = some (.u 55)) hn hwk
      | have hkm := wk_kind (by decide : instrTable.lookup _ = some (.ie 115 0 1)) hn hwk
      | have hkm := wk_kind (by decide : instrTable.lookup _ = some (.r 19 5 0)) hn hwk
      | have hkm := wk_kind (by decide : instrTable.lookup _ = some (.r 19 5 32)) hn hwk
      | have hkm := wk_kind (by decide : instrTable.lookup _ = some (.r 19 1 0)) hn hwk
      | have hkm := wk_kind (by decide : instrTable.lookup _ = some (.r 51 0 0)) hn hwk
      | have hkm := wk_kind (by decide : instrTable.lookup _ = some (.r 51 0 32)) hn hwk
      | have hkm := wk_kind (by decide : instrTable.lookup _ = some (.r 51 4 0)) hn hwk
      | have hkm := wk_kind (by decide : instrTable.lookup _ = some (.r 51 6 0)) hn hwk
      | have hkm := wk_kind (by decide : instrTable.lookup _ = some (.r 51 7 0)) hn hwk
    cases ins <;> simp only [kindMatches, Bool.false_eq_true] at hkm
    simp [compressedForm])

end
end BB.Lemmas
