/-
  BB.Lemmas.RegSpell — the passes of the assembler model cannot tell two spellings of the same
  register apart (`x8`, `s0`, `fp`, `8`, `0x8` …): register operands are consumed only through
  `lookupRegister`, and `resolve_constants` refuses constants named like a register, so
  `resolve_register_aliases` never replaces a register spelling.

  One caveat, proved below (`regSame_fence_counterexample`): the encoder of `fence` parses its two
  operands with `intOrParse`, and the classes `cr` / `ca` also call their encoder with two register
  operands.  So an (unparsable-from-text) item `.cr "fence" a b` *does* distinguish `x1` from `1`.
  `Instr.Same` therefore asks the operands of a `cr` / `ca` instruction *named* "fence" to be equal,
  exactly as it does for the `succ pred` of `Instr.fence` and the `aq rl` of `.a` / `.al`.
-/
import BB.Lemmas.ReadPasses
import BB.Lemmas.Layout
import BB.Lemmas.ListRel
namespace BB

/-! ### the relations -/


/-- the same operand, or two spellings of the same register -/
def RegOp.Same (a b : RegOp) : Prop := a = b ∨ ∃ n, lookupRegister a = some n ∧ lookupRegister b = some n

/-- no constant is named like a register (resolve_constants refuses such names) -/
def ConstsClean (cs : Dict) : Prop := ∀ k n, lookupRegister (.str k) = some n → cs.get k = none

/-- same class, same name / immediate / flags, register fields pairwise `RegOp.Same`.  Operands that
    reach `intOrParse` are equal: `succ pred` of `fence`, `aq rl` of `.a` / `.al`, and both operands
    of a `cr` / `ca` instruction named "fence" (whose encoder is the one of `fence`). -/
inductive Instr.Same : Instr → Instr → Prop
  | r (n : String) {rd rd' rs1 rs1' rs2 rs2' : RegOp} :
      RegOp.Same rd rd' → RegOp.Same rs1 rs1' → RegOp.Same rs2 rs2' →
      Instr.Same (.r n rd rs1 rs2) (.r n rd' rs1' rs2')
  | i (n : String) {rd rd' rs1 rs1' : RegOp} (imm : Imm) (aj : Bool) :
      RegOp.Same rd rd' → RegOp.Same rs1 rs1' → Instr.Same (.i n rd rs1 imm aj) (.i n rd' rs1' imm aj)
  | ie (n : String) : Instr.Same (.ie n) (.ie n)
  | s (n : String) {rs1 rs1' rs2 rs2' : RegOp} (imm : Imm) :
      RegOp.Same rs1 rs1' → RegOp.Same rs2 rs2' → Instr.Same (.s n rs1 rs2 imm) (.s n rs1' rs2' imm)
  | b (n : String) {rs1 rs1' rs2 rs2' : RegOp} (imm : Imm) :
      RegOp.Same rs1 rs1' → RegOp.Same rs2 rs2' → Instr.Same (.b n rs1 rs2 imm) (.b n rs1' rs2' imm)
  | u (n : String) {rd rd' : RegOp} (imm : Imm) :
      RegOp.Same rd rd' → Instr.Same (.u n rd imm) (.u n rd' imm)
  | j (n : String) {rd rd' : RegOp} (imm : Imm) :
      RegOp.Same rd rd' → Instr.Same (.j n rd imm) (.j n rd' imm)
  | fence (n : String) (sc pr : RegOp) : Instr.Same (.fence n sc pr) (.fence n sc pr)
  | a (n : String) {rd rd' rs1 rs1' rs2 rs2' : RegOp} (aq rl : RegOp) :
      RegOp.Same rd rd' → RegOp.Same rs1 rs1' → RegOp.Same rs2 rs2' →
      Instr.Same (.a n rd rs1 rs2 aq rl) (.a n rd' rs1' rs2' aq rl)
  | al (n : String) {rd rd' rs1 rs1' : RegOp} (aq rl : RegOp) :
      RegOp.Same rd rd' → RegOp.Same rs1 rs1' → Instr.Same (.al n rd rs1 aq rl) (.al n rd' rs1' aq rl)
  | cr (n : String) {rdRs1 rdRs1' rs2 rs2' : RegOp} :
      RegOp.Same rdRs1 rdRs1' → RegOp.Same rs2 rs2' → (n = "fence" → rdRs1 = rdRs1' ∧ rs2 = rs2') →
      Instr.Same (.cr n rdRs1 rs2) (.cr n rdRs1' rs2')
  | crj (n : String) {rdRs1 rdRs1' : RegOp} (aj : Bool) :
      RegOp.Same rdRs1 rdRs1' → Instr.Same (.crj n rdRs1 aj) (.crj n rdRs1' aj)
  | cre (n : String) : Instr.Same (.cre n) (.cre n)
  | ci (n : String) {rg rg' : RegOp} (imm : Imm) :
      RegOp.Same rg rg' → Instr.Same (.ci n rg imm) (.ci n rg' imm)
  | cia (n : String) (imm : Imm) : Instr.Same (.cia n imm) (.cia n imm)
  | cin (n : String) : Instr.Same (.cin n) (.cin n)
  | css (n : String) {rs2 rs2' : RegOp} (imm : Imm) :
      RegOp.Same rs2 rs2' → Instr.Same (.css n rs2 imm) (.css n rs2' imm)
  | ciw (n : String) {rd rd' : RegOp} (imm : Imm) :
      RegOp.Same rd rd' → Instr.Same (.ciw n rd imm) (.ciw n rd' imm)
  | cl (n : String) {rd rd' rs1 rs1' : RegOp} (imm : Imm) :
      RegOp.Same rd rd' → RegOp.Same rs1 rs1' → Instr.Same (.cl n rd rs1 imm) (.cl n rd' rs1' imm)
  | cs (n : String) {rs1 rs1' rs2 rs2' : RegOp} (imm : Imm) :
      RegOp.Same rs1 rs1' → RegOp.Same rs2 rs2' → Instr.Same (.cs n rs1 rs2 imm) (.cs n rs1' rs2' imm)
  | ca (n : String) {rdRs1 rdRs1' rs2 rs2' : RegOp} :
      RegOp.Same rdRs1 rdRs1' → RegOp.Same rs2 rs2' → (n = "fence" → rdRs1 = rdRs1' ∧ rs2 = rs2') →
      Instr.Same (.ca n rdRs1 rs2) (.ca n rdRs1' rs2')
  | cb (n : String) {rs1 rs1' : RegOp} (imm : Imm) :
      RegOp.Same rs1 rs1' → Instr.Same (.cb n rs1 imm) (.cb n rs1' imm)
  | cj (n : String) (imm : Imm) : Instr.Same (.cj n imm) (.cj n imm)

/-- the argument lists of a pseudo-instruction of kind `k`, register positions up to spelling
    (see `expandKind` for which positions are registers) -/
def ArgsSame (k : PKind) (args args' : List String) : Prop :=
  match k with
  | .li => ∃ rd rd' rest, args = rd :: rest ∧ args' = rd' :: rest ∧ RegOp.Same (.str rd) (.str rd')
  | .mv | .not | .neg | .seqz | .snez | .sltz | .sgtz =>
    ∃ rd rd' rs rs', args = [rd, rs] ∧ args' = [rd', rs'] ∧
      RegOp.Same (.str rd) (.str rd') ∧ RegOp.Same (.str rs) (.str rs')
  | .brz _ | .brz2 _ =>
    ∃ rs rs' ref, args = [rs, ref] ∧ args' = [rs', ref] ∧ RegOp.Same (.str rs) (.str rs')
  | .br2 _ =>
    ∃ rs rs' rt rt' ref, args = [rs, rt, ref] ∧ args' = [rs', rt', ref] ∧
      RegOp.Same (.str rs) (.str rs') ∧ RegOp.Same (.str rt) (.str rt')
  | .jr | .jalr => ∃ rs rs', args = [rs] ∧ args' = [rs'] ∧ RegOp.Same (.str rs) (.str rs')
  | _ => args = args'

/-- equal items, or instructions / pseudo-instructions that differ in register spellings only -/
inductive Item.Same : Item → Item → Prop
  | refl (it : Item) : Item.Same it it
  | instr (line : Line) {i i' : Instr} : Instr.Same i i' → Item.Same (.instr line i) (.instr line i')
  | pseudo (line : Line) (name : String) {args args' : List String} (k : PKind) :
      pseudoKind name = some k → ArgsSame k args args' →
      Item.Same (.pseudo line name args) (.pseudo line name args')

/-! ### generic relational plumbing -/

theorem ListRel.map {α β : Type} {R : α → α → Prop} {S : β → β → Prop} (f : α → β)
    (hf : ∀ a b, R a b → S (f a) (f b)) {l l' : List α} (h : ListRel R l l') :
    ListRel S (l.map f) (l'.map f) := by
  induction h with
  | nil => exact .nil
  | cons h _ ih => exact .cons (hf _ _ h) ih

inductive OptRel {α : Type} (R : α → α → Prop) : Option α → Option α → Prop
  | none : OptRel R none none
  | some {a b : α} : R a b → OptRel R (some a) (some b)

theorem OptRel_ite {α : Type} {R : α → α → Prop} (c : Prop) [Decidable c] {a a' b b' : Option α}
    (h₁ : c → OptRel R a a') (h₂ : ¬ c → OptRel R b b') :
    OptRel R (if c then a else b) (if c then a' else b') := by
  by_cases h : c
  · simp only [h, if_true]; exact h₁ h
  · simp only [h, if_false]; exact h₂ h

/-- both fail with the same error, or both succeed with related values -/
def ExRel {α : Type} (R : α → α → Prop) : Except Err α → Except Err α → Prop
  | .ok a, .ok b => R a b
  | .error e, .error e' => e = e'
  | _, _ => False

@[simp] theorem ExRel_ok {α : Type} (R : α → α → Prop) (a b : α) :
    ExRel R (.ok a : Except Err α) (.ok b) = R a b := rfl

@[simp] theorem ExRel_error {α : Type} (R : α → α → Prop) (e e' : Err) :
    ExRel R (.error e : Except Err α) (.error e') = (e = e') := rfl

theorem ExRel.rfl' {α : Type} {R : α → α → Prop} (hR : ∀ a, R a a) (x : Except Err α) : ExRel R x x := by
  cases x with
  | ok a => exact hR a
  | error e => exact rfl

theorem ExRel.eq {α : Type} {x y : Except Err α} (h : ExRel (· = ·) x y) : x = y := by
  cases x <;> cases y <;> simp_all [ExRel]

theorem ExRel_bind {α β : Type} {R : α → α → Prop} {S : β → β → Prop} {x x' : Except Err α}
    {k k' : α → Except Err β} (hx : ExRel R x x') (hk : ∀ a a', R a a' → ExRel S (k a) (k' a')) :
    ExRel S (x >>= k) (x' >>= k') := by
  cases x with
  | ok a =>
    cases x' with
    | ok a' => exact hk a a' hx
    | error e' => exact hx.elim
  | error e =>
    cases x' with
    | ok a' => exact hx.elim
    | error e' => exact hx

theorem ExRel_ite {α : Type} {R : α → α → Prop} (c : Prop) [Decidable c] {a a' b b' : Except Err α}
    (h₁ : c → ExRel R a a') (h₂ : ¬ c → ExRel R b b') :
    ExRel R (if c then a else b) (if c then a' else b') := by
  by_cases h : c
  · simp only [h, if_true]; exact h₁ h
  · simp only [h, if_false]; exact h₂ h

/-! ### register operands -/

theorem RegOp.Same.refl (a : RegOp) : RegOp.Same a a := .inl rfl

theorem RegOp.Same.lookup {a b : RegOp} (h : RegOp.Same a b) : lookupRegister a = lookupRegister b := by
  rcases h with rfl | ⟨n, h1, h2⟩
  · rfl
  · rw [h1, h2]

theorem RegOp.Same.lookupC {a b : RegOp} (h : RegOp.Same a b) : lookupRegisterC a = lookupRegisterC b := by
  unfold lookupRegisterC; rw [h.lookup]

theorem RegOp.Same.lookR {a b : RegOp} (h : RegOp.Same a b) : lookR a = lookR b := by
  unfold BB.lookR; rw [h.lookup]

theorem RegOp.Same.lookRC {a b : RegOp} (h : RegOp.Same a b) : lookRC a = lookRC b := by
  unfold BB.lookRC; rw [h.lookupC]

/-- a name `lookup_register` accepts is one `resolve_constants` refuses -/
theorem reg_name_refused {k : String} {n : Nat} (h : lookupRegister (.str k) = some n) :
    (registersStrKeys.lookup k).isSome = true ∨ isInt k.toList = true := by
  unfold lookupRegister at h
  dsimp only at h
  cases hp : pyInt0 k.toList with
  | some i => right; simp [isInt, hp]
  | none =>
    left
    rw [hp] at h
    dsimp only at h
    unfold regByName at h
    unfold registersStrKeys
    rw [List.lookup_append, h]
    cases List.lookup k (List.map (fun n => (toString n, n)) (List.range 32)) <;> rfl

theorem ConstsClean.nil : ConstsClean [] := fun _ _ _ => rfl

theorem ConstsClean.set {cs : Dict} (hc : ConstsClean cs) {name : String} (v : Int)
    (h1 : ¬ (registersStrKeys.lookup name).isSome = true) (h2 : ¬ isInt name.toList = true) :
    ConstsClean (cs.set name v) := by
  intro k n hk
  rw [Lemmas.Dict.get_set]
  by_cases hkn : k = name
  · subst hkn
    rcases reg_name_refused hk with h | h
    · exact absurd h h1
    · exact absurd h h2
  · simp only [hkn, if_false]
    exact hc k n hk

theorem aliasReg_same {cs : Dict} (hc : ConstsClean cs) {a b : RegOp} (h : RegOp.Same a b) :
    RegOp.Same (aliasReg cs a) (aliasReg cs b) := by
  have fix : ∀ (r : RegOp) (n : Nat), lookupRegister r = some n → aliasReg cs r = r := by
    intro r n hr
    cases r with
    | int i => rfl
    | str s => simp only [aliasReg, hc s n hr]
  rcases h with rfl | ⟨n, h1, h2⟩
  · exact .inl rfl
  · rw [fix a n h1, fix b n h2]
    exact .inr ⟨n, h1, h2⟩

/-! ### instructions -/

theorem Instr.Same.refl (i : Instr) : Instr.Same i i := by
  cases i <;> constructor <;> first | exact RegOp.Same.refl _ | exact fun _ => ⟨rfl, rfl⟩

theorem Instr.Same.name {i i' : Instr} (h : Instr.Same i i') : i.name = i'.name := by
  cases h <;> rfl

theorem Instr.Same.isCompressed {i i' : Instr} (h : Instr.Same i i') : i.isCompressed = i'.isCompressed := by
  cases h <;> rfl

theorem Instr.Same.size {i i' : Instr} (h : Instr.Same i i') : i.size = i'.size := by
  unfold Instr.size; rw [h.isCompressed]

theorem Instr.Same.imm? {i i' : Instr} (h : Instr.Same i i') : i.imm? = i'.imm? := by
  cases h <;> rfl

theorem Instr.Same.isAuipcJump {i i' : Instr} (h : Instr.Same i i') : i.isAuipcJump = i'.isAuipcJump := by
  cases h <;> rfl

theorem Instr.Same.setImm {i i' : Instr} (h : Instr.Same i i') (v : Imm) :
    Instr.Same (i.setImm v) (i'.setImm v) := by
  cases h <;> simp only [Instr.setImm] <;> constructor <;> assumption

theorem Instr.Same.mapRegs {f : RegOp → RegOp} (hf : ∀ a b, RegOp.Same a b → RegOp.Same (f a) (f b))
    {i i' : Instr} (h : Instr.Same i i') : Instr.Same (i.mapRegs f) (i'.mapRegs f) := by
  cases h <;> simp only [Instr.mapRegs] <;> constructor <;>
    first
    | (apply hf; assumption)
    | (intro hn
       rename_i hfe
       obtain ⟨h1, h2⟩ := hfe hn
       exact ⟨by rw [h1], by rw [h2]⟩)

theorem Instr.Same.fld {i i' : Instr} (h : Instr.Same i i') (f : Fld) :
    OptRel RegOp.Same (i.fld f) (i'.fld f) := by
  cases h <;> cases f <;> first | exact OptRel.none | exact OptRel.some (by assumption)

theorem regOf_same (line : Line) {i i' : Instr} (h : Instr.Same i i') (f : Fld) :
    regOf line i f = regOf line i' f := by
  unfold regOf
  have := h.fld f
  revert this
  generalize i.fld f = x
  generalize i'.fld f = y
  intro hxy
  cases hxy with
  | none => rfl
  | some hs => simp only [hs.lookup]

theorem immOf_same (H : Hooks) (env : String → Option Int) (line : Line) {i i' : Instr}
    (h : Instr.Same i i') (p : Int) : immOf H env line i p = immOf H env line i' p := by
  unfold immOf; rw [h.imm?]

theorem Pred.eval_same (H : Hooks) (env : String → Option Int) (line : Line) {i i' : Instr}
    (h : Instr.Same i i') (p : Int) (pr : Pred) :
    pr.eval H env line i p = pr.eval H env line i' p := by
  cases pr <;> simp only [Pred.eval, regOf_same line h, immOf_same H env line h, h.name]

theorem allPreds_same (H : Hooks) (env : String → Option Int) (line : Line) {i i' : Instr}
    (h : Instr.Same i i') (p : Int) (prs : List Pred) :
    allPreds H env line i p prs = allPreds H env line i' p prs := by
  induction prs with
  | nil => rfl
  | cons pr rest ih => simp only [allPreds, Pred.eval_same H env line h, ih]

theorem firstMatch_same (H : Hooks) (env : String → Option Int) (line : Line) {i i' : Instr}
    (h : Instr.Same i i') (p : Int) (cr : List (String × List Pred)) :
    firstMatch H env line i p cr = firstMatch H env line i' p cr := by
  induction cr with
  | nil => rfl
  | cons c rest ih =>
    obtain ⟨name, preds⟩ := c
    simp only [firstMatch, allPreds_same H env line h, ih]

theorem shamtImm_same {a b : RegOp} (h : RegOp.Same a b) : shamtImm a = shamtImm b := by
  unfold shamtImm; rw [h.lookup]

theorem compressedForm_same (c : String) {i i' : Instr} (h : Instr.Same i i') :
    OptRel Instr.Same (compressedForm c i) (compressedForm c i') := by
  cases h with
  | i n imm aj h1 h2 =>
    simp only [compressedForm]
    repeat' (apply OptRel_ite <;> intro _)
    all_goals first
      | exact OptRel.none
      | exact OptRel.some (by constructor <;> first | assumption | (intro hf; exact absurd hf (by decide)))
  | s n imm h1 h2 =>
    simp only [compressedForm]
    repeat' (apply OptRel_ite <;> intro _)
    all_goals first
      | exact OptRel.none
      | exact OptRel.some (by constructor <;> assumption)
  | j n imm h1 =>
    simp only [compressedForm]
    apply OptRel_ite <;> intro _
    · exact OptRel.some (.cj _ _)
    · exact OptRel.none
  | u n imm h1 =>
    simp only [compressedForm]
    apply OptRel_ite <;> intro _
    · exact OptRel.some (.ci _ _ h1)
    · exact OptRel.none
  | r n h1 h2 h3 =>
    simp only [compressedForm, shamtImm_same h3]
    apply OptRel_ite <;> intro _
    · exact OptRel.some (.cb _ _ h1)
    apply OptRel_ite <;> intro _
    · exact OptRel.some (.ci _ _ h1)
    apply OptRel_ite <;> intro hc
    · refine OptRel.some (.ca _ h1 h3 ?_)
      intro hf; subst hf; exact absurd hc (by decide)
    apply OptRel_ite <;> intro hc
    · refine OptRel.some (.cr _ h1 h3 ?_)
      intro hf; subst hf; exact absurd hc (by decide)
    · exact OptRel.none
  | b n imm h1 h2 =>
    simp only [compressedForm]
    apply OptRel_ite <;> intro _
    · exact OptRel.some (.cb _ _ h1)
    · exact OptRel.none
  | ie n =>
    simp only [compressedForm]
    apply OptRel_ite <;> intro _
    · exact OptRel.some (.cre _)
    · exact OptRel.none
  | _ => exact OptRel.none

/-! ### items, sizes, the shared loop -/

theorem Item.Same.size? {it it' : Item} (h : Item.Same it it') : it.size? = it'.size? := by
  cases h with
  | refl => rfl
  | instr line hi => simp only [Item.size?, hi.size]
  | pseudo line name k hk ha => rfl

theorem Item.Same.sizeE {it it' : Item} (h : Item.Same it it') : it.sizeE = it'.sizeE := by
  cases h with
  | refl => rfl
  | instr line hi => simp only [Item.sizeE, Item.size?, hi.size]
  | pseudo line name k hk ha => rfl

theorem Item.Same.sizeD {it it' : Item} (h : Item.Same it it') : it.sizeD = it'.sizeD := by
  unfold Item.sizeD; rw [h.size?]

theorem sizeSum_same {l l' : List Item} (h : ListRel Item.Same l l') : sizeSum l = sizeSum l' := by
  induction h with
  | nil => rfl
  | cons h _ ih =>
    simp only [sizeSum, List.map_cons, List.sum_cons] at ih ⊢
    rw [h.sizeD, ih]

theorem Item.Same.not_label {it it' : Item} (h : Item.Same it it') (hn : ∀ ln nm, it ≠ .label ln nm) :
    ∀ ln nm, it' ≠ .label ln nm := by
  cases h with
  | refl => exact hn
  | instr line hi => intro _ _ h; cases h
  | pseudo line name k hk ha => intro _ _ h; cases h

theorem Item.Same.not_constant {it it' : Item} (h : Item.Same it it')
    (hn : ∀ ln nm e, it ≠ .constant ln nm e) : ∀ ln nm e, it' ≠ .constant ln nm e := by
  cases h with
  | refl => exact hn
  | instr line hi => intro _ _ _ h; cases h
  | pseudo line name k hk ha => intro _ _ _ h; cases h

/-- related item lists, equal second component -/
abbrev PairRel {γ : Type} (r r' : List Item × γ) : Prop := ListRel Item.Same r.1 r'.1 ∧ r.2 = r'.2

theorem PairRel.refl {γ : Type} (r : List Item × γ) : PairRel r r := ⟨ListRel.refl Item.Same.refl _, rfl⟩

theorem keepItem_same {it it' : Item} (h : Item.Same it it') : ExRel PairRel (keepItem it) (keepItem it') := by
  unfold keepItem
  rw [h.sizeE]
  cases it'.sizeE with
  | error e => exact rfl
  | ok n => exact ⟨.cons h .nil, rfl⟩

theorem walk_cons_nonlabel (g : Item → Int → Dict → Except Err (List Item × Int)) (it : Item)
    (rest : List Item) (p : Int) (l : Dict) (hn : ∀ ln nm, it ≠ .label ln nm) :
    walk g (it :: rest) p l = (g it p l >>= fun (r : List Item × Int) =>
      walk g rest (p + sizeSum r.1) (l.shiftAbove p r.2) >>= fun o => pure (r.1 ++ o.1, o.2)) := by
  cases it with
  | label ln nm => exact absurd rfl (hn ln nm)
  | _ => rfl

theorem walk_same (g : Item → Int → Dict → Except Err (List Item × Int))
    (hg : ∀ it it' p l, Item.Same it it' → ExRel PairRel (g it p l) (g it' p l))
    {items items' : List Item} (h : ListRel Item.Same items items') (p : Int) (l : Dict) :
    ExRel PairRel (walk g items p l) (walk g items' p l) := by
  induction h generalizing p l with
  | nil => exact PairRel.refl _
  | @cons it it' rest rest' hit hrest ih =>
    by_cases hl : ∃ ln nm, it = .label ln nm
    · obtain ⟨ln, nm, rfl⟩ := hl
      cases hit
      simp only [walk]
      refine ExRel_bind (ih p l) ?_
      intro o o' ⟨h1, h2⟩
      exact ⟨.cons (.refl _) h1, h2⟩
    · have hn : ∀ ln nm, it ≠ .label ln nm := fun ln nm h => hl ⟨ln, nm, h⟩
      rw [walk_cons_nonlabel g it rest p l hn, walk_cons_nonlabel g it' rest' p l (hit.not_label hn)]
      refine ExRel_bind (hg it it' p l hit) ?_
      intro r r' ⟨h1, h2⟩
      rw [sizeSum_same h1, h2]
      refine ExRel_bind (ih _ _) ?_
      intro o o' ⟨h3, h4⟩
      exact ⟨h1.append h3, h4⟩

/-! ### resolve_constants, resolve_labels, resolve_register_aliases -/

theorem resolveConstants_cons_other (H : Hooks) (it : Item) (rest : List Item) (cs : Dict)
    (hn : ∀ ln nm e, it ≠ .constant ln nm e) :
    resolveConstants H (it :: rest) cs
      = (resolveConstants H rest cs >>= fun o => pure (it :: o.1, o.2)) := by
  cases it with
  | constant ln nm e => exact absurd rfl (hn ln nm e)
  | _ => rfl

theorem resolveConstants_same (H : Hooks) {items items' : List Item}
    (h : ListRel Item.Same items items') (cs : Dict) (hc : ConstsClean cs) :
    ExRel (fun r r' => PairRel r r' ∧ ConstsClean r.2)
      (resolveConstants H items cs) (resolveConstants H items' cs) := by
  induction h generalizing cs with
  | nil => exact ⟨PairRel.refl _, hc⟩
  | @cons it it' rest rest' hit hrest ih =>
    by_cases hl : ∃ ln nm e, it = .constant ln nm e
    · obtain ⟨ln, nm, e, rfl⟩ := hl
      cases hit
      cases e with
      | arith e =>
        simp only [resolveConstants]
        refine ExRel_ite _ (fun _ => rfl) (fun h1 => ?_)
        refine ExRel_ite _ (fun _ => rfl) (fun h2 => ?_)
        refine ExRel_bind (ExRel.rfl' (R := (· = ·)) (fun _ => rfl) _) ?_
        intro v v' hv
        subst hv
        exact ih _ (hc.set v h1 h2)
      | _ => exact rfl
    · have hn : ∀ ln nm e, it ≠ .constant ln nm e := fun ln nm e h => hl ⟨ln, nm, e, h⟩
      rw [resolveConstants_cons_other H it rest cs hn,
        resolveConstants_cons_other H it' rest' cs (hit.not_constant hn)]
      refine ExRel_bind (ih cs hc) ?_
      intro o o' ⟨⟨h1, h2⟩, h3⟩
      exact ⟨⟨.cons hit h1, h2⟩, h3⟩

theorem resolveLabelsAux_cons_other (it : Item) (rest : List Item) (p : Int) (ls : Dict)
    (defined : List String) (hn : ∀ ln nm, it ≠ .label ln nm) :
    resolveLabelsAux (it :: rest) p ls defined
      = (it.sizeE >>= fun sz => resolveLabelsAux rest (p + sz) ls defined >>= fun o =>
          pure (it :: o.1, o.2)) := by
  cases it with
  | label ln nm => exact absurd rfl (hn ln nm)
  | _ => rfl

theorem resolveLabelsAux_same {items items' : List Item} (h : ListRel Item.Same items items')
    (p : Int) (ls : Dict) (defined : List String) :
    ExRel PairRel (resolveLabelsAux items p ls defined) (resolveLabelsAux items' p ls defined) := by
  induction h generalizing p ls defined with
  | nil => exact PairRel.refl _
  | @cons it it' rest rest' hit hrest ih =>
    by_cases hl : ∃ ln nm, it = .label ln nm
    · obtain ⟨ln, nm, rfl⟩ := hl
      cases hit
      simp only [resolveLabelsAux]
      exact ExRel_ite _ (fun _ => rfl) (fun _ => ih _ _ _)
    · have hn : ∀ ln nm, it ≠ .label ln nm := fun ln nm h => hl ⟨ln, nm, h⟩
      rw [resolveLabelsAux_cons_other it rest p ls defined hn,
        resolveLabelsAux_cons_other it' rest' p ls defined (hit.not_label hn), hit.sizeE]
      refine ExRel_bind (ExRel.rfl' (R := (· = ·)) (fun _ => rfl) _) ?_
      intro sz sz' hsz
      subst hsz
      refine ExRel_bind (ih _ _ _) ?_
      intro o o' ⟨h1, h2⟩
      exact ⟨.cons hit h1, h2⟩

theorem resolveLabels_same {items items' : List Item} (h : ListRel Item.Same items items') (ls : Dict) :
    ExRel PairRel (resolveLabels items ls) (resolveLabels items' ls) :=
  resolveLabelsAux_same h 0 ls []

theorem resolveRegisterAliases_same {cs : Dict} (hc : ConstsClean cs) {items items' : List Item}
    (h : ListRel Item.Same items items') :
    ListRel Item.Same (resolveRegisterAliases items cs) (resolveRegisterAliases items' cs) := by
  unfold resolveRegisterAliases
  refine ListRel.map _ ?_ h
  intro a b hab
  cases hab with
  | refl => exact .refl _
  | instr line hi => exact .instr line (hi.mapRegs (fun _ _ => aliasReg_same hc))
  | pseudo line name k hk ha => exact .pseudo line name k hk ha

/-! ### transform_compressible -/

theorem compressBody_same (H : Hooks) (cs : Dict) (it it' : Item) (p : Int) (l : Dict)
    (h : Item.Same it it') : ExRel PairRel (compressBody H cs it p l) (compressBody H cs it' p l) := by
  cases h with
  | refl => exact ExRel.rfl' PairRel.refl _
  | pseudo line name k hk ha => exact keepItem_same (.pseudo line name k hk ha)
  | @instr line i i' hi =>
    simp only [compressBody]
    rw [hi.isAuipcJump, firstMatch_same H (chainGet cs l) line hi p criteria]
    split
    · exact keepItem_same (.instr line hi)
    · generalize firstMatch H (chainGet cs l) line i' p criteria = r
      rcases r with e | (_ | c)
      · cases e with
        | asm l' => exact rfl
        | unsupported w => exact rfl
        | internal t =>
          by_cases ht : t = "UnicodeDecodeError"
          · subst ht; exact rfl
          · split <;> first | exact rfl | (rename_i h; cases h)
      · exact keepItem_same (.instr line hi)
      · dsimp only
        have := compressedForm_same c hi
        revert this
        generalize compressedForm c i = x
        generalize compressedForm c i' = y
        intro hxy
        cases hxy with
        | none => exact rfl
        | some hs => exact ⟨.cons (.instr line hs) .nil, rfl⟩

theorem transformCompressible_same (H : Hooks) (cs : Dict) {items items' : List Item}
    (h : ListRel Item.Same items items') (ls : Dict) :
    ExRel PairRel (transformCompressible H items cs ls) (transformCompressible H items' cs ls) :=
  walk_same _ (fun it it' p l => compressBody_same H cs it it' p l) h 0 ls

theorem maybeCompress_same (H : Hooks) (c : Bool) (cs : Dict) {items items' : List Item}
    (h : ListRel Item.Same items items') (ls : Dict) :
    ExRel PairRel (maybeCompress H c items cs ls) (maybeCompress H c items' cs ls) := by
  cases c
  · exact ⟨h, rfl⟩
  · exact transformCompressible_same H cs h ls

/-! ### transform_pseudo_instructions -/

/-- related instruction lists, equal flag -/
abbrev InsRel (r r' : List Instr × Bool) : Prop := ListRel Instr.Same r.1 r'.1 ∧ r.2 = r'.2

theorem InsRel.refl (r : List Instr × Bool) : InsRel r r := ⟨ListRel.refl Instr.Same.refl _, rfl⟩

theorem same_x (s : String) : RegOp.Same (.str s) (.str s) := .inl rfl

theorem expandKind_same (H : Hooks) (env : String → Option Int) (line : Line) (k : PKind)
    (args args' : List String) (p : Int) (h : ArgsSame k args args') :
    ExRel InsRel (expandKind H env line k args p) (expandKind H env line k args' p) := by
  have refl : ∀ x : Except Err (List Instr × Bool), ExRel InsRel x x := ExRel.rfl' InsRel.refl
  have one : ∀ (a b : Instr) (f : Bool), Instr.Same a b →
      ExRel InsRel (.ok ([a], f)) (.ok ([b], f)) := fun a b f hab => ⟨.cons hab .nil, rfl⟩
  have eqr : ∀ {α : Type} (x : Except Err α), ExRel (· = ·) x x := fun x => ExRel.rfl' (fun _ => rfl) x
  cases k with
  | li =>
    obtain ⟨rd, rd', rest, rfl, rfl, hs⟩ := h
    simp only [expandKind]
    refine ExRel_bind (eqr _) ?_
    intro imm imm' e; subst e
    refine ExRel_bind (eqr _) ?_
    intro v v' e; subst e
    refine ExRel_ite _ (fun _ => ?_) (fun _ => ?_)
    · exact one _ _ _ (.i _ _ _ hs (same_x _))
    · exact ⟨.cons (.u _ _ hs) (.cons (.i _ _ _ hs hs) .nil), rfl⟩
  | mv =>
    obtain ⟨rd, rd', rs, rs', rfl, rfl, h1, h2⟩ := h
    exact one _ _ _ (.i _ _ _ h1 h2)
  | not =>
    obtain ⟨rd, rd', rs, rs', rfl, rfl, h1, h2⟩ := h
    exact one _ _ _ (.i _ _ _ h1 h2)
  | neg =>
    obtain ⟨rd, rd', rs, rs', rfl, rfl, h1, h2⟩ := h
    exact one _ _ _ (.r _ h1 (same_x _) h2)
  | seqz =>
    obtain ⟨rd, rd', rs, rs', rfl, rfl, h1, h2⟩ := h
    exact one _ _ _ (.i _ _ _ h1 h2)
  | snez =>
    obtain ⟨rd, rd', rs, rs', rfl, rfl, h1, h2⟩ := h
    exact one _ _ _ (.r _ h1 (same_x _) h2)
  | sltz =>
    obtain ⟨rd, rd', rs, rs', rfl, rfl, h1, h2⟩ := h
    exact one _ _ _ (.r _ h1 h2 (same_x _))
  | sgtz =>
    obtain ⟨rd, rd', rs, rs', rfl, rfl, h1, h2⟩ := h
    exact one _ _ _ (.r _ h1 (same_x _) h2)
  | brz real =>
    obtain ⟨rs, rs', ref, rfl, rfl, h1⟩ := h
    simp only [expandKind]
    refine ExRel_bind (eqr _) ?_
    intro imm imm' e; subst e
    exact one _ _ _ (.b _ _ h1 (same_x _))
  | brz2 real =>
    obtain ⟨rs, rs', ref, rfl, rfl, h1⟩ := h
    simp only [expandKind]
    refine ExRel_bind (eqr _) ?_
    intro imm imm' e; subst e
    exact one _ _ _ (.b _ _ (same_x _) h1)
  | br2 real =>
    obtain ⟨rs, rs', rt, rt', ref, rfl, rfl, h1, h2⟩ := h
    simp only [expandKind]
    refine ExRel_bind (eqr _) ?_
    intro imm imm' e; subst e
    exact one _ _ _ (.b _ _ h2 h1)
  | jr =>
    obtain ⟨rs, rs', rfl, rfl, h1⟩ := h
    exact one _ _ _ (.i _ _ _ (same_x _) h1)
  | jalr =>
    obtain ⟨rs, rs', rfl, rfl, h1⟩ := h
    exact one _ _ _ (.i _ _ _ (same_x _) h1)
  | _ =>
    have e : args = args' := h
    subst e
    exact refl _

theorem pseudoBody_same (H : Hooks) (cs : Dict) (it it' : Item) (p : Int) (l : Dict)
    (h : Item.Same it it') : ExRel PairRel (pseudoBody H cs it p l) (pseudoBody H cs it' p l) := by
  cases h with
  | refl => exact ExRel.rfl' PairRel.refl _
  | instr line hi => exact keepItem_same (.instr line hi)
  | @pseudo line name args args' k hk ha =>
    simp only [pseudoBody, expandPseudo, hk]
    refine ExRel_bind (expandKind_same H (chainGet cs l) line k args args' p ha) ?_
    intro r r' ⟨h1, h2⟩
    rw [h2]
    exact ⟨ListRel.map _ (fun _ _ hab => Item.Same.instr line hab) h1, rfl⟩

theorem transformPseudo_same (H : Hooks) (cs : Dict) {items items' : List Item}
    (h : ListRel Item.Same items items') (ls : Dict) :
    ExRel PairRel (transformPseudo H items cs ls) (transformPseudo H items' cs ls) :=
  walk_same _ (fun it it' p l => pseudoBody_same H cs it it' p l) h 0 ls

/-! ### resolve_aligns, resolve_immediates -/

theorem alignBody_same (it it' : Item) (p : Int) (l : Dict) (h : Item.Same it it') :
    ExRel PairRel (alignBody it p l) (alignBody it' p l) := by
  cases h with
  | refl => exact ExRel.rfl' PairRel.refl _
  | instr line hi => exact keepItem_same (.instr line hi)
  | pseudo line name k hk ha => exact keepItem_same (.pseudo line name k hk ha)

theorem resolveAligns_same {items items' : List Item} (h : ListRel Item.Same items items') (ls : Dict) :
    ExRel PairRel (resolveAligns items ls) (resolveAligns items' ls) :=
  walk_same _ alignBody_same h 0 ls

theorem immBody_same (H : Hooks) (cs : Dict) (it it' : Item) (p : Int) (l : Dict)
    (h : Item.Same it it') : ExRel PairRel (immBody H cs it p l) (immBody H cs it' p l) := by
  cases h with
  | refl => exact ExRel.rfl' PairRel.refl _
  | pseudo line name k hk ha => exact keepItem_same (.pseudo line name k hk ha)
  | @instr line i i' hi =>
    simp only [immBody]
    rw [hi.imm?, hi.isAuipcJump]
    cases i'.imm? with
    | none => exact keepItem_same (.instr line hi)
    | some imm =>
      dsimp only
      refine ExRel_bind (ExRel.rfl' (R := (· = ·)) (fun _ => rfl) _) ?_
      intro v v' e; subst e
      exact ⟨.cons (.instr line (hi.setImm _)) .nil, rfl⟩

theorem resolveImmediates_same (H : Hooks) (cs : Dict) {items items' : List Item}
    (h : ListRel Item.Same items items') (ls : Dict) :
    ExRel (ListRel Item.Same) (resolveImmediates H items cs ls) (resolveImmediates H items' cs ls) := by
  unfold resolveImmediates
  refine ExRel_bind (walk_same _ (fun it it' p l => immBody_same H cs it it' p l) h 0 ls) ?_
  intro o o' ⟨h1, _⟩
  exact h1

/-! ### resolve_instructions: Same instructions have the same encoding -/

theorem mem_of_lookup {β : Type} {k : String} {v : β} :
    ∀ {l : List (String × β)}, l.lookup k = some v → (k, v) ∈ l
  | [], h => by simp [List.lookup] at h
  | (a, b) :: l, h => by
    rw [List.lookup_cons] at h
    split at h
    · rename_i hab
      injection h with h
      subst h
      have : k = a := by simpa using hab
      subst this
      exact List.mem_cons_self
    · exact List.mem_cons_of_mem _ (mem_of_lookup h)

theorem lookup_fence {n : String} {op f3 : Nat} (h : instrTable.lookup n = some (.fence op f3)) :
    n = "fence" := by
  have := mem_of_lookup h
  simp [instrTable] at this
  exact this.1

section shapes
set_option linter.unusedSimpArgs false
variable {a a' b b' c c' : RegOp} (ha : RegOp.Same a a') (hb : RegOp.Same b b') (hc : RegOp.Same c c')
include ha

theorem encodeKind_r (k : EncKind) : encodeKind k [.r a] = encodeKind k [.r a'] := by
  cases k <;> simp only [encodeKind, encR, encI, encIj, encIe, encS, encB, encU, encJ, encFence, encA,
    encAl, encCr, encCrj, encCre, encCi, encCia, encCin, encCiu, encCil, encCss, encCiw, encCl, encCs,
    encCa, encCb, encCbi, encCj, ha.lookR, ha.lookRC]

theorem encodeKind_ri (k : EncKind) (v : Int) : encodeKind k [.r a, .i v] = encodeKind k [.r a', .i v] := by
  cases k <;> simp only [encodeKind, encR, encI, encIj, encIe, encS, encB, encU, encJ, encFence, encA,
    encAl, encCr, encCrj, encCre, encCi, encCia, encCin, encCiu, encCil, encCss, encCiw, encCl, encCs,
    encCa, encCb, encCbi, encCj, ha.lookR, ha.lookRC]

include hb

theorem encodeKind_rri (k : EncKind) (v : Int) :
    encodeKind k [.r a, .r b, .i v] = encodeKind k [.r a', .r b', .i v] := by
  cases k <;> simp only [encodeKind, encR, encI, encIj, encIe, encS, encB, encU, encJ, encFence, encA,
    encAl, encCr, encCrj, encCre, encCi, encCia, encCin, encCiu, encCil, encCss, encCiw, encCl, encCs,
    encCa, encCb, encCbi, encCj, ha.lookR, ha.lookRC, hb.lookR, hb.lookRC]

theorem encodeKind_rr (k : EncKind) (hk : ∀ op f3, k ≠ .fence op f3) :
    encodeKind k [.r a, .r b] = encodeKind k [.r a', .r b'] := by
  cases k with
  | fence op f3 => exact absurd rfl (hk op f3)
  | _ => simp only [encodeKind, encR, encI, encIj, encIe, encS, encB, encU, encJ, encFence, encA,
    encAl, encCr, encCrj, encCre, encCi, encCia, encCin, encCiu, encCil, encCss, encCiw, encCl, encCs,
    encCa, encCb, encCbi, encCj, ha.lookR, ha.lookRC, hb.lookR, hb.lookRC]

theorem encodeKind_rrxx (k : EncKind) (aq rl : RegOp) :
    encodeKind k [.r a, .r b, .r aq, .r rl] = encodeKind k [.r a', .r b', .r aq, .r rl] := by
  cases k <;> simp only [encodeKind, encR, encI, encIj, encIe, encS, encB, encU, encJ, encFence, encA,
    encAl, encCr, encCrj, encCre, encCi, encCia, encCin, encCiu, encCil, encCss, encCiw, encCl, encCs,
    encCa, encCb, encCbi, encCj, ha.lookR, ha.lookRC, hb.lookR, hb.lookRC]

include hc

theorem encodeKind_rrr (k : EncKind) :
    encodeKind k [.r a, .r b, .r c] = encodeKind k [.r a', .r b', .r c'] := by
  cases k <;> simp only [encodeKind, encR, encI, encIj, encIe, encS, encB, encU, encJ, encFence, encA,
    encAl, encCr, encCrj, encCre, encCi, encCia, encCin, encCiu, encCil, encCss, encCiw, encCl, encCs,
    encCa, encCb, encCbi, encCj, ha.lookR, ha.lookRC, hb.lookR, hb.lookRC, hc.lookR, hc.lookRC]

theorem encodeKind_rrrxx (k : EncKind) (aq rl : RegOp) :
    encodeKind k [.r a, .r b, .r c, .r aq, .r rl] = encodeKind k [.r a', .r b', .r c', .r aq, .r rl] := by
  cases k <;> simp only [encodeKind, encR, encI, encIj, encIe, encS, encB, encU, encJ, encFence, encA,
    encAl, encCr, encCrj, encCre, encCi, encCia, encCin, encCiu, encCil, encCss, encCiw, encCl, encCs,
    encCa, encCb, encCbi, encCj, ha.lookR, ha.lookRC, hb.lookR, hb.lookRC, hc.lookR, hc.lookRC]

end shapes

theorem encodeInstr_same (line : Line) {i i' : Instr} (h : Instr.Same i i') :
    encodeInstr line i = encodeInstr line i' := by
  have lift : ∀ (n : String) (as as' : List Arg), (∀ k, encodeKind k as = encodeKind k as') →
      encode n as = encode n as' := by
    intro n as as' hk
    unfold encode
    cases instrTable.lookup n with
    | none => rfl
    | some k => exact hk k
  cases h with
  | r n h1 h2 h3 =>
    (simp only [encodeInstr, Instr.args, Instr.name, Instr.isCompressed,
      lift n _ _ (encodeKind_rrr h1 h2 h3)]; first | done | rfl)
  | i n imm aj h1 h2 =>
    cases imm <;> first
      | rfl
      | (simp only [encodeInstr, Instr.args, Instr.name, Instr.isCompressed,
          lift n _ _ (fun k => encodeKind_rri h1 h2 k _)]; first | done | rfl)
  | s n imm h1 h2 =>
    cases imm <;> first
      | rfl
      | (simp only [encodeInstr, Instr.args, Instr.name, Instr.isCompressed,
          lift n _ _ (fun k => encodeKind_rri h1 h2 k _)]; first | done | rfl)
  | b n imm h1 h2 =>
    cases imm <;> first
      | rfl
      | (simp only [encodeInstr, Instr.args, Instr.name, Instr.isCompressed,
          lift n _ _ (fun k => encodeKind_rri h1 h2 k _)]; first | done | rfl)
  | cl n imm h1 h2 =>
    cases imm <;> first
      | rfl
      | (simp only [encodeInstr, Instr.args, Instr.name, Instr.isCompressed,
          lift n _ _ (fun k => encodeKind_rri h1 h2 k _)]; first | done | rfl)
  | cs n imm h1 h2 =>
    cases imm <;> first
      | rfl
      | (simp only [encodeInstr, Instr.args, Instr.name, Instr.isCompressed,
          lift n _ _ (fun k => encodeKind_rri h1 h2 k _)]; first | done | rfl)
  | u n imm h1 =>
    cases imm <;> first
      | rfl
      | (simp only [encodeInstr, Instr.args, Instr.name, Instr.isCompressed,
          lift n _ _ (fun k => encodeKind_ri h1 k _)]; first | done | rfl)
  | j n imm h1 =>
    cases imm <;> first
      | rfl
      | (simp only [encodeInstr, Instr.args, Instr.name, Instr.isCompressed,
          lift n _ _ (fun k => encodeKind_ri h1 k _)]; first | done | rfl)
  | ci n imm h1 =>
    cases imm <;> first
      | rfl
      | (simp only [encodeInstr, Instr.args, Instr.name, Instr.isCompressed,
          lift n _ _ (fun k => encodeKind_ri h1 k _)]; first | done | rfl)
  | css n imm h1 =>
    cases imm <;> first
      | rfl
      | (simp only [encodeInstr, Instr.args, Instr.name, Instr.isCompressed,
          lift n _ _ (fun k => encodeKind_ri h1 k _)]; first | done | rfl)
  | ciw n imm h1 =>
    cases imm <;> first
      | rfl
      | (simp only [encodeInstr, Instr.args, Instr.name, Instr.isCompressed,
          lift n _ _ (fun k => encodeKind_ri h1 k _)]; first | done | rfl)
  | cb n imm h1 =>
    cases imm <;> first
      | rfl
      | (simp only [encodeInstr, Instr.args, Instr.name, Instr.isCompressed,
          lift n _ _ (fun k => encodeKind_ri h1 k _)]; first | done | rfl)
  | a n aq rl h1 h2 h3 =>
    (simp only [encodeInstr, Instr.args, Instr.name, Instr.isCompressed,
      lift n _ _ (fun k => encodeKind_rrrxx h1 h2 h3 k aq rl)]; first | done | rfl)
  | al n aq rl h1 h2 =>
    (simp only [encodeInstr, Instr.args, Instr.name, Instr.isCompressed,
      lift n _ _ (fun k => encodeKind_rrxx h1 h2 k aq rl)]; first | done | rfl)
  | crj n aj h1 =>
    (simp only [encodeInstr, Instr.args, Instr.name, Instr.isCompressed,
      lift n _ _ (encodeKind_r h1)]; first | done | rfl)
  | @cr n x x' y y' h1 h2 hf =>
    have e : encode n [.r x, .r y] = encode n [.r x', .r y'] := by
      by_cases hn : n = "fence"
      · obtain ⟨e1, e2⟩ := hf hn
        rw [e1, e2]
      · unfold encode
        cases hk : instrTable.lookup n with
        | none => rfl
        | some k =>
          exact encodeKind_rr h1 h2 k (fun op f3 hkf => hn (lookup_fence (hkf ▸ hk)))
    (simp only [encodeInstr, Instr.args, Instr.name, Instr.isCompressed, e]; first | done | rfl)
  | @ca n x x' y y' h1 h2 hf =>
    have e : encode n [.r x, .r y] = encode n [.r x', .r y'] := by
      by_cases hn : n = "fence"
      · obtain ⟨e1, e2⟩ := hf hn
        rw [e1, e2]
      · unfold encode
        cases hk : instrTable.lookup n with
        | none => rfl
        | some k =>
          exact encodeKind_rr h1 h2 k (fun op f3 hkf => hn (lookup_fence (hkf ▸ hk)))
    (simp only [encodeInstr, Instr.args, Instr.name, Instr.isCompressed, e]; first | done | rfl)
  | _ => rfl

theorem instrStep_same {it it' : Item} (h : Item.Same it it') : instrStep it = instrStep it' := by
  cases h with
  | refl => rfl
  | instr line hi => simp only [instrStep, encodeInstr_same line hi]
  | pseudo line name k hk ha => rfl

theorem resolveInstructions_same {items items' : List Item} (h : ListRel Item.Same items items') :
    resolveInstructions items = resolveInstructions items' := by
  unfold resolveInstructions
  induction h with
  | nil => rfl
  | cons hab _ ih => rw [List.mapM_cons, List.mapM_cons, instrStep_same hab, ih]

/-! ### assemble -/

/-- the whole pipeline cannot tell two spellings of a register apart (any initial constants table
    that does not shadow a register name) -/
theorem assembleItems_regSame_clean (H : Hooks) (c : Bool) {items items' : List Item} (cs ls : Dict)
    (hc : ConstsClean cs) (h : ListRel Item.Same items items') :
    assembleItems H c items cs ls = assembleItems H c items' cs ls := by
  apply ExRel.eq
  unfold assembleItems
  refine ExRel_bind (resolveConstants_same H h cs hc) ?_
  intro ⟨its, cs1⟩ ⟨its', cs1'⟩ ⟨⟨h1, h2⟩, hc1⟩
  dsimp only at h1 h2 hc1 ⊢
  subst h2
  refine ExRel_bind (resolveLabels_same h1 ls) ?_
  intro ⟨its, ls1⟩ ⟨its', ls1'⟩ ⟨h1, h2⟩
  dsimp only at h1 h2 ⊢
  subst h2
  refine ExRel_bind (maybeCompress_same H c cs1 (resolveRegisterAliases_same hc1 h1) ls1) ?_
  intro ⟨its, ls2⟩ ⟨its', ls2'⟩ ⟨h1, h2⟩
  dsimp only at h1 h2 ⊢
  subst h2
  refine ExRel_bind (transformPseudo_same H cs1 h1 ls2) ?_
  intro ⟨its, ls3⟩ ⟨its', ls3'⟩ ⟨h1, h2⟩
  dsimp only at h1 h2 ⊢
  subst h2
  refine ExRel_bind (maybeCompress_same H c cs1 (resolveRegisterAliases_same hc1 h1) ls3) ?_
  intro ⟨its, ls4⟩ ⟨its', ls4'⟩ ⟨h1, h2⟩
  dsimp only at h1 h2 ⊢
  subst h2
  refine ExRel_bind (resolveAligns_same h1 ls4) ?_
  intro ⟨its, ls5⟩ ⟨its', ls5'⟩ ⟨h1, h2⟩
  dsimp only at h1 h2 ⊢
  subst h2
  refine ExRel_bind (resolveImmediates_same H cs1 h1 ls5) ?_
  intro its its' h1
  rw [resolveInstructions_same h1]
  exact ExRel.rfl' (fun _ => rfl) _

/-- MAIN THEOREM: register spellings are indistinguishable to `assembleItems` (errors included) -/
theorem assembleItems_regSame (H : Hooks) (c : Bool) (items items' : List Item) (ls : Dict)
    (h : ListRel Item.Same items items') :
    assembleItems H c items [] ls = assembleItems H c items' [] ls :=
  assembleItems_regSame_clean H c [] ls ConstsClean.nil h

/-- why `Instr.Same` treats `cr` / `ca` instructions named "fence" specially: their two operands
    reach `intOrParse`, which accepts `1` but not `x1` -/
theorem regSame_fence_counterexample (H : Hooks) (l : Line) :
    RegOp.Same (.str "x1") (.str "1") ∧
    assembleItems H false [.instr l (.cr "fence" (.str "x1") (.str "1"))] [] []
      ≠ assembleItems H false [.instr l (.cr "fence" (.str "1") (.str "1"))] [] [] := by
  refine ⟨.inr ⟨1, by decide, by decide⟩, ?_⟩
  have e1 : assembleItems H false [.instr l (.cr "fence" (.str "x1") (.str "1"))] [] []
      = .error (.asm l) := by rfl
  have e2 : assembleItems H false [.instr l (.cr "fence" (.str "1") (.str "1"))] [] []
      = .ok { bytes := [15, 0], labels := [], constants := [] } := by rfl
  rw [e1, e2]
  intro h; cases h

end BB
