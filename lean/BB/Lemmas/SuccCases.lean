/-
  BB.Lemmas.SuccCases — one item of the -c run lands because its counterpart of the plain run did:
  the transfer shapes T1 (branch / jal on `%offset n`), T2 (`auipc %hi`), T3 (`jalr %lo`), a label-free
  original that a compression pass replaced, a transfer that a compression pass replaced, and the near
  `jal` that replaces a far pair.
-/
import BB.Lemmas.SuccPair
import BB.Props.C04Transfers
set_option linter.unusedSimpArgs false
set_option linter.unusedVariables false
namespace BB.Lemmas
open BB BB.Spec
open BB.Props.C03 (Land Finish)

variable {H : Hooks} {constants : Dict}

theorem encodeInstr_of_encode (line : Line) (rins : Instr) {args : List Arg} {w : Nat} (ha : rins.args = some args)
    (he : encode rins.name args = .ok w) : ∃ bs, encodeInstr line rins = .ok bs :=
  encodeInstr_ok_iff.mpr ⟨args, w, ha, he⟩

/-! ### evaluation of the three reference forms -/

theorem eval_offset {L : Dict} {line : Line} {n : String} {u : Int} (p : Int)
    (hc : constants.get n = none) (hu : L.get n = some u) :
    Imm.eval H (chainGet constants L) line (.offset n) p = .ok (u - p) := by
  simp [Imm.eval, chainGet, hc, hu]

theorem evalAt_offset {L : Dict} {line : Line} {n : String} {u : Int} (p : Int)
    (hc : constants.get n = none) (hu : L.get n = some u) :
    evalAt H (chainGet constants L) line p (.offset n) = some (u - p) := by
  simp [evalAt, eval_offset p hc hu, Except.toOption]

theorem evalAt_hi {L : Dict} {line : Line} {n : String} {u : Int} (p : Int)
    (hc : constants.get n = none) (hu : L.get n = some u) :
    evalAt H (chainGet constants L) line p (.hi (.offset n)) = some (relocateHi (u - p)) := by
  simp [evalAt, Imm.eval, chainGet, hc, hu, Except.toOption, bind, Except.bind, pure, Except.pure]

theorem evalAt_lo {L : Dict} {line : Line} {n : String} {u : Int} (p : Int)
    (hc : constants.get n = none) (hu : L.get n = some u) :
    evalAt H (chainGet constants L) line p (.lo (.offset n)) = some (relocateLo (u - p)) := by
  simp [evalAt, Imm.eval, chainGet, hc, hu, Except.toOption, bind, Except.bind, pure, Except.pure]

/-! ### T1 -/

theorem isTransfer_aj {ins : Instr} (h : IsTransfer ins) : ins.isAuipcJump = false := by
  rcases h.2 with ⟨n, rs1, rs2, imm, rfl⟩ | ⟨n, rd, imm, rfl⟩ <;> rfl

theorem lands_T1 {la7 lb7 : Dict} {line : Line} {ins : Instr} {n : String} {q0 q1 d0 d1 : Int}
    (ht : T1 ins n) (hc : constants.get n = none)
    (h0 : la7.get n = some (q0 + d0)) (h1 : lb7.get n = some (q1 + d1))
    (hcl : Closer d0 d1) (hpar : d1 % 2 = d0 % 2)
    (hl : Lands H constants la7 q0 (.instr line ins)) : Lands H constants lb7 q1 (.instr line ins) := by
  obtain ⟨htr, himm⟩ := ht
  have haj := isTransfer_aj htr
  obtain ⟨rins0, bs0, hres0, henc0⟩ := accepts_of_lands hl
  simp only [ajPos, haj, Bool.false_eq_true, if_false] at hres0
  have e0 : evalAt H (chainGet constants la7) line q0 (.offset n) = some d0 := by
    rw [evalAt_offset q0 hc h0]; congr 1; omega
  simp only [resolveWith, himm, e0, Option.map_some, Option.some.injEq] at hres0
  subst hres0
  obtain ⟨bs1, henc1⟩ := transfer_accept_closer htr line ⟨bs0, henc0⟩ hcl hpar
  apply lands_of_accepts
  refine ⟨ins.setImm (.value d1), bs1, ?_, henc1⟩
  simp only [ajPos, haj, Bool.false_eq_true, if_false]
  have e1 : evalAt H (chainGet constants lb7) line q1 (.offset n) = some d1 := by
    rw [evalAt_offset q1 hc h1]; congr 1; omega
  simp only [resolveWith, himm, e1, Option.map_some]

/-! ### T2, T3 -/

theorem uTypeN_hi (rd op : Nat) (v : Int) : ∃ w, uTypeN rd (relocateHi v) op = some w := by
  have h := relocateHi_eq v
  unfold uTypeN
  simp only
  have hr : -524288 ≤ relocateHi v ∧ relocateHi v ≤ 524287 := by rw [h]; omega
  rw [if_neg (by omega), if_neg (by omega)]
  exact ⟨_, rfl⟩

theorem lookup_auipc : instrTable.lookup "auipc" = some (.u 23) := by decide
theorem lookup_jalr : instrTable.lookup "jalr" = some (.ij 103 0) := by decide
theorem lookup_jal : instrTable.lookup "jal" = some (.j 111) := by decide
theorem lookup_beq : instrTable.lookup "beq" = some (.b 99 0) := by decide
theorem lookup_bne : instrTable.lookup "bne" = some (.b 99 1) := by decide

theorem lands_T2 {la7 lb7 : Dict} {line : Line} {rA : RegOp} {n : String} {q0 q1 u0 u1 : Int}
    (hc : constants.get n = none) (h0 : la7.get n = some u0) (h1 : lb7.get n = some u1)
    (hl : Lands H constants la7 q0 (.instr line (.u "auipc" rA (.hi (.offset n))))) :
    Lands H constants lb7 q1 (.instr line (.u "auipc" rA (.hi (.offset n)))) := by
  obtain ⟨rins0, bs0, hres0, henc0⟩ := accepts_of_lands hl
  simp only [ajPos, Instr.isAuipcJump, Bool.false_eq_true, if_false, resolveWith, Instr.imm?, evalAt_hi q0 hc h0,
    Option.map_some, Option.some.injEq, Instr.setImm] at hres0
  subst hres0
  obtain ⟨args, w, ha, he⟩ := encodeInstr_ok_iff.mp ⟨bs0, henc0⟩
  simp only [Instr.args, Option.some.injEq] at ha
  subst ha
  simp only [Instr.name, encode, lookup_auipc, encodeKind, encU, bind, Except.bind] at he
  cases hr : lookR rA with
  | error e => simp [hr] at he
  | ok r =>
    obtain ⟨w1, hw1⟩ := uTypeN_hi r 23 (u1 - q1)
    apply lands_of_accepts
    obtain ⟨bs1, henc1⟩ := encodeInstr_of_encode line (.u "auipc" rA (.value (relocateHi (u1 - q1)))) (w := w1) rfl
      (by simp [Instr.name, encode, lookup_auipc, encodeKind, encU, bind, Except.bind, hr, hw1, ofOpt])
    refine ⟨_, bs1, ?_, henc1⟩
    simp only [ajPos, Instr.isAuipcJump, Bool.false_eq_true, if_false, resolveWith, Instr.imm?, evalAt_hi q1 hc h1,
      Option.map_some, Instr.setImm]

theorem ijTypeN_some {rd rs1 op f3 : Nat} {v : Int} (h1 : -2048 ≤ v) (h2 : v ≤ 2047) (h3 : v % 2 = 0) :
    ∃ w, ijTypeN rd rs1 v op f3 = some w := by
  unfold ijTypeN
  rw [if_neg (by omega), if_neg (by omega)]
  exact ⟨_, rfl⟩

theorem ijTypeN_even {rd rs1 op f3 : Nat} {v : Int} {w : Nat} (h : ijTypeN rd rs1 v op f3 = some w) : v % 2 = 0 := by
  unfold ijTypeN at h
  split at h
  · cases h
  · split at h
    · cases h
    · omega

/-- what the plain run's acceptance of a `jalr rd, rA, %lo(v)` tells: both registers, `v` even -/
theorem jalr_lo_facts {line : Line} {rd rA : RegOp} {v : Int} {aj : Bool} {bs : List Nat}
    (h : encodeInstr line (.i "jalr" rd rA (.value (relocateLo v)) aj) = .ok bs) :
    (∃ r1, lookR rd = .ok r1) ∧ (∃ r2, lookR rA = .ok r2) ∧ v % 2 = 0 := by
  obtain ⟨args, w, ha, he⟩ := encodeInstr_ok_iff.mp ⟨bs, h⟩
  simp only [Instr.args, Option.some.injEq] at ha
  subst ha
  simp only [Instr.name, encode, lookup_jalr, encodeKind, encIj, bind, Except.bind] at he
  cases h1 : lookR rd with
  | error e => simp [h1] at he
  | ok r1 =>
    cases h2 : lookR rA with
    | error e => simp [h1, h2] at he
    | ok r2 =>
      simp only [h1, h2] at he
      have := ijTypeN_even (ofOpt_ok.mp he)
      rw [relocateLo_eq] at this
      exact ⟨⟨r1, rfl⟩, ⟨r2, rfl⟩, by omega⟩

theorem jalr_lo_accepts (line : Line) {rd rA : RegOp} {v : Int} (aj : Bool) {r1 r2 : Nat}
    (h1 : lookR rd = .ok r1) (h2 : lookR rA = .ok r2) (hv : v % 2 = 0) :
    ∃ bs, encodeInstr line (.i "jalr" rd rA (.value (relocateLo v)) aj) = .ok bs := by
  have hr := relocateLo_eq v
  obtain ⟨w, hw⟩ := ijTypeN_some (rd := r1) (rs1 := r2) (op := 103) (f3 := 0) (v := relocateLo v)
    (by rw [hr]; omega) (by rw [hr]; omega) (by rw [hr]; omega)
  exact encodeInstr_of_encode line _ (w := w) rfl (by
    simp [Instr.name, encode, lookup_jalr, encodeKind, encIj, bind, Except.bind, h1, h2, hw, ofOpt])

theorem lands_T3 {la7 lb7 : Dict} {line : Line} {rd rA : RegOp} {n : String} {q0 q1 d0 d1 : Int}
    (hc : constants.get n = none) (h0 : la7.get n = some (q0 + d0)) (h1 : lb7.get n = some (q1 + d1))
    (hpar : d1 % 2 = d0 % 2)
    (hl : Lands H constants la7 q0 (.instr line (.i "jalr" rd rA (.lo (.offset n)) true))) :
    Lands H constants lb7 q1 (.instr line (.i "jalr" rd rA (.lo (.offset n)) true)) := by
  obtain ⟨rins0, bs0, hres0, henc0⟩ := accepts_of_lands hl
  simp only [ajPos, Instr.isAuipcJump, if_true, resolveWith, Instr.imm?, evalAt_lo (q0 - 4) hc h0,
    Option.map_some, Option.some.injEq, Instr.setImm] at hres0
  subst hres0
  obtain ⟨⟨r1, hr1⟩, ⟨r2, hr2⟩, hev⟩ := jalr_lo_facts henc0
  obtain ⟨bs1, henc1⟩ := jalr_lo_accepts line (v := q1 + d1 - (q1 - 4)) true hr1 hr2 (by omega)
  apply lands_of_accepts
  refine ⟨_, bs1, ?_, henc1⟩
  simp only [ajPos, Instr.isAuipcJump, if_true, resolveWith, Instr.imm?, evalAt_lo (q1 - 4) hc h1,
    Option.map_some, Instr.setImm]

/-! ### compression decisions -/

theorem compressedForm_aj {c : String} {ins cf : Instr} (h : compressedForm c ins = some cf) : cf.isAuipcJump = false := by
  unfold compressedForm at h
  split at h
  all_goals (try (simp at h; done))
  all_goals (repeat' split at h)
  all_goals (try (simp at h; done))
  all_goals (simp only [Option.some.injEq] at h; subst h; rfl)

/-- a compression pass replaced a label-free original that the plain run encoded -/
theorem lands_comp_free {la7 lb7 : Dict} {line : Line} {ins cf : Instr} {c : String} {preds : List Pred} {p q0 q1 : Int} {L : Dict}
    (hlit : ∀ line p env, LitOK (evalAt H env line p))
    (hd : DecidedAt H constants line cf ins c preds p L)
    (hfree : ∀ imm, ins.imm? = some imm → ImmLabelFree H constants imm)
    (hl : Lands H constants la7 q0 (.instr line ins)) : Lands H constants lb7 q1 (.instr line cf) := by
  obtain ⟨hnc, hnaj, hmem, hall, hcf⟩ := hd
  have hp := (allPreds_true_iff H _ line ins p preds).mp hall
  have hp' := holds_labelfree hfree L lb7 line p q1 hp
  obtain ⟨rins0, bs0, hres0, henc0⟩ := accepts_of_lands hl
  simp only [ajPos, hnaj, Bool.false_eq_true, if_false] at hres0
  have hres1 : resolveWith (evalAt H (chainGet constants lb7) line q1) ins = some rins0 := by
    unfold resolveWith at hres0 ⊢
    cases hi : ins.imm? with
    | none => simpa [hi] using hres0
    | some imm =>
      simp only [hi] at hres0 ⊢
      have : evalAt H (chainGet constants lb7) line q1 imm = evalAt H (chainGet constants la7) line q0 imm := by
        simp only [evalAt]; rw [hfree imm hi lb7 la7 line q1 q0]
      rw [this]; exact hres0
  obtain ⟨rcf, bs', h0, he, _⟩ := BB.Props.C12.compress_preserves_success_local hmem (hlit _ _ _) hp' hcf hres1 henc0
  apply lands_of_accepts
  refine ⟨rcf, bs', ?_, he⟩
  simp only [ajPos, compressedForm_aj hcf, Bool.false_eq_true, if_false]
  exact h0

/-- a compressed form named by a transfer rule comes from that rule, with the original's immediate -/
theorem compressedForm_transfer_inv {c : String} {ins cf : Instr} (h : compressedForm c ins = some cf)
    (hn : cf.name ∈ transferRules) : c = cf.name ∧ ins.imm? = cf.imm? := by
  unfold compressedForm at h
  split at h
  all_goals (try (simp at h; done))
  all_goals (repeat' split at h)
  all_goals (try (simp at h; done))
  all_goals (simp only [Option.some.injEq] at h; subst h)
  all_goals (simp only [Instr.name, transferRules, List.mem_cons, List.mem_nil_iff, or_false] at hn)
  all_goals (first
    | exact ⟨rfl, rfl⟩
    | (exfalso; rcases hn with e | e | e | e <;> simp_all)
    | (exfalso; rcases hn with e | e | e | e <;> first | (cases e) | (revert e; decide)))

/-- the compressed form of a branch / jal is named by a transfer rule and keeps the immediate -/
theorem compressedForm_of_transfer {c : String} {ins cf : Instr} (h : compressedForm c ins = some cf)
    (hs : (∃ n rs1 rs2 imm, ins = .b n rs1 rs2 imm) ∨ (∃ n rd imm, ins = .j n rd imm)) :
    cf.name ∈ transferRules ∧ cf.imm? = ins.imm? := by
  rcases hs with ⟨n, rs1, rs2, imm, rfl⟩ | ⟨n, rd, imm, rfl⟩
  · simp only [compressedForm] at h
    split at h
    · simp only [Option.some.injEq] at h; subst h
      rename_i hc
      refine ⟨?_, rfl⟩
      simp only [Instr.name, transferRules]
      rcases hc with rfl | rfl <;> decide
    · simp at h
  · simp only [compressedForm] at h
    split at h
    · simp only [Option.some.injEq] at h; subst h
      rename_i hc
      refine ⟨?_, rfl⟩
      simp only [Instr.name, transferRules]
      rcases hc with rfl | rfl <;> decide
    · simp at h

/-- the 32-bit original of a transfer rule whose predicates hold is one its encoder accepts -/
theorem transfer_rule_accepts {c : String} {preds : List Pred} (hmem : (c, preds) ∈ criteria)
    (hc : c ∈ transferRules) {ins cf : Instr} (hcf : compressedForm c ins = some cf) {ev : Imm → Option Int}
    (hp : ∀ pr ∈ preds, pr.holds ins ev) (line : Line) :
    ∃ rins bs, resolveWith ev ins = some rins ∧ encodeInstr line rins = .ok bs := by
  simp only [transferRules, List.mem_cons, List.mem_nil_iff, or_false] at hc
  rcases hc with rfl | rfl | rfl | rfl <;> simp [criteria] at hmem <;> subst hmem
  all_goals (cases ins <;> simp [compressedForm] at hcf)
  all_goals (
    simp only [List.mem_cons, List.mem_nil_iff, or_false, forall_eq_or_imp, forall_eq, Pred.holds, regNum, immVal,
      Instr.fld, Instr.imm?, Instr.name, Option.bind_some] at hp)
  -- c.j
  · obtain ⟨hn, ⟨r, hr, _⟩, ⟨i, hi, hdiv⟩, ⟨i', hi', hlo, hhi⟩⟩ := hp
    rw [hi] at hi'; simp only [Option.some.injEq] at hi'; subst hi'
    subst hn
    obtain ⟨w, hw⟩ := (encJ_ok_iff (op := 111)).mpr ⟨by rw [hr]; rfl, by omega, by omega, hdiv⟩
    obtain ⟨bs, hbs⟩ := encodeInstr_of_encode line (.j "jal" _ (.value i)) (w := w) rfl
      (by simp only [Instr.name, encode, lookup_jal, encodeKind]; exact hw)
    exact ⟨_, bs, by simp [resolveWith, Instr.imm?, hi, Instr.setImm], hbs⟩
  -- c.jal
  · obtain ⟨hn, ⟨r, hr, _⟩, ⟨i, hi, hdiv⟩, ⟨i', hi', hlo, hhi⟩⟩ := hp
    rw [hi] at hi'; simp only [Option.some.injEq] at hi'; subst hi'
    subst hn
    obtain ⟨w, hw⟩ := (encJ_ok_iff (op := 111)).mpr ⟨by rw [hr]; rfl, by omega, by omega, hdiv⟩
    obtain ⟨bs, hbs⟩ := encodeInstr_of_encode line (.j "jal" _ (.value i)) (w := w) rfl
      (by simp only [Instr.name, encode, lookup_jal, encodeKind]; exact hw)
    exact ⟨_, bs, by simp [resolveWith, Instr.imm?, hi, Instr.setImm], hbs⟩
  -- c.beqz
  · obtain ⟨hn, ⟨r1, hr1, _⟩, ⟨r2, hr2, _⟩, ⟨i, hi, hdiv⟩, ⟨i', hi', hlo, hhi⟩⟩ := hp
    rw [hi] at hi'; simp only [Option.some.injEq] at hi'; subst hi'
    subst hn
    obtain ⟨w, hw⟩ := (encB_ok_iff (op := 99) (f3 := 0)).mpr ⟨by rw [hr1]; rfl, by rw [hr2]; rfl, by omega, by omega, hdiv⟩
    obtain ⟨bs, hbs⟩ := encodeInstr_of_encode line (.b "beq" _ _ (.value i)) (w := w) rfl
      (by simp only [Instr.name, encode, lookup_beq, encodeKind]; exact hw)
    exact ⟨_, bs, by simp [resolveWith, Instr.imm?, hi, Instr.setImm], hbs⟩
  -- c.bnez
  · obtain ⟨hn, ⟨r1, hr1, _⟩, ⟨r2, hr2, _⟩, ⟨i, hi, hdiv⟩, ⟨i', hi', hlo, hhi⟩⟩ := hp
    rw [hi] at hi'; simp only [Option.some.injEq] at hi'; subst hi'
    subst hn
    obtain ⟨w, hw⟩ := (encB_ok_iff (op := 99) (f3 := 1)).mpr ⟨by rw [hr1]; rfl, by rw [hr2]; rfl, by omega, by omega, hdiv⟩
    obtain ⟨bs, hbs⟩ := encodeInstr_of_encode line (.b "bne" _ _ (.value i)) (w := w) rfl
      (by simp only [Instr.name, encode, lookup_bne, encodeKind]; exact hw)
    exact ⟨_, bs, by simp [resolveWith, Instr.imm?, hi, Instr.setImm], hbs⟩

/-- what `decided_holds_final` gives for one compressed item of the -c run at position `q1` -/
def DecOracle (H : Hooks) (constants lb7 : Dict) (names : List String) (q1 : Int) (line : Line) (cf : Instr) : Prop :=
  ∃ ins c preds p L, DecidedAt H constants line cf ins c preds p L ∧
    (c ∈ transferRules → ∀ ref dfin, ins.imm? = some (.offset ref) → ref ∈ names → constants.get ref = none →
      lb7.get ref = some (dfin + q1) → dfin % 2 = 0 →
      ∀ pr ∈ preds, pr.holds ins (evalAt H (chainGet constants lb7) line q1))

/-- a compression pass replaced a transfer to a label: the compressed form lands when the final
    distance is even -/
theorem lands_comp_transfer {lb7 : Dict} {names : List String} {line : Line} {cf : Instr} {n : String} {q1 d1 : Int}
    (hlit : ∀ line p env, LitOK (evalAt H env line p))
    (horacle : DecOracle H constants lb7 names q1 line cf)
    (hname : cf.name ∈ transferRules) (himm : cf.imm? = some (.offset n))
    (hn : n ∈ names) (hc : constants.get n = none) (h1 : lb7.get n = some (d1 + q1)) (hev : d1 % 2 = 0) :
    Lands H constants lb7 q1 (.instr line cf) := by
  obtain ⟨ins, c, preds, p, L, ⟨hnc, hnaj, hmem, hall, hcf⟩, hfin⟩ := horacle
  obtain ⟨hcn, hi⟩ := compressedForm_transfer_inv hcf hname
  have hct : c ∈ transferRules := by rw [hcn]; exact hname
  have hp := hfin hct n d1 (by rw [hi]; exact himm) hn hc h1 hev
  obtain ⟨rins, bs, hres, henc⟩ := transfer_rule_accepts hmem hct hcf hp line
  obtain ⟨rcf, bs', h0, he, _⟩ := BB.Props.C12.compress_preserves_success_local hmem (hlit _ _ _) hp hcf hres henc
  apply lands_of_accepts
  refine ⟨rcf, bs', ?_, he⟩
  simp only [ajPos, compressedForm_aj hcf, Bool.false_eq_true, if_false]
  exact h0

/-- the near `jal` lands when its register is one, the distance is even and below 1 MiB -/
theorem lands_jal {lb7 : Dict} {line : Line} {rd : RegOp} {n : String} {q1 d1 : Int} {r : Nat}
    (hr : lookR rd = .ok r) (hc : constants.get n = none) (h1 : lb7.get n = some (q1 + d1))
    (hev : d1 % 2 = 0) (hlo : -1048575 ≤ d1) (hhi : d1 ≤ 1048575) :
    Lands H constants lb7 q1 (.instr line (.j "jal" rd (.offset n))) := by
  obtain ⟨w, hw⟩ := (encJ_ok_iff (op := 111) (rd := rd) (v := d1)).mpr
    ⟨by rw [lookR_ok.mp hr]; rfl, by omega, by omega, hev⟩
  obtain ⟨bs, hbs⟩ := encodeInstr_of_encode line (.j "jal" rd (.value d1)) (w := w) rfl
    (by simp only [Instr.name, encode, lookup_jal, encodeKind]; exact hw)
  apply lands_of_accepts
  refine ⟨_, bs, ?_, hbs⟩
  have e1 : evalAt H (chainGet constants lb7) line q1 (.offset n) = some d1 := by
    rw [evalAt_offset q1 hc h1]; congr 1; omega
  simp only [ajPos, Instr.isAuipcJump, Bool.false_eq_true, if_false, resolveWith, Instr.imm?, e1, Option.map_some,
    Instr.setImm]

end BB.Lemmas
