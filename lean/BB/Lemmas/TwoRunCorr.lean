/-
  BB.Lemmas.TwoRunCorr — the STRUCTURE of the -c run relative to the plain run.

  `StepRel a b` : item `b` of run 1 stands for item `a` of run 0: the same item, or the compressed
                  form of the instruction `a`, with the compression decision recorded
  `Corr G0 G1`  : run 1's list is run 0's list, item by item (`StepRel`), except that a far call / tail
                  pair `auipc rA, %hi(t) ; jalr rd, rA, %lo(t)` of run 0 may be the near `jal rd, t`
                  (or its compressed form) in run 1
  `IWd`         : item-wise relation of one compression pass, with the decisions
  `pseudo_shapes`, `pseudo_lockstep_corr` : the pseudo-instruction pass in lockstep, structurally
-/
import BB.Lemmas.TwoRunStages
import BB.Props.C05
set_option linter.unusedSimpArgs false
set_option linter.unusedVariables false
set_option linter.unusedTactic false
set_option linter.unreachableTactic false
namespace BB.Lemmas
open BB BB.Spec
open BB.Props.C04 (Forall2 ItemStep)

/-! ### relations -/

inductive IWd (H : Hooks) (constants : Dict) : List Item → List Item → Prop
  | nil : IWd H constants [] []
  | same (it : Item) {G0 G1 : List Item} : IWd H constants G0 G1 → IWd H constants (it :: G0) (it :: G1)
  | comp (line : Line) (ins cf : Instr) (c : String) (preds : List Pred) (p : Int) (L : Dict) {G0 G1 : List Item} :
      DecidedAt H constants line cf ins c preds p L → IWd H constants G0 G1 →
      IWd H constants (.instr line ins :: G0) (.instr line cf :: G1)

theorem IWd.toIW {H : Hooks} {constants : Dict} {G0 G1 : List Item} (h : IWd H constants G0 G1) : IW G0 G1 := by
  induction h with
  | nil => exact .nil
  | same it _ ih => exact .same it ih
  | comp line ins cf c preds p L d _ ih => exact .comp line ins cf d.1 (compressedForm_sizes d.2.2.2.2).2 ih

theorem iwd_of_forall2 {H : Hooks} {constants : Dict} : ∀ {G G' : List Item},
    Forall2 (ItemStep H constants) G G' → IWd H constants G G'
  | [], [], _ => .nil
  | [], _ :: _, h => by simp [Forall2] at h
  | _ :: _, [], h => by simp [Forall2] at h
  | a :: as, b :: bs, h => by
    simp only [Forall2] at h
    obtain ⟨h1, h2⟩ := h
    cases h1 with
    | same => exact .same a (iwd_of_forall2 h2)
    | compressed line ins cf c preds position labels hmem hall hcf haj =>
      exact .comp line ins cf c preds position labels
        ⟨(compressedForm_sizes hcf).1, haj, hmem, hall, hcf⟩ (iwd_of_forall2 h2)

theorem walk_compress_IWd (H : Hooks) (constants : Dict) (G : List Item) (p : Int) (labels : Dict)
    (G' : List Item) (labels' : Dict) (h : walk (compressBody H constants) G p labels = .ok (G', labels')) :
    IWd H constants G G' :=
  iwd_of_forall2 (BB.Props.C04.compress_pass_itemwise H constants G p labels G' labels' h)

inductive StepRel (H : Hooks) (constants : Dict) : Item → Item → Prop
  | same (it : Item) : StepRel H constants it it
  | comp (line : Line) (ins cf : Instr) (c : String) (preds : List Pred) (p : Int) (L : Dict) :
      DecidedAt H constants line cf ins c preds p L → ins.mapRegs (aliasReg constants) = ins →
      StepRel H constants (.instr line ins) (.instr line cf)

inductive Corr (H : Hooks) (constants : Dict) : List Item → List Item → Prop
  | nil : Corr H constants [] []
  | step {a b : Item} {G0 G1 : List Item} : StepRel H constants a b → Corr H constants G0 G1 →
      Corr H constants (a :: G0) (b :: G1)
  | near (line : Line) (rd rA : RegOp) (imm : Imm) {x : Item} {G0 G1 : List Item} :
      StepRel H constants (.instr line (.j "jal" rd imm)) x → Corr H constants G0 G1 →
      Corr H constants
        (.instr line (.u "auipc" rA (.hi imm)) :: .instr line (.i "jalr" rd rA (.lo imm) true) :: G0) (x :: G1)

theorem Corr.same_append {H : Hooks} {constants : Dict} {G0 G1 : List Item} (h : Corr H constants G0 G1) :
    ∀ s : List Item, Corr H constants (s ++ G0) (s ++ G1)
  | [] => h
  | it :: s => .step (.same it) (Corr.same_append h s)

/-- a step made by a compression decision cannot start from a compressed instruction -/
theorem decided_uncompressed {H : Hooks} {constants : Dict} {line : Line} {cf ins : Instr} {c : String}
    {preds : List Pred} {p : Int} {L : Dict} (d : DecidedAt H constants line cf ins c preds p L) :
    ins.isCompressed = false ∧ cf.isCompressed = true := ⟨d.1, (compressedForm_sizes d.2.2.2.2).2⟩

/-- the item standing for `a` in run 1, after one more compression pass on run 1 -/
theorem StepRel.then_iwd {H : Hooks} {constants : Dict} {a b b' : Item} (h : StepRel H constants a b)
    (hfix : ∀ l i, b = .instr l i → i.mapRegs (aliasReg constants) = i)
    (hb : b' = b ∨ ∃ line ins cf c preds p L, b = .instr line ins ∧ b' = .instr line cf ∧
      DecidedAt H constants line cf ins c preds p L) : StepRel H constants a b' := by
  rcases hb with rfl | ⟨line, ins, cf, c, preds, p, L, rfl, rfl, d⟩
  · exact h
  · cases h with
    | same => exact .comp line ins cf c preds p L d (hfix line ins rfl)
    | comp line' ins' _ c' preds' p' L' d' _ =>
      have h1 := (decided_uncompressed d').2
      have h2 := (decided_uncompressed d).1
      rw [h1] at h2; cases h2

theorem Corr.then_iwd {H : Hooks} {constants : Dict} {G0 G1 : List Item} (h : Corr H constants G0 G1) :
    ∀ {X : List Item}, (∀ l i, Item.instr l i ∈ G1 → i.mapRegs (aliasReg constants) = i) →
    IWd H constants G1 X → Corr H constants G0 X := by
  induction h with
  | nil => intro X _ hX; cases hX; exact .nil
  | @step a b G0 G1 hs _ ih =>
    intro X hfix hX
    have hfix' : ∀ l i, Item.instr l i ∈ G1 → i.mapRegs (aliasReg constants) = i :=
      fun l i hm => hfix l i (List.mem_cons_of_mem _ hm)
    cases hX with
    | same _ hr => exact .step hs (ih hfix' hr)
    | comp line ins cf c preds p L d hr =>
      exact .step (hs.then_iwd (fun l i e => hfix l i (by rw [e]; exact List.mem_cons_self))
        (Or.inr ⟨line, ins, cf, c, preds, p, L, rfl, rfl, d⟩)) (ih hfix' hr)
  | @near line rd rA imm x G0 G1 hs _ ih =>
    intro X hfix hX
    have hfix' : ∀ l i, Item.instr l i ∈ G1 → i.mapRegs (aliasReg constants) = i :=
      fun l i hm => hfix l i (List.mem_cons_of_mem _ hm)
    cases hX with
    | same _ hr => exact .near line rd rA imm hs (ih hfix' hr)
    | comp line' ins cf c preds p L d hr =>
      exact .near line rd rA imm (hs.then_iwd (fun l i e => hfix l i (by rw [e]; exact List.mem_cons_self))
        (Or.inr ⟨line', ins, cf, c, preds, p, L, rfl, rfl, d⟩)) (ih hfix' hr)

/-! ### resolve_register_aliases on both sides -/

def aliasItem (constants : Dict) (it : Item) : Item :=
  match it with
  | .instr line ins => .instr line (ins.mapRegs (aliasReg constants))
  | other => other

theorem aliases_cons (it : Item) (rest : List Item) (constants : Dict) :
    resolveRegisterAliases (it :: rest) constants = aliasItem constants it :: resolveRegisterAliases rest constants := rfl

theorem StepRel.aliases {H : Hooks} {constants : Dict} {a b : Item} (h : StepRel H constants a b) :
    StepRel H constants (aliasItem constants a) (aliasItem constants b) := by
  cases h with
  | same => exact .same _
  | comp line ins cf c preds p L d hfix =>
    have hcf : compressedForm c (ins.mapRegs (aliasReg constants)) = some cf := by rw [hfix]; exact d.2.2.2.2
    simp only [aliasItem, hfix, compressedForm_aliased hcf]
    exact .comp line ins cf c preds p L d hfix

theorem Corr.aliases {H : Hooks} {constants : Dict} {G0 G1 : List Item} (h : Corr H constants G0 G1) :
    Corr H constants (resolveRegisterAliases G0 constants) (resolveRegisterAliases G1 constants) := by
  induction h with
  | nil => exact .nil
  | step hs _ ih => rw [aliases_cons, aliases_cons]; exact .step hs.aliases ih
  | near line rd rA imm hs _ ih =>
    rw [aliases_cons, aliases_cons, aliases_cons]
    exact .near line (aliasReg constants rd) (aliasReg constants rA) imm hs.aliases ih

/-- markers removed on both sides -/
theorem Corr.strip {H : Hooks} {constants : Dict} {G0 G1 : List Item} (h : Corr H constants G0 G1) :
    Corr H constants (strip G0) (strip G1) := by
  induction h with
  | nil => exact .nil
  | @step a b G0 G1 hs _ ih =>
    cases hs with
    | same =>
      by_cases hl : ∃ l n, a = .label l n
      · obtain ⟨l, n, rfl⟩ := hl
        rw [strip_label, strip_label]; exact ih
      · have hnl : ∀ l n, a ≠ .label l n := fun l n e => hl ⟨l, n, e⟩
        rw [strip_cons_of_not_label hnl, strip_cons_of_not_label hnl]
        exact .step (.same a) ih
    | comp line ins cf c preds p L d hfix =>
      rw [strip_cons_of_not_label (by intro l n e; cases e), strip_cons_of_not_label (by intro l n e; cases e)]
      exact .step (.comp line ins cf c preds p L d hfix) ih
  | @near line rd rA imm x G0 G1 hs _ ih =>
    have hx : ∀ l n, x ≠ .label l n := by
      cases hs with
      | same => intro l n e; cases e
      | comp => intro l n e; cases e
    rw [strip_cons_of_not_label (by intro l n e; cases e), strip_cons_of_not_label (by intro l n e; cases e),
      strip_cons_of_not_label hx]
    exact .near line rd rA imm hs ih

/-! ### the shapes of the two expansions of one pseudo-instruction -/

theorem pseudo_shapes {H : Hooks} (hoff : OffsetHook H) {constants : Dict} {line : Line} {name : String}
    {args : List String} {p0 p1 : Int} {L0 L1 : Dict} {repl0 repl1 : List Item} {n0 n1 : Int}
    (h0 : pseudoBody H constants (.pseudo line name args) p0 L0 = .ok (repl0, n0))
    (h1 : pseudoBody H constants (.pseudo line name args) p1 L1 = .ok (repl1, n1))
    (hli : pseudoKind name = some .li → ∀ imm, H.parseImm args.tail line = .ok imm →
      imm.eval H (chainGet constants L0) line p0 = imm.eval H (chainGet constants L1) line p1)
    (hct : (pseudoKind name = some .call ∨ pseudoKind name = some .tail) → ∀ ref imm v0 v1, args = [ref] →
      H.parseImm ["%offset", ref] line = .ok imm →
      imm.eval H (chainGet constants L0) line p0 = .ok v0 → imm.eval H (chainGet constants L1) line p1 = .ok v1 →
      (-1048576 ≤ cI32 v0 ∧ cI32 v0 ≤ 1048575) → (-1048576 ≤ cI32 v1 ∧ cI32 v1 ≤ 1048575)) :
    repl1 = repl0 ∨
    ∃ rd rA imm, repl0 = [.instr line (.u "auipc" rA (.hi imm)), .instr line (.i "jalr" rd rA (.lo imm) true)] ∧
      repl1 = [.instr line (.j "jal" rd imm)] := by
  simp only [pseudoBody, bind, Except.bind] at h0 h1
  cases e0 : expandPseudo H (chainGet constants L0) line name args p0 with
  | error e => simp [e0] at h0
  | ok r0 =>
  cases e1 : expandPseudo H (chainGet constants L1) line name args p1 with
  | error e => simp [e1] at h1
  | ok r1 =>
  obtain ⟨i0, s0⟩ := r0
  obtain ⟨i1, s1⟩ := r1
  simp only [e0, pure, Except.pure, Except.ok.injEq, Prod.mk.injEq] at h0
  simp only [e1, pure, Except.pure, Except.ok.injEq, Prod.mk.injEq] at h1
  obtain ⟨rfl, _⟩ := h0
  obtain ⟨rfl, _⟩ := h1
  unfold expandPseudo at e0 e1
  cases hk : pseudoKind name with
  | none => simp [hk] at e0
  | some k =>
    simp only [hk] at e0 e1
    by_cases hbig : k.isBig = true
    · cases k <;> simp only [PKind.isBig, Bool.false_eq_true] at hbig
      · -- li: the same value, the same width
        left
        obtain ⟨rd, toks, imm, v0, ha, hp, hv0, _⟩ := li_short e0
        obtain ⟨rd', toks', imm', v1, ha', hp', hv1, _⟩ := li_short e1
        rw [ha] at ha'
        simp only [List.cons.injEq] at ha'
        obtain ⟨rfl, rfl⟩ := ha'
        rw [hp] at hp'
        cases hp'
        have heq := hli hk imm (by rw [ha]; exact hp)
        rw [hv0, hv1] at heq
        cases heq
        subst ha
        rw [BB.Props.C05.expand_li H _ line p0 rd toks imm v0 hp hv0] at e0
        rw [BB.Props.C05.expand_li H _ line p1 rd toks imm v0 hp hv1] at e1
        rw [e0] at e1
        simp only [Except.ok.injEq, Prod.mk.injEq] at e1
        rw [e1.1]
      · -- call
        obtain ⟨ref, imm, v0, ha, hp, hv0, _⟩ := call_short (Or.inl rfl) e0
        obtain ⟨ref', imm', v1, ha', hp', hv1, _⟩ := call_short (Or.inl rfl) e1
        rw [ha] at ha'
        simp only [List.cons.injEq, and_true] at ha'
        subst ha'
        rw [hp] at hp'
        cases hp'
        have hnear := hct (Or.inl hk) ref imm v0 v1 ha hp hv0 hv1
        subst ha
        rw [BB.Props.C05.expand_call H _ line p0 ref imm v0 hp hv0] at e0
        rw [BB.Props.C05.expand_call H _ line p1 ref imm v1 hp hv1] at e1
        by_cases c0 : -1048576 ≤ cI32 v0 ∧ cI32 v0 ≤ 1048575
        · rw [if_pos c0] at e0
          rw [if_pos (hnear c0)] at e1
          simp only [Except.ok.injEq, Prod.mk.injEq] at e0 e1
          left; rw [← e0.1, ← e1.1]
        · rw [if_neg c0] at e0
          simp only [Except.ok.injEq, Prod.mk.injEq] at e0
          by_cases c1 : -1048576 ≤ cI32 v1 ∧ cI32 v1 ≤ 1048575
          · rw [if_pos c1] at e1
            simp only [Except.ok.injEq, Prod.mk.injEq] at e1
            right
            exact ⟨.str "x1", .str "x1", imm, by rw [← e0.1]; rfl, by rw [← e1.1]; rfl⟩
          · rw [if_neg c1] at e1
            simp only [Except.ok.injEq, Prod.mk.injEq] at e1
            left; rw [← e0.1, ← e1.1]
      · -- tail
        obtain ⟨ref, imm, v0, ha, hp, hv0, _⟩ := call_short (Or.inr rfl) e0
        obtain ⟨ref', imm', v1, ha', hp', hv1, _⟩ := call_short (Or.inr rfl) e1
        rw [ha] at ha'
        simp only [List.cons.injEq, and_true] at ha'
        subst ha'
        rw [hp] at hp'
        cases hp'
        have hnear := hct (Or.inr hk) ref imm v0 v1 ha hp hv0 hv1
        subst ha
        rw [BB.Props.C05.expand_tail H _ line p0 ref imm v0 hp hv0] at e0
        rw [BB.Props.C05.expand_tail H _ line p1 ref imm v1 hp hv1] at e1
        by_cases c0 : -1048576 ≤ cI32 v0 ∧ cI32 v0 ≤ 1048575
        · rw [if_pos c0] at e0
          rw [if_pos (hnear c0)] at e1
          simp only [Except.ok.injEq, Prod.mk.injEq] at e0 e1
          left; rw [← e0.1, ← e1.1]
        · rw [if_neg c0] at e0
          simp only [Except.ok.injEq, Prod.mk.injEq] at e0
          by_cases c1 : -1048576 ≤ cI32 v1 ∧ cI32 v1 ≤ 1048575
          · rw [if_pos c1] at e1
            simp only [Except.ok.injEq, Prod.mk.injEq] at e1
            right
            exact ⟨.str "x0", .str "x6", imm, by rw [← e0.1]; rfl, by rw [← e1.1]; rfl⟩
          · rw [if_neg c1] at e1
            simp only [Except.ok.injEq, Prod.mk.injEq] at e1
            left; rw [← e0.1, ← e1.1]
    · have hsmall : k.isBig = false := by cases hb : k.isBig <;> simp_all
      rw [expandKind_small_indep H _ (chainGet constants L1) line k args p0 p1 hsmall, e1] at e0
      simp only [Except.ok.injEq, Prod.mk.injEq] at e0
      left; rw [e0.1]

/-- **the pseudo-instruction pass in lockstep, structurally** -/
theorem pseudo_lockstep_corr (H : Hooks) (constants : Dict) (hoff : OffsetHook H) (T : Int) (hT : T < 2147483648) :
    ∀ {G0 G1 : List Item}, IWd H constants G0 G1 → ∀ (p0 p1 : Int) (L0 L1 : Dict) (G0' G1' : List Item) (L0' L1' : Dict),
    NonNeg G0 → (labelNames G0).Nodup → Inv G0 p0 L0 → Inv G1 p1 L1 → Past G0 p0 p1 L0 L1 →
    0 ≤ p0 → p0 + sizeSum G0 ≤ T →
    (∀ line name args, Item.pseudo line name args ∈ G0 → pseudoKind name = some .li →
      ∀ imm, H.parseImm args.tail line = .ok imm → ImmLabelFree H constants imm) →
    (∀ line name args ref, Item.pseudo line name args ∈ G0 →
      (pseudoKind name = some .call ∨ pseudoKind name = some .tail) → args = [ref] → constants.get ref = none) →
    (∀ l i, Item.instr l i ∈ G0 → i.mapRegs (aliasReg constants) = i) →
    walk (pseudoBody H constants) G0 p0 L0 = .ok (G0', L0') →
    walk (pseudoBody H constants) G1 p1 L1 = .ok (G1', L1') → Corr H constants G0' G1' := by
  intro G0 G1 hiw
  induction hiw with
  | nil =>
    intro p0 p1 L0 L1 G0' G1' L0' L1' _ _ _ _ _ _ _ _ _ _ h0 h1
    simp only [walk, Except.ok.injEq, Prod.mk.injEq] at h0 h1
    rw [← h0.1, ← h1.1]; exact .nil
  | @same it R0 R1 hr ih =>
    intro p0 p1 L0 L1 G0' G1' L0' L1' hnn hnd inv0 inv1 past hp0 hTb hli hct hfix h0 h1
    have hnnR : NonNeg R0 := fun y hy => hnn y (List.mem_cons_of_mem _ hy)
    have hnames := hr.toIW.labelNames_eq
    by_cases hl : ∃ l n, it = .label l n
    · -- a marker
      obtain ⟨line, nm, rfl⟩ := hl
      simp only [labelNames, List.nodup_cons] at hnd
      obtain ⟨hnotin, hndR⟩ := hnd
      simp only [walk, bind, Except.bind] at h0 h1
      cases hr0 : walk (pseudoBody H constants) R0 p0 L0 with
      | error e => simp [hr0] at h0
      | ok r0 =>
      cases hr1 : walk (pseudoBody H constants) R1 p1 L1 with
      | error e => simp [hr1] at h1
      | ok r1 =>
      obtain ⟨o0, l0⟩ := r0
      obtain ⟨o1, l1⟩ := r1
      simp only [hr0, pure, Except.pure, Except.ok.injEq, Prod.mk.injEq] at h0
      simp only [hr1, pure, Except.pure, Except.ok.injEq, Prod.mk.injEq] at h1
      rw [← h0.1, ← h1.1]
      obtain ⟨i0, g0⟩ := inv_label hnotin inv0
      obtain ⟨i1, g1⟩ := inv_label (by rw [hnames]; exact hnotin) inv1
      have past' : Past R0 p0 p1 L0 L1 := by
        intro ℓ hℓ u0 hu0
        by_cases he : ℓ = nm
        · subst he
          rw [g0] at hu0
          simp only [Option.some.injEq] at hu0
          subst hu0
          exact ⟨hp0, p1, g1, by omega, by omega⟩
        · exact past ℓ (by simp [labelNames, he, hℓ]) u0 hu0
      refine .step (.same _) (ih p0 p1 L0 L1 o0 o1 l0 l1 hnnR hndR i0 i1 past' hp0 ?_ ?_ ?_ ?_ hr0 hr1)
      · simpa [sizeSum_cons, sizeD_label] using hTb
      · intro l n a hm; exact hli l n a (List.mem_cons_of_mem _ hm)
      · intro l n a r hm; exact hct l n a r (List.mem_cons_of_mem _ hm)
      · intro l i hm; exact hfix l i (List.mem_cons_of_mem _ hm)
    · -- an ordinary item, the same in both runs
      have hnl : ∀ l n, it ≠ .label l n := fun l n e => hl ⟨l, n, e⟩
      have hnd' : (labelNames R0).Nodup := by rw [labelNames_cons_of_not_label hnl] at hnd; exact hnd
      have hnn1 : NonNeg (it :: R1) := (IW.same it hr.toIW).nonneg hnn
      rw [walk_cons_of_not_label hnl] at h0 h1
      simp only [bind, Except.bind] at h0 h1
      cases hf0 : pseudoBody H constants it p0 L0 with
      | error e => simp [hf0] at h0
      | ok fb0 =>
      cases hf1 : pseudoBody H constants it p1 L1 with
      | error e => simp [hf1] at h1
      | ok fb1 =>
      obtain ⟨repl0, n0⟩ := fb0
      obtain ⟨repl1, n1⟩ := fb1
      simp only [hf0] at h0
      simp only [hf1] at h1
      cases hr0 : walk (pseudoBody H constants) R0 (p0 + sizeSum repl0) (L0.shiftAbove p0 n0) with
      | error e => simp [hr0] at h0
      | ok r0 =>
      cases hr1 : walk (pseudoBody H constants) R1 (p1 + sizeSum repl1) (L1.shiftAbove p1 n1) with
      | error e => simp [hr1] at h1
      | ok r1 =>
      obtain ⟨o0, l0⟩ := r0
      obtain ⟨o1, l1⟩ := r1
      simp only [hr0, pure, Except.pure, Except.ok.injEq, Prod.mk.injEq] at h0
      simp only [hr1, pure, Except.pure, Except.ok.injEq, Prod.mk.injEq] at h1
      rw [← h0.1, ← h1.1]
      -- what the two bodies returned
      have hpair : ((∃ l a, it = .align l a ∧ repl0 = [it] ∧ repl1 = [it]) ∨
          (Plain repl0 ∧ Plain repl1 ∧ sizeSum repl1 ≤ sizeSum repl0)) ∧
          (repl1 = repl0 ∨ ∃ rd rA imm ln, repl0 = [.instr ln (.u "auipc" rA (.hi imm)), .instr ln (.i "jalr" rd rA (.lo imm) true)] ∧
            repl1 = [.instr ln (.j "jal" rd imm)]) := by
        cases it with
        | pseudo line name args =>
          refine (fun (hside : (pseudoKind name = some .li → ∀ imm, H.parseImm args.tail line = .ok imm →
              imm.eval H (chainGet constants L0) line p0 = imm.eval H (chainGet constants L1) line p1) ∧
            ((pseudoKind name = some .call ∨ pseudoKind name = some .tail) → ∀ ref imm v0 v1, args = [ref] →
              H.parseImm ["%offset", ref] line = .ok imm →
              imm.eval H (chainGet constants L0) line p0 = .ok v0 → imm.eval H (chainGet constants L1) line p1 = .ok v1 →
              (-1048576 ≤ cI32 v0 ∧ cI32 v0 ≤ 1048575) → (-1048576 ≤ cI32 v1 ∧ cI32 v1 ≤ 1048575))) => ?_) ⟨?_, ?_⟩
          · refine ⟨Or.inr (pseudo_pair hf0 hf1 hside.1 hside.2), ?_⟩
            rcases pseudo_shapes hoff hf0 hf1 hside.1 hside.2 with e | ⟨rd, rA, imm, e0, e1⟩
            · exact Or.inl e
            · exact Or.inr ⟨rd, rA, imm, line, e0, e1⟩
          · intro hk imm hpi
            exact hli line name args List.mem_cons_self hk imm hpi L0 L1 line p0 p1
          · intro hk ref imm v0 v1 ha hpi hv0 hv1 hnear
            have himm := hoff ref line imm hpi
            subst himm
            have hcn := hct line name args ref List.mem_cons_self hk ha
            obtain ⟨u0, hu0, rfl⟩ := offset_eval_ok hcn hv0
            obtain ⟨u1, hu1, rfl⟩ := offset_eval_ok hcn hv1
            have hpn : ∀ l n, Item.pseudo line name args ≠ .label l n := by intro l n e; cases e
            -- the two distances
            have hrel : (0 ≤ u0 - p0 ∧ 0 ≤ u1 - p1 ∧ u1 - p1 ≤ u0 - p0 ∧ u0 - p0 ≤ T) ∨
                (0 ≤ p0 - u0 ∧ 0 ≤ p1 - u1 ∧ p1 - u1 ≤ p0 - u0 ∧ p0 - u0 ≤ T) := by
              by_cases hm : ref ∈ labelNames (Item.pseudo line name args :: R0)
              · left
                have hsome := (labelPos_isSome_iff _ p0 ref).mpr hm
                cases hq : labelPos (Item.pseudo line name args :: R0) p0 ref with
                | none => simp [hq] at hsome
                | some w0 =>
                  have e0 := inv0.agree ref w0 hq
                  rw [hu0] at e0
                  simp only [Option.some.injEq] at e0
                  subst e0
                  obtain ⟨w1, q1, q2, q3⟩ := (IW.same _ hr.toIW).head_off hnn p0 p1 ref _ hq
                  have e1 := inv1.agree ref w1 q1
                  rw [hu1] at e1
                  simp only [Option.some.injEq] at e1
                  subst e1
                  have hge := labelPos_ge hnn hq
                  have hle := labelPos_le hnn hq
                  exact ⟨by omega, q2, q3, by omega⟩
              · right
                obtain ⟨g1, w1, g2, g3, g4⟩ := past ref hm u0 hu0
                rw [hu1] at g2
                simp only [Option.some.injEq] at g2
                subst g2
                have := inv0.low ref u0 hm hu0
                have hss := sizeSum_nonneg hnn
                exact ⟨by omega, g3, g4, by omega⟩
            rcases hrel with ⟨r1, r2, r3, r4⟩ | ⟨r1, r2, r3, r4⟩
            · rw [cI32_id (by omega) (by omega)] at hnear
              rw [cI32_id (by omega) (by omega)]
              omega
            · rw [cI32_id (by omega) (by omega)] at hnear
              rw [cI32_id (by omega) (by omega)]
              omega
        | align l a =>
          obtain ⟨e0, _⟩ := keep_pseudoBody (by intro l n a e; cases e) hf0
          obtain ⟨e1, _⟩ := keep_pseudoBody (by intro l n a e; cases e) hf1
          exact ⟨Or.inl ⟨l, a, rfl, e0, e1⟩, Or.inl (by rw [e0, e1])⟩
        | label l n => exact absurd rfl (hnl l n)
        | _ =>
          obtain ⟨e0, _⟩ := keep_pseudoBody (by intro l n a e; cases e) hf0
          obtain ⟨e1, _⟩ := keep_pseudoBody (by intro l n a e; cases e) hf1
          rw [e0, e1]
          have hps := plain_single (by intro l n e; cases e) (by intro l a e; cases e) (hnn _ List.mem_cons_self)
          exact ⟨Or.inr ⟨hps, hps, Int.le_refl _⟩, Or.inl rfl⟩
      have hle : sizeSum repl1 ≤ sizeSum repl0 := by
        rcases hpair.1 with ⟨_, _, _, e0, e1⟩ | ⟨_, _, h⟩
        · rw [e0, e1]; exact Int.le_refl _
        · exact h
      obtain ⟨i0, i1, past', hp0', hT'⟩ := lock_nonlabel (pseudoBody_ok H constants) hnl hnl hnn hnn1 inv0 inv1 hnames
        past hf0 hf1 hle hp0 hTb
      have hdom := ih _ _ _ _ o0 o1 l0 l1 hnnR hnd' i0 i1 past' hp0' hT'
        (fun l n a hm => hli l n a (List.mem_cons_of_mem _ hm))
        (fun l n a r hm => hct l n a r (List.mem_cons_of_mem _ hm))
        (fun l i hm => hfix l i (List.mem_cons_of_mem _ hm)) hr0 hr1
      rcases hpair.2 with e | ⟨rd, rA, imm, ln, e0, e1⟩
      · rw [e]; exact hdom.same_append repl0
      · rw [e0, e1]; exact .near ln rd rA imm (.same _) hdom
  | @comp line ins cf c preds pd Ld R0 R1 d hr ih =>
    intro p0 p1 L0 L1 G0' G1' L0' L1' hnn hnd inv0 inv1 past hp0 hTb hli hct hfix h0 h1
    have hc0 := (decided_uncompressed d).1
    have hc1 := (decided_uncompressed d).2
    have hnnR : NonNeg R0 := fun y hy => hnn y (List.mem_cons_of_mem _ hy)
    have hnames := hr.toIW.labelNames_eq
    have hnl0 : ∀ l n, Item.instr line ins ≠ .label l n := by intro l n e; cases e
    have hnl1 : ∀ l n, Item.instr line cf ≠ .label l n := by intro l n e; cases e
    have hnd' : (labelNames R0).Nodup := by simpa [labelNames] using hnd
    have hnn1 : NonNeg (Item.instr line cf :: R1) := (IW.comp line ins cf hc0 hc1 hr.toIW).nonneg hnn
    rw [walk_cons_of_not_label hnl0] at h0
    rw [walk_cons_of_not_label hnl1] at h1
    simp only [bind, Except.bind] at h0 h1
    cases hf0 : pseudoBody H constants (.instr line ins) p0 L0 with
    | error e => simp [hf0] at h0
    | ok fb0 =>
    cases hf1 : pseudoBody H constants (.instr line cf) p1 L1 with
    | error e => simp [hf1] at h1
    | ok fb1 =>
    obtain ⟨repl0, n0⟩ := fb0
    obtain ⟨repl1, n1⟩ := fb1
    simp only [hf0] at h0
    simp only [hf1] at h1
    cases hr0 : walk (pseudoBody H constants) R0 (p0 + sizeSum repl0) (L0.shiftAbove p0 n0) with
    | error e => simp [hr0] at h0
    | ok r0 =>
    cases hr1 : walk (pseudoBody H constants) R1 (p1 + sizeSum repl1) (L1.shiftAbove p1 n1) with
    | error e => simp [hr1] at h1
    | ok r1 =>
    obtain ⟨o0, l0⟩ := r0
    obtain ⟨o1, l1⟩ := r1
    simp only [hr0, pure, Except.pure, Except.ok.injEq, Prod.mk.injEq] at h0
    simp only [hr1, pure, Except.pure, Except.ok.injEq, Prod.mk.injEq] at h1
    rw [← h0.1, ← h1.1]
    obtain ⟨e0, _⟩ := keep_pseudoBody (by intro l n a e; cases e) hf0
    obtain ⟨e1, _⟩ := keep_pseudoBody (by intro l n a e; cases e) hf1
    have hs0 : (Item.instr line ins).sizeD = 4 := by rw [instr_sizeD, hc0]; rfl
    have hs1 : (Item.instr line cf).sizeD = 2 := by rw [instr_sizeD, hc1]; rfl
    have hle : sizeSum repl1 ≤ sizeSum repl0 := by
      rw [e0, e1]; simp only [sizeSum, List.map_cons, List.map_nil, List.sum_cons, List.sum_nil, hs0, hs1]; omega
    obtain ⟨i0, i1, past', hp0', hT'⟩ := lock_nonlabel (pseudoBody_ok H constants) hnl0 hnl1 hnn hnn1 inv0 inv1 hnames
      past hf0 hf1 hle hp0 hTb
    have hdom := ih _ _ _ _ o0 o1 l0 l1 hnnR hnd' i0 i1 past' hp0' hT'
      (fun l n a hm => hli l n a (List.mem_cons_of_mem _ hm))
      (fun l n a r hm => hct l n a r (List.mem_cons_of_mem _ hm))
      (fun l i hm => hfix l i (List.mem_cons_of_mem _ hm)) hr0 hr1
    rw [e0, e1]
    exact .step (.comp line ins cf c preds pd Ld d (hfix line ins List.mem_cons_self)) hdom


end BB.Lemmas
