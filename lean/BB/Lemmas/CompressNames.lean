/-
  BB.Lemmas.CompressNames — from the class of a mnemonic back to its spelling (`classOf n = some …
  → n = "…"`), for the 18 compressible base operations; and: an `Instr32` that is `eligible` and is
  what `intent32 n ops` names pins down `n` and `ops`.
-/
import BB.Lemmas.CompressElig
set_option linter.unusedSimpArgs false
set_option linter.unusedVariables false
set_option linter.unusedTactic false
namespace BB.Lemmas
open BB BB.Spec

set_option hygiene false in
macro "op_inv" f:ident : tactic =>
  `(tactic| (unfold $f at h; split at h <;> first | rfl | (simp at h)))

theorem iOpOf_addi {n : String} (h : iOpOf n = some .addi) : n = "addi" := by op_inv iOpOf
theorem iOpOf_andi {n : String} (h : iOpOf n = some .andi) : n = "andi" := by op_inv iOpOf
theorem ldOpOf_lw {n : String} (h : ldOpOf n = some .lw) : n = "lw" := by op_inv ldOpOf
theorem stOpOf_sw {n : String} (h : stOpOf n = some .sw) : n = "sw" := by op_inv stOpOf
theorem brOpOf_beq {n : String} (h : brOpOf n = some .beq) : n = "beq" := by op_inv brOpOf
theorem brOpOf_bne {n : String} (h : brOpOf n = some .bne) : n = "bne" := by op_inv brOpOf
theorem shOpOf_srli {n : String} (h : shOpOf n = some .srli) : n = "srli" := by op_inv shOpOf
theorem shOpOf_srai {n : String} (h : shOpOf n = some .srai) : n = "srai" := by op_inv shOpOf
theorem shOpOf_slli {n : String} (h : shOpOf n = some .slli) : n = "slli" := by op_inv shOpOf
theorem rOpOf_add {n : String} (h : rOpOf n = some .add) : n = "add" := by op_inv rOpOf
theorem rOpOf_sub {n : String} (h : rOpOf n = some .sub) : n = "sub" := by op_inv rOpOf
theorem rOpOf_xor {n : String} (h : rOpOf n = some .xor) : n = "xor" := by op_inv rOpOf
theorem rOpOf_or {n : String} (h : rOpOf n = some .or) : n = "or" := by op_inv rOpOf
theorem rOpOf_and {n : String} (h : rOpOf n = some .and) : n = "and" := by op_inv rOpOf

set_option hygiene false in
macro "cls_inv" lem:term : tactic =>
  `(tactic| (
    unfold classOf at h
    repeat' (split at h)
    all_goals (first
      | (simp at h; done)
      | (simp only [Option.some.injEq, $lem:term] at h; subst h; assumption))))

theorem classOf_r {n : String} {o : ROp} (h : classOf n = some (.r o)) : rOpOf n = some o := by
  cls_inv Mn32.r.injEq
theorem classOf_sh {n : String} {o : ShOp} (h : classOf n = some (.sh o)) : shOpOf n = some o := by
  cls_inv Mn32.sh.injEq
theorem classOf_i {n : String} {o : IOp} (h : classOf n = some (.i o)) : iOpOf n = some o := by
  cls_inv Mn32.i.injEq
theorem classOf_ld {n : String} {o : LdOp} (h : classOf n = some (.ld o)) : ldOpOf n = some o := by
  cls_inv Mn32.ld.injEq
theorem classOf_st {n : String} {o : StOp} (h : classOf n = some (.st o)) : stOpOf n = some o := by
  cls_inv Mn32.st.injEq
theorem classOf_br {n : String} {o : BrOp} (h : classOf n = some (.br o)) : brOpOf n = some o := by
  cls_inv Mn32.br.injEq

set_option hygiene false in
macro "cls_name" : tactic =>
  `(tactic| (
    unfold classOf at h
    repeat' (split at h)
    all_goals (first | (simp at h; done) | assumption)))

theorem classOf_jalr {n : String} (h : classOf n = some .jalr) : n = "jalr" := by cls_name
theorem classOf_lui {n : String} (h : classOf n = some .lui) : n = "lui" := by cls_name
theorem classOf_jal {n : String} (h : classOf n = some .jal) : n = "jal" := by cls_name
theorem classOf_ebreak {n : String} (h : classOf n = some .ebreak) : n = "ebreak" := by cls_name

end BB.Lemmas

namespace BB.Lemmas
open BB BB.Spec
open BB.Props.C01 (denote32 denoteReg)

theorem denote32I_intent {rins : Instr} {i : Instr32} (h : denote32I rins = some i) :
    ∃ k args ops c, instrTable.lookup rins.name = some k ∧ rins.args = some args ∧
      denote32 k args = some ops ∧ classOf rins.name = some c ∧ intentOf c ops = some i := by
  unfold denote32I at h
  cases hk : instrTable.lookup rins.name with
  | none => simp [hk] at h
  | some k =>
    cases ha : rins.args with
    | none => simp [hk, ha] at h
    | some args =>
      cases hd : denote32 k args with
      | none => simp [hk, ha, hd] at h
      | some ops =>
        simp only [hk, ha, hd, intent32] at h
        cases hc : classOf rins.name with
        | none => simp [hc] at h
        | some c =>
          simp only [hc] at h
          exact ⟨k, args, ops, c, rfl, rfl, hd, rfl, h⟩

/-! the class of a mnemonic from the shape of the instruction it names -/

theorem intentOf_i {c : Mn32} {ops : List Opnd} {o : IOp} {a b : Nat} {v : Int}
    (h : intentOf c ops = some (.i o a b v)) : c = .i o := by
  unfold intentOf at h; split at h <;> simp_all
theorem intentOf_load {c : Mn32} {ops : List Opnd} {o : LdOp} {a b : Nat} {v : Int}
    (h : intentOf c ops = some (.load o a b v)) : c = .ld o := by
  unfold intentOf at h; split at h <;> simp_all
theorem intentOf_store {c : Mn32} {ops : List Opnd} {o : StOp} {a b : Nat} {v : Int}
    (h : intentOf c ops = some (.store o a b v)) : c = .st o := by
  unfold intentOf at h; split at h <;> simp_all
theorem intentOf_branch {c : Mn32} {ops : List Opnd} {o : BrOp} {a b : Nat} {v : Int}
    (h : intentOf c ops = some (.branch o a b v)) : c = .br o := by
  unfold intentOf at h; split at h <;> simp_all
theorem intentOf_sh {c : Mn32} {ops : List Opnd} {o : ShOp} {a b s : Nat}
    (h : intentOf c ops = some (.sh o a b s)) : c = .sh o := by
  unfold intentOf at h; split at h <;> simp_all
theorem intentOf_r {c : Mn32} {ops : List Opnd} {o : ROp} {a b s : Nat}
    (h : intentOf c ops = some (.r o a b s)) : c = .r o := by
  unfold intentOf at h; split at h <;> simp_all
theorem intentOf_lui {c : Mn32} {ops : List Opnd} {a f : Nat}
    (h : intentOf c ops = some (.lui a f)) : c = .lui := by
  unfold intentOf at h; split at h <;> simp_all
theorem intentOf_jal {c : Mn32} {ops : List Opnd} {a : Nat} {v : Int}
    (h : intentOf c ops = some (.jal a v)) : c = .jal := by
  unfold intentOf at h; split at h <;> simp_all
theorem intentOf_jalr {c : Mn32} {ops : List Opnd} {a b : Nat} {v : Int}
    (h : intentOf c ops = some (.jalr a b v)) : c = .jalr := by
  unfold intentOf at h; split at h <;> simp_all
theorem intentOf_ebreak {c : Mn32} {ops : List Opnd}
    (h : intentOf c ops = some .ebreak) : c = .ebreak := by
  unfold intentOf at h; split at h <;> simp_all

end BB.Lemmas
