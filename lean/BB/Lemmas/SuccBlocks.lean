/-
  BB.Lemmas.SuccBlocks — from the source list to the decided list of one run, block by block:
  `Blocks G G'` says `G'` is the concatenation of one block per item of `G`; markers and `align` items
  are their own blocks, no other block contains a marker or an `align`, a block is not larger than
  the (pessimistic) size of its item, and an instruction of a block that refers to a label does so
  because its source item does (`Item.refs`).  Every pass up to resolve_aligns is of this form.
-/
import BB.Lemmas.SuccDist
set_option linter.unusedSimpArgs false
set_option linter.unusedVariables false
namespace BB.Lemmas
open BB BB.Spec
open BB.Props.C05 (immTokens documented expand_matches_doc)

/-- the name an immediate takes the pc-relative offset of -/
def refOf : Imm → Option String
  | .offset r => some r
  | .hi (.offset r) => some r
  | .lo (.offset r) => some r
  | _ => none

/-- the item refers to `n` pc-relatively: an instruction whose immediate is `%offset n` (or `%hi` / `%lo`
    of it), or a branch / jump / call / tail pseudo-instruction with target `n` -/
def Item.refs (x : Item) (n : String) : Prop :=
  (∃ line ins imm, x = .instr line ins ∧ ins.imm? = some imm ∧ refOf imm = some n) ∨
  (∃ line name args k, x = .pseudo line name args ∧ pseudoKind name = some k ∧ k ≠ .li ∧
    immTokens k args = some ["%offset", n])

structure Blk (s : Item) (repl : List Item) : Prop where
  label : ∀ l n, s = .label l n → repl = [s]
  align : ∀ l a, s = .align l a → repl = [s]
  other : (∀ l n, s ≠ .label l n) → (∀ l a, s ≠ .align l a) →
    ∀ y ∈ repl, (∀ l n, y ≠ .label l n) ∧ (∀ l a, y ≠ .align l a)
  size : sizeSum repl ≤ s.sizeD
  refs : ∀ y ∈ repl, ∀ n, Item.refs y n → Item.refs s n

inductive Blocks : List Item → List Item → Prop
  | nil : Blocks [] []
  | cons {s : Item} {repl rest out : List Item} : Blk s repl → Blocks rest out → Blocks (s :: rest) (repl ++ out)

theorem Blk.same (s : Item) : Blk s [s] where
  label := fun _ _ _ => rfl
  align := fun _ _ _ => rfl
  other := fun h1 h2 y hy => by simp only [List.mem_singleton] at hy; subst hy; exact ⟨h1, h2⟩
  size := by simp [sizeSum]
  refs := fun y hy n h => by simp only [List.mem_singleton] at hy; subst hy; exact h

theorem Blocks.refl : ∀ G : List Item, Blocks G G
  | [] => .nil
  | s :: G => by simpa using Blocks.cons (Blk.same s) (Blocks.refl G)

theorem Blocks.sizeSum_le {G G' : List Item} (h : Blocks G G') : sizeSum G' ≤ sizeSum G := by
  induction h with
  | nil => exact Int.le_refl _
  | cons hb _ ih => rw [sizeSum_append, sizeSum_cons]; have := hb.size; omega

theorem Blocks.append {a b c d : List Item} (h1 : Blocks a b) (h2 : Blocks c d) : Blocks (a ++ c) (b ++ d) := by
  induction h1 with
  | nil => simpa using h2
  | cons hb _ ih => rw [List.cons_append, List.append_assoc]; exact .cons hb ih

theorem Blocks.append_inv {a c : List Item} : ∀ {out : List Item}, Blocks (a ++ c) out →
    ∃ o1 o2, out = o1 ++ o2 ∧ Blocks a o1 ∧ Blocks c o2 := by
  induction a with
  | nil => intro out h; exact ⟨[], out, rfl, .nil, by simpa using h⟩
  | cons s a ih =>
    intro out h
    rw [List.cons_append] at h
    cases h with
    | cons hb hr =>
      obtain ⟨o1, o2, rfl, e1, e2⟩ := ih hr
      exact ⟨_ ++ o1, o2, by rw [List.append_assoc], .cons hb e1, e2⟩

/-- markers and aligns go through unchanged; nothing else becomes one -/
theorem Blocks.noAlign {G G' : List Item} (h : Blocks G G') (hG : NoAlign G) : NoAlign G' := by
  induction h with
  | nil => exact noAlign_nil
  | @cons s repl rest out hb _ ih =>
    apply NoAlign.append _ (ih (fun y hy => hG y (List.mem_cons_of_mem _ hy)))
    intro y hy
    have hna := hG s List.mem_cons_self
    by_cases hl : ∃ l n, s = .label l n
    · obtain ⟨l, n, rfl⟩ := hl
      rw [hb.label l n rfl] at hy
      simp only [List.mem_singleton] at hy
      subst hy
      intro l a e; cases e
    · exact (hb.other (fun l n e => hl ⟨l, n, e⟩) hna y hy).2

theorem Blocks.all_other {a b : List Item} (h : Blocks a b)
    (ha : ∀ y ∈ a, (∀ l n, y ≠ .label l n) ∧ (∀ l al, y ≠ .align l al)) :
    ∀ y ∈ b, (∀ l n, y ≠ .label l n) ∧ (∀ l al, y ≠ .align l al) := by
  induction h with
  | nil => intro y hy; simp at hy
  | @cons s' repl' rest' out' hb _ ih =>
    intro y hy
    rcases List.mem_append.mp hy with hy | hy
    · obtain ⟨e1, e2⟩ := ha s' List.mem_cons_self
      exact hb.other e1 e2 y hy
    · exact ih (fun z hz => ha z (List.mem_cons_of_mem _ hz)) y hy

theorem Blocks.refs_back {a b : List Item} (h : Blocks a b) :
    ∀ y ∈ b, ∀ n, Item.refs y n → ∃ s ∈ a, Item.refs s n := by
  induction h with
  | nil => intro y hy; simp at hy
  | @cons s' repl' rest' out' hb _ ih =>
    intro y hy n hn
    rcases List.mem_append.mp hy with hy | hy
    · exact ⟨s', List.mem_cons_self, hb.refs y hy n hn⟩
    · obtain ⟨s, hs, hr⟩ := ih y hy n hn
      exact ⟨s, List.mem_cons_of_mem _ hs, hr⟩

theorem Blk.trans {s : Item} {repl out : List Item} (h1 : Blk s repl) (h2 : Blocks repl out) : Blk s out := by
  have single : ∀ x, repl = [x] → (∀ r, Blk x r → r = [x]) → out = [x] := by
    intro x e hx
    subst e
    cases h2 with
    | cons hb hr =>
      cases hr
      rw [hx _ hb]; rfl
  refine ⟨?_, ?_, ?_, ?_, ?_⟩
  · intro l n e
    exact single s (h1.label l n e) (fun r hr => hr.label l n e)
  · intro l a e
    exact single s (h1.align l a e) (fun r hr => hr.align l a e)
  · intro hnl hna
    exact h2.all_other (h1.other hnl hna)
  · have := h2.sizeSum_le
    have := h1.size
    omega
  · intro y hy n hn
    obtain ⟨z, hz, hr⟩ := h2.refs_back y hy n hn
    exact h1.refs z hz n hr

theorem Blocks.trans {a b : List Item} (h1 : Blocks a b) : ∀ {c : List Item}, Blocks b c → Blocks a c := by
  induction h1 with
  | nil => intro c h; cases h; exact .nil
  | cons hb _ ih =>
    intro c h
    obtain ⟨o1, o2, rfl, e1, e2⟩ := Blocks.append_inv h
    exact .cons (hb.trans e1) (ih e2)

/-- `Blocks` read at one item of the output -/
theorem Blocks.split {G G' : List Item} (h : Blocks G G') : ∀ {P1 : List Item} {x : Item} {S1 : List Item},
    G' = P1 ++ x :: S1 →
    ∃ A s B P' rP rS S', G = A ++ s :: B ∧ P1 = P' ++ rP ∧ S1 = rS ++ S' ∧ Blocks A P' ∧ Blocks B S' ∧
      Blk s (rP ++ x :: rS) := by
  induction h with
  | nil => intro P1 x S1 e; simp at e
  | @cons s repl rest out hb hr ih =>
    intro P1 x S1 e
    rcases List.append_eq_append_iff.mp e with ⟨c, hc1, hc2⟩ | ⟨c, hc1, hc2⟩
    · -- P1 = repl ++ c, out = c ++ x :: S1
      obtain ⟨A, s', B, P', rP, rS, S', e1, e2, e3, b1, b2, b3⟩ := ih hc2
      refine ⟨s :: A, s', B, repl ++ P', rP, rS, S', by rw [e1]; rfl, by rw [hc1, e2, List.append_assoc], e3,
        .cons hb b1, b2, b3⟩
    · -- repl = P1 ++ c, x :: S1 = c ++ out
      cases c with
      | nil =>
        simp only [List.nil_append] at hc2
        simp only [List.append_nil] at hc1
        obtain ⟨A, s', B, P', rP, rS, S', e1, e2, e3, b1, b2, b3⟩ := ih (P1 := []) hc2.symm
        refine ⟨s :: A, s', B, repl ++ P', rP, rS, S', by rw [e1]; rfl, ?_, e3, .cons hb b1, b2, b3⟩
        have : P' = [] ∧ rP = [] := by
          cases P' <;> cases rP <;> simp at e2 ⊢
        rw [this.1, this.2, hc1]; simp
      | cons c0 c =>
        simp only [List.cons_append, List.cons.injEq] at hc2
        obtain ⟨rfl, rfl⟩ := hc2
        exact ⟨[], s, rest, [], P1, c, out, rfl, by simp, rfl, .nil, hr, by rw [← hc1]; exact hb⟩

/-! ### the passes -/

theorem walk_blocks {f : Item → Int → Dict → Except Err (List Item × Int)}
    (G : List Item) (hf : ∀ it ∈ G, ∀ p L repl n, (∀ line nm, it ≠ .label line nm) → f it p L = .ok (repl, n) → Blk it repl) :
    ∀ (p : Int) (L : Dict) (G' : List Item) (L' : Dict),
    walk f G p L = .ok (G', L') → Blocks G G' := by
  induction G with
  | nil =>
    intro p L G' L' h
    simp only [walk, Except.ok.injEq, Prod.mk.injEq] at h
    rw [← h.1]; exact .nil
  | cons it rest ih =>
    intro p L G' L' h
    have ih := ih (fun x hx => hf x (List.mem_cons_of_mem _ hx))
    have hf0 := hf it List.mem_cons_self
    by_cases hlab : ∃ line nm, it = .label line nm
    · obtain ⟨line, nm, rfl⟩ := hlab
      simp only [walk, bind, Except.bind] at h
      cases hr : walk f rest p L with
      | error e => simp [hr] at h
      | ok r =>
        obtain ⟨o, l2⟩ := r
        simp only [hr, pure, Except.pure, Except.ok.injEq, Prod.mk.injEq] at h
        rw [← h.1]
        exact Blocks.cons (Blk.same _) (ih p L o l2 hr)
    · have hnl : ∀ l n, it ≠ .label l n := fun l n e => hlab ⟨l, n, e⟩
      rw [walk_cons_of_not_label hnl] at h
      simp only [bind, Except.bind] at h
      cases hb : f it p L with
      | error e => simp [hb] at h
      | ok rn =>
        obtain ⟨repl, n⟩ := rn
        simp only [hb] at h
        cases hr : walk f rest (p + sizeSum repl) (L.shiftAbove p n) with
        | error e => simp [hr] at h
        | ok r =>
          obtain ⟨o, l2⟩ := r
          simp only [hr, pure, Except.pure, Except.ok.injEq, Prod.mk.injEq] at h
          rw [← h.1]
          exact Blocks.cons (hf0 p L repl n hnl hb) (ih _ _ o l2 hr)

theorem keepItem_blk {it : Item} {repl : List Item} {n : Int} (h : keepItem it = .ok (repl, n)) : Blk it repl := by
  rw [(keepItem_ok h).1]; exact Blk.same it

theorem compressedForm_ref {c : String} {ins cf : Instr} (h : compressedForm c ins = some cf) {imm : Imm} {n : String}
    (hi : cf.imm? = some imm) (hr : refOf imm = some n) : ins.imm? = some imm := by
  unfold compressedForm at h
  split at h
  all_goals (try (simp at h; done))
  all_goals (repeat' split at h)
  all_goals (try (simp at h; done))
  all_goals (simp only [Option.some.injEq] at h; subst h)
  all_goals (simp only [Instr.imm?, Option.some.injEq, reduceCtorEq] at hi ⊢)
  all_goals (first
    | exact hi
    | (subst hi; unfold shamtImm at hr; split at hr <;> simp [refOf] at hr))

theorem compressBody_blk (H : Hooks) (constants : Dict) (it : Item) (p : Int) (L : Dict) (repl : List Item) (n : Int)
    (hnl : ∀ line nm, it ≠ .label line nm) (h : compressBody H constants it p L = .ok (repl, n)) : Blk it repl := by
  by_cases hi : ∃ line ins, it = .instr line ins
  · obtain ⟨line, ins, rfl⟩ := hi
    rcases compressBody_instr_out h with e | ⟨c, cf, hcf, e⟩
    · simp only at e; rw [e]; exact Blk.same _
    · simp only at e; rw [e]
      refine ⟨(fun l n e => by cases e), (fun l a e => by cases e), ?_, ?_, ?_⟩
      · intro _ _ y hy
        simp only [List.mem_singleton] at hy; subst hy
        exact ⟨(fun l n e => by cases e), (fun l a e => by cases e)⟩
      · obtain ⟨h0, h1⟩ := compressedForm_sizes hcf
        simp [sizeSum, instr_sizeD, h0, h1]
      · intro y hy m hm
        simp only [List.mem_singleton] at hy; subst hy
        rcases hm with ⟨line', ins', imm, e, himm, hr⟩ | ⟨line', name, args, k, e, _⟩
        · cases e
          exact Or.inl ⟨line, ins, imm, rfl, compressedForm_ref hcf himm hr, hr⟩
        · cases e
  · have hk : keepItem it = .ok (repl, n) := by
      cases it <;> first | (simpa [compressBody] using h) | exact absurd ⟨_, _, rfl⟩ hi
    exact keepItem_blk hk

theorem refOf_cases {x : Imm} {n : String} (h : refOf x = some n) :
    x = .offset n ∨ x = .hi (.offset n) ∨ x = .lo (.offset n) := by
  unfold refOf at h
  split at h <;> simp at h <;> subst h <;> simp

/-- an immediate that refers to a label is not label-free -/
theorem not_labelfree_ref (H : Hooks) (constants : Dict) {x : Imm} {n : String} (h : refOf x = some n) :
    ¬ ImmLabelFree H constants x := by
  intro hf
  have hget : ∃ u, chainGet constants [(n, 0)] n = some u := by
    unfold chainGet
    cases constants.get n with
    | some v => exact ⟨v, rfl⟩
    | none => exact ⟨0, by simp [Dict.get, List.lookup]⟩
  obtain ⟨u, hu⟩ := hget
  rcases refOf_cases h with rfl | rfl | rfl
  · have e := hf [(n, 0)] [(n, 0)] ⟨"", 0, ""⟩ 0 1
    simp only [Imm.eval, hu, Except.ok.injEq] at e; omega
  · have e := hf [(n, 0)] [(n, 0)] ⟨"", 0, ""⟩ 0 4096
    simp only [Imm.eval, hu, bind, Except.bind, pure, Except.pure, Except.ok.injEq, relocateHi_eq] at e; omega
  · have e := hf [(n, 0)] [(n, 0)] ⟨"", 0, ""⟩ 0 1
    simp only [Imm.eval, hu, bind, Except.bind, pure, Except.pure, Except.ok.injEq, relocateLo_eq] at e; omega

theorem pseudoBody_blk (H : Hooks) (constants : Dict) (hoff : OffsetHook H) (it : Item) (p : Int) (L : Dict)
    (repl : List Item) (n : Int) (hnl : ∀ line nm, it ≠ .label line nm) (hsz : 0 ≤ it.sizeD)
    (hli : ∀ line name args, it = .pseudo line name args → pseudoKind name = some .li →
      ∀ imm, H.parseImm args.tail line = .ok imm → ImmLabelFree H constants imm)
    (h : pseudoBody H constants it p L = .ok (repl, n)) : Blk it repl := by
  by_cases hp : ∃ line name args, it = .pseudo line name args
  · obtain ⟨line, name, args, rfl⟩ := hp
    obtain ⟨h1, h2, h3, h4, _⟩ := (pseudoBody_ok H constants).ok _ p L repl n hnl hsz h
    simp only [pseudoBody, bind, Except.bind] at h
    cases he : expandPseudo H (chainGet constants L) line name args p with
    | error e => simp [he] at h
    | ok r =>
      obtain ⟨instrs, short⟩ := r
      simp only [he, pure, Except.pure, Except.ok.injEq, Prod.mk.injEq] at h
      obtain ⟨rfl, _⟩ := h
      refine ⟨(fun l n e => by cases e), (fun l a e => by cases e), ?_, by omega, ?_⟩
      · intro _ _ y hy
        obtain ⟨i, _, rfl⟩ := List.mem_map.mp hy
        exact ⟨(fun l n e => by cases e), (fun l a e => by cases e)⟩
      · intro y hy m hm
        obtain ⟨i, hi, rfl⟩ := List.mem_map.mp hy
        rcases hm with ⟨line', ins', x, e, himm, hr⟩ | ⟨line', name', args', k, e, _⟩
        swap
        · cases e
        cases e
        unfold expandPseudo at he
        cases hk : pseudoKind name with
        | none => simp [hk] at he
        | some k =>
          simp only [hk] at he
          obtain ⟨imm, hparse, hdoc⟩ := expand_matches_doc H _ line p he
          rcases expansion_imms hdoc i hi x himm with rfl | rfl | rfl | ⟨htok, hx⟩
          · simp [refOf] at hr
          · simp [refOf] at hr
          · simp [refOf] at hr
          · cases ht : immTokens k args with
            | none => simp [ht] at htok
            | some toks =>
              have hpi := hparse toks ht
              by_cases hkli : k = .li
              · subst hkli
                exfalso
                have htail : toks = args.tail := by
                  cases args with
                  | nil => simp [immTokens] at ht
                  | cons rd t => simp only [immTokens, Option.some.injEq] at ht; rw [← ht]; rfl
                have hfree := hli line name args rfl hk imm (by rw [← htail]; exact hpi)
                have hrefimm : ∃ m', refOf imm = some m' := by
                  rcases hx with rfl | rfl | rfl
                  · exact ⟨m, hr⟩
                  · cases imm <;> simp [refOf] at hr ⊢
                  · cases imm <;> simp [refOf] at hr ⊢
                obtain ⟨m', hm'⟩ := hrefimm
                exact not_labelfree_ref H constants hm' hfree
              · -- a transfer kind: the tokens are `%offset r`
                have hshape : ∃ r, toks = ["%offset", r] := by
                  unfold immTokens at ht
                  split at ht <;> first | (simp only [Option.some.injEq] at ht; exact ⟨_, ht.symm⟩) | (exact absurd rfl hkli) | simp at ht
                obtain ⟨r, rfl⟩ := hshape
                have himmr := hoff r line imm hpi
                subst himmr
                have : m = r := by
                  rcases hx with rfl | rfl | rfl <;> simpa [refOf] using hr.symm
                subst this
                exact Or.inr ⟨line, name, args, k, rfl, hk, hkli, ht⟩
  · have hnp : ∀ l n a, it ≠ .pseudo l n a := fun l n a e => hp ⟨l, n, a, e⟩
    obtain ⟨rfl, _⟩ := keep_pseudoBody hnp h
    exact Blk.same it

theorem aliasItem_blk (constants : Dict) (s : Item) : Blk s [aliasItem constants s] := by
  cases s with
  | instr line ins =>
    refine ⟨(fun l n e => by cases e), (fun l a e => by cases e), ?_, ?_, ?_⟩
    · intro _ _ y hy
      simp only [List.mem_singleton] at hy; subst hy
      exact ⟨(fun l n e => by cases e), (fun l a e => by cases e)⟩
    · have := aliasItem_sizeD constants (.instr line ins)
      simp only [aliasItem] at this ⊢
      simp [sizeSum, this]
    · intro y hy m hm
      simp only [List.mem_singleton] at hy; subst hy
      rcases hm with ⟨line', ins', x, e, himm, hr⟩ | ⟨line', name', args', k, e, _⟩
      · simp only [aliasItem, Item.instr.injEq] at e
        obtain ⟨rfl, rfl⟩ := e
        rw [mapRegs_imm] at himm
        exact Or.inl ⟨line, ins, x, rfl, himm, hr⟩
      · simp [aliasItem] at e
  | _ => exact Blk.same _

theorem aliases_blocks (constants : Dict) : ∀ G : List Item, Blocks G (resolveRegisterAliases G constants)
  | [] => .nil
  | s :: G => by
    rw [aliases_cons]
    exact Blocks.cons (aliasItem_blk constants s) (aliases_blocks constants G)

theorem resolveConstants_blocks (H : Hooks) (items : List Item) : ∀ (c : Dict) (out : List Item) (c' : Dict),
    resolveConstants H items c = .ok (out, c') → Blocks items out := by
  induction items with
  | nil =>
    intro c out c' h
    simp only [resolveConstants, Except.ok.injEq, Prod.mk.injEq] at h
    rw [← h.1]; exact .nil
  | cons it rest ih =>
    intro c out c' h
    cases it with
    | constant line name expr =>
      simp only [resolveConstants] at h
      cases expr with
      | arith e =>
        simp only at h
        split at h
        · simp at h
        · split at h
          · simp at h
          · simp only [bind, Except.bind] at h
            split at h
            · simp at h
            · have hb : Blk (.constant line name (.arith e)) [] :=
                ⟨(fun l n e => by cases e), (fun l a e => by cases e), (fun _ _ y hy => by simp at hy),
                  (by simp [sizeSum, sizeD_constant]), (fun y hy => by simp at hy)⟩
              exact Blocks.cons hb (ih _ _ _ h)
      | _ => simp at h
    | _ =>
      simp only [resolveConstants, bind, Except.bind] at h
      cases hr : resolveConstants H rest c with
      | error e => simp [hr] at h
      | ok r =>
        obtain ⟨o, c2⟩ := r
        simp only [hr, pure, Except.pure, Except.ok.injEq, Prod.mk.injEq] at h
        rw [← h.1]
        exact Blocks.cons (Blk.same _) (ih _ _ _ hr)

end BB.Lemmas
