/-
  BB.Lemmas.SuccBodies — when the loop body of transform_compressible succeeds on one item.

  `InstrOK`              : a 32-bit instruction on which the predicates of the criteria table cannot fail to
                           evaluate: its class is the one INSTRUCTIONS lists for its name, every register
                           operand is a register, its immediate evaluates at every table defining `K`
  `compressBody_instr_ok`: then `compressBody` succeeds at every position and every such table
  `firstMatch_cform_none`: on a compressed form no criterion matches (and none fails to evaluate)
  `regs_valid_of_encode` : an accepted well-kinded instruction has valid register operands
-/
import BB.Lemmas.SuccWalk
set_option linter.unusedSimpArgs false
set_option linter.unusedVariables false
set_option linter.unusedTactic false
set_option linter.unreachableTactic false
namespace BB.Lemmas
open BB BB.Spec

def InstrOK (H : Hooks) (constants : Dict) (K : List String) (line : Line) (ins : Instr) : Prop :=
  ins.wellKinded = true ∧ (∀ f x, ins.fld f = some x → (lookupRegister x).isSome = true) ∧
  (∀ imm, ins.imm? = some imm → EvalsOn H constants K line imm)

theorem keepItem_instr (line : Line) (ins : Instr) : ∃ r, keepItem (.instr line ins) = .ok r := by
  exact ⟨([.instr line ins], 0), by simp [keepItem, Item.sizeE, Item.size?, bind, Except.bind, pure, Except.pure]⟩

theorem compressBody_instr_ok {H : Hooks} {constants : Dict} {K : List String} {line : Line} {ins : Instr}
    (hok : InstrOK H constants K line ins) (p : Int) (L : Dict) (hL : Defined K L) :
    ∃ r, compressBody H constants (.instr line ins) p L = .ok r := by
  obtain ⟨hwk, hregs, himm⟩ := hok
  simp only [compressBody]
  by_cases haj : ins.isAuipcJump = true
  · rw [if_pos haj]; exact keepItem_instr line ins
  · rw [if_neg haj]
    have hops : OperandsOK H (chainGet constants L) line p ins :=
      ⟨hregs, fun imm hi => himm imm hi L p hL⟩
    have hfm := firstMatch_eq_N hwk hops
    cases hm : firstMatchN ins.name (regsOf ins) (immValOf H (chainGet constants L) line p ins) criteria with
    | none =>
      rw [hfm, hm]; exact keepItem_instr line ins
    | some c =>
      rw [hm] at hfm
      obtain ⟨preds, hmem, hall⟩ := firstMatch_some hfm
      have hp := (allPreds_true_iff H _ line ins p preds).mp hall
      obtain ⟨cf, hcf⟩ := matched_has_form hmem hwk hp
      rw [hfm]
      simp only [hcf]
      exact ⟨_, rfl⟩

/-- the names the compressed forms carry -/
theorem compressedForm_name {c : String} {ins cf : Instr} (h : compressedForm c ins = some cf) :
    cf.name ∈ criteria.map Prod.fst := by
  unfold compressedForm at h
  split at h
  all_goals (try (simp at h; done))
  all_goals (repeat' split at h)
  all_goals (first
    | (simp at h; done)
    | (simp only [Option.some.injEq] at h; subst h; simp only [Instr.name]; decide)
    | (simp only [Option.some.injEq] at h; subst h; simp only [Instr.name]; simp_all [criteria]; done)
    | (simp only [Option.some.injEq] at h; subst h; simp only [Instr.name]
       rename_i hc; rcases hc with rfl | rfl <;> decide)
    | (simp only [Option.some.injEq] at h; subst h; simp only [Instr.name]
       rename_i hc; rcases hc with rfl | rfl | rfl | rfl <;> decide)
    | (simp only [Option.some.injEq] at h; subst h; simp only [Instr.name]
       rename_i hc; subst hc; decide))

/-- an instruction whose name is the name of a criterion (c.…) is matched by none of them, and no
    predicate beyond `NameEquals` is consulted -/
theorem firstMatch_cname_none {H : Hooks} {env : String → Option Int} {line : Line} {ins : Instr} {p : Int}
    (hn : ins.name ∈ criteria.map Prod.fst) : firstMatch H env line ins p criteria = .ok none := by
  simp only [criteria, List.map_cons, List.map_nil, List.mem_cons, List.mem_nil_iff, or_false] at hn
  rcases hn with hn | hn | hn | hn | hn | hn | hn | hn | hn | hn | hn | hn | hn | hn | hn | hn | hn | hn | hn | hn |
    hn | hn | hn | hn | hn | hn | hn | hn | hn
  all_goals (simp [firstMatch, allPreds, Pred.eval, criteria, hn, bind, Except.bind, pure, Except.pure])

theorem firstMatch_cform_none {H : Hooks} {env : String → Option Int} {line : Line} {c : String}
    {ins cf : Instr} {p : Int} (h : compressedForm c ins = some cf) :
    firstMatch H env line cf p criteria = .ok none :=
  firstMatch_cname_none (compressedForm_name h)

/-- `compressBody` on an instruction no criterion can match -/
theorem compressBody_cname_ok {H : Hooks} {constants : Dict} {line : Line} {ins : Instr}
    (hn : ins.name ∈ criteria.map Prod.fst) (p : Int) (L : Dict) :
    compressBody H constants (.instr line ins) p L = keepItem (.instr line ins) := by
  simp only [compressBody]
  by_cases haj : ins.isAuipcJump = true
  · rw [if_pos haj]
  · rw [if_neg haj, firstMatch_cname_none hn]

theorem wellKinded_mapRegs (f : RegOp → RegOp) (ins : Instr) : (ins.mapRegs f).wellKinded = ins.wellKinded := by
  have hn : (ins.mapRegs f).name = ins.name := by cases ins <;> rfl
  unfold Instr.wellKinded
  rw [hn]
  cases instrTable.lookup ins.name with
  | none => rfl
  | some k => cases k <;> cases ins <;> rfl

/-- the mnemonics the criteria table selects -/
def baseNames : List String :=
  ["addi", "lw", "sw", "jal", "lui", "srli", "srai", "andi", "sub", "xor", "or", "and", "beq", "bne", "slli",
   "jalr", "add", "ebreak"]

/-- on any other mnemonic no criterion matches and nothing but `NameEquals` is evaluated -/
theorem firstMatch_other_none {H : Hooks} {env : String → Option Int} {line : Line} {ins : Instr} {p : Int}
    (hn : ins.name ∉ baseNames) : firstMatch H env line ins p criteria = .ok none := by
  simp only [baseNames, List.mem_cons, List.mem_nil_iff, or_false, not_or] at hn
  obtain ⟨h1, h2, h3, h4, h5, h6, h7, h8, h9, h10, h11, h12, h13, h14, h15, h16, h17, h18⟩ := hn
  simp [firstMatch, allPreds, Pred.eval, criteria, bind, Except.bind, pure, Except.pure, *]

theorem compressBody_other_ok {H : Hooks} {constants : Dict} {line : Line} {ins : Instr}
    (hn : ins.name ∉ baseNames) (p : Int) (L : Dict) :
    compressBody H constants (.instr line ins) p L = keepItem (.instr line ins) := by
  simp only [compressBody]
  by_cases haj : ins.isAuipcJump = true
  · rw [if_pos haj]
  · rw [if_neg haj, firstMatch_other_none hn]

theorem denoteReg_isSome {x : RegOp} (h : (BB.Props.C01.denoteReg x).isSome = true) :
    (lookupRegister x).isSome = true := by
  unfold BB.Props.C01.denoteReg at h
  cases hl : lookupRegister x with
  | none => simp [hl] at h
  | some n => rfl

/-- register operands of an accepted, resolved instruction of one of the base mnemonics are registers -/
theorem regs_valid_of_encode {rins : Instr} {args : List Arg} {w : Nat} (hwk : rins.wellKinded = true)
    (hb : rins.name ∈ baseNames) (ha : rins.args = some args) (he : encode rins.name args = .ok w) :
    ∀ f x, rins.fld f = some x → (lookupRegister x).isSome = true := by
  obtain ⟨k, hk, hs, _⟩ := wellKinded_row hwk
  obtain ⟨ops, hd, _⟩ := BB.Props.C01.encode32_sound rins.name k hk hs args w he
  have hkm : kindMatches k rins = true := by
    unfold Instr.wellKinded at hwk; rw [hk] at hwk; exact hwk
  intro f x hf
  apply denoteReg_isSome
  cases rins with
  | r n rd rs1 rs2 =>
    cases k <;> simp only [kindMatches, Bool.false_eq_true] at hkm
    simp only [Instr.args, Option.some.injEq] at ha
    subst ha
    simp only [BB.Props.C01.denote32, bind, Option.bind, pure] at hd
    cases h1 : BB.Props.C01.denoteReg rd <;> cases h2 : BB.Props.C01.denoteReg rs1 <;>
      cases h3 : BB.Props.C01.denoteReg rs2 <;> simp [h1, h2, h3] at hd
    cases f <;> simp only [Instr.fld, Option.some.injEq] at hf <;> subst hf <;> simp [h1, h2, h3]
  | i n rd rs1 imm aj =>
    cases imm <;> simp only [Instr.args, Option.some.injEq, reduceCtorEq] at ha
    subst ha
    cases k <;> simp only [kindMatches, Bool.false_eq_true] at hkm
    all_goals (
      simp only [BB.Props.C01.denote32, bind, Option.bind, pure] at hd
      cases h1 : BB.Props.C01.denoteReg rd <;> cases h2 : BB.Props.C01.denoteReg rs1 <;> simp [h1, h2] at hd
      cases f <;> simp only [Instr.fld, Option.some.injEq, reduceCtorEq] at hf <;> subst hf <;> simp [h1, h2])
  | s n rs1 rs2 imm =>
    cases imm <;> simp only [Instr.args, Option.some.injEq, reduceCtorEq] at ha
    subst ha
    cases k <;> simp only [kindMatches, Bool.false_eq_true] at hkm
    simp only [BB.Props.C01.denote32, bind, Option.bind, pure] at hd
    cases h1 : BB.Props.C01.denoteReg rs1 <;> cases h2 : BB.Props.C01.denoteReg rs2 <;> simp [h1, h2] at hd
    cases f <;> simp only [Instr.fld, Option.some.injEq, reduceCtorEq] at hf <;> subst hf <;> simp [h1, h2]
  | b n rs1 rs2 imm =>
    cases imm <;> simp only [Instr.args, Option.some.injEq, reduceCtorEq] at ha
    subst ha
    cases k <;> simp only [kindMatches, Bool.false_eq_true] at hkm
    simp only [BB.Props.C01.denote32, bind, Option.bind, pure] at hd
    cases h1 : BB.Props.C01.denoteReg rs1 <;> cases h2 : BB.Props.C01.denoteReg rs2 <;> simp [h1, h2] at hd
    cases f <;> simp only [Instr.fld, Option.some.injEq, reduceCtorEq] at hf <;> subst hf <;> simp [h1, h2]
  | u n rd imm =>
    cases imm <;> simp only [Instr.args, Option.some.injEq, reduceCtorEq] at ha
    subst ha
    cases k <;> simp only [kindMatches, Bool.false_eq_true] at hkm
    simp only [BB.Props.C01.denote32, bind, Option.bind, pure] at hd
    cases h1 : BB.Props.C01.denoteReg rd <;> simp [h1] at hd
    cases f <;> simp only [Instr.fld, Option.some.injEq, reduceCtorEq] at hf <;> subst hf <;> simp [h1]
  | j n rd imm =>
    cases imm <;> simp only [Instr.args, Option.some.injEq, reduceCtorEq] at ha
    subst ha
    cases k <;> simp only [kindMatches, Bool.false_eq_true] at hkm
    simp only [BB.Props.C01.denote32, bind, Option.bind, pure] at hd
    cases h1 : BB.Props.C01.denoteReg rd <;> simp [h1] at hd
    cases f <;> simp only [Instr.fld, Option.some.injEq, reduceCtorEq] at hf <;> subst hf <;> simp [h1]
  | ie n => cases f <;> simp [Instr.fld] at hf
  | fence n a b => cases f <;> simp [Instr.fld] at hf
  | a n rd rs1 rs2 aq rl =>
    exfalso
    cases k <;> simp only [kindMatches, Bool.false_eq_true] at hkm
    simp only [Instr.name] at hk hb
    simp only [baseNames, List.mem_cons, List.mem_nil_iff, or_false] at hb
    rcases hb with rfl | rfl | rfl | rfl | rfl | rfl | rfl | rfl | rfl | rfl | rfl | rfl | rfl | rfl | rfl | rfl | rfl | rfl <;>
      simp [instrTable, List.lookup] at hk
  | al n rd rs1 aq rl =>
    exfalso
    cases k <;> simp only [kindMatches, Bool.false_eq_true] at hkm
    simp only [Instr.name] at hk hb
    simp only [baseNames, List.mem_cons, List.mem_nil_iff, or_false] at hb
    rcases hb with rfl | rfl | rfl | rfl | rfl | rfl | rfl | rfl | rfl | rfl | rfl | rfl | rfl | rfl | rfl | rfl | rfl | rfl <;>
      simp [instrTable, List.lookup] at hk
  | _ => cases k <;> simp [kindMatches] at hkm

end BB.Lemmas
