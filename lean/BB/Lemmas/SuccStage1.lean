/-
  BB.Lemmas.SuccStage1 — the -c run reaches the end of resolve_aligns when the plain run succeeds
  (`run1_layout`): what the plain run tells about every source item (it went through, its registers
  are registers, its immediate evaluated), and from that the stage predicate `S2` of every item.
-/
import BB.Lemmas.SuccGood
import BB.Props.C12TwoRun
set_option linter.unusedSimpArgs false
set_option linter.unusedVariables false
namespace BB.Lemmas
open BB BB.Spec
open BB.Props.C03 (Land Finish)
open BB.Props.C04 (aliased_fixed mapRegs_idem')
open BB.Props.C05 (immTokens documented expand_matches_doc expand_li expand_call expand_tail)

/-! ### constants never shadow register names -/

theorem resolveConstants_noreg (H : Hooks) (items : List Item) : ∀ (c : Dict) (out : List Item) (c' : Dict),
    resolveConstants H items c = .ok (out, c') →
    (∀ name, (registersStrKeys.lookup name).isSome = true → c.get name = none) →
    ∀ name, (registersStrKeys.lookup name).isSome = true → c'.get name = none := by
  induction items with
  | nil =>
    intro c out c' h hc
    simp only [resolveConstants, Except.ok.injEq, Prod.mk.injEq] at h
    rw [← h.2]; exact hc
  | cons it rest ih =>
    intro c out c' h hc
    cases it with
    | constant line name expr =>
      simp only [resolveConstants] at h
      cases expr with
      | arith e =>
        simp only at h
        split at h
        · simp at h
        · rename_i hreg
          split at h
          · simp at h
          · simp only [bind, Except.bind] at h
            split at h
            · simp at h
            · refine ih _ _ _ h ?_
              intro k hk
              rw [Dict.get_set]
              by_cases e : k = name
              · subst e; exact absurd hk hreg
              · rw [if_neg e]; exact hc k hk
      | _ => simp at h
    | _ =>
      simp only [resolveConstants, bind, Except.bind] at h
      cases hr : resolveConstants H rest c with
      | error e => simp [hr] at h
      | ok r =>
        obtain ⟨o, c2⟩ := r
        simp only [hr, pure, Except.pure, Except.ok.injEq, Prod.mk.injEq] at h
        rw [← h.2]
        exact ih _ _ _ hr hc

/-- x0, x1, x6 stay themselves -/
theorem alias_fixed_regs {H : Hooks} {items items1 : List Item} {constants : Dict}
    (h : resolveConstants H items [] = .ok (items1, constants)) {s : String}
    (hs : s = "x0" ∨ s = "x1" ∨ s = "x6") :
    (lookupRegister (aliasReg constants (.str s))).isSome = true := by
  have hn := resolveConstants_noreg H items [] items1 constants h (fun _ _ => rfl) s
    (by rcases hs with rfl | rfl | rfl <;> decide)
  simp only [aliasReg, hn]
  rcases hs with rfl | rfl | rfl <;> decide

/-! ### what the plain run tells -/

theorem defined_nil (L : Dict) : Defined [] L := fun _ h => by simp at h

/-- an item that is no pseudo-instruction and no `align` is in the list held after resolve_aligns -/
theorem run0_keeps {H : Hooks} {constants : Dict} {a1 a4 a7 : List Item} {l1 l4 l7 : Dict}
    (h4 : walk (pseudoBody H constants) a1 0 l1 = .ok (a4, l4))
    (h7 : walk alignBody (resolveRegisterAliases a4 constants) 0 l4 = .ok (a7, l7))
    {x : Item} (hx : x ∈ a1) (hnl : ∀ l n, x ≠ .label l n) (hnp : ∀ l n a, x ≠ .pseudo l n a)
    (hna : ∀ l a, x ≠ .align l a) : aliasItem constants x ∈ a7 := by
  obtain ⟨q, Lq, repl, n, _, hb, hr⟩ := walk_forward [] a1 0 l1 a4 l4 (defined_nil _) h4 x hx hnl
  have hx4 : x ∈ a4 := hr x (pseudoBody_keeps hnp hb)
  have hx5 := mem_aliases_of_mem (constants := constants) hx4
  have hnl5 : ∀ l n, aliasItem constants x ≠ .label l n := by
    cases x <;> first | exact absurd rfl (hnl _ _) | (intro l n e; cases e)
  have hna5 : ∀ l a, aliasItem constants x ≠ .align l a := by
    cases x <;> first | exact absurd rfl (hna _ _) | (intro l n e; cases e)
  obtain ⟨q', Lq', repl', n', _, hb', hr'⟩ := walk_forward [] _ 0 l4 a7 l7 (defined_nil _) h7 _ hx5 hnl5
  exact hr' _ (alignBody_keeps hna5 hb')

/-- a pseudo-instruction was expanded somewhere, and its (aliased) instructions are in that list -/
theorem run0_expands {H : Hooks} {constants : Dict} {a1 a4 a7 : List Item} {l1 l4 l7 : Dict}
    (h4 : walk (pseudoBody H constants) a1 0 l1 = .ok (a4, l4))
    (h7 : walk alignBody (resolveRegisterAliases a4 constants) 0 l4 = .ok (a7, l7))
    {line : Line} {name : String} {args : List String} (hx : Item.pseudo line name args ∈ a1) :
    ∃ q Lq instrs short, expandPseudo H (chainGet constants Lq) line name args q = .ok (instrs, short) ∧
      ∀ i ∈ instrs, Item.instr line (i.mapRegs (aliasReg constants)) ∈ a7 := by
  obtain ⟨q, Lq, repl, n, _, hb, hr⟩ := walk_forward [] a1 0 l1 a4 l4 (defined_nil _) h4 _ hx (by intro l n e; cases e)
  simp only [pseudoBody, bind, Except.bind] at hb
  cases he : expandPseudo H (chainGet constants Lq) line name args q with
  | error e => simp [he] at hb
  | ok r =>
    obtain ⟨instrs, short⟩ := r
    simp only [he, pure, Except.pure, Except.ok.injEq, Prod.mk.injEq] at hb
    obtain ⟨rfl, _⟩ := hb
    refine ⟨q, Lq, instrs, short, he, ?_⟩
    intro i hi
    have hx4 : Item.instr line i ∈ a4 := hr _ (List.mem_map.mpr ⟨i, hi, rfl⟩)
    have hx5 := mem_aliases_of_mem (constants := constants) hx4
    obtain ⟨q', Lq', repl', n', _, hb', hr'⟩ := walk_forward [] _ 0 l4 a7 l7 (defined_nil _) h7 _ hx5 (by intro l n e; cases e)
    exact hr' _ (alignBody_keeps (by intro l a e; cases e) hb')

theorem setImm_fld (ins : Instr) (v : Imm) (f : Fld) : (ins.setImm v).fld f = ins.fld f := by
  cases ins <;> cases f <;> rfl

theorem setImm_wellKinded (ins : Instr) (v : Imm) : (ins.setImm v).wellKinded = ins.wellKinded := by
  have hn : (ins.setImm v).name = ins.name := by cases ins <;> rfl
  unfold Instr.wellKinded
  rw [hn]
  cases instrTable.lookup ins.name with
  | none => rfl
  | some k => cases k <;> cases ins <;> rfl

/-- an instruction of the final list of a successful run: its immediate evaluated, and (well-kinded, one
    of the base mnemonics) its register operands are registers -/
theorem run0_instr_facts {H : Hooks} {constants L : Dict} {p : Int} {items out : List Item}
    (h : Land H constants L p items out) {line : Line} {ins : Instr} (hm : Item.instr line ins ∈ items) :
    (∀ imm, ins.imm? = some imm → ∃ q v, imm.eval H (chainGet constants L) line q = .ok v) ∧
    (ins.wellKinded = true → ins.name ∈ baseNames → ∀ f x, ins.fld f = some x → (lookupRegister x).isSome = true) := by
  obtain ⟨q, rins, bs, hres, henc⟩ := land_instr_accepts h hm
  refine ⟨?_, ?_⟩
  · intro imm hi
    simp only [resolveWith, hi, Option.map_eq_some_iff] at hres
    obtain ⟨v, hv, _⟩ := hres
    exact ⟨q, v, toOption_eq_some.mp hv⟩
  · intro hwk hb f x hf
    obtain ⟨args, w, ha, he⟩ := encodeInstr_ok_iff.mp ⟨bs, henc⟩
    have hkeep := resolveWith_keeps hres
    have hr : rins.wellKinded = true ∧ ∀ f, rins.fld f = ins.fld f := by
      unfold resolveWith at hres
      cases hi : ins.imm? with
      | none => simp only [hi, Option.some.injEq] at hres; subst hres; exact ⟨hwk, fun _ => rfl⟩
      | some imm =>
        simp only [hi, Option.map_eq_some_iff] at hres
        obtain ⟨v, _, rfl⟩ := hres
        exact ⟨by rw [setImm_wellKinded]; exact hwk, fun f => setImm_fld ins _ f⟩
    exact regs_valid_of_encode hr.1 (by rw [hkeep.1]; exact hb) ha he f x (by rw [hr.2 f]; exact hf)

/-! ### a pseudo-instruction expands at every position and table -/

/-- the targets of the transfer pseudo-instructions are defined keys -/
def TargetsIn (K : List String) (name : String) (args : List String) : Prop :=
  ∀ k r, pseudoKind name = some k → k ≠ .li → immTokens k args = some ["%offset", r] → r ∈ K

theorem expand_any {H : Hooks} (hoff : OffsetHook H) {constants : Dict} {K : List String} {line : Line} {name : String}
    {args : List String} {q : Int} {Lq : Dict} {instrs0 : List Instr} {short0 : Bool}
    (h0 : expandPseudo H (chainGet constants Lq) line name args q = .ok (instrs0, short0))
    (hli : pseudoKind name = some .li → ∀ imm, H.parseImm args.tail line = .ok imm → ImmLabelFree H constants imm)
    (htg : TargetsIn K name args) (hct : ∀ r, (pseudoKind name = some .call ∨ pseudoKind name = some .tail) → args = [r] →
      constants.get r = none) :
    ∀ p L, Defined K L → ∃ instrs short, expandPseudo H (chainGet constants L) line name args p = .ok (instrs, short) ∧
      ((pseudoKind name ≠ some .call ∧ pseudoKind name ≠ some .tail) → instrs = instrs0) := by
  intro p L hL
  unfold expandPseudo at h0 ⊢
  cases hk : pseudoKind name with
  | none => simp [hk] at h0
  | some k =>
    simp only [hk] at h0 ⊢
    by_cases hbig : k.isBig = false
    · rw [expandKind_small_indep H _ (chainGet constants Lq) line k args p q hbig, h0]
      exact ⟨instrs0, short0, rfl, fun _ => rfl⟩
    · have hk3 : k = .li ∨ k = .call ∨ k = .tail := by cases k <;> simp [PKind.isBig] at hbig ⊢
      rcases hk3 with rfl | hct'
      · obtain ⟨rd, toks, imm, v, rfl, hp, hv, _⟩ := li_short h0
        have hfree := hli hk imm hp
        have hv' : imm.eval H (chainGet constants L) line p = .ok v := by rw [hfree L Lq line p q]; exact hv
        rw [expand_li H _ line q rd toks imm v hp hv] at h0
        rw [expand_li H _ line p rd toks imm v hp hv']
        by_cases hc : -2048 ≤ cI32 v ∧ cI32 v ≤ 2047
        · rw [if_pos hc] at h0 ⊢
          simp only [Except.ok.injEq, Prod.mk.injEq] at h0
          obtain ⟨rfl, rfl⟩ := h0
          exact ⟨_, _, rfl, fun _ => rfl⟩
        · rw [if_neg hc] at h0 ⊢
          simp only [Except.ok.injEq, Prod.mk.injEq] at h0
          obtain ⟨rfl, rfl⟩ := h0
          exact ⟨_, _, rfl, fun _ => rfl⟩
      · obtain ⟨ref, imm, v, rfl, hp, hv, _⟩ := call_short hct' h0
        have himm := hoff ref line imm hp
        subst himm
        have hrK : ref ∈ K := by
          rcases hct' with rfl | rfl
          · exact htg .call ref hk (by decide) rfl
          · exact htg .tail ref hk (by decide) rfl
        obtain ⟨v', hv'⟩ := evalsOn_offset (H := H) (constants := constants) (line := line) (Or.inr hrK) L p hL
        rcases hct' with rfl | rfl
        · rw [expand_call H _ line p ref _ v' hp hv']
          split
          · exact ⟨_, _, rfl, fun h => absurd rfl h.1⟩
          · exact ⟨_, _, rfl, fun h => absurd rfl h.1⟩
        · rw [expand_tail H _ line p ref _ v' hp hv']
          split
          · exact ⟨_, _, rfl, fun h => absurd rfl h.2⟩
          · exact ⟨_, _, rfl, fun h => absurd rfl h.2⟩

/-- the immediates of an expansion evaluate at every position and table with the keys `K` -/
theorem expansion_evalsOn {H : Hooks} (hoff : OffsetHook H) (hlit : ∀ line p env, LitOK (evalAt H env line p))
    (hneg : Neg1OK H) {constants : Dict} {K : List String} {line : Line} {name : String} {k : PKind}
    {args : List String} {p : Int} {L : Dict} {instrs : List Instr} {short : Bool}
    (hk : pseudoKind name = some k)
    (hli : pseudoKind name = some .li → ∀ imm, H.parseImm args.tail line = .ok imm → ImmLabelFree H constants imm)
    (htg : TargetsIn K name args)
    (h : expandKind H (chainGet constants L) line k args p = .ok (instrs, short)) :
    ∀ i ∈ instrs, ∀ x, i.imm? = some x → EvalsOn H constants K line x := by
  intro i hi x hx
  obtain ⟨imm, hparse, hdoc⟩ := expand_matches_doc H _ line p h
  rcases expansion_shape hdoc i hi with ⟨_, hl⟩ | ⟨rfl, _, hl⟩ | ⟨hkli, htok, hs⟩
  · intro L' p' _
    exact (labelfree_lits hlit hneg constants (hl x hx)).2 _ line p'
  · obtain ⟨rd, toks, imm', v, rfl, hp, hv, _⟩ := li_short h
    have himm : imm' = imm := by
      have := hparse toks rfl
      rw [hp] at this; simpa using this
    subst himm
    have hfree := hli hk imm' hp
    have hev : EvalsOn H constants K line imm' := evalsOn_labelfree hfree hv
    rcases hl x hx with rfl | rfl
    · exact evalsOn_lo hev
    · exact evalsOn_hi hev
  · cases ht : immTokens k args with
    | none => simp [ht] at htok
    | some toks =>
      obtain ⟨r, rfl⟩ := immTokens_shape hkli ht
      have himm := hoff r line imm (hparse _ ht)
      subst himm
      have hev : EvalsOn H constants K line (.offset r) := evalsOn_offset (Or.inr (htg k r hk hkli ht))
      rcases hs with ⟨n, rs1, rs2, rfl⟩ | ⟨n, rd, rfl⟩ | ⟨rA, rfl⟩ | ⟨rd, rA, rfl⟩ <;>
        simp only [Instr.imm?, Option.some.injEq] at hx <;> subst hx
      · exact hev
      · exact hev
      · exact evalsOn_hi hev
      · exact evalsOn_lo hev

end BB.Lemmas
