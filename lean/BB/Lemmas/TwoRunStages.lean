/-
  BB.Lemmas.TwoRunStages — small facts needed to run the two pipelines side by side: what
  resolve_constants keeps, which items a walk can introduce, the total length of the output.
-/
import BB.Lemmas.TwoRunPseudo
import BB.Lemmas.TwoRunAlign
set_option linter.unusedSimpArgs false
set_option linter.unusedVariables false
namespace BB.Lemmas
open BB BB.Spec
open BB.Props.C03 (Stage Land)

theorem sizeD_constant (l : Line) (n : String) (e : Imm) : (Item.constant l n e).sizeD = 0 := by
  simp [Item.sizeD, Item.size?]

/-- constants take no room: resolve_constants keeps the total (pessimistic) size -/
theorem resolveConstants_sizeSum (H : Hooks) (items : List Item) : ∀ (c : Dict) (out : List Item) (c' : Dict),
    resolveConstants H items c = .ok (out, c') → sizeSum out = sizeSum items := by
  induction items with
  | nil =>
    intro c out c' h
    simp only [resolveConstants, Except.ok.injEq, Prod.mk.injEq] at h
    rw [← h.1]
  | cons it rest ih =>
    intro c out c' h
    by_cases hc : ∃ line name expr, it = .constant line name expr
    · obtain ⟨line, name, expr, rfl⟩ := hc
      simp only [resolveConstants] at h
      split at h
      · split at h
        · simp at h
        · split at h
          · simp at h
          · simp only [bind, Except.bind] at h
            split at h
            · simp at h
            · rw [sizeSum_cons, sizeD_constant, ih _ _ _ h]; omega
      · simp at h
    · have hw : resolveConstants H (it :: rest) c = (do
          let (out, c) ← resolveConstants H rest c
          pure (it :: out, c)) := by
        cases it <;> first | rfl | exact absurd ⟨_, _, _, rfl⟩ hc
      rw [hw] at h
      simp only [bind, Except.bind] at h
      cases hr : resolveConstants H rest c with
      | error e => simp [hr] at h
      | ok r =>
        obtain ⟨o, cc⟩ := r
        simp only [hr, pure, Except.pure, Except.ok.injEq, Prod.mk.injEq] at h
        rw [← h.1, sizeSum_cons, sizeSum_cons, ih _ _ _ hr]

/-- items of a kind that the loop body never creates come from the input -/
theorem walk_mem_back {f : Item → Int → Dict → Except Err (List Item × Int)} {P : Item → Prop}
    (hf : ∀ it p L repl n, f it p L = .ok (repl, n) → ∀ x ∈ repl, P x → x = it) (G : List Item) :
    ∀ (p : Int) (L : Dict) (G' : List Item) (L' : Dict), walk f G p L = .ok (G', L') →
    ∀ x ∈ G', P x → x ∈ G := by
  induction G with
  | nil =>
    intro p L G' L' h x hx
    simp only [walk, Except.ok.injEq, Prod.mk.injEq] at h
    rw [← h.1] at hx; simp at hx
  | cons it rest ih =>
    intro p L G' L' h x hx hP
    by_cases hl : ∃ l n, it = .label l n
    · obtain ⟨l, n, rfl⟩ := hl
      simp only [walk, bind, Except.bind] at h
      cases hr : walk f rest p L with
      | error e => simp [hr] at h
      | ok r =>
        obtain ⟨o, l2⟩ := r
        simp only [hr, pure, Except.pure, Except.ok.injEq, Prod.mk.injEq] at h
        rw [← h.1] at hx
        rcases List.mem_cons.mp hx with rfl | hx
        · exact List.mem_cons_self
        · exact List.mem_cons_of_mem _ (ih _ _ _ _ hr x hx hP)
    · have hnl : ∀ l n, it ≠ .label l n := fun l n e => hl ⟨l, n, e⟩
      rw [walk_cons_of_not_label hnl] at h
      simp only [bind, Except.bind] at h
      cases hb : f it p L with
      | error e => simp [hb] at h
      | ok rn =>
        obtain ⟨repl, n⟩ := rn
        simp only [hb] at h
        cases hr : walk f rest (p + sizeSum repl) (L.shiftAbove p n) with
        | error e => simp [hr] at h
        | ok r =>
          obtain ⟨o, l2⟩ := r
          simp only [hr, pure, Except.pure, Except.ok.injEq, Prod.mk.injEq] at h
          rw [← h.1] at hx
          rcases List.mem_append.mp hx with hx | hx
          · rw [hf it p L repl n hb x hx hP]; exact List.mem_cons_self
          · exact List.mem_cons_of_mem _ (ih _ _ _ _ hr x hx hP)

def IsAlign (x : Item) : Prop := ∃ l a, x = .align l a
def IsPseudo (x : Item) : Prop := ∃ l n a, x = .pseudo l n a

theorem pseudoBody_no_new_align (H : Hooks) (constants : Dict) (it : Item) (p : Int) (L : Dict)
    (repl : List Item) (n : Int) (h : pseudoBody H constants it p L = .ok (repl, n)) :
    ∀ x ∈ repl, IsAlign x → x = it := by
  intro x hx hP
  cases it with
  | pseudo l0 name args =>
    exfalso
    simp only [pseudoBody, bind, Except.bind] at h
    cases hres : expandPseudo H (chainGet constants L) l0 name args p with
    | error e => simp [hres] at h
    | ok res =>
      obtain ⟨instrs, short⟩ := res
      simp only [hres, pure, Except.pure, Except.ok.injEq, Prod.mk.injEq] at h
      rw [← h.1] at hx
      obtain ⟨i0, _, rfl⟩ := List.mem_map.mp hx
      obtain ⟨l, a, e⟩ := hP
      cases e
  | _ =>
    obtain ⟨rfl, _⟩ := keepItem_ok (by simpa [pseudoBody] using h)
    simpa using hx

theorem compressBody_no_new (H : Hooks) (constants : Dict) {P : Item → Prop} (hP : ∀ l i, ¬ P (.instr l i))
    (it : Item) (p : Int) (L : Dict)
    (repl : List Item) (n : Int) (h : compressBody H constants it p L = .ok (repl, n)) :
    ∀ x ∈ repl, P x → x = it := by
  intro x hx hPx
  cases it with
  | instr line ins =>
    rcases BB.Props.C04.compressBody_instr H constants line ins p L repl n h with ⟨rfl, _⟩ | ⟨c, preds, cf, _, _, _, _, _, rfl, _⟩
    · simpa using hx
    · simp only [List.mem_singleton] at hx
      subst hx
      exact absurd hPx (hP _ _)
  | _ =>
    obtain ⟨rfl, _⟩ := BB.Props.C04.data_unchanged H constants _ p L repl n (by intro l i; simp) h
    simpa using hx

theorem mem_aliases_other {G : List Item} {constants : Dict} {x : Item} (hx : ∀ l i, x ≠ .instr l i)
    (h : x ∈ resolveRegisterAliases G constants) : x ∈ G := by
  unfold resolveRegisterAliases at h
  obtain ⟨it, hit, he⟩ := List.mem_map.mp h
  cases it with
  | instr l i => exact absurd he.symm (hx _ _)
  | _ => simp only at he; rw [← he]; exact hit

/-- total output length -/
theorem land_total {H : Hooks} {constants L : Dict} {p : Int} {items out : List Item}
    (h : Land H constants L p items out) : ((blobBytes out).length : Int) = sizeSum items := by
  induction h with
  | nil p => simp [blobBytes, sizeSum]
  | @step p it it' line d rest out hbody hfin hlen _ ih =>
    simp only [BB.Props.C03.blobBytes_cons_blob, List.length_append, sizeSum_cons]
    push_cast
    omega

/-- `stage_walk'` that also records that keys which are not labels of the program are not touched -/
theorem stage_walk'' {f : Item → Int → Dict → Except Err (List Item × Int)} (hf : BodyOK f)
    {G real : List Item} {labels : Dict} {names : List String} (st : Stage G real labels names)
    {out : List Item} {labels' : Dict} (h : walk f real 0 labels = .ok (out, labels')) :
    ∃ G', walk f G 0 labels = .ok (G', labels') ∧ Stage G' out labels' names ∧
      ∀ ℓ, ℓ ∉ names → labels'.get ℓ = labels.get ℓ := by
  obtain ⟨G', hw, hs⟩ := walk_strip hf G st.nonneg 0 labels out labels' (by rw [st.strip_eq]; exact h)
  obtain ⟨w1, w2, w3, w4, _⟩ := walk_layout hf G 0 labels G' labels' st.nonneg st.nodup st.agree st.low hw
  refine ⟨G', hw, ⟨hs, w4, by rw [w3]; exact st.nodup, by rw [w3]; exact st.names_eq, w1, ?_⟩, ?_⟩
  · intro ℓ v hℓ hv
    rw [w3] at hℓ
    rw [w2 ℓ hℓ] at hv
    exact st.low ℓ v hℓ hv
  · intro ℓ hℓ
    exact w2 ℓ (by rw [st.names_eq]; exact hℓ)

end BB.Lemmas
