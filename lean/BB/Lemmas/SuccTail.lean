/-
  BB.Lemmas.SuccTail — the converse of `assemble_stages_all`: stage equations up to resolve_aligns plus
  `Land` (every item of the list resolves at its offset and is finished into a blob) make
  `assembleItems` succeed.
-/
import BB.Lemmas.SuccLayout
set_option linter.unusedSimpArgs false
set_option linter.unusedVariables false
namespace BB.Lemmas
open BB BB.Spec
open BB.Props.C03 (Land Finish Pw stringStep)

theorem finish_label_false {H : Hooks} {l : Line} {n : String} {z : Item} {line : Line} {d : List Nat}
    (h : Finish H (.label l n) (.blob line d)) : False := by
  obtain ⟨b, c, e, f, h1, h2, h3, h4, h5⟩ := h
  simp only [instrStep, pure, Except.pure, Except.ok.injEq] at h1
  subst h1
  simp only [stringStep, seqStep, pure, Except.pure, Except.ok.injEq] at h2
  subst h2
  simp only [shorthandStep, pure, Except.pure, Except.ok.injEq] at h3
  subst h3
  simp only [packStep, pure, Except.pure, Except.ok.injEq] at h4
  subst h4
  simp [includeBytesStep, pure, Except.pure] at h5

/-- `Land` ⇒ resolve_immediates succeeds, and its output is finished item by item -/
theorem land_walk {H : Hooks} {constants L : Dict} : ∀ {p : Int} {items out : List Item},
    Land H constants L p items out →
    ∃ G8, walk (immBody H constants) items p L = .ok (G8, L) ∧ Pw (Finish H) G8 out := by
  intro p items out h
  induction h with
  | nil p => exact ⟨[], rfl, .nil⟩
  | @step p it it' line d rest out hbody hfin hlen _ ih =>
    obtain ⟨G8, hw, hpw⟩ := ih
    have hnl : ∀ l n, it ≠ .label l n := by
      intro l n e
      subst e
      have : it' = .label l n := by
        have := (keepItem_ok (by simpa [immBody] using hbody)).1
        simpa using this
      subst this
      exact finish_label_false (z := .blob line d) hfin
    obtain ⟨it'', e1, _, hsz⟩ := BB.Props.C08.immBody_single H constants it p L _ _ hnl hbody
    simp only [List.cons.injEq, and_true] at e1
    subst e1
    refine ⟨it' :: G8, ?_, .cons hfin hpw⟩
    rw [walk_cons_of_not_label hnl]
    have hpos : p + sizeSum [it'] = p + (d.length : Int) := by
      simp [sizeSum, hsz, hlen]
    simp only [hbody, bind, Except.bind, shiftAbove_zero, hpos, hw, pure, Except.pure]
    rfl

theorem mapM_cons_of {g : Item → Except Err Item} {it it' : Item} {rest out' : List Item}
    (h1 : g it = .ok it') (h2 : rest.mapM g = .ok out') : (it :: rest).mapM g = .ok (it' :: out') := by
  rw [List.mapM_cons]
  simp [h1, h2, bind, Except.bind, pure, Except.pure]

/-- the passes after resolve_immediates, from the item-wise `Finish` -/
theorem pw_finish_run {H : Hooks} : ∀ {G8 out : List Item}, Pw (Finish H) G8 out →
    ∃ b d e f, resolveInstructions G8 = .ok b ∧ resolveSequences (resolveStrings b) = .ok d ∧
      transformShorthandPacks d = .ok e ∧ resolvePacks e = .ok f ∧ resolveIncludeBytes H f = .ok out := by
  intro G8 out h
  induction h with
  | nil => exact ⟨[], [], [], [], rfl, rfl, rfl, rfl, rfl⟩
  | @cons a z l l' hr _ ih =>
    obtain ⟨b, d, e, f, h1, h2, h3, h4, h5⟩ := ih
    obtain ⟨b1, d1, e1, f1, g1, g2, g3, g4, g5⟩ := hr
    unfold resolveInstructions resolveSequences transformShorthandPacks resolvePacks resolveIncludeBytes at *
    refine ⟨b1 :: b, d1 :: d, e1 :: e, f1 :: f, mapM_cons_of g1 h1, ?_, mapM_cons_of g3 h3, mapM_cons_of g4 h4,
      mapM_cons_of g5 h5⟩
    have : resolveStrings (b1 :: b) = stringStep b1 :: resolveStrings b := by
      simp only [resolveStrings, List.map_cons, stringStep]
      cases b1 <;> rfl
    rw [this]
    exact mapM_cons_of g2 h2

theorem land_out_blobs {H : Hooks} {constants L : Dict} {p : Int} {items out : List Item}
    (h : Land H constants L p items out) : ∀ x ∈ out, ∃ line d, x = .blob line d := by
  induction h with
  | nil p => intro x hx; simp at hx
  | step p _ _ _ _ ih =>
    intro x hx
    rcases List.mem_cons.mp hx with rfl | hx
    · exact ⟨_, _, rfl⟩
    · exact ih x hx

theorem resolveBlobs_of_blobs : ∀ (out : List Item), (∀ x ∈ out, ∃ line d, x = .blob line d) →
    resolveBlobs out = .ok (blobBytes out)
  | [], _ => rfl
  | x :: rest, h => by
    obtain ⟨line, d, rfl⟩ := h x List.mem_cons_self
    have ih := resolveBlobs_of_blobs rest (fun y hy => h y (List.mem_cons_of_mem _ hy))
    simp [resolveBlobs, ih, blobBytes, bind, Except.bind, pure, Except.pure]

/-- **from the stage equations and `Land` to a successful run** -/
theorem assemble_of_stages (H : Hooks) (compress : Bool) {items items1 items2 items3 items4 items6 items7 out : List Item}
    {constants labels2 labels3 labels4 labels6 labels7 : Dict}
    (h1 : resolveConstants H items [] = .ok (items1, constants))
    (h2 : resolveLabels items1 [] = .ok (items2, labels2))
    (h3 : maybeCompress H compress (resolveRegisterAliases items2 constants) constants labels2 = .ok (items3, labels3))
    (h4 : transformPseudo H items3 constants labels3 = .ok (items4, labels4))
    (h6 : maybeCompress H compress (resolveRegisterAliases items4 constants) constants labels4 = .ok (items6, labels6))
    (h7 : resolveAligns items6 labels6 = .ok (items7, labels7))
    (hland : Land H constants labels7 0 items7 out) :
    assembleItems H compress items [] [] = .ok { bytes := blobBytes out, labels := labels7, constants := constants } := by
  obtain ⟨G8, hw, hpw⟩ := land_walk hland
  obtain ⟨b, d, e, f, g1, g2, g3, g4, g5⟩ := pw_finish_run hpw
  have g6 := resolveBlobs_of_blobs out (land_out_blobs hland)
  have h8 : resolveImmediates H items7 constants labels7 = .ok G8 := by
    simp [resolveImmediates, hw, bind, Except.bind, pure, Except.pure]
  simp only [assembleItems, h1, h2, h3, h4, h6, h7, h8, g1, g2, g3, g4, g5, g6, bind, Except.bind, pure, Except.pure]

end BB.Lemmas
