/-
  BB.Lemmas.ErrLines — every pass of `assembleItems` keeps `Item.line`: each item a pass puts out
  carries the `Line` of an item it was given, and an `Err.asm ln` a pass raises names the `Line` of
  an item it was given.  (C15: "the failure ... carries the path and 1-based line number of that
  line, also when the line ... came out of a pseudo-instruction expansion, or compression is on".)

  Generic part: the loop shapes `walk` and `List.mapM`.
-/
import BB.Passes
namespace BB.Lemmas
open BB

/-- the `Line`s carried by a list of items -/
def linesOf (l : List Item) : List Line := l.map Item.line

theorem mem_linesOf {l : List Item} {x : Item} (h : x ∈ l) : x.line ∈ linesOf l :=
  List.mem_map_of_mem h

theorem linesOf_cons (it : Item) (l : List Item) : linesOf (it :: l) = it.line :: linesOf l := rfl

/-- `out` carries no line that `inp` does not carry -/
def LinesSub (out inp : List Item) : Prop := ∀ x ∈ out, x.line ∈ linesOf inp

theorem LinesSub.refl (l : List Item) : LinesSub l l := fun _ hx => mem_linesOf hx

theorem LinesSub.trans {a b c : List Item} (h1 : LinesSub a b) (h2 : LinesSub b c) : LinesSub a c := by
  intro x hx
  have := h1 x hx
  simp only [linesOf, List.mem_map] at this
  obtain ⟨y, hy, he⟩ := this
  rw [← he]; exact h2 y hy

theorem LinesSub.line_mem {a b : List Item} (h : LinesSub a b) {ln : Line} (hl : ln ∈ linesOf a) :
    ln ∈ linesOf b := by
  simp only [linesOf, List.mem_map] at hl
  obtain ⟨y, hy, he⟩ := hl
  rw [← he]; exact h y hy

/-- A loop body keeps the line: every replacement item carries the item's line, and an
    AssemblerError it raises carries the item's line. -/
def BodyLine (f : Item → Int → Dict → Except Err (List Item × Int)) : Prop :=
  ∀ it p labels,
    (∀ repl n, f it p labels = .ok (repl, n) → ∀ x ∈ repl, x.line = it.line) ∧
    (∀ ln, f it p labels = .error (.asm ln) → ln = it.line)

/-- A one-to-one step keeps the line. -/
def StepLine (g : Item → Except Err Item) : Prop :=
  ∀ it, (∀ it', g it = .ok it' → it'.line = it.line) ∧ (∀ ln, g it = .error (.asm ln) → ln = it.line)

theorem walk_cons_nonlabel {f : Item → Int → Dict → Except Err (List Item × Int)} {it : Item}
    (h : ∀ line n, it ≠ .label line n) (rest : List Item) (p : Int) (labels : Dict) :
    walk f (it :: rest) p labels =
      (match f it p labels with
       | .error e => .error e
       | .ok (repl, n) =>
         match walk f rest (p + sizeSum repl) (labels.shiftAbove p n) with
         | .error e => .error e
         | .ok (out, l) => .ok (repl ++ out, l)) := by
  cases it <;> first
    | exact absurd rfl (h _ _)
    | (simp only [walk, bind, Except.bind, pure, Except.pure]
       cases f _ p labels with
       | error e => rfl
       | ok r =>
         obtain ⟨repl, n⟩ := r
         simp only
         cases walk f rest (p + sizeSum repl) (labels.shiftAbove p n) with
         | error e => rfl
         | ok r2 => rfl)

theorem walk_cons_label {f : Item → Int → Dict → Except Err (List Item × Int)} (line : Line) (nm : String)
    (rest : List Item) (p : Int) (labels : Dict) :
    walk f (.label line nm :: rest) p labels =
      (match walk f rest p labels with
       | .error e => .error e
       | .ok (out, l) => .ok (.label line nm :: out, l)) := by
  simp only [walk, bind, Except.bind, pure, Except.pure]
  cases walk f rest p labels with
  | error e => rfl
  | ok r => rfl

/-- `walk` with a line-keeping body: output lines are input lines, and so is the line of an
    AssemblerError. -/
theorem walk_lines {f : Item → Int → Dict → Except Err (List Item × Int)} (hf : BodyLine f) :
    ∀ (inp : List Item) (p : Int) (labels : Dict),
      (∀ out l, walk f inp p labels = .ok (out, l) → LinesSub out inp) ∧
      (∀ ln, walk f inp p labels = .error (.asm ln) → ln ∈ linesOf inp) := by
  intro inp
  induction inp with
  | nil =>
    intro p labels
    refine ⟨?_, ?_⟩
    · intro out l h
      simp only [walk, Except.ok.injEq, Prod.mk.injEq] at h
      obtain ⟨rfl, _⟩ := h
      intro x hx; simp at hx
    · intro ln h; simp [walk] at h
  | cons it rest ih =>
    intro p labels
    by_cases hlab : ∃ line nm, it = .label line nm
    · obtain ⟨line, nm, rfl⟩ := hlab
      rw [walk_cons_label]
      obtain ⟨ih1, ih2⟩ := ih p labels
      cases hr : walk f rest p labels with
      | error e =>
        refine ⟨fun out l h => by simp at h, ?_⟩
        intro ln h
        simp only [Except.error.injEq] at h
        subst h
        rw [linesOf_cons]
        exact List.mem_cons_of_mem _ (ih2 ln hr)
      | ok r =>
        obtain ⟨out', l'⟩ := r
        refine ⟨?_, fun ln h => by simp at h⟩
        intro out l h
        simp only [Except.ok.injEq, Prod.mk.injEq] at h
        obtain ⟨rfl, _⟩ := h
        intro x hx
        rw [linesOf_cons]
        simp only [List.mem_cons] at hx
        rcases hx with rfl | hx
        · exact List.mem_cons_self
        · exact List.mem_cons_of_mem _ (ih1 out' l' hr x hx)
    · have hnl : ∀ line nm, it ≠ .label line nm := fun line nm hh => hlab ⟨line, nm, hh⟩
      rw [walk_cons_nonlabel hnl]
      obtain ⟨hf1, hf2⟩ := hf it p labels
      cases hb : f it p labels with
      | error e =>
        refine ⟨fun out l h => by simp at h, ?_⟩
        intro ln h
        simp only [Except.error.injEq] at h
        subst h
        rw [linesOf_cons, hf2 ln hb]
        exact List.mem_cons_self
      | ok r =>
        obtain ⟨repl, n⟩ := r
        simp only
        obtain ⟨ih1, ih2⟩ := ih (p + sizeSum repl) (labels.shiftAbove p n)
        cases hr : walk f rest (p + sizeSum repl) (labels.shiftAbove p n) with
        | error e =>
          refine ⟨fun out l h => by simp at h, ?_⟩
          intro ln h
          simp only [Except.error.injEq] at h
          subst h
          rw [linesOf_cons]
          exact List.mem_cons_of_mem _ (ih2 ln hr)
        | ok r2 =>
          obtain ⟨out', l'⟩ := r2
          refine ⟨?_, fun ln h => by simp at h⟩
          intro out l h
          simp only [Except.ok.injEq, Prod.mk.injEq] at h
          obtain ⟨rfl, _⟩ := h
          intro x hx
          rw [linesOf_cons]
          simp only [List.mem_append] at hx
          rcases hx with hx | hx
          · rw [hf1 repl n hb x hx]; exact List.mem_cons_self
          · exact List.mem_cons_of_mem _ (ih1 out' l' hr x hx)

theorem mapM_cons_eq {g : Item → Except Err Item} (it : Item) (rest : List Item) :
    (it :: rest).mapM g =
      (match g it with
       | .error e => .error e
       | .ok it' =>
         match rest.mapM g with
         | .error e => .error e
         | .ok out => .ok (it' :: out)) := by
  rw [List.mapM_cons]
  simp only [bind, Except.bind, pure, Except.pure]
  cases g it with
  | error e => rfl
  | ok it' =>
    simp only
    cases rest.mapM g with
    | error e => rfl
    | ok out => rfl

/-- `List.mapM` with a line-keeping step: the output carries exactly the input's lines, and the
    line of an AssemblerError is an input line. -/
theorem mapM_lines {g : Item → Except Err Item} (hg : StepLine g) :
    ∀ (inp : List Item),
      (∀ out, inp.mapM g = .ok out → linesOf out = linesOf inp) ∧
      (∀ ln, inp.mapM g = .error (.asm ln) → ln ∈ linesOf inp) := by
  intro inp
  induction inp with
  | nil =>
    refine ⟨?_, ?_⟩
    · intro out h
      simp only [List.mapM_nil, pure, Except.pure, Except.ok.injEq] at h
      subst h; rfl
    · intro ln h; simp [List.mapM_nil, pure, Except.pure] at h
  | cons it rest ih =>
    obtain ⟨ih1, ih2⟩ := ih
    obtain ⟨hg1, hg2⟩ := hg it
    rw [mapM_cons_eq]
    cases hb : g it with
    | error e =>
      refine ⟨fun out h => by simp at h, ?_⟩
      intro ln h
      simp only [Except.error.injEq] at h
      subst h
      rw [linesOf_cons, hg2 ln hb]; exact List.mem_cons_self
    | ok it' =>
      simp only
      cases hr : rest.mapM g with
      | error e =>
        refine ⟨fun out h => by simp at h, ?_⟩
        intro ln h
        simp only [Except.error.injEq] at h
        subst h
        rw [linesOf_cons]; exact List.mem_cons_of_mem _ (ih2 ln hr)
      | ok out' =>
        refine ⟨?_, fun ln h => by simp at h⟩
        intro out h
        simp only [Except.ok.injEq] at h
        subst h
        rw [linesOf_cons, linesOf_cons, hg1 it' hb, ih1 out' hr]

theorem linesSub_of_linesOf_eq {a b : List Item} (h : linesOf a = linesOf b) : LinesSub a b := by
  intro x hx; rw [← h]; exact mem_linesOf hx

end BB.Lemmas
