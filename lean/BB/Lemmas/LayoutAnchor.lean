/-
  BB.Lemmas.LayoutAnchor — the stage lists of a successful `assembleItems` run ARE the lists of `layoutOf`
  (Props/C04), a function of the inputs.  Program-level theorems are stated over `layoutOf H c items = .ok lay`
  (`lay.decided` = the list before resolve_aligns, `lay.aligned` = the list after it) instead of over an
  existentially quantified list.
-/
import BB.Lemmas.TransferFinal
import BB.Props.C04
namespace BB.Lemmas
open BB BB.Spec
open BB.Props.C04 (Layout layoutOf)

/-- the pass equations determine `layoutOf` -/
theorem layoutOf_of_stages {H : Hooks} {compress : Bool} {items items1 items2 items3 items4 items6 items7 : List Item}
    {constants labels2 labels3 labels4 labels6 labels7 : Dict}
    (h1 : resolveConstants H items [] = .ok (items1, constants))
    (h2 : resolveLabels items1 [] = .ok (items2, labels2))
    (h3 : maybeCompress H compress (resolveRegisterAliases items2 constants) constants labels2 = .ok (items3, labels3))
    (h4 : transformPseudo H items3 constants labels3 = .ok (items4, labels4))
    (h6 : maybeCompress H compress (resolveRegisterAliases items4 constants) constants labels4 = .ok (items6, labels6))
    (h7 : resolveAligns items6 labels6 = .ok (items7, labels7)) :
    layoutOf H compress items = .ok ⟨items6, items7, constants, labels7⟩ := by
  unfold resolveAligns at h7
  simp only [layoutOf, bind, Except.bind, h1, h2, h3, h4, h6, resolveAligns, h7, pure, Except.pure]

/-- `assemble_stages_all`, with the layout anchored -/
theorem assemble_anchor (H : Hooks) (compress : Bool) (items : List Item) (r : AsmResult)
    (h : assembleItems H compress items [] [] = .ok r) :
    ∃ (items1 items2 items3 items4 items6 items7 out : List Item) (labels2 labels3 labels4 labels6 : Dict),
      layoutOf H compress items = .ok ⟨items6, items7, r.constants, r.labels⟩ ∧
      Expands items items7 ∧
      resolveConstants H items [] = .ok (items1, r.constants) ∧
      resolveLabels items1 [] = .ok (items2, labels2) ∧
      maybeCompress H compress (resolveRegisterAliases items2 r.constants) r.constants labels2
        = .ok (items3, labels3) ∧
      transformPseudo H items3 r.constants labels3 = .ok (items4, labels4) ∧
      maybeCompress H compress (resolveRegisterAliases items4 r.constants) r.constants labels4
        = .ok (items6, labels6) ∧
      resolveAligns items6 labels6 = .ok (items7, r.labels) ∧
      BB.Props.C03.Land H r.constants r.labels 0 items7 out ∧ r.bytes = blobBytes out := by
  obtain ⟨items1, items2, items3, items4, items6, items7, out, labels2, labels3, labels4, labels6, e7, h1, h2, h3, h4, h6, h7,
    hland, hbytes⟩ := assemble_stages_all H compress items r h
  exact ⟨items1, items2, items3, items4, items6, items7, out, labels2, labels3, labels4, labels6,
    layoutOf_of_stages h1 h2 h3 h4 h6 h7, e7, h1, h2, h3, h4, h6, h7, hland, hbytes⟩

/-- a successful run has a layout, whose tables are the returned ones -/
theorem layoutOf_ok_of_assemble (H : Hooks) (compress : Bool) (items : List Item) (r : AsmResult)
    (h : assembleItems H compress items [] [] = .ok r) :
    ∃ lay, layoutOf H compress items = .ok lay ∧ lay.labels = r.labels ∧ lay.constants = r.constants := by
  obtain ⟨_, _, _, _, items6, items7, _, _, _, _, _, hl, _⟩ := assemble_anchor H compress items r h
  exact ⟨_, hl, rfl, rfl⟩

/-- an instruction of the first aliased list is the aliased image of an instruction of the SOURCE -/
theorem source_of_aliased {H : Hooks} {items items1 items2 : List Item} {constants labels2 : Dict}
    (h1 : resolveConstants H items [] = .ok (items1, constants))
    (h2 : resolveLabels items1 [] = .ok (items2, labels2))
    {line : Line} {cf : Instr} (hm : Item.instr line cf ∈ resolveRegisterAliases items2 constants) :
    ∃ cf0, Item.instr line cf0 ∈ items ∧ cf = cf0.mapRegs (aliasReg constants) := by
  obtain ⟨_, _, c3⟩ := BB.Props.C03.resolveConstants_spec H items [] items1 constants h1
  obtain ⟨l1, _⟩ := resolveLabelsAux_spec items1 0 [] [] items2 labels2 h2
  unfold resolveRegisterAliases at hm
  obtain ⟨it, hit, he⟩ := List.mem_map.mp hm
  rw [l1] at hit
  unfold strip at hit
  have hit1 := (List.mem_filter.mp hit).1
  cases it with
  | instr l0 i0 =>
    simp only [Item.instr.injEq] at he
    obtain ⟨rfl, rfl⟩ := he
    exact ⟨i0, c3 _ hit1, rfl⟩
  | _ => cases he

end BB.Lemmas
