/-
  BB.Lemmas.Enc16 — each 16-bit (RVC) encoder, as a sum of fields with literal multipliers
  (so that the slot lemmas of `Lemmas/Dec16` can extract them).  Same recipe as `Lemmas/Enc32`:
  `bits_norm`, replace the masked `c_uint32` value by a small `toNat`, generalise it, and only then
  turn every `|||`/`<<<` into `+`/`*`.
-/
import BB.Lemmas.Bits
namespace BB.Lemmas
open BB BB.Spec

/-- cr_type -/
theorem crTypeN_eq (rdRs1 rs2 op f4 : Nat) (cs : List Constraint) (h1 : rdRs1 < 32) (h2 : rs2 < 32)
    (hop : op < 4) :
    crTypeN rdRs1 rs2 op f4 cs =
      if !csOk cs { rdRs1 := rdRs1, rs2 := rs2 } then none
      else some (op + rs2 * 4 + rdRs1 * 128 + f4 * 4096) := by
  unfold crTypeN
  split
  · rfl
  · rw [Nat.zero_or]
    rw [lor_shl_eq_add _ _ 2 (by omega), lor_shl_eq_add _ _ 7 (by omega),
        lor_shl_eq_add _ _ 12 (by omega)]

/-- ci_type -/
theorem ciTypeN_eq (rdRs1 : Nat) (imm : Int) (op f3 : Nat) (cs : List Constraint) (h1 : rdRs1 < 32)
    (hop : op < 4) :
    ciTypeN rdRs1 imm op f3 cs =
      if imm < -32 ∨ imm > 31 then none
      else if !csOk cs { rdRs1 := rdRs1, imm := imm } then none
      else
        let u := (imm % 64).toNat
        some (op + (u % 32) * 4 + rdRs1 * 128 + (u / 32 % 2) * 4096 + f3 * 8192) := by
  unfold ciTypeN
  split
  · rfl
  · split
    · rfl
    · bits_norm
      have hu : (imm % 4294967296).toNat % 64 = (imm % 64).toNat := by omega
      rw [hu]
      generalize (imm % 64).toNat = u
      rw [lor_shl_eq_add _ _ 2 (by omega), lor_shl_eq_add _ _ 7 (by omega),
          lor_shl_eq_add _ _ 12 (by omega), lor_shl_eq_add _ _ 13 (by omega)]

/-- ciu_type is ci_type after the 20-bit unsigned spelling has been folded to the signed one -/
theorem ciuTypeN_eq_ci (rdRs1 : Nat) (imm : Int) (op f3 : Nat) (cs : List Constraint) :
    ciuTypeN rdRs1 imm op f3 cs =
      ciTypeN rdRs1 (if imm ≥ 0xfffe0 ∧ imm ≤ 0xfffff then imm - 1048576 else imm) op f3 cs := rfl

theorem ciuTypeN_eq (rdRs1 : Nat) (imm : Int) (op f3 : Nat) (cs : List Constraint) (h1 : rdRs1 < 32)
    (hop : op < 4) :
    ciuTypeN rdRs1 imm op f3 cs =
      let v := if imm ≥ 1048544 ∧ imm ≤ 1048575 then imm - 1048576 else imm
      if v < -32 ∨ v > 31 then none
      else if !csOk cs { rdRs1 := rdRs1, imm := v } then none
      else
        let u := (v % 64).toNat
        some (op + (u % 32) * 4 + rdRs1 * 128 + (u / 32 % 2) * 4096 + f3 * 8192) := by
  rw [ciuTypeN_eq_ci, ciTypeN_eq _ _ _ _ _ h1 hop]

/-- cia_type (c.addi16sp) -/
theorem ciaTypeN_eq (imm : Int) (op f3 : Nat) (cs : List Constraint) (hop : op < 4) :
    ciaTypeN imm op f3 cs =
      if imm < -512 ∨ imm > 511 then none
      else if imm % 16 ≠ 0 then none
      else if !csOk cs { imm := imm } then none
      else
        let u := (imm / 16 % 64).toNat
        some (op + (u / 2 % 2) * 4 + (u / 8 % 4) * 8 + (u / 4 % 2) * 32 + (u % 2) * 64 + 2 * 128
              + (u / 32 % 2) * 4096 + f3 * 8192) := by
  unfold ciaTypeN
  split
  · rfl
  · split
    · rfl
    · split
      · rfl
      · bits_norm
        have hu : (imm / 16 % 4294967296).toNat % 64 = (imm / 16 % 64).toNat := by omega
        rw [hu]
        generalize (imm / 16 % 64).toNat = u
        rw [lor_shl_eq_add _ _ 2 (by omega), lor_shl_eq_add _ _ 3 (by omega),
            lor_shl_eq_add _ _ 5 (by omega), lor_shl_eq_add _ _ 6 (by omega),
            lor_shl_eq_add _ _ 7 (by omega), lor_shl_eq_add _ _ 12 (by omega),
            lor_shl_eq_add _ _ 13 (by omega)]

/-- cil_type (c.lwsp) -/
theorem cilTypeN_eq (rdRs1 : Nat) (imm : Int) (op f3 : Nat) (cs : List Constraint) (h1 : rdRs1 < 32)
    (hop : op < 4) :
    cilTypeN rdRs1 imm op f3 cs =
      if imm < 0 ∨ imm > 255 then none
      else if imm % 4 ≠ 0 then none
      else if !csOk cs { rdRs1 := rdRs1, imm := imm } then none
      else
        let u := (imm / 4 % 64).toNat
        some (op + (u / 16 % 4) * 4 + (u % 8) * 16 + rdRs1 * 128 + (u / 8 % 2) * 4096 + f3 * 8192) := by
  unfold cilTypeN
  split
  · rfl
  · split
    · rfl
    · split
      · rfl
      · bits_norm
        have hu : (imm / 4 % 4294967296).toNat % 64 = (imm / 4 % 64).toNat := by omega
        rw [hu]
        generalize (imm / 4 % 64).toNat = u
        rw [lor_shl_eq_add _ _ 2 (by omega), lor_shl_eq_add _ _ 4 (by omega),
            lor_shl_eq_add _ _ 7 (by omega), lor_shl_eq_add _ _ 12 (by omega),
            lor_shl_eq_add _ _ 13 (by omega)]

/-- css_type (c.swsp) -/
theorem cssTypeN_eq (rs2 : Nat) (imm : Int) (op f3 : Nat) (cs : List Constraint) (h1 : rs2 < 32)
    (hop : op < 4) :
    cssTypeN rs2 imm op f3 cs =
      if imm < 0 ∨ imm > 255 then none
      else if imm % 4 ≠ 0 then none
      else if !csOk cs { rs2 := rs2, imm := imm } then none
      else
        let u := (imm / 4 % 64).toNat
        some (op + rs2 * 4 + (u / 16 % 4) * 128 + (u % 16) * 512 + f3 * 8192) := by
  unfold cssTypeN
  split
  · rfl
  · split
    · rfl
    · split
      · rfl
      · bits_norm
        have hu : (imm / 4 % 4294967296).toNat % 64 = (imm / 4 % 64).toNat := by omega
        rw [hu]
        generalize (imm / 4 % 64).toNat = u
        rw [lor_shl_eq_add _ _ 2 (by omega), lor_shl_eq_add _ _ 7 (by omega),
            lor_shl_eq_add _ _ 9 (by omega), lor_shl_eq_add _ _ 13 (by omega)]

/-- ciw_type (c.addi4spn); `rd` is the 3-bit number -/
theorem ciwTypeN_eq (rd : Nat) (imm : Int) (op f3 : Nat) (cs : List Constraint) (h1 : rd < 8)
    (hop : op < 4) :
    ciwTypeN rd imm op f3 cs =
      if imm < 0 ∨ imm > 1023 then none
      else if imm % 4 ≠ 0 then none
      else if !csOk cs { rd := rd, imm := imm } then none
      else
        let u := (imm / 4 % 256).toNat
        some (op + rd * 4 + (u / 2 % 2) * 32 + (u % 2) * 64 + (u / 16 % 16) * 128 + (u / 4 % 4) * 2048
              + f3 * 8192) := by
  unfold ciwTypeN
  split
  · rfl
  · split
    · rfl
    · split
      · rfl
      · bits_norm
        have hu : (imm / 4 % 4294967296).toNat % 256 = (imm / 4 % 256).toNat := by omega
        rw [hu]
        generalize (imm / 4 % 256).toNat = u
        rw [lor_shl_eq_add _ _ 2 (by omega), lor_shl_eq_add _ _ 5 (by omega),
            lor_shl_eq_add _ _ 6 (by omega), lor_shl_eq_add _ _ 7 (by omega),
            lor_shl_eq_add _ _ 11 (by omega), lor_shl_eq_add _ _ 13 (by omega)]

/-- cl_type (c.lw); 3-bit registers -/
theorem clTypeN_eq (rd rs1 : Nat) (imm : Int) (op f3 : Nat) (cs : List Constraint) (h1 : rd < 8)
    (h2 : rs1 < 8) (hop : op < 4) :
    clTypeN rd rs1 imm op f3 cs =
      if imm < 0 ∨ imm > 127 then none
      else if imm % 4 ≠ 0 then none
      else if !csOk cs { rd := rd, rs1 := rs1, imm := imm } then none
      else
        let u := (imm / 4 % 32).toNat
        some (op + rd * 4 + (u / 16 % 2) * 32 + (u % 2) * 64 + rs1 * 128 + (u / 2 % 8) * 1024
              + f3 * 8192) := by
  unfold clTypeN
  split
  · rfl
  · split
    · rfl
    · split
      · rfl
      · bits_norm
        have hu : (imm / 4 % 4294967296).toNat % 32 = (imm / 4 % 32).toNat := by omega
        rw [hu]
        generalize (imm / 4 % 32).toNat = u
        rw [lor_shl_eq_add _ _ 2 (by omega), lor_shl_eq_add _ _ 5 (by omega),
            lor_shl_eq_add _ _ 6 (by omega), lor_shl_eq_add _ _ 7 (by omega),
            lor_shl_eq_add _ _ 10 (by omega), lor_shl_eq_add _ _ 13 (by omega)]

/-- cs_type (c.sw); 3-bit registers -/
theorem csTypeN_eq (rs1 rs2 : Nat) (imm : Int) (op f3 : Nat) (cs : List Constraint) (h1 : rs1 < 8)
    (h2 : rs2 < 8) (hop : op < 4) :
    csTypeN rs1 rs2 imm op f3 cs =
      if imm < 0 ∨ imm > 127 then none
      else if imm % 4 ≠ 0 then none
      else if !csOk cs { rs1 := rs1, rs2 := rs2, imm := imm } then none
      else
        let u := (imm / 4 % 32).toNat
        some (op + rs2 * 4 + (u / 16 % 2) * 32 + (u % 2) * 64 + rs1 * 128 + (u / 2 % 8) * 1024
              + f3 * 8192) := by
  unfold csTypeN
  split
  · rfl
  · split
    · rfl
    · split
      · rfl
      · bits_norm
        have hu : (imm / 4 % 4294967296).toNat % 32 = (imm / 4 % 32).toNat := by omega
        rw [hu]
        generalize (imm / 4 % 32).toNat = u
        rw [lor_shl_eq_add _ _ 2 (by omega), lor_shl_eq_add _ _ 5 (by omega),
            lor_shl_eq_add _ _ 6 (by omega), lor_shl_eq_add _ _ 7 (by omega),
            lor_shl_eq_add _ _ 10 (by omega), lor_shl_eq_add _ _ 13 (by omega)]

/-- ca_type; 3-bit registers -/
theorem caTypeN_eq (rdRs1 rs2 op f2 f6 : Nat) (cs : List Constraint) (h1 : rdRs1 < 8) (h2 : rs2 < 8)
    (hop : op < 4) (hf2 : f2 < 4) :
    caTypeN rdRs1 rs2 op f2 f6 cs =
      if !csOk cs { rdRs1 := rdRs1, rs2 := rs2 } then none
      else some (op + rs2 * 4 + f2 * 32 + rdRs1 * 128 + f6 * 1024) := by
  unfold caTypeN
  split
  · rfl
  · rw [Nat.zero_or]
    rw [lor_shl_eq_add _ _ 2 (by omega), lor_shl_eq_add _ _ 5 (by omega),
        lor_shl_eq_add _ _ 7 (by omega), lor_shl_eq_add _ _ 10 (by omega)]

/-- cb_type (c.beqz / c.bnez); 3-bit rs1 -/
theorem cbTypeN_eq (rs1 : Nat) (imm : Int) (op f3 : Nat) (cs : List Constraint) (h1 : rs1 < 8)
    (hop : op < 4) :
    cbTypeN rs1 imm op f3 cs =
      if imm < -256 ∨ imm > 255 then none
      else if imm % 2 ≠ 0 then none
      else if !csOk cs { rs1 := rs1, imm := imm } then none
      else
        let u := (imm / 2 % 256).toNat
        some (op + (u / 16 % 2) * 4 + (u % 4) * 8 + (u / 32 % 4) * 32 + rs1 * 128 + (u / 4 % 4) * 1024
              + (u / 128 % 2) * 4096 + f3 * 8192) := by
  unfold cbTypeN
  split
  · rfl
  · split
    · rfl
    · split
      · rfl
      · bits_norm
        have hu : (imm / 2 % 4294967296).toNat % 256 = (imm / 2 % 256).toNat := by omega
        rw [hu]
        generalize (imm / 2 % 256).toNat = u
        rw [lor_shl_eq_add _ _ 2 (by omega), lor_shl_eq_add _ _ 3 (by omega),
            lor_shl_eq_add _ _ 5 (by omega), lor_shl_eq_add _ _ 7 (by omega),
            lor_shl_eq_add _ _ 10 (by omega), lor_shl_eq_add _ _ 12 (by omega),
            lor_shl_eq_add _ _ 13 (by omega)]

/-- cbi_type (c.srli / c.srai / c.andi); 3-bit register -/
theorem cbiTypeN_eq (rdRs1 : Nat) (imm : Int) (op f2 f3 : Nat) (cs : List Constraint) (h1 : rdRs1 < 8)
    (hop : op < 4) (hf2 : f2 < 4) :
    cbiTypeN rdRs1 imm op f2 f3 cs =
      if imm < -32 ∨ imm > 31 then none
      else if !csOk cs { rdRs1 := rdRs1, imm := imm } then none
      else
        let u := (imm % 64).toNat
        some (op + (u % 32) * 4 + rdRs1 * 128 + f2 * 1024 + (u / 32 % 2) * 4096 + f3 * 8192) := by
  unfold cbiTypeN
  split
  · rfl
  · split
    · rfl
    · bits_norm
      have hu : (imm % 4294967296).toNat % 64 = (imm % 64).toNat := by omega
      rw [hu]
      generalize (imm % 64).toNat = u
      rw [lor_shl_eq_add _ _ 2 (by omega), lor_shl_eq_add _ _ 7 (by omega),
          lor_shl_eq_add _ _ 10 (by omega), lor_shl_eq_add _ _ 12 (by omega),
          lor_shl_eq_add _ _ 13 (by omega)]

/-- cj_type (c.j / c.jal) -/
theorem cjTypeN_eq (imm : Int) (op f3 : Nat) (cs : List Constraint) (hop : op < 4) :
    cjTypeN imm op f3 cs =
      if imm < -2048 ∨ imm > 2047 then none
      else if imm % 2 ≠ 0 then none
      else if !csOk cs { imm := imm } then none
      else
        let u := (imm / 2 % 2048).toNat
        some (op + (u / 16 % 2) * 4 + (u % 8) * 8 + (u / 64 % 2) * 64 + (u / 32 % 2) * 128
              + (u / 512 % 2) * 256 + (u / 128 % 4) * 512 + (u / 8 % 2) * 2048 + (u / 1024 % 2) * 4096
              + f3 * 8192) := by
  unfold cjTypeN
  split
  · rfl
  · split
    · rfl
    · split
      · rfl
      · bits_norm
        have hu : (imm / 2 % 4294967296).toNat % 2048 = (imm / 2 % 2048).toNat := by omega
        rw [hu]
        generalize (imm / 2 % 2048).toNat = u
        rw [lor_shl_eq_add _ _ 2 (by omega), lor_shl_eq_add _ _ 3 (by omega),
            lor_shl_eq_add _ _ 6 (by omega), lor_shl_eq_add _ _ 7 (by omega),
            lor_shl_eq_add _ _ 8 (by omega), lor_shl_eq_add _ _ 9 (by omega),
            lor_shl_eq_add _ _ 11 (by omega), lor_shl_eq_add _ _ 12 (by omega),
            lor_shl_eq_add _ _ 13 (by omega)]

end BB.Lemmas
