/-
  BB.Lemmas.ExecBasic — small facts about the specification's machine state (`BB.Spec.St`):
  register reads/writes with the hard-wired x0, extensionality, and `BitVec.ofInt` congruence.
  Core only (no Mathlib).
-/
import BB.Spec.Exec
namespace BB.Lemmas
open BB.Spec

/-- two integers that agree modulo 2^32 are the same 32-bit word -/
theorem ofInt_congr (a b : Int) (h : a % 4294967296 = b % 4294967296) :
    BitVec.ofInt 32 a = BitVec.ofInt 32 b := by
  apply BitVec.eq_of_toNat_eq
  simp only [BitVec.toNat_ofInt, Nat.reducePow]
  have e : ((4294967296 : Nat) : Int) = 4294967296 := rfl
  rw [e, h]

theorem St.ext' {a b : St} (h1 : a.reg = b.reg) (h2 : a.pc = b.pc) (h3 : a.mem = b.mem) : a = b := by
  cases a; cases b; simp only at h1 h2 h3; subst h1; subst h2; subst h3; rfl

theorem get_zero (s : St) : s.get 0 = 0 := by simp [St.get]

theorem get_set_same (s : St) (r : Nat) (v : W) (h : r ≠ 0) : (s.set r v).get r = v := by
  simp [St.get, St.set, h]

theorem get_set_other (s : St) (r q : Nat) (v : W) (h : q ≠ r) : (s.set r v).get q = s.get q := by
  unfold St.get St.set
  by_cases hr : r = 0
  · simp [hr]
  · by_cases hq : q = 0
    · simp [hq]
    · simp [hr, hq, h]

theorem set_zero (s : St) (v : W) : s.set 0 v = s := by simp [St.set]

theorem set_pc (s : St) (r : Nat) (v : W) : (s.set r v).pc = s.pc := by
  unfold St.set; split <;> rfl

theorem set_mem (s : St) (r : Nat) (v : W) : (s.set r v).mem = s.mem := by
  unfold St.set; split <;> rfl

/-- changing the pc does not disturb register reads -/
theorem get_with_pc (s : St) (p : W) (r : Nat) : ({ s with pc := p } : St).get r = s.get r := rfl

/-- writing the same register twice: the second write wins -/
theorem set_set (s : St) (r : Nat) (v w : W) : (s.set r v).set r w = s.set r w := by
  unfold St.set
  by_cases hr : r = 0
  · simp [hr]
  · simp only [hr, if_false]
    refine St.ext' ?_ rfl rfl
    funext k
    by_cases hk : k = r <;> simp [hk]

/-- a register write after a pc update = pc update after the register write -/
theorem set_with_pc (s : St) (p : W) (r : Nat) (v : W) :
    ({ s with pc := p } : St).set r v = { (s.set r v) with pc := p } := by
  unfold St.set; split <;> rfl

theorem bv_add_zero32 (a : W) : a + BitVec.ofInt 32 0 = a := by
  have : BitVec.ofInt 32 0 = (0 : W) := by decide
  rw [this]; exact BitVec.add_zero a

theorem bv_zero_add32 (a : W) : (0 : W) + a = a := BitVec.zero_add a

theorem bv_zero_sub32 (a : W) : (0 : W) - a = -a := BitVec.zero_sub a

/-! ### the two shapes of "documented effect" -/

/-- the state after an instruction (sequence) that writes `v` to `rd` (nothing if `rd = x0`), changes
    no other register and no memory, and falls through `n` bytes -/
def wrote (s : St) (rd : Nat) (v : W) (n : Nat) : St := { (s.set rd v) with pc := s.pc + BitVec.ofNat 32 n }

/-- the state after a branch: no register, no memory changed; pc += off if taken, else pc += 4 -/
def branched (s : St) (taken : Bool) (off : Int) : St :=
  if taken then { s with pc := s.pc + imm32 off } else { s with pc := s.pc + 4 }

theorem wrote_pc (s : St) (rd : Nat) (v : W) (n : Nat) : (wrote s rd v n).pc = s.pc + BitVec.ofNat 32 n := rfl

theorem wrote_get_same (s : St) (rd : Nat) (v : W) (n : Nat) (h : rd ≠ 0) : (wrote s rd v n).get rd = v := by
  unfold wrote; rw [get_with_pc, get_set_same _ _ _ h]

theorem wrote_get_other (s : St) (rd q : Nat) (v : W) (n : Nat) (h : q ≠ rd) :
    (wrote s rd v n).get q = s.get q := by
  unfold wrote; rw [get_with_pc, get_set_other _ _ _ _ h]

/-- a write to x0 is no write: the value is irrelevant -/
theorem wrote_zero (s : St) (v w : W) (n : Nat) : wrote s 0 v n = wrote s 0 w n := by
  unfold wrote; rw [set_zero, set_zero]

theorem wrote_wrote (s : St) (rd : Nat) (v w : W) (n m : Nat) :
    wrote (wrote s rd v n) rd w m = wrote s rd w (n + m) := by
  unfold wrote
  rw [set_with_pc, set_set]
  refine St.ext' rfl ?_ rfl
  show s.pc + BitVec.ofNat 32 n + BitVec.ofNat 32 m = s.pc + BitVec.ofNat 32 (n + m)
  rw [BitVec.add_assoc, BitVec.ofNat_add]

/-! ### `exec`, one equation per instruction shape (all by unfolding) -/

theorem exec_i (op : IOp) (rd rs1 : Nat) (imm : Int) (len : Nat) (s : St) :
    exec (.i op rd rs1 imm) len s = wrote s rd (aluI op (s.get rs1) imm) len := rfl

theorem exec_r (op : ROp) (rd rs1 rs2 : Nat) (len : Nat) (s : St) :
    exec (.r op rd rs1 rs2) len s = wrote s rd (aluR op (s.get rs1) (s.get rs2)) len := rfl

theorem exec_lui (rd f : Nat) (len : Nat) (s : St) :
    exec (.lui rd f) len s = wrote s rd (BitVec.ofNat 32 (f * 4096)) len := rfl

theorem exec_auipc (rd f : Nat) (len : Nat) (s : St) :
    exec (.auipc rd f) len s = wrote s rd (s.pc + BitVec.ofNat 32 (f * 4096)) len := rfl

theorem exec_jal (rd : Nat) (imm : Int) (len : Nat) (s : St) :
    exec (.jal rd imm) len s = { (s.set rd (s.pc + BitVec.ofNat 32 len)) with pc := s.pc + imm32 imm } := rfl

theorem exec_jalr (rd rs1 : Nat) (imm : Int) (len : Nat) (s : St) :
    exec (.jalr rd rs1 imm) len s =
      { (s.set rd (s.pc + BitVec.ofNat 32 len)) with pc := (s.get rs1 + imm32 imm) &&& BitVec.ofInt 32 (-2) } := rfl

theorem exec_branch (op : BrOp) (rs1 rs2 : Nat) (imm : Int) (s : St) :
    exec (.branch op rs1 rs2 imm) 4 s = branched s (brTaken op (s.get rs1) (s.get rs2)) imm := by
  simp only [exec, branched]
  rfl

/-! ### small word facts -/

theorem ult_one (a : W) : a.ult 1 = decide (a = 0) := by
  have h1 : (1 : W).toNat = 1 := rfl
  by_cases h : a = 0
  · subst h; decide
  · have hne : a.toNat ≠ 0 := fun hh => h (BitVec.eq_of_toNat_eq hh)
    simp only [BitVec.ult, h1, h, decide_false, decide_eq_false_iff_not]
    omega

theorem zero_ult (a : W) : BitVec.ult (0 : W) a = decide (a ≠ 0) := by
  have h0 : (0 : W).toNat = 0 := rfl
  by_cases h : a = 0
  · subst h; decide
  · have hne : a.toNat ≠ 0 := fun hh => h (BitVec.eq_of_toNat_eq hh)
    simp only [BitVec.ult, h0, ne_eq, h, not_false_eq_true, decide_true, decide_eq_true_eq]
    omega

theorem toInt_zero32 : (0 : W).toInt = 0 := by decide

theorem slt_zero (a : W) : a.slt 0 = decide (a.toInt < 0) := by
  unfold BitVec.slt; rw [toInt_zero32]

theorem zero_slt (a : W) : BitVec.slt (0 : W) a = decide (0 < a.toInt) := by
  unfold BitVec.slt; rw [toInt_zero32]

theorem xor_neg_one (a : W) : a ^^^ BitVec.ofInt 32 (-1) = ~~~ a := by
  have : BitVec.ofInt 32 (-1) = BitVec.allOnes 32 := by decide
  rw [this, BitVec.xor_allOnes]

/-- clearing bit 0 of an even word changes nothing (the `& ~1` of JALR) -/
theorem and_neg2_of_even (x : W) (h : x.toNat % 2 = 0) : x &&& BitVec.ofInt 32 (-2) = x := by
  apply BitVec.eq_of_toNat_eq
  have e : (BitVec.ofInt 32 (-2)).toNat = 4294967294 := by decide
  rw [BitVec.toNat_and, e]
  have hx : x.toNat < 4294967296 := x.isLt
  generalize x.toNat = n at h hx
  obtain ⟨m, rfl⟩ : ∃ m, n = m <<< 1 := ⟨n / 2, by rw [Nat.shiftLeft_eq]; omega⟩
  have hm : m < 2 ^ 31 := by rw [Nat.shiftLeft_eq] at hx; omega
  rw [show (4294967294 : Nat) = (2 ^ 31 - 1) <<< 1 from by decide, ← Nat.shiftLeft_and_distrib,
    Nat.and_two_pow_sub_one_eq_mod, Nat.mod_eq_of_lt hm]

end BB.Lemmas
