/-
  BB.Lemmas.FrontExpr — lemmas about the expression tokenizer on numerals produced by
  `Nat.toDigits` (decimal, `0x…`, `0b…`), and the parser round trip on fully parenthesised
  token lists.
-/
import BB.Expr
namespace BB

/-! ### numerals -/

theorem digitIn_digitChar : ∀ b, b ≤ 16 → ∀ m, m < b → digitIn b (Nat.digitChar m) = some m := by
  decide

theorem digitChar_facts : ∀ d, d < 16 →
    allowedChar (Nat.digitChar d) = true ∧ Nat.digitChar d ≠ '_' ∧ Nat.digitChar d ≠ ' ' ∧
    Nat.digitChar d ≠ '\t' := by decide

theorem digitChar_dec : ∀ d, d < 10 → isDigitC (Nat.digitChar d) = true := by decide

theorem digitChar_ne_zero : ∀ d, d < 16 → 0 < d → Nat.digitChar d ≠ '0' := by decide

/-- every character of a base-`b` numeral is the digit character of some `d < b` -/
theorem mem_toDigits {b n : Nat} (hb : 1 < b) {c : Char} (hc : c ∈ Nat.toDigits b n) :
    ∃ d, d < b ∧ c = Nat.digitChar d := by
  induction n using Nat.base_induction b hb with
  | single m hm =>
    rw [Nat.toDigits_of_lt_base hm] at hc
    exact ⟨m, hm, by simpa using hc⟩
  | digit m k hk hm ih =>
    rw [← Nat.toDigits_append_toDigits hb hm hk, Nat.toDigits_of_lt_base hk] at hc
    rcases List.mem_append.mp hc with h | h
    · exact ih h
    · exact ⟨k, hk, by simpa using h⟩

/-- the numeral of a positive number starts with a non-zero digit -/
theorem toDigits_head {b n : Nat} (hb : 1 < b) (hn : 0 < n) :
    ∃ d cs, 0 < d ∧ d < b ∧ Nat.toDigits b n = Nat.digitChar d :: cs := by
  induction n using Nat.base_induction b hb with
  | single m hm => exact ⟨m, [], hn, hm, Nat.toDigits_of_lt_base hm⟩
  | digit m k hk hm ih =>
    obtain ⟨d, cs, h0, h1, h2⟩ := ih hm
    refine ⟨d, cs ++ Nat.toDigits b k, h0, h1, ?_⟩
    rw [← Nat.toDigits_append_toDigits hb hm hk, h2]; rfl

/-- value of a digit string read left to right -/
def digitsVal (b : Nat) (ds : List Char) (acc : Nat) : Nat :=
  ds.foldl (fun a c => a * b + (digitIn b c).getD 0) acc

theorem digitsVal_toDigits {b n : Nat} (hb : 1 < b) (hb16 : b ≤ 16) :
    digitsVal b (Nat.toDigits b n) 0 = n := by
  induction n using Nat.base_induction b hb with
  | single m hm =>
    simp [Nat.toDigits_of_lt_base hm, digitsVal, digitIn_digitChar b hb16 m hm]
  | digit m k hk hm ih =>
    rw [← Nat.toDigits_append_toDigits hb hm hk, Nat.toDigits_of_lt_base hk]
    unfold digitsVal at *
    rw [List.foldl_append, ih]
    simp [digitIn_digitChar b hb16 k hk, Nat.mul_comm]

theorem numTail_cons_digit (b : Nat) (c : Char) (cs : List Char) (acc d : Nat)
    (hd : digitIn b c = some d) : numTail b (c :: cs) acc = numTail b cs (acc * b + d) := by
  rw [numTail.eq_def]
  simp only [hd]

/-- `numTail` runs through a block of digits -/
theorem numTail_digits (b : Nat) (ds rest : List Char) (acc : Nat)
    (h : ∀ c ∈ ds, ∃ d, digitIn b c = some d) :
    numTail b (ds ++ rest) acc = numTail b rest (digitsVal b ds acc) := by
  induction ds generalizing acc with
  | nil => rfl
  | cons c ds ih =>
    obtain ⟨d, hd⟩ := h c (List.mem_cons_self ..)
    rw [List.cons_append, numTail_cons_digit b c _ acc d hd, ih _ (fun c hc => h c (List.mem_cons_of_mem _ hc))]
    simp only [digitsVal, List.foldl_cons, hd, Option.getD_some]

theorem numTail_toDigits {b n : Nat} (hb : 1 < b) (hb16 : b ≤ 16) :
    numTail b (Nat.toDigits b n) 0 = some (n, []) := by
  have := numTail_digits b (Nat.toDigits b n) [] 0 (fun c hc => by
    obtain ⟨d, hd, rfl⟩ := mem_toDigits hb hc
    exact ⟨d, digitIn_digitChar b hb16 d hd⟩)
  rw [List.append_nil] at this
  rw [this, digitsVal_toDigits hb hb16]; rfl

theorem allowed_toDigits {b n : Nat} (hb : 1 < b) (hb16 : b ≤ 16) :
    (Nat.toDigits b n).all allowedChar = true := by
  rw [List.all_eq_true]
  intro c hc
  obtain ⟨d, hd, rfl⟩ := mem_toDigits hb hc
  exact (digitChar_facts d (by omega)).1

/-- a decimal numeral is one number token -/
theorem tokenize_dec (n : Nat) : tokenize (Nat.toDigits 10 n) = .ok [.num n] := by
  unfold tokenize
  rw [allowed_toDigits (by decide) (by decide), if_pos rfl]
  rcases Nat.eq_zero_or_pos n with rfl | hn
  · rfl
  · obtain ⟨d, cs, h0, h1, h2⟩ := toDigits_head (b := 10) (by decide) hn
    have hnt := numTail_toDigits (b := 10) (n := n) (by decide) (by decide)
    rw [h2] at hnt ⊢
    have f := digitChar_facts d (by omega)
    have hz := digitChar_ne_zero d (by omega) h0
    have hsn : scanNumber (Nat.digitChar d :: cs) = .ok (n, []) := by
      unfold scanNumber
      split <;> first
        | (rename_i heq; exact absurd (List.cons.inj heq).1 hz)
        | (rw [hnt]; rfl)
    simp only [List.length_cons, tokAux, f.2.2.1, f.2.2.2, or_self, if_false,
      digitChar_dec d (by omega), if_true, hsn]
    rfl

theorem dropUnderscore_cons (c : Char) (cs : List Char) (h : c ≠ '_') :
    dropUnderscore (c :: cs) = c :: cs := by
  unfold dropUnderscore
  split
  · rename_i heq; exact absurd (List.cons.inj heq).1 h
  · rfl

/-- a `0x` numeral is one number token -/
theorem tokenize_hex (n : Nat) : tokenize ('0' :: 'x' :: Nat.toDigits 16 n) = .ok [.num n] := by
  unfold tokenize
  have hall : ('0' :: 'x' :: Nat.toDigits 16 n).all allowedChar = true := by
    simp only [List.all_cons, allowed_toDigits (b := 16) (by decide) (by decide), Bool.and_true]
    decide
  rw [hall, if_pos rfl]
  have hnt := numTail_toDigits (b := 16) (n := n) (by decide) (by decide)
  obtain ⟨d, hd, hc⟩ : ∃ d, d < 16 ∧ ∃ cs, Nat.toDigits 16 n = Nat.digitChar d :: cs := by
    cases h : Nat.toDigits 16 n with
    | nil => exact absurd h Nat.toDigits_ne_nil
    | cons c cs =>
      obtain ⟨d, hd, rfl⟩ := mem_toDigits (b := 16) (n := n) (by decide) (h ▸ List.mem_cons_self ..)
      exact ⟨d, hd, cs, rfl⟩
  obtain ⟨cs, hcs⟩ := hc
  have f := digitChar_facts d hd
  have hsn : scanNumber ('0' :: 'x' :: Nat.toDigits 16 n) = .ok (n, []) := by
    rw [hcs] at hnt ⊢
    rw [numTail_cons_digit 16 _ _ 0 d (digitIn_digitChar 16 (by decide) d hd), Nat.zero_mul, Nat.zero_add] at hnt
    simp only [scanNumber, scanPrefixed, dropUnderscore_cons _ _ f.2.1,
      digitIn_digitChar 16 (by decide) d hd, hnt]
    rfl
  simp only [List.length_cons, tokAux, hsn]
  rfl

/-- a `0b` numeral is one number token -/
theorem tokenize_bin (n : Nat) : tokenize ('0' :: 'b' :: Nat.toDigits 2 n) = .ok [.num n] := by
  unfold tokenize
  have hall : ('0' :: 'b' :: Nat.toDigits 2 n).all allowedChar = true := by
    simp only [List.all_cons, allowed_toDigits (b := 2) (by decide) (by decide), Bool.and_true]
    decide
  rw [hall, if_pos rfl]
  have hnt := numTail_toDigits (b := 2) (n := n) (by decide) (by decide)
  obtain ⟨d, hd, hc⟩ : ∃ d, d < 2 ∧ ∃ cs, Nat.toDigits 2 n = Nat.digitChar d :: cs := by
    cases h : Nat.toDigits 2 n with
    | nil => exact absurd h Nat.toDigits_ne_nil
    | cons c cs =>
      obtain ⟨d, hd, rfl⟩ := mem_toDigits (b := 2) (n := n) (by decide) (h ▸ List.mem_cons_self ..)
      exact ⟨d, hd, cs, rfl⟩
  obtain ⟨cs, hcs⟩ := hc
  have f := digitChar_facts d (by omega)
  have hsn : scanNumber ('0' :: 'b' :: Nat.toDigits 2 n) = .ok (n, []) := by
    rw [hcs] at hnt ⊢
    rw [numTail_cons_digit 2 _ _ 0 d (digitIn_digitChar 2 (by decide) d hd), Nat.zero_mul, Nat.zero_add] at hnt
    simp only [scanNumber, scanPrefixed, dropUnderscore_cons _ _ f.2.1,
      digitIn_digitChar 2 (by decide) d hd, hnt]
    rfl
  simp only [List.length_cons, tokAux, hsn]
  rfl

/-! ### the parser on fully parenthesised token lists -/

def unTok : UnOp → Tok
  | .pos => .plus | .neg => .minus | .inv => .tilde

def binTok : BinOp → Tok
  | .add => .plus | .sub => .minus | .mul => .star | .floordiv => .dslash | .truediv => .slash
  | .mod => .percent | .shl => .shl | .shr => .shr | .band => .amp | .bxor => .caret | .bor => .bar

/-- fully parenthesised rendering: every operand of every operator is wrapped in parentheses -/
def renderAst : Ast → List Tok
  | .lit n => [.num n]
  | .name s => [.name s]
  | .unary u a => unTok u :: .lparen :: (renderAst a ++ [.rparen])
  | .binary o a b => .lparen :: (renderAst a ++ (.rparen :: binTok o :: .lparen :: (renderAst b ++ [.rparen])))

/-- fuel that certainly suffices to parse `renderAst a` -/
def parseCost : Ast → Nat
  | .lit _ => 2
  | .name _ => 2
  | .unary _ a => parseCost a + 3
  | .binary _ a b => parseCost a + parseCost b + 4

/-- what may follow a complete sub-expression: the end of input or a closing parenthesis -/
def ClosesExpr (rest : List Tok) : Prop := rest = [] ∨ ∃ r, rest = .rparen :: r

theorem parseBin_ok {f mp : Nat} {toks r : List Tok} {lhs : Ast}
    (h : parseUnary f toks = .ok (lhs, r)) : parseBin (f+1) mp toks = climb f mp lhs r := by
  rw [parseBin, h]

theorem parseUnary_lparen_ok {f : Nat} {r r' : List Tok} {e : Ast}
    (h : parseBin f 0 r = .ok (e, .rparen :: r')) : parseUnary (f+1) (.lparen :: r) = noCall e r' := by
  rw [parseUnary, h]

theorem parseUnary_un {f : Nat} (u : UnOp) {r r' : List Tok} {e : Ast}
    (h : parseUnary f r = .ok (e, r')) : parseUnary (f+1) (unTok u :: r) = .ok (.unary u e, r') := by
  cases u <;> rw [unTok, parseUnary, h] <;> rfl

theorem climb_step {f mp prec : Nat} {op : BinOp} {lhs rhs : Ast} {t : Tok} {r r' : List Tok}
    (h1 : binInfo t = some (prec, op)) (h2 : prec ≥ mp) (h3 : parseBin f (prec + 1) r = .ok (rhs, r')) :
    climb (f+1) mp lhs (t :: r) = climb f mp (.binary op lhs rhs) r' := by
  rw [climb, h1]
  simp only [h2, if_true, h3]

theorem climb_closes {f mp : Nat} {lhs : Ast} {rest : List Tok} (h : ClosesExpr rest) :
    climb (f+1) mp lhs rest = .ok (lhs, rest) := by
  rcases h with rfl | ⟨r, rfl⟩
  · rw [climb]
  · rw [climb]; rfl

theorem noCall_closes {a : Ast} {rest : List Tok} (h : ClosesExpr rest) : noCall a rest = .ok (a, rest) := by
  rcases h with rfl | ⟨r, rfl⟩ <;> rfl

theorem binInfo_binTok (o : BinOp) : ∃ p, binInfo (binTok o) = some (p, o) := by
  cases o <;> exact ⟨_, rfl⟩

theorem noCall_binTok (a : Ast) (o : BinOp) (r : List Tok) : noCall a (binTok o :: r) = .ok (a, binTok o :: r) := by
  cases o <;> rfl

/-- parsing the rendering of `a`, followed by something that closes it, returns `a` -/
theorem parseBin_render (a : Ast) :
    ∀ (fuel : Nat) (rest : List Tok), parseCost a ≤ fuel → ClosesExpr rest →
      parseBin fuel 0 (renderAst a ++ rest) = .ok (a, rest) := by
  induction a with
  | lit n =>
    intro fuel rest hf hc
    obtain ⟨f, rfl⟩ : ∃ f, fuel = f + 2 := ⟨fuel - 2, by simp only [parseCost] at hf; omega⟩
    have h1 : parseUnary (f+1) (renderAst (.lit n) ++ rest) = .ok (.lit n, rest) := by
      simp only [renderAst, List.cons_append, List.nil_append]
      rw [parseUnary]; exact noCall_closes hc
    rw [parseBin_ok h1, climb_closes hc]
  | name s =>
    intro fuel rest hf hc
    obtain ⟨f, rfl⟩ : ∃ f, fuel = f + 2 := ⟨fuel - 2, by simp only [parseCost] at hf; omega⟩
    have h1 : parseUnary (f+1) (renderAst (.name s) ++ rest) = .ok (.name s, rest) := by
      simp only [renderAst, List.cons_append, List.nil_append]
      rw [parseUnary]; exact noCall_closes hc
    rw [parseBin_ok h1, climb_closes hc]
  | unary u a ih =>
    intro fuel rest hf hc
    simp only [parseCost] at hf
    obtain ⟨f, rfl⟩ : ∃ f, fuel = f + 3 := ⟨fuel - 3, by omega⟩
    have h0 : parseBin f 0 (renderAst a ++ (.rparen :: rest)) = .ok (a, .rparen :: rest) :=
      ih f _ (by omega) (.inr ⟨rest, rfl⟩)
    have h1 : parseUnary (f+1) (.lparen :: (renderAst a ++ (.rparen :: rest))) = .ok (a, rest) := by
      rw [parseUnary_lparen_ok h0]; exact noCall_closes hc
    have h2 : parseUnary (f+2) (renderAst (.unary u a) ++ rest) = .ok (.unary u a, rest) := by
      simp only [renderAst, List.cons_append, List.append_assoc, List.nil_append]
      exact parseUnary_un u h1
    rw [parseBin_ok h2, climb_closes hc]
  | binary o a b iha ihb =>
    intro fuel rest hf hc
    simp only [parseCost] at hf
    obtain ⟨f, rfl⟩ : ∃ f, fuel = f + 4 := ⟨fuel - 4, by omega⟩
    obtain ⟨p, hp⟩ := binInfo_binTok o
    -- the right operand, parsed inside the climbing loop
    have hb0 : parseBin f 0 (renderAst b ++ (.rparen :: rest)) = .ok (b, .rparen :: rest) :=
      ihb f _ (by omega) (.inr ⟨rest, rfl⟩)
    have hb1 : parseUnary (f+1) (.lparen :: (renderAst b ++ (.rparen :: rest))) = .ok (b, rest) := by
      rw [parseUnary_lparen_ok hb0]; exact noCall_closes hc
    have hb2 : parseBin (f+2) (p+1) (.lparen :: (renderAst b ++ (.rparen :: rest))) = .ok (b, rest) := by
      rw [parseBin_ok hb1, climb_closes hc]
    -- the left operand
    have ha0 : parseBin (f+2) 0 (renderAst a ++ (.rparen :: binTok o :: .lparen :: (renderAst b ++ (.rparen :: rest)))) =
        .ok (a, .rparen :: binTok o :: .lparen :: (renderAst b ++ (.rparen :: rest))) :=
      iha (f+2) _ (by omega) (.inr ⟨_, rfl⟩)
    have ha1 : parseUnary (f+3) (renderAst (.binary o a b) ++ rest) =
        .ok (a, binTok o :: .lparen :: (renderAst b ++ (.rparen :: rest))) := by
      simp only [renderAst, List.cons_append, List.append_assoc, List.nil_append]
      rw [parseUnary_lparen_ok ha0]; exact noCall_binTok _ _ _
    rw [parseBin_ok ha1, climb_step hp (Nat.zero_le _) hb2, climb_closes hc]

theorem cost_le_fuel (a : Ast) : parseCost a ≤ parseFuel (renderAst a) := by
  unfold parseFuel
  induction a with
  | lit n => simp [parseCost, renderAst]
  | name s => simp [parseCost, renderAst]
  | unary u a ih => simp only [parseCost, renderAst, List.length_cons, List.length_append, List.length_nil]; omega
  | binary o a b iha ihb =>
    simp only [parseCost, renderAst, List.length_cons, List.length_append, List.length_nil]; omega

/-- **parser round trip**: the fully parenthesised rendering of any syntax tree parses back to it -/
theorem parseExpr_render (a : Ast) : parseExpr (renderAst a) = .ok a := by
  have := parseBin_render a (parseFuel (renderAst a)) [] (cost_le_fuel a) (.inl rfl)
  rw [List.append_nil] at this
  unfold parseExpr
  rw [this]

end BB
