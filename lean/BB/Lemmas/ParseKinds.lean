/-
  BB.Lemmas.ParseKinds — what `parse_item` builds for a machine-instruction line is an instruction item of the
  class its format dictionary names: `parseItemHead_instr` (the item's mnemonic is the lower-cased head token,
  which is in the dictionary of the item's constructor; the auipc-pair mark is not set), and for the 32-bit
  classes the dictionary agrees with the encoder table, hence `Instr.wellKinded` (`parseItem_wellKinded`).
-/
import BB.Parse
import BB.Lemmas.CompressDecide
namespace BB.Lemmas
open BB

/-- the format dictionary of an instruction item's constructor -/
def dictOf : Instr → String
  | .r .. => "R_TYPE_INSTRUCTIONS" | .i .. => "I_TYPE_INSTRUCTIONS" | .ie .. => "IE_TYPE_INSTRUCTIONS"
  | .s .. => "S_TYPE_INSTRUCTIONS" | .b .. => "B_TYPE_INSTRUCTIONS" | .u .. => "U_TYPE_INSTRUCTIONS"
  | .j .. => "J_TYPE_INSTRUCTIONS" | .fence .. => "FENCE_INSTRUCTIONS" | .a .. => "A_TYPE_INSTRUCTIONS"
  | .al .. => "AL_TYPE_INSTRUCTIONS" | .cr .. => "CR_TYPE_INSTRUCTIONS" | .crj .. => "CRJ_TYPE_INSTRUCTIONS"
  | .cre .. => "CRE_TYPE_INSTRUCTIONS" | .ci .. => "CI_TYPE_INSTRUCTIONS" | .cia .. => "CIA_TYPE_INSTRUCTIONS"
  | .cin .. => "CIN_TYPE_INSTRUCTIONS" | .css .. => "CSS_TYPE_INSTRUCTIONS" | .ciw .. => "CIW_TYPE_INSTRUCTIONS"
  | .cl .. => "CL_TYPE_INSTRUCTIONS" | .cs .. => "CS_TYPE_INSTRUCTIONS" | .ca .. => "CA_TYPE_INSTRUCTIONS"
  | .cb .. => "CB_TYPE_INSTRUCTIONS" | .cj .. => "CJ_TYPE_INSTRUCTIONS"

/-- one branch of `parseItemHead`, once its guard is known -/
local macro "pk_leaf" h:ident : tactic => `(tactic| (
  try simp only [withImm] at $h:ident
  repeat' (split at $h:ident)
  all_goals first
    | (cases $h:ident; done)
    | (simp only [Except.ok.injEq, Item.instr.injEq] at $h:ident
       have h1 := ($h).1
       have h2 := ($h).2
       subst h1
       subst h2
       exact ⟨rfl, rfl, by simp only [dictOf]; assumption, rfl⟩)))

/-- **what `parseItemHead` returns when it returns an instruction item** -/
theorem parseItemHead_instr {line l : Line} {head : String} {tokens : List String} {ins : Instr}
    (h : parseItemHead line head tokens = .ok (.instr l ins)) :
    l = line ∧ ins.name = head ∧ inDict (dictOf ins) head = true ∧ ins.isAuipcJump = false := by
  unfold parseItemHead at h
  by_cases c0 : head = "error"
  · rw [if_pos c0] at h
    pk_leaf h
  rw [if_neg c0] at h
  by_cases c1 : head = "include_bytes"
  · rw [if_pos c1] at h
    pk_leaf h
  rw [if_neg c1] at h
  by_cases c2 : head = "string"
  · rw [if_pos c2] at h
    pk_leaf h
  rw [if_neg c2] at h
  by_cases c3 : numericSequenceNamesM.contains head = true
  · rw [if_pos c3] at h
    pk_leaf h
  rw [if_neg c3] at h
  by_cases c4 : head = "pack"
  · rw [if_pos c4] at h
    pk_leaf h
  rw [if_neg c4] at h
  by_cases c5 : shorthandPackNamesM.contains head = true
  · rw [if_pos c5] at h
    pk_leaf h
  rw [if_neg c5] at h
  by_cases c6 : head = "align"
  · rw [if_pos c6] at h
    pk_leaf h
  rw [if_neg c6] at h
  by_cases c7 : inDict "R_TYPE_INSTRUCTIONS" head = true
  · rw [if_pos c7] at h
    pk_leaf h
  rw [if_neg c7] at h
  by_cases c8 : inDict "I_TYPE_INSTRUCTIONS" head = true
  · rw [if_pos c8] at h
    pk_leaf h
  rw [if_neg c8] at h
  by_cases c9 : inDict "IE_TYPE_INSTRUCTIONS" head = true
  · rw [if_pos c9] at h
    pk_leaf h
  rw [if_neg c9] at h
  by_cases c10 : inDict "S_TYPE_INSTRUCTIONS" head = true
  · rw [if_pos c10] at h
    pk_leaf h
  rw [if_neg c10] at h
  by_cases c11 : inDict "B_TYPE_INSTRUCTIONS" head = true
  · rw [if_pos c11] at h
    pk_leaf h
  rw [if_neg c11] at h
  by_cases c12 : inDict "U_TYPE_INSTRUCTIONS" head = true
  · rw [if_pos c12] at h
    pk_leaf h
  rw [if_neg c12] at h
  by_cases c13 : inDict "J_TYPE_INSTRUCTIONS" head = true
  · rw [if_pos c13] at h
    pk_leaf h
  rw [if_neg c13] at h
  by_cases c14 : inDict "FENCE_INSTRUCTIONS" head = true
  · rw [if_pos c14] at h
    pk_leaf h
  rw [if_neg c14] at h
  by_cases c15 : inDict "A_TYPE_INSTRUCTIONS" head = true
  · rw [if_pos c15] at h
    pk_leaf h
  rw [if_neg c15] at h
  by_cases c16 : inDict "AL_TYPE_INSTRUCTIONS" head = true
  · rw [if_pos c16] at h
    pk_leaf h
  rw [if_neg c16] at h
  by_cases c17 : inDict "CR_TYPE_INSTRUCTIONS" head = true
  · rw [if_pos c17] at h
    pk_leaf h
  rw [if_neg c17] at h
  by_cases c18 : inDict "CRJ_TYPE_INSTRUCTIONS" head = true
  · rw [if_pos c18] at h
    pk_leaf h
  rw [if_neg c18] at h
  by_cases c19 : inDict "CRE_TYPE_INSTRUCTIONS" head = true
  · rw [if_pos c19] at h
    pk_leaf h
  rw [if_neg c19] at h
  by_cases c20 : inDict "CI_TYPE_INSTRUCTIONS" head = true
  · rw [if_pos c20] at h
    pk_leaf h
  rw [if_neg c20] at h
  by_cases c21 : inDict "CIA_TYPE_INSTRUCTIONS" head = true
  · rw [if_pos c21] at h
    pk_leaf h
  rw [if_neg c21] at h
  by_cases c22 : inDict "CIN_TYPE_INSTRUCTIONS" head = true
  · rw [if_pos c22] at h
    pk_leaf h
  rw [if_neg c22] at h
  by_cases c23 : inDict "CSS_TYPE_INSTRUCTIONS" head = true
  · rw [if_pos c23] at h
    pk_leaf h
  rw [if_neg c23] at h
  by_cases c24 : inDict "CIW_TYPE_INSTRUCTIONS" head = true
  · rw [if_pos c24] at h
    pk_leaf h
  rw [if_neg c24] at h
  by_cases c25 : inDict "CL_TYPE_INSTRUCTIONS" head = true
  · rw [if_pos c25] at h
    pk_leaf h
  rw [if_neg c25] at h
  by_cases c26 : inDict "CS_TYPE_INSTRUCTIONS" head = true
  · rw [if_pos c26] at h
    pk_leaf h
  rw [if_neg c26] at h
  by_cases c27 : inDict "CA_TYPE_INSTRUCTIONS" head = true
  · rw [if_pos c27] at h
    pk_leaf h
  rw [if_neg c27] at h
  by_cases c28 : inDict "CB_TYPE_INSTRUCTIONS" head = true
  · rw [if_pos c28] at h
    pk_leaf h
  rw [if_neg c28] at h
  by_cases c29 : inDict "CJ_TYPE_INSTRUCTIONS" head = true
  · rw [if_pos c29] at h
    pk_leaf h
  rw [if_neg c29] at h
  by_cases c30 : pseudoInstructionNames.contains head = true
  · rw [if_pos c30] at h
    pk_leaf h
  rw [if_neg c30] at h
  cases h

/-! ### the format dictionaries agree with the encoder table (32-bit classes) -/

/-- every mnemonic of dictionary `d` has an encoder row whose kind is that of the item class of `sample` -/
def dictAgrees (d : String) (sample : Instr) : Bool :=
  ((formatDicts.lookup d).getD []).all (fun n =>
    match instrTable.lookup n with
    | some k => kindMatches k sample
    | none => false)

theorem inDict_lookup {d head : String} {sample : Instr} (hd : dictAgrees d sample = true) (h : inDict d head = true) :
    ∃ k, instrTable.lookup head = some k ∧ kindMatches k sample = true := by
  unfold inDict at h
  unfold dictAgrees at hd
  cases hl : formatDicts.lookup d with
  | none => simp [hl] at h
  | some names =>
    simp only [hl, Option.getD_some] at h hd
    have hm : head ∈ names := by simpa using h
    have := List.all_eq_true.mp hd head hm
    split at this
    · rename_i k hk
      exact ⟨k, hk, this⟩
    · cases this

/-- `kindMatches` looks at the constructor of the instruction only -/
theorem kindMatches_congr {k : EncKind} {a b : Instr} (h : dictOf a = dictOf b) : kindMatches k a = kindMatches k b := by
  cases a <;> cases b <;> first | (simp [dictOf] at h; done) | (cases k <;> rfl)

theorem wellKinded_of_inDict {ins : Instr} (hc : ins.isCompressed = false) (h : inDict (dictOf ins) ins.name = true) :
    ins.wellKinded = true := by
  have key : ∀ sample : Instr, dictOf sample = dictOf ins → dictAgrees (dictOf ins) sample = true → ins.wellKinded = true := by
    intro sample hs hd
    obtain ⟨k, hk, hm⟩ := inDict_lookup hd h
    unfold Instr.wellKinded
    rw [hk]
    simp only
    rw [kindMatches_congr hs.symm]
    exact hm
  cases ins with
  | r n a b c => exact key (.r "" (.int 0) (.int 0) (.int 0)) rfl (by simp only [dictOf]; decide)
  | i n a b im f => exact key (.i "" (.int 0) (.int 0) (.value 0) false) rfl (by simp only [dictOf]; decide)
  | ie n => exact key (.ie "") rfl (by simp only [dictOf]; decide)
  | s n a b im => exact key (.s "" (.int 0) (.int 0) (.value 0)) rfl (by simp only [dictOf]; decide)
  | b n a b im => exact key (.b "" (.int 0) (.int 0) (.value 0)) rfl (by simp only [dictOf]; decide)
  | u n a im => exact key (.u "" (.int 0) (.value 0)) rfl (by simp only [dictOf]; decide)
  | j n a im => exact key (.j "" (.int 0) (.value 0)) rfl (by simp only [dictOf]; decide)
  | fence n a b => exact key (.fence "" (.int 0) (.int 0)) rfl (by simp only [dictOf]; decide)
  | a n a b c aq rl => exact key (.a "" (.int 0) (.int 0) (.int 0) (.int 0) (.int 0)) rfl (by simp only [dictOf]; decide)
  | al n a b aq rl => exact key (.al "" (.int 0) (.int 0) (.int 0) (.int 0)) rfl (by simp only [dictOf]; decide)
  | _ => simp [Instr.isCompressed] at hc

/-! ### `parse_item` -/

/-- an instruction item returned by `parseItem` comes from `parseItemHead` on the lower-cased head token -/
theorem parseItem_instr {line l : Line} {tokens : List String} {ins : Instr}
    (h : parseItem line tokens = .ok (.instr l ins)) :
    ∃ t0 rest, tokens = t0 :: rest ∧ parseItemHead line (lowerS t0) tokens = .ok (.instr l ins) := by
  unfold parseItem at h
  repeat' (split at h)
  all_goals first
    | (cases h; done)
    | exact ⟨_, _, rfl, h⟩

/-- **what the parser builds for a machine-instruction line**: the item carries the line it was parsed from,
    its mnemonic is the lower-cased first token, the auipc-pair mark is not set, and — if it is not one of the
    `c.*` classes — its item class is the one the encoder table lists for the mnemonic (`wellKinded`) -/
theorem parseItem_wellKinded {line l : Line} {tokens : List String} {ins : Instr}
    (h : parseItem line tokens = .ok (.instr l ins)) :
    l = line ∧ (∃ t0 rest, tokens = t0 :: rest ∧ ins.name = lowerS t0) ∧ ins.isAuipcJump = false ∧
      (ins.isCompressed = false → ins.wellKinded = true) := by
  obtain ⟨t0, rest, e, hh⟩ := parseItem_instr h
  obtain ⟨h1, h2, h3, h4⟩ := parseItemHead_instr hh
  refine ⟨h1, ⟨t0, rest, e, h2⟩, h4, fun hc => wellKinded_of_inDict hc ?_⟩
  rw [h2]; exact h3

end BB.Lemmas
