/-
  BB.Lemmas.Bits — arithmetic normal forms for the Python-shaped bit manipulation.
-/
import BB.Model
namespace BB.Lemmas
open BB

theorem lor_shl_eq_add (a b k : Nat) (h : a < 2 ^ k) : a ||| (b <<< k) = a + b * 2 ^ k := by
  rw [Nat.or_comm, ← Nat.shiftLeft_add_eq_or_of_lt h, Nat.shiftLeft_eq, Nat.add_comm]

theorem shr_eq_div (x k : Nat) : x >>> k = x / 2 ^ k := Nat.shiftRight_eq_div_pow x k

theorem and_1 (x : Nat) : x &&& 0b1 = x % 2 := Nat.and_two_pow_sub_one_eq_mod x 1
theorem and_3 (x : Nat) : x &&& 0b11 = x % 4 := Nat.and_two_pow_sub_one_eq_mod x 2
theorem and_7 (x : Nat) : x &&& 0b111 = x % 8 := Nat.and_two_pow_sub_one_eq_mod x 3
theorem and_15 (x : Nat) : x &&& 0b1111 = x % 16 := Nat.and_two_pow_sub_one_eq_mod x 4
theorem and_31 (x : Nat) : x &&& 0b11111 = x % 32 := Nat.and_two_pow_sub_one_eq_mod x 5
theorem and_63 (x : Nat) : x &&& 0b111111 = x % 64 := Nat.and_two_pow_sub_one_eq_mod x 6
theorem and_127 (x : Nat) : x &&& 0b1111111 = x % 128 := Nat.and_two_pow_sub_one_eq_mod x 7
theorem and_255 (x : Nat) : x &&& 0b11111111 = x % 256 := Nat.and_two_pow_sub_one_eq_mod x 8
theorem and_1023 (x : Nat) : x &&& 0b1111111111 = x % 1024 := Nat.and_two_pow_sub_one_eq_mod x 10
theorem and_2047 (x : Nat) : x &&& 0b11111111111 = x % 2048 := Nat.and_two_pow_sub_one_eq_mod x 11
theorem and_4095 (x : Nat) : x &&& 0b111111111111 = x % 4096 := Nat.and_two_pow_sub_one_eq_mod x 12
theorem and_fffff (x : Nat) : x &&& 0b11111111111111111111 = x % 1048576 :=
  Nat.and_two_pow_sub_one_eq_mod x 20

theorem cU32_def (x : Int) : cU32 x = (x % 4294967296).toNat := rfl
theorem pyShr_def (a : Int) (n : Nat) : pyShr a n = a / (2 ^ n : Int) := rfl

/-- simp set that turns the Python-shaped scatter code into `/`, `%`, `+`, `*` on literals -/
macro "bits_norm" : tactic =>
  `(tactic| simp only [and_1, and_3, and_7, and_15, and_31, and_63, and_127, and_255, and_1023, and_2047,
      and_4095, and_fffff, shr_eq_div, cU32_def, pyShr_def, Nat.reducePow, Int.reducePow, Nat.zero_or])

end BB.Lemmas
