/-
  BB.Lemmas.DfuBasic — small facts used by the DFU proofs: iteration of `step`, the wire codec
  of GETSTATUS (device encodes, host decodes), the address codec of DfuSe commands.
-/
import BB.Dfu.Run
namespace BB.Dfu

/-! ### iterating `step` -/

theorem steps_add (h : HostCfg) (a b : Nat) (c : Config) : steps h (a + b) c = steps h b (steps h a c) := by
  induction a generalizing c with
  | zero => simp [steps]
  | succ a ih => rw [Nat.succ_add]; simp [steps, ih]

theorem steps_one (h : HostCfg) (c : Config) : steps h 1 c = step h c := rfl

theorem steps_succ (h : HostCfg) (n : Nat) (c : Config) : steps h (n + 1) c = steps h n (step h c) := rfl

theorem steps_succ' (h : HostCfg) (n : Nat) (c : Config) : steps h (n + 1) c = step h (steps h n c) := by
  rw [steps_add]; rfl

theorem step_halted (h : HostCfg) (c : Config) (hx : c.exit.isSome) : step h c = c := by
  unfold step
  cases he : c.exit with
  | none => simp [he] at hx
  | some e => rfl

theorem steps_halted (h : HostCfg) (n : Nat) (c : Config) (hx : c.exit.isSome) : steps h n c = c := by
  induction n with
  | zero => rfl
  | succ n ih => rw [steps_succ, step_halted h c hx, ih]

/-- once halted, more fuel changes nothing -/
theorem steps_mono (h : HostCfg) (a b : Nat) (c : Config) (hab : a ≤ b) (hx : (steps h a c).exit.isSome) :
    steps h b c = steps h a c := by
  obtain ⟨k, rfl⟩ := Nat.exists_eq_add_of_le hab
  rw [steps_add, steps_halted h k _ hx]

/-! ### GETSTATUS on the wire -/

theorem timeout_bits (t : Nat) :
    (t / 65536 % 256) <<< 16 ||| (t / 256 % 256) <<< 8 ||| t % 256 = t % 16777216 := by
  have h1 : (t / 65536 % 256) <<< 16 ||| (t / 256 % 256) <<< 8 = ((t / 65536 % 256) <<< 8 ||| (t / 256 % 256)) <<< 8 := by
    rw [Nat.shiftLeft_or_distrib, ← Nat.shiftLeft_add]
  have hb : t / 256 % 256 < 2 ^ 8 := by omega
  have ha : t % 256 < 2 ^ 8 := by omega
  rw [h1, ← Nat.shiftLeft_add_eq_or_of_lt hb, ← Nat.shiftLeft_add_eq_or_of_lt ha]
  simp only [Nat.shiftLeft_eq]
  omega

/-- the host reads back what the device put on the wire: status mod 256, timeout mod 2^24, state -/
theorem parse_statusReply (s t st : Nat) :
    parseStatus (statusReply s t st) = some (s % 256, t % 16777216, st) := by
  simp [parseStatus, statusReply, timeout_bits]

theorem take6_statusReply (s t st : Nat) : (statusReply s t st).take 6 = statusReply s t st := by
  simp [statusReply]

/-! ### DfuSe addresses on the wire -/

theorem fromLE_leBytes4 (a : Nat) (h : a < 4294967296) :
    fromLE [a % 256, a / 256 % 256, a / 256 / 256 % 256, a / 256 / 256 / 256 % 256] = a := by
  simp only [fromLE]
  omega

theorem decode_eraseCmd (ptr a : Nat) (h : a < 4294967296) :
    decodeOp ptr 0 (eraseCmd a) = some (.erase a) := by
  simp [decodeOp, eraseCmd, leBytes, fromLE_leBytes4 a h]

theorem decode_setAddrCmd (ptr a : Nat) (h : a < 4294967296) :
    decodeOp ptr 0 (setAddrCmd a) = some (.setAddr a) := by
  simp [decodeOp, setAddrCmd, leBytes, fromLE_leBytes4 a h, cmdSetAddress, cmdErase]

theorem decode_write (ptr : Nat) (data : List Nat) (h : data.length ≤ 2048) :
    decodeOp ptr 2 data = some (.write ptr data) := by
  simp [decodeOp, h]

end BB.Dfu
