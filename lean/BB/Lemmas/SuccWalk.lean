/-
  BB.Lemmas.SuccWalk — when a `walk` succeeds, and where the items of its output come from; evaluation
  of immediates that does not depend on label VALUES (only on which labels are defined).
-/
import BB.Lemmas.TwoRunCorr
set_option linter.unusedSimpArgs false
set_option linter.unusedVariables false
namespace BB.Lemmas
open BB BB.Spec

/-- every name of `K` has a value in the table -/
def Defined (K : List String) (L : Dict) : Prop := ∀ ref ∈ K, (L.get ref).isSome = true

theorem Defined.shift {K : List String} {L : Dict} (h : Defined K L) (p n : Int) : Defined K (L.shiftAbove p n) := by
  intro ref hr
  rw [Dict.get_shiftAbove]
  have := h ref hr
  cases hg : L.get ref with
  | none => rw [hg] at this; simp at this
  | some v => simp

/-- a walk succeeds if the body succeeds on every item at every position and every table that defines `K` -/
theorem walk_ok_of {f : Item → Int → Dict → Except Err (List Item × Int)} (K : List String) (G : List Item)
    (h : ∀ it ∈ G, (∀ l n, it ≠ .label l n) → ∀ q Lq, Defined K Lq → ∃ r, f it q Lq = .ok r) :
    ∀ (p : Int) (L : Dict), Defined K L → ∃ out, walk f G p L = .ok out := by
  induction G with
  | nil => intro p L _; exact ⟨_, rfl⟩
  | cons it rest ih =>
    intro p L hL
    have ih' := ih (fun x hx => h x (List.mem_cons_of_mem _ hx))
    by_cases hl : ∃ l n, it = .label l n
    · obtain ⟨l, n, rfl⟩ := hl
      obtain ⟨⟨o, l2⟩, ho⟩ := ih' p L hL
      exact ⟨(.label l n :: o, l2), by simp only [walk, bind, Except.bind, ho, pure, Except.pure]⟩
    · have hnl : ∀ l n, it ≠ .label l n := fun l n e => hl ⟨l, n, e⟩
      obtain ⟨⟨repl, n⟩, hb⟩ := h it List.mem_cons_self hnl p L hL
      obtain ⟨⟨o, l2⟩, ho⟩ := ih' (p + sizeSum repl) (L.shiftAbove p n) (hL.shift p n)
      exact ⟨(repl ++ o, l2), by rw [walk_cons_of_not_label hnl]; simp only [bind, Except.bind, hb, ho, pure, Except.pure]⟩

/-- where the items of the output come from -/
theorem walk_out_mem {f : Item → Int → Dict → Except Err (List Item × Int)} (K : List String) (G : List Item) :
    ∀ (p : Int) (L : Dict) (G' : List Item) (L' : Dict), Defined K L → walk f G p L = .ok (G', L') →
    Defined K L' ∧ ∀ x ∈ G', x ∈ G ∨
      ∃ it ∈ G, (∀ l n, it ≠ .label l n) ∧ ∃ q Lq repl n, Defined K Lq ∧ f it q Lq = .ok (repl, n) ∧ x ∈ repl := by
  induction G with
  | nil =>
    intro p L G' L' hL h
    simp only [walk, Except.ok.injEq, Prod.mk.injEq] at h
    rw [← h.1, ← h.2]
    exact ⟨hL, fun x hx => by simp at hx⟩
  | cons it rest ih =>
    intro p L G' L' hL h
    by_cases hl : ∃ l n, it = .label l n
    · obtain ⟨l, n, rfl⟩ := hl
      simp only [walk, bind, Except.bind] at h
      cases hr : walk f rest p L with
      | error e => simp [hr] at h
      | ok r =>
        obtain ⟨o, l2⟩ := r
        simp only [hr, pure, Except.pure, Except.ok.injEq, Prod.mk.injEq] at h
        obtain ⟨d, m⟩ := ih p L o l2 hL hr
        rw [← h.1, ← h.2]
        refine ⟨d, ?_⟩
        intro x hx
        rcases List.mem_cons.mp hx with rfl | hx
        · exact Or.inl List.mem_cons_self
        · rcases m x hx with hm | ⟨it, hit, rest'⟩
          · exact Or.inl (List.mem_cons_of_mem _ hm)
          · exact Or.inr ⟨it, List.mem_cons_of_mem _ hit, rest'⟩
    · have hnl : ∀ l n, it ≠ .label l n := fun l n e => hl ⟨l, n, e⟩
      rw [walk_cons_of_not_label hnl] at h
      simp only [bind, Except.bind] at h
      cases hb : f it p L with
      | error e => simp [hb] at h
      | ok rn =>
        obtain ⟨repl, n⟩ := rn
        simp only [hb] at h
        cases hr : walk f rest (p + sizeSum repl) (L.shiftAbove p n) with
        | error e => simp [hr] at h
        | ok r =>
          obtain ⟨o, l2⟩ := r
          simp only [hr, pure, Except.pure, Except.ok.injEq, Prod.mk.injEq] at h
          obtain ⟨d, m⟩ := ih _ _ o l2 (hL.shift p n) hr
          rw [← h.1, ← h.2]
          refine ⟨d, ?_⟩
          intro x hx
          rcases List.mem_append.mp hx with hx | hx
          · exact Or.inr ⟨it, List.mem_cons_self, hnl, p, L, repl, n, hL, hb, hx⟩
          · rcases m x hx with hm | ⟨it', hit, rest'⟩
            · exact Or.inl (List.mem_cons_of_mem _ hm)
            · exact Or.inr ⟨it', List.mem_cons_of_mem _ hit, rest'⟩

/-- every item of the input was handed to the body, and what it turned into is in the output -/
theorem walk_forward {f : Item → Int → Dict → Except Err (List Item × Int)} (K : List String) (G : List Item) :
    ∀ (p : Int) (L : Dict) (G' : List Item) (L' : Dict), Defined K L → walk f G p L = .ok (G', L') →
    ∀ it ∈ G, (∀ l n, it ≠ .label l n) →
      ∃ q Lq repl n, Defined K Lq ∧ f it q Lq = .ok (repl, n) ∧ ∀ x ∈ repl, x ∈ G' := by
  induction G with
  | nil => intro p L G' L' _ _ it hit; simp at hit
  | cons it0 rest ih =>
    intro p L G' L' hL h it hit hnl
    by_cases hl : ∃ l n, it0 = .label l n
    · obtain ⟨l, n, rfl⟩ := hl
      simp only [walk, bind, Except.bind] at h
      cases hr : walk f rest p L with
      | error e => simp [hr] at h
      | ok r =>
        obtain ⟨o, l2⟩ := r
        simp only [hr, pure, Except.pure, Except.ok.injEq, Prod.mk.injEq] at h
        rcases List.mem_cons.mp hit with rfl | hit
        · exact absurd rfl (hnl l n)
        · obtain ⟨q, Lq, repl, n', d, e, m⟩ := ih p L o l2 hL hr it hit hnl
          exact ⟨q, Lq, repl, n', d, e, fun x hx => by rw [← h.1]; exact List.mem_cons_of_mem _ (m x hx)⟩
    · have hnl0 : ∀ l n, it0 ≠ .label l n := fun l n e => hl ⟨l, n, e⟩
      rw [walk_cons_of_not_label hnl0] at h
      simp only [bind, Except.bind] at h
      cases hb : f it0 p L with
      | error e => simp [hb] at h
      | ok rn =>
        obtain ⟨repl, n⟩ := rn
        simp only [hb] at h
        cases hr : walk f rest (p + sizeSum repl) (L.shiftAbove p n) with
        | error e => simp [hr] at h
        | ok r =>
          obtain ⟨o, l2⟩ := r
          simp only [hr, pure, Except.pure, Except.ok.injEq, Prod.mk.injEq] at h
          rcases List.mem_cons.mp hit with rfl | hit
          · exact ⟨p, L, repl, n, hL, hb, fun x hx => by rw [← h.1]; exact List.mem_append_left _ hx⟩
          · obtain ⟨q, Lq, repl', n', d, e, m⟩ := ih _ _ o l2 (hL.shift p n) hr it hit hnl
            exact ⟨q, Lq, repl', n', d, e, fun x hx => by rw [← h.1]; exact List.mem_append_right _ (m x hx)⟩

/-! ### evaluation that depends only on which labels are defined -/

/-- `imm` (of an item on source line `line`) evaluates at every table that defines `K`, at every position -/
def EvalsOn (H : Hooks) (constants : Dict) (K : List String) (line : Line) (imm : Imm) : Prop :=
  ∀ (L : Dict) (p : Int), Defined K L → ∃ v, imm.eval H (chainGet constants L) line p = .ok v

theorem evalsOn_labelfree {H : Hooks} {constants : Dict} {K : List String} {line : Line} {imm : Imm}
    (hfree : ImmLabelFree H constants imm) {L0 : Dict} {p0 v : Int}
    (h : imm.eval H (chainGet constants L0) line p0 = .ok v) : EvalsOn H constants K line imm := by
  intro L p _
  rw [hfree L L0 line p p0, h]
  exact ⟨v, rfl⟩

theorem evalsOn_offset {H : Hooks} {constants : Dict} {K : List String} {line : Line} {ref : String}
    (h : (constants.get ref).isSome = true ∨ ref ∈ K) : EvalsOn H constants K line (.offset ref) := by
  intro L p hL
  simp only [Imm.eval, chainGet]
  cases hc : constants.get ref with
  | some v => exact ⟨_, rfl⟩
  | none =>
    rcases h with h | h
    · rw [hc] at h; simp at h
    · have := hL ref h
      cases hg : L.get ref with
      | none => rw [hg] at this; simp at this
      | some u => exact ⟨_, rfl⟩

theorem evalsOn_hi {H : Hooks} {constants : Dict} {K : List String} {line : Line} {e : Imm}
    (h : EvalsOn H constants K line e) : EvalsOn H constants K line (.hi e) := by
  intro L p hL
  obtain ⟨v, hv⟩ := h L p hL
  exact ⟨relocateHi v, by simp [Imm.eval, hv, bind, Except.bind, pure, Except.pure]⟩

theorem evalsOn_lo {H : Hooks} {constants : Dict} {K : List String} {line : Line} {e : Imm}
    (h : EvalsOn H constants K line e) : EvalsOn H constants K line (.lo e) := by
  intro L p hL
  obtain ⟨v, hv⟩ := h L p hL
  exact ⟨relocateLo v, by simp [Imm.eval, hv, bind, Except.bind, pure, Except.pure]⟩

end BB.Lemmas

namespace BB.Lemmas
open BB BB.Spec

theorem walk_keys {f : Item → Int → Dict → Except Err (List Item × Int)} (G : List Item) :
    ∀ (p : Int) (L : Dict) (G' : List Item) (L' : Dict), walk f G p L = .ok (G', L') →
    L'.map Prod.fst = L.map Prod.fst := by
  induction G with
  | nil =>
    intro p L G' L' h
    simp only [walk, Except.ok.injEq, Prod.mk.injEq] at h
    rw [← h.2]
  | cons it rest ih =>
    intro p L G' L' h
    by_cases hl : ∃ l n, it = .label l n
    · obtain ⟨l, n, rfl⟩ := hl
      simp only [walk, bind, Except.bind] at h
      cases hr : walk f rest p L with
      | error e => simp [hr] at h
      | ok r =>
        obtain ⟨o, l2⟩ := r
        simp only [hr, pure, Except.pure, Except.ok.injEq, Prod.mk.injEq] at h
        rw [← h.2]; exact ih _ _ _ _ hr
    · have hnl : ∀ l n, it ≠ .label l n := fun l n e => hl ⟨l, n, e⟩
      rw [walk_cons_of_not_label hnl] at h
      simp only [bind, Except.bind] at h
      cases hb : f it p L with
      | error e => simp [hb] at h
      | ok rn =>
        obtain ⟨repl, n⟩ := rn
        simp only [hb] at h
        cases hr : walk f rest (p + sizeSum repl) (L.shiftAbove p n) with
        | error e => simp [hr] at h
        | ok r =>
          obtain ⟨o, l2⟩ := r
          simp only [hr, pure, Except.pure, Except.ok.injEq, Prod.mk.injEq] at h
          rw [← h.2, ih _ _ _ _ hr, Dict.keys_shiftAbove]

theorem get_isSome_iff_mem_keys (L : Dict) (k : String) : (L.get k).isSome = true ↔ k ∈ L.map Prod.fst := by
  induction L with
  | nil => simp [Dict.get, List.lookup]
  | cons e t ih =>
    obtain ⟨a, b⟩ := e
    simp only [Dict.get, List.lookup, List.map_cons, List.mem_cons] at ih ⊢
    by_cases hk : k = a
    · subst hk; simp
    · have : (k == a) = false := by simpa using hk
      simp only [this, hk, false_or]
      exact ih

theorem defined_of_keys {K : List String} {L : Dict} (h : L.map Prod.fst = K) : Defined K L := by
  intro ref hr
  rw [get_isSome_iff_mem_keys, h]; exact hr

end BB.Lemmas

namespace BB.Lemmas
open BB BB.Spec

/-- a walk over a marker-free list succeeds, and its output satisfies `Q`, if on every item the body
    succeeds with an output satisfying `Q`, at every position and every table satisfying the invariant `P` -/
theorem walk_ok_stage {f : Item → Int → Dict → Except Err (List Item × Int)} {P : Dict → Prop} {Q : Item → Prop}
    (hP : ∀ L p n, P L → P (L.shiftAbove p n)) (G : List Item)
    (h : ∀ x ∈ G, (∀ l n, x ≠ .label l n) ∧ ∀ p L, P L → ∃ r, f x p L = .ok r ∧ ∀ y ∈ r.1, Q y) :
    ∀ (p : Int) (L : Dict), P L → ∃ G' L', walk f G p L = .ok (G', L') ∧ P L' ∧ ∀ y ∈ G', Q y := by
  induction G with
  | nil => intro p L hL; exact ⟨[], L, rfl, hL, fun y hy => by simp at hy⟩
  | cons it rest ih =>
    intro p L hL
    obtain ⟨hnl, hb⟩ := h it List.mem_cons_self
    obtain ⟨⟨repl, n⟩, hf, hq⟩ := hb p L hL
    obtain ⟨G', L', hw, hL', hq'⟩ := ih (fun x hx => h x (List.mem_cons_of_mem _ hx)) (p + sizeSum repl)
      (L.shiftAbove p n) (hP L p n hL)
    refine ⟨repl ++ G', L', ?_, hL', ?_⟩
    · rw [walk_cons_of_not_label hnl]; simp only [bind, Except.bind, hf, hw, pure, Except.pure]
    · intro y hy
      rcases List.mem_append.mp hy with hy | hy
      · exact hq y hy
      · exact hq' y hy

end BB.Lemmas
