/-
  BB.Lemmas.SuccPair — one item of the -c run, its counterpart in the plain run, and a label no `align`
  separates from them: the two FINAL distances (`two_run_dist`).  The -c distance is `Closer` to 0
  (same side, not larger), has the same parity, and is below 1 MiB.
-/
import BB.Lemmas.SuccTwoRun
set_option linter.unusedSimpArgs false
set_option linter.unusedVariables false
namespace BB.Lemmas
open BB BB.Spec

variable {H : Hooks} {constants : Dict}

theorem Corr.append {a b c d : List Item} (h1 : Corr H constants a b) (h2 : Corr H constants c d) :
    Corr H constants (a ++ c) (b ++ d) := by
  induction h1 with
  | nil => exact h2
  | step hs _ ih => exact .step hs ih
  | near line rd rA imm hs _ ih => exact .near line rd rA imm hs ih

theorem labelPos_fw {X M Y : List Item} {l : Line} {n : String} (h1 : n ∉ labelNames X) (h2 : n ∉ labelNames M) :
    labelPos (X ++ (M ++ .label l n :: Y)) 0 n = some (sizeSum X + sizeSum M) := by
  rw [labelPos_append_not_mem _ _ _ _ h1, labelPos_append_not_mem _ _ _ _ h2, labelPos_label_self]
  congr 1; omega

theorem alignImg_mid (X M Y : List Item) (hM : NoAlign M) (p : Int) :
    alignImg (X ++ (M ++ Y)) p = alignImg X p ++ (M ++ alignImg Y (p + sizeSum (alignImg X p) + sizeSum M)) := by
  rw [alignImg_append, alignImg_append, alignImg_noalign hM]

theorem noAlign_label_cons {l : Line} {n : String} {M : List Item} (h : NoAlign M) : NoAlign (.label l n :: M) :=
  NoAlign.cons (by intro l' a e; cases e) h

/-- the two final distances from corresponding items to a label -/
theorem two_run_dist {A5 B6 P0 S0 P1 S1 m0 : List Item} {x : Item} {n : String}
    (hB : B6 = P1 ++ x :: S1) (hA : A5 = P0 ++ (m0 ++ S0))
    (cP : Corr H constants P0 P1) (cS : Corr H constants S0 S1) (cm : Corr H constants m0 [x])
    (hx : Item.refs x n) (hspan : SpanOK B6) (hnn1 : NonNeg B6) (hnn0 : NonNeg A5) (hnd : (labelNames B6).Nodup)
    (hn : n ∈ labelNames B6) (hxpos : 0 < x.sizeD) :
    ∃ d0 d1 : Int,
      labelPos (alignImg A5 0) 0 n = some (sizeSum (alignImg P0 0) + d0) ∧
      labelPos (alignImg B6 0) 0 n = some (sizeSum (alignImg P1 0) + d1) ∧
      Closer d0 d1 ∧ d1 % 2 = d0 % 2 ∧ -1048575 ≤ d1 ∧ d1 ≤ 1048575 := by
  obtain ⟨hxnl, hxna⟩ := refs_not_marker hx
  have hnamesx : labelNames [x] = [] := by cases x <;> first | rfl | exact absurd rfl (hxnl _ _)
  have hm0names : labelNames m0 = [] := by rw [cm.labelNames_eq, hnamesx]
  have hm0na : NoAlign m0 := cm.noAlign (NoAlign.cons hxna noAlign_nil)
  have hnamesB : labelNames B6 = labelNames P1 ++ labelNames S1 := by
    rw [hB, labelNames_append, labelNames_cons_of_not_label hxnl]
  rw [hnamesB] at hn hnd
  have hndisj := List.nodup_append.mp hnd
  rcases List.mem_append.mp hn with hnP | hnS
  · -- the label is behind
    obtain ⟨Pa1, l, Pb1, rfl, hnPa1⟩ := labelNames_split hnP
    obtain ⟨Pa0, Pb0, rfl, cPa, cPb⟩ := cP.split_label
    obtain ⟨hna1, hsz1⟩ := (hspan _ x S1 n hB hx).2 Pa1 l Pb1 rfl
    have hna0 := cPb.noAlign hna1
    have hnPa0 : n ∉ labelNames Pa0 := by rw [cPa.labelNames_eq]; exact hnPa1
    have eP1 : alignImg (Pa1 ++ .label l n :: Pb1) 0 = alignImg Pa1 0 ++ (.label l n :: Pb1) := by
      have := alignImg_mid Pa1 (.label l n :: Pb1) [] (noAlign_label_cons hna1) 0
      simpa [alignImg] using this
    have eP0 : alignImg (Pa0 ++ .label l n :: Pb0) 0 = alignImg Pa0 0 ++ (.label l n :: Pb0) := by
      have := alignImg_mid Pa0 (.label l n :: Pb0) [] (noAlign_label_cons hna0) 0
      simpa [alignImg] using this
    have eB : alignImg B6 0 = alignImg Pa1 0 ++ (.label l n :: (Pb1 ++ alignImg (x :: S1) (0 + sizeSum (alignImg Pa1 0) + sizeSum (Item.label l n :: Pb1)))) := by
      rw [hB]
      have := alignImg_mid Pa1 (.label l n :: Pb1) (x :: S1) (noAlign_label_cons hna1) 0
      simpa [List.append_assoc] using this
    have eA : alignImg A5 0 = alignImg Pa0 0 ++ (.label l n :: (Pb0 ++ alignImg (m0 ++ S0) (0 + sizeSum (alignImg Pa0 0) + sizeSum (Item.label l n :: Pb0)))) := by
      rw [hA]
      have := alignImg_mid Pa0 (.label l n :: Pb0) (m0 ++ S0) (noAlign_label_cons hna0) 0
      simpa [List.append_assoc] using this
    obtain ⟨k, hk, hsz⟩ := cPb.size
    have hnnPb0 : 0 ≤ sizeSum Pb0 := sizeSum_nonneg (fun y hy => hnn0 y (by
      rw [hA]; exact List.mem_append_left _ (List.mem_append_right _ (List.mem_cons_of_mem _ hy))))
    have hnnPb1 : 0 ≤ sizeSum Pb1 := sizeSum_nonneg (fun y hy => hnn1 y (by
      rw [hB]; exact List.mem_append_left _ (List.mem_append_right _ (List.mem_cons_of_mem _ hy))))
    refine ⟨-sizeSum Pb0, -sizeSum Pb1, ?_, ?_, ?_, by omega, ?_, ?_⟩
    · rw [eA, labelPos_backward (by rw [labelNames_alignImg]; exact hnPa0), eP0, sizeSum_append, sizeSum_cons, sizeD_label]
      congr 1; omega
    · rw [eB, labelPos_backward (by rw [labelNames_alignImg]; exact hnPa1), eP1, sizeSum_append, sizeSum_cons, sizeD_label]
      congr 1; omega
    · unfold Closer; constructor <;> intro _ <;> omega
    · rw [sizeSum_append] at hsz1
      have : 0 ≤ sizeSum [x] := by simp [sizeSum]; omega
      omega
    · omega
  · -- the label is ahead
    obtain ⟨Sa1, l, Sb1, rfl, hnSa1⟩ := labelNames_split hnS
    obtain ⟨Sa0, Sb0, rfl, cSa, cSb⟩ := cS.split_label
    obtain ⟨hna1, hsz1⟩ := (hspan P1 x _ n hB hx).1 Sa1 l Sb1 rfl
    have hna0 := cSa.noAlign hna1
    have hnP1 : n ∉ labelNames P1 := fun h => hndisj.2.2 n h n hnS rfl
    have hnP0 : n ∉ labelNames P0 := by rw [cP.labelNames_eq]; exact hnP1
    have hnM1 : n ∉ labelNames (x :: Sa1) := by rw [labelNames_cons_of_not_label hxnl]; exact hnSa1
    have hnM0 : n ∉ labelNames (m0 ++ Sa0) := by
      rw [labelNames_append, hm0names, cSa.labelNames_eq]; simpa using hnSa1
    have eB : alignImg B6 0 = alignImg P1 0 ++ ((x :: Sa1) ++ .label l n :: alignImg Sb1 (0 + sizeSum (alignImg P1 0) + sizeSum (x :: Sa1) + 0)) := by
      rw [hB]
      have := alignImg_mid P1 (x :: Sa1) (.label l n :: Sb1) (NoAlign.cons hxna hna1) 0
      simpa [alignImg, sizeD_label] using this
    have eA : alignImg A5 0 = alignImg P0 0 ++ ((m0 ++ Sa0) ++ .label l n :: alignImg Sb0 (0 + sizeSum (alignImg P0 0) + sizeSum (m0 ++ Sa0) + 0)) := by
      rw [hA]
      have := alignImg_mid P0 (m0 ++ Sa0) (.label l n :: Sb0) (hm0na.append hna0) 0
      simpa [alignImg, sizeD_label, List.append_assoc] using this
    obtain ⟨k, hk, hsz⟩ := (cm.append cSa).size
    have hnnSa1 : 0 ≤ sizeSum Sa1 := sizeSum_nonneg (fun y hy => hnn1 y (by
      rw [hB]; exact List.mem_append_right _ (List.mem_cons_of_mem _ (List.mem_append_left _ hy))))
    refine ⟨sizeSum (m0 ++ Sa0), sizeSum (x :: Sa1), ?_, ?_, ?_, ?_, ?_, hsz1⟩
    · rw [eA, labelPos_fw (by rw [labelNames_alignImg]; exact hnP0) hnM0]
    · rw [eB, labelPos_fw (by rw [labelNames_alignImg]; exact hnP1) hnM1]
    · simp only [List.singleton_append] at hsz
      rw [sizeSum_cons] at hsz ⊢
      unfold Closer; constructor <;> intro _ <;> omega
    · simp only [List.singleton_append] at hsz
      omega
    · rw [sizeSum_cons]; omega

end BB.Lemmas
