/-
  BB.Lemmas.DfuMain — whole runs: the fault-free run, the run up to the first failing operation,
  and the facts that make fuel disappear from the property theorems (`run` has always halted;
  more fuel changes nothing).
-/
import BB.Lemmas.DfuLoops
namespace BB.Dfu

variable {h : HostCfg} {s : Schedule}

theorem costFrom_mono (s : Schedule) (i a b : Nat) (hab : a ≤ b) : costFrom s i a ≤ costFrom s i b := by
  obtain ⟨k, rfl⟩ := Nat.exists_eq_add_of_le hab
  rw [costFrom_add]; omega

/-- a halted configuration reached within the fuel bound is the configuration `run` ends in -/
theorem Reaches.run_eq {c : Config} {B : Nat} {P : Config → Prop}
    (hr : Reaches h c B fun c' => c'.exit.isSome ∧ P c') :
    (steps h B c).exit.isSome ∧ P (steps h B c) := by
  obtain ⟨n, hn, hx, hp⟩ := hr
  rw [steps_mono h n B c hn hx]
  exact ⟨hx, hp⟩

/-- the message the host dies with when operation `i` (in the order the host starts them: the
    erases of pages 0..pages-1, then set-address and write of each page) is the first to fail -/
def failMsg (pages : Nat) (s : Schedule) (i : Nat) : ExitMsg :=
  if i < pages then .eraseFailed (pageAddr i) ((s.op i).fault % 256)
  else if (i - pages) % 2 = 0 then .addrFailed (pageAddr ((i - pages) / 2)) ((s.op i).fault % 256)
  else .writeFailed (pageAddr ((i - pages) / 2)) ((s.op i).fault % 256)

/-- the complete fault-free run -/
theorem run_ok_reaches (f₀ : Nat → Cell) (hfit : h.fw.length ≤ pageSize * h.pageCount) (hsm : h.pageCount ≤ 128)
    (hff : ∀ j, j < 3 * h.pages → (s.op j).fault % 256 = 0) :
    Reaches h (Config.init h.pageCount s f₀) (fuelBound h s) fun c =>
      c.exit.isSome ∧ (c.exit = some (0, .ok) ∧ c.out = [.done] ∧
        ∃ v, Sees h.pageCount s c.dev v 0 ∧ WriteInv h f₀ h.pages v) := by
  have hpg := pages_le hfit
  have e : fuelBound h s = 6 + (costFrom s 0 h.pages + (1 + (costFrom s h.pages (2 * h.pages) + 5))) := by
    simp only [fuelBound]
    rw [show 3 * h.pages = h.pages + 2 * h.pages by omega, costFrom_add, Nat.zero_add]; omega
  rw [e]
  refine (prelude f₀ hfit).trans ?_
  intro c1 ⟨v1, ha1, hi1⟩
  obtain ⟨v2, ha2, hi2⟩ := erase_loop f₀ hpg hsm ha1 hi1 h.pages (Nat.le_refl _) (fun j hj => hff j (by omega))
  refine (Reaches.exact _ ha2).trans (P := fun c => At h s c (.loopErase h.pages) v2 0) ?_
  intro c2 ha2
  obtain ⟨ha3, hi3⟩ := erase_to_write ha2 hi2
  refine (Reaches.exact 1 ha3).trans (P := fun c => At h s c (.loopWrite 0) v2 0) ?_
  intro c3 ha3
  refine (write_loop f₀ hpg hsm ha3 hi3 h.pages (Nat.le_refl _) (fun j hj => hff _ (by omega))).trans ?_
  intro c4 ⟨v4, ha4, hi4⟩
  obtain ⟨hx, ho, hs⟩ := epilogue ha4
  exact ⟨2, by omega, by simp [hx], hx, ho, v4, hs, hi4⟩

/-- the run when operation `i` is the first the schedule makes fail -/
theorem run_fault_reaches (f₀ : Nat → Cell) (hfit : h.fw.length ≤ pageSize * h.pageCount) (hsm : h.pageCount ≤ 128)
    (i : Nat) (hi : i < 3 * h.pages) (hf : (s.op i).fault % 256 ≠ 0)
    (hff : ∀ j, j < i → (s.op j).fault % 256 = 0) :
    Reaches h (Config.init h.pageCount s f₀) (fuelBound h s) fun c =>
      c.exit.isSome ∧ (c.exit = some (1, failMsg h.pages s i) ∧ c.out = []) := by
  have hpg := pages_le hfit
  by_cases hlt : i < h.pages
  · -- an erase fails
    have hb : 6 + (costFrom s 0 i + opCost (s.op i)) ≤ fuelBound h s := by
      have := costFrom_mono s 0 (i + 1) (3 * h.pages) (by omega)
      rw [costFrom_succ_right, Nat.zero_add] at this
      simp only [fuelBound]; omega
    refine Reaches.mono ?_ hb
    refine (prelude f₀ hfit).trans ?_
    intro c1 ⟨v1, ha1, hi1⟩
    obtain ⟨v2, ha2, hi2⟩ := erase_loop f₀ hpg hsm ha1 hi1 i (by omega) hff
    refine (Reaches.exact _ ha2).trans (P := fun c => At h s c (.loopErase i) v2 0) ?_
    intro c2 ha2
    have hf' : (s.op v2.opIdx).fault % 256 ≠ 0 := by rw [hi2.opIdx]; exact hf
    obtain ⟨hx, ho⟩ := erase_iter_fault ha2 hlt (by omega) hsm hi2.pending hi2.state hi2.status hf'
    rw [hi2.opIdx] at hx ho
    exact ⟨_, Nat.le_refl _, by simp [hx], by simp [hx, failMsg, hlt], ho⟩
  · -- a set-address or a write fails
    have hge : h.pages ≤ i := by omega
    obtain ⟨j, rfl⟩ := Nat.exists_eq_add_of_le hge
    have hm : j / 2 < h.pages := by omega
    have hff1 : ∀ k, k < h.pages → (s.op k).fault % 256 = 0 := fun k hk => hff k (by omega)
    have hff2 : ∀ k, k < 2 * (j / 2) → (s.op (h.pages + k)).fault % 256 = 0 := fun k hk => hff _ (by omega)
    have hcost : costFrom s 0 h.pages + costFrom s h.pages (2 * (j / 2)) = costFrom s 0 (h.pages + 2 * (j / 2)) := by
      rw [costFrom_add, Nat.zero_add]
    by_cases hev : j % 2 = 0
    · have hj : 2 * (j / 2) = j := by omega
      have hb : 6 + (costFrom s 0 h.pages + (1 + (costFrom s h.pages (2 * (j / 2)) +
          (2 * (s.op (h.pages + j)).busy.length + 4)))) ≤ fuelBound h s := by
        have := costFrom_mono s 0 (h.pages + j + 1) (3 * h.pages) (by omega)
        rw [costFrom_succ_right, Nat.zero_add] at this
        rw [hj] at hcost ⊢
        simp only [fuelBound, opCost] at *; omega
      refine Reaches.mono ?_ hb
      refine (prelude f₀ hfit).trans ?_
      intro c1 ⟨v1, ha1, hi1⟩
      obtain ⟨v2, ha2, hi2⟩ := erase_loop f₀ hpg hsm ha1 hi1 h.pages (Nat.le_refl _) hff1
      refine (Reaches.exact _ ha2).trans (P := fun c => At h s c (.loopErase h.pages) v2 0) ?_
      intro c2 ha2
      obtain ⟨ha3, hi3⟩ := erase_to_write ha2 hi2
      refine (Reaches.exact 1 ha3).trans (P := fun c => At h s c (.loopWrite 0) v2 0) ?_
      intro c3 ha3
      refine (write_loop f₀ hpg hsm ha3 hi3 (j / 2) (by omega) hff2).trans ?_
      intro c4 ⟨v4, ha4, hi4⟩
      have hidx : v4.opIdx = h.pages + j := by rw [hi4.opIdx, hj]
      have hf' : (s.op v4.opIdx).fault % 256 ≠ 0 := by rw [hidx]; exact hf
      obtain ⟨hx, ho⟩ := write_iter_addr_fault ha4 hm (by omega) hsm hi4.pending hi4.state hi4.status hf'
      rw [hidx] at hx ho
      refine ⟨_, Nat.le_refl _, by simp [hx], ?_, ho⟩
      have : ¬ h.pages + j < h.pages := by omega
      simp [hx, failMsg, this, hev]
    · have hj : 2 * (j / 2) + 1 = j := by omega
      have hb : 6 + (costFrom s 0 h.pages + (1 + (costFrom s h.pages (2 * (j / 2)) +
          ((2 * (s.op (h.pages + 2 * (j / 2))).busy.length + 3) + (2 * (s.op (h.pages + j)).busy.length + 4))))) ≤ fuelBound h s := by
        have := costFrom_mono s 0 (h.pages + 2 * (j / 2) + 1 + 1) (3 * h.pages) (by omega)
        rw [costFrom_succ_right, costFrom_succ_right] at this
        simp only [Nat.zero_add] at this
        have e2 : h.pages + 2 * (j / 2) + 1 = h.pages + j := by omega
        rw [e2] at this
        simp only [fuelBound, opCost] at *; omega
      refine Reaches.mono ?_ hb
      refine (prelude f₀ hfit).trans ?_
      intro c1 ⟨v1, ha1, hi1⟩
      obtain ⟨v2, ha2, hi2⟩ := erase_loop f₀ hpg hsm ha1 hi1 h.pages (Nat.le_refl _) hff1
      refine (Reaches.exact _ ha2).trans (P := fun c => At h s c (.loopErase h.pages) v2 0) ?_
      intro c2 ha2
      obtain ⟨ha3, hi3⟩ := erase_to_write ha2 hi2
      refine (Reaches.exact 1 ha3).trans (P := fun c => At h s c (.loopWrite 0) v2 0) ?_
      intro c3 ha3
      refine (write_loop f₀ hpg hsm ha3 hi3 (j / 2) (by omega) hff2).trans ?_
      intro c4 ⟨v4, ha4, hi4⟩
      have hf1 : (s.op v4.opIdx).fault % 256 = 0 := by rw [hi4.opIdx]; exact hff _ (by omega)
      have ha5 := write_iter_addr ha4 hm (by omega) hsm hi4.pending hi4.state hi4.status hf1
      rw [hi4.opIdx] at ha5
      refine (Reaches.exact _ ha5).trans (P := fun c => At h s c (.slept .addr (j / 2) 0 5) _ 0) ?_
      intro c5 ha5
      have hidx : h.pages + 2 * (j / 2) + 1 = h.pages + j := by omega
      obtain ⟨hx, ho⟩ := write_iter_data_fault ha5 (by omega) rfl rfl hi4.status rfl (chunk_length hm)
        (by simpa [hidx] using hf)
      simp only [hidx] at hx ho
      refine ⟨_, Nat.le_refl _, by simp [hx], ?_, ho⟩
      have h1 : ¬ h.pages + j < h.pages := by omega
      simp [hx, failMsg, h1, hev]

/-- among the operations below `n`, a failing one has a first failing one -/
theorem exists_first_fault (s : Schedule) (n : Nat) :
    (∃ i, i < n ∧ (s.op i).fault % 256 ≠ 0) →
    ∃ i, i < n ∧ (s.op i).fault % 256 ≠ 0 ∧ ∀ j, j < i → (s.op j).fault % 256 = 0 := by
  induction n with
  | zero => rintro ⟨i, hi, _⟩; omega
  | succ n ih =>
    rintro ⟨i, hi, hf⟩
    by_cases hex : ∃ i, i < n ∧ (s.op i).fault % 256 ≠ 0
    · obtain ⟨k, hk, hkf, hkm⟩ := ih hex
      exact ⟨k, by omega, hkf, hkm⟩
    · refine ⟨n, by omega, ?_, ?_⟩
      · have : i = n := by
          by_cases hin : i < n
          · exact absurd ⟨i, hin, hf⟩ hex
          · omega
        rw [← this]; exact hf
      · intro j hj
        by_cases hz : (s.op j).fault % 256 = 0
        · exact hz
        · exact absurd ⟨j, hj, hz⟩ hex

/-- the oversize run: one step, no request -/
theorem run_oversize (f₀ : Nat → Cell) (hbig : h.fw.length > pageSize * h.pageCount) :
    steps h (fuelBound h s) (Config.init h.pageCount s f₀) =
      { Config.init h.pageCount s f₀ with pc := .halted, resp := .unit, exit := some (1, .tooLarge) } := by
  have hn : next h (Config.init h.pageCount s f₀).pc (Config.init h.pageCount s f₀).resp = (.halted, .exit 1 .tooLarge) := by
    simp [Config.init, next, hbig]
  have e1 := step_exit (c := Config.init h.pageCount s f₀) rfl hn
  have hm := steps_mono h 1 (fuelBound h s) (Config.init h.pageCount s f₀) (by simp [fuelBound]; omega)
    (by rw [steps_one, e1]; rfl)
  rw [hm, steps_one, e1]

/-- every run halts within `fuelBound` steps -/
theorem run_halts (f₀ : Nat → Cell) (hsm : h.pageCount ≤ 128) :
    (steps h (fuelBound h s) (Config.init h.pageCount s f₀)).exit.isSome := by
  by_cases hbig : h.fw.length > pageSize * h.pageCount
  · rw [run_oversize f₀ hbig]; rfl
  · have hfit : h.fw.length ≤ pageSize * h.pageCount := by omega
    by_cases hex : ∃ i, i < 3 * h.pages ∧ (s.op i).fault % 256 ≠ 0
    · obtain ⟨i, hi, hf, hmin⟩ := exists_first_fault s _ hex
      exact (run_fault_reaches f₀ hfit hsm i hi hf hmin).run_eq.1
    · have hff : ∀ j, j < 3 * h.pages → (s.op j).fault % 256 = 0 := by
        intro j hj
        by_cases hz : (s.op j).fault % 256 = 0
        · exact hz
        · exact absurd ⟨j, hj, hz⟩ hex
      exact (run_ok_reaches f₀ hfit hsm hff).run_eq.1

end BB.Dfu
