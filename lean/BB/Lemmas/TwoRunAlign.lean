/-
  BB.Lemmas.TwoRunAlign — resolve_aligns on the two runs in lockstep: from stretch-wise related lists
  (`Dom`: same markers, same aligns, stretches not longer with -c) and a start position that is not
  later with -c, every marker ends up not later and the total is not longer.  (Padding itself is NOT
  monotone — an align may pad more with -c — but position + padding is: `padTo_mono`.)
-/
import BB.Lemmas.TwoRunRel
import BB.Props.C20
set_option linter.unusedSimpArgs false
set_option linter.unusedVariables false
namespace BB.Lemmas
open BB BB.Spec
open BB.Props.C20 (padTo padTo_mono)

theorem alignBody_align {l : Line} {a p : Int} {L : Dict} {repl : List Item} {n : Int}
    (h : alignBody (.align l a) p L = .ok (repl, n)) : NoLabel repl ∧ sizeSum repl = padTo a p := by
  simp only [alignBody] at h
  unfold padTo
  split at h
  · simp at h
  · rename_i padding hpad
    rw [hpad]
    split at h
    · rename_i hz
      simp only [pure, Except.pure, Except.ok.injEq, Prod.mk.injEq] at h
      rw [← h.1]
      exact ⟨fun x hx => by simp at hx, by simp [sizeSum, hz]⟩
    · split at h
      · simp at h
      · rename_i hneg
        simp only [pure, Except.pure, Except.ok.injEq, Prod.mk.injEq] at h
        rw [← h.1]
        refine ⟨?_, ?_⟩
        · intro x hx; simp only [List.mem_singleton] at hx; subst hx; intro l n e; cases e
        · simp [sizeSum, Item.sizeD, Item.size?]; omega

/-- a stretch without markers and aligns goes through resolve_aligns untouched -/
theorem walk_align_plain {s : List Item} (hs : Plain s) : ∀ (G : List Item) (p : Int) (L : Dict) (R : List Item) (L' : Dict),
    walk alignBody (s ++ G) p L = .ok (R, L') →
    ∃ out, R = s ++ out ∧ walk alignBody G (p + sizeSum s) L = .ok (out, L') := by
  induction s with
  | nil => intro G p L R L' h; exact ⟨R, rfl, by simpa [sizeSum] using h⟩
  | cons it rest ih =>
    intro G p L R L' h
    obtain ⟨h1, h2, _⟩ := hs it List.mem_cons_self
    have hrest : Plain rest := fun x hx => hs x (List.mem_cons_of_mem _ hx)
    rw [List.cons_append, walk_cons_of_not_label h1] at h
    simp only [bind, Except.bind] at h
    cases hb : alignBody it p L with
    | error e => simp [hb] at h
    | ok rn =>
      obtain ⟨repl, n⟩ := rn
      have hk : keepItem it = .ok (repl, n) := by
        cases it <;> first | (simpa [alignBody] using hb) | exact absurd rfl (h2 _ _)
      obtain ⟨rfl, rfl⟩ := keepItem_ok hk
      simp only [hb, shiftAbove_zero] at h
      cases hr : walk alignBody (rest ++ G) (p + sizeSum [it]) L with
      | error e => simp [hr] at h
      | ok r =>
        obtain ⟨o, l2⟩ := r
        simp only [hr, pure, Except.pure, Except.ok.injEq, Prod.mk.injEq] at h
        obtain ⟨out, e1, e2⟩ := ih hrest G _ L o l2 hr
        refine ⟨out, by rw [← h.1, e1]; rfl, ?_⟩
        rw [← h.2]
        have : p + sizeSum [it] + sizeSum rest = p + sizeSum (it :: rest) := by
          simp [sizeSum]; omega
        rw [← this]; exact e2

/-- **resolve_aligns in lockstep**: markers and the end of the list are not later with -c -/
theorem align_lockstep : ∀ {G0 G1 : List Item}, Dom G0 G1 →
    ∀ (p0 p1 : Int) (L0 L1 : Dict) (G0' G1' : List Item) (L0' L1' : Dict), p1 ≤ p0 →
    (∀ l a, Item.align l a ∈ G0 → 1 ≤ a) →
    walk alignBody G0 p0 L0 = .ok (G0', L0') → walk alignBody G1 p1 L1 = .ok (G1', L1') →
    p1 + sizeSum G1' ≤ p0 + sizeSum G0' ∧
    ∀ ℓ u0, labelPos G0' p0 ℓ = some u0 → ∃ u1, labelPos G1' p1 ℓ = some u1 ∧ u1 ≤ u0 := by
  intro G0 G1 hd
  induction hd with
  | nil =>
    intro p0 p1 L0 L1 G0' G1' L0' L1' hp _ h0 h1
    simp only [walk, Except.ok.injEq, Prod.mk.injEq] at h0 h1
    rw [← h0.1, ← h1.1]
    exact ⟨by simpa [sizeSum] using hp, fun ℓ u0 h => by simp [labelPos] at h⟩
  | @label line nm R0 R1 _ ih =>
    intro p0 p1 L0 L1 G0' G1' L0' L1' hp hal h0 h1
    simp only [walk, bind, Except.bind] at h0 h1
    cases hr0 : walk alignBody R0 p0 L0 with
    | error e => simp [hr0] at h0
    | ok r0 =>
    cases hr1 : walk alignBody R1 p1 L1 with
    | error e => simp [hr1] at h1
    | ok r1 =>
    obtain ⟨o0, l0⟩ := r0
    obtain ⟨o1, l1⟩ := r1
    simp only [hr0, pure, Except.pure, Except.ok.injEq, Prod.mk.injEq] at h0
    simp only [hr1, pure, Except.pure, Except.ok.injEq, Prod.mk.injEq] at h1
    rw [← h0.1, ← h1.1]
    obtain ⟨i1, i2⟩ := ih p0 p1 L0 L1 o0 o1 l0 l1 hp (fun l a hm => hal l a (List.mem_cons_of_mem _ hm)) hr0 hr1
    refine ⟨by simpa [sizeSum_cons, sizeD_label] using i1, ?_⟩
    intro ℓ u0 hu
    simp only [labelPos] at hu ⊢
    by_cases hn : nm = ℓ
    · simp only [hn, if_true, Option.some.injEq] at hu ⊢
      exact ⟨p1, rfl, by omega⟩
    · simp only [hn, if_false] at hu ⊢
      exact i2 ℓ u0 hu
  | @align line a R0 R1 _ ih =>
    intro p0 p1 L0 L1 G0' G1' L0' L1' hp hal h0 h1
    have hnl : ∀ l n, Item.align line a ≠ .label l n := by intro l n e; cases e
    rw [walk_cons_of_not_label hnl] at h0 h1
    simp only [bind, Except.bind] at h0 h1
    cases hb0 : alignBody (.align line a) p0 L0 with
    | error e => simp [hb0] at h0
    | ok rn0 =>
    cases hb1 : alignBody (.align line a) p1 L1 with
    | error e => simp [hb1] at h1
    | ok rn1 =>
    obtain ⟨repl0, n0⟩ := rn0
    obtain ⟨repl1, n1⟩ := rn1
    simp only [hb0] at h0
    simp only [hb1] at h1
    cases hr0 : walk alignBody R0 (p0 + sizeSum repl0) (L0.shiftAbove p0 n0) with
    | error e => simp [hr0] at h0
    | ok r0 =>
    cases hr1 : walk alignBody R1 (p1 + sizeSum repl1) (L1.shiftAbove p1 n1) with
    | error e => simp [hr1] at h1
    | ok r1 =>
    obtain ⟨o0, l0⟩ := r0
    obtain ⟨o1, l1⟩ := r1
    simp only [hr0, pure, Except.pure, Except.ok.injEq, Prod.mk.injEq] at h0
    simp only [hr1, pure, Except.pure, Except.ok.injEq, Prod.mk.injEq] at h1
    rw [← h0.1, ← h1.1]
    obtain ⟨nl0, s0⟩ := alignBody_align hb0
    obtain ⟨nl1, s1⟩ := alignBody_align hb1
    have ha : 1 ≤ a := hal line a List.mem_cons_self
    have hmono := padTo_mono ha hp
    obtain ⟨i1, i2⟩ := ih _ _ _ _ o0 o1 l0 l1 (by rw [s0, s1]; exact hmono)
      (fun l a hm => hal l a (List.mem_cons_of_mem _ hm)) hr0 hr1
    refine ⟨by rw [sizeSum_append, sizeSum_append]; omega, ?_⟩
    intro ℓ u0 hu
    rw [labelPos_append_noLabel _ _ nl0] at hu
    rw [labelPos_append_noLabel _ _ nl1]
    exact i2 ℓ u0 hu
  | @group s0 s1 R0 R1 hs0 hs1 hle _ ih =>
    intro p0 p1 L0 L1 G0' G1' L0' L1' hp hal h0 h1
    obtain ⟨o0, e0, w0⟩ := walk_align_plain hs0 R0 p0 L0 G0' L0' h0
    obtain ⟨o1, e1, w1⟩ := walk_align_plain hs1 R1 p1 L1 G1' L1' h1
    subst e0 e1
    obtain ⟨i1, i2⟩ := ih _ _ _ _ o0 o1 L0' L1' (by omega)
      (fun l a hm => hal l a (List.mem_append_right _ hm)) w0 w1
    refine ⟨by rw [sizeSum_append, sizeSum_append]; omega, ?_⟩
    intro ℓ u0 hu
    rw [labelPos_append_noLabel _ _ hs0.noLabel] at hu
    rw [labelPos_append_noLabel _ _ hs1.noLabel]
    exact i2 ℓ u0 hu

end BB.Lemmas
