/-
  BB.Lemmas.TwoRunRel — relations between the ghost lists of the run WITHOUT -c (index 0) and the run
  WITH -c (index 1) on the same program.

  `IW G0 G1`  : item-wise: the same items, except that some 4-byte instructions of G0 are 2-byte
                compressed instructions in G1 (what one compression pass does, `walk_compress_IW`)
  `Dom G0 G1` : the same label markers and the same `align` items in the same order; the stretches
                between them (`Plain`: no marker, no align, sizes ≥ 0) are not longer in G1
-/
import BB.Lemmas.TransferFinal
set_option linter.unusedSimpArgs false
set_option linter.unusedVariables false
namespace BB.Lemmas
open BB BB.Spec
open BB.Props.C04 (Forall2 ItemStep)

/-! ### item-wise -/

inductive IW : List Item → List Item → Prop
  | nil : IW [] []
  | same (it : Item) {G0 G1 : List Item} : IW G0 G1 → IW (it :: G0) (it :: G1)
  | comp (line : Line) (ins cf : Instr) {G0 G1 : List Item} : ins.isCompressed = false →
      cf.isCompressed = true → IW G0 G1 → IW (.instr line ins :: G0) (.instr line cf :: G1)

theorem IW.refl : ∀ G : List Item, IW G G
  | [] => .nil
  | it :: rest => .same it (IW.refl rest)

theorem iw_of_forall2 {H : Hooks} {constants : Dict} : ∀ {G G' : List Item},
    Forall2 (ItemStep H constants) G G' → IW G G'
  | [], [], _ => .nil
  | [], _ :: _, h => by simp [Forall2] at h
  | _ :: _, [], h => by simp [Forall2] at h
  | a :: as, b :: bs, h => by
    simp only [Forall2] at h
    obtain ⟨h1, h2⟩ := h
    cases h1 with
    | same => exact .same a (iw_of_forall2 h2)
    | compressed line ins cf c preds position labels hmem hall hcf haj =>
      exact .comp line ins cf (compressedForm_sizes hcf).1 (compressedForm_sizes hcf).2 (iw_of_forall2 h2)

/-- one compression pass relates its input and output item-wise -/
theorem walk_compress_IW (H : Hooks) (constants : Dict) (G : List Item) (p : Int) (labels : Dict)
    (G' : List Item) (labels' : Dict) (h : walk (compressBody H constants) G p labels = .ok (G', labels')) :
    IW G G' :=
  iw_of_forall2 (BB.Props.C04.compress_pass_itemwise H constants G p labels G' labels' h)

theorem IW.labelNames_eq {G0 G1 : List Item} (h : IW G0 G1) : labelNames G1 = labelNames G0 := by
  induction h with
  | nil => rfl
  | same it _ ih => cases it <;> simp only [labelNames, ih]
  | comp line ins cf _ _ _ ih => simp only [labelNames, ih]

theorem IW.sizeSum_le {G0 G1 : List Item} (h : IW G0 G1) : sizeSum G1 ≤ sizeSum G0 := by
  induction h with
  | nil => exact Int.le_refl _
  | same it _ ih => simp only [sizeSum_cons]; omega
  | comp line ins cf h0 h1 _ ih =>
    simp only [sizeSum_cons, instr_sizeD, h0, h1]; simp; omega

theorem IW.nonneg {G0 G1 : List Item} (h : IW G0 G1) (hnn : NonNeg G0) : NonNeg G1 := by
  induction h with
  | nil => exact hnn
  | same it _ ih =>
    intro x hx
    rcases List.mem_cons.mp hx with rfl | hx
    · exact hnn _ List.mem_cons_self
    · exact ih (fun y hy => hnn y (List.mem_cons_of_mem _ hy)) x hx
  | comp line ins cf h0 h1 _ ih =>
    intro x hx
    rcases List.mem_cons.mp hx with rfl | hx
    · rw [instr_sizeD, h1]; simp
    · exact ih (fun y hy => hnn y (List.mem_cons_of_mem _ hy)) x hx

/-- the offset of a marker from the start of the list is not larger in the compressed list -/
theorem IW.head_off {G0 G1 : List Item} (h : IW G0 G1) : NonNeg G0 → ∀ (p0 p1 : Int) (ℓ : String) (u0 : Int),
    labelPos G0 p0 ℓ = some u0 →
    ∃ u1, labelPos G1 p1 ℓ = some u1 ∧ 0 ≤ u1 - p1 ∧ u1 - p1 ≤ u0 - p0 := by
  induction h with
  | nil => intro _ p0 p1 ℓ u0 hu; simp [labelPos] at hu
  | @same it G0 G1 _ ih =>
    intro hnn p0 p1 ℓ u0 hu
    have hrest : NonNeg G0 := fun y hy => hnn y (List.mem_cons_of_mem _ hy)
    by_cases hl : ∃ l n, it = .label l n
    · obtain ⟨l, n, rfl⟩ := hl
      simp only [labelPos] at hu ⊢
      by_cases hn : n = ℓ
      · simp only [hn, if_true, Option.some.injEq] at hu ⊢
        exact ⟨p1, rfl, by omega, by omega⟩
      · simp only [hn, if_false] at hu ⊢
        exact ih hrest p0 p1 ℓ u0 hu
    · have hnl : ∀ l n, it ≠ .label l n := fun l n e => hl ⟨l, n, e⟩
      rw [labelPos_cons_of_not_label hnl] at hu
      obtain ⟨u1, h1, h2, h3⟩ := ih hrest (p0 + it.sizeD) (p1 + it.sizeD) ℓ u0 hu
      have := hnn it List.mem_cons_self
      exact ⟨u1, by rw [labelPos_cons_of_not_label hnl]; exact h1, by omega, by omega⟩
  | @comp line ins cf G0 G1 h0 h1 _ ih =>
    intro hnn p0 p1 ℓ u0 hu
    have hrest : NonNeg G0 := fun y hy => hnn y (List.mem_cons_of_mem _ hy)
    simp only [labelPos] at hu ⊢
    obtain ⟨u1, e1, e2, e3⟩ := ih hrest _ (p1 + (Item.instr line cf).sizeD) ℓ u0 hu
    have s0 : (Item.instr line ins).sizeD = 4 := by rw [instr_sizeD, h0]; rfl
    have s1 : (Item.instr line cf).sizeD = 2 := by rw [instr_sizeD, h1]; rfl
    exact ⟨u1, e1, by omega, by omega⟩

/-! ### stretch-wise -/

/-- a stretch between markers and aligns -/
def Plain (s : List Item) : Prop :=
  ∀ x ∈ s, (∀ l n, x ≠ .label l n) ∧ (∀ l a, x ≠ .align l a) ∧ 0 ≤ x.sizeD

theorem Plain.noLabel {s : List Item} (h : Plain s) : NoLabel s := fun x hx => (h x hx).1
theorem Plain.nonneg {s : List Item} (h : Plain s) : NonNeg s := fun x hx => (h x hx).2.2

theorem Plain.append {a b : List Item} (ha : Plain a) (hb : Plain b) : Plain (a ++ b) := by
  intro x hx
  rcases List.mem_append.mp hx with hx | hx
  · exact ha x hx
  · exact hb x hx

theorem plain_nil : Plain [] := fun x hx => by simp at hx

inductive Dom : List Item → List Item → Prop
  | nil : Dom [] []
  | label (line : Line) (n : String) {G0 G1 : List Item} : Dom G0 G1 →
      Dom (.label line n :: G0) (.label line n :: G1)
  | align (line : Line) (a : Int) {G0 G1 : List Item} : Dom G0 G1 →
      Dom (.align line a :: G0) (.align line a :: G1)
  | group {s0 s1 G0 G1 : List Item} : Plain s0 → Plain s1 → sizeSum s1 ≤ sizeSum s0 → Dom G0 G1 →
      Dom (s0 ++ G0) (s1 ++ G1)

theorem Dom.labelNames_eq {G0 G1 : List Item} (h : Dom G0 G1) : labelNames G1 = labelNames G0 := by
  induction h with
  | nil => rfl
  | label line n _ ih => simp only [labelNames, ih]
  | align line a _ ih => simp only [labelNames, ih]
  | group h0 h1 _ _ ih =>
    rw [labelNames_append_noLabel _ _ h0.noLabel, labelNames_append_noLabel _ _ h1.noLabel, ih]

/-- an item-wise related list, appended after: `Dom` absorbs a compression pass on the right -/
theorem IW.append_inv {a : List Item} : ∀ {b X : List Item}, IW (a ++ b) X →
    ∃ a' b', X = a' ++ b' ∧ IW a a' ∧ IW b b' := by
  induction a with
  | nil => intro b X h; exact ⟨[], X, rfl, .nil, h⟩
  | cons x a ih =>
    intro b X h
    rw [List.cons_append] at h
    cases h with
    | same _ hr =>
      obtain ⟨a', b', rfl, h1, h2⟩ := ih hr
      exact ⟨x :: a', b', rfl, .same x h1, h2⟩
    | comp line ins cf h0 h1 hr =>
      obtain ⟨a', b', rfl, e1, e2⟩ := ih hr
      exact ⟨.instr line cf :: a', b', rfl, .comp line ins cf h0 h1 e1, e2⟩

theorem IW.plain {s s' : List Item} (h : IW s s') (hs : Plain s) : Plain s' := by
  induction h with
  | nil => exact hs
  | same it _ ih =>
    intro x hx
    rcases List.mem_cons.mp hx with rfl | hx
    · exact hs _ List.mem_cons_self
    · exact ih (fun y hy => hs y (List.mem_cons_of_mem _ hy)) x hx
  | comp line ins cf h0 h1 _ ih =>
    intro x hx
    rcases List.mem_cons.mp hx with rfl | hx
    · exact ⟨(fun l n e => by cases e), (fun l a e => by cases e), by rw [instr_sizeD, h1]; simp⟩
    · exact ih (fun y hy => hs y (List.mem_cons_of_mem _ hy)) x hx

theorem Dom.comp_IW {G0 G1 : List Item} (h : Dom G0 G1) : ∀ {X : List Item}, IW G1 X → Dom G0 X := by
  induction h with
  | nil => intro X hX; cases hX; exact .nil
  | label line n _ ih =>
    intro X hX
    cases hX with
    | same _ hr => exact .label line n (ih hr)
  | align line a _ ih =>
    intro X hX
    cases hX with
    | same _ hr => exact .align line a (ih hr)
  | group h0 h1 hle _ ih =>
    intro X hX
    obtain ⟨s1', X', rfl, e1, e2⟩ := IW.append_inv hX
    exact .group h0 (e1.plain h1) (by have := e1.sizeSum_le; omega) (ih e2)

/-- item-wise related lists are stretch-wise related -/
theorem IW.dom {G0 G1 : List Item} (h : IW G0 G1) (hnn : NonNeg G0) : Dom G0 G1 := by
  induction h with
  | nil => exact .nil
  | @same it G0 G1 _ ih =>
    have hrest : NonNeg G0 := fun y hy => hnn y (List.mem_cons_of_mem _ hy)
    cases it with
    | label l n => exact .label l n (ih hrest)
    | align l a => exact .align l a (ih hrest)
    | _ =>
      refine Dom.group (s0 := [_]) (s1 := [_]) ?_ ?_ (Int.le_refl _) (ih hrest)
      all_goals (
        intro x hx
        simp only [List.mem_singleton] at hx
        subst hx
        exact ⟨(fun l n e => by cases e), (fun l a e => by cases e), hnn _ List.mem_cons_self⟩)
  | @comp line ins cf G0 G1 h0 h1 _ ih =>
    have hrest : NonNeg G0 := fun y hy => hnn y (List.mem_cons_of_mem _ hy)
    refine Dom.group (s0 := [_]) (s1 := [_]) ?_ ?_ ?_ (ih hrest)
    · intro x hx
      simp only [List.mem_singleton] at hx
      subst hx
      exact ⟨(fun l n e => by cases e), (fun l a e => by cases e), hnn _ List.mem_cons_self⟩
    · intro x hx
      simp only [List.mem_singleton] at hx
      subst hx
      exact ⟨(fun l n e => by cases e), (fun l a e => by cases e), by rw [instr_sizeD, h1]; simp⟩
    · simp only [sizeSum, List.map_cons, List.map_nil, List.sum_cons, List.sum_nil, instr_sizeD, h0, h1]; simp

/-- resolve_register_aliases on both sides -/
theorem aliases_append (a b : List Item) (constants : Dict) :
    resolveRegisterAliases (a ++ b) constants = resolveRegisterAliases a constants ++ resolveRegisterAliases b constants := by
  simp [resolveRegisterAliases]

theorem aliases_plain {s : List Item} (constants : Dict) (h : Plain s) : Plain (resolveRegisterAliases s constants) := by
  intro x hx
  simp only [resolveRegisterAliases, List.mem_map] at hx
  obtain ⟨it, hit, rfl⟩ := hx
  obtain ⟨h1, h2, h3⟩ := h it hit
  cases it with
  | instr line ins =>
    refine ⟨(fun l n e => by cases e), (fun l a e => by cases e), ?_⟩
    have := aliasItem_sizeD constants (.instr line ins)
    simp only at this
    rw [this]; exact h3
  | _ => exact ⟨h1, h2, h3⟩

theorem Dom.aliases {G0 G1 : List Item} (h : Dom G0 G1) (constants : Dict) :
    Dom (resolveRegisterAliases G0 constants) (resolveRegisterAliases G1 constants) := by
  induction h with
  | nil => exact .nil
  | label line n _ ih => exact .label line n ih
  | align line a _ ih => exact .align line a ih
  | group h0 h1 hle _ ih =>
    rw [aliases_append, aliases_append]
    exact .group (aliases_plain constants h0) (aliases_plain constants h1)
      (by rw [sizeSum_aliases, sizeSum_aliases]; exact hle) ih

end BB.Lemmas
