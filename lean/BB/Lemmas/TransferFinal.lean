/-
  BB.Lemmas.TransferFinal — the predicates of a compression decision, re-read at the FINAL tables.

  * `holds_labelfree`      : label-free immediate ⇒ the predicates hold at every table / position
  * `offset_value`         : `%offset(ref)` of a label not shadowed by a constant evaluates to
                             `labels[ref] − position`
  * `transfer_preds_final` : for the four transfer rules (c.j, c.jal, c.beqz, c.bnez) on an instruction
                             whose immediate is `%offset(ref)`: if the predicates held for the distance
                             `vdec` and the final distance `dfin` is `Closer` and even, they hold at the end
  * `jal_accept_even`, `branch_accept_even` : what the 32-bit encoders accept has an even offset
  * `decided_holds_final`  : `compressed_origin_dist` + the two facts above, per item of the final list
  * `assemble_stages_all`  : the pipeline with every stage used here exposed
-/
import BB.Lemmas.TrackPipeline
set_option linter.unusedSimpArgs false
set_option linter.unusedVariables false
set_option linter.unusedTactic false
set_option linter.unreachableTactic false
namespace BB.Lemmas
open BB BB.Spec

/-- the four rules that compress a pc-relative transfer -/
def transferRules : List String := ["c.j", "c.jal", "c.beqz", "c.bnez"]

theorem holds_labelfree {H : Hooks} {constants : Dict} {ins : Instr}
    (hfree : ∀ imm, ins.imm? = some imm → ImmLabelFree H constants imm)
    (L L' : Dict) (line : Line) (p p' : Int) {preds : List Pred}
    (hp : ∀ pr ∈ preds, pr.holds ins (evalAt H (chainGet constants L) line p)) :
    ∀ pr ∈ preds, pr.holds ins (evalAt H (chainGet constants L') line p') := by
  have himm : immVal ins (evalAt H (chainGet constants L') line p')
      = immVal ins (evalAt H (chainGet constants L) line p) := by
    unfold immVal
    cases hi : ins.imm? with
    | none => rfl
    | some imm =>
      simp only [Option.bind_some, evalAt]
      rw [hfree imm hi L' L line p' p]
  intro pr hpr
  have h := hp pr hpr
  cases pr <;> simp only [Pred.holds, himm] at h ⊢ <;> exact h

/-- `%offset(ref)` for a label that no constant shadows -/
theorem offset_value {H : Hooks} {constants L : Dict} {line : Line} {ref : String} {p u : Int}
    (hc : constants.get ref = none) (hu : L.get ref = some u) :
    evalAt H (chainGet constants L) line p (.offset ref) = some (u - p) := by
  simp [evalAt, Imm.eval, chainGet, hc, hu, Except.toOption]

/-- the predicates of a transfer rule, moved from the decision's distance to a closer, even one -/
theorem transfer_preds_final {c : String} {preds : List Pred} (hmem : (c, preds) ∈ criteria)
    (hc : c ∈ transferRules) {ins : Instr} {imm : Imm} (himm : ins.imm? = some imm)
    {ev ev' : Imm → Option Int} {vdec dfin : Int} (hev : ev imm = some vdec) (hev' : ev' imm = some dfin)
    (hcl : Closer vdec dfin) (heven : dfin % 2 = 0)
    (hp : ∀ pr ∈ preds, pr.holds ins ev) : ∀ pr ∈ preds, pr.holds ins ev' := by
  have hv : immVal ins ev = some vdec := by simp [immVal, himm, hev]
  have hv' : immVal ins ev' = some dfin := by simp [immVal, himm, hev']
  simp only [transferRules, List.mem_cons, List.mem_nil_iff, or_false] at hc
  rcases hc with rfl | rfl | rfl | rfl <;> simp [criteria] at hmem <;> subst hmem <;>
    simp only [List.mem_cons, List.mem_nil_iff, or_false, forall_eq_or_imp, forall_eq, Pred.holds, hv, hv',
      Option.some.injEq, exists_eq_left'] at hp ⊢
  all_goals first
    | (obtain ⟨h1, h2, h3, h4, h5⟩ := hp
       have hb := hcl.between (by omega) (by omega) h4 h5
       exact ⟨h1, h2, heven, hb.1, hb.2⟩)
    | (obtain ⟨h1, h2, h3, h4, h5, h6⟩ := hp
       have hb := hcl.between (by omega) (by omega) h5 h6
       exact ⟨h1, h2, h3, heven, hb.1, hb.2⟩)

/-! ### what the 32-bit encoders accept has an even offset -/

theorem jal_accept_even {n : String} {rd : RegOp} {v : Int} {w : Nat} (hn : n = "jal")
    (h : encode n [.r rd, .i v] = .ok w) : v % 2 = 0 := by
  subst hn
  obtain ⟨ops, hd, hl, _⟩ := BB.Props.C01.encode32_sound "jal" (.j 111) (by decide) rfl _ w h
  simp only [BB.Props.C01.denote32, bind, Option.bind, pure] at hd
  cases hr : BB.Props.C01.denoteReg rd with
  | none => simp [hr] at hd
  | some o =>
    simp only [hr, Option.some.injEq] at hd
    subst hd
    have hc : classOf "jal" = some .jal := by decide
    simp only [legal32, hc] at hl
    cases o with
    | reg a =>
      simp only [legalOf, multOf, Bool.and_eq_true, decide_eq_true_eq] at hl
      exact hl.2
    | imm x => simp [legalOf] at hl

theorem branch_accept_even {n : String} {o : BrOp} {op f3 : Nat} {rs1 rs2 : RegOp} {v : Int} {w : Nat}
    (hk : instrTable.lookup n = some (.b op f3)) (hc : classOf n = some (.br o))
    (h : encode n [.r rs1, .r rs2, .i v] = .ok w) : v % 2 = 0 := by
  obtain ⟨ops, hd, hl, _⟩ := BB.Props.C01.encode32_sound n (.b op f3) hk rfl _ w h
  simp only [BB.Props.C01.denote32, bind, Option.bind, pure] at hd
  cases hr1 : BB.Props.C01.denoteReg rs1 with
  | none => simp [hr1] at hd
  | some o1 =>
    cases hr2 : BB.Props.C01.denoteReg rs2 with
    | none => simp [hr1, hr2] at hd
    | some o2 =>
      simp only [hr1, hr2, Option.some.injEq] at hd
      subst hd
      simp only [legal32, hc] at hl
      cases o1 <;> cases o2 <;> simp only [legalOf, multOf, Bool.and_eq_true, decide_eq_true_eq] at hl <;>
        first | exact hl.2 | (simp at hl)

/-- the 32-bit origin of a transfer rule, accepted by its encoder, has an even offset -/
theorem transfer_accept_even {c : String} {preds : List Pred} (hmem : (c, preds) ∈ criteria)
    (hc : c ∈ transferRules) {ins cf rins : Instr} {ev ev0 : Imm → Option Int}
    (hp : ∀ pr ∈ preds, pr.holds ins ev0) (hcf : compressedForm c ins = some cf)
    {imm : Imm} (himm : ins.imm? = some imm) {d : Int} (hev : ev imm = some d)
    (hres : resolveWith ev ins = some rins)
    (hacc : ∃ args w, rins.args = some args ∧ encode rins.name args = .ok w) : d % 2 = 0 := by
  obtain ⟨args, w, ha, he⟩ := hacc
  simp only [transferRules, List.mem_cons, List.mem_nil_iff, or_false] at hc
  rcases hc with rfl | rfl | rfl | rfl <;> simp [criteria] at hmem <;> subst hmem
  all_goals (have hn := hp _ List.mem_cons_self; simp only [Pred.holds] at hn)
  all_goals (cases ins <;> simp [compressedForm] at hcf)
  all_goals (
    simp only [Instr.imm?, Option.some.injEq] at himm
    subst himm
    simp only [resolveWith, Instr.imm?, hev, Option.map_some, Instr.setImm, Option.some.injEq] at hres
    subst hres
    simp only [Instr.args, Option.some.injEq] at ha
    subst ha
    simp only [Instr.name] at hn he)
  · exact jal_accept_even hn he
  · exact jal_accept_even hn he
  · subst hn; exact branch_accept_even (by decide : instrTable.lookup "beq" = some (.b 99 0)) (by decide : classOf "beq" = some (.br .beq)) he
  · subst hn; exact branch_accept_even (by decide : instrTable.lookup "bne" = some (.b 99 1)) (by decide : classOf "bne" = some (.br .bne)) he

/-! ### per item of the final list: the decision, the distances, the predicates at the final tables -/

/-- **one compressed item of the list held after resolve_aligns.**  Either it stood compressed in the
    aliased source, or a compression pass decided it (`DecidedAt`, at position `p` against table `L`),
    and then
    (a) every label's distance from the instruction only came `Closer` between the decision and the
        final tables (offset of the item: `sizeSum (items7.take i)`);
    (b) if the original's immediate is label-free, the rule's predicates hold at the final tables;
    (c) if the rule is a transfer rule, the immediate `%offset(ref)` of a label `ref` not shadowed by
        a constant, and the final distance is even, the rule's predicates hold at the final tables. -/
theorem decided_holds_final (H : Hooks) (constants : Dict)
    {items items1 items2 items3 items4 items6 items7 : List Item}
    {labels2 labels3 labels4 labels6 labels7 : Dict} (hnn : NonNeg items)
    (h1 : resolveConstants H items [] = .ok (items1, constants))
    (h2 : resolveLabels items1 [] = .ok (items2, labels2))
    (h3 : maybeCompress H true (resolveRegisterAliases items2 constants) constants labels2 = .ok (items3, labels3))
    (h4 : transformPseudo H items3 constants labels3 = .ok (items4, labels4))
    (h6 : maybeCompress H true (resolveRegisterAliases items4 constants) constants labels4 = .ok (items6, labels6))
    (h7 : resolveAligns items6 labels6 = .ok (items7, labels7))
    (i : Nat) (hi : i < items7.length) {line : Line} {cf : Instr} (hit : items7[i] = .instr line cf)
    (hc : cf.isCompressed = true) :
    Item.instr line cf ∈ resolveRegisterAliases items2 constants ∨
    ∃ ins c preds p L, DecidedAt H constants line cf ins c preds p L ∧
      (∀ ref ∈ labelNames items, ∃ vdec dfin, L.get ref = some (vdec + p) ∧
        labels7.get ref = some (dfin + sizeSum (items7.take i)) ∧ Closer vdec dfin) ∧
      ((∀ imm, ins.imm? = some imm → ImmLabelFree H constants imm) →
        ∀ pr ∈ preds, pr.holds ins (evalAt H (chainGet constants labels7) line (sizeSum (items7.take i)))) ∧
      (c ∈ transferRules → ∀ ref dfin, ins.imm? = some (.offset ref) → ref ∈ labelNames items →
        constants.get ref = none → labels7.get ref = some (dfin + sizeSum (items7.take i)) → dfin % 2 = 0 →
        ∀ pr ∈ preds, pr.holds ins (evalAt H (chainGet constants labels7) line (sizeSum (items7.take i)))) := by
  rcases compressed_origin_dist H constants hnn h1 h2 h3 h4 h6 h7 i hi hit hc with ho | ⟨ins, c, preds, p, L, hdec, hdist⟩
  · exact Or.inl ho
  · obtain ⟨hnc, hnaj, hmem, hall, hcf⟩ := hdec
    have hp := (allPreds_true_iff H _ line ins p preds).mp hall
    refine Or.inr ⟨ins, c, preds, p, L, ⟨hnc, hnaj, hmem, hall, hcf⟩, hdist, ?_, ?_⟩
    · intro hfree
      exact holds_labelfree hfree L labels7 line p _ hp
    · intro hct ref dfin himm hr hcn hfin heven
      obtain ⟨vdec, dfin', hL, hfin', hcl⟩ := hdist ref hr
      rw [hfin] at hfin'
      have hd : dfin' = dfin := by
        simp only [Option.some.injEq] at hfin'; omega
      subst hd
      refine transfer_preds_final hmem hct himm (vdec := vdec) (dfin := dfin') ?_ ?_ hcl heven hp
      · rw [offset_value hcn hL]; congr 1; omega
      · rw [offset_value hcn hfin]; congr 1; omega

/-- the pipeline of a successful run with every stage used in this file exposed (the constants and the
    final label table are the RETURNED ones) -/
theorem assemble_stages_all (H : Hooks) (compress : Bool) (items : List Item) (r : AsmResult)
    (h : assembleItems H compress items [] [] = .ok r) :
    ∃ (items1 items2 items3 items4 items6 items7 out : List Item) (labels2 labels3 labels4 labels6 : Dict),
      Expands items items7 ∧
      resolveConstants H items [] = .ok (items1, r.constants) ∧
      resolveLabels items1 [] = .ok (items2, labels2) ∧
      maybeCompress H compress (resolveRegisterAliases items2 r.constants) r.constants labels2
        = .ok (items3, labels3) ∧
      transformPseudo H items3 r.constants labels3 = .ok (items4, labels4) ∧
      maybeCompress H compress (resolveRegisterAliases items4 r.constants) r.constants labels4
        = .ok (items6, labels6) ∧
      resolveAligns items6 labels6 = .ok (items7, r.labels) ∧
      BB.Props.C03.Land H r.constants r.labels 0 items7 out ∧ r.bytes = blobBytes out := by
  unfold assembleItems at h
  simp only [bind, Except.bind] at h
  cases h1 : resolveConstants H items [] with
  | error e => simp [h1] at h
  | ok r1 =>
  obtain ⟨items1, constants⟩ := r1
  simp only [h1] at h
  have e1 := resolveConstants_expands H items [] items1 constants h1
  cases h2 : resolveLabels items1 [] with
  | error e => simp [h2] at h
  | ok r2 =>
  obtain ⟨items2, labels2⟩ := r2
  simp only [h2] at h
  have e2 := e1.trans (resolveLabelsAux_expands items1 0 [] [] items2 labels2 h2)
  have e2a := e2.trans (aliases_expands items2 constants)
  cases h3 : maybeCompress H compress (resolveRegisterAliases items2 constants) constants labels2 with
  | error e => simp [h3] at h
  | ok r3 =>
  obtain ⟨items3, labels3⟩ := r3
  simp only [h3] at h
  have e3 := e2a.trans (BB.Props.C09.maybeCompress_expands H compress _ constants labels2 items3 labels3 h3)
  cases h4 : transformPseudo H items3 constants labels3 with
  | error e => simp [h4] at h
  | ok r4 =>
  obtain ⟨items4, labels4⟩ := r4
  simp only [h4] at h
  have e4 := e3.trans (walk_expands (pseudoBody_img H constants) items3 0 labels3 items4 labels4 h4)
  have e5 := e4.trans (aliases_expands items4 constants)
  cases h6 : maybeCompress H compress (resolveRegisterAliases items4 constants) constants labels4 with
  | error e => simp [h6] at h
  | ok r6 =>
  obtain ⟨items6, labels6⟩ := r6
  simp only [h6] at h
  have e6 := e5.trans (BB.Props.C09.maybeCompress_expands H compress _ constants labels4 items6 labels6 h6)
  cases h7 : resolveAligns items6 labels6 with
  | error e => simp [h7] at h
  | ok r7 =>
  obtain ⟨items7, labels7⟩ := r7
  simp only [h7] at h
  have e7 := e6.trans (walk_expands alignBody_img items6 0 labels6 items7 labels7 h7)
  cases h8 : resolveImmediates H items7 constants labels7 with
  | error e => simp [h8] at h
  | ok items8 =>
  simp only [h8] at h
  unfold resolveImmediates at h8
  simp only [bind, Except.bind] at h8
  cases h8w : walk (immBody H constants) items7 0 labels7 with
  | error e => simp [h8w] at h8
  | ok r8 =>
  obtain ⟨o8, l8⟩ := r8
  simp only [h8w, pure, Except.pure, Except.ok.injEq] at h8
  subst h8
  obtain ⟨_, hrel⟩ := BB.Props.C08.imm_walk_positions H constants items7 0 labels7 o8 l8 h8w
  cases h9 : resolveInstructions o8 with
  | error e => simp [h9] at h
  | ok items9 =>
  simp only [h9] at h
  cases h11 : resolveSequences (resolveStrings items9) with
  | error e => simp [h11] at h
  | ok items11 =>
  simp only [h11] at h
  cases h12 : transformShorthandPacks items11 with
  | error e => simp [h12] at h
  | ok items12 =>
  simp only [h12] at h
  cases h13 : resolvePacks items12 with
  | error e => simp [h13] at h
  | ok items13 =>
  simp only [h13] at h
  cases h14 : resolveIncludeBytes H items13 with
  | error e => simp [h14] at h
  | ok items14 =>
  simp only [h14] at h
  cases h15 : resolveBlobs items14 with
  | error e => simp [h15] at h
  | ok bytes =>
  simp only [h15, pure, Except.pure, Except.ok.injEq] at h
  obtain ⟨hb1, hb2⟩ := BB.Props.C09.resolveBlobs_bytes items14 bytes h15
  have p9 := BB.Props.C03.mapM_pw o8 items9 h9
  have p10 : BB.Props.C03.Pw (fun a b => b = BB.Props.C03.stringStep a) items9 (resolveStrings items9) :=
    BB.Props.C03.map_pw BB.Props.C03.stringStep items9
  have p11 := BB.Props.C03.mapM_pw _ items11 h11
  have p12 := BB.Props.C03.mapM_pw _ items12 h12
  have p13 := BB.Props.C03.mapM_pw _ items13 h13
  have p14 := BB.Props.C03.mapM_pw _ items14 h14
  have pall := ((((p9.comp p10).comp p11).comp p12).comp p13).comp p14
  have pfin : BB.Props.C03.Pw (BB.Props.C03.Finish H) o8 items14 := by
    refine BB.Props.C03.Pw.mono ?_ pall
    rintro a z ⟨f, ⟨e, ⟨d, ⟨c, ⟨b, hb, hc⟩, hd⟩, he⟩, hf⟩, hz⟩
    subst hc
    exact ⟨b, d, e, f, hb, hd, he, hf, hz⟩
  rw [← h]
  exact ⟨items1, items2, items3, items4, items6, items7, items14, labels2, labels3, labels4, labels6, e7, rfl, h2, h3, h4, h6, h7,
    BB.Props.C03.land_of hrel pfin hb1, hb2⟩


end BB.Lemmas
