/-
  BB.Lemmas.ErrRead — `read_lines` numbers lines correctly: every `Line` it produces, and the `Line`
  of every AssemblerError it raises (missing include file, malformed include line), carries the path
  of the file the text was read from and the 1-based index of the line among that file's
  `splitlines()`; at any include depth.
-/
import BB.Lemmas.ErrFront
namespace BB.Lemmas
open BB

/-- `l` is numbered as line `k+1` of the text `src` of the file `path` -/
def LineOfFile (path : String) (src : List Char) (l : Line) : Prop :=
  l.file = path ∧ ∃ k raw, (splitLines src)[k]? = some raw ∧ l.number = k + 1

/-- `l` is a correctly numbered line of some (ASCII) file of the filesystem -/
def FromFS (fs : FS) (l : Line) : Prop :=
  ∃ p bs src, fs.readAt p = some bs ∧ bytesToText bs = some src ∧ LineOfFile p src l

/-- result of a reader: all lines produced, and the line of an AssemblerError, satisfy `Q` -/
def ReadOK (r : Except Err (List Line)) (Q : Line → Prop) : Prop :=
  (∀ ls, r = .ok ls → ∀ l ∈ ls, Q l) ∧ (∀ ln, r = .error (.asm ln) → Q ln)

theorem ReadOK.internal {Q : Line → Prop} {s : String} : ReadOK (.error (.internal s)) Q :=
  ⟨fun ls h => (by cases h), fun ln h => (by injection h with h; cases h)⟩

theorem ReadOK.unsupported {Q : Line → Prop} {s : String} : ReadOK (.error (.unsupported s)) Q :=
  ⟨fun ls h => (by cases h), fun ln h => (by injection h with h; cases h)⟩

theorem ReadOK.asm {Q : Line → Prop} {l : Line} (h : Q l) : ReadOK (.error (.asm l)) Q :=
  ⟨fun ls h' => (by cases h'), fun ln h' => (by
    simp only [Except.error.injEq, Err.asm.injEq] at h'; rw [← h']; exact h)⟩

theorem ReadOK.mono {r : Except Err (List Line)} {Q Q' : Line → Prop} (h : ReadOK r Q)
    (hq : ∀ l, Q l → Q' l) : ReadOK r Q' :=
  ⟨fun ls hr l hl => hq l (h.1 ls hr l hl), fun ln hr => hq ln (h.2 ln hr)⟩

theorem ReadOK.append {r1 r2 : Except Err (List Line)} {Q : Line → Prop} (h1 : ReadOK r1 Q)
    (h2 : ReadOK r2 Q) :
    ReadOK (do let a ← r1; let b ← r2; pure (a ++ b)) Q := by
  cases r1 with
  | error e =>
    refine ⟨fun ls h => by simp [bind, Except.bind] at h, ?_⟩
    intro ln h
    simp only [bind, Except.bind, Except.error.injEq] at h
    subst h; exact h1.2 ln rfl
  | ok a =>
    cases r2 with
    | error e =>
      refine ⟨fun ls h => by simp [bind, Except.bind] at h, ?_⟩
      intro ln h
      simp only [bind, Except.bind, Except.error.injEq] at h
      subst h; exact h2.2 ln rfl
    | ok b =>
      refine ⟨?_, fun ln h => by simp [bind, Except.bind, pure, Except.pure] at h⟩
      intro ls h l hl
      simp only [bind, Except.bind, pure, Except.pure, Except.ok.injEq] at h
      subst h
      rcases List.mem_append.mp hl with hl | hl
      · exact h1.1 a rfl l hl
      · exact h2.1 b rfl l hl

theorem ReadOK.cons {r : Except Err (List Line)} {Q : Line → Prop} {l0 : Line} (h0 : Q l0)
    (h : ReadOK r Q) : ReadOK (do let more ← r; pure (l0 :: more)) Q := by
  cases r with
  | error e =>
    refine ⟨fun ls h' => by simp [bind, Except.bind] at h', ?_⟩
    intro ln h'
    simp only [bind, Except.bind, Except.error.injEq] at h'
    subst h'; exact h.2 ln rfl
  | ok more =>
    refine ⟨?_, fun ln h' => by simp [bind, Except.bind, pure, Except.pure] at h'⟩
    intro ls h' l hl
    simp only [bind, Except.bind, pure, Except.pure, Except.ok.injEq] at h'
    subst h'
    simp only [List.mem_cons] at hl
    rcases hl with rfl | hl
    · exact h0
    · exact h.1 more rfl l hl

/-- the loop over the lines of one file, given the claim for the files it includes (`ihF`) -/
theorem go_numbered (fs : FS) (dirs : List String) (fuel : Nat) (path : String) (cd : List String)
    (src : List Char)
    (ihF : ∀ p b s, ReadOK (readLinesAux fs dirs fuel p b s) (fun l => LineOfFile p s l ∨ FromFS fs l)) :
    ∀ (raws pre : List (List Char)) (n : Nat), splitLines src = pre ++ raws → n = pre.length + 1 →
      ReadOK (readLinesAux.go fs dirs fuel path cd n raws) (fun l => LineOfFile path src l ∨ FromFS fs l) := by
  intro raws
  induction raws with
  | nil =>
    intro pre n _ _
    rw [readLinesAux.go.eq_1]
    exact ⟨fun ls h l hl => (by cases h; simp at hl), fun ln h => (by cases h)⟩
  | cons raw rest ih =>
    intro pre n hsplit hn
    have hrest := ih (pre ++ [raw]) (n + 1) (by rw [hsplit]; simp) (by simp [hn])
    have hline : ∀ c, LineOfFile path src { file := path, number := n, contents := c } := by
      intro c
      refine ⟨rfl, pre.length, raw, ?_, hn⟩
      rw [hsplit]; simp
    rw [readLinesAux.go.eq_2]
    split
    · exact hrest
    · dsimp only
      split
      · -- include
        split
        · split
          · exact ReadOK.unsupported
          · split
            · exact ReadOK.asm (Or.inl (hline _))
            · split
              · exact ReadOK.internal
              · split
                · exact ReadOK.internal
                · split
                  · exact ReadOK.unsupported
                  · refine ReadOK.append ?_ hrest
                    refine (ihF _ _ _).mono ?_
                    intro l hl
                    rcases hl with hl | hl
                    · exact Or.inr ⟨_, _, _, by assumption, by assumption, hl⟩
                    · exact Or.inr hl
        · exact ReadOK.asm (Or.inl (hline _))
      · split
        · -- include_bytes
          split
          · split
            · exact ReadOK.unsupported
            · split
              · exact ReadOK.asm (Or.inl (hline _))
              · split
                · exact ReadOK.unsupported
                · exact ReadOK.cons (Or.inl (hline _)) hrest
          · exact ReadOK.asm (Or.inl (hline _))
        · exact ReadOK.cons (Or.inl (hline _)) hrest

/-- **Lines are numbered per file, 1-based, at every include depth.** -/
theorem readLinesAux_numbered (fs : FS) (dirs : List String) :
    ∀ (fuel : Nat) (path base : String) (src : List Char),
      ReadOK (readLinesAux fs dirs fuel path base src) (fun l => LineOfFile path src l ∨ FromFS fs l) := by
  intro fuel
  induction fuel with
  | zero =>
    intro path base src
    rw [readLinesAux.eq_1]
    exact ReadOK.unsupported
  | succ f ih =>
    intro path base src
    rw [readLinesAux.eq_2]
    exact go_numbered fs dirs f path _ src ih (splitLines src) [] 1 rfl rfl

end BB.Lemmas
