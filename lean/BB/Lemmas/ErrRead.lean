/-
  BB.Lemmas.ErrRead — `read_lines` numbers lines correctly: every `Line` it produces, and the `Line`
  of every AssemblerError it raises (missing include file, malformed include line), carries the path
  of the file the text was read from, the 1-based index of the line among that file's
  `splitlines()`, and that line's TEXT as contents; at any include depth.
-/
import BB.Lemmas.ErrFront
namespace BB.Lemmas
open BB

/-- the contents `read_lines` gives the `Line` made from the raw line `raw`: the raw text itself —
    or, for an `include_bytes` line only, what asm.py rewrites it to: the line's own keyword, the
    path of a readable file of `fs` and that file's size (`include_bytes <path> <size>`) -/
def ContentsOf (fs : FS) (raw : List Char) (c : String) : Prop :=
  c = String.ofList raw ∨
  ∃ kw rel p bs, ("include_bytes ".toList).isPrefixOf (lowerL raw) = true ∧ splitWs raw = [kw, rel] ∧
    fs.readAt p = some bs ∧ c = String.ofList kw ++ " " ++ p ++ " " ++ toString bs.length

/-- `l` is line `l.number` (1-based) of the text `src` of the file `path`, AND ITS CONTENTS ARE THAT
    LINE'S TEXT: `(splitLines src)[l.number - 1] = raw` and `l.contents` is `raw` (`ContentsOf`: or the
    rewritten form of an include_bytes line `raw`) -/
def LineOfFile (fs : FS) (path : String) (src : List Char) (l : Line) : Prop :=
  l.file = path ∧ ∃ raw, 1 ≤ l.number ∧ (splitLines src)[l.number - 1]? = some raw ∧ ContentsOf fs raw l.contents

/-- the same with the contents being exactly the raw text of the line: what holds for the `Line`
    of every AssemblerError `read_lines` itself raises -/
def RawLineOfFile (path : String) (src : List Char) (l : Line) : Prop :=
  l.file = path ∧ 1 ≤ l.number ∧ (splitLines src)[l.number - 1]? = some l.contents.toList

theorem RawLineOfFile.lineOfFile {fs : FS} {path : String} {src : List Char} {l : Line}
    (h : RawLineOfFile path src l) : LineOfFile fs path src l :=
  ⟨h.1, l.contents.toList, h.2.1, h.2.2, Or.inl (by simp)⟩

/-- `l` is a correctly numbered line, with its text, of some file of the filesystem -/
def FromFS (fs : FS) (l : Line) : Prop :=
  ∃ p bs src, fs.readAt p = some bs ∧ bytesToText bs = some src ∧ LineOfFile fs p src l

/-- … with exactly the raw text as contents -/
def RawFromFS (fs : FS) (l : Line) : Prop :=
  ∃ p bs src, fs.readAt p = some bs ∧ bytesToText bs = some src ∧ RawLineOfFile p src l

theorem RawFromFS.fromFS {fs : FS} {l : Line} (h : RawFromFS fs l) : FromFS fs l := by
  obtain ⟨p, bs, src, h1, h2, h3⟩ := h
  exact ⟨p, bs, src, h1, h2, h3.lineOfFile⟩

/-- result of a reader: all lines produced satisfy `Q`, the line of an AssemblerError satisfies `E` -/
def ReadOK (r : Except Err (List Line)) (Q E : Line → Prop) : Prop :=
  (∀ ls, r = .ok ls → ∀ l ∈ ls, Q l) ∧ (∀ ln, r = .error (.asm ln) → E ln)

theorem ReadOK.internal {Q E : Line → Prop} {s : String} : ReadOK (.error (.internal s)) Q E :=
  ⟨fun ls h => (by cases h), fun ln h => (by injection h with h; cases h)⟩

theorem ReadOK.unsupported {Q E : Line → Prop} {s : String} : ReadOK (.error (.unsupported s)) Q E :=
  ⟨fun ls h => (by cases h), fun ln h => (by injection h with h; cases h)⟩

theorem ReadOK.asm {Q E : Line → Prop} {l : Line} (h : E l) : ReadOK (.error (.asm l)) Q E :=
  ⟨fun ls h' => (by cases h'), fun ln h' => (by
    simp only [Except.error.injEq, Err.asm.injEq] at h'; rw [← h']; exact h)⟩

theorem ReadOK.mono {r : Except Err (List Line)} {Q Q' E E' : Line → Prop} (h : ReadOK r Q E)
    (hq : ∀ l, Q l → Q' l) (he : ∀ l, E l → E' l) : ReadOK r Q' E' :=
  ⟨fun ls hr l hl => hq l (h.1 ls hr l hl), fun ln hr => he ln (h.2 ln hr)⟩

theorem ReadOK.append {r1 r2 : Except Err (List Line)} {Q E : Line → Prop} (h1 : ReadOK r1 Q E)
    (h2 : ReadOK r2 Q E) :
    ReadOK (do let a ← r1; let b ← r2; pure (a ++ b)) Q E := by
  cases r1 with
  | error e =>
    refine ⟨fun ls h => by simp [bind, Except.bind] at h, ?_⟩
    intro ln h
    simp only [bind, Except.bind, Except.error.injEq] at h
    subst h; exact h1.2 ln rfl
  | ok a =>
    cases r2 with
    | error e =>
      refine ⟨fun ls h => by simp [bind, Except.bind] at h, ?_⟩
      intro ln h
      simp only [bind, Except.bind, Except.error.injEq] at h
      subst h; exact h2.2 ln rfl
    | ok b =>
      refine ⟨?_, fun ln h => by simp [bind, Except.bind, pure, Except.pure] at h⟩
      intro ls h l hl
      simp only [bind, Except.bind, pure, Except.pure, Except.ok.injEq] at h
      subst h
      rcases List.mem_append.mp hl with hl | hl
      · exact h1.1 a rfl l hl
      · exact h2.1 b rfl l hl

theorem ReadOK.cons {r : Except Err (List Line)} {Q E : Line → Prop} {l0 : Line} (h0 : Q l0)
    (h : ReadOK r Q E) : ReadOK (do let more ← r; pure (l0 :: more)) Q E := by
  cases r with
  | error e =>
    refine ⟨fun ls h' => by simp [bind, Except.bind] at h', ?_⟩
    intro ln h'
    simp only [bind, Except.bind, Except.error.injEq] at h'
    subst h'; exact h.2 ln rfl
  | ok more =>
    refine ⟨?_, fun ln h' => by simp [bind, Except.bind, pure, Except.pure] at h'⟩
    intro ls h' l hl
    simp only [bind, Except.bind, pure, Except.pure, Except.ok.injEq] at h'
    subst h'
    simp only [List.mem_cons] at hl
    rcases hl with rfl | hl
    · exact h0
    · exact h.1 more rfl l hl

/-- the loop over the lines of one file, given the claim for the files it includes (`ihF`) -/
theorem go_numbered (fs : FS) (dirs : List String) (fuel : Nat) (path : String) (cd : List String)
    (src : List Char)
    (ihF : ∀ p b s, ReadOK (readLinesAux fs dirs fuel p b s) (fun l => LineOfFile fs p s l ∨ FromFS fs l)
      (fun l => RawLineOfFile p s l ∨ RawFromFS fs l)) :
    ∀ (raws pre : List (List Char)) (n : Nat), splitLines src = pre ++ raws → n = pre.length + 1 →
      ReadOK (readLinesAux.go fs dirs fuel path cd n raws) (fun l => LineOfFile fs path src l ∨ FromFS fs l)
        (fun l => RawLineOfFile path src l ∨ RawFromFS fs l) := by
  intro raws
  induction raws with
  | nil =>
    intro pre n _ _
    rw [readLinesAux.go.eq_1]
    exact ⟨fun ls h l hl => (by cases h; simp at hl), fun ln h => (by cases h)⟩
  | cons raw rest ih =>
    intro pre n hsplit hn
    have hrest := ih (pre ++ [raw]) (n + 1) (by rw [hsplit]; simp) (by simp [hn])
    have hidx : (splitLines src)[n - 1]? = some raw := by
      rw [hsplit, hn]; simp
    have hraw : RawLineOfFile path src { file := path, number := n, contents := String.ofList raw } :=
      ⟨rfl, by show 1 ≤ n; omega, by show (splitLines src)[n - 1]? = _; rw [hidx]; simp⟩
    have hline : ∀ c, ContentsOf fs raw c → LineOfFile fs path src { file := path, number := n, contents := c } :=
      fun c hc => ⟨rfl, raw, by show 1 ≤ n; omega, hidx, hc⟩
    rw [readLinesAux.go.eq_2]
    split
    · exact hrest
    · dsimp only
      split
      · -- include
        split
        · split
          · exact ReadOK.unsupported
          · split
            · exact ReadOK.asm (Or.inl hraw)
            · split
              · exact ReadOK.internal
              · split
                · exact ReadOK.internal
                · split
                  · exact ReadOK.unsupported
                  · refine ReadOK.append ?_ hrest
                    refine (ihF _ _ _).mono ?_ ?_
                    · intro l hl
                      rcases hl with hl | hl
                      · exact Or.inr ⟨_, _, _, by assumption, by assumption, hl⟩
                      · exact Or.inr hl
                    · intro l hl
                      rcases hl with hl | hl
                      · exact Or.inr ⟨_, _, _, by assumption, by assumption, hl⟩
                      · exact Or.inr hl
        · exact ReadOK.asm (Or.inl hraw)
      · split
        · -- include_bytes
          rename_i hib
          split
          · rename_i kw rel hsw
            split
            · exact ReadOK.unsupported
            · split
              · exact ReadOK.asm (Or.inl hraw)
              · split
                · exact ReadOK.unsupported
                · exact ReadOK.cons (Or.inl (hline _ (Or.inr ⟨kw, rel, _, _, hib, hsw, by assumption, rfl⟩))) hrest
          · exact ReadOK.asm (Or.inl hraw)
        · exact ReadOK.cons (Or.inl (hline _ (Or.inl rfl))) hrest

/-- **Lines are numbered per file, 1-based, and carry their own text, at every include depth.** -/
theorem readLinesAux_numbered (fs : FS) (dirs : List String) :
    ∀ (fuel : Nat) (path base : String) (src : List Char),
      ReadOK (readLinesAux fs dirs fuel path base src) (fun l => LineOfFile fs path src l ∨ FromFS fs l)
        (fun l => RawLineOfFile path src l ∨ RawFromFS fs l) := by
  intro fuel
  induction fuel with
  | zero =>
    intro path base src
    rw [readLinesAux.eq_1]
    exact ReadOK.unsupported
  | succ f ih =>
    intro path base src
    rw [readLinesAux.eq_2]
    exact go_numbered fs dirs f path _ src ih (splitLines src) [] 1 rfl rfl

end BB.Lemmas
