/-
  BB.Lemmas.ErrFront — the text front end keeps the line: `parse_immediate` and `parse_item` raise
  AssemblerError only with the line they were handed and build items carrying that line;
  `lex_tokens` raises no AssemblerError at all.
-/
import BB.Lemmas.ErrPasses
import BB.Read
namespace BB.Lemmas
open BB

theorem AsmAt.cast {α β : Type} {line : Line} {e : Err} (h : AsmAt line (Except.error e : Except Err α)) :
    AsmAt line (Except.error e : Except Err β) := by
  intro ln h'
  simp only [Except.error.injEq] at h'
  subst h'
  exact h ln rfl

theorem parseImmAux_asmAt (line : Line) : ∀ (fuel : Nat) (imm : List String),
    AsmAt line (parseImmAux line fuel imm) := by
  intro fuel
  induction fuel with
  | zero => intro imm; simp only [parseImmAux]; exact AsmAt.unsupported
  | succ f ih =>
    intro imm
    cases imm with
    | nil => simp only [parseImmAux]; exact AsmAt.asm
    | cons h t =>
      simp only [parseImmAux]
      split
      · exact AsmAt.unsupported
      · split
        · -- %position
          repeat' split
          all_goals first | exact AsmAt.ok | exact AsmAt.internal
        · split
          · -- %offset
            repeat' split
            all_goals first | exact AsmAt.ok | exact AsmAt.internal
          · split
            · -- %hi
              repeat' split
              all_goals first | exact AsmAt.internal | exact AsmAt.map (ih _)
            · split
              · -- %lo
                repeat' split
                all_goals first | exact AsmAt.internal | exact AsmAt.map (ih _)
              · exact AsmAt.ok

/-- the real `parse_immediate` satisfies the hypothesis of the pipeline theorems -/
theorem parseImmediate_asmAt (imm : List String) (line : Line) : AsmAt line (parseImmediate imm line) :=
  parseImmAux_asmAt line _ imm

theorem textHooks_lineOK (fs : FS) : HooksLineOK (textHooks fs) := fun toks line =>
  parseImmediate_asmAt toks line

/-- a front-end result: AssemblerError only with `line`, and an item carrying `line` -/
def ItemAt (line : Line) (r : Except Err Item) : Prop :=
  AsmAt line r ∧ ∀ it, r = .ok it → it.line = line

theorem ItemAt.ok {line : Line} {it : Item} (h : it.line = line) : ItemAt line (.ok it) :=
  ⟨AsmAt.ok, fun it' h' => by cases h'; exact h⟩

theorem ItemAt.err {line : Line} {e : Err} (h : AsmAt line (Except.error e : Except Err Item)) :
    ItemAt line (.error e) := ⟨h, fun it' h' => by cases h'⟩

theorem withImm_itemAt (line : Line) (imm : List String) (k : Imm → Instr) :
    ItemAt line (withImm line imm k) := by
  unfold withImm
  have hA := parseImmediate_asmAt imm line
  cases hp : parseImmediate imm line with
  | ok i => exact ItemAt.ok rfl
  | error e => exact ItemAt.err (by rw [hp] at hA; exact hA.cast)

theorem errValue_asmAt {α : Type} (line : Line) : AsmAt line (Except.error errValue : Except Err α) :=
  AsmAt.internal

theorem errIndex_asmAt {α : Type} (line : Line) : AsmAt line (Except.error errIndex : Except Err α) :=
  AsmAt.internal

theorem baseOffset_err_asmAt {α : Type} {line : Line} {tokens : List String} {e : Err}
    (h : baseOffset tokens = .error e) : AsmAt line (Except.error e : Except Err α) := by
  unfold baseOffset at h
  repeat' split at h
  all_goals first
    | (cases h; done)
    | (simp only [Except.error.injEq] at h; subst h; exact AsmAt.internal)

theorem ordering_err_asmAt {α : Type} {line : Line} {ord : List String} {e : Err}
    (h : ordering line ord = .error e) : AsmAt line (Except.error e : Except Err α) := by
  unfold ordering at h
  split at h
  · cases h
  · cases h
  · simp only [Except.error.injEq] at h; subst h; exact AsmAt.asm

theorem parseImmediate_err_asmAt {α : Type} {line : Line} {imm : List String} {e : Err}
    (h : parseImmediate imm line = .error e) : AsmAt line (Except.error e : Except Err α) := by
  have hA := parseImmediate_asmAt imm line
  rw [h] at hA
  exact hA.cast

theorem ItemAt.ite {line : Line} {c : Prop} [Decidable c] {a b : Except Err Item}
    (ha : ItemAt line a) (hb : ItemAt line b) : ItemAt line (if c then a else b) := by
  split <;> assumption

set_option maxRecDepth 4000 in
theorem parseItemHead_itemAt (line : Line) (head : String) (tokens : List String) :
    ItemAt line (parseItemHead line head tokens) := by
  unfold parseItemHead
  -- the `if head = … then … else if …` chain first (too long for `split`), then the small matches
  repeat' (refine ItemAt.ite ?_ ?_)
  all_goals (repeat' split)
  all_goals first
    | exact ItemAt.ok rfl
    | exact ItemAt.err AsmAt.asm
    | exact ItemAt.err AsmAt.internal
    | exact ItemAt.err AsmAt.unsupported
    | exact withImm_itemAt _ _ _
    | exact ItemAt.err (baseOffset_err_asmAt (by assumption))
    | exact ItemAt.err (ordering_err_asmAt (by assumption))
    | exact ItemAt.err (parseImmediate_err_asmAt (by assumption))

theorem parseItem_itemAt (line : Line) (tokens : List String) : ItemAt line (parseItem line tokens) := by
  unfold parseItem
  repeat' split
  all_goals first
    | exact ItemAt.ok rfl
    | exact ItemAt.err AsmAt.internal
    | exact ItemAt.err AsmAt.unsupported
    | exact parseItemHead_itemAt _ _ _
    | exact ItemAt.err (parseImmediate_err_asmAt (by assumption))

/-- `lex_tokens` raises no AssemblerError -/
theorem lexTokens_no_asm (l : List Char) (ln : Line) : lexTokens l ≠ .error (.asm ln) := by
  unfold lexTokens
  repeat' split
  all_goals first
    | (intro h; cases h; done)
    | (rename_i e heq
       intro h
       simp only [Except.error.injEq] at h
       cases e <;> simp [ofExprErr] at h)

/-! ### frontEnd: read, lex, parse -/

/-- `lexLine` raises an AssemblerError only with its own line (an undecodable escape, fix b49f1cd) -/
theorem lexLine_asm (l ln : Line) (h : lexLine l = .error (.asm ln)) : ln = l := by
  unfold lexLine at h
  cases hl : lexTokens l.contents.toList with
  | ok t => simp [hl] at h
  | error e =>
    simp only [hl] at h
    by_cases he : e = Err.internal "UnicodeDecodeError"
    · simp only [he, if_true, Except.error.injEq, Err.asm.injEq] at h; exact h.symm
    · simp only [he, if_false, Except.error.injEq] at h
      subst h
      exact absurd hl (lexTokens_no_asm _ ln)

theorem lexAll_lines : ∀ (ls : List Line),
    (∀ toks, frontEnd.lexAll ls = .ok toks → ∀ x ∈ toks, x.1 ∈ ls) ∧
    (∀ ln, frontEnd.lexAll ls = .error (.asm ln) → ln ∈ ls) := by
  intro ls
  induction ls with
  | nil =>
    refine ⟨?_, fun ln h => by simp [frontEnd.lexAll] at h⟩
    intro toks h
    simp only [frontEnd.lexAll, Except.ok.injEq] at h
    subst h
    intro x hx; simp at hx
  | cons l rest ih =>
    obtain ⟨ih1, ih2⟩ := ih
    simp only [frontEnd.lexAll, bind, Except.bind]
    cases hl : lexLine l with
    | error e =>
      refine ⟨fun toks h => by simp at h, ?_⟩
      intro ln h
      simp only [Except.error.injEq] at h
      subst h
      rw [lexLine_asm l ln hl]; exact List.mem_cons_self
    | ok ts =>
      simp only
      cases hr : frontEnd.lexAll rest with
      | error e =>
        refine ⟨fun toks h => by simp at h, ?_⟩
        intro ln h
        simp only [Except.error.injEq] at h
        subst h
        exact List.mem_cons_of_mem _ (ih2 ln hr)
      | ok more =>
        refine ⟨?_, fun ln h => by simp [pure, Except.pure] at h⟩
        intro toks h x hx
        simp only [pure, Except.pure, Except.ok.injEq] at h
        subst h
        split at hx
        · exact List.mem_cons_of_mem _ (ih1 more hr x hx)
        · simp only [List.mem_cons] at hx
          rcases hx with rfl | hx
          · exact List.mem_cons_self
          · exact List.mem_cons_of_mem _ (ih1 more hr x hx)

theorem parseAll_lines : ∀ (toks : List (Line × List String)),
    (∀ items, frontEnd.parseAll toks = .ok items → ∀ it ∈ items, it.line ∈ toks.map Prod.fst) ∧
    (∀ ln, frontEnd.parseAll toks = .error (.asm ln) → ln ∈ toks.map Prod.fst) := by
  intro toks
  induction toks with
  | nil =>
    refine ⟨?_, fun ln h => by simp [frontEnd.parseAll] at h⟩
    intro items h
    simp only [frontEnd.parseAll, Except.ok.injEq] at h
    subst h
    intro x hx; simp at hx
  | cons lt rest ih =>
    obtain ⟨l, ts⟩ := lt
    obtain ⟨ih1, ih2⟩ := ih
    obtain ⟨hA, hI⟩ := parseItem_itemAt l ts
    simp only [frontEnd.parseAll, bind, Except.bind]
    cases hp : parseItem l ts with
    | error e =>
      refine ⟨fun items h => by simp at h, ?_⟩
      intro ln h
      simp only [Except.error.injEq] at h
      subst h
      rw [hA ln hp]; simp
    | ok it =>
      simp only
      cases hr : frontEnd.parseAll rest with
      | error e =>
        refine ⟨fun items h => by simp at h, ?_⟩
        intro ln h
        simp only [Except.error.injEq] at h
        subst h
        simp only [List.map_cons, List.mem_cons]
        exact Or.inr (ih2 ln hr)
      | ok more =>
        refine ⟨?_, fun ln h => by simp [pure, Except.pure] at h⟩
        intro items h x hx
        simp only [pure, Except.pure, Except.ok.injEq] at h
        subst h
        simp only [List.map_cons, List.mem_cons] at hx ⊢
        rcases hx with rfl | hx
        · exact Or.inl (hI x hp)
        · exact Or.inr (ih1 more hr x hx)

/-- the lines `assemble()` reads: `read_lines(path_or_source, include_dirs=…)` as `frontEnd` calls it -/
def readInput (fs : FS) (cwd : String) (includeDirs : List String) (input : Input) : Except Err (List Line) :=
  if !normAbs cwd then .error (.unsupported "cwd form")
  else if !includeDirs.all absOk then .error (.unsupported "include dir form")
  else
    let fuel := fs.files.length + 2
    match input with
    | .source text =>
      if !sourceOk text.toList then .error (.unsupported "non-ASCII source")
      else readLinesAux fs includeDirs fuel "<string>" cwd text.toList
    | .path p =>
      if !absOk p then .error (.unsupported "path form")
      else
        match fs.readAt p with
        | none => .error (.unsupported "main file missing")
        | some bs =>
          match bytesToText bs with
          | none => .error (.unsupported "non-ASCII source")
          | some src => readLinesAux fs includeDirs fuel p (baseOf p) src

/-- lex + parse of the lines read -/
def lexParse (lines : List Line) : Except Err (List Item) := do
  let toks ← frontEnd.lexAll (lines.filter (fun l => l.contents.length > 0))
  frontEnd.parseAll toks

set_option linter.unusedSimpArgs false in
theorem frontEnd_eq (fs : FS) (cwd : String) (includeDirs : List String) (input : Input) :
    frontEnd fs cwd includeDirs input = (readInput fs cwd includeDirs input >>= lexParse) := by
  unfold frontEnd readInput lexParse
  by_cases h1 : normAbs cwd = true
  · by_cases h2 : includeDirs.all absOk = true
    · simp only [h1, h2, Bool.not_true, Bool.false_eq_true, ↓reduceIte, pure, Except.pure, bind, Except.bind]
      cases input with
      | source text =>
        simp only
        by_cases h3 : sourceOk text.toList = true
        · simp only [h3, Bool.not_true, Bool.false_eq_true, ↓reduceIte, pure, Except.pure, bind, Except.bind]
        · simp only [h3, Bool.not_false, ↓reduceIte, throw, throwThe, MonadExceptOf.throw, bind, Except.bind]
      | path p =>
        simp only
        by_cases h3 : absOk p = true
        · simp only [h3, Bool.not_true, Bool.false_eq_true, ↓reduceIte, pure, Except.pure, bind, Except.bind]
          cases fs.readAt p with
          | none => simp only [throw, throwThe, MonadExceptOf.throw, bind, Except.bind]
          | some bs =>
            simp only
            cases bytesToText bs with
            | none => simp only [throw, throwThe, MonadExceptOf.throw, bind, Except.bind]
            | some src =>
              simp only
        · simp only [h3, Bool.not_false, ↓reduceIte, throw, throwThe, MonadExceptOf.throw, bind, Except.bind]
    · simp only [h1, h2, Bool.not_true, Bool.false_eq_true, Bool.not_false, ↓reduceIte, pure, Except.pure,
        throw, throwThe, MonadExceptOf.throw, bind, Except.bind]
  · simp only [h1, Bool.not_false, ↓reduceIte, throw, throwThe, MonadExceptOf.throw, bind, Except.bind]

/-- items come from lines that were read; so does the line of an AssemblerError of lexing/parsing -/
theorem lexParse_lines (lines : List Line) :
    (∀ items, lexParse lines = .ok items → ∀ it ∈ items, it.line ∈ lines) ∧
    (∀ ln, lexParse lines = .error (.asm ln) → ln ∈ lines) := by
  unfold lexParse
  obtain ⟨l1, l2⟩ := lexAll_lines (lines.filter (fun l => l.contents.length > 0))
  cases hl : frontEnd.lexAll (lines.filter (fun l => l.contents.length > 0)) with
  | error e =>
    refine ⟨fun items h => by simp [bind, Except.bind] at h, ?_⟩
    intro ln h
    simp only [bind, Except.bind, Except.error.injEq] at h
    subst h
    exact (List.mem_filter.mp (l2 ln hl)).1
  | ok toks =>
    obtain ⟨p1, p2⟩ := parseAll_lines toks
    have hsub : ∀ l ∈ toks.map Prod.fst, l ∈ lines := by
      intro l hl'
      simp only [List.mem_map] at hl'
      obtain ⟨x, hx, rfl⟩ := hl'
      exact (List.mem_filter.mp (l1 toks hl x hx)).1
    simp only [bind, Except.bind]
    exact ⟨fun items h it hit => hsub _ (p1 items h it hit), fun ln h => hsub _ (p2 ln h)⟩

end BB.Lemmas
