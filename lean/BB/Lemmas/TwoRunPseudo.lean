/-
  BB.Lemmas.TwoRunPseudo — the pseudo-instruction pass on the two runs in lockstep.

  Inputs: the ghost lists of run 0 (no -c) and run 1 (-c), item-wise related (`IW`: run 1 has some
  instructions compressed), each with its own label table = its own layout.  If
    * every `li` operand is label-free (so both runs take the same width), and
    * every `call` / `tail` target is a label that no constant shadows, and `%offset ref` parses to
      `.offset ref` (so the near/far decision looks at a distance, and distances in run 1 are never
      farther than in run 0 — near without -c ⇒ near with -c), and
    * the program is smaller than 2 GiB (so `c_int32` does not wrap a distance),
  then the outputs are stretch-wise related (`Dom`): same markers and aligns, every stretch between
  them not longer with -c.
-/
import BB.Lemmas.TwoRunRel
set_option linter.unusedSimpArgs false
set_option linter.unusedVariables false
set_option linter.unusedTactic false
set_option linter.unreachableTactic false
namespace BB.Lemmas
open BB BB.Spec

/-- `%offset <name>` parses to the offset expression of that name (true of `parse_immediate`) -/
def OffsetHook (H : Hooks) : Prop :=
  ∀ (ref : String) (line : Line) (imm : Imm), H.parseImm ["%offset", ref] line = .ok imm → imm = .offset ref

theorem cI32_id {v : Int} (h1 : -2147483648 ≤ v) (h2 : v < 2147483648) : cI32 v = v := by
  unfold cI32
  simp only
  split <;> omega

/-! ### what the expansion of one pseudo-instruction depends on -/

theorem expandKind_small_indep (H : Hooks) (env0 env1 : String → Option Int) (line : Line) (k : PKind)
    (args : List String) (p0 p1 : Int) (hk : k.isBig = false) :
    expandKind H env0 line k args p0 = expandKind H env1 line k args p1 := by
  cases k <;> first | rfl | (simp [PKind.isBig] at hk)

theorem li_short {H : Hooks} {env : String → Option Int} {line : Line} {args : List String} {p : Int}
    {instrs : List Instr} {short : Bool} (h : expandKind H env line .li args p = .ok (instrs, short)) :
    ∃ rd toks imm v, args = rd :: toks ∧ H.parseImm toks line = .ok imm ∧ imm.eval H env line p = .ok v ∧
      (short = true ↔ (-2048 ≤ cI32 v ∧ cI32 v ≤ 2047)) := by
  unfold expandKind at h
  cases args with
  | nil => simp at h
  | cons rd toks =>
    simp only [bind, Except.bind] at h
    cases hp : H.parseImm toks line with
    | error e => simp [hp] at h
    | ok imm =>
      simp only [hp] at h
      cases hv : imm.eval H env line p with
      | error e => simp [hv] at h
      | ok v =>
        simp only [hv, ge_iff_le] at h
        refine ⟨rd, toks, imm, v, rfl, hp, hv, ?_⟩
        split at h
        · rename_i hc
          simp only [pure, Except.pure, Except.ok.injEq, Prod.mk.injEq] at h
          rw [← h.2]; simp [hc]
        · rename_i hc
          simp only [pure, Except.pure, Except.ok.injEq, Prod.mk.injEq] at h
          rw [← h.2]; simp [hc]

theorem call_short {H : Hooks} {env : String → Option Int} {line : Line} {k : PKind} {args : List String} {p : Int}
    {instrs : List Instr} {short : Bool} (hk : k = .call ∨ k = .tail)
    (h : expandKind H env line k args p = .ok (instrs, short)) :
    ∃ ref imm v, args = [ref] ∧ H.parseImm ["%offset", ref] line = .ok imm ∧ imm.eval H env line p = .ok v ∧
      (short = true ↔ (-1048576 ≤ cI32 v ∧ cI32 v ≤ 1048575)) := by
  rcases hk with rfl | rfl
  all_goals (
    unfold expandKind at h
    match args, h with
    | [ref], h =>
      simp only [bind, Except.bind] at h
      cases hp : H.parseImm ["%offset", ref] line with
      | error e => simp [hp] at h
      | ok imm =>
        simp only [hp] at h
        cases hv : imm.eval H env line p with
        | error e => simp [hv] at h
        | ok v =>
          simp only [hv, ge_iff_le] at h
          refine ⟨ref, imm, v, rfl, hp, hv, ?_⟩
          split at h
          · rename_i hc
            simp only [pure, Except.pure, Except.ok.injEq, Prod.mk.injEq] at h
            rw [← h.2]; simp [hc]
          · rename_i hc
            simp only [pure, Except.pure, Except.ok.injEq, Prod.mk.injEq] at h
            rw [← h.2]; simp [hc]
    | [], h => simp at h
    | _ :: _ :: _, h => simp at h)

theorem sizeSum_instrs (line : Line) : ∀ (l : List Instr), (∀ i ∈ l, i.isCompressed = false) →
    sizeSum (l.map (Item.instr line)) = 4 * (l.length : Int)
  | [], _ => by simp [sizeSum]
  | i :: t, hl => by
    have hi := hl i List.mem_cons_self
    have ht := sizeSum_instrs line t (fun x hx => hl x (List.mem_cons_of_mem _ hx))
    simp only [List.map_cons, sizeSum_cons, ht, List.length_cons, instr_sizeD, hi, Bool.false_eq_true, if_false]
    push_cast
    omega

theorem plain_instrs (line : Line) (l : List Instr) : Plain (l.map (Item.instr line)) := by
  intro x hx
  obtain ⟨i, _, rfl⟩ := List.mem_map.mp hx
  refine ⟨(fun l n e => by cases e), (fun l a e => by cases e), ?_⟩
  rw [instr_sizeD]; split <;> simp

/-- near/far and li width of the two runs, compared: the hypotheses `hli` / `hct` say what the two
    evaluations have to do with each other; the conclusion: run 1's expansion is plain and not longer -/
theorem pseudo_pair {H : Hooks} {constants : Dict} {line : Line} {name : String} {args : List String}
    {p0 p1 : Int} {L0 L1 : Dict} {repl0 repl1 : List Item} {n0 n1 : Int}
    (h0 : pseudoBody H constants (.pseudo line name args) p0 L0 = .ok (repl0, n0))
    (h1 : pseudoBody H constants (.pseudo line name args) p1 L1 = .ok (repl1, n1))
    (hli : pseudoKind name = some .li → ∀ imm, H.parseImm args.tail line = .ok imm →
      imm.eval H (chainGet constants L0) line p0 = imm.eval H (chainGet constants L1) line p1)
    (hct : (pseudoKind name = some .call ∨ pseudoKind name = some .tail) → ∀ ref imm v0 v1, args = [ref] →
      H.parseImm ["%offset", ref] line = .ok imm →
      imm.eval H (chainGet constants L0) line p0 = .ok v0 → imm.eval H (chainGet constants L1) line p1 = .ok v1 →
      (-1048576 ≤ cI32 v0 ∧ cI32 v0 ≤ 1048575) → (-1048576 ≤ cI32 v1 ∧ cI32 v1 ≤ 1048575)) :
    Plain repl0 ∧ Plain repl1 ∧ sizeSum repl1 ≤ sizeSum repl0 := by
  simp only [pseudoBody, bind, Except.bind] at h0 h1
  cases e0 : expandPseudo H (chainGet constants L0) line name args p0 with
  | error e => simp [e0] at h0
  | ok r0 =>
  cases e1 : expandPseudo H (chainGet constants L1) line name args p1 with
  | error e => simp [e1] at h1
  | ok r1 =>
  obtain ⟨i0, s0⟩ := r0
  obtain ⟨i1, s1⟩ := r1
  simp only [e0, pure, Except.pure, Except.ok.injEq, Prod.mk.injEq] at h0
  simp only [e1, pure, Except.pure, Except.ok.injEq, Prod.mk.injEq] at h1
  obtain ⟨rfl, _⟩ := h0
  obtain ⟨rfl, _⟩ := h1
  refine ⟨plain_instrs line i0, plain_instrs line i1, ?_⟩
  unfold expandPseudo at e0 e1
  cases hk : pseudoKind name with
  | none => simp [hk] at e0
  | some k =>
    simp only [hk] at e0 e1
    obtain ⟨hu0, hs0⟩ := expandKind_shape e0
    obtain ⟨hu1, hs1⟩ := expandKind_shape e1
    rw [sizeSum_instrs line i0 hu0, sizeSum_instrs line i1 hu1]
    by_cases hbig : k.isBig = true
    · -- li / call / tail: short without -c ⇒ short with -c
      have hshort : s0 = true → s1 = true := by
        intro hs
        cases k <;> simp only [PKind.isBig, Bool.false_eq_true] at hbig
        · -- li
          obtain ⟨rd, toks, imm, v0, ha, hp, hv0, hiff0⟩ := li_short e0
          obtain ⟨rd', toks', imm', v1, ha', hp', hv1, hiff1⟩ := li_short e1
          rw [ha] at ha'
          simp only [List.cons.injEq] at ha'
          obtain ⟨rfl, rfl⟩ := ha'
          rw [hp] at hp'
          cases hp'
          have heq := hli hk imm (by rw [ha]; exact hp)
          rw [hv0, hv1] at heq
          cases heq
          exact hiff1.mpr (hiff0.mp hs)
        · -- call
          obtain ⟨ref, imm, v0, ha, hp, hv0, hiff0⟩ := call_short (Or.inl rfl) e0
          obtain ⟨ref', imm', v1, ha', hp', hv1, hiff1⟩ := call_short (Or.inl rfl) e1
          rw [ha] at ha'
          simp only [List.cons.injEq, and_true] at ha'
          subst ha'
          rw [hp] at hp'
          cases hp'
          exact hiff1.mpr (hct (Or.inl hk) ref imm v0 v1 ha hp hv0 hv1 (hiff0.mp hs))
        · -- tail
          obtain ⟨ref, imm, v0, ha, hp, hv0, hiff0⟩ := call_short (Or.inr rfl) e0
          obtain ⟨ref', imm', v1, ha', hp', hv1, hiff1⟩ := call_short (Or.inr rfl) e1
          rw [ha] at ha'
          simp only [List.cons.injEq, and_true] at ha'
          subst ha'
          rw [hp] at hp'
          cases hp'
          exact hiff1.mpr (hct (Or.inr hk) ref imm v0 v1 ha hp hv0 hv1 (hiff0.mp hs))
      rcases hs0 with ⟨_, hs, hl0⟩ | ⟨_, hs, hl0⟩ | ⟨hb, _, _⟩
      · have := hshort hs
        rcases hs1 with ⟨_, _, hl1⟩ | ⟨_, hs1', _⟩ | ⟨hb, _, _⟩
        · rw [hl0, hl1]; omega
        · rw [this] at hs1'; cases hs1'
        · rw [hbig] at hb; cases hb
      · rcases hs1 with ⟨_, _, hl1⟩ | ⟨_, _, hl1⟩ | ⟨hb, _, _⟩
        · rw [hl0, hl1]; omega
        · rw [hl0, hl1]; omega
        · rw [hbig] at hb; cases hb
      · rw [hbig] at hb; cases hb
    · have hsmall : k.isBig = false := by cases hb : k.isBig <;> simp_all
      rw [expandKind_small_indep H _ (chainGet constants L1) line k args p0 p1 hsmall, e1] at e0
      simp only [Except.ok.injEq, Prod.mk.injEq] at e0
      rw [e0.1]; omega

/-! ### the two walks in lockstep -/

/-- the label table is the layout of the rest of the list from the current position, every other key
    lies at or below it (the invariant of `walk_layout`) -/
structure Inv (G : List Item) (p : Int) (L : Dict) : Prop where
  agree : ∀ ℓ v, labelPos G p ℓ = some v → L.get ℓ = some v
  low : ∀ ℓ v, ℓ ∉ labelNames G → L.get ℓ = some v → v ≤ p

/-- every label already passed is, in run 1, not farther behind the current position than in run 0 -/
def Past (rest : List Item) (p0 p1 : Int) (L0 L1 : Dict) : Prop :=
  ∀ ℓ, ℓ ∉ labelNames rest → ∀ u0, L0.get ℓ = some u0 →
    0 ≤ u0 ∧ ∃ u1, L1.get ℓ = some u1 ∧ 0 ≤ p1 - u1 ∧ p1 - u1 ≤ p0 - u0

theorem labelPos_le {G : List Item} (hnn : NonNeg G) : ∀ {p : Int} {ℓ : String} {u : Int},
    labelPos G p ℓ = some u → u ≤ p + sizeSum G := by
  induction G with
  | nil => intro p ℓ u h; simp [labelPos] at h
  | cons it rest ih =>
    intro p ℓ u h
    have hrest : NonNeg rest := fun y hy => hnn y (List.mem_cons_of_mem _ hy)
    have hit := hnn it List.mem_cons_self
    by_cases hl : ∃ l n, it = .label l n
    · obtain ⟨l, n, rfl⟩ := hl
      simp only [labelPos] at h
      split at h
      · simp only [Option.some.injEq] at h
        have := sizeSum_nonneg hrest
        simp only [sizeSum_cons, sizeD_label]; omega
      · have := ih hrest h
        simp only [sizeSum_cons, sizeD_label]; omega
    · have hnl : ∀ l n, it ≠ .label l n := fun l n e => hl ⟨l, n, e⟩
      rw [labelPos_cons_of_not_label hnl] at h
      have := ih hrest h
      rw [sizeSum_cons]; omega

theorem inv_label {line : Line} {nm : String} {rest : List Item} {p : Int} {L : Dict}
    (hnot : nm ∉ labelNames rest) (inv : Inv (.label line nm :: rest) p L) :
    Inv rest p L ∧ L.get nm = some p := by
  have hnm : L.get nm = some p := inv.agree nm p (by simp [labelPos])
  refine ⟨⟨?_, ?_⟩, hnm⟩
  · intro ℓ v hv
    apply inv.agree
    simp only [labelPos]
    have hne : nm ≠ ℓ := by
      intro heq; subst heq
      exact hnot ((labelPos_isSome_iff rest p nm).mp (by simp [hv]))
    simp [hne, hv]
  · intro ℓ v hℓ hv
    by_cases he : ℓ = nm
    · subst he; rw [hnm] at hv; simp only [Option.some.injEq] at hv; omega
    · exact inv.low ℓ v (by simp [labelNames, he, hℓ]) hv

/-- one non-marker step of both walks: the invariants of both runs and `Past` move on -/
theorem lock_nonlabel {f : Item → Int → Dict → Except Err (List Item × Int)} (hf : BodyOK f) {T : Int}
    {it0 it1 : Item} {rest0 rest1 : List Item} {p0 p1 : Int} {L0 L1 : Dict} {repl0 repl1 : List Item} {n0 n1 : Int}
    (hnl0 : ∀ l n, it0 ≠ .label l n) (hnl1 : ∀ l n, it1 ≠ .label l n)
    (hnn0 : NonNeg (it0 :: rest0)) (hnn1 : NonNeg (it1 :: rest1))
    (inv0 : Inv (it0 :: rest0) p0 L0) (inv1 : Inv (it1 :: rest1) p1 L1)
    (hnames : labelNames rest1 = labelNames rest0)
    (past : Past (it0 :: rest0) p0 p1 L0 L1)
    (hf0 : f it0 p0 L0 = .ok (repl0, n0)) (hf1 : f it1 p1 L1 = .ok (repl1, n1))
    (hle : sizeSum repl1 ≤ sizeSum repl0) (hp0 : 0 ≤ p0) (hT : p0 + sizeSum (it0 :: rest0) ≤ T) :
    Inv rest0 (p0 + sizeSum repl0) (L0.shiftAbove p0 n0) ∧ Inv rest1 (p1 + sizeSum repl1) (L1.shiftAbove p1 n1) ∧
    Past rest0 (p0 + sizeSum repl0) (p1 + sizeSum repl1) (L0.shiftAbove p0 n0) (L1.shiftAbove p1 n1) ∧
    0 ≤ p0 + sizeSum repl0 ∧ p0 + sizeSum repl0 + sizeSum rest0 ≤ T := by
  obtain ⟨a1, a2, a3⟩ := step_inv hf hnl0 hnn0 inv0.agree inv0.low hf0
  obtain ⟨b1, b2, b3⟩ := step_inv hf hnl1 hnn1 inv1.agree inv1.low hf1
  obtain ⟨_, c2, c3, c4, _⟩ := hf.ok it0 p0 L0 repl0 n0 hnl0 (hnn0 it0 List.mem_cons_self) hf0
  obtain ⟨_, d2, _, _, _⟩ := hf.ok it1 p1 L1 repl1 n1 hnl1 (hnn1 it1 List.mem_cons_self) hf1
  have hs0 := sizeSum_nonneg c2
  have hs1 := sizeSum_nonneg d2
  refine ⟨⟨a1, a2⟩, ⟨b1, b2⟩, ?_, by omega, by rw [sizeSum_cons] at hT; omega⟩
  intro ℓ hℓ u0 hu0
  rw [a3 ℓ hℓ] at hu0
  obtain ⟨g1, u1, g2, g3, g4⟩ := past ℓ (by rw [labelNames_cons_of_not_label hnl0]; exact hℓ) u0 hu0
  refine ⟨g1, u1, ?_, by omega, by omega⟩
  rw [b3 ℓ (by rw [hnames]; exact hℓ)]; exact g2

theorem offset_eval_ok {H : Hooks} {constants L : Dict} {line : Line} {ref : String} {p v : Int}
    (hc : constants.get ref = none)
    (h : Imm.eval H (chainGet constants L) line (.offset ref) p = .ok v) : ∃ u, L.get ref = some u ∧ v = u - p := by
  simp only [Imm.eval, chainGet, hc] at h
  cases hu : L.get ref with
  | none => simp [hu] at h
  | some u =>
    simp only [hu, Except.ok.injEq] at h
    exact ⟨u, rfl, h.symm⟩

theorem keep_pseudoBody {H : Hooks} {constants : Dict} {it : Item} {p : Int} {L : Dict} {repl : List Item} {n : Int}
    (hnp : ∀ l nm a, it ≠ .pseudo l nm a) (h : pseudoBody H constants it p L = .ok (repl, n)) :
    repl = [it] ∧ n = 0 := by
  cases it with
  | pseudo l nm a => exact absurd rfl (hnp l nm a)
  | _ => exact keepItem_ok (by simpa [pseudoBody] using h)

theorem plain_single {it : Item} (h1 : ∀ l n, it ≠ .label l n) (h2 : ∀ l a, it ≠ .align l a) (h3 : 0 ≤ it.sizeD) :
    Plain [it] := by
  intro x hx
  simp only [List.mem_singleton] at hx
  subst hx
  exact ⟨h1, h2, h3⟩

/-- **the pseudo-instruction pass in lockstep** -/
theorem pseudo_lockstep (H : Hooks) (constants : Dict) (hoff : OffsetHook H) (T : Int) (hT : T < 2147483648) :
    ∀ {G0 G1 : List Item}, IW G0 G1 → ∀ (p0 p1 : Int) (L0 L1 : Dict) (G0' G1' : List Item) (L0' L1' : Dict),
    NonNeg G0 → (labelNames G0).Nodup → Inv G0 p0 L0 → Inv G1 p1 L1 → Past G0 p0 p1 L0 L1 →
    0 ≤ p0 → p0 + sizeSum G0 ≤ T →
    (∀ line name args, Item.pseudo line name args ∈ G0 → pseudoKind name = some .li →
      ∀ imm, H.parseImm args.tail line = .ok imm → ImmLabelFree H constants imm) →
    (∀ line name args ref, Item.pseudo line name args ∈ G0 →
      (pseudoKind name = some .call ∨ pseudoKind name = some .tail) → args = [ref] → constants.get ref = none) →
    walk (pseudoBody H constants) G0 p0 L0 = .ok (G0', L0') →
    walk (pseudoBody H constants) G1 p1 L1 = .ok (G1', L1') → Dom G0' G1' := by
  intro G0 G1 hiw
  induction hiw with
  | nil =>
    intro p0 p1 L0 L1 G0' G1' L0' L1' _ _ _ _ _ _ _ _ _ h0 h1
    simp only [walk, Except.ok.injEq, Prod.mk.injEq] at h0 h1
    rw [← h0.1, ← h1.1]; exact .nil
  | @same it R0 R1 hr ih =>
    intro p0 p1 L0 L1 G0' G1' L0' L1' hnn hnd inv0 inv1 past hp0 hTb hli hct h0 h1
    have hnnR : NonNeg R0 := fun y hy => hnn y (List.mem_cons_of_mem _ hy)
    have hnames := hr.labelNames_eq
    by_cases hl : ∃ l n, it = .label l n
    · -- a marker
      obtain ⟨line, nm, rfl⟩ := hl
      simp only [labelNames, List.nodup_cons] at hnd
      obtain ⟨hnotin, hndR⟩ := hnd
      simp only [walk, bind, Except.bind] at h0 h1
      cases hr0 : walk (pseudoBody H constants) R0 p0 L0 with
      | error e => simp [hr0] at h0
      | ok r0 =>
      cases hr1 : walk (pseudoBody H constants) R1 p1 L1 with
      | error e => simp [hr1] at h1
      | ok r1 =>
      obtain ⟨o0, l0⟩ := r0
      obtain ⟨o1, l1⟩ := r1
      simp only [hr0, pure, Except.pure, Except.ok.injEq, Prod.mk.injEq] at h0
      simp only [hr1, pure, Except.pure, Except.ok.injEq, Prod.mk.injEq] at h1
      rw [← h0.1, ← h1.1]
      obtain ⟨i0, g0⟩ := inv_label hnotin inv0
      obtain ⟨i1, g1⟩ := inv_label (by rw [hnames]; exact hnotin) inv1
      have past' : Past R0 p0 p1 L0 L1 := by
        intro ℓ hℓ u0 hu0
        by_cases he : ℓ = nm
        · subst he
          rw [g0] at hu0
          simp only [Option.some.injEq] at hu0
          subst hu0
          exact ⟨hp0, p1, g1, by omega, by omega⟩
        · exact past ℓ (by simp [labelNames, he, hℓ]) u0 hu0
      refine .label line nm (ih p0 p1 L0 L1 o0 o1 l0 l1 hnnR hndR i0 i1 past' hp0 ?_ ?_ ?_ hr0 hr1)
      · simpa [sizeSum_cons, sizeD_label] using hTb
      · intro l n a hm; exact hli l n a (List.mem_cons_of_mem _ hm)
      · intro l n a r hm; exact hct l n a r (List.mem_cons_of_mem _ hm)
    · -- an ordinary item, the same in both runs
      have hnl : ∀ l n, it ≠ .label l n := fun l n e => hl ⟨l, n, e⟩
      have hnd' : (labelNames R0).Nodup := by rw [labelNames_cons_of_not_label hnl] at hnd; exact hnd
      have hnn1 : NonNeg (it :: R1) := (IW.same it hr).nonneg hnn
      rw [walk_cons_of_not_label hnl] at h0 h1
      simp only [bind, Except.bind] at h0 h1
      cases hf0 : pseudoBody H constants it p0 L0 with
      | error e => simp [hf0] at h0
      | ok fb0 =>
      cases hf1 : pseudoBody H constants it p1 L1 with
      | error e => simp [hf1] at h1
      | ok fb1 =>
      obtain ⟨repl0, n0⟩ := fb0
      obtain ⟨repl1, n1⟩ := fb1
      simp only [hf0] at h0
      simp only [hf1] at h1
      cases hr0 : walk (pseudoBody H constants) R0 (p0 + sizeSum repl0) (L0.shiftAbove p0 n0) with
      | error e => simp [hr0] at h0
      | ok r0 =>
      cases hr1 : walk (pseudoBody H constants) R1 (p1 + sizeSum repl1) (L1.shiftAbove p1 n1) with
      | error e => simp [hr1] at h1
      | ok r1 =>
      obtain ⟨o0, l0⟩ := r0
      obtain ⟨o1, l1⟩ := r1
      simp only [hr0, pure, Except.pure, Except.ok.injEq, Prod.mk.injEq] at h0
      simp only [hr1, pure, Except.pure, Except.ok.injEq, Prod.mk.injEq] at h1
      rw [← h0.1, ← h1.1]
      -- what the two bodies returned
      have hpair : (∃ l a, it = .align l a ∧ repl0 = [it] ∧ repl1 = [it]) ∨
          (Plain repl0 ∧ Plain repl1 ∧ sizeSum repl1 ≤ sizeSum repl0) := by
        cases it with
        | pseudo line name args =>
          right
          refine pseudo_pair hf0 hf1 ?_ ?_
          · intro hk imm hpi
            exact hli line name args List.mem_cons_self hk imm hpi L0 L1 line p0 p1
          · intro hk ref imm v0 v1 ha hpi hv0 hv1 hnear
            have himm := hoff ref line imm hpi
            subst himm
            have hcn := hct line name args ref List.mem_cons_self hk ha
            obtain ⟨u0, hu0, rfl⟩ := offset_eval_ok hcn hv0
            obtain ⟨u1, hu1, rfl⟩ := offset_eval_ok hcn hv1
            have hpn : ∀ l n, Item.pseudo line name args ≠ .label l n := by intro l n e; cases e
            -- the two distances
            have hrel : (0 ≤ u0 - p0 ∧ 0 ≤ u1 - p1 ∧ u1 - p1 ≤ u0 - p0 ∧ u0 - p0 ≤ T) ∨
                (0 ≤ p0 - u0 ∧ 0 ≤ p1 - u1 ∧ p1 - u1 ≤ p0 - u0 ∧ p0 - u0 ≤ T) := by
              by_cases hm : ref ∈ labelNames (Item.pseudo line name args :: R0)
              · left
                have hsome := (labelPos_isSome_iff _ p0 ref).mpr hm
                cases hq : labelPos (Item.pseudo line name args :: R0) p0 ref with
                | none => simp [hq] at hsome
                | some w0 =>
                  have e0 := inv0.agree ref w0 hq
                  rw [hu0] at e0
                  simp only [Option.some.injEq] at e0
                  subst e0
                  obtain ⟨w1, q1, q2, q3⟩ := (IW.same _ hr).head_off hnn p0 p1 ref _ hq
                  have e1 := inv1.agree ref w1 q1
                  rw [hu1] at e1
                  simp only [Option.some.injEq] at e1
                  subst e1
                  have hge := labelPos_ge hnn hq
                  have hle := labelPos_le hnn hq
                  exact ⟨by omega, q2, q3, by omega⟩
              · right
                obtain ⟨g1, w1, g2, g3, g4⟩ := past ref hm u0 hu0
                rw [hu1] at g2
                simp only [Option.some.injEq] at g2
                subst g2
                have := inv0.low ref u0 hm hu0
                have hss := sizeSum_nonneg hnn
                exact ⟨by omega, g3, g4, by omega⟩
            rcases hrel with ⟨r1, r2, r3, r4⟩ | ⟨r1, r2, r3, r4⟩
            · rw [cI32_id (by omega) (by omega)] at hnear
              rw [cI32_id (by omega) (by omega)]
              omega
            · rw [cI32_id (by omega) (by omega)] at hnear
              rw [cI32_id (by omega) (by omega)]
              omega
        | align l a =>
          left
          obtain ⟨e0, _⟩ := keep_pseudoBody (by intro l n a e; cases e) hf0
          obtain ⟨e1, _⟩ := keep_pseudoBody (by intro l n a e; cases e) hf1
          exact ⟨l, a, rfl, e0, e1⟩
        | label l n => exact absurd rfl (hnl l n)
        | _ =>
          right
          obtain ⟨e0, _⟩ := keep_pseudoBody (by intro l n a e; cases e) hf0
          obtain ⟨e1, _⟩ := keep_pseudoBody (by intro l n a e; cases e) hf1
          rw [e0, e1]
          have hps := plain_single (by intro l n e; cases e) (by intro l a e; cases e) (hnn _ List.mem_cons_self)
          exact ⟨hps, hps, Int.le_refl _⟩
      have hle : sizeSum repl1 ≤ sizeSum repl0 := by
        rcases hpair with ⟨_, _, _, e0, e1⟩ | ⟨_, _, h⟩
        · rw [e0, e1]; exact Int.le_refl _
        · exact h
      obtain ⟨i0, i1, past', hp0', hT'⟩ := lock_nonlabel (pseudoBody_ok H constants) hnl hnl hnn hnn1 inv0 inv1 hnames
        past hf0 hf1 hle hp0 hTb
      have hdom := ih _ _ _ _ o0 o1 l0 l1 hnnR hnd' i0 i1 past' hp0' hT'
        (fun l n a hm => hli l n a (List.mem_cons_of_mem _ hm))
        (fun l n a r hm => hct l n a r (List.mem_cons_of_mem _ hm)) hr0 hr1
      rcases hpair with ⟨l, a, rfl, e0, e1⟩ | ⟨q0, q1, q2⟩
      · rw [e0, e1]; exact .align l a hdom
      · exact .group q0 q1 q2 hdom
  | @comp line ins cf R0 R1 hc0 hc1 hr ih =>
    intro p0 p1 L0 L1 G0' G1' L0' L1' hnn hnd inv0 inv1 past hp0 hTb hli hct h0 h1
    have hnnR : NonNeg R0 := fun y hy => hnn y (List.mem_cons_of_mem _ hy)
    have hnames := hr.labelNames_eq
    have hnl0 : ∀ l n, Item.instr line ins ≠ .label l n := by intro l n e; cases e
    have hnl1 : ∀ l n, Item.instr line cf ≠ .label l n := by intro l n e; cases e
    have hnd' : (labelNames R0).Nodup := by simpa [labelNames] using hnd
    have hnn1 : NonNeg (Item.instr line cf :: R1) := (IW.comp line ins cf hc0 hc1 hr).nonneg hnn
    rw [walk_cons_of_not_label hnl0] at h0
    rw [walk_cons_of_not_label hnl1] at h1
    simp only [bind, Except.bind] at h0 h1
    cases hf0 : pseudoBody H constants (.instr line ins) p0 L0 with
    | error e => simp [hf0] at h0
    | ok fb0 =>
    cases hf1 : pseudoBody H constants (.instr line cf) p1 L1 with
    | error e => simp [hf1] at h1
    | ok fb1 =>
    obtain ⟨repl0, n0⟩ := fb0
    obtain ⟨repl1, n1⟩ := fb1
    simp only [hf0] at h0
    simp only [hf1] at h1
    cases hr0 : walk (pseudoBody H constants) R0 (p0 + sizeSum repl0) (L0.shiftAbove p0 n0) with
    | error e => simp [hr0] at h0
    | ok r0 =>
    cases hr1 : walk (pseudoBody H constants) R1 (p1 + sizeSum repl1) (L1.shiftAbove p1 n1) with
    | error e => simp [hr1] at h1
    | ok r1 =>
    obtain ⟨o0, l0⟩ := r0
    obtain ⟨o1, l1⟩ := r1
    simp only [hr0, pure, Except.pure, Except.ok.injEq, Prod.mk.injEq] at h0
    simp only [hr1, pure, Except.pure, Except.ok.injEq, Prod.mk.injEq] at h1
    rw [← h0.1, ← h1.1]
    obtain ⟨e0, _⟩ := keep_pseudoBody (by intro l n a e; cases e) hf0
    obtain ⟨e1, _⟩ := keep_pseudoBody (by intro l n a e; cases e) hf1
    have hs0 : (Item.instr line ins).sizeD = 4 := by rw [instr_sizeD, hc0]; rfl
    have hs1 : (Item.instr line cf).sizeD = 2 := by rw [instr_sizeD, hc1]; rfl
    have hle : sizeSum repl1 ≤ sizeSum repl0 := by
      rw [e0, e1]; simp only [sizeSum, List.map_cons, List.map_nil, List.sum_cons, List.sum_nil, hs0, hs1]; omega
    obtain ⟨i0, i1, past', hp0', hT'⟩ := lock_nonlabel (pseudoBody_ok H constants) hnl0 hnl1 hnn hnn1 inv0 inv1 hnames
      past hf0 hf1 hle hp0 hTb
    have hdom := ih _ _ _ _ o0 o1 l0 l1 hnnR hnd' i0 i1 past' hp0' hT'
      (fun l n a hm => hli l n a (List.mem_cons_of_mem _ hm))
      (fun l n a r hm => hct l n a r (List.mem_cons_of_mem _ hm)) hr0 hr1
    rw [e0, e1]
    exact .group (plain_single hnl0 (by intro l a e; cases e) (by omega))
      (plain_single hnl1 (by intro l a e; cases e) (by omega)) (by rw [e0, e1] at hle; exact hle) hdom

end BB.Lemmas
