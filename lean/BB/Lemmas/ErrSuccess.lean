/-
  BB.Lemmas.ErrSuccess — the converse of `fault_lifts`: a program (without constants, labels pairwise
  different, every item with a size) ALL of whose items pass in any context assembles.

  `Passes` (ErrStages) says that an item goes through the eleven item-wise stages; what is left to show
  is that the list that reaches `resolve_blobs` consists of blobs.  That is a matter of item KINDS:
  no pass creates a label or a constant, resolve_aligns leaves no `align`, and each of the one-to-one
  passes removes one kind (instructions, strings, sequences, shorthand packs, packs, include_bytes) -
  so what passes all of them is a blob.
-/
import BB.Lemmas.ErrLocalPseudo
import BB.Lemmas.SuccWalk
namespace BB.Lemmas
open BB

/-- kinds of item -/
def Item.tag : Item → Nat
  | .label .. => 0 | .constant .. => 1 | .includeBytes .. => 2 | .string .. => 3 | .sequence .. => 4
  | .pack .. => 5 | .shorthandPack .. => 6 | .align .. => 7 | .blob .. => 8 | .pseudo .. => 9 | .instr .. => 10

/-- none of the kinds in `F` -/
def Avoids (F : List Nat) (y : Item) : Prop := Item.tag y ∉ F

theorem avoids_blob {y : Item} (h : Avoids [0, 1, 7, 9, 10, 3, 4, 6, 5, 2] y) : ∃ line d, y = .blob line d := by
  cases y <;> simp [Avoids, Item.tag] at h
  exact ⟨_, _, rfl⟩

/-! ### what each body / step does to the kinds -/

theorem compressBody_kinds {H : Hooks} {cs : Dict} {x : Item} {p : Int} {l : Dict} {r : List Item} {n : Int}
    (h : compressBody H cs x p l = .ok (r, n)) (hx : Avoids [0, 1] x) : ∀ y ∈ r, Avoids [0, 1] y := by
  intro y hy
  cases x with
  | instr line ins =>
    simp only [compressBody] at h
    have hyi : ∃ i, y = .instr line i := by
      split at h
      · rw [keepItem_repl h] at hy; simp only [List.mem_singleton] at hy; exact ⟨_, hy⟩
      · split at h
        · cases h
        · cases h
        · rw [keepItem_repl h] at hy; simp only [List.mem_singleton] at hy; exact ⟨_, hy⟩
        · split at h
          · cases h
          · simp only [pure, Except.pure, Except.ok.injEq, Prod.mk.injEq] at h
            obtain ⟨rfl, _⟩ := h
            simp only [List.mem_singleton] at hy; exact ⟨_, hy⟩
    obtain ⟨i, rfl⟩ := hyi
    simp [Avoids, Item.tag]
  | _ =>
    simp only [compressBody] at h
    rw [keepItem_repl h] at hy
    simp only [List.mem_singleton] at hy
    subst hy; exact hx

theorem pseudoBody_kinds {H : Hooks} {cs : Dict} {x : Item} {p : Int} {l : Dict} {r : List Item} {n : Int}
    (h : pseudoBody H cs x p l = .ok (r, n)) (hx : Avoids [0, 1] x) : ∀ y ∈ r, Avoids [0, 1] y := by
  intro y hy
  cases x with
  | pseudo line name args =>
    simp only [pseudoBody, bind, Except.bind] at h
    cases he : expandPseudo H (chainGet cs l) line name args p with
    | error e => simp [he] at h
    | ok res =>
      obtain ⟨instrs, short⟩ := res
      simp only [he, pure, Except.pure, Except.ok.injEq, Prod.mk.injEq] at h
      obtain ⟨rfl, _⟩ := h
      simp only [List.mem_map] at hy
      obtain ⟨i, _, rfl⟩ := hy
      simp [Avoids, Item.tag]
  | _ =>
    simp only [pseudoBody] at h
    rw [keepItem_repl h] at hy
    simp only [List.mem_singleton] at hy
    subst hy; exact hx

theorem alignBody_kinds {x : Item} {p : Int} {l : Dict} {r : List Item} {n : Int}
    (h : alignBody x p l = .ok (r, n)) (hx : Avoids [0, 1] x) : ∀ y ∈ r, Avoids [0, 1, 7] y := by
  intro y hy
  cases x with
  | align line a =>
    simp only [alignBody] at h
    split at h
    · cases h
    · split at h
      · simp only [pure, Except.pure, Except.ok.injEq, Prod.mk.injEq] at h
        obtain ⟨rfl, _⟩ := h
        simp at hy
      · split at h
        · cases h
        · simp only [pure, Except.pure, Except.ok.injEq, Prod.mk.injEq] at h
          obtain ⟨rfl, _⟩ := h
          simp only [List.mem_singleton] at hy
          subst hy
          simp [Avoids, Item.tag]
  | _ =>
    simp only [alignBody] at h
    rw [keepItem_repl h] at hy
    simp only [List.mem_singleton] at hy
    subst hy
    simp_all [Avoids, Item.tag]

theorem immBody_kinds {H : Hooks} {cs : Dict} {x : Item} {p : Int} {l : Dict} {r : List Item} {n : Int}
    (h : immBody H cs x p l = .ok (r, n)) (hx : Avoids [0, 1, 7] x) : ∀ y ∈ r, Avoids [0, 1, 7] y := by
  intro y hy
  have keep : ∀ {x' : Item}, keepItem x' = .ok (r, n) → Avoids [0, 1, 7] x' → Avoids [0, 1, 7] y := by
    intro x' hk hx'
    rw [keepItem_repl hk] at hy
    simp only [List.mem_singleton] at hy
    subst hy; exact hx'
  cases x with
  | instr line ins =>
    simp only [immBody] at h
    split at h
    · exact keep h hx
    · simp only [bind, Except.bind] at h
      split at h
      · cases h
      · simp only [pure, Except.pure, Except.ok.injEq, Prod.mk.injEq] at h
        obtain ⟨rfl, _⟩ := h
        simp only [List.mem_singleton] at hy
        subst hy
        simp [Avoids, Item.tag]
  | pack line fmt imm =>
    simp only [immBody, bind, Except.bind] at h
    split at h
    · cases h
    · split at h
      · cases h
      · simp only [pure, Except.pure, Except.ok.injEq, Prod.mk.injEq] at h
        obtain ⟨rfl, _⟩ := h
        simp only [List.mem_singleton] at hy
        subst hy
        simp [Avoids, Item.tag]
  | shorthandPack line name imm =>
    simp only [immBody, bind, Except.bind] at h
    split at h
    · cases h
    · split at h
      · cases h
      · simp only [pure, Except.pure, Except.ok.injEq, Prod.mk.injEq] at h
        obtain ⟨rfl, _⟩ := h
        simp only [List.mem_singleton] at hy
        subst hy
        simp [Avoids, Item.tag]
  | _ => exact keep (by simpa [immBody] using h) hx

theorem instrStep_kinds {x y : Item} (h : instrStep x = .ok y) (hx : Avoids [0, 1, 7] x) :
    Avoids [0, 1, 7, 9, 10] y := by
  cases x with
  | instr line ins =>
    simp only [instrStep, bind, Except.bind] at h
    split at h
    · cases h
    · simp only [pure, Except.pure, Except.ok.injEq] at h; subst h; simp [Avoids, Item.tag]
  | pseudo line name args => simp [instrStep] at h
  | _ =>
    simp only [instrStep, pure, Except.pure, Except.ok.injEq] at h
    subst h
    simp_all [Avoids, Item.tag]

theorem strStep_kinds {x : Item} (hx : Avoids [0, 1, 7, 9, 10] x) : Avoids [0, 1, 7, 9, 10, 3] (strStep x) := by
  cases x <;> simp_all [strStep, Avoids, Item.tag]

theorem seqStep_kinds {x y : Item} (h : seqStep x = .ok y) (hx : Avoids [0, 1, 7, 9, 10, 3] x) :
    Avoids [0, 1, 7, 9, 10, 3, 4] y := by
  cases x with
  | sequence line name vals =>
    simp only [seqStep] at h
    split at h
    · cases h
    · simp only [bind, Except.bind] at h
      split at h
      · cases h
      · split at h
        · cases h
        · simp only [pure, Except.pure, Except.ok.injEq] at h; subst h; simp [Avoids, Item.tag]
  | _ =>
    simp only [seqStep, pure, Except.pure, Except.ok.injEq] at h
    subst h
    simp_all [Avoids, Item.tag]

theorem shorthandStep_kinds {x y : Item} (h : shorthandStep x = .ok y) (hx : Avoids [0, 1, 7, 9, 10, 3, 4] x) :
    Avoids [0, 1, 7, 9, 10, 3, 4, 6] y := by
  cases x with
  | shorthandPack line name imm =>
    simp only [shorthandStep] at h
    split at h
    · split at h
      · cases h
      · simp only [pure, Except.pure, Except.ok.injEq] at h; subst h; simp [Avoids, Item.tag]
    · cases h
  | _ =>
    simp only [shorthandStep, pure, Except.pure, Except.ok.injEq] at h
    subst h
    simp_all [Avoids, Item.tag]

theorem packStep_kinds {x y : Item} (h : packStep x = .ok y) (hx : Avoids [0, 1, 7, 9, 10, 3, 4, 6] x) :
    Avoids [0, 1, 7, 9, 10, 3, 4, 6, 5] y := by
  cases x with
  | pack line fmt imm =>
    simp only [packStep] at h
    split at h
    · simp only [bind, Except.bind] at h
      split at h
      · cases h
      · split at h
        · cases h
        · simp only [pure, Except.pure, Except.ok.injEq] at h; subst h; simp [Avoids, Item.tag]
    · cases h
  | _ =>
    simp only [packStep, pure, Except.pure, Except.ok.injEq] at h
    subst h
    simp_all [Avoids, Item.tag]

theorem includeBytesStep_kinds {H : Hooks} {x y : Item} (h : includeBytesStep H x = .ok y)
    (hx : Avoids [0, 1, 7, 9, 10, 3, 4, 6, 5] x) : Avoids [0, 1, 7, 9, 10, 3, 4, 6, 5, 2] y := by
  cases x with
  | includeBytes line path fsize =>
    simp only [includeBytesStep] at h
    split at h
    · cases h
    · split at h
      · cases h
      · simp only [pure, Except.pure, Except.ok.injEq] at h; subst h; simp [Avoids, Item.tag]
  | _ =>
    simp only [includeBytesStep, pure, Except.pure, Except.ok.injEq] at h
    subst h
    simp_all [Avoids, Item.tag]

/-! ### one pass over a list all of whose items pass -/

theorem walk_all_pass {f : Item → Int → Dict → Except Err (List Item × Int)} {Q : Dict → Prop}
    (hQ : ∀ l p n, Q l → Q (l.shiftAbove p n)) {ss : List Stage} {K K' : Item → Prop}
    (hK : ∀ x p l r n, f x p l = .ok (r, n) → K x → ∀ y ∈ r, K' y)
    (L : List Item) (p : Int) (l : Dict) (hl : Q l)
    (h : ∀ y ∈ L, Passes Q (bodyStage f :: ss) y ∧ K y) :
    ∃ L' l', walk f L p l = .ok (L', l') ∧ Q l' ∧ ∀ y ∈ L', Passes Q ss y ∧ K' y := by
  refine walk_ok_stage (P := Q) (Q := fun y => Passes Q ss y ∧ K' y) (fun L p n h => hQ L p n h) L ?_ p l hl
  intro x hx
  obtain ⟨hp, hk⟩ := h x hx
  refine ⟨hp.1, fun p L hL => ?_⟩
  obtain ⟨repl, hr, ht⟩ := hp.2 p L hL
  obtain ⟨n, hn⟩ := bodyStage_ok hr
  exact ⟨(repl, n), hn, fun y hy => ⟨ht y hy, hK x p L repl n hn hk y hy⟩⟩

theorem mapM_all_pass {g : Item → Except Err Item} {Q : Dict → Prop} {ss : List Stage} {K K' : Item → Prop}
    (hK : ∀ x y, g x = .ok y → K x → K' y) (l : Dict) (hl : Q l) :
    ∀ (L : List Item), (∀ y ∈ L, Passes Q (stepStage g :: ss) y ∧ K y) →
      ∃ L', L.mapM g = .ok L' ∧ ∀ y ∈ L', Passes Q ss y ∧ K' y := by
  intro L
  induction L with
  | nil => intro _; exact ⟨[], rfl, fun y hy => by simp at hy⟩
  | cons x rest ih =>
    intro h
    obtain ⟨hp, hk⟩ := h x List.mem_cons_self
    obtain ⟨repl, hr, ht⟩ := hp.2 0 l hl
    have : ∃ y, g x = .ok y ∧ repl = [y] := by
      unfold stepStage at hr
      cases hg : g x with
      | error e => simp [hg] at hr
      | ok y => simp only [hg, Except.ok.injEq] at hr; exact ⟨y, rfl, hr.symm⟩
    obtain ⟨y, hy, rfl⟩ := this
    obtain ⟨L', hm, hL'⟩ := ih (fun z hz => h z (List.mem_cons_of_mem _ hz))
    refine ⟨y :: L', by rw [mapM_cons_eq, hy, hm], ?_⟩
    intro z hz
    simp only [List.mem_cons] at hz
    rcases hz with rfl | hz
    · exact ⟨ht z (by simp), hK x z hy hk⟩
    · exact hL' z hz

theorem resolveBlobs_ok_of_blobs : ∀ (L : List Item), (∀ y ∈ L, ∃ line d, y = .blob line d) →
    ∃ bs, resolveBlobs L = .ok bs := by
  intro L
  induction L with
  | nil => intro _; exact ⟨[], rfl⟩
  | cons x rest ih =>
    intro h
    obtain ⟨line, d, rfl⟩ := h _ List.mem_cons_self
    obtain ⟨bs, hb⟩ := ih (fun y hy => h y (List.mem_cons_of_mem _ hy))
    exact ⟨d ++ bs, by simp [resolveBlobs, hb, bind, Except.bind, pure, Except.pure]⟩

/-- **Success lifting.**  A program without constants, with pairwise different labels, every item with a
    size, all of whose (non-label) items pass in any context, assembles - with and without compression. -/
theorem all_pass_assembles {H : Hooks} {c : Bool} {Q : Dict → Prop}
    (hQ : ∀ l p n, Q l → Q (l.shiftAbove p n)) (items : List Item)
    (hnc : ∀ it ∈ items, ∀ l n x, it ≠ .constant l n x)
    (hnd : (labelNames items).Nodup) (hsz : ∀ it ∈ items, ∃ v, it.sizeE = .ok v)
    (hQ0 : ∀ l : Dict, (∀ k, k ∉ labelNames items → l.get k = none) → Q l)
    (hall : ∀ y ∈ strip items, Passes Q (stages H c) y) :
    ∃ r, assembleItems H c items [] [] = .ok r := by
  unfold assembleItems
  rw [resolveConstants_noconst H items [] hnc]
  obtain ⟨l0, hl0, hk0⟩ := resolveLabelsAux_ok items 0 [] [] hnd (fun _ _ h => by cases h) hsz
  have hres : resolveLabels items [] = .ok (strip items, l0) := hl0
  have hq0 : Q l0 := hQ0 l0 (fun k hk => by rw [hk0 k hk]; rfl)
  simp only [bind, Except.bind, hres, resolveRegisterAliases_nil]
  have h0 : ∀ y ∈ strip items, Passes Q (stages H c) y ∧ Avoids [0, 1] y := by
    intro y hy
    refine ⟨hall y hy, ?_⟩
    obtain ⟨hy1, hy2⟩ := List.mem_filter.mp hy
    have hc := hnc y hy1
    cases y <;> simp [Avoids, Item.tag, Item.isLabel] at hy2 ⊢
    exact absurd rfl (hc _ _ _)
  unfold stages at h0
  have stageC : ∀ (ss : List Stage) (L : List Item) (l : Dict), Q l →
      (∀ y ∈ L, Passes Q (compressStage H c :: ss) y ∧ Avoids [0, 1] y) →
      ∃ L' l', maybeCompress H c L [] l = .ok (L', l') ∧ Q l' ∧ ∀ y ∈ L', Passes Q ss y ∧ Avoids [0, 1] y := by
    intro ss L l hl h
    cases c with
    | true =>
      simp only [maybeCompress, ↓reduceIte, transformCompressible]
      exact walk_all_pass (f := compressBody H []) hQ (fun x p l r n hf hx => compressBody_kinds hf hx) L 0 l hl
        (by simpa [compressStage] using h)
    | false =>
      refine ⟨L, l, by simp [maybeCompress, pure, Except.pure], hl, ?_⟩
      intro y hy
      obtain ⟨hp, hk⟩ := h y hy
      have hp' : Passes Q (idStage :: ss) y := by simpa [compressStage] using hp
      obtain ⟨repl, hr, ht⟩ := hp'.2 0 l hl
      simp only [idStage, Except.ok.injEq] at hr
      subst hr
      exact ⟨ht y (by simp), hk⟩
  obtain ⟨L1, l1, e1, q1, t1⟩ := stageC _ _ l0 hq0 h0
  rw [e1]; simp only
  obtain ⟨L2, l2, e2, q2, t2⟩ := walk_all_pass (f := pseudoBody H []) hQ (fun x p l r n hf hx => pseudoBody_kinds hf hx) L1 0 l1 q1 t1
  simp only [transformPseudo, e2]
  obtain ⟨L3, l3, e3, q3, t3⟩ := stageC _ _ l2 q2 t2
  rw [e3]; simp only
  obtain ⟨L4, l4, e4, q4, t4⟩ := walk_all_pass (f := alignBody) hQ (fun x p l r n hf hx => alignBody_kinds hf hx) L3 0 l3 q3 t3
  simp only [resolveAligns, e4]
  obtain ⟨L5, l5, e5, q5, t5⟩ := walk_all_pass (f := immBody H []) hQ (fun x p l r n hf hx => immBody_kinds hf hx) L4 0 l4 q4 t4
  simp only [resolveImmediates, bind, Except.bind, e5, pure, Except.pure]
  obtain ⟨L6, e6, t6⟩ := mapM_all_pass (g := instrStep) (fun x y h hx => instrStep_kinds h hx) l5 q5 L5 t5
  simp only [resolveInstructions, e6]
  rw [resolveStrings_eq]
  have t7 : ∀ y ∈ L6.map strStep, Passes Q [stepStage seqStep, stepStage shorthandStep, stepStage packStep,
      stepStage (includeBytesStep H)] y ∧ Avoids [0, 1, 7, 9, 10, 3] y := by
    intro y hy
    simp only [List.mem_map] at hy
    obtain ⟨x, hx, rfl⟩ := hy
    obtain ⟨hp, hk⟩ := t6 x hx
    obtain ⟨repl, hr, ht⟩ := hp.2 0 l5 q5
    simp only [mapStage, Except.ok.injEq] at hr
    subst hr
    exact ⟨ht _ (by simp), strStep_kinds hk⟩
  obtain ⟨L8, e8, t8⟩ := mapM_all_pass (g := seqStep) (fun x y h hx => seqStep_kinds h hx) l5 q5 _ t7
  simp only [resolveSequences, e8]
  obtain ⟨L9, e9, t9⟩ := mapM_all_pass (g := shorthandStep) (fun x y h hx => shorthandStep_kinds h hx) l5 q5 _ t8
  simp only [transformShorthandPacks, e9]
  obtain ⟨L10, e10, t10⟩ := mapM_all_pass (g := packStep) (fun x y h hx => packStep_kinds h hx) l5 q5 _ t9
  simp only [resolvePacks, e10]
  obtain ⟨L11, e11, t11⟩ := mapM_all_pass (g := includeBytesStep H) (K' := Avoids [0, 1, 7, 9, 10, 3, 4, 6, 5, 2])
    (fun x y h hx => includeBytesStep_kinds h hx) l5 q5 _ t10
  simp only [resolveIncludeBytes, e11]
  obtain ⟨bs, hb⟩ := resolveBlobs_ok_of_blobs L11 (fun y hy => avoids_blob (t11 y hy).2)
  rw [hb]
  exact ⟨_, rfl⟩

end BB.Lemmas
