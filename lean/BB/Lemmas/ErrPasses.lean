/-
  BB.Lemmas.ErrPasses — each pass of `assembleItems` keeps `Item.line` (see ErrLines.lean), hence an
  `Err.asm ln` coming out of `assembleItems` names the line of one of the items it was given.

  The only outside ingredient is the hook `H.parseImm` (used by the pseudo-instruction expansion):
  `HooksLineOK H` says it only ever raises `.asm` with the line it was handed.
-/
import BB.Lemmas.ErrLines
namespace BB.Lemmas
open BB

/-- `r` raises no AssemblerError except one carrying `line` -/
def AsmAt {α : Type} (line : Line) (r : Except Err α) : Prop := ∀ ln, r = .error (.asm ln) → ln = line

theorem AsmAt.ok {α : Type} {line : Line} {a : α} : AsmAt line (Except.ok a) := by
  intro ln h; cases h

theorem AsmAt.pure {α : Type} {line : Line} {a : α} : AsmAt line (pure a : Except Err α) := by
  intro ln h; cases h

theorem AsmAt.asm {α : Type} {line : Line} : AsmAt line (Except.error (.asm line) : Except Err α) := by
  intro ln h; simp only [Except.error.injEq, Err.asm.injEq] at h; exact h.symm

theorem AsmAt.internal {α : Type} {line : Line} {s : String} :
    AsmAt line (Except.error (.internal s) : Except Err α) := by
  intro ln h; injection h with h; cases h

theorem AsmAt.unsupported {α : Type} {line : Line} {s : String} :
    AsmAt line (Except.error (.unsupported s) : Except Err α) := by
  intro ln h; injection h with h; cases h

theorem AsmAt.bind {α β : Type} {line : Line} {r : Except Err α} {k : α → Except Err β}
    (h1 : AsmAt line r) (h2 : ∀ a, AsmAt line (k a)) : AsmAt line (r >>= k) := by
  intro ln h
  cases r with
  | error e =>
    simp only [Bind.bind, Except.bind, Except.error.injEq] at h
    subst h
    exact h1 ln rfl
  | ok a =>
    simp only [Bind.bind, Except.bind] at h
    exact h2 a ln h

theorem AsmAt.map {α β : Type} {line : Line} {r : Except Err α} {f : α → β}
    (h1 : AsmAt line r) : AsmAt line (f <$> r) := by
  intro ln h
  cases r with
  | error e =>
    simp only [Functor.map, Except.map, Except.error.injEq] at h
    subst h
    exact h1 ln rfl
  | ok a => simp [Functor.map, Except.map] at h

/-- the hook `parse_immediate` only raises AssemblerError with the line it was handed -/
def HooksLineOK (H : Hooks) : Prop := ∀ toks line, AsmAt line (H.parseImm toks line)

theorem liftExpr_asmAt (line : Line) (r : Except ExprErr Int) : AsmAt line (liftExpr line r) := by
  intro ln h
  cases r with
  | ok v => simp [liftExpr] at h
  | error e =>
    cases e with
    | error => simp only [liftExpr, Except.error.injEq, Err.asm.injEq] at h; exact h.symm
    | internal py => simp [liftExpr] at h
    | unsupported w => simp [liftExpr] at h

/-- `imm.eval(position, env, line)` raises AssemblerError only with `line` -/
theorem Imm.eval_asmAt (H : Hooks) (env : String → Option Int) (line : Line) (imm : Imm) (p : Int) :
    AsmAt line (imm.eval H env line p) := by
  induction imm generalizing p with
  | arith e => simp only [Imm.eval]; exact liftExpr_asmAt _ _
  | position ref e =>
    simp only [Imm.eval]
    cases env ref with
    | none => exact AsmAt.asm
    | some dest => exact AsmAt.bind (liftExpr_asmAt _ _) (fun _ => AsmAt.pure)
  | offset ref =>
    simp only [Imm.eval]
    cases env ref with
    | none => exact AsmAt.asm
    | some dest => exact AsmAt.ok
  | hi e ih => simp only [Imm.eval]; exact AsmAt.bind (ih p) (fun _ => AsmAt.pure)
  | lo e ih => simp only [Imm.eval]; exact AsmAt.bind (ih p) (fun _ => AsmAt.pure)
  | value v => simp only [Imm.eval]; exact AsmAt.internal

theorem sizeE_asmAt (line : Line) (it : Item) : AsmAt line it.sizeE := by
  unfold Item.sizeE
  cases it.size? with
  | some n => exact AsmAt.ok
  | none => cases it <;> first | exact AsmAt.unsupported | exact AsmAt.internal

theorem keepItem_asmAt (line : Line) (it : Item) : AsmAt line (keepItem it) := by
  unfold keepItem
  exact AsmAt.bind (sizeE_asmAt line it) (fun _ => AsmAt.pure)

theorem keepItem_repl {it : Item} {repl : List Item} {n : Int} (h : keepItem it = .ok (repl, n)) :
    repl = [it] := by
  unfold keepItem at h
  cases hs : it.sizeE with
  | error e => simp [hs, bind, Except.bind] at h
  | ok v =>
    simp only [hs, bind, Except.bind, pure, Except.pure, Except.ok.injEq, Prod.mk.injEq] at h
    exact h.1.symm

/-- a body that leaves the item alone keeps the line -/
theorem keepItem_bodyLine (it : Item) :
    (∀ repl n, keepItem it = .ok (repl, n) → ∀ x ∈ repl, x.line = it.line) ∧
    (∀ ln, keepItem it = .error (.asm ln) → ln = it.line) := by
  refine ⟨?_, keepItem_asmAt it.line it⟩
  intro repl n h x hx
  rw [keepItem_repl h] at hx
  simp only [List.mem_singleton] at hx
  rw [hx]

/-! ### transform_compressible -/

theorem regOf_asmAt (line : Line) (ins : Instr) (f : Fld) : AsmAt line (regOf line ins f) := by
  unfold regOf
  cases ins.fld f with
  | none => exact AsmAt.internal
  | some r =>
    simp only
    cases lookupRegister r with
    | none => exact AsmAt.asm
    | some n => exact AsmAt.ok

theorem immOf_asmAt (H : Hooks) (env : String → Option Int) (line : Line) (ins : Instr) (p : Int) :
    AsmAt line (immOf H env line ins p) := by
  unfold immOf
  cases ins.imm? with
  | none => exact AsmAt.internal
  | some imm => exact Imm.eval_asmAt H env line imm p

theorem Pred.eval_asmAt (H : Hooks) (env : String → Option Int) (line : Line) (ins : Instr) (p : Int)
    (pr : Pred) : AsmAt line (pr.eval H env line ins p) := by
  cases pr <;> simp only [Pred.eval] <;>
    first
    | exact AsmAt.ok
    | exact AsmAt.bind (regOf_asmAt _ _ _) (fun _ => AsmAt.bind (regOf_asmAt _ _ _) (fun _ => AsmAt.pure))
    | exact AsmAt.bind (regOf_asmAt _ _ _) (fun _ => AsmAt.pure)
    | exact AsmAt.bind (immOf_asmAt _ _ _ _ _) (fun _ => AsmAt.pure)

theorem allPreds_asmAt (H : Hooks) (env : String → Option Int) (line : Line) (ins : Instr) (p : Int)
    (preds : List Pred) : AsmAt line (allPreds H env line ins p preds) := by
  induction preds with
  | nil => exact AsmAt.ok
  | cons pr rest ih =>
    simp only [allPreds]
    refine AsmAt.bind (Pred.eval_asmAt H env line ins p pr) (fun b => ?_)
    cases b with
    | true => simpa using ih
    | false => simpa using AsmAt.pure

theorem firstMatch_asmAt (H : Hooks) (env : String → Option Int) (line : Line) (ins : Instr) (p : Int)
    (cs : List (String × List Pred)) : AsmAt line (firstMatch H env line ins p cs) := by
  induction cs with
  | nil => exact AsmAt.ok
  | cons c rest ih =>
    obtain ⟨name, preds⟩ := c
    simp only [firstMatch]
    refine AsmAt.bind (allPreds_asmAt H env line ins p preds) (fun b => ?_)
    cases b with
    | true => simpa using AsmAt.pure
    | false => simpa using ih

theorem compressBody_bodyLine (H : Hooks) (constants : Dict) : BodyLine (compressBody H constants) := by
  intro it p labels
  cases it with
  | instr line ins =>
    simp only [compressBody]
    by_cases haj : ins.isAuipcJump = true
    · rw [if_pos haj]; exact keepItem_bodyLine _
    · rw [if_neg haj]
      have hfm := firstMatch_asmAt H (chainGet constants labels) line ins p criteria
      cases hm : firstMatch H (chainGet constants labels) line ins p criteria with
      | error e =>
        refine ⟨?_, ?_⟩
        · intro repl n h; split at h <;> simp_all
        · intro ln h
          split at h
          · simp only [Except.error.injEq, Err.asm.injEq] at h; exact h.symm
          · rename_i e' heq
            simp only [Except.error.injEq] at heq h
            subst heq; subst h
            exact hfm ln hm
          · rename_i heq; cases heq
          · rename_i heq; cases heq
      | ok m =>
        cases m with
        | none => exact keepItem_bodyLine _
        | some c =>
          simp only
          cases hci : compressedForm c ins with
          | none => exact ⟨fun repl n h => by simp at h, fun ln h => by simp at h⟩
          | some ci =>
            refine ⟨?_, fun ln h => by simp [pure, Except.pure] at h⟩
            intro repl n h x hx
            simp only [pure, Except.pure, Except.ok.injEq, Prod.mk.injEq] at h
            obtain ⟨rfl, _⟩ := h
            simp only [List.mem_singleton] at hx
            rw [hx]; rfl
  | _ => exact keepItem_bodyLine _

/-! ### transform_pseudo_instructions -/

theorem expandKind_asmAt {H : Hooks} (hH : HooksLineOK H) (env : String → Option Int) (line : Line)
    (k : PKind) (args : List String) (p : Int) : AsmAt line (expandKind H env line k args p) := by
  unfold expandKind
  cases k <;> simp only
  all_goals (repeat' split)
  all_goals
    repeat (first
      | exact AsmAt.ok
      | exact AsmAt.pure
      | exact AsmAt.internal
      | exact hH _ _
      | exact Imm.eval_asmAt _ _ _ _ _
      | (refine AsmAt.bind ?_ (fun _ => ?_))
      | split)

theorem expandPseudo_asmAt {H : Hooks} (hH : HooksLineOK H) (env : String → Option Int) (line : Line)
    (name : String) (args : List String) (p : Int) : AsmAt line (expandPseudo H env line name args p) := by
  unfold expandPseudo
  cases pseudoKind name with
  | none => exact AsmAt.asm
  | some k => exact expandKind_asmAt hH env line k args p

theorem pseudoBody_bodyLine {H : Hooks} (hH : HooksLineOK H) (constants : Dict) :
    BodyLine (pseudoBody H constants) := by
  intro it p labels
  cases it with
  | pseudo line name args =>
    simp only [pseudoBody]
    have hx := expandPseudo_asmAt hH (chainGet constants labels) line name args p
    cases hres : expandPseudo H (chainGet constants labels) line name args p with
    | error e =>
      refine ⟨fun repl n h => by simp [bind, Except.bind] at h, ?_⟩
      intro ln h
      simp only [bind, Except.bind, Except.error.injEq] at h
      subst h
      exact hx ln hres
    | ok res =>
      obtain ⟨instrs, short⟩ := res
      refine ⟨?_, fun ln h => by simp [bind, Except.bind, pure, Except.pure] at h⟩
      intro repl n h x hx'
      simp only [bind, Except.bind, pure, Except.pure, Except.ok.injEq, Prod.mk.injEq] at h
      obtain ⟨rfl, _⟩ := h
      simp only [List.mem_map] at hx'
      obtain ⟨i, _, rfl⟩ := hx'
      rfl
  | _ => exact keepItem_bodyLine _

/-! ### resolve_aligns -/

theorem alignBody_bodyLine : BodyLine alignBody := by
  intro it p labels
  cases it with
  | align line alignment =>
    simp only [alignBody]
    cases alignPadding alignment p with
    | none => exact ⟨fun repl n h => by simp at h, fun ln h => by simp at h⟩
    | some padding =>
      simp only
      split
      · refine ⟨?_, fun ln h => by simp [pure, Except.pure] at h⟩
        intro repl n h x hx
        simp only [pure, Except.pure, Except.ok.injEq, Prod.mk.injEq] at h
        obtain ⟨rfl, _⟩ := h
        simp at hx
      · split
        · exact ⟨fun repl n h => by simp at h, fun ln h => by simp at h⟩
        · refine ⟨?_, fun ln h => by simp [pure, Except.pure] at h⟩
          intro repl n h x hx
          simp only [pure, Except.pure, Except.ok.injEq, Prod.mk.injEq] at h
          obtain ⟨rfl, _⟩ := h
          simp only [List.mem_singleton] at hx
          rw [hx]; rfl
  | _ => exact keepItem_bodyLine _

/-! ### resolve_immediates -/

/-- shape shared by the three immediate-carrying cases of `immBody` -/
theorem evalThen_bodyLine {line : Line} {r : Except Err Int} (hr : AsmAt line r)
    (mk : Int → Item) (hmk : ∀ v, (mk v).line = line)
    (body : Int → Except Err (List Item × Int))
    (hbody : ∀ v, (∀ repl n, body v = .ok (repl, n) → repl = [mk v]) ∧ AsmAt line (body v)) :
    (∀ repl n, (r >>= body) = .ok (repl, n) → ∀ x ∈ repl, x.line = line) ∧
    (∀ ln, (r >>= body) = .error (.asm ln) → ln = line) := by
  refine ⟨?_, AsmAt.bind hr (fun v => (hbody v).2)⟩
  intro repl n h x hx
  cases r with
  | error e => simp [bind, Except.bind] at h
  | ok v =>
    simp only [bind, Except.bind] at h
    rw [(hbody v).1 repl n h] at hx
    simp only [List.mem_singleton] at hx
    rw [hx]; exact hmk v

theorem immBody_bodyLine (H : Hooks) (constants : Dict) : BodyLine (immBody H constants) := by
  intro it p labels
  cases it with
  | instr line ins =>
    simp only [immBody]
    cases hi : ins.imm? with
    | none => exact keepItem_bodyLine _
    | some imm =>
      simp only
      refine evalThen_bodyLine (Imm.eval_asmAt _ _ _ _ _) (fun v => .instr line (ins.setImm (.value v)))
        (fun _ => rfl) _ (fun v => ⟨?_, AsmAt.pure⟩)
      intro repl n h
      simp only [pure, Except.pure, Except.ok.injEq, Prod.mk.injEq] at h
      exact h.1.symm
  | pack line fmt imm =>
    simp only [immBody]
    refine evalThen_bodyLine (Imm.eval_asmAt _ _ _ _ _) (fun v => .pack line fmt (.value v))
      (fun _ => rfl) _ (fun v => ⟨?_, AsmAt.bind (sizeE_asmAt _ _) (fun _ => AsmAt.pure)⟩)
    intro repl n h
    cases hs : (Item.pack line fmt (.value v)).sizeE with
    | error e => simp [hs, bind, Except.bind] at h
    | ok s =>
      simp only [hs, bind, Except.bind, pure, Except.pure, Except.ok.injEq, Prod.mk.injEq] at h
      exact h.1.symm
  | shorthandPack line name imm =>
    simp only [immBody]
    refine evalThen_bodyLine (Imm.eval_asmAt _ _ _ _ _) (fun v => .shorthandPack line name (.value v))
      (fun _ => rfl) _ (fun v => ⟨?_, AsmAt.bind (sizeE_asmAt _ _) (fun _ => AsmAt.pure)⟩)
    intro repl n h
    cases hs : (Item.shorthandPack line name (.value v)).sizeE with
    | error e => simp [hs, bind, Except.bind] at h
    | ok s =>
      simp only [hs, bind, Except.bind, pure, Except.pure, Except.ok.injEq, Prod.mk.injEq] at h
      exact h.1.symm
  | _ => exact keepItem_bodyLine _

end BB.Lemmas
