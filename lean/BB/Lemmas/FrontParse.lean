/-
  BB.Lemmas.FrontParse — routing lemmas for `BB.parseItem`: which branch of `parse_item` a token
  list with a given (lower-cased) head reaches, for the base+offset mnemonics.
-/
import BB.Parse
set_option linter.unusedSimpArgs false
namespace BB

/-- `head` is none of the directive names, so `parse_item` reaches its format-dictionary tests -/
def NotDirective (h : String) : Prop :=
  h ≠ "error" ∧ h ≠ "include_bytes" ∧ h ≠ "string" ∧ h ∉ numericSequenceNamesM ∧ h ≠ "pack" ∧
  h ∉ shorthandPackNamesM ∧ h ≠ "align"
instance (h : String) : Decidable (NotDirective h) := by unfold NotDirective; infer_instance

/-- the label and constant rules do not apply: the second token is not `=` and there are ≥ 3 tokens -/
theorem parseItem_head (line : Line) (m x y : String) (rest : List String)
    (ha : isAsciiS m = true) (hx : x ≠ "=") :
    parseItem line (m :: x :: y :: rest) = parseItemHead line (lowerS m) (m :: x :: y :: rest) := by
  simp [parseItem, ha, hx]

/-- `head` is routed to the I_TYPE_INSTRUCTIONS branch of `parse_item` -/
def RoutesI (h : String) : Prop :=
  NotDirective h ∧ inDict "R_TYPE_INSTRUCTIONS" h = false ∧ inDict "I_TYPE_INSTRUCTIONS" h = true ∧ h ∈ baseOffsetNames
instance (h : String) : Decidable (RoutesI h) := by unfold RoutesI; infer_instance

/-- `m a, off(c)` : tokens `[m, a, off, "(", c, ")"]` -/
theorem headI_paren (line : Line) (h t0 a off c cl : String) (hr : RoutesI h) :
    parseItemHead line h [t0, a, off, "(", c, cl] = withImm line [off] (fun i => .i h (.str a) (.str c) i false) := by
  obtain ⟨hd, b0, ht, hb⟩ := hr
  obtain ⟨d1, d2, d3, d4, d5, d6, d7⟩ := hd
  unfold parseItemHead
  simp only [d1, d2, d3, d4, d5, d6, d7, b0, ht, hb, if_false, if_true, List.contains_eq_mem, decide_false, decide_true,
    Bool.false_eq_true]
  simp [baseOffset]

/-- the same operands without parentheses: tokens `[t0, a, c, off]` -/
theorem headI_flat (line : Line) (h t0 a off c : String) (hr : RoutesI h) (ho : off ≠ "(") :
    parseItemHead line h [t0, a, c, off] = withImm line [off] (fun i => .i h (.str a) (.str c) i false) := by
  obtain ⟨hd, b0, ht, hb⟩ := hr
  obtain ⟨d1, d2, d3, d4, d5, d6, d7⟩ := hd
  unfold parseItemHead
  simp only [d1, d2, d3, d4, d5, d6, d7, b0, ht, hb, if_false, if_true, List.contains_eq_mem, decide_false, decide_true,
    Bool.false_eq_true]
  simp [baseOffset, ho]

/-- `head` is routed to the S_TYPE_INSTRUCTIONS branch of `parse_item` -/
def RoutesS (h : String) : Prop :=
  NotDirective h ∧ inDict "R_TYPE_INSTRUCTIONS" h = false ∧ inDict "I_TYPE_INSTRUCTIONS" h = false ∧ inDict "IE_TYPE_INSTRUCTIONS" h = false ∧ inDict "S_TYPE_INSTRUCTIONS" h = true
instance (h : String) : Decidable (RoutesS h) := by unfold RoutesS; infer_instance

/-- `m a, off(c)` : tokens `[m, a, off, "(", c, ")"]` -/
theorem headS_paren (line : Line) (h t0 a off c cl : String) (hr : RoutesS h) :
    parseItemHead line h [t0, a, off, "(", c, cl] = withImm line [off] (fun i => .s h (.str c) (.str a) i) := by
  obtain ⟨hd, b0, b1, b2, ht⟩ := hr
  obtain ⟨d1, d2, d3, d4, d5, d6, d7⟩ := hd
  unfold parseItemHead
  simp only [d1, d2, d3, d4, d5, d6, d7, b0, b1, b2, ht, if_false, if_true, List.contains_eq_mem, decide_false, decide_true,
    Bool.false_eq_true]
  simp [baseOffset]

/-- the same operands without parentheses: tokens `[t0, c, a, off]` -/
theorem headS_flat (line : Line) (h t0 a off c : String) (hr : RoutesS h) (ho : off ≠ "(") :
    parseItemHead line h [t0, c, a, off] = withImm line [off] (fun i => .s h (.str c) (.str a) i) := by
  obtain ⟨hd, b0, b1, b2, ht⟩ := hr
  obtain ⟨d1, d2, d3, d4, d5, d6, d7⟩ := hd
  unfold parseItemHead
  simp only [d1, d2, d3, d4, d5, d6, d7, b0, b1, b2, ht, if_false, if_true, List.contains_eq_mem, decide_false, decide_true,
    Bool.false_eq_true]
  simp [baseOffset, ho]

/-- `head` is routed to the CL_TYPE_INSTRUCTIONS branch of `parse_item` -/
def RoutesCL (h : String) : Prop :=
  NotDirective h ∧ inDict "R_TYPE_INSTRUCTIONS" h = false ∧ inDict "I_TYPE_INSTRUCTIONS" h = false ∧ inDict "IE_TYPE_INSTRUCTIONS" h = false ∧ inDict "S_TYPE_INSTRUCTIONS" h = false ∧ inDict "B_TYPE_INSTRUCTIONS" h = false ∧ inDict "U_TYPE_INSTRUCTIONS" h = false ∧ inDict "J_TYPE_INSTRUCTIONS" h = false ∧ inDict "FENCE_INSTRUCTIONS" h = false ∧ inDict "A_TYPE_INSTRUCTIONS" h = false ∧ inDict "AL_TYPE_INSTRUCTIONS" h = false ∧ inDict "CR_TYPE_INSTRUCTIONS" h = false ∧ inDict "CRJ_TYPE_INSTRUCTIONS" h = false ∧ inDict "CRE_TYPE_INSTRUCTIONS" h = false ∧ inDict "CI_TYPE_INSTRUCTIONS" h = false ∧ inDict "CIA_TYPE_INSTRUCTIONS" h = false ∧ inDict "CIN_TYPE_INSTRUCTIONS" h = false ∧ inDict "CSS_TYPE_INSTRUCTIONS" h = false ∧ inDict "CIW_TYPE_INSTRUCTIONS" h = false ∧ inDict "CL_TYPE_INSTRUCTIONS" h = true
instance (h : String) : Decidable (RoutesCL h) := by unfold RoutesCL; infer_instance

/-- `m a, off(c)` : tokens `[m, a, off, "(", c, ")"]` -/
theorem headCL_paren (line : Line) (h t0 a off c cl : String) (hr : RoutesCL h) :
    parseItemHead line h [t0, a, off, "(", c, cl] = withImm line [off] (fun i => .cl h (.str a) (.str c) i) := by
  obtain ⟨hd, b0, b1, b2, b3, b4, b5, b6, b7, b8, b9, b10, b11, b12, b13, b14, b15, b16, b17, ht⟩ := hr
  obtain ⟨d1, d2, d3, d4, d5, d6, d7⟩ := hd
  unfold parseItemHead
  simp only [d1, d2, d3, d4, d5, d6, d7, b0, b1, b2, b3, b4, b5, b6, b7, b8, b9, b10, b11, b12, b13, b14, b15, b16, b17, ht, if_false, if_true, List.contains_eq_mem, decide_false, decide_true,
    Bool.false_eq_true]
  simp [baseOffset]

/-- the same operands without parentheses: tokens `[t0, a, c, off]` -/
theorem headCL_flat (line : Line) (h t0 a off c : String) (hr : RoutesCL h) (ho : off ≠ "(") :
    parseItemHead line h [t0, a, c, off] = withImm line [off] (fun i => .cl h (.str a) (.str c) i) := by
  obtain ⟨hd, b0, b1, b2, b3, b4, b5, b6, b7, b8, b9, b10, b11, b12, b13, b14, b15, b16, b17, ht⟩ := hr
  obtain ⟨d1, d2, d3, d4, d5, d6, d7⟩ := hd
  unfold parseItemHead
  simp only [d1, d2, d3, d4, d5, d6, d7, b0, b1, b2, b3, b4, b5, b6, b7, b8, b9, b10, b11, b12, b13, b14, b15, b16, b17, ht, if_false, if_true, List.contains_eq_mem, decide_false, decide_true,
    Bool.false_eq_true]
  simp [baseOffset, ho]

/-- `head` is routed to the CS_TYPE_INSTRUCTIONS branch of `parse_item` -/
def RoutesCS (h : String) : Prop :=
  NotDirective h ∧ inDict "R_TYPE_INSTRUCTIONS" h = false ∧ inDict "I_TYPE_INSTRUCTIONS" h = false ∧ inDict "IE_TYPE_INSTRUCTIONS" h = false ∧ inDict "S_TYPE_INSTRUCTIONS" h = false ∧ inDict "B_TYPE_INSTRUCTIONS" h = false ∧ inDict "U_TYPE_INSTRUCTIONS" h = false ∧ inDict "J_TYPE_INSTRUCTIONS" h = false ∧ inDict "FENCE_INSTRUCTIONS" h = false ∧ inDict "A_TYPE_INSTRUCTIONS" h = false ∧ inDict "AL_TYPE_INSTRUCTIONS" h = false ∧ inDict "CR_TYPE_INSTRUCTIONS" h = false ∧ inDict "CRJ_TYPE_INSTRUCTIONS" h = false ∧ inDict "CRE_TYPE_INSTRUCTIONS" h = false ∧ inDict "CI_TYPE_INSTRUCTIONS" h = false ∧ inDict "CIA_TYPE_INSTRUCTIONS" h = false ∧ inDict "CIN_TYPE_INSTRUCTIONS" h = false ∧ inDict "CSS_TYPE_INSTRUCTIONS" h = false ∧ inDict "CIW_TYPE_INSTRUCTIONS" h = false ∧ inDict "CL_TYPE_INSTRUCTIONS" h = false ∧ inDict "CS_TYPE_INSTRUCTIONS" h = true
instance (h : String) : Decidable (RoutesCS h) := by unfold RoutesCS; infer_instance

/-- `m a, off(c)` : tokens `[m, a, off, "(", c, ")"]` -/
theorem headCS_paren (line : Line) (h t0 a off c cl : String) (hr : RoutesCS h) :
    parseItemHead line h [t0, a, off, "(", c, cl] = withImm line [off] (fun i => .cs h (.str c) (.str a) i) := by
  obtain ⟨hd, b0, b1, b2, b3, b4, b5, b6, b7, b8, b9, b10, b11, b12, b13, b14, b15, b16, b17, b18, ht⟩ := hr
  obtain ⟨d1, d2, d3, d4, d5, d6, d7⟩ := hd
  unfold parseItemHead
  simp only [d1, d2, d3, d4, d5, d6, d7, b0, b1, b2, b3, b4, b5, b6, b7, b8, b9, b10, b11, b12, b13, b14, b15, b16, b17, b18, ht, if_false, if_true, List.contains_eq_mem, decide_false, decide_true,
    Bool.false_eq_true]
  simp [baseOffset]

/-- the same operands without parentheses: tokens `[t0, c, a, off]` -/
theorem headCS_flat (line : Line) (h t0 a off c : String) (hr : RoutesCS h) (ho : off ≠ "(") :
    parseItemHead line h [t0, c, a, off] = withImm line [off] (fun i => .cs h (.str c) (.str a) i) := by
  obtain ⟨hd, b0, b1, b2, b3, b4, b5, b6, b7, b8, b9, b10, b11, b12, b13, b14, b15, b16, b17, b18, ht⟩ := hr
  obtain ⟨d1, d2, d3, d4, d5, d6, d7⟩ := hd
  unfold parseItemHead
  simp only [d1, d2, d3, d4, d5, d6, d7, b0, b1, b2, b3, b4, b5, b6, b7, b8, b9, b10, b11, b12, b13, b14, b15, b16, b17, b18, ht, if_false, if_true, List.contains_eq_mem, decide_false, decide_true,
    Bool.false_eq_true]
  simp [baseOffset, ho]

end BB
