/-
  BB.Lemmas.Final — the passes after resolve_aligns are one-to-one and keep every size, so the
  label table computed so far is also the layout of the final blobs.
-/
import BB.Lemmas.Pipeline
namespace BB.Lemmas
open BB

theorem utf8Bytes_length (s : String) : (utf8Bytes s).length = s.utf8ByteSize := by
  simp only [utf8Bytes, List.length_map, Array.length_toList, ByteArray.size_data]
  rfl

theorem leBytes_length (n w : Nat) : (leBytes n w).length = n := by
  induction n generalizing w with
  | zero => rfl
  | succ k ih => simp [leBytes, ih]

theorem beBytes_length (n w : Nat) : (beBytes n w).length = n := by
  simp [beBytes, leBytes_length]

theorem packInt_length {big signed : Bool} {n : Nat} {v : Int} {bs : List Nat}
    (h : packInt big signed n v = some bs) : bs.length = n := by
  unfold packInt at h
  split at h
  · simp only [Option.some.injEq] at h
    subst h
    split <;> simp [leBytes_length, beBytes_length]
  · simp at h

/-! ### resolve_immediates -/

theorem setImm_isCompressed (ins : Instr) (v : Imm) : (ins.setImm v).isCompressed = ins.isCompressed := by
  cases ins <;> rfl

theorem immBody_ok (H : Hooks) (constants : Dict) : BodyOK (immBody H constants) := by
  constructor
  intro it p labels repl n hnl hsz h
  cases it with
  | instr line ins =>
    simp only [immBody] at h
    cases himm : ins.imm? with
    | none => simp only [himm] at h; exact bodyOK_of_keep hnl hsz h
    | some imm =>
      simp only [himm, bind, Except.bind] at h
      split at h
      · simp at h
      · simp only [pure, Except.pure, Except.ok.injEq, Prod.mk.injEq] at h
        obtain ⟨rfl, rfl⟩ := h
        have e : ∀ v, (Item.instr line (ins.setImm v)).sizeD = (Item.instr line ins).sizeD := by
          intro v; simp [Item.sizeD, Item.size?, Instr.size, setImm_isCompressed]
        refine ⟨?_, ?_, ?_, by omega, by omega⟩
        · intro x hx l nm; simp only [List.mem_singleton] at hx; subst hx; simp
        · intro x hx; simp only [List.mem_singleton] at hx; subst hx; rw [e]; exact hsz
        · simp only [sizeSum, List.map_cons, List.map_nil, List.sum_cons, List.sum_nil, e]; omega
  | pack line fmt imm =>
    simp only [immBody, bind, Except.bind] at h
    split at h
    · simp at h
    · split at h
      · simp at h
      · simp only [pure, Except.pure, Except.ok.injEq, Prod.mk.injEq] at h
        obtain ⟨rfl, rfl⟩ := h
        have e : ∀ v, (Item.pack line fmt v).sizeD = (Item.pack line fmt imm).sizeD := by
          intro v; simp [Item.sizeD, Item.size?]
        refine ⟨?_, ?_, ?_, by omega, by omega⟩
        · intro x hx l nm; simp only [List.mem_singleton] at hx; subst hx; simp
        · intro x hx; simp only [List.mem_singleton] at hx; subst hx; rw [e]; exact hsz
        · simp only [sizeSum, List.map_cons, List.map_nil, List.sum_cons, List.sum_nil, e]; omega
  | shorthandPack line name imm =>
    simp only [immBody, bind, Except.bind] at h
    split at h
    · simp at h
    · split at h
      · simp at h
      · simp only [pure, Except.pure, Except.ok.injEq, Prod.mk.injEq] at h
        obtain ⟨rfl, rfl⟩ := h
        have e : ∀ v, (Item.shorthandPack line name v).sizeD = (Item.shorthandPack line name imm).sizeD := by
          intro v; simp [Item.sizeD, Item.size?]
        refine ⟨?_, ?_, ?_, by omega, by omega⟩
        · intro x hx l nm; simp only [List.mem_singleton] at hx; subst hx; simp
        · intro x hx; simp only [List.mem_singleton] at hx; subst hx; rw [e]; exact hsz
        · simp only [sizeSum, List.map_cons, List.map_nil, List.sum_cons, List.sum_nil, e]; omega
  | _ => exact bodyOK_of_keep hnl hsz (by simpa [immBody] using h)

theorem shiftAbove_zero (d : Dict) (p : Int) : d.shiftAbove p 0 = d := by
  induction d with
  | nil => rfl
  | cons e t ih =>
    obtain ⟨a, b⟩ := e
    simp only [Dict.shiftAbove, List.map_cons] at ih ⊢
    rw [ih]
    split <;> simp


/-- a loop whose body never shrinks anything leaves the label table untouched -/
theorem walk_zero_labels {f : Item → Int → Dict → Except Err (List Item × Int)}
    (hz : ∀ it p L repl n, f it p L = .ok (repl, n) → n = 0)
    (G : List Item) (p : Int) (L : Dict) (G' : List Item) (L' : Dict)
    (h : walk f G p L = .ok (G', L')) : L' = L := by
  induction G generalizing p L G' L' with
  | nil => simp only [walk, Except.ok.injEq, Prod.mk.injEq] at h; exact h.2.symm
  | cons it rest ih =>
    by_cases hlab : ∃ line nm, it = .label line nm
    · obtain ⟨line, nm, rfl⟩ := hlab
      simp only [walk, bind, Except.bind] at h
      cases hr : walk f rest p L with
      | error e => simp [hr] at h
      | ok res =>
        obtain ⟨o, l⟩ := res
        simp only [hr, pure, Except.pure, Except.ok.injEq, Prod.mk.injEq] at h
        obtain ⟨_, rfl⟩ := h
        exact ih _ _ _ _ hr
    · have hnl : ∀ line nm, it ≠ .label line nm := fun line nm hh => hlab ⟨line, nm, hh⟩
      have hwalk : walk f (it :: rest) p L = (do
          let (repl, n) ← f it p L
          let (o, l) ← walk f rest (p + sizeSum repl) (L.shiftAbove p n)
          pure (repl ++ o, l)) := by
        cases it <;> first | rfl | exact absurd rfl (hnl _ _)
      rw [hwalk] at h
      simp only [bind, Except.bind] at h
      cases hfb : f it p L with
      | error e => simp [hfb] at h
      | ok fb =>
        obtain ⟨repl, n⟩ := fb
        have hn := hz it p L repl n hfb
        subst hn
        simp only [hfb, shiftAbove_zero] at h
        cases hr : walk f rest (p + sizeSum repl) L with
        | error e => simp [hr] at h
        | ok res =>
          obtain ⟨o, l⟩ := res
          simp only [hr, pure, Except.pure, Except.ok.injEq, Prod.mk.injEq] at h
          obtain ⟨_, rfl⟩ := h
          exact ih _ _ _ _ hr

theorem immBody_zero (H : Hooks) (constants : Dict) (it : Item) (p : Int) (L : Dict) (repl : List Item)
    (n : Int) (h : immBody H constants it p L = .ok (repl, n)) : n = 0 := by
  cases it with
  | instr line ins =>
    simp only [immBody] at h
    cases himm : ins.imm? with
    | none => simp only [himm] at h; exact (keepItem_ok h).2
    | some imm =>
      simp only [himm, bind, Except.bind] at h
      split at h
      · simp at h
      · simp only [pure, Except.pure, Except.ok.injEq, Prod.mk.injEq] at h; exact h.2.symm
  | pack line fmt imm =>
    simp only [immBody, bind, Except.bind] at h
    split at h
    · simp at h
    · split at h
      · simp at h
      · simp only [pure, Except.pure, Except.ok.injEq, Prod.mk.injEq] at h; exact h.2.symm
  | shorthandPack line name imm =>
    simp only [immBody, bind, Except.bind] at h
    split at h
    · simp at h
    · split at h
      · simp at h
      · simp only [pure, Except.pure, Except.ok.injEq, Prod.mk.injEq] at h; exact h.2.symm
  | _ => exact (keepItem_ok (by simpa [immBody] using h)).2

/-! ### one-to-one passes (List.mapM) -/

/-- a per-item step that leaves markers alone and keeps every size -/
structure StepOK (g : Item → Except Err Item) : Prop where
  label : ∀ l n, g (.label l n) = .ok (.label l n)
  keep : ∀ it it', (∀ l n, it ≠ .label l n) → g it = .ok it' →
          (∀ l n, it' ≠ .label l n) ∧ it'.sizeD = it.sizeD

theorem mapM_cons_ok {g : Item → Except Err Item} {it : Item} {rest out : List Item}
    (h : (it :: rest).mapM g = .ok out) :
    ∃ it' out', g it = .ok it' ∧ rest.mapM g = .ok out' ∧ out = it' :: out' := by
  rw [List.mapM_cons] at h
  simp only [bind, Except.bind] at h
  cases hg : g it with
  | error e => simp [hg] at h
  | ok it' =>
    simp only [hg] at h
    cases hr : rest.mapM g with
    | error e => simp [hr] at h
    | ok out' =>
      simp only [hr, pure, Except.pure, Except.ok.injEq] at h
      exact ⟨it', out', rfl, rfl, h.symm⟩

theorem mapM_ghost {g : Item → Except Err Item} (hg : StepOK g) (G out : List Item)
    (h : (strip G).mapM g = .ok out) :
    ∃ G', G.mapM g = .ok G' ∧ strip G' = out ∧ (∀ p ℓ, labelPos G' p ℓ = labelPos G p ℓ) ∧
      labelNames G' = labelNames G ∧ (NonNeg G → NonNeg G') := by
  induction G generalizing out with
  | nil =>
    simp only [strip, List.filter_nil, List.mapM_nil, pure, Except.pure, Except.ok.injEq] at h
    subst h
    exact ⟨[], rfl, rfl, fun _ _ => rfl, rfl, fun h => h⟩
  | cons it rest ih =>
    by_cases hlab : ∃ line nm, it = .label line nm
    · obtain ⟨line, nm, rfl⟩ := hlab
      rw [strip_label] at h
      obtain ⟨G', hm, hs, hp, hn, hnn⟩ := ih out h
      refine ⟨.label line nm :: G', ?_, by rw [strip_label]; exact hs, ?_, ?_, ?_⟩
      · rw [List.mapM_cons]; simp only [hg.label, hm, bind, Except.bind, pure, Except.pure]
      · intro p ℓ; simp only [labelPos]; split
        · rfl
        · exact hp p ℓ
      · simp [labelNames, hn]
      · intro hG x hx
        simp only [List.mem_cons] at hx
        rcases hx with rfl | hx
        · simp [Item.sizeD, Item.size?]
        · exact hnn (fun y hy => hG y (List.mem_cons_of_mem _ hy)) x hx
    · have hnl : ∀ line nm, it ≠ .label line nm := fun line nm hh => hlab ⟨line, nm, hh⟩
      rw [strip_cons_of_not_label hnl] at h
      obtain ⟨it', out', hgi, hrest, rfl⟩ := mapM_cons_ok h
      obtain ⟨G', hm, hs, hp, hn, hnn⟩ := ih out' hrest
      obtain ⟨k1, k2⟩ := hg.keep it it' hnl hgi
      refine ⟨it' :: G', ?_, ?_, ?_, ?_, ?_⟩
      · rw [List.mapM_cons]; simp only [hgi, hm, bind, Except.bind, pure, Except.pure]
      · rw [strip_cons_of_not_label k1, hs]
      · intro p ℓ
        have e1 : labelPos (it' :: G') p ℓ = labelPos G' (p + it'.sizeD) ℓ := by
          cases it' <;> first | rfl | exact absurd rfl (k1 _ _)
        have e2 : labelPos (it :: rest) p ℓ = labelPos rest (p + it.sizeD) ℓ := by
          cases it <;> first | rfl | exact absurd rfl (hnl _ _)
        rw [e1, e2, k2, hp]
      · have e1 : labelNames (it' :: G') = labelNames G' := by
          cases it' <;> first | rfl | exact absurd rfl (k1 _ _)
        have e2 : labelNames (it :: rest) = labelNames rest := by
          cases it <;> first | rfl | exact absurd rfl (hnl _ _)
        rw [e1, e2, hn]
      · intro hG x hx
        simp only [List.mem_cons] at hx
        rcases hx with rfl | hx
        · rw [k2]; exact hG it List.mem_cons_self
        · exact hnn (fun y hy => hG y (List.mem_cons_of_mem _ hy)) x hx

/-! ### each one-to-one pass keeps the sizes -/

theorem encodeInstr_length {line : Line} {ins : Instr} {bs : List Nat} (h : encodeInstr line ins = .ok bs) :
    (bs.length : Int) = ins.size := by
  unfold encodeInstr at h
  split at h
  · simp at h
  · split at h
    · simp only [Except.ok.injEq] at h; subst h
      rw [leBytes_length]; unfold Instr.size; split <;> simp_all
    all_goals simp at h

theorem instrStep_ok : StepOK instrStep := by
  constructor
  · intro l n; rfl
  · intro it it' hnl h
    cases it with
    | instr line ins =>
      simp only [instrStep, bind, Except.bind] at h
      cases he : encodeInstr line ins with
      | error e => simp [he] at h
      | ok bs =>
        simp only [he, pure, Except.pure, Except.ok.injEq] at h
        subst h
        refine ⟨fun l n => by simp, ?_⟩
        simp only [Item.sizeD, Item.size?, Option.getD_some]
        exact encodeInstr_length he
    | pseudo line name args => simp [instrStep] at h
    | label l n => exact absurd rfl (hnl l n)
    | _ =>
      simp only [instrStep, pure, Except.pure, Except.ok.injEq] at h
      subst h; exact ⟨hnl, rfl⟩

theorem stringStep_sizeD (it : Item) :
    (match it with | .string line v => Item.blob line (utf8Bytes v) | other => other).sizeD = it.sizeD := by
  cases it <;> try rfl
  simp [Item.sizeD, Item.size?, utf8Bytes_length]

theorem seqBytes_length {line : Line} {n : Nat} {vals : List String} {vs : List Int}
    (h : seqBytes line n vals = .ok vs) : vs.length = vals.length := by
  induction vals generalizing vs with
  | nil => simp [seqBytes] at h; subst h; rfl
  | cons t rest ih =>
    simp only [seqBytes] at h
    split at h
    · simp at h
    · simp only [bind, Except.bind] at h
      cases hr : seqBytes line n rest with
      | error e => simp [hr] at h
      | ok r =>
        simp only [hr, pure, Except.pure, Except.ok.injEq] at h
        subst h; simp [ih hr]

theorem packSeq_length {line : Line} {n : Nat} {vs : List Int} {bs : List Nat}
    (h : packSeq line n vs = .ok bs) : bs.length = n * vs.length := by
  induction vs generalizing bs with
  | nil => simp [packSeq] at h; subst h; simp
  | cons v rest ih =>
    simp only [packSeq] at h
    split at h
    · simp at h
    · rename_i b hb
      simp only [bind, Except.bind] at h
      cases hr : packSeq line n rest with
      | error e => simp [hr] at h
      | ok r =>
        simp only [hr, pure, Except.pure, Except.ok.injEq] at h
        subst h
        simp only [List.length_append, List.length_cons, ih hr, packInt_length hb]
        rw [Nat.mul_add]; omega

theorem seqStep_ok : StepOK seqStep := by
  constructor
  · intro l n; rfl
  · intro it it' hnl h
    cases it with
    | sequence line name values =>
      simp only [seqStep] at h
      cases hsz : sequenceElemSize name with
      | none => simp [hsz] at h
      | some n =>
        simp only [hsz, bind, Except.bind] at h
        cases h1 : seqBytes line n values with
        | error e => simp [h1] at h
        | ok vs =>
          simp only [h1] at h
          cases h2 : packSeq line n vs with
          | error e => simp [h2] at h
          | ok bs =>
            simp only [h2, pure, Except.pure, Except.ok.injEq] at h
            subst h
            refine ⟨fun l n => by simp, ?_⟩
            simp only [Item.sizeD, Item.size?, hsz, Option.map_some, Option.getD_some]
            rw [packSeq_length h2, seqBytes_length h1]
    | label l n => exact absurd rfl (hnl l n)
    | _ =>
      simp only [seqStep, pure, Except.pure, Except.ok.injEq] at h
      subst h; exact ⟨hnl, rfl⟩

theorem shorthandFmt_size {name : String} {v : Int} {fmt : String} (h : shorthandFmt name v = some fmt) :
    packSize fmt = shorthandSize name := by
  unfold shorthandFmt at h
  simp only at h
  unfold shorthandSize
  by_cases h1 : name = "db"
  · subst h1; simp at h; subst h; split <;> simp [packSize] <;> rfl
  · by_cases h2 : name = "dh"
    · subst h2; simp at h; subst h; split <;> simp [packSize] <;> rfl
    · by_cases h3 : name = "dw"
      · subst h3; simp at h; subst h; split <;> simp [packSize] <;> rfl
      · by_cases h4 : name = "dd"
        · subst h4; simp at h; subst h; split <;> simp [packSize] <;> rfl
        · simp [h1, h2, h3, h4] at h

theorem shorthandStep_ok : StepOK shorthandStep := by
  constructor
  · intro l n; rfl
  · intro it it' hnl h
    cases it with
    | shorthandPack line name imm =>
      simp only [shorthandStep] at h
      cases imm with
      | value v =>
        simp only at h
        cases hf : shorthandFmt name v with
        | none => simp [hf] at h
        | some fmt =>
          simp only [hf, pure, Except.pure, Except.ok.injEq] at h
          subst h
          refine ⟨fun l n => by simp, ?_⟩
          simp only [Item.sizeD, Item.size?, shorthandFmt_size hf]
      | _ => simp at h
    | label l n => exact absurd rfl (hnl l n)
    | _ =>
      simp only [shorthandStep, pure, Except.pure, Except.ok.injEq] at h
      subst h; exact ⟨hnl, rfl⟩

theorem packFmt_length {fmt : String} {v : Int} {bs : List Nat} (h : packFmt fmt v = .ok (some bs)) :
    packSize fmt = some bs.length := by
  unfold packFmt at h
  unfold packSize
  split at h
  · rename_i e c heq
    rw [heq]
    simp only
    split at h
    · rename_i he
      simp only [he, if_true]
      dsimp only at h
      repeat' split at h
      all_goals (first
        | (simp at h; done)
        | (simp only [Except.ok.injEq] at h; have := packInt_length h; simp_all; done)
        | (simp only [Except.ok.injEq] at h; have := packInt_length h; rename_i hc
           rcases hc with hc | hc <;> simp_all))
    · simp at h
  · simp at h

theorem packStep_ok : StepOK packStep := by
  constructor
  · intro l n; rfl
  · intro it it' hnl h
    cases it with
    | pack line fmt imm =>
      simp only [packStep] at h
      cases imm with
      | value v =>
        simp only [bind, Except.bind] at h
        cases hf : packFmt fmt v with
        | error e => simp [hf] at h
        | ok o =>
          simp only [hf] at h
          cases o with
          | none => simp at h
          | some bs =>
            simp only [pure, Except.pure, Except.ok.injEq] at h
            subst h
            refine ⟨fun l n => by simp, ?_⟩
            simp only [Item.sizeD, Item.size?, packFmt_length hf, Option.map_some, Option.getD_some]
      | _ => simp at h
    | label l n => exact absurd rfl (hnl l n)
    | _ =>
      simp only [packStep, pure, Except.pure, Except.ok.injEq] at h
      subst h; exact ⟨hnl, rfl⟩

theorem includeBytesStep_ok (H : Hooks) : StepOK (includeBytesStep H) := by
  constructor
  · intro l n; rfl
  · intro it it' hnl h
    cases it with
    | includeBytes line path fsize =>
      simp only [includeBytesStep] at h
      split at h
      · simp at h
      · rename_i data hd
        split at h
        · simp at h
        · rename_i hlen
          simp only [pure, Except.pure, Except.ok.injEq] at h
          subst h
          refine ⟨fun l n => by simp, ?_⟩
          simp only [Item.sizeD, Item.size?, Option.getD_some]
          simpa using hlen
    | label l n => exact absurd rfl (hnl l n)
    | _ =>
      simp only [includeBytesStep, pure, Except.pure, Except.ok.injEq] at h
      subst h; exact ⟨hnl, rfl⟩

/-! ### blobs -/

/-- the bytes of a ghost list that consists of blobs and markers -/
def blobBytes : List Item → List Nat
  | [] => []
  | .blob _ d :: rest => d ++ blobBytes rest
  | _ :: rest => blobBytes rest

/-- number of bytes emitted before the marker of ℓ -/
def bytesBefore : List Item → String → Option Nat
  | [], _ => none
  | .label _ n :: rest, ℓ => if n = ℓ then some 0 else bytesBefore rest ℓ
  | .blob _ d :: rest, ℓ => (bytesBefore rest ℓ).map (d.length + ·)
  | _ :: rest, ℓ => bytesBefore rest ℓ

def OnlyBlobs (G : List Item) : Prop := ∀ it ∈ G, (∃ l n, it = .label l n) ∨ (∃ l d, it = .blob l d)

theorem resolveBlobs_ghost (G : List Item) (bs : List Nat) (h : resolveBlobs (strip G) = .ok bs) :
    OnlyBlobs G ∧ bs = blobBytes G := by
  induction G generalizing bs with
  | nil =>
    simp only [strip, List.filter_nil, resolveBlobs, Except.ok.injEq] at h
    exact ⟨fun _ hx => by simp at hx, h.symm⟩
  | cons it rest ih =>
    cases it with
    | label l n =>
      rw [strip_label] at h
      obtain ⟨h1, h2⟩ := ih bs h
      refine ⟨?_, by simpa [blobBytes] using h2⟩
      intro x hx
      simp only [List.mem_cons] at hx
      rcases hx with rfl | hx
      · exact Or.inl ⟨l, n, rfl⟩
      · exact h1 x hx
    | blob l d =>
      rw [strip_cons_of_not_label (by intro _ _ hh; cases hh)] at h
      simp only [resolveBlobs, bind, Except.bind] at h
      cases hr : resolveBlobs (strip rest) with
      | error e => simp [hr] at h
      | ok o =>
        simp only [hr, pure, Except.pure, Except.ok.injEq] at h
        obtain ⟨h1, h2⟩ := ih o hr
        refine ⟨?_, by simp [blobBytes, ← h, h2]⟩
        intro x hx
        simp only [List.mem_cons] at hx
        rcases hx with rfl | hx
        · exact Or.inr ⟨l, d, rfl⟩
        · exact h1 x hx
    | _ =>
      rw [strip_cons_of_not_label (by intro _ _ hh; cases hh)] at h
      simp [resolveBlobs] at h

theorem labelPos_onlyBlobs (G : List Item) (hG : OnlyBlobs G) (p : Int) (ℓ : String) :
    labelPos G p ℓ = (bytesBefore G ℓ).map (fun (k : Nat) => p + Int.ofNat k) := by
  induction G generalizing p with
  | nil => rfl
  | cons it rest ih =>
    have hrest : OnlyBlobs rest := fun x hx => hG x (List.mem_cons_of_mem _ hx)
    rcases hG it List.mem_cons_self with ⟨l, n, rfl⟩ | ⟨l, d, rfl⟩
    · simp only [labelPos, bytesBefore]
      split
      · simp
      · exact ih hrest p
    · simp only [labelPos, bytesBefore]
      rw [ih hrest]
      cases bytesBefore rest ℓ with
      | none => rfl
      | some k =>
        simp only [Option.map_some, Item.sizeD, Item.size?, Option.getD_some, Option.some.injEq,
          Int.ofNat_eq_natCast]
        push_cast
        omega

end BB.Lemmas
