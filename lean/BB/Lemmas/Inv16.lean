/-
  BB.Lemmas.Inv16 — inversion of the 16-bit (RVC) encoder calls: if `encX … args = .ok w` then the
  arguments have the expected shape, the registers resolve (to x8..x15 for the 3-bit fields), the
  immediate is in range / a multiple, the constraints hold, `w < 65536`, and the fields of `w`
  that `decode16` looks at are the operands (scattered immediates already reassembled in the
  exact shape `decode16` uses).
-/
import BB.Lemmas.Dec16
import BB.Lemmas.Inv32
namespace BB.Lemmas
open BB BB.Spec

theorem lookRC_ok {x : RegOp} {r : Nat} : lookRC x = .ok r ↔ lookupRegisterC x = some r := by
  unfold lookRC; split <;> simp_all

/-- `lookup_register(reg, compressed=True)` succeeds exactly on x8..x15 and returns `n - 8` -/
theorem lookupRegisterC_some {x : RegOp} {r : Nat} (h : lookupRegisterC x = some r) :
    ∃ n, lookupRegister x = some n ∧ 8 ≤ n ∧ n ≤ 15 ∧ r = n - 8 := by
  unfold lookupRegisterC at h
  split at h
  · rename_i n hn
    split at h
    · simp at h
    · rename_i hr
      simp only [Option.some.injEq] at h
      exact ⟨n, hn, by omega, by omega, h.symm⟩
  · simp at h

theorem lookupRegisterC_of {x : RegOp} {n : Nat} (h : lookupRegister x = some n) (h8 : 8 ≤ n)
    (h15 : n ≤ 15) : lookupRegisterC x = some (n - 8) := by
  unfold lookupRegisterC
  rw [h]
  simp only
  rw [if_neg (by omega)]

theorem csOk_of_not {cs : List Constraint} {a : CArgs} (h : ¬ (!csOk cs a) = true) : csOk cs a = true := by
  simpa using h

/-! ### CR / CRJ / CRE -/
theorem cr_inv {op f4 : Nat} {cs : List Constraint} (hop : op < 4) (hf4 : f4 < 16) {args : List Arg}
    {w : Nat} (h : encCr op f4 cs args = .ok w) :
    ∃ a b rd rs2, args = [.r a, .r b] ∧ lookupRegister a = some rd ∧ lookupRegister b = some rs2 ∧
      rd < 32 ∧ rs2 < 32 ∧ csOk cs { rdRs1 := rd, rs2 := rs2 } = true ∧
      w < 65536 ∧ bits w 0 2 = op ∧ bits w 13 3 = f4 / 2 ∧ bit w 12 = f4 % 2 ∧ bits w 7 5 = rd ∧
      bits w 2 5 = rs2 := by
  unfold encCr at h
  split at h
  · rename_i a b
    cases ha : lookR a with
    | error e => simp [ha, bind, Except.bind] at h
    | ok rd =>
    cases hb : lookR b with
    | error e => simp [ha, hb, bind, Except.bind] at h
    | ok rs2 =>
    simp only [ha, hb, bind, Except.bind] at h
    have h1 := lookupRegister_lt (lookR_ok.mp ha)
    have h2 := lookupRegister_lt (lookR_ok.mp hb)
    rw [ofOpt_ok, crTypeN_eq _ _ _ _ _ h1 h2 hop] at h
    split at h
    · simp at h
    · rename_i hc
      simp only [Option.some.injEq] at h
      obtain ⟨s0, s1, s2, s3, s4, s5⟩ := slotsCR op rs2 rd f4 hop h2 h1 hf4
      rw [h] at s0 s1 s2 s3 s4 s5
      exact ⟨a, b, rd, rs2, rfl, lookR_ok.mp ha, lookR_ok.mp hb, h1, h2, csOk_of_not hc,
        s0, s1, s2, s3, s4, s5⟩
  · simp at h

theorem crj_inv {op f4 : Nat} {cs : List Constraint} (hop : op < 4) (hf4 : f4 < 16) {args : List Arg}
    {w : Nat} (h : encCrj op f4 cs args = .ok w) :
    ∃ a rd, args = [.r a] ∧ lookupRegister a = some rd ∧ rd < 32 ∧
      csOk cs { rdRs1 := rd, rs2 := 0 } = true ∧
      w < 65536 ∧ bits w 0 2 = op ∧ bits w 13 3 = f4 / 2 ∧ bit w 12 = f4 % 2 ∧ bits w 7 5 = rd ∧
      bits w 2 5 = 0 := by
  unfold encCrj at h
  split at h
  · rename_i a
    cases ha : lookR a with
    | error e => simp [ha, bind, Except.bind] at h
    | ok rd =>
    simp only [ha, bind, Except.bind] at h
    have h1 := lookupRegister_lt (lookR_ok.mp ha)
    rw [ofOpt_ok, crTypeN_eq _ _ _ _ _ h1 (by omega) hop] at h
    split at h
    · simp at h
    · rename_i hc
      simp only [Option.some.injEq] at h
      obtain ⟨s0, s1, s2, s3, s4, s5⟩ := slotsCR op 0 rd f4 hop (by omega) h1 hf4
      rw [h] at s0 s1 s2 s3 s4 s5
      exact ⟨a, rd, rfl, lookR_ok.mp ha, h1, csOk_of_not hc, s0, s1, s2, s3, s4, s5⟩
  · simp at h

theorem cre_inv {op f4 : Nat} (hop : op < 4) (hf4 : f4 < 16) {args : List Arg} {w : Nat}
    (h : encCre op f4 args = .ok w) :
    args = [] ∧ w < 65536 ∧ bits w 0 2 = op ∧ bits w 13 3 = f4 / 2 ∧ bit w 12 = f4 % 2 ∧
      bits w 7 5 = 0 ∧ bits w 2 5 = 0 := by
  unfold encCre at h
  split at h
  · rw [ofOpt_ok, crTypeN_eq _ _ _ _ _ (by omega) (by omega) hop] at h
    split at h
    · rename_i hc; simp [csOk] at hc
    · simp only [Option.some.injEq] at h
      obtain ⟨s0, s1, s2, s3, s4, s5⟩ := slotsCR op 0 0 f4 hop (by omega) (by omega) hf4
      rw [h] at s0 s1 s2 s3 s4 s5
      exact ⟨rfl, s0, s1, s2, s3, s4, s5⟩
  · simp at h

/-! ### CI family -/

/-- the facts about a word produced by `ciTypeN` -/
theorem ciTypeN_inv {rd : Nat} {imm : Int} {op f3 : Nat} {cs : List Constraint} (h1 : rd < 32)
    (hop : op < 4) (hf3 : f3 < 8) {w : Nat} (h : ciTypeN rd imm op f3 cs = some w) :
    -32 ≤ imm ∧ imm ≤ 31 ∧ csOk cs { rdRs1 := rd, imm := imm } = true ∧
      w < 65536 ∧ bits w 0 2 = op ∧ bits w 13 3 = f3 ∧ bits w 7 5 = rd ∧
      bit w 12 = (imm % 64).toNat / 32 % 2 ∧ bit w 12 * 32 + bits w 2 5 = (imm % 64).toNat ∧
      sext 6 (bit w 12 * 32 + bits w 2 5) = imm := by
  rw [ciTypeN_eq _ _ _ _ _ h1 hop] at h
  split at h
  · simp at h
  · split at h
    · simp at h
    · rename_i hr hc
      simp only [Option.some.injEq] at h
      generalize hu : (imm % 64).toNat = u at h
      have hub : u < 64 := by omega
      obtain ⟨s0, s1, s2, s3, s4, s5⟩ :=
        slotsCI op (u % 32) rd (u / 32 % 2) f3 hop (by omega) h1 (by omega) hf3
      rw [h] at s0 s1 s2 s3 s4 s5
      have hf : bit w 12 * 32 + bits w 2 5 = u := by rw [s5, s4]; exact ci_field u hub
      subst hu
      refine ⟨by omega, by omega, csOk_of_not hc, s0, s1, s2, s3, s5, hf, ?_⟩
      rw [hf]; exact sext6 imm (by omega)

theorem ci_inv {op f3 : Nat} {cs : List Constraint} (hop : op < 4) (hf3 : f3 < 8) {args : List Arg}
    {w : Nat} (h : encCi op f3 cs args = .ok w) :
    ∃ a imm rd, args = [.r a, .i imm] ∧ lookupRegister a = some rd ∧ rd < 32 ∧
      -32 ≤ imm ∧ imm ≤ 31 ∧ csOk cs { rdRs1 := rd, imm := imm } = true ∧
      w < 65536 ∧ bits w 0 2 = op ∧ bits w 13 3 = f3 ∧ bits w 7 5 = rd ∧
      bit w 12 = (imm % 64).toNat / 32 % 2 ∧ bit w 12 * 32 + bits w 2 5 = (imm % 64).toNat ∧
      sext 6 (bit w 12 * 32 + bits w 2 5) = imm := by
  unfold encCi at h
  split at h
  · rename_i a imm
    cases ha : lookR a with
    | error e => simp [ha, bind, Except.bind] at h
    | ok rd =>
    simp only [ha, bind, Except.bind] at h
    have h1 := lookupRegister_lt (lookR_ok.mp ha)
    rw [ofOpt_ok] at h
    exact ⟨a, imm, rd, rfl, lookR_ok.mp ha, h1, ciTypeN_inv h1 hop hf3 h⟩
  · simp at h

theorem cin_inv {op f3 : Nat} (hop : op < 4) (hf3 : f3 < 8) {args : List Arg} {w : Nat}
    (h : encCin op f3 args = .ok w) :
    args = [] ∧ w < 65536 ∧ bits w 0 2 = op ∧ bits w 13 3 = f3 ∧ bits w 7 5 = 0 ∧
      sext 6 (bit w 12 * 32 + bits w 2 5) = 0 := by
  unfold encCin at h
  split at h
  · rw [ofOpt_ok] at h
    obtain ⟨_, _, _, s0, s1, s2, s3, _, _, s6⟩ := ciTypeN_inv (by omega) hop hf3 h
    exact ⟨rfl, s0, s1, s2, s3, s6⟩
  · simp at h

/-- c.lui: the immediate as written is either the signed 6-bit value or its 20-bit unsigned
    spelling; `v` is the signed value either way -/
theorem ciu_inv {op f3 : Nat} {cs : List Constraint} (hop : op < 4) (hf3 : f3 < 8) {args : List Arg}
    {w : Nat} (h : encCiu op f3 cs args = .ok w) :
    ∃ a imm rd, args = [.r a, .i imm] ∧ lookupRegister a = some rd ∧ rd < 32 ∧
      ((-32 ≤ imm ∧ imm ≤ 31) ∨ (1048544 ≤ imm ∧ imm ≤ 1048575)) ∧
      csOk cs { rdRs1 := rd, imm := if imm ≥ 1048544 then imm - 1048576 else imm } = true ∧
      w < 65536 ∧ bits w 0 2 = op ∧ bits w 13 3 = f3 ∧ bits w 7 5 = rd ∧
      sext 6 (bit w 12 * 32 + bits w 2 5) = (if imm ≥ 1048544 then imm - 1048576 else imm) := by
  unfold encCiu at h
  split at h
  · rename_i a imm
    cases ha : lookR a with
    | error e => simp [ha, bind, Except.bind] at h
    | ok rd =>
    simp only [ha, bind, Except.bind] at h
    have h1 := lookupRegister_lt (lookR_ok.mp ha)
    rw [ofOpt_ok, ciuTypeN_eq_ci] at h
    obtain ⟨r0, r1, hc, s0, s1, s2, s3, _, _, s6⟩ := ciTypeN_inv h1 hop hf3 h
    have hv : (if imm ≥ 0xfffe0 ∧ imm ≤ 0xfffff then imm - 1048576 else imm)
        = (if imm ≥ 1048544 then imm - 1048576 else imm) := by
      split <;> split <;> omega
    rw [hv] at hc s6 r0 r1
    refine ⟨a, imm, rd, rfl, lookR_ok.mp ha, h1, ?_, hc, s0, s1, s2, s3, s6⟩
    split at r0 <;> omega
  · simp at h

/-- c.addi16sp -/
theorem cia_inv {op f3 : Nat} {cs : List Constraint} (hop : op < 4) (hf3 : f3 < 8) {args : List Arg}
    {w : Nat} (h : encCia op f3 cs args = .ok w) :
    ∃ imm, args = [.i imm] ∧ -512 ≤ imm ∧ imm ≤ 511 ∧ imm % 16 = 0 ∧ csOk cs { imm := imm } = true ∧
      w < 65536 ∧ bits w 0 2 = op ∧ bits w 13 3 = f3 ∧ bits w 7 5 = 2 ∧
      sext 10 (bit w 12 * 512 + bit w 6 * 16 + bit w 5 * 64 + bits w 3 2 * 128 + bit w 2 * 32) = imm := by
  unfold encCia at h
  split at h
  · rename_i imm
    rw [ofOpt_ok, ciaTypeN_eq _ _ _ _ hop] at h
    split at h
    · simp at h
    · split at h
      · simp at h
      · split at h
        · simp at h
        · rename_i hr he hc
          simp only [Option.some.injEq] at h
          generalize hu : (imm / 16 % 64).toNat = u at h
          have hub : u < 64 := by omega
          obtain ⟨s0, s1, s2, s3, s4, s5, s6, s7, s8⟩ :=
            slotsCIA op (u / 2 % 2) (u / 8 % 4) (u / 4 % 2) (u % 2) (u / 32 % 2) f3 hop (by omega)
              (by omega) (by omega) (by omega) (by omega) hf3
          rw [h] at s0 s1 s2 s3 s4 s5 s6 s7 s8
          refine ⟨imm, rfl, by omega, by omega, by omega, csOk_of_not hc, s0, s1, s2, s3, ?_⟩
          rw [s4, s5, s6, s7, s8, ← hu]
          exact sext10_cia imm (by omega) (by omega)
  · simp at h

/-- c.lwsp -/
theorem cil_inv {op f3 : Nat} {cs : List Constraint} (hop : op < 4) (hf3 : f3 < 8) {args : List Arg}
    {w : Nat} (h : encCil op f3 cs args = .ok w) :
    ∃ a imm rd, args = [.r a, .i imm] ∧ lookupRegister a = some rd ∧ rd < 32 ∧
      0 ≤ imm ∧ imm ≤ 255 ∧ imm % 4 = 0 ∧ csOk cs { rdRs1 := rd, imm := imm } = true ∧
      w < 65536 ∧ bits w 0 2 = op ∧ bits w 13 3 = f3 ∧ bits w 7 5 = rd ∧
      bit w 12 * 32 + bits w 4 3 * 4 + bits w 2 2 * 64 = imm.toNat := by
  unfold encCil at h
  split at h
  · rename_i a imm
    cases ha : lookR a with
    | error e => simp [ha, bind, Except.bind] at h
    | ok rd =>
    simp only [ha, bind, Except.bind] at h
    have h1 := lookupRegister_lt (lookR_ok.mp ha)
    rw [ofOpt_ok, cilTypeN_eq _ _ _ _ _ h1 hop] at h
    split at h
    · simp at h
    · split at h
      · simp at h
      · split at h
        · simp at h
        · rename_i hr he hc
          simp only [Option.some.injEq] at h
          generalize hu : (imm / 4 % 64).toNat = u at h
          have hub : u < 64 := by omega
          obtain ⟨s0, s1, s2, s3, s4, s5, s6⟩ :=
            slotsCIL op (u / 16 % 4) (u % 8) rd (u / 8 % 2) f3 hop (by omega) (by omega) h1 (by omega) hf3
          rw [h] at s0 s1 s2 s3 s4 s5 s6
          refine ⟨a, imm, rd, rfl, lookR_ok.mp ha, h1, by omega, by omega, by omega, csOk_of_not hc,
            s0, s1, s2, s3, ?_⟩
          rw [s4, s5, s6, ← hu]
          exact uimm_cil imm (by omega) (by omega)
  · simp at h

/-- c.swsp -/
theorem css_inv {op f3 : Nat} {cs : List Constraint} (hop : op < 4) (hf3 : f3 < 8) {args : List Arg}
    {w : Nat} (h : encCss op f3 cs args = .ok w) :
    ∃ a imm rs2, args = [.r a, .i imm] ∧ lookupRegister a = some rs2 ∧ rs2 < 32 ∧
      0 ≤ imm ∧ imm ≤ 255 ∧ imm % 4 = 0 ∧ csOk cs { rs2 := rs2, imm := imm } = true ∧
      w < 65536 ∧ bits w 0 2 = op ∧ bits w 13 3 = f3 ∧ bits w 2 5 = rs2 ∧
      bits w 9 4 * 4 + bits w 7 2 * 64 = imm.toNat := by
  unfold encCss at h
  split at h
  · rename_i a imm
    cases ha : lookR a with
    | error e => simp [ha, bind, Except.bind] at h
    | ok rs2 =>
    simp only [ha, bind, Except.bind] at h
    have h1 := lookupRegister_lt (lookR_ok.mp ha)
    rw [ofOpt_ok, cssTypeN_eq _ _ _ _ _ h1 hop] at h
    split at h
    · simp at h
    · split at h
      · simp at h
      · split at h
        · simp at h
        · rename_i hr he hc
          simp only [Option.some.injEq] at h
          generalize hu : (imm / 4 % 64).toNat = u at h
          have hub : u < 64 := by omega
          obtain ⟨s0, s1, s2, s3, s4, s5⟩ :=
            slotsCSS op rs2 (u / 16 % 4) (u % 16) f3 hop h1 (by omega) (by omega) hf3
          rw [h] at s0 s1 s2 s3 s4 s5
          refine ⟨a, imm, rs2, rfl, lookR_ok.mp ha, h1, by omega, by omega, by omega, csOk_of_not hc,
            s0, s1, s2, s3, ?_⟩
          rw [s4, s5, ← hu]
          exact uimm_css imm (by omega) (by omega)
  · simp at h

/-! ### the compressed-register kinds (x8..x15) -/

/-- c.addi4spn -/
theorem ciw_inv {op f3 : Nat} {cs : List Constraint} (hop : op < 4) (hf3 : f3 < 8) {args : List Arg}
    {w : Nat} (h : encCiw op f3 cs args = .ok w) :
    ∃ a imm rd, args = [.r a, .i imm] ∧ lookupRegister a = some rd ∧ 8 ≤ rd ∧ rd ≤ 15 ∧
      0 ≤ imm ∧ imm ≤ 1023 ∧ imm % 4 = 0 ∧ csOk cs { rd := rd - 8, imm := imm } = true ∧
      w < 65536 ∧ bits w 0 2 = op ∧ bits w 13 3 = f3 ∧ 8 + bits w 2 3 = rd ∧
      bits w 11 2 * 16 + bits w 7 4 * 64 + bit w 6 * 4 + bit w 5 * 8 = imm.toNat := by
  unfold encCiw at h
  split at h
  · rename_i a imm
    cases ha : lookRC a with
    | error e => simp [ha, bind, Except.bind] at h
    | ok r =>
    simp only [ha, bind, Except.bind] at h
    obtain ⟨rd, hrd, h8, h15, hr8⟩ := lookupRegisterC_some (lookRC_ok.mp ha)
    subst hr8
    rw [ofOpt_ok, ciwTypeN_eq _ _ _ _ _ (by omega) hop] at h
    split at h
    · simp at h
    · split at h
      · simp at h
      · split at h
        · simp at h
        · rename_i hr he hc
          simp only [Option.some.injEq] at h
          generalize hu : (imm / 4 % 256).toNat = u at h
          have hub : u < 256 := by omega
          obtain ⟨s0, s1, s2, s3, s4, s5, s6, s7⟩ :=
            slotsCIW op (rd - 8) (u / 2 % 2) (u % 2) (u / 16 % 16) (u / 4 % 4) f3 hop (by omega) (by omega)
              (by omega) (by omega) (by omega) hf3
          rw [h] at s0 s1 s2 s3 s4 s5 s6 s7
          refine ⟨a, imm, rd, rfl, hrd, h8, h15, by omega, by omega, by omega, csOk_of_not hc,
            s0, s1, s2, by omega, ?_⟩
          rw [s4, s5, s6, s7, ← hu]
          exact uimm_ciw imm (by omega) (by omega)
  · simp at h

/-- c.lw -/
theorem cl_inv {op f3 : Nat} {cs : List Constraint} (hop : op < 4) (hf3 : f3 < 8) {args : List Arg}
    {w : Nat} (h : encCl op f3 cs args = .ok w) :
    ∃ a b imm rd rs1, args = [.r a, .r b, .i imm] ∧ lookupRegister a = some rd ∧
      lookupRegister b = some rs1 ∧ 8 ≤ rd ∧ rd ≤ 15 ∧ 8 ≤ rs1 ∧ rs1 ≤ 15 ∧
      0 ≤ imm ∧ imm ≤ 127 ∧ imm % 4 = 0 ∧
      csOk cs { rd := rd - 8, rs1 := rs1 - 8, imm := imm } = true ∧
      w < 65536 ∧ bits w 0 2 = op ∧ bits w 13 3 = f3 ∧ 8 + bits w 2 3 = rd ∧ 8 + bits w 7 3 = rs1 ∧
      bits w 10 3 * 8 + bit w 6 * 4 + bit w 5 * 64 = imm.toNat := by
  unfold encCl at h
  split at h
  · rename_i a b imm
    cases ha : lookRC a with
    | error e => simp [ha, bind, Except.bind] at h
    | ok r =>
    cases hb : lookRC b with
    | error e => simp [ha, hb, bind, Except.bind] at h
    | ok r' =>
    simp only [ha, hb, bind, Except.bind] at h
    obtain ⟨rd, hrd, h8, h15, hr8⟩ := lookupRegisterC_some (lookRC_ok.mp ha)
    obtain ⟨rs1, hrs1, g8, g15, gr8⟩ := lookupRegisterC_some (lookRC_ok.mp hb)
    subst hr8 gr8
    rw [ofOpt_ok, clTypeN_eq _ _ _ _ _ _ (by omega) (by omega) hop] at h
    split at h
    · simp at h
    · split at h
      · simp at h
      · split at h
        · simp at h
        · rename_i hr he hc
          simp only [Option.some.injEq] at h
          generalize hu : (imm / 4 % 32).toNat = u at h
          have hub : u < 32 := by omega
          obtain ⟨s0, s1, s2, s3, s4, s5, s6, s7⟩ :=
            slotsCL op (rd - 8) (u / 16 % 2) (u % 2) (rs1 - 8) (u / 2 % 8) f3 hop (by omega) (by omega)
              (by omega) (by omega) (by omega) hf3
          rw [h] at s0 s1 s2 s3 s4 s5 s6 s7
          refine ⟨a, b, imm, rd, rs1, rfl, hrd, hrs1, h8, h15, g8, g15, by omega, by omega, by omega,
            csOk_of_not hc, s0, s1, s2, by omega, by omega, ?_⟩
          rw [s5, s6, s7, ← hu]
          exact uimm_cl imm (by omega) (by omega)
  · simp at h

/-- c.sw -/
theorem cs_inv {op f3 : Nat} {cs : List Constraint} (hop : op < 4) (hf3 : f3 < 8) {args : List Arg}
    {w : Nat} (h : encCs op f3 cs args = .ok w) :
    ∃ a b imm rs1 rs2, args = [.r a, .r b, .i imm] ∧ lookupRegister a = some rs1 ∧
      lookupRegister b = some rs2 ∧ 8 ≤ rs1 ∧ rs1 ≤ 15 ∧ 8 ≤ rs2 ∧ rs2 ≤ 15 ∧
      0 ≤ imm ∧ imm ≤ 127 ∧ imm % 4 = 0 ∧
      csOk cs { rs1 := rs1 - 8, rs2 := rs2 - 8, imm := imm } = true ∧
      w < 65536 ∧ bits w 0 2 = op ∧ bits w 13 3 = f3 ∧ 8 + bits w 7 3 = rs1 ∧ 8 + bits w 2 3 = rs2 ∧
      bits w 10 3 * 8 + bit w 6 * 4 + bit w 5 * 64 = imm.toNat := by
  unfold encCs at h
  split at h
  · rename_i a b imm
    cases ha : lookRC a with
    | error e => simp [ha, bind, Except.bind] at h
    | ok r =>
    cases hb : lookRC b with
    | error e => simp [ha, hb, bind, Except.bind] at h
    | ok r' =>
    simp only [ha, hb, bind, Except.bind] at h
    obtain ⟨rs1, hrs1, h8, h15, hr8⟩ := lookupRegisterC_some (lookRC_ok.mp ha)
    obtain ⟨rs2, hrs2, g8, g15, gr8⟩ := lookupRegisterC_some (lookRC_ok.mp hb)
    subst hr8 gr8
    rw [ofOpt_ok, csTypeN_eq _ _ _ _ _ _ (by omega) (by omega) hop] at h
    split at h
    · simp at h
    · split at h
      · simp at h
      · split at h
        · simp at h
        · rename_i hr he hc
          simp only [Option.some.injEq] at h
          generalize hu : (imm / 4 % 32).toNat = u at h
          have hub : u < 32 := by omega
          obtain ⟨s0, s1, s2, s3, s4, s5, s6, s7⟩ :=
            slotsCL op (rs2 - 8) (u / 16 % 2) (u % 2) (rs1 - 8) (u / 2 % 8) f3 hop (by omega) (by omega)
              (by omega) (by omega) (by omega) hf3
          rw [h] at s0 s1 s2 s3 s4 s5 s6 s7
          refine ⟨a, b, imm, rs1, rs2, rfl, hrs1, hrs2, h8, h15, g8, g15, by omega, by omega, by omega,
            csOk_of_not hc, s0, s1, s2, by omega, by omega, ?_⟩
          rw [s5, s6, s7, ← hu]
          exact uimm_cl imm (by omega) (by omega)
  · simp at h

/-- c.sub / c.xor / c.or / c.and -/
theorem ca_inv {op f2 f6 : Nat} {cs : List Constraint} (hop : op < 4) (hf2 : f2 < 4) (hf6 : f6 < 64)
    {args : List Arg} {w : Nat} (h : encCa op f2 f6 cs args = .ok w) :
    ∃ a b rd rs2, args = [.r a, .r b] ∧ lookupRegister a = some rd ∧ lookupRegister b = some rs2 ∧
      8 ≤ rd ∧ rd ≤ 15 ∧ 8 ≤ rs2 ∧ rs2 ≤ 15 ∧
      csOk cs { rdRs1 := rd - 8, rs2 := rs2 - 8 } = true ∧
      w < 65536 ∧ bits w 0 2 = op ∧ bits w 13 3 = f6 / 8 ∧ bits w 10 2 = f6 % 4 ∧
      bit w 12 = f6 / 4 % 2 ∧ bits w 5 2 = f2 ∧ 8 + bits w 7 3 = rd ∧ 8 + bits w 2 3 = rs2 := by
  unfold encCa at h
  split at h
  · rename_i a b
    cases ha : lookRC a with
    | error e => simp [ha, bind, Except.bind] at h
    | ok r =>
    cases hb : lookRC b with
    | error e => simp [ha, hb, bind, Except.bind] at h
    | ok r' =>
    simp only [ha, hb, bind, Except.bind] at h
    obtain ⟨rd, hrd, h8, h15, hr8⟩ := lookupRegisterC_some (lookRC_ok.mp ha)
    obtain ⟨rs2, hrs2, g8, g15, gr8⟩ := lookupRegisterC_some (lookRC_ok.mp hb)
    subst hr8 gr8
    rw [ofOpt_ok, caTypeN_eq _ _ _ _ _ _ (by omega) (by omega) hop hf2] at h
    split at h
    · simp at h
    · rename_i hc
      simp only [Option.some.injEq] at h
      obtain ⟨s0, s1, s2, s3, s4, s5, s6, s7⟩ :=
        slotsCA op (rs2 - 8) f2 (rd - 8) f6 hop (by omega) hf2 (by omega) hf6
      rw [h] at s0 s1 s2 s3 s4 s5 s6 s7
      exact ⟨a, b, rd, rs2, rfl, hrd, hrs2, h8, h15, g8, g15, csOk_of_not hc, s0, s1, s2, s3, s4, s5,
        by omega, by omega⟩
  · simp at h

/-- c.beqz / c.bnez -/
theorem cb_inv {op f3 : Nat} {cs : List Constraint} (hop : op < 4) (hf3 : f3 < 8) {args : List Arg}
    {w : Nat} (h : encCb op f3 cs args = .ok w) :
    ∃ a imm rs1, args = [.r a, .i imm] ∧ lookupRegister a = some rs1 ∧ 8 ≤ rs1 ∧ rs1 ≤ 15 ∧
      -256 ≤ imm ∧ imm ≤ 255 ∧ imm % 2 = 0 ∧ csOk cs { rs1 := rs1 - 8, imm := imm } = true ∧
      w < 65536 ∧ bits w 0 2 = op ∧ bits w 13 3 = f3 ∧ 8 + bits w 7 3 = rs1 ∧
      sext 9 (bit w 12 * 256 + bits w 10 2 * 8 + bits w 5 2 * 64 + bits w 3 2 * 2 + bit w 2 * 32)
        = imm := by
  unfold encCb at h
  split at h
  · rename_i a imm
    cases ha : lookRC a with
    | error e => simp [ha, bind, Except.bind] at h
    | ok r =>
    simp only [ha, bind, Except.bind] at h
    obtain ⟨rs1, hrs1, h8, h15, hr8⟩ := lookupRegisterC_some (lookRC_ok.mp ha)
    subst hr8
    rw [ofOpt_ok, cbTypeN_eq _ _ _ _ _ (by omega) hop] at h
    split at h
    · simp at h
    · split at h
      · simp at h
      · split at h
        · simp at h
        · rename_i hr he hc
          simp only [Option.some.injEq] at h
          generalize hu : (imm / 2 % 256).toNat = u at h
          have hub : u < 256 := by omega
          obtain ⟨s0, s1, s2, s3, s4, s5, s6, s7, s8⟩ :=
            slotsCB op (u / 16 % 2) (u % 4) (u / 32 % 4) (rs1 - 8) (u / 4 % 4) (u / 128 % 2) f3 hop
              (by omega) (by omega) (by omega) (by omega) (by omega) (by omega) hf3
          rw [h] at s0 s1 s2 s3 s4 s5 s6 s7 s8
          refine ⟨a, imm, rs1, rfl, hrs1, h8, h15, by omega, by omega, by omega, csOk_of_not hc,
            s0, s1, s2, by omega, ?_⟩
          rw [s4, s5, s6, s7, s8, ← hu]
          exact sext9_cb imm (by omega) (by omega)
  · simp at h

/-- c.srli / c.srai / c.andi -/
theorem cbi_inv {op f2 f3 : Nat} {cs : List Constraint} (hop : op < 4) (hf2 : f2 < 4) (hf3 : f3 < 8)
    {args : List Arg} {w : Nat} (h : encCbi op f2 f3 cs args = .ok w) :
    ∃ a imm rd, args = [.r a, .i imm] ∧ lookupRegister a = some rd ∧ 8 ≤ rd ∧ rd ≤ 15 ∧
      -32 ≤ imm ∧ imm ≤ 31 ∧ csOk cs { rdRs1 := rd - 8, imm := imm } = true ∧
      w < 65536 ∧ bits w 0 2 = op ∧ bits w 13 3 = f3 ∧ 8 + bits w 7 3 = rd ∧ bits w 10 2 = f2 ∧
      bit w 12 = (imm % 64).toNat / 32 % 2 ∧ bit w 12 * 32 + bits w 2 5 = (imm % 64).toNat ∧
      sext 6 (bit w 12 * 32 + bits w 2 5) = imm := by
  unfold encCbi at h
  split at h
  · rename_i a imm
    cases ha : lookRC a with
    | error e => simp [ha, bind, Except.bind] at h
    | ok r =>
    simp only [ha, bind, Except.bind] at h
    obtain ⟨rd, hrd, h8, h15, hr8⟩ := lookupRegisterC_some (lookRC_ok.mp ha)
    subst hr8
    rw [ofOpt_ok, cbiTypeN_eq _ _ _ _ _ _ (by omega) hop hf2] at h
    split at h
    · simp at h
    · split at h
      · simp at h
      · rename_i hr hc
        simp only [Option.some.injEq] at h
        generalize hu : (imm % 64).toNat = u at h
        have hub : u < 64 := by omega
        obtain ⟨s0, s1, s2, s3, s4, s5, s6⟩ :=
          slotsCBI op (u % 32) (rd - 8) f2 (u / 32 % 2) f3 hop (by omega) (by omega) hf2 (by omega) hf3
        rw [h] at s0 s1 s2 s3 s4 s5 s6
        have hf : bit w 12 * 32 + bits w 2 5 = u := by rw [s5, s6]; exact ci_field u hub
        subst hu
        refine ⟨a, imm, rd, rfl, hrd, h8, h15, by omega, by omega, csOk_of_not hc, s0, s1, s2, by omega,
          s4, s5, hf, ?_⟩
        rw [hf]; exact sext6 imm (by omega)
  · simp at h

/-- c.j / c.jal -/
theorem cj_inv {op f3 : Nat} {cs : List Constraint} (hop : op < 4) (hf3 : f3 < 8) {args : List Arg}
    {w : Nat} (h : encCj op f3 cs args = .ok w) :
    ∃ imm, args = [.i imm] ∧ -2048 ≤ imm ∧ imm ≤ 2047 ∧ imm % 2 = 0 ∧ csOk cs { imm := imm } = true ∧
      w < 65536 ∧ bits w 0 2 = op ∧ bits w 13 3 = f3 ∧
      sext 12 (bit w 12 * 2048 + bit w 11 * 16 + bits w 9 2 * 256 + bit w 8 * 1024 + bit w 7 * 64
               + bit w 6 * 128 + bits w 3 3 * 2 + bit w 2 * 32) = imm := by
  unfold encCj at h
  split at h
  · rename_i imm
    rw [ofOpt_ok, cjTypeN_eq _ _ _ _ hop] at h
    split at h
    · simp at h
    · split at h
      · simp at h
      · split at h
        · simp at h
        · rename_i hr he hc
          -- every `omega` runs before `h` becomes an arithmetic fact about the packed halfword
          have r0 : -2048 ≤ imm ∧ imm ≤ 2047 := by omega
          have r1 : imm % 2 = 0 := by omega
          generalize hu : (imm / 2 % 2048).toNat = u at h
          have hub : u < 2048 := by omega
          obtain ⟨s0, s1, s2, s3, s4, s5, s6, s7, s8, s9, s10⟩ :=
            slotsCJ op (u / 16 % 2) (u % 8) (u / 64 % 2) (u / 32 % 2) (u / 512 % 2) (u / 128 % 4)
              (u / 8 % 2) (u / 1024 % 2) f3 hop (by omega) (by omega) (by omega) (by omega) (by omega)
              (by omega) (by omega) (by omega) hf3
          simp only [Option.some.injEq] at h
          rw [h] at s0 s1 s2 s3 s4 s5 s6 s7 s8 s9 s10
          refine ⟨imm, rfl, r0.1, r0.2, r1, csOk_of_not hc, s0, s1, s2, ?_⟩
          rw [s3, s4, s5, s6, s7, s8, s9, s10, ← hu]
          exact sext12_cj imm r0 r1
  · simp at h

end BB.Lemmas
