/-
  BB.Lemmas.CompressPreds — the predicates of transform_compressible as arithmetic.

  `Pred.holds ins ev pr`   : what predicate `pr` says of instruction `ins`, in terms of the looked-up
                             register NUMBERS and the evaluated immediate (`ev`: evaluation of an
                             immediate expression at the decision's environment and position).
  `pred_eval_true_iff`, `allPreds_true_iff` : `allPreds … = .ok true` ⇔ every predicate `holds`.
  `Compresses ev cf i`     : the compressed form `cf` resolves (under `ev`) to arguments the 16-bit
                             encoder's legal set contains, naming an RVC instruction that executes
                             like `i` (up to the pc step).
  `legal_of_intent16`      : operands in `legalOf16` name a `CInstr` that is `legal`.
-/
import BB.Lemmas.ExecDenote
import BB.Lemmas.ExecBasic
import BB.Spec.Compressible
namespace BB.Lemmas
open BB BB.Spec
open BB.Props.C01 (denote32 denoteReg denoteInt)
open BB.Props.C02 (denote16 rowOf mnOf text_fst)

/-- the looked-up number of a register field (`none`: no such field, or not a register) -/
def regNum (ins : Instr) (f : Fld) : Option Nat := (ins.fld f).bind lookupRegister

/-- the evaluated immediate (`none`: the class has no immediate, or evaluation fails) -/
def immVal (ins : Instr) (ev : Imm → Option Int) : Option Int := ins.imm?.bind ev

/-- what a predicate of the `criteria` table says, as arithmetic on register numbers and the
    immediate's value -/
def _root_.BB.Pred.holds (ins : Instr) (ev : Imm → Option Int) : Pred → Prop
  | .nameEq s => ins.name = s
  | .regEq f v => ∃ r, regNum ins f = some r ∧ r = v
  | .regNe f v => ∃ r, regNum ins f = some r ∧ r ≠ v
  | .regBetween f lo hi => ∃ r, regNum ins f = some r ∧ lo ≤ r ∧ r ≤ hi
  | .regsMatch a b => ∃ ra rb, regNum ins a = some ra ∧ regNum ins b = some rb ∧ ra = rb
  | .immEq v => ∃ i, immVal ins ev = some i ∧ i = v
  | .immNe v => ∃ i, immVal ins ev = some i ∧ i ≠ v
  | .immDiv v => ∃ i, immVal ins ev = some i ∧ i % v = 0
  | .immBetween lo hi => ∃ i, immVal ins ev = some i ∧ lo ≤ i ∧ i ≤ hi

/-- evaluation of immediates by the model at a given environment and position -/
def evalAt (H : Hooks) (env : String → Option Int) (line : Line) (p : Int) : Imm → Option Int :=
  fun imm => (imm.eval H env line p).toOption

theorem toOption_eq_some {ε α} {x : Except ε α} {a : α} : x.toOption = some a ↔ x = .ok a := by
  cases x <;> simp [Except.toOption]

theorem regOf_ok_iff {line : Line} {ins : Instr} {f : Fld} {n : Nat} :
    regOf line ins f = .ok n ↔ regNum ins f = some n := by
  unfold regOf regNum
  cases ins.fld f with
  | none => simp
  | some r =>
    simp only [Option.bind_some]
    cases lookupRegister r <;> simp

theorem immOf_ok_iff {H : Hooks} {env} {line : Line} {ins : Instr} {p : Int} {v : Int} :
    immOf H env line ins p = .ok v ↔ immVal ins (evalAt H env line p) = some v := by
  unfold immOf immVal
  cases ins.imm? with
  | none => simp
  | some imm => simp only [Option.bind_some, evalAt, toOption_eq_some]

theorem bind_ok_true_iff {ε α} {x : Except ε α} {f : α → Bool} :
    (x >>= fun a => (pure (f a) : Except ε Bool)) = .ok true ↔ ∃ a, x = .ok a ∧ f a = true := by
  cases x <;> simp [bind, Except.bind, pure, Except.pure]

/-- one predicate evaluates to `True` exactly when it `holds` -/
theorem pred_eval_true_iff (H : Hooks) (env) (line : Line) (ins : Instr) (p : Int) (pr : Pred) :
    pr.eval H env line ins p = .ok true ↔ pr.holds ins (evalAt H env line p) := by
  cases pr with
  | nameEq s => simp [Pred.eval, Pred.holds]
  | regEq f v =>
    simp only [Pred.eval, Pred.holds, bind_ok_true_iff, regOf_ok_iff, decide_eq_true_eq]
  | regNe f v =>
    simp only [Pred.eval, Pred.holds, bind_ok_true_iff, regOf_ok_iff, decide_eq_true_eq]
  | regBetween f lo hi =>
    simp only [Pred.eval, Pred.holds, bind_ok_true_iff, regOf_ok_iff, decide_eq_true_eq, ge_iff_le]
  | regsMatch a b =>
    simp only [Pred.eval, Pred.holds]
    constructor
    · intro h
      cases ha : regOf line ins a with
      | error e => simp [ha, bind, Except.bind] at h
      | ok ra =>
        cases hb : regOf line ins b with
        | error e => simp [ha, hb, bind, Except.bind] at h
        | ok rb =>
          simp only [ha, hb, bind, Except.bind, pure, Except.pure, Except.ok.injEq, decide_eq_true_eq] at h
          exact ⟨ra, rb, regOf_ok_iff.mp ha, regOf_ok_iff.mp hb, h⟩
    · rintro ⟨ra, rb, ha, hb, rfl⟩
      simp [regOf_ok_iff.mpr ha, regOf_ok_iff.mpr hb, bind, Except.bind, pure, Except.pure]
  | immEq v =>
    simp only [Pred.eval, Pred.holds, bind_ok_true_iff, immOf_ok_iff, decide_eq_true_eq]
  | immNe v =>
    simp only [Pred.eval, Pred.holds, bind_ok_true_iff, immOf_ok_iff, decide_eq_true_eq]
  | immDiv v =>
    simp only [Pred.eval, Pred.holds, bind_ok_true_iff, immOf_ok_iff, decide_eq_true_eq]
  | immBetween lo hi =>
    simp only [Pred.eval, Pred.holds, bind_ok_true_iff, immOf_ok_iff, decide_eq_true_eq, ge_iff_le]

/-- **`all(pred(item, position, env) for pred in preds)` is `True` exactly when every predicate
    holds of the looked-up registers and the evaluated immediate** -/
theorem allPreds_true_iff (H : Hooks) (env) (line : Line) (ins : Instr) (p : Int) (preds : List Pred) :
    allPreds H env line ins p preds = .ok true ↔ ∀ pr ∈ preds, pr.holds ins (evalAt H env line p) := by
  induction preds with
  | nil => simp [allPreds]
  | cons pr rest ih =>
    simp only [allPreds, List.mem_cons, forall_eq_or_imp]
    rw [← pred_eval_true_iff, ← ih]
    cases hb : pr.eval H env line ins p with
    | error e => simp [bind, Except.bind]
    | ok b => cases b <;> simp [bind, Except.bind, pure, Except.pure]

/-- `firstMatch` returns a criterion only if its predicates all evaluated to `True` -/
theorem firstMatch_some {H : Hooks} {env} {line : Line} {ins : Instr} {p : Int}
    {crit : List (String × List Pred)} {c : String}
    (h : firstMatch H env line ins p crit = .ok (some c)) :
    ∃ preds, (c, preds) ∈ crit ∧ allPreds H env line ins p preds = .ok true := by
  induction crit with
  | nil => simp [firstMatch] at h
  | cons e rest ih =>
    obtain ⟨name, preds⟩ := e
    simp only [firstMatch, bind, Except.bind] at h
    cases hb : allPreds H env line ins p preds with
    | error e => simp [hb] at h
    | ok b =>
      cases b with
      | true =>
        simp only [hb, if_true, pure, Except.pure, Except.ok.injEq, Option.some.injEq] at h
        subst h
        exact ⟨preds, List.mem_cons_self, hb⟩
      | false =>
        simp only [hb, Bool.false_eq_true, if_false] at h
        obtain ⟨ps, hm, ha⟩ := ih h
        exact ⟨ps, List.mem_cons_of_mem _ hm, ha⟩

/-! ### the compressed side -/

/-- the decimal literals 0 … 31 evaluate to themselves (what the rebuilt shift amount
    `Arithmetic(str(lookup_register(rs2)))` needs of the evaluator; the text front end's evaluator
    satisfies it: Props/C04 `litOK_evalArith`, from Props/C11 `lit_arith`) -/
def LitOK (ev : Imm → Option Int) : Prop := ∀ n : Nat, n < 32 → ev (.arith (toString n)) = some (n : Int)

/-- the compressed form `cf` resolves under `ev` to arguments that denote operands in the 16-bit
    encoder's legal set, naming the RVC instruction `ci`, whose execution is that of `i` with a pc
    step of 2 -/
def Compresses (ev : Imm → Option Int) (cf : Instr) (i : Instr32) : Prop :=
  ∃ rcf cm args ops ci,
    resolveWith ev cf = some rcf ∧ classOf16 rcf.name = some cm ∧ rcf.args = some args ∧
    denote16 (rowOf cm) args = some ops ∧ legalOf16 cm ops = true ∧ intentOf16 cm ops = some ci ∧
    ∀ s, execC ci s = exec i 2 s

/-- the value of `imm` does not depend on the label table or the position (constants are fixed
    after resolve_constants): literals, constant arithmetic, `%hi`/`%lo` of those -/
def ImmLabelFree (H : Hooks) (constants : Dict) (imm : Imm) : Prop :=
  ∀ (L L' : Dict) (line : Line) (p p' : Int),
    imm.eval H (chainGet constants L) line p = imm.eval H (chainGet constants L') line p'

theorem legal_text (ci : CInstr) : ci.legal = legalOf16 (mnOf ci) ci.text.2 := by
  unfold CInstr.legal legal16
  rw [text_fst, BB.Props.C02.classOf16_self]

/-- operands inside `legalOf16` name an RVC instruction that is `legal` (non-reserved, non-hint) -/
theorem legal_of_intent16 {c : CMn} {ops : List Opnd} {ci : CInstr}
    (hl : legalOf16 c ops = true) (hi : intentOf16 c ops = some ci) : ci.legal = true := by
  rw [legal_text]
  unfold legalOf16 at hl
  split at hl
  all_goals (try (simp at hl; done))
  all_goals (simp only [intentOf16, Option.some.injEq] at hi; subst hi)
  all_goals (simp only [mnOf, CInstr.text, legalOf16])
  all_goals (try (simp only [hl]; done))
  all_goals (
    simp only [Bool.and_eq_true, Bool.or_eq_true, decide_eq_true_eq, uimm, simm, multOf, isReg, isRegC,
      Int.reducePow, Nat.reduceSub, ne_eq] at hl ⊢)
  all_goals (first
    | (rename_i v
       have hv : ((v.toNat : Nat) : Int) = v := by omega
       rw [hv]; exact hl)
    | (rename_i rd v
       split <;> omega))

end BB.Lemmas
