/-
  BB.Lemmas.TrackPipeline — one compressed instruction of the list held after resolve_aligns, followed
  BACKWARDS through resolve_aligns, the second transform_compressible, resolve_register_aliases, the
  pseudo-instruction pass and the first transform_compressible to the pass that produced it, with the
  signed distance to one label followed FORWARDS (`Closer`) from the moment of the decision to the
  final tables.
-/
import BB.Lemmas.TrackLayout
import BB.Lemmas.CompressThread
import BB.Props.C03
set_option linter.unusedSimpArgs false
set_option linter.unusedVariables false
set_option linter.unusedTactic false
set_option linter.unreachableTactic false
namespace BB.Lemmas
open BB BB.Spec
open BB.Props.C03 (Stage)

/-! ### ghost and real -/

/-- `stage_walk` (Props/C03) with the ghost walk itself exposed -/
theorem stage_walk' {f : Item → Int → Dict → Except Err (List Item × Int)} (hf : BodyOK f)
    {G real : List Item} {labels : Dict} {names : List String} (st : Stage G real labels names)
    {out : List Item} {labels' : Dict} (h : walk f real 0 labels = .ok (out, labels')) :
    ∃ G', walk f G 0 labels = .ok (G', labels') ∧ Stage G' out labels' names := by
  obtain ⟨G', hw, hs⟩ := walk_strip hf G st.nonneg 0 labels out labels' (by rw [st.strip_eq]; exact h)
  obtain ⟨w1, w2, w3, w4, _⟩ := walk_layout hf G 0 labels G' labels' st.nonneg st.nodup st.agree st.low hw
  refine ⟨G', hw, hs, w4, by rw [w3]; exact st.nodup, by rw [w3]; exact st.names_eq, w1, ?_⟩
  intro ℓ v hℓ hv
  rw [w3] at hℓ
  rw [w2 ℓ hℓ] at hv
  exact st.low ℓ v hℓ hv

theorem sizeSum_strip (G : List Item) : sizeSum (strip G) = sizeSum G := by
  induction G with
  | nil => rfl
  | cons it rest ih =>
    by_cases hl : ∃ l n, it = .label l n
    · obtain ⟨l, n, rfl⟩ := hl
      rw [strip_label, sizeSum_cons, sizeD_label, ih]; omega
    · have hnl : ∀ l n, it ≠ .label l n := fun l n e => hl ⟨l, n, e⟩
      rw [strip_cons_of_not_label hnl, sizeSum_cons, sizeSum_cons, ih]

/-- the i-th item of the marker-free list, located in the ghost list -/
theorem strip_split (G : List Item) : ∀ (i : Nat) (hi : i < (strip G).length),
    ∃ A B, G = A ++ (strip G)[i] :: B ∧ strip A = (strip G).take i := by
  induction G with
  | nil => intro i hi; simp [strip] at hi
  | cons it rest ih =>
    intro i hi
    by_cases hl : ∃ l n, it = .label l n
    · obtain ⟨l, n, rfl⟩ := hl
      simp only [strip_label] at hi ⊢
      obtain ⟨A, B, e1, e2⟩ := ih i hi
      exact ⟨.label l n :: A, B, by rw [List.cons_append, ← e1], by rw [strip_label]; exact e2⟩
    · have hnl : ∀ l n, it ≠ .label l n := fun l n e => hl ⟨l, n, e⟩
      simp only [strip_cons_of_not_label hnl] at hi ⊢
      cases i with
      | zero => exact ⟨[], rest, by simp, by simp [strip]⟩
      | succ j =>
        obtain ⟨A, B, e1, e2⟩ := ih j (by simpa using hi)
        refine ⟨it :: A, B, ?_, ?_⟩
        · simp only [List.getElem_cons_succ, List.cons_append]; rw [← e1]
        · rw [strip_cons_of_not_label hnl, List.take_succ_cons, e2]

theorem not_label_of_strip {G : List Item} {x : Item} (h : x ∈ strip G) : ∀ l n, x ≠ .label l n := by
  intro l n e
  subst e
  simp [strip, Item.isLabel] at h

theorem singleton_eq_append_cons {α : Type} {a b : α} {P S : List α} (h : [a] = P ++ b :: S) :
    P = [] ∧ S = [] ∧ a = b := by
  cases P with
  | nil => simp only [List.nil_append, List.cons.injEq] at h; exact ⟨rfl, h.2.symm, h.1⟩
  | cons p P => simp at h

/-! ### one pass, read at one tracked output item that some input item turned into ALONE -/

/-- what one pass tells about a tracked item `x'` of its output `A' ++ x' :: B'`: the input item `y`,
    the call `f y (sizeSum A') Lm = [x']`, the table `Lm` = layout of the hybrid list, and how every
    distance moves: input list → hybrid list (what the body saw) → output list -/
theorem tracked_step {f : Item → Int → Dict → Except Err (List Item × Int)} (hf : BodyOK f)
    {G G' : List Item} {labels labels' : Dict} {names : List String} {real : List Item}
    (st : Stage G real labels names) (hw : walk f G 0 labels = .ok (G', labels'))
    {A' B' : List Item} {x' : Item} (hG' : G' = A' ++ x' :: B') (hx' : ∀ l n, x' ≠ .label l n)
    (hpos : 0 < x'.sizeD)
    (hone : ∀ y q L P S n, (∀ l m, y ≠ .label l m) → f y q L = .ok (P ++ x' :: S, n) →
      P = [] ∧ S = [] ∧ x'.sizeD ≤ y.sizeD) :
    ∃ (A : List Item) (y : Item) (B : List Item) (n : Int) (Lm : Dict),
      G = A ++ y :: B ∧ (∀ l n, y ≠ .label l n) ∧ f y (sizeSum A') Lm = .ok ([x'], n) ∧
      labelNames A' = labelNames A ∧
      (∀ ℓ u, labelPos (A' ++ y :: B) 0 ℓ = some u → Lm.get ℓ = some u) ∧
      (∀ ℓ, ℓ ∉ labelNames G → Lm.get ℓ = labels.get ℓ) ∧
      (∀ ℓ v, dist A y B ℓ = some v →
        ∃ vh v', dist A' y B ℓ = some vh ∧ dist A' x' B' ℓ = some v' ∧ Closer v vh ∧ Closer vh v') := by
  obtain ⟨A, y, B, A0, P, S, n, Lm, B0, e1, e2, e3, e4, e5, e6, e7, e8, e9, e10⟩ :=
    walk_track hf G 0 labels G' labels' st.nonneg st.nodup st.agree st.low hw A' x' B' hG' hx'
  obtain ⟨rfl, rfl, hsz⟩ := hone y _ Lm P S n e2 e3
  simp only [List.append_nil] at e4
  simp only [List.nil_append] at e5 e3
  subst e4 e5
  simp only [Int.zero_add] at e3 e8
  have hnnG : NonNeg (A ++ y :: B) := by rw [← e1]; exact st.nonneg
  have hnnA : NonNeg A := fun x hx => hnnG x (List.mem_append_left _ hx)
  have hnnB : NonNeg B := fun x hx => hnnG x (List.mem_append_right _ (List.mem_cons_of_mem _ hx))
  have hypos : 0 < y.sizeD := by omega
  refine ⟨A, y, B, n, Lm, e1, e2, e3, e6.labelNames_eq, ?_, e10, ?_⟩
  · intro ℓ u hu
    by_cases hm : ℓ ∈ labelNames A'
    · rw [labelPos_append_mem _ _ _ _ hm] at hu
      exact e9 ℓ u hu
    · rw [labelPos_append_not_mem _ _ _ _ hm, Int.zero_add] at hu
      exact e8 ℓ u hu
  · intro ℓ v hv
    obtain ⟨vh, h1, c1⟩ := dist_shrink e6 (Shrinks.refl hnnB) e2 e2 hypos (Int.le_refl _) hv
    obtain ⟨v', h2, c2⟩ := dist_shrink (Shrinks.refl e6.nonneg) e7 e2 hx' hpos hsz h1
    exact ⟨vh, v', h1, h2, c1, c2⟩

/-! ### what each loop body can turn INTO a compressed instruction -/

theorem instr_sizeD (line : Line) (ins : Instr) :
    (Item.instr line ins).sizeD = if ins.isCompressed then 2 else 4 := by
  simp [Item.sizeD, Item.size?, Instr.size]

theorem alignBody_into_instr {y : Item} {q : Int} {L : Dict} {R : List Item} {n : Int} {line : Line} {cf : Instr}
    (hy : ∀ l m, y ≠ .label l m) (h : alignBody y q L = .ok (R, n)) (hm : Item.instr line cf ∈ R) :
    y = .instr line cf ∧ R = [.instr line cf] := by
  cases y with
  | align l0 a =>
    exfalso
    simp only [alignBody] at h
    split at h
    · simp at h
    · split at h
      · simp only [pure, Except.pure, Except.ok.injEq, Prod.mk.injEq] at h
        rw [← h.1] at hm; simp at hm
      · split at h
        · simp at h
        · simp only [pure, Except.pure, Except.ok.injEq, Prod.mk.injEq] at h
          rw [← h.1] at hm; simp at hm
  | label l m => exact absurd rfl (hy l m)
  | _ =>
    obtain ⟨rfl, _⟩ := keepItem_ok (by simpa [alignBody] using h)
    simp only [List.mem_singleton] at hm
    exact ⟨hm.symm, by rw [hm]⟩

theorem pseudoBody_into_compressed {H : Hooks} {constants : Dict} {y : Item} {q : Int} {L : Dict}
    {R : List Item} {n : Int} {line : Line} {cf : Instr} (hc : cf.isCompressed = true)
    (hy : ∀ l m, y ≠ .label l m) (h : pseudoBody H constants y q L = .ok (R, n))
    (hm : Item.instr line cf ∈ R) : y = .instr line cf ∧ R = [.instr line cf] := by
  cases y with
  | pseudo l0 name args =>
    exfalso
    simp only [pseudoBody, bind, Except.bind] at h
    cases hres : expandPseudo H (chainGet constants L) l0 name args q with
    | error e => simp [hres] at h
    | ok res =>
      obtain ⟨instrs, short⟩ := res
      simp only [hres, pure, Except.pure, Except.ok.injEq, Prod.mk.injEq] at h
      rw [← h.1] at hm
      obtain ⟨i0, hi0, he⟩ := List.mem_map.mp hm
      simp only [Item.instr.injEq] at he
      obtain ⟨_, rfl⟩ := he
      unfold expandPseudo at hres
      cases hk : pseudoKind name with
      | none => simp [hk] at hres
      | some k =>
        simp only [hk] at hres
        have := (expandKind_shape hres).1 i0 hi0
        rw [this] at hc; cases hc
  | label l m => exact absurd rfl (hy l m)
  | _ =>
    obtain ⟨rfl, _⟩ := keepItem_ok (by simpa [pseudoBody] using h)
    simp only [List.mem_singleton] at hm
    exact ⟨hm.symm, by rw [hm]⟩

/-- the compression body yields the compressed instruction `cf` either by keeping it, or by a decision
    made at THIS position and label table -/
theorem compressBody_into_compressed {H : Hooks} {constants : Dict} {y : Item} {q : Int} {L : Dict}
    {R : List Item} {n : Int} {line : Line} {cf : Instr} (hc : cf.isCompressed = true)
    (hy : ∀ l m, y ≠ .label l m) (h : compressBody H constants y q L = .ok (R, n))
    (hm : Item.instr line cf ∈ R) :
    R = [.instr line cf] ∧
    (y = .instr line cf ∨
     ∃ ins c preds, y = .instr line ins ∧ ins.isCompressed = false ∧ ins.isAuipcJump = false ∧
       (c, preds) ∈ criteria ∧ allPreds H (chainGet constants L) line ins q preds = .ok true ∧
       compressedForm c ins = some cf) := by
  cases y with
  | instr l0 ins =>
    rcases BB.Props.C04.compressBody_instr H constants l0 ins q L R n h with ⟨rfl, _⟩ | ⟨c, preds, cf', haj, hmem, _, hall, hcf, rfl, _⟩
    · simp only [List.mem_singleton] at hm
      exact ⟨by rw [hm], Or.inl hm.symm⟩
    · simp only [List.mem_singleton, Item.instr.injEq] at hm
      obtain ⟨rfl, rfl⟩ := hm
      exact ⟨rfl, Or.inr ⟨ins, c, preds, rfl, (compressedForm_sizes hcf).1, haj, hmem, hall, hcf⟩⟩
  | label l m => exact absurd rfl (hy l m)
  | _ =>
    obtain ⟨rfl, _⟩ := BB.Props.C04.data_unchanged H constants _ q L R n (by intro l i; simp) h
    simp only [List.mem_singleton] at hm
    exact ⟨by rw [hm], Or.inl hm.symm⟩

/-! ### helpers for the chain -/

theorem dist_exists {A : List Item} {y : Item} {B : List Item} {ℓ : String} (h : ℓ ∈ labelNames (A ++ y :: B)) :
    ∃ v, dist A y B ℓ = some v := by
  unfold dist
  have := (labelPos_isSome_iff (A ++ y :: B) 0 ℓ).mpr h
  cases hu : labelPos (A ++ y :: B) 0 ℓ with
  | none => simp [hu] at this
  | some u => exact ⟨_, rfl⟩

theorem dist_mem {A : List Item} {y : Item} {B : List Item} {ℓ : String} {v : Int} (h : dist A y B ℓ = some v) :
    ℓ ∈ labelNames (A ++ y :: B) := by
  unfold dist at h
  apply (labelPos_isSome_iff (A ++ y :: B) 0 ℓ).mp
  cases hu : labelPos (A ++ y :: B) 0 ℓ with
  | none => simp [hu] at h
  | some u => rfl

theorem sizeSum_aliases (A : List Item) (constants : Dict) :
    sizeSum (resolveRegisterAliases A constants) = sizeSum A := by
  induction A with
  | nil => rfl
  | cons it rest ih =>
    have : resolveRegisterAliases (it :: rest) constants
        = (match it with
            | .instr line ins => Item.instr line (ins.mapRegs (aliasReg constants))
            | other => other) :: resolveRegisterAliases rest constants := rfl
    rw [this, sizeSum_cons, sizeSum_cons, ih]
    cases it <;> first | rfl | simp [Item.sizeD, Item.size?, Instr.size, mapRegs_isCompressed]

/-- the forward half of one pass for a tracked item: every distance at the input split is `Closer` to
    the hybrid one, which is `Closer` to the output one -/
def StepCloser (A : List Item) (y : Item) (B A' : List Item) (x' : Item) (B' : List Item) : Prop :=
  ∀ ℓ v, dist A y B ℓ = some v →
    ∃ vh v', dist A' y B ℓ = some vh ∧ dist A' x' B' ℓ = some v' ∧ Closer v vh ∧ Closer vh v'

/-- "from this split on, every distance only comes closer, up to the final split" -/
def ToFinal (A : List Item) (y : Item) (B A7 : List Item) (x : Item) (B7 : List Item) : Prop :=
  ∀ ℓ v, dist A y B ℓ = some v → ∃ w, dist A7 x B7 ℓ = some w ∧ Closer v w

theorem ToFinal.step {A B A' B' A7 B7 : List Item} {y x' x : Item} (hs : StepCloser A y B A' x' B')
    (hf : ToFinal A' x' B' A7 x B7) : ToFinal A y B A7 x B7 := by
  intro ℓ v hv
  obtain ⟨vh, v', _, h2, c1, c2⟩ := hs ℓ v hv
  obtain ⟨w, h3, c3⟩ := hf ℓ v' h2
  exact ⟨w, h3, (c1.trans c2).trans c3⟩

/-- from the hybrid list (what the body saw) to the final split -/
theorem ToFinal.hybrid {A B A' B' A7 B7 : List Item} {y x' x : Item} (hs : StepCloser A y B A' x' B')
    (hf : ToFinal A' x' B' A7 x B7) (hn : labelNames (A' ++ y :: B) = labelNames (A ++ y :: B)) :
    ToFinal A' y B A7 x B7 := by
  intro ℓ vh hvh
  have hm := dist_mem hvh
  rw [hn] at hm
  obtain ⟨v, hv⟩ := dist_exists hm
  obtain ⟨vh', v', h1, h2, _, c2⟩ := hs ℓ v hv
  rw [hvh] at h1
  cases h1
  obtain ⟨w, h3, c3⟩ := hf ℓ v' h2
  exact ⟨w, h3, c2.trans c3⟩

theorem map_split {α β : Type} {g : α → β} {l : List α} {A : List β} {x : β} {B : List β}
    (h : l.map g = A ++ x :: B) : ∃ A0 x0 B0, l = A0 ++ x0 :: B0 ∧ A0.map g = A ∧ g x0 = x ∧ B0.map g = B := by
  induction l generalizing A with
  | nil => simp at h
  | cons a l ih =>
    cases A with
    | nil =>
      simp only [List.map_cons, List.nil_append, List.cons.injEq] at h
      exact ⟨[], a, l, rfl, rfl, h.1, h.2⟩
    | cons b A =>
      simp only [List.map_cons, List.cons_append, List.cons.injEq] at h
      obtain ⟨A0, x0, B0, e1, e2, e3, e4⟩ := ih h.2
      exact ⟨a :: A0, x0, B0, by rw [e1]; rfl, by simp [h.1, e2], e3, e4⟩

/-- a compression decision that produced `cf`, with the label table `L` and position `p` it was made at -/
def DecidedAt (H : Hooks) (constants : Dict) (line : Line) (cf ins : Instr) (c : String) (preds : List Pred)
    (p : Int) (L : Dict) : Prop :=
  ins.isCompressed = false ∧ ins.isAuipcJump = false ∧ (c, preds) ∈ criteria ∧
  allPreds H (chainGet constants L) line ins p preds = .ok true ∧ compressedForm c ins = some cf

/-- **where a compressed instruction of the final list comes from, with distances.**  Item `i` of the
    list held after resolve_aligns is the compressed instruction `cf`.  Either it stood compressed in
    the aliased source, or one of the two compression passes decided it at position `p` against the
    table `L`; and then for EVERY label `ref` of the program, its signed distance `vdec` from the
    instruction at decision time (`L[ref] − p`) and its final one `dfin` (`labels7[ref]` − the byte
    offset of item `i`) satisfy `Closer vdec dfin`: same side, not farther. -/
theorem compressed_origin_dist (H : Hooks) (constants : Dict)
    {items items1 items2 items3 items4 items6 items7 : List Item}
    {labels2 labels3 labels4 labels6 labels7 : Dict} (hnn : NonNeg items)
    (h1 : resolveConstants H items [] = .ok (items1, constants))
    (h2 : resolveLabels items1 [] = .ok (items2, labels2))
    (h3 : maybeCompress H true (resolveRegisterAliases items2 constants) constants labels2 = .ok (items3, labels3))
    (h4 : transformPseudo H items3 constants labels3 = .ok (items4, labels4))
    (h6 : maybeCompress H true (resolveRegisterAliases items4 constants) constants labels4 = .ok (items6, labels6))
    (h7 : resolveAligns items6 labels6 = .ok (items7, labels7))
    (i : Nat) (hi : i < items7.length) {line : Line} {cf : Instr} (hit : items7[i] = .instr line cf)
    (hc : cf.isCompressed = true) :
    Item.instr line cf ∈ resolveRegisterAliases items2 constants ∨
    ∃ ins c preds p L, DecidedAt H constants line cf ins c preds p L ∧
      ∀ ref ∈ labelNames items, ∃ vdec dfin, L.get ref = some (vdec + p) ∧
        labels7.get ref = some (dfin + sizeSum (items7.take i)) ∧ Closer vdec dfin := by
  simp only [maybeCompress, if_true, transformCompressible] at h3 h6
  unfold transformPseudo at h4
  unfold resolveAligns at h7
  obtain ⟨c1, c2, _⟩ := BB.Props.C03.resolveConstants_spec H items [] items1 constants h1
  obtain ⟨l1, l2, _, l4, l5⟩ := resolveLabelsAux_spec items1 0 [] [] items2 labels2 h2
  have st0 : Stage items1 items2 labels2 (labelNames items) := by
    refine ⟨l1.symm, c2 hnn, l2, c1, l4, ?_⟩
    intro ℓ v hℓ hv
    rw [l5 ℓ hℓ] at hv
    simp [Dict.get, List.lookup] at hv
  have st1 := BB.Props.C03.stage_aliases st0 constants
  obtain ⟨G3, hw3, st3⟩ := stage_walk' (compressBody_ok H constants) st1 h3
  obtain ⟨G4, hw4, st4⟩ := stage_walk' (pseudoBody_ok H constants) st3 h4
  have st5 := BB.Props.C03.stage_aliases st4 constants
  obtain ⟨G6, hw6, st6⟩ := stage_walk' (compressBody_ok H constants) st5 h6
  obtain ⟨G7, hw7, st7⟩ := stage_walk' alignBody_ok st6 h7
  -- locate the item in the final ghost list
  have hs7 := st7.strip_eq
  subst hs7
  obtain ⟨A7, B7, hG7, hA7⟩ := strip_split G7 i hi
  rw [hit] at hG7
  have hoff : sizeSum ((strip G7).take i) = sizeSum A7 := by rw [← hA7, sizeSum_strip]
  have hxnl : ∀ l n, Item.instr line cf ≠ .label l n := by intro l n e; cases e
  have hxsz : (Item.instr line cf).sizeD = 2 := by rw [instr_sizeD, hc]; rfl
  have hpos : 0 < (Item.instr line cf).sizeD := by omega
  have hsz4 : ∀ ins : Instr, (Item.instr line cf).sizeD ≤ (Item.instr line ins).sizeD := by
    intro ins; rw [hxsz, instr_sizeD]; split <;> omega
  -- the final distances, read from the returned table
  have hfin : ∀ ref ∈ labelNames items, ∀ w, dist A7 (.instr line cf) B7 ref = some w →
      labels7.get ref = some (w + sizeSum ((strip G7).take i)) := by
    intro ref hr w hw
    unfold dist at hw
    cases hu : labelPos (A7 ++ Item.instr line cf :: B7) 0 ref with
    | none => simp [hu] at hw
    | some u =>
      simp only [hu, Option.map_some, Option.some.injEq] at hw
      rw [← hG7] at hu
      rw [st7.agree ref u hu, hoff]; congr 1; omega
  -- reading a decision made at a hybrid list
  have finish : ∀ (A' : List Item) (y : Item) (B : List Item) (Lm : Dict),
      (∀ ℓ u, labelPos (A' ++ y :: B) 0 ℓ = some u → Lm.get ℓ = some u) →
      ToFinal A' y B A7 (.instr line cf) B7 →
      (∀ ref ∈ labelNames items, ref ∈ labelNames (A' ++ y :: B)) →
      ∀ ref ∈ labelNames items, ∃ vdec dfin, Lm.get ref = some (vdec + sizeSum A') ∧
        labels7.get ref = some (dfin + sizeSum ((strip G7).take i)) ∧ Closer vdec dfin := by
    intro A' y B Lm hyb tf hnames ref hr
    obtain ⟨vh, hvh⟩ := dist_exists (hnames ref hr)
    obtain ⟨w, hw, hcl⟩ := tf ref vh hvh
    refine ⟨vh, w, ?_, hfin ref hr w hw, hcl⟩
    unfold dist at hvh
    cases hu : labelPos (A' ++ y :: B) 0 ref with
    | none => simp [hu] at hvh
    | some u =>
      simp only [hu, Option.map_some, Option.some.injEq] at hvh
      rw [hyb ref u hu]; congr 1; omega
  -- resolve_aligns, backwards
  obtain ⟨A6, y6, B6, n7, Lm7, eG6, hy6, hcall7, _, _, _, hstep7⟩ :=
    tracked_step alignBody_ok st6 hw7 hG7 hxnl hpos (by
      intro y q L P S n hy hcall
      obtain ⟨rfl, hR⟩ := alignBody_into_instr hy hcall (List.mem_append_right _ List.mem_cons_self)
      obtain ⟨rfl, rfl, _⟩ := singleton_eq_append_cons hR.symm
      exact ⟨rfl, rfl, Int.le_refl _⟩)
  obtain ⟨rfl, _⟩ := alignBody_into_instr hy6 hcall7 List.mem_cons_self
  have tf6 : ToFinal A6 (.instr line cf) B6 A7 (.instr line cf) B7 :=
    ToFinal.step hstep7 (fun ℓ v hv => ⟨v, hv, Closer.refl v⟩)
  -- the second compression pass, backwards
  have hone_c : ∀ (cf' : Instr), cf'.isCompressed = true → ∀ y q L P S n, (∀ l m, y ≠ .label l m) →
      compressBody H constants y q L = .ok (P ++ Item.instr line cf' :: S, n) →
      P = [] ∧ S = [] ∧ (Item.instr line cf').sizeD ≤ y.sizeD := by
    intro cf' hc' y q L P S n hy hcall
    obtain ⟨hR, hor⟩ := compressBody_into_compressed hc' hy hcall (List.mem_append_right _ List.mem_cons_self)
    obtain ⟨rfl, rfl, _⟩ := singleton_eq_append_cons hR.symm
    refine ⟨rfl, rfl, ?_⟩
    rcases hor with rfl | ⟨ins, _, _, rfl, _⟩
    · exact Int.le_refl _
    · rw [instr_sizeD, instr_sizeD, hc']; simp only [if_true]; split <;> omega
  obtain ⟨A5, y5, B5, n6, Lm6, eG5, hy5, hcall6, hnA6, hyb6, _, hstep6⟩ :=
    tracked_step (compressBody_ok H constants) st5 hw6 eG6 hxnl hpos (hone_c cf hc)
  have hn5 : labelNames (A6 ++ y5 :: B5) = labelNames (A5 ++ y5 :: B5) := by
    simp only [labelNames_append, hnA6]
  obtain ⟨_, hor6⟩ := compressBody_into_compressed hc hy5 hcall6 List.mem_cons_self
  rcases hor6 with rfl | ⟨ins, c, preds, rfl, hnc, hnaj, hmem, hall, hcf⟩
  swap
  · -- decided by the second pass
    refine Or.inr ⟨ins, c, preds, sizeSum A6, Lm6, ⟨hnc, hnaj, hmem, hall, hcf⟩, ?_⟩
    refine finish A6 _ B5 Lm6 hyb6 (ToFinal.hybrid hstep6 tf6 hn5) ?_
    intro ref hr
    rw [hn5, ← eG5, st5.names_eq]; exact hr
  -- kept by the second pass: through the aliases
  have tf5 : ToFinal A5 (.instr line cf) B5 A7 (.instr line cf) B7 := ToFinal.step hstep6 tf6
  have eG5' := eG5
  unfold resolveRegisterAliases at eG5
  obtain ⟨A4, x4, B4, eG4, eA, ex, eB⟩ := map_split eG5
  obtain ⟨cf4, rfl, rfl⟩ : ∃ cf4, x4 = .instr line cf4 ∧ cf = cf4.mapRegs (aliasReg constants) := by
    cases x4 <;> simp only [Item.instr.injEq, reduceCtorEq] at ex
    obtain ⟨rfl, rfl⟩ := ex
    exact ⟨_, rfl, rfl⟩
  have hc4 : cf4.isCompressed = true := by rw [← mapRegs_isCompressed (aliasReg constants) cf4]; exact hc
  have hA54 : sizeSum A5 = sizeSum A4 := by
    rw [← eA]; exact sizeSum_aliases A4 constants
  have tf4 : ToFinal A4 (.instr line cf4) B4 A7 (.instr line (cf4.mapRegs (aliasReg constants))) B7 := by
    intro ℓ v hv
    apply tf5 ℓ v
    unfold dist at hv ⊢
    rw [← eG5', aliases_labelPos, eG4, hA54]
    exact hv
  have hx4nl : ∀ l n, Item.instr line cf4 ≠ .label l n := by intro l n e; cases e
  have hpos4 : 0 < (Item.instr line cf4).sizeD := by rw [instr_sizeD, hc4]; simp
  -- the pseudo-instruction pass, backwards
  obtain ⟨A3, y3, B3, n4, Lm4, eG3, hy3, hcall4, _, _, _, hstep4⟩ :=
    tracked_step (pseudoBody_ok H constants) st3 hw4 eG4 hx4nl hpos4 (by
      intro y q L P S n hy hcall
      obtain ⟨rfl, hR⟩ := pseudoBody_into_compressed hc4 hy hcall (List.mem_append_right _ List.mem_cons_self)
      obtain ⟨rfl, rfl, _⟩ := singleton_eq_append_cons hR.symm
      exact ⟨rfl, rfl, Int.le_refl _⟩)
  obtain ⟨rfl, _⟩ := pseudoBody_into_compressed hc4 hy3 hcall4 List.mem_cons_self
  have tf3 := ToFinal.step hstep4 tf4
  -- the first compression pass, backwards
  obtain ⟨A2, y2, B2, n3, Lm3, eG2, hy2, hcall3, hnA3, hyb3, _, hstep3⟩ :=
    tracked_step (compressBody_ok H constants) st1 hw3 eG3 hx4nl hpos4 (hone_c cf4 hc4)
  have hn2 : labelNames (A3 ++ y2 :: B2) = labelNames (A2 ++ y2 :: B2) := by
    simp only [labelNames_append, hnA3]
  have hy2mem : y2 ∈ resolveRegisterAliases items1 constants := by
    rw [eG2]; exact List.mem_append_right _ List.mem_cons_self
  obtain ⟨_, hor3⟩ := compressBody_into_compressed hc4 hy2 hcall3 List.mem_cons_self
  rcases hor3 with rfl | ⟨ins, c, preds, rfl, hnc, hnaj, hmem, hall, hcf⟩
  · -- it stood compressed in the source
    left
    obtain ⟨y0, _, rfl⟩ := mem_aliases hy2mem
    have hidem : (y0.mapRegs (aliasReg constants)).mapRegs (aliasReg constants) = y0.mapRegs (aliasReg constants) := by
      cases y0 <;> simp only [Instr.mapRegs, aliasReg_idem]
    rw [hidem, l1, ← aliases_strip]
    simp only [strip, List.mem_filter, Item.isLabel, Bool.not_false, and_true]
    exact hy2mem
  · -- decided by the first pass
    obtain ⟨y0, _, rfl⟩ := mem_aliases hy2mem
    have hfix := compressedForm_aliased hcf
    refine Or.inr ⟨_, c, preds, sizeSum A3, Lm3, ⟨hnc, hnaj, hmem, hall, by rw [hfix]; exact hcf⟩, ?_⟩
    refine finish A3 _ B2 Lm3 hyb3 (ToFinal.hybrid hstep3 tf3 hn2) ?_
    · intro ref hr
      rw [hn2, ← eG2, st1.names_eq]; exact hr

end BB.Lemmas
