/-
  BB.Lemmas.ReadSplice — structure of `read_lines` (BB.readLinesAux) over the filesystem model:
  every raw line contributes a block of `Line`s independently of the lines after it
  (`go_cons`, `go_append`), an `include` line contributes exactly the lines of the file the search
  finds (`go_include`), lines that are neither `include` nor `include_bytes` lines are read the same
  way in every file and directory (`go_plain`), and `splitLines` inverts "one line per \n".
-/
import BB.Lemmas.ReadLineMeta
namespace BB

/-- the lines of a block of raw lines `ls`, numbered from `n`, read as part of the file `path`
    whose directory is `base` (what `read_lines` appends for them) -/
abbrev linesFrom (fs : FS) (dirs : List String) (fuel : Nat) (path base : String) (n : Nat)
    (ls : List (List Char)) : Except Err (List Line) :=
  readLinesAux.go fs dirs fuel path (dirs ++ [base]) n ls

/-- sequencing two blocks: fail with the first failure, else concatenate -/
def seqLines (a b : Except Err (List Line)) : Except Err (List Line) :=
  a.bind (fun x => b.bind (fun y => .ok (x ++ y)))

@[simp] theorem seqLines_error (e : Err) (b) : seqLines (.error e) b = .error e := rfl
@[simp] theorem seqLines_ok_ok (x y : List Line) : seqLines (.ok x) (.ok y) = .ok (x ++ y) := rfl
@[simp] theorem seqLines_ok_error (x : List Line) (e : Err) : seqLines (.ok x) (.error e) = .error e := rfl
@[simp] theorem seqLines_nil (b : Except Err (List Line)) : seqLines (.ok []) b = b := by
  cases b <;> rfl
@[simp] theorem seqLines_nil_right (a : Except Err (List Line)) : seqLines a (.ok []) = a := by
  cases a <;> simp [seqLines, Except.bind]

theorem seqLines_assoc (a b c : Except Err (List Line)) :
    seqLines (seqLines a b) c = seqLines a (seqLines b c) := by
  cases a <;> cases b <;> cases c <;> simp [seqLines, Except.bind]

/-- the body of the loop of `read_lines` for one raw line, with the rest of the loop as `k` -/
def stepK (fs : FS) (includeDirs : List String) (fuel : Nat) (path : String) (currentDirs : List String)
    (n : Nat) (raw : List Char) (k : Except Err (List Line)) : Except Err (List Line) :=
  if (stripWs raw).isEmpty then k
  else
    let line : Line := { file := path, number := n, contents := String.ofList raw }
    let low := lowerL raw
    if ("include ".toList).isPrefixOf low then
      match splitWs (stripComment raw) with
      | [_, rel] =>
        let rel := String.ofList (stripQuotes rel)
        if !(pathOk rel) then .error (.unsupported "include path form") else
        match lookupPath fs rel currentDirs with
        | none => .error (.asm line)
        | some incPath =>
          if fs.isDirAt incPath then .error (.internal "IsADirectoryError") else
          match fs.readAt incPath with
          | none => .error (.internal "FileNotFoundError")
          | some bs =>
            match bytesToText bs with
            | none => .error (.unsupported "non-ASCII source")
            | some src => do
              let inc ← readLinesAux fs includeDirs fuel incPath (baseOf incPath) src
              let more ← k
              pure (inc ++ more)
      | _ => .error (.asm line)
    else if ("include_bytes ".toList).isPrefixOf low then
      match splitWs raw with
      | [kw, rel] =>
        let rel := String.ofList rel
        if !(pathOk rel) then .error (.unsupported "include path form") else
        match lookupPath fs rel currentDirs with
        | none => .error (.asm line)
        | some incPath =>
          match fs.readAt incPath with
          | none => .error (.unsupported "include_bytes of a directory")
          | some bs => do
            let line' : Line := { line with
              contents := String.ofList kw ++ " " ++ incPath ++ " " ++ toString bs.length }
            let more ← k
            pure (line' :: more)
      | _ => .error (.asm line)
    else do
      let more ← k
      pure (line :: more)

theorem go_stepK (fs : FS) (dirs : List String) (fuel : Nat) (path : String) (cd : List String)
    (n : Nat) (raw : List Char) (rest : List (List Char)) :
    readLinesAux.go fs dirs fuel path cd n (raw :: rest) =
      stepK fs dirs fuel path cd n raw (readLinesAux.go fs dirs fuel path cd (n + 1) rest) := by
  rw [readLinesAux.go.eq_2]; rfl

/-- what one raw line contributes on its own -/
def lineHead (fs : FS) (dirs : List String) (fuel : Nat) (path : String) (cd : List String)
    (n : Nat) (raw : List Char) : Except Err (List Line) :=
  stepK fs dirs fuel path cd n raw (.ok [])

theorem stepK_seq (fs : FS) (dirs : List String) (fuel : Nat) (path : String) (cd : List String)
    (n : Nat) (raw : List Char) (k : Except Err (List Line)) :
    stepK fs dirs fuel path cd n raw k = seqLines (lineHead fs dirs fuel path cd n raw) k := by
  unfold lineHead stepK
  split
  · simp
  · dsimp only
    split
    · split
      · split
        · rfl
        · split
          · rfl
          · split
            · rfl
            · split
              · rfl
              · split
                · rfl
                · cases readLinesAux fs dirs fuel _ _ _ <;> cases k <;>
                    simp [seqLines, bind, Except.bind, pure, Except.pure]
      · rfl
    · split
      · split
        · split
          · rfl
          · split
            · rfl
            · split
              · rfl
              · cases k <;> simp [seqLines, bind, Except.bind, pure, Except.pure]
        · rfl
      · cases k <;> simp [seqLines, bind, Except.bind, pure, Except.pure]

theorem go_cons (fs : FS) (dirs : List String) (fuel : Nat) (path : String) (cd : List String)
    (n : Nat) (raw : List Char) (rest : List (List Char)) :
    readLinesAux.go fs dirs fuel path cd n (raw :: rest) =
      seqLines (lineHead fs dirs fuel path cd n raw) (readLinesAux.go fs dirs fuel path cd (n + 1) rest) := by
  rw [go_stepK, stepK_seq]

theorem go_nil (fs : FS) (dirs : List String) (fuel : Nat) (path : String) (cd : List String) (n : Nat) :
    readLinesAux.go fs dirs fuel path cd n [] = .ok [] := readLinesAux.go.eq_1 ..

/-- a block of raw lines followed by another: the blocks are read independently; the second is
    numbered after the first -/
theorem go_append (fs : FS) (dirs : List String) (fuel : Nat) (path : String) (cd : List String)
    (l1 l2 : List (List Char)) (n : Nat) :
    readLinesAux.go fs dirs fuel path cd n (l1 ++ l2) =
      seqLines (readLinesAux.go fs dirs fuel path cd n l1)
               (readLinesAux.go fs dirs fuel path cd (n + l1.length) l2) := by
  induction l1 generalizing n with
  | nil => simp [go_nil]
  | cons raw rest ih =>
    rw [List.cons_append, go_cons, go_cons, ih, seqLines_assoc]
    simp only [List.length_cons]
    rw [show n + 1 + rest.length = n + (rest.length + 1) by omega]

/-- `raw` is an include line naming `rel`: `raw.lower().startswith('include ')` and, after the
    comment is stripped, it splits into exactly two words, the second (quotes stripped) being `rel` -/
def IsIncludeLine (raw : List Char) (rel : String) : Prop :=
  ("include ".toList).isPrefixOf (lowerL raw) = true ∧
  ∃ kw w, splitWs (stripComment raw) = [kw, w] ∧ String.ofList (stripQuotes w) = rel

theorem dropWhile_nil_all {α : Type} (p : α → Bool) :
    ∀ (l : List α), l.dropWhile p = [] → ∀ x ∈ l, p x = true
  | [], _, x, hx => by simp at hx
  | a :: l, h, x, hx => by
    cases hp : p a with
    | false => simp [List.dropWhile, hp] at h
    | true =>
      simp only [List.dropWhile, hp] at h
      rcases List.mem_cons.mp hx with rfl | hx
      · exact hp
      · exact dropWhile_nil_all p l h x hx

theorem includeKw_eq : "include ".toList = ['i', 'n', 'c', 'l', 'u', 'd', 'e', ' '] := by decide

theorem not_ws_of_lower_i {c : Char} (hc : c.toLower = 'i') : isPyWs c = false := by
  cases hw : isPyWs c with
  | false => rfl
  | true =>
    exfalso
    simp only [isPyWs, Bool.or_eq_true, decide_eq_true_eq] at hw
    rcases hw with ((((((((h | h) | h) | h) | h) | h) | h) | h) | h) | h <;> subst h <;> revert hc <;> decide

/-- an include line is not blank -/
theorem stripWs_isEmpty_of_include {raw : List Char}
    (h : ("include ".toList).isPrefixOf (lowerL raw) = true) : (stripWs raw).isEmpty = false := by
  rw [includeKw_eq] at h
  match raw, h with
  | [], h => simp [lowerL] at h
  | c :: cs, h =>
    simp only [lowerL, List.map_cons, List.isPrefixOf_cons_cons, Bool.and_eq_true, beq_iff_eq] at h
    have hc : isPyWs c = false := not_ws_of_lower_i h.1.symm
    cases he : (stripWs (c :: cs)).isEmpty with
    | false => rfl
    | true =>
      exfalso
      rw [List.isEmpty_iff] at he
      unfold stripWs at he
      have h1 : dropWsLeft (c :: cs) = c :: cs := by simp [dropWsLeft, List.dropWhile, hc]
      rw [h1, List.reverse_eq_nil_iff] at he
      unfold dropWsLeft at he
      have := dropWhile_nil_all _ _ he c (by simp)
      rw [hc] at this
      exact absurd this (by decide)

/-- an `include` line whose path the search resolves to an ASCII file contributes exactly the
    lines of that file, read with the file's own directory as base and one level less fuel -/
theorem lineHead_include (fs : FS) (dirs : List String) (fuel : Nat) (path : String) (cd : List String)
    (n : Nat) (raw : List Char) (rel incPath : String) (bs : List Nat) (src : List Char)
    (hinc : IsIncludeLine raw rel) (hform : pathOk rel = true)
    (hlook : lookupPath fs rel cd = some incPath) (hdir : fs.isDirAt incPath = false)
    (hread : fs.readAt incPath = some bs) (hascii : bytesToText bs = some src) :
    lineHead fs dirs fuel path cd n raw =
      readLinesAux fs dirs fuel incPath (baseOf incPath) src := by
  obtain ⟨hpre, kw, w, hsplit, hrel⟩ := hinc
  unfold lineHead stepK
  rw [if_neg (by rw [stripWs_isEmpty_of_include hpre]; decide)]
  dsimp only
  rw [if_pos hpre, hsplit]
  dsimp only
  rw [hrel, hform]
  simp only [Bool.not_true, Bool.false_eq_true, if_false, hlook, hdir, hread, hascii]
  cases readLinesAux fs dirs fuel incPath (baseOf incPath) src <;>
    simp [bind, Except.bind, pure, Except.pure]

/-! ### one line per "\n": `splitLines` gives the lines back -/

/-- a raw line as `str.splitlines()` produces them: no line-break character inside -/
def NoBreak (l : List Char) : Prop := ∀ c ∈ l, isLineBreak c = false

/-- each line followed by "\n" -/
def unlines (ls : List (List Char)) : List Char := ls.flatMap (fun l => l ++ ['\n'])

theorem splitLinesAux_line (l : List Char) (hl : NoBreak l) (rest cur : List Char) :
    splitLinesAux (l ++ '\n' :: rest) cur = (cur.reverse ++ l) :: splitLinesAux rest [] := by
  induction l generalizing cur with
  | nil =>
    simp only [List.nil_append, List.append_nil]
    rw [splitLinesAux.eq_3 _ _ _ (by intro r h; exact absurd h (by decide))]
    simp [isLineBreak]
  | cons c l ih =>
    have hc : isLineBreak c = false := hl c (by simp)
    have hl' : NoBreak l := fun x hx => hl x (by simp [hx])
    rw [List.cons_append, splitLinesAux.eq_3 _ _ _ (by intro r h; subst h; simp [isLineBreak] at hc), hc]
    simp only [Bool.false_eq_true, if_false]
    rw [ih hl']
    simp

theorem splitLines_unlines (ls : List (List Char)) (h : ∀ l ∈ ls, NoBreak l) :
    splitLines (unlines ls) = ls := by
  unfold splitLines
  induction ls with
  | nil => simp [unlines, splitLinesAux]
  | cons l ls ih =>
    have : unlines (l :: ls) = l ++ '\n' :: unlines ls := by simp [unlines]
    rw [this, splitLinesAux_line l (h l (by simp))]
    simp only [List.reverse_nil, List.nil_append]
    rw [ih (fun x hx => h x (by simp [hx]))]

/-! ### the `contents` of the lines read do not depend on file name or numbering -/

/-- the `contents` of the lines a read produced; `none` = the read failed -/
def contentsOf : Except Err (List Line) → Option (List String)
  | .ok ls => some (ls.map (·.contents))
  | .error _ => none

def optSeq : Option (List String) → Option (List String) → Option (List String)
  | some a, some b => some (a ++ b)
  | _, _ => none

theorem contentsOf_seq (a b : Except Err (List Line)) :
    contentsOf (seqLines a b) = optSeq (contentsOf a) (contentsOf b) := by
  cases a <;> cases b <;> simp [seqLines, Except.bind, contentsOf, optSeq]

/-- the contribution of one raw line, as contents, is the same whatever file it is attributed to
    and whatever its number (the search directories `cd` are what matters) -/
theorem contentsOf_lineHead (fs : FS) (dirs : List String) (fuel : Nat) (path path' : String)
    (cd : List String) (n n' : Nat) (raw : List Char) :
    contentsOf (lineHead fs dirs fuel path cd n raw) = contentsOf (lineHead fs dirs fuel path' cd n' raw) := by
  unfold lineHead stepK
  split
  · rfl
  · dsimp only
    split
    · split
      · split
        · rfl
        · split
          · rfl
          · split
            · rfl
            · split
              · rfl
              · split
                · rfl
                · rfl
      · rfl
    · split
      · split
        · split
          · rfl
          · split
            · rfl
            · split
              · rfl
              · rfl
        · rfl
      · rfl

theorem contentsOf_go (fs : FS) (dirs : List String) (fuel : Nat) (path path' : String)
    (cd : List String) (ls : List (List Char)) (n n' : Nat) :
    contentsOf (readLinesAux.go fs dirs fuel path cd n ls) =
      contentsOf (readLinesAux.go fs dirs fuel path' cd n' ls) := by
  induction ls generalizing n n' with
  | nil => simp [go_nil]
  | cons raw rest ih =>
    rw [go_cons, go_cons, contentsOf_seq, contentsOf_seq, ih (n + 1) (n' + 1),
      contentsOf_lineHead fs dirs fuel path path' cd n n' raw]

/-- a line that is neither an `include` nor an `include_bytes` line -/
def IsPlainLine (raw : List Char) : Prop :=
  ("include ".toList).isPrefixOf (lowerL raw) = false ∧
  ("include_bytes ".toList).isPrefixOf (lowerL raw) = false

/-- the contents a plain line contributes: itself, unless it is blank — whatever the filesystem,
    the search directories, the fuel -/
theorem contentsOf_lineHead_plain (fs : FS) (dirs : List String) (fuel : Nat) (path : String)
    (cd : List String) (n : Nat) (raw : List Char) (h : IsPlainLine raw) :
    contentsOf (lineHead fs dirs fuel path cd n raw) =
      some (if (stripWs raw).isEmpty then [] else [String.ofList raw]) := by
  unfold lineHead stepK
  split
  · rfl
  · dsimp only
    rw [if_neg (by rw [h.1]; decide), if_neg (by rw [h.2]; decide)]
    rfl

/-- the non-blank lines, as contents -/
def plainContents : List (List Char) → List String
  | [] => []
  | raw :: rest => (if (stripWs raw).isEmpty then [] else [String.ofList raw]) ++ plainContents rest

theorem contentsOf_go_plain (fs : FS) (dirs : List String) (fuel : Nat) (path : String)
    (cd : List String) (ls : List (List Char)) (h : ∀ l ∈ ls, IsPlainLine l) (n : Nat) :
    contentsOf (readLinesAux.go fs dirs fuel path cd n ls) = some (plainContents ls) := by
  induction ls generalizing n with
  | nil => simp [go_nil, contentsOf, plainContents]
  | cons raw rest ih =>
    rw [go_cons, contentsOf_seq, ih (fun l hl => h l (by simp [hl])),
      contentsOf_lineHead_plain _ _ _ _ _ _ _ (h raw (by simp))]
    simp [optSeq, plainContents]

end BB
