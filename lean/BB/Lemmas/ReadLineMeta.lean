/-
  BB.Lemmas.ReadLineMeta — `Line` metadata (file, number, contents) carried by items and errors,
  and the functions that rewrite it.  Used by C14: the item list of a program with an `include`
  and the item list of the spliced program differ only in this metadata, and no pass of the
  assembler looks at it (Lemmas/ReadPasses.lean, Lemmas/ReadParse.lean).
-/
import BB.Read
namespace BB

/-- rewrite the `Line` an item carries -/
def Item.mapLine (f : Line → Line) : Item → Item
  | .label l n => .label (f l) n
  | .constant l n e => .constant (f l) n e
  | .includeBytes l p s => .includeBytes (f l) p s
  | .string l v => .string (f l) v
  | .sequence l n vs => .sequence (f l) n vs
  | .pack l fmt i => .pack (f l) fmt i
  | .shorthandPack l n i => .shorthandPack (f l) n i
  | .align l a => .align (f l) a
  | .blob l d => .blob (f l) d
  | .pseudo l n a => .pseudo (f l) n a
  | .instr l i => .instr (f l) i

/-- rewrite the `Line` an error carries -/
def Err.mapLine (f : Line → Line) : Err → Err
  | .asm l => .asm (f l)
  | .internal t => .internal t
  | .unsupported w => .unsupported w

/-- rewrite the `Line` inside a failure; successes are untouched -/
def mapErrLine {α : Type} (f : Line → Line) : Except Err α → Except Err α
  | .ok a => .ok a
  | .error e => .error (e.mapLine f)

/-- `eraseLine`: every `Line` replaced by the default one -/
def eraseLine : Item → Item := Item.mapLine (fun _ => default)

@[simp] theorem Item.line_mapLine (f : Line → Line) (it : Item) : (it.mapLine f).line = f it.line := by
  cases it <;> rfl

@[simp] theorem mapErrLine_ok {α : Type} (f : Line → Line) (a : α) :
    mapErrLine f (.ok a : Except Err α) = .ok a := rfl

@[simp] theorem mapErrLine_error {α : Type} (f : Line → Line) (e : Err) :
    mapErrLine f (.error e : Except Err α) = .error (e.mapLine f) := rfl

/-- the hooks do not look at the line either: `parse_immediate` only copies it into its errors -/
def HooksNatural (H : Hooks) (f : Line → Line) : Prop :=
  ∀ toks l, H.parseImm toks (f l) = mapErrLine f (H.parseImm toks l)

end BB
