/-
  BB.Lemmas.FrontBasic — decidable equality of `Except` values (for `decide`d examples).
-/
namespace BB

instance instDecidableEqExcept {ε α : Type} [DecidableEq ε] [DecidableEq α] : DecidableEq (Except ε α) :=
  fun a b =>
  match a, b with
  | .ok x, .ok y => if h : x = y then isTrue (by rw [h]) else isFalse (fun e => h (by cases e; rfl))
  | .error x, .error y => if h : x = y then isTrue (by rw [h]) else isFalse (fun e => h (by cases e; rfl))
  | .ok _, .error _ => isFalse (fun e => by cases e)
  | .error _, .ok _ => isFalse (fun e => by cases e)

end BB
