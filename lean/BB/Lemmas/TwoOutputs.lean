/-
  BB.Lemmas.TwoOutputs — reading one item of a successful run in its output bytes (`PlacedAt`), and the
  item-level facts the two-output theorem is made of: label-free items give the same bytes in both runs,
  a 32-bit instruction on `%offset n` decodes to itself with the distance to the label (`Retarget32`),
  a compressed item decodes to a legal RVC instruction.
-/
import BB.Lemmas.SuccMain
set_option linter.unusedSimpArgs false
set_option linter.unusedVariables false
namespace BB.Lemmas
open BB BB.Spec
open BB.Props.C03 (Land Finish blobBytes_cons_blob)

/-- `n` bytes of `bs` from byte offset `q` -/
def sliceAt (bs : List Nat) (q : Int) (n : Nat) : List Nat := (bs.drop q.toNat).take n

/-- item `x` of the list held after resolve_aligns sits at byte offset `q` of the output: resolved there
    against the returned tables and finished into the bytes `d`, which are the output bytes at `q` -/
def PlacedAt (H : Hooks) (r : AsmResult) (q : Int) (x : Item) (d : List Nat) : Prop :=
  ∃ it' line, immBody H r.constants x q r.labels = .ok ([it'], 0) ∧ Finish H it' (.blob line d) ∧
    (d.length : Int) = x.sizeD ∧ sliceAt r.bytes q d.length = d

theorem land_ghost_bytes {H : Hooks} {constants L : Dict} : ∀ (G : List Item) (p : Int) (out : List Item),
    Land H constants L p (strip G) out →
    ∀ P a S, G = P ++ a :: S → (∀ l n, a ≠ .label l n) →
      ∃ it' line d pre post, immBody H constants a (p + sizeSum P) L = .ok ([it'], 0) ∧ Finish H it' (.blob line d) ∧
        (d.length : Int) = a.sizeD ∧ blobBytes out = pre ++ d ++ post ∧ (pre.length : Int) = sizeSum P := by
  intro G
  induction G with
  | nil => intro p out _ P a S e; simp at e
  | cons y G ih =>
    intro p out h P a S e hnl
    by_cases hl : ∃ l n, y = .label l n
    · obtain ⟨l, n, rfl⟩ := hl
      rw [strip_label] at h
      cases P with
      | nil =>
        simp only [List.nil_append, List.cons.injEq] at e
        exact absurd e.1.symm (hnl l n)
      | cons p0 P =>
        simp only [List.cons_append, List.cons.injEq] at e
        obtain ⟨rfl, e⟩ := e
        obtain ⟨it', line, d, pre, post, h1, h2, h3, h4, h5⟩ := ih p out h P a S e hnl
        refine ⟨it', line, d, pre, post, ?_, h2, h3, h4, ?_⟩
        · rw [sizeSum_cons, sizeD_label]
          have e2 : p + (0 + sizeSum P) = p + sizeSum P := by omega
          rw [e2]; exact h1
        · rw [sizeSum_cons, sizeD_label]; omega
    · have hynl : ∀ l n, y ≠ .label l n := fun l n e => hl ⟨l, n, e⟩
      rw [strip_cons_of_not_label hynl] at h
      cases h with
      | @step _ _ it' line d _ out' hbody hfin hlen hrest =>
        cases P with
        | nil =>
          simp only [List.nil_append, List.cons.injEq] at e
          obtain ⟨rfl, _⟩ := e
          refine ⟨it', line, d, [], blobBytes out', ?_, hfin, hlen, by simp [blobBytes_cons_blob], by simp [sizeSum]⟩
          simp only [sizeSum, List.map_nil, List.sum_nil, Int.add_zero]
          exact hbody
        | cons p0 P =>
          simp only [List.cons_append, List.cons.injEq] at e
          obtain ⟨e0, e⟩ := e
          obtain ⟨it2, line2, d2, pre, post, h1, h2, h3, h4, h5⟩ := ih (p + d.length) out' hrest P a S e hnl
          refine ⟨it2, line2, d2, d ++ pre, post, ?_, h2, h3, ?_, ?_⟩
          · rw [sizeSum_cons, ← e0]
            have e2 : p + (y.sizeD + sizeSum P) = p + (d.length : Int) + sizeSum P := by omega
            rw [e2]; exact h1
          · rw [blobBytes_cons_blob, h4]; simp
          · rw [sizeSum_cons, ← e0, List.length_append]; push_cast; omega

theorem sliceAt_mid (pre d post : List Nat) : sliceAt (pre ++ d ++ post) (pre.length : Int) d.length = d := by
  unfold sliceAt
  simp [List.append_assoc]

/-- every item of the final ghost list of a successful run is placed -/
theorem placed_of_land {H : Hooks} {r : AsmResult} {G out : List Item}
    (hland : Land H r.constants r.labels 0 (strip G) out) (hbytes : r.bytes = blobBytes out)
    {P : List Item} {a : Item} {S : List Item} (e : G = P ++ a :: S) (hnl : ∀ l n, a ≠ .label l n) :
    ∃ d, PlacedAt H r (sizeSum P) a d := by
  obtain ⟨it', line, d, pre, post, h1, h2, h3, h4, h5⟩ := land_ghost_bytes G 0 out hland P a S e hnl
  rw [Int.zero_add] at h1
  refine ⟨d, it', line, h1, h2, h3, ?_⟩
  rw [hbytes, h4, ← h5]
  exact sliceAt_mid pre d post

/-! ### reading a placed item -/

theorem finish_fun {H : Hooks} {a z z' : Item} (h : Finish H a z) (h' : Finish H a z') : z = z' := by
  obtain ⟨b, d, e, f, h1, h2, h3, h4, h5⟩ := h
  obtain ⟨b', d', e', f', h1', h2', h3', h4', h5'⟩ := h'
  rw [h1] at h1'; cases h1'
  rw [h2] at h2'; cases h2'
  rw [h3] at h3'; cases h3'
  rw [h4] at h4'; cases h4'
  rw [h5] at h5'; cases h5'
  rfl

/-- **label-free items are byte-identical in the two outputs** -/
theorem placed_indep_eq {H : Hooks} {r₀ r₁ : AsmResult} (hc : r₀.constants = r₁.constants) {x : Item}
    (hx : Indep H r₁.constants x) {q0 q1 : Int} {d0 d1 : List Nat}
    (h0 : PlacedAt H r₀ q0 x d0) (h1 : PlacedAt H r₁ q1 x d1) : d1 = d0 := by
  obtain ⟨it0, l0, hb0, hf0, _, _⟩ := h0
  obtain ⟨it1, l1, hb1, hf1, _, _⟩ := h1
  rw [hc, immBody_indep hx q0 q1 r₀.labels r₁.labels, hb1] at hb0
  simp only [Except.ok.injEq, Prod.mk.injEq, List.cons.injEq, and_true] at hb0
  subst hb0
  have := finish_fun hf0 hf1
  simp only [Item.blob.injEq] at this
  exact this.2.symm

/-- the bytes `d` are the 32-bit word of `ins` with the immediate `v` -/
def Retarget32 (ins : Instr) (v : Int) (d : List Nat) : Prop :=
  ∃ w i, d = leBytes 4 w ∧ decode32 w = some i ∧ denote32I (ins.setImm (.value v)) = some i

/-- what a placed 32-bit instruction is in the output: its resolved form, its word, what the word decodes to -/
theorem placed_read32 {H : Hooks} {r : AsmResult} {q : Int} {line : Line} {ins : Instr} {d : List Nat} {k : EncKind}
    (hk : instrTable.lookup ins.name = some k) (hs : k.size = 4) (hnc : ins.isCompressed = false)
    (h : PlacedAt H r q (.instr line ins) d) :
    ∃ rins w i, resolveWith (evalAt H (chainGet r.constants r.labels) line (ajPos ins q)) ins = some rins ∧
      encodeInstr line rins = .ok d ∧ d = leBytes 4 w ∧ decode32 w = some i ∧ denote32I rins = some i := by
  obtain ⟨it', line', hb, hf, hlen, _⟩ := h
  obtain ⟨rins, bs, hres, henc⟩ := accepts_of_lands ⟨it', line', d, hb, hf, hlen⟩
  -- the same resolved instruction
  obtain ⟨p', rins', e1, hres'⟩ := immBody_instr_resolve' hb
  subst e1
  have hd : encodeInstr line rins' = .ok d := encodeInstr_of_finish hf
  obtain ⟨args, w, ha, he⟩ := encodeInstr_ok_iff.mp ⟨d, hd⟩
  have hkeep := resolveWith_keeps hres'
  obtain ⟨i, hi, hdec, _⟩ := encode_denotes32 (ins := rins') (by rw [hkeep.1]; exact hk) hs ha he
  have hdw : d = leBytes 4 w := by
    have := hd
    simp only [encodeInstr, ha, he, hkeep.2, hnc, Bool.false_eq_true, if_false, Except.ok.injEq] at this
    exact this.symm
  -- `rins'` is the resolution at `ajPos`
  have hsame : rins = rins' := by
    have h2 := lands_of_accepts (H := H) (constants := r.constants) (L := r.labels) (q := q) ⟨rins, bs, hres, henc⟩
    obtain ⟨it2, l2, d2, hb2, _, _⟩ := h2
    rw [hb] at hb2
    obtain ⟨p2, r2, e2, _⟩ := immBody_instr_resolve' hb
    have hb3 := hb
    -- both `immBody` results coincide
    cases hi' : ins.imm? with
    | none =>
      simp only [resolveWith, hi', Option.some.injEq] at hres hres'
      rw [← hres, ← hres']
    | some imm =>
      obtain ⟨v, hv, e3⟩ := BB.Props.C08.instr_item_value H r.constants r.labels line ins imm q _ hi' hb
      simp only [Item.instr.injEq, true_and] at e3
      have hv' : evalAt H (chainGet r.constants r.labels) line (ajPos ins q) imm = some v := by
        simp [evalAt, ajPos, hv, Except.toOption]
      simp only [resolveWith, hi', hv', Option.map_some, Option.some.injEq] at hres
      rw [← hres, e3]
  subst hsame
  exact ⟨rins, w, i, hres, hd, hdw, hdec, hi⟩

theorem placed_retarget32 {H : Hooks} {r : AsmResult} {q : Int} {line : Line} {ins : Instr} {d : List Nat} {n : String} {t : Int}
    (hwk : ins.wellKinded = true) (haj : ins.isAuipcJump = false) (himm : ins.imm? = some (.offset n))
    (hc : r.constants.get n = none) (ht : r.labels.get n = some t)
    (h : PlacedAt H r q (.instr line ins) d) : Retarget32 ins (t - q) d := by
  obtain ⟨k, hk, hs, hnc⟩ := wellKinded_row hwk
  obtain ⟨rins, w, i, hres, _, hdw, hdec, hi⟩ := placed_read32 hk hs hnc h
  simp only [ajPos, haj, Bool.false_eq_true, if_false, resolveWith, himm, evalAt_offset q hc ht, Option.map_some,
    Option.some.injEq] at hres
  subst hres
  exact ⟨w, i, hdw, hdec, hi⟩

/-- a placed compressed instruction whose resolved form names the RVC instruction `ci` -/
theorem placed_read16 {H : Hooks} {r : AsmResult} {q : Int} {line : Line} {cf rcf : Instr} {d : List Nat} {ci : CInstr}
    (hnaj : cf.isAuipcJump = false) (hc : cf.isCompressed = true)
    (h0 : resolveWith (evalAt H (chainGet r.constants r.labels) line q) cf = some rcf) (hd16 : denote16I rcf = some ci)
    (h : PlacedAt H r q (.instr line cf) d) : ∃ w, d = leBytes 2 w ∧ decode16 w = some ci := by
  obtain ⟨it', line', hb, hf, _, _⟩ := h
  exact BB.Props.C04.compressed_item_read hnaj hc h0 hd16 hb hf

/-- the predicates of a transfer rule hold for `ins` at `ev` when its name / register predicates held
    somewhere and the immediate predicates hold at `ev` for an instruction with the same immediate -/
theorem transfer_preds_mix {c : String} {preds preds' : List Pred} (hmem : (c, preds) ∈ criteria)
    (hmem' : (c, preds') ∈ criteria) (hc : c ∈ transferRules) {ins ins' : Instr} (himm : ins.imm? = ins'.imm?)
    {ev0 ev : Imm → Option Int} (hp0 : ∀ pr ∈ preds, pr.holds ins ev0) (hp' : ∀ pr ∈ preds', pr.holds ins' ev) :
    ∀ pr ∈ preds, pr.holds ins ev := by
  have hv : ∀ e : Imm → Option Int, immVal ins e = immVal ins' e := by intro e; simp only [immVal, himm]
  simp only [transferRules, List.mem_cons, List.mem_nil_iff, or_false] at hc
  rcases hc with rfl | rfl | rfl | rfl <;> simp [criteria] at hmem hmem' <;> subst hmem <;> subst hmem' <;>
    simp only [List.mem_cons, List.mem_nil_iff, or_false, forall_eq_or_imp, forall_eq, Pred.holds, hv] at hp0 hp' ⊢
  · exact ⟨hp0.1, hp0.2.1, hp'.2.2.1, hp'.2.2.2⟩
  · exact ⟨hp0.1, hp0.2.1, hp'.2.2.1, hp'.2.2.2⟩
  · exact ⟨hp0.1, hp0.2.1, hp0.2.2.1, hp'.2.2.2.1, hp'.2.2.2.2⟩
  · exact ⟨hp0.1, hp0.2.1, hp0.2.2.1, hp'.2.2.2.1, hp'.2.2.2.2⟩

end BB.Lemmas
