/-
  BB.Lemmas.ReadFront — from the lines `read_lines` returns to the assembled result:
  lexing, parsing and every pass use a `Line` only through its `contents` (and copy the rest into
  items and errors), so the outcome of `assemble` — bytes, labels, constants, or failure — is a
  function of the list of line contents alone.
-/
import BB.Lemmas.ReadSplice
import BB.Lemmas.ReadText
import BB.Lemmas.ReadParse
import BB.Lemmas.ReadPasses
namespace BB

/-- lines → items, the part of `assemble` between `read_lines` and the passes (asm.py:3366-3372) -/
def itemsOfLines (lines : List Line) : Except Err (List Item) := do
  let lines := lines.filter (fun l => l.contents.length > 0)
  let toks ← frontEnd.lexAll lines
  frontEnd.parseAll toks

/-- for a source text inside the model (ASCII or not) -/
theorem frontEnd_source_ok (fs : FS) (cwd : String) (dirs : List String) (text : String)
    (h1 : normAbs cwd = true) (h2 : dirs.all absOk = true) (h3 : sourceOk text.toList = true) :
    frontEnd fs cwd dirs (.source text) =
      (readLinesAux fs dirs (fs.files.length + 2) "<string>" cwd text.toList).bind itemsOfLines := by
  unfold frontEnd
  simp only [h1, h2, h3]
  rfl

theorem frontEnd_source (fs : FS) (cwd : String) (dirs : List String) (text : String)
    (h1 : normAbs cwd = true) (h2 : dirs.all absOk = true)
    (h3 : text.toList.all (fun c => c.toNat < 128) = true) :
    frontEnd fs cwd dirs (.source text) =
      (readLinesAux fs dirs (fs.files.length + 2) "<string>" cwd text.toList).bind itemsOfLines :=
  frontEnd_source_ok fs cwd dirs text h1 h2 (sourceOk_of_ascii _ h3)

theorem frontEnd_path (fs : FS) (cwd : String) (dirs : List String) (p : String) (bs : List Nat)
    (src : List Char) (h1 : normAbs cwd = true) (h2 : dirs.all absOk = true) (hp : absOk p = true)
    (hr : fs.readAt p = some bs) (ha : bytesToText bs = some src) :
    frontEnd fs cwd dirs (.path p) =
      (readLinesAux fs dirs (fs.files.length + 2) p (baseOf p) src).bind itemsOfLines := by
  unfold frontEnd
  simp only [h1, h2, hp, hr, ha]
  rfl

/-- the item list with every `Line` erased; `none` = failure -/
def erasedItems : Except Err (List Item) → Option (List Item)
  | .ok its => some (its.map eraseLine)
  | .error _ => none

/-- the result of an assembly, failures collapsed -/
def resultOf : Except Err AsmResult → Option AsmResult
  | .ok r => some r
  | .error _ => none

theorem Item.mapLine_mapLine (f g : Line → Line) (it : Item) :
    (it.mapLine f).mapLine g = it.mapLine (g ∘ f) := by
  cases it <;> rfl

theorem eraseLine_mapLine (f : Line → Line) (it : Item) : eraseLine (it.mapLine f) = eraseLine it := by
  unfold eraseLine; rw [Item.mapLine_mapLine]; rfl

/-- tokens of the non-empty lines that have tokens, from contents alone -/
def lexAllO : List String → Option (List (List String))
  | [] => some []
  | c :: rest =>
    match lexTokens c.toList, lexAllO rest with
    | .ok toks, some more => some (if toks.isEmpty then more else toks :: more)
    | _, _ => none

theorem lexLine_opt (l : Line) :
    (match lexLine l with | .ok t => some t | .error _ => none) =
      (match lexTokens l.contents.toList with | .ok t => some t | .error _ => none) := by
  unfold lexLine
  cases lexTokens l.contents.toList with
  | ok t => rfl
  | error e => by_cases he : e = Err.internal "UnicodeDecodeError" <;> simp [he]

theorem lexAll_contents (lines : List Line) :
    (match frontEnd.lexAll lines with | .ok ps => some (ps.map (·.2)) | .error _ => none) =
      lexAllO (lines.map (·.contents)) := by
  induction lines with
  | nil => simp [frontEnd.lexAll, lexAllO]
  | cons l rest ih =>
    rw [frontEnd.lexAll.eq_2, List.map_cons, lexAllO, ← ih]
    have hl := lexLine_opt l
    cases h1 : lexLine l with
    | error e =>
      rw [h1] at hl
      cases h2 : lexTokens l.contents.toList with
      | error e2 => simp
      | ok t => rw [h2] at hl; simp at hl
    | ok toks =>
      rw [h1] at hl
      cases h2 : lexTokens l.contents.toList with
      | error e2 => rw [h2] at hl; simp at hl
      | ok t =>
        rw [h2] at hl
        simp only [Option.some.injEq] at hl
        subst hl
        cases frontEnd.lexAll rest with
        | error e => simp
        | ok more =>
          cases toks with
          | nil => simp
          | cons t ts => simp

/-- items with erased lines, from token lists alone -/
def parseAllO : List (List String) → Option (List Item)
  | [] => some []
  | toks :: rest =>
    match parseItem default toks, parseAllO rest with
    | .ok it, some more => some (eraseLine it :: more)
    | _, _ => none

theorem parseItem_default (l : Line) (toks : List String) :
    (match parseItem default toks with | .ok it => some (eraseLine it) | .error _ => none) =
      (match parseItem l toks with | .ok it => some (eraseLine it) | .error _ => none) := by
  have h := parseItem_mapLine (fun _ => default) l toks
  rw [h]
  cases parseItem l toks with
  | error e => rfl
  | ok it => simp [Except.map, eraseLine_mapLine]

theorem parseAll_tokens (ps : List (Line × List String)) :
    erasedItems (frontEnd.parseAll ps) = parseAllO (ps.map (·.2)) := by
  induction ps with
  | nil => simp [frontEnd.parseAll, parseAllO, erasedItems]
  | cons p rest ih =>
    obtain ⟨l, toks⟩ := p
    rw [frontEnd.parseAll.eq_2, List.map_cons, parseAllO, ← ih]
    have h := parseItem_default l toks
    cases h1 : parseItem l toks with
    | error e =>
      rw [h1] at h
      cases h2 : parseItem default toks with
      | error e' => simp [erasedItems]
      | ok it => rw [h2] at h; simp at h
    | ok it =>
      rw [h1] at h
      cases h2 : parseItem default toks with
      | error e' => rw [h2] at h; simp at h
      | ok it' =>
        rw [h2] at h
        simp only [Option.some.injEq] at h
        cases frontEnd.parseAll rest with
        | error e => simp [erasedItems]
        | ok more => simp [erasedItems, h]

/-- lines → erased items, from contents alone -/
def itemsOfContents (cs : List String) : Option (List Item) :=
  (lexAllO (cs.filter (fun c => c.length > 0))).bind parseAllO

theorem erasedItems_itemsOfLines (lines : List Line) :
    erasedItems (itemsOfLines lines) = itemsOfContents (lines.map (·.contents)) := by
  unfold itemsOfLines itemsOfContents
  have hf : (lines.map (·.contents)).filter (fun c => c.length > 0) =
      (lines.filter (fun l => l.contents.length > 0)).map (·.contents) := by
    rw [List.filter_map]; rfl
  rw [hf, ← lexAll_contents]
  cases h : frontEnd.lexAll (lines.filter (fun l => l.contents.length > 0)) with
  | error e =>
    show erasedItems ((frontEnd.lexAll (lines.filter (fun l => l.contents.length > 0))).bind frontEnd.parseAll) = _
    rw [h]; rfl
  | ok ps =>
    show erasedItems ((frontEnd.lexAll (lines.filter (fun l => l.contents.length > 0))).bind frontEnd.parseAll) = _
    rw [h]
    simp only [Except.bind, Option.bind]
    exact parseAll_tokens ps

/-- reading two texts whose lines have the same contents gives the same items up to `Line` metadata -/
theorem erasedItems_bind_of_contents (a b : Except Err (List Line)) (h : contentsOf a = contentsOf b) :
    erasedItems (a.bind itemsOfLines) = erasedItems (b.bind itemsOfLines) := by
  cases a with
  | error e =>
    cases b with
    | error e' => rfl
    | ok lb => simp [contentsOf] at h
  | ok la =>
    cases b with
    | error e' => simp [contentsOf] at h
    | ok lb =>
      simp only [contentsOf, Option.some.injEq] at h
      simp only [Except.bind]
      rw [erasedItems_itemsOfLines, erasedItems_itemsOfLines, h]

/-- no pass looks at `Line` metadata: assembling the erased items succeeds exactly when assembling
    the items does, with the same bytes, labels and constants -/
theorem resultOf_assembleItems_erase (H : Hooks) (hH : HooksNatural H (fun _ => default)) (c : Bool)
    (items : List Item) (cs ls : Dict) :
    resultOf (assembleItems H c (items.map eraseLine) cs ls) = resultOf (assembleItems H c items cs ls) := by
  have h := assembleItems_mapLine H (fun _ => default) hH c items cs ls
  unfold eraseLine
  rw [h]
  cases assembleItems H c items cs ls <;> rfl

/-- the outcome of `assembleText` is determined by the erased item list -/
theorem resultOf_assembleText (fs : FS) (cwd : String) (dirs : List String) (c : Bool) (input : Input) :
    resultOf (assembleText fs cwd dirs c input) =
      (erasedItems (frontEnd fs cwd dirs input)).bind
        (fun its => resultOf (assembleItems (textHooks fs) c its [] [])) := by
  unfold assembleText
  cases h : frontEnd fs cwd dirs input with
  | error e => rfl
  | ok items =>
    simp only [erasedItems, Option.bind]
    rw [resultOf_assembleItems_erase _ (textHooks_natural fs _)]
    rfl

end BB
