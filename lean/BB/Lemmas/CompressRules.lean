/-
  BB.Lemmas.CompressRules — one lemma per compressed form (`cr_*`): from the numeric facts a
  criterion's predicates establish to `Compresses ev cf i` — the replacement instruction resolves,
  its arguments are in the 16-bit encoder's legal set, and the RVC instruction it names executes
  like the original `i` (pc step 2).  `expand16 ci = i` holds syntactically for all but `c.mv` from
  `addi rd, rs, 0` (`cr_mv_alt`), where the equality is semantic.
-/
import BB.Lemmas.CompressPreds
import BB.Lemmas.Inv32
set_option linter.unusedSimpArgs false
set_option linter.unusedVariables false
namespace BB.Lemmas
open BB BB.Spec
open BB.Props.C01 (denote32 denoteReg denoteInt)
open BB.Props.C02 (denote16 rowOf)

section
variable {ev : Imm → Option Int}

theorem resolve_imm {ins : Instr} {imm : Imm} {v : Int} (hi : ins.imm? = some imm) (hv : ev imm = some v) :
    resolveWith ev ins = some (ins.setImm (.value v)) := by
  simp [resolveWith, hi, hv]

theorem resolve_noimm {ins : Instr} (hi : ins.imm? = none) : resolveWith ev ins = some ins := by
  simp [resolveWith, hi]

/-- discharge `denote16 … = some ops` and `legalOf16 … = true` side goals -/
macro "cr_den" : tactic =>
  `(tactic| (simp only [denote16, rowOf, denoteReg, bind, Option.bind, pure, Option.map, *]))
macro "cls16" : tactic => `(tactic| (simp only [Instr.name]; decide))
macro "cr_legal" : tactic =>
  `(tactic| (simp only [legalOf16, isReg, isRegC, simm, uimm, multOf, Bool.and_eq_true, Bool.or_eq_true,
      decide_eq_true_eq, Int.reducePow, Nat.reduceSub, Nat.reducePow, ne_eq, bne_iff_ne, Bool.not_eq_true',
      decide_eq_false_iff_not]; omega))

theorem cr_addi16sp {imm : Imm} {v : Int} (hv : ev imm = some v)
    (h1 : v ≠ 0) (h2 : v % 16 = 0) (h3 : -512 ≤ v) (h4 : v ≤ 511) :
    Compresses ev (.cia "c.addi16sp" imm) (.i .addi 2 2 v) := by
  refine ⟨.cia "c.addi16sp" (.value v), .addi16sp, [.i v], [.imm v], .addi16sp v,
    resolve_imm rfl hv, by cls16, rfl, rfl, ?_, rfl, fun s => rfl⟩
  cr_legal

theorem cr_addi4spn {rd : RegOp} {a : Nat} {imm : Imm} {v : Int} (hrd : lookupRegister rd = some a)
    (ha : 8 ≤ a) (ha' : a ≤ 15) (hv : ev imm = some v)
    (h1 : v ≠ 0) (h2 : v % 4 = 0) (h3 : 0 ≤ v) (h4 : v ≤ 1023) :
    Compresses ev (.ciw "c.addi4spn" rd imm) (.i .addi a 2 v) := by
  have hv' : ((v.toNat : Nat) : Int) = v := by omega
  refine ⟨.ciw "c.addi4spn" rd (.value v), .addi4spn, [.r rd, .i v], [.reg a, .imm v], .addi4spn a v.toNat,
    resolve_imm rfl hv, by cls16, rfl, by cr_den, ?_, rfl, fun s => ?_⟩
  · cr_legal
  · simp only [execC, expand16, hv']

theorem cr_lw {rd rs1 : RegOp} {a b : Nat} {imm : Imm} {v : Int} (hrd : lookupRegister rd = some a)
    (hrs : lookupRegister rs1 = some b) (ha : 8 ≤ a) (ha' : a ≤ 15) (hb : 8 ≤ b) (hb' : b ≤ 15)
    (hv : ev imm = some v) (h2 : v % 4 = 0) (h3 : 0 ≤ v) (h4 : v ≤ 127) :
    Compresses ev (.cl "c.lw" rd rs1 imm) (.load .lw a b v) := by
  have hv' : ((v.toNat : Nat) : Int) = v := by omega
  refine ⟨.cl "c.lw" rd rs1 (.value v), .lw, [.r rd, .r rs1, .i v], [.reg a, .reg b, .imm v], .lw a b v.toNat,
    resolve_imm rfl hv, by cls16, rfl, by cr_den, ?_, rfl, fun s => ?_⟩
  · cr_legal
  · simp only [execC, expand16, hv']

theorem cr_sw {rs1 rs2 : RegOp} {a b : Nat} {imm : Imm} {v : Int} (h1 : lookupRegister rs1 = some a)
    (h2 : lookupRegister rs2 = some b) (ha : 8 ≤ a) (ha' : a ≤ 15) (hb : 8 ≤ b) (hb' : b ≤ 15)
    (hv : ev imm = some v) (h3 : v % 4 = 0) (h4 : 0 ≤ v) (h5 : v ≤ 127) :
    Compresses ev (.cs "c.sw" rs1 rs2 imm) (.store .sw a b v) := by
  have hv' : ((v.toNat : Nat) : Int) = v := by omega
  refine ⟨.cs "c.sw" rs1 rs2 (.value v), .sw, [.r rs1, .r rs2, .i v], [.reg a, .reg b, .imm v], .sw a b v.toNat,
    resolve_imm rfl hv, by cls16, rfl, by cr_den, ?_, rfl, fun s => ?_⟩
  · cr_legal
  · simp only [execC, expand16, hv']

theorem cr_nop : Compresses ev (.cin "c.nop") (.i .addi 0 0 0) :=
  ⟨.cin "c.nop", .nop, [], [], .nop, resolve_noimm rfl, by cls16, rfl, rfl, rfl, rfl, fun _ => rfl⟩

theorem cr_addi {rd : RegOp} {a : Nat} {imm : Imm} {v : Int} (hrd : lookupRegister rd = some a)
    (ha : a ≠ 0) (hv : ev imm = some v) (h1 : v ≠ 0) (h2 : -32 ≤ v) (h3 : v ≤ 31) :
    Compresses ev (.ci "c.addi" rd imm) (.i .addi a a v) := by
  have hlt := lookupRegister_lt hrd
  refine ⟨.ci "c.addi" rd (.value v), .addi, [.r rd, .i v], [.reg a, .imm v], .addi a v,
    resolve_imm rfl hv, by cls16, rfl, by cr_den, ?_, rfl, fun s => rfl⟩
  cr_legal

theorem cr_jal {imm : Imm} {v : Int} (hv : ev imm = some v) (h1 : v % 2 = 0) (h2 : -2048 ≤ v) (h3 : v ≤ 2047) :
    Compresses ev (.cj "c.jal" imm) (.jal 1 v) := by
  refine ⟨.cj "c.jal" (.value v), .jal, [.i v], [.imm v], .jal v,
    resolve_imm rfl hv, by cls16, rfl, rfl, ?_, rfl, fun s => rfl⟩
  cr_legal

theorem cr_j {imm : Imm} {v : Int} (hv : ev imm = some v) (h1 : v % 2 = 0) (h2 : -2048 ≤ v) (h3 : v ≤ 2047) :
    Compresses ev (.cj "c.j" imm) (.jal 0 v) := by
  refine ⟨.cj "c.j" (.value v), .j, [.i v], [.imm v], .j v,
    resolve_imm rfl hv, by cls16, rfl, rfl, ?_, rfl, fun s => rfl⟩
  cr_legal

theorem cr_li {rd : RegOp} {a : Nat} {imm : Imm} {v : Int} (hrd : lookupRegister rd = some a)
    (ha : a ≠ 0) (hv : ev imm = some v) (h2 : -32 ≤ v) (h3 : v ≤ 31) :
    Compresses ev (.ci "c.li" rd imm) (.i .addi a 0 v) := by
  have hlt := lookupRegister_lt hrd
  refine ⟨.ci "c.li" rd (.value v), .li, [.r rd, .i v], [.reg a, .imm v], .li a v,
    resolve_imm rfl hv, by cls16, rfl, by cr_den, ?_, rfl, fun s => rfl⟩
  cr_legal

theorem cr_lui {rd : RegOp} {a : Nat} {imm : Imm} {v : Int} (hrd : lookupRegister rd = some a)
    (ha : a ≠ 0) (ha2 : a ≠ 2) (hv : ev imm = some v) (h1 : v ≠ 0) (h2 : -32 ≤ v) (h3 : v ≤ 31) :
    Compresses ev (.ci "c.lui" rd imm) (.lui a (v % 1048576).toNat) := by
  have hlt := lookupRegister_lt hrd
  refine ⟨.ci "c.lui" rd (.value v), .lui, [.r rd, .i v], [.reg a, .imm v], .lui a v,
    resolve_imm rfl hv, by cls16, rfl, by cr_den, ?_, ?_, fun s => rfl⟩
  · cr_legal
  · simp only [intentOf16]
    rw [if_neg (by omega)]

/-- `lui rd, 0xfffe0…0xfffff` (the unsigned spelling of −32…−1): the RVC instruction is
    `c.lui rd, v − 2^20`, whose expansion has the same 20-bit field -/
theorem cr_lui_alt {rd : RegOp} {a : Nat} {imm : Imm} {v : Int} (hrd : lookupRegister rd = some a)
    (ha : a ≠ 0) (ha2 : a ≠ 2) (hv : ev imm = some v) (h2 : 0xfffe0 ≤ v) (h3 : v ≤ 0xfffff) :
    Compresses ev (.ci "c.lui" rd imm) (.lui a (v % 1048576).toNat) := by
  have hlt := lookupRegister_lt hrd
  have hm : (v - 1048576) % 1048576 = v % 1048576 := by omega
  refine ⟨.ci "c.lui" rd (.value v), .lui, [.r rd, .i v], [.reg a, .imm v], .lui a (v - 1048576),
    resolve_imm rfl hv, by cls16, rfl, by cr_den, ?_, ?_, fun s => ?_⟩
  · cr_legal
  · simp only [intentOf16]
    rw [if_pos (by omega)]
  · simp only [execC, expand16, hm]

theorem cr_srli {rd : RegOp} {a c : Nat} (hlit : LitOK ev) (hrd : lookupRegister rd = some a)
    (ha : 8 ≤ a) (ha' : a ≤ 15) (h1 : c ≠ 0) (h2 : c ≤ 31) :
    Compresses ev (.cb "c.srli" rd (.arith (toString c))) (.sh .srli a a c) := by
  refine ⟨.cb "c.srli" rd (.value c), .srli, [.r rd, .i c], [.reg a, .imm c], .srli a c,
    resolve_imm rfl (hlit c (by omega)), by cls16, rfl, by cr_den, ?_, ?_, fun s => rfl⟩
  · cr_legal
  · simp only [intentOf16, Int.toNat_natCast]

theorem cr_srai {rd : RegOp} {a c : Nat} (hlit : LitOK ev) (hrd : lookupRegister rd = some a)
    (ha : 8 ≤ a) (ha' : a ≤ 15) (h1 : c ≠ 0) (h2 : c ≤ 31) :
    Compresses ev (.cb "c.srai" rd (.arith (toString c))) (.sh .srai a a c) := by
  refine ⟨.cb "c.srai" rd (.value c), .srai, [.r rd, .i c], [.reg a, .imm c], .srai a c,
    resolve_imm rfl (hlit c (by omega)), by cls16, rfl, by cr_den, ?_, ?_, fun s => rfl⟩
  · cr_legal
  · simp only [intentOf16, Int.toNat_natCast]

theorem cr_slli {rd : RegOp} {a c : Nat} (hlit : LitOK ev) (hrd : lookupRegister rd = some a)
    (ha : a ≠ 0) (h1 : c ≠ 0) (h2 : c ≤ 31) :
    Compresses ev (.ci "c.slli" rd (.arith (toString c))) (.sh .slli a a c) := by
  have hlt := lookupRegister_lt hrd
  refine ⟨.ci "c.slli" rd (.value c), .slli, [.r rd, .i c], [.reg a, .imm c], .slli a c,
    resolve_imm rfl (hlit c (by omega)), by cls16, rfl, by cr_den, ?_, ?_, fun s => rfl⟩
  · cr_legal
  · simp only [intentOf16, Int.toNat_natCast]

theorem cr_andi {rd : RegOp} {a : Nat} {imm : Imm} {v : Int} (hrd : lookupRegister rd = some a)
    (ha : 8 ≤ a) (ha' : a ≤ 15) (hv : ev imm = some v) (h2 : -32 ≤ v) (h3 : v ≤ 31) :
    Compresses ev (.cb "c.andi" rd imm) (.i .andi a a v) := by
  refine ⟨.cb "c.andi" rd (.value v), .andi, [.r rd, .i v], [.reg a, .imm v], .andi a v,
    resolve_imm rfl hv, by cls16, rfl, by cr_den, ?_, rfl, fun s => rfl⟩
  cr_legal

theorem cr_sub {rd rs2 : RegOp} {a c : Nat} (hrd : lookupRegister rd = some a) (h2 : lookupRegister rs2 = some c)
    (ha : 8 ≤ a) (ha' : a ≤ 15) (hc : 8 ≤ c) (hc' : c ≤ 15) :
    Compresses ev (.ca "c.sub" rd rs2) (.r .sub a a c) := by
  refine ⟨.ca "c.sub" rd rs2, .sub, [.r rd, .r rs2], [.reg a, .reg c], .sub a c,
    resolve_noimm rfl, by cls16, rfl, by cr_den, ?_, rfl, fun s => rfl⟩
  cr_legal

theorem cr_xor {rd rs2 : RegOp} {a c : Nat} (hrd : lookupRegister rd = some a) (h2 : lookupRegister rs2 = some c)
    (ha : 8 ≤ a) (ha' : a ≤ 15) (hc : 8 ≤ c) (hc' : c ≤ 15) :
    Compresses ev (.ca "c.xor" rd rs2) (.r .xor a a c) := by
  refine ⟨.ca "c.xor" rd rs2, .xor, [.r rd, .r rs2], [.reg a, .reg c], .xor a c,
    resolve_noimm rfl, by cls16, rfl, by cr_den, ?_, rfl, fun s => rfl⟩
  cr_legal

theorem cr_or {rd rs2 : RegOp} {a c : Nat} (hrd : lookupRegister rd = some a) (h2 : lookupRegister rs2 = some c)
    (ha : 8 ≤ a) (ha' : a ≤ 15) (hc : 8 ≤ c) (hc' : c ≤ 15) :
    Compresses ev (.ca "c.or" rd rs2) (.r .or a a c) := by
  refine ⟨.ca "c.or" rd rs2, .or, [.r rd, .r rs2], [.reg a, .reg c], .or a c,
    resolve_noimm rfl, by cls16, rfl, by cr_den, ?_, rfl, fun s => rfl⟩
  cr_legal

theorem cr_and {rd rs2 : RegOp} {a c : Nat} (hrd : lookupRegister rd = some a) (h2 : lookupRegister rs2 = some c)
    (ha : 8 ≤ a) (ha' : a ≤ 15) (hc : 8 ≤ c) (hc' : c ≤ 15) :
    Compresses ev (.ca "c.and" rd rs2) (.r .and a a c) := by
  refine ⟨.ca "c.and" rd rs2, .and, [.r rd, .r rs2], [.reg a, .reg c], .and a c,
    resolve_noimm rfl, by cls16, rfl, by cr_den, ?_, rfl, fun s => rfl⟩
  cr_legal

theorem cr_beqz {rs1 : RegOp} {a : Nat} {imm : Imm} {v : Int} (h1 : lookupRegister rs1 = some a)
    (ha : 8 ≤ a) (ha' : a ≤ 15) (hv : ev imm = some v) (h2 : v % 2 = 0) (h3 : -256 ≤ v) (h4 : v ≤ 255) :
    Compresses ev (.cb "c.beqz" rs1 imm) (.branch .beq a 0 v) := by
  refine ⟨.cb "c.beqz" rs1 (.value v), .beqz, [.r rs1, .i v], [.reg a, .imm v], .beqz a v,
    resolve_imm rfl hv, by cls16, rfl, by cr_den, ?_, rfl, fun s => rfl⟩
  cr_legal

theorem cr_bnez {rs1 : RegOp} {a : Nat} {imm : Imm} {v : Int} (h1 : lookupRegister rs1 = some a)
    (ha : 8 ≤ a) (ha' : a ≤ 15) (hv : ev imm = some v) (h2 : v % 2 = 0) (h3 : -256 ≤ v) (h4 : v ≤ 255) :
    Compresses ev (.cb "c.bnez" rs1 imm) (.branch .bne a 0 v) := by
  refine ⟨.cb "c.bnez" rs1 (.value v), .bnez, [.r rs1, .i v], [.reg a, .imm v], .bnez a v,
    resolve_imm rfl hv, by cls16, rfl, by cr_den, ?_, rfl, fun s => rfl⟩
  cr_legal

theorem cr_lwsp {rd : RegOp} {a : Nat} {imm : Imm} {v : Int} (hrd : lookupRegister rd = some a)
    (ha : a ≠ 0) (hv : ev imm = some v) (h2 : v % 4 = 0) (h3 : 0 ≤ v) (h4 : v ≤ 255) :
    Compresses ev (.ci "c.lwsp" rd imm) (.load .lw a 2 v) := by
  have hlt := lookupRegister_lt hrd
  have hv' : ((v.toNat : Nat) : Int) = v := by omega
  refine ⟨.ci "c.lwsp" rd (.value v), .lwsp, [.r rd, .i v], [.reg a, .imm v], .lwsp a v.toNat,
    resolve_imm rfl hv, by cls16, rfl, by cr_den, ?_, rfl, fun s => ?_⟩
  · cr_legal
  · simp only [execC, expand16, hv']

theorem cr_swsp {rs2 : RegOp} {c : Nat} {imm : Imm} {v : Int} (h2 : lookupRegister rs2 = some c)
    (hv : ev imm = some v) (h3 : v % 4 = 0) (h4 : 0 ≤ v) (h5 : v ≤ 255) :
    Compresses ev (.css "c.swsp" rs2 imm) (.store .sw 2 c v) := by
  have hlt := lookupRegister_lt h2
  have hv' : ((v.toNat : Nat) : Int) = v := by omega
  refine ⟨.css "c.swsp" rs2 (.value v), .swsp, [.r rs2, .i v], [.reg c, .imm v], .swsp c v.toNat,
    resolve_imm rfl hv, by cls16, rfl, by cr_den, ?_, rfl, fun s => ?_⟩
  · cr_legal
  · simp only [execC, expand16, hv']

theorem cr_jr {rs1 : RegOp} {b : Nat} (h1 : lookupRegister rs1 = some b) (hb : b ≠ 0) :
    Compresses ev (.crj "c.jr" rs1 false) (.jalr 0 b 0) := by
  have hlt := lookupRegister_lt h1
  refine ⟨.crj "c.jr" rs1 false, .jr, [.r rs1], [.reg b], .jr b,
    resolve_noimm rfl, by cls16, rfl, by cr_den, ?_, rfl, fun s => rfl⟩
  cr_legal

theorem cr_jalr {rs1 : RegOp} {b : Nat} (h1 : lookupRegister rs1 = some b) (hb : b ≠ 0) :
    Compresses ev (.crj "c.jalr" rs1 false) (.jalr 1 b 0) := by
  have hlt := lookupRegister_lt h1
  refine ⟨.crj "c.jalr" rs1 false, .jalr, [.r rs1], [.reg b], .jalr b,
    resolve_noimm rfl, by cls16, rfl, by cr_den, ?_, rfl, fun s => rfl⟩
  cr_legal

theorem cr_mv {rd rs2 : RegOp} {a c : Nat} (hrd : lookupRegister rd = some a) (h2 : lookupRegister rs2 = some c)
    (ha : a ≠ 0) (hc : c ≠ 0) :
    Compresses ev (.cr "c.mv" rd rs2) (.r .add a 0 c) := by
  have hlt := lookupRegister_lt hrd
  have hlt2 := lookupRegister_lt h2
  refine ⟨.cr "c.mv" rd rs2, .mv, [.r rd, .r rs2], [.reg a, .reg c], .mv a c,
    resolve_noimm rfl, by cls16, rfl, by cr_den, ?_, rfl, fun s => rfl⟩
  cr_legal

/-- `addi rd, rs, 0 → c.mv rd, rs`: `c.mv` expands to `add rd, x0, rs`, a different instruction
    with the same effect (x0 + rs = rs + 0) — the one rule that needs the semantic argument -/
theorem cr_mv_alt {rd rs1 : RegOp} {a b : Nat} (hrd : lookupRegister rd = some a) (h1 : lookupRegister rs1 = some b)
    (ha : a ≠ 0) (hb : b ≠ 0) :
    Compresses ev (.cr "c.mv" rd rs1) (.i .addi a b 0) := by
  have hlt := lookupRegister_lt hrd
  have hlt2 := lookupRegister_lt h1
  refine ⟨.cr "c.mv" rd rs1, .mv, [.r rd, .r rs1], [.reg a, .reg b], .mv a b,
    resolve_noimm rfl, by cls16, rfl, by cr_den, ?_, rfl, fun s => ?_⟩
  · cr_legal
  · simp only [execC, expand16, exec_r, exec_i, aluR, aluI, get_zero, imm32, bv_zero_add32, bv_add_zero32]

theorem cr_ebreak : Compresses ev (.cre "c.ebreak") .ebreak :=
  ⟨.cre "c.ebreak", .ebreak, [], [], .ebreak, resolve_noimm rfl, by cls16, rfl, rfl, rfl, rfl, fun _ => rfl⟩

theorem cr_add {rd rs2 : RegOp} {a c : Nat} (hrd : lookupRegister rd = some a) (h2 : lookupRegister rs2 = some c)
    (ha : a ≠ 0) (hc : c ≠ 0) :
    Compresses ev (.cr "c.add" rd rs2) (.r .add a a c) := by
  have hlt := lookupRegister_lt hrd
  have hlt2 := lookupRegister_lt h2
  refine ⟨.cr "c.add" rd rs2, .add, [.r rd, .r rs2], [.reg a, .reg c], .add a c,
    resolve_noimm rfl, by cls16, rfl, by cr_den, ?_, rfl, fun s => rfl⟩
  cr_legal

end
end BB.Lemmas
