/-
  BB.Lemmas.ErrLocalData — data directives as good items and as faulty items: `pack`, the shorthand
  packs `db dh dw dd`, the numeric sequences `bytes … longlongs`.
-/
import BB.Lemmas.ErrLocal
namespace BB.Lemmas
open BB

/-- the three stages in front of `tailStages` leave a non-instruction, non-pseudo item with a size alone -/
theorem front_fixed {Q : Dict → Prop} (H : Hooks) (c : Bool) {y : Item} (hnl : ∀ l n, y ≠ .label l n)
    (hni : ∀ line ins, y ≠ .instr line ins) (hnp : ∀ line n a, y ≠ .pseudo line n a)
    (hk : keepItem y = .ok ([y], 0)) :
    (Passes Q (tailStages H) y → Passes Q (stages H c) y) ∧
    (∀ e, Dies Q e (tailStages H) y → Dies Q e (stages H c) y) := by
  rw [stages_eq]
  refine ⟨fun h => ?_, fun e h => ?_⟩
  · refine passes_cons_fixed hnl (compressStage_other H c _ hni hk) ?_
    refine passes_cons_fixed hnl (pseudoStage_other H _ hnp hk) ?_
    exact passes_cons_fixed hnl (compressStage_other H c _ hni hk) h
  · refine dies_cons_fixed hnl (compressStage_other H c _ hni hk) ?_
    refine dies_cons_fixed hnl (pseudoStage_other H _ hnp hk) ?_
    exact dies_cons_fixed hnl (compressStage_other H c _ hni hk) h

/-! ### `pack <fmt> <expr>` -/

theorem keepE_pack {line : Line} {fmt : String} {imm : Imm} {n : Nat} (h : packSize fmt = some n) :
    keepItem (.pack line fmt imm) = .ok ([.pack line fmt imm], 0) := by
  simp [keepItem, Item.sizeE, Item.size?, h, bind, Except.bind, pure, Except.pure]

theorem immBody_pack {H : Hooks} {line : Line} {fmt : String} {imm : Imm} {n : Nat} (h : packSize fmt = some n)
    (p : Int) (l : Dict) :
    immBody H [] (.pack line fmt imm) p l =
      (match imm.eval H (chainGet [] l) line p with
       | .ok v => .ok ([.pack line fmt (.value v)], 0)
       | .error e => .error e) := by
  simp only [immBody, bind, Except.bind, pure, Except.pure]
  cases imm.eval H (chainGet [] l) line p with
  | error e => rfl
  | ok v => simp [Item.sizeE, Item.size?, h]

/-- after resolve_immediates a pack goes unchanged to resolve_packs -/
theorem pack_value_tail (H : Hooks) (Q : Dict → Prop) (line : Line) (fmt : String) (v : Int) :
    (∀ bs, packFmt fmt v = .ok (some bs) →
      Passes Q (stepStage instrStep :: blobStages H) (.pack line fmt (.value v))) ∧
    (packFmt fmt v = .ok none →
      Dies Q (.asm line) (stepStage instrStep :: blobStages H) (.pack line fmt (.value v))) := by
  have hnl : ∀ l n, Item.pack line fmt (.value v) ≠ .label l n := by intro l n h; cases h
  unfold blobStages
  refine ⟨fun bs hb => ?_, fun hb => ?_⟩
  · refine passes_cons_fixed hnl (fun _ _ => rfl) ?_
    refine passes_cons_fixed hnl (fun _ _ => rfl) ?_
    refine passes_cons_fixed hnl (fun _ _ => rfl) ?_
    refine passes_cons_fixed hnl (fun _ _ => rfl) ?_
    refine passes_cons_to hnl (fun _ _ _ => ⟨.blob line bs, by simp [stepStage, packStep, hb, bind, Except.bind, pure, Except.pure], ?_⟩)
    exact passes_cons_fixed (by intro l n h; cases h) (fun _ _ => rfl) trivial
  · refine dies_cons_fixed hnl (fun _ _ => rfl) ?_
    refine dies_cons_fixed hnl (fun _ _ => rfl) ?_
    refine dies_cons_fixed hnl (fun _ _ => rfl) ?_
    refine dies_cons_fixed hnl (fun _ _ => rfl) ?_
    exact dies_cons_now hnl (fun _ _ _ => by simp [stepStage, packStep, hb, bind, Except.bind])

theorem passes_pack (H : Hooks) (c : Bool) (Q : Dict → Prop) {line : Line} {fmt : String} {imm : Imm} {n : Nat}
    {v : Int} {bs : List Nat} (hs : packSize fmt = some n) (hv : LitImm H imm v) (hb : packFmt fmt v = .ok (some bs)) :
    Passes Q (stages H c) (.pack line fmt imm) := by
  have hnl : ∀ l n, Item.pack line fmt imm ≠ .label l n := by intro l n h; cases h
  have hk := keepE_pack (line := line) (imm := imm) hs
  refine (front_fixed H c hnl (by intro _ _ h; cases h) (by intro _ _ _ h; cases h) hk).1 ?_
  unfold tailStages
  refine passes_cons_fixed hnl (fun _ _ => by simp [bodyStage, alignBody, hk]) ?_
  refine passes_cons_to hnl (fun p l _ => ⟨.pack line fmt (.value v), by simp [bodyStage, immBody_pack hs, hv _ _ _], ?_⟩)
  exact (pack_value_tail H Q line fmt v).1 bs hb

/-- `pack <B 256`: a literal value that does not fit the format -/
theorem dies_pack_misfit (H : Hooks) (c : Bool) (Q : Dict → Prop) {line : Line} {fmt : String} {imm : Imm} {n : Nat}
    {v : Int} (hs : packSize fmt = some n) (hv : LitImm H imm v) (hb : packFmt fmt v = .ok none) :
    Dies Q (.asm line) (stages H c) (.pack line fmt imm) := by
  have hnl : ∀ l n, Item.pack line fmt imm ≠ .label l n := by intro l n h; cases h
  have hk := keepE_pack (line := line) (imm := imm) hs
  refine (front_fixed H c hnl (by intro _ _ h; cases h) (by intro _ _ _ h; cases h) hk).2 _ ?_
  unfold tailStages
  refine dies_cons_fixed hnl (fun _ _ => by simp [bodyStage, alignBody, hk]) ?_
  refine dies_cons_to hnl (fun p l _ => Or.inr ⟨.pack line fmt (.value v), by simp [bodyStage, immBody_pack hs, hv _ _ _], ?_⟩)
  exact (pack_value_tail H Q line fmt v).2 hb

/-- `pack <I nowhere`: the value does not evaluate -/
theorem dies_pack_eval (H : Hooks) (c : Bool) (Q : Dict → Prop) {line : Line} {fmt : String} {imm : Imm} {n : Nat}
    (hs : packSize fmt = some n)
    (hv : ∀ p l, Q l → imm.eval H (chainGet [] l) line p = .error (.asm line)) :
    Dies Q (.asm line) (stages H c) (.pack line fmt imm) := by
  have hnl : ∀ l n, Item.pack line fmt imm ≠ .label l n := by intro l n h; cases h
  have hk := keepE_pack (line := line) (imm := imm) hs
  refine (front_fixed H c hnl (by intro _ _ h; cases h) (by intro _ _ _ h; cases h) hk).2 _ ?_
  unfold tailStages
  refine dies_cons_fixed hnl (fun _ _ => by simp [bodyStage, alignBody, hk]) ?_
  exact dies_cons_now hnl (fun p l hl => by simp [bodyStage, immBody_pack hs, hv p l hl])

/-! ### `db dh dw dd <expr>` -/

theorem keepE_shorthand {line : Line} {name : String} {imm : Imm} {n : Nat} (h : shorthandSize name = some n) :
    keepItem (.shorthandPack line name imm) = .ok ([.shorthandPack line name imm], 0) := by
  simp [keepItem, Item.sizeE, Item.size?, h, bind, Except.bind, pure, Except.pure]

theorem immBody_shorthand {H : Hooks} {line : Line} {name : String} {imm : Imm} {n : Nat}
    (h : shorthandSize name = some n) (p : Int) (l : Dict) :
    immBody H [] (.shorthandPack line name imm) p l =
      (match imm.eval H (chainGet [] l) line p with
       | .ok v => .ok ([.shorthandPack line name (.value v)], 0)
       | .error e => .error e) := by
  simp only [immBody, bind, Except.bind, pure, Except.pure]
  cases imm.eval H (chainGet [] l) line p with
  | error e => rfl
  | ok v => simp [Item.sizeE, Item.size?, h]

/-- `db 256`, `dh -32769`, `dw 1 << 32`: a literal value that does not fit -/
theorem dies_shorthand_misfit (H : Hooks) (c : Bool) (Q : Dict → Prop) {line : Line} {name fmt : String} {imm : Imm}
    {n : Nat} {v : Int} (hs : shorthandSize name = some n) (hv : LitImm H imm v)
    (hf : shorthandFmt name v = some fmt) (hb : packFmt fmt v = .ok none) :
    Dies Q (.asm line) (stages H c) (.shorthandPack line name imm) := by
  have hnl : ∀ (i : Imm) l n, Item.shorthandPack line name i ≠ .label l n := by intro i l n h; cases h
  have hk := keepE_shorthand (line := line) (imm := imm) hs
  refine (front_fixed H c (hnl imm) (by intro _ _ h; cases h) (by intro _ _ _ h; cases h) hk).2 _ ?_
  unfold tailStages
  refine dies_cons_fixed (hnl imm) (fun _ _ => by simp [bodyStage, alignBody, hk]) ?_
  refine dies_cons_to (hnl imm) (fun p l _ => Or.inr ⟨.shorthandPack line name (.value v),
    by simp [bodyStage, immBody_shorthand hs, hv _ _ _], ?_⟩)
  unfold blobStages
  refine dies_cons_fixed (hnl _) (fun _ _ => rfl) ?_
  refine dies_cons_fixed (hnl _) (fun _ _ => rfl) ?_
  refine dies_cons_fixed (hnl _) (fun _ _ => rfl) ?_
  refine dies_cons_to (hnl _) (fun _ _ _ => Or.inr ⟨.pack line fmt (.value v),
    by simp [stepStage, shorthandStep, hf, pure, Except.pure], ?_⟩)
  have hnlp : ∀ l n, Item.pack line fmt (.value v) ≠ .label l n := by intro l n h; cases h
  exact dies_cons_now hnlp (fun _ _ _ => by simp [stepStage, packStep, hb, bind, Except.bind])

/-- `dw nowhere`, `dd FOO + 4`, `dh 1 +`: the value does not evaluate -/
theorem dies_shorthand_eval (H : Hooks) (c : Bool) (Q : Dict → Prop) {line : Line} {name : String} {imm : Imm} {n : Nat}
    (hs : shorthandSize name = some n)
    (hv : ∀ p l, Q l → imm.eval H (chainGet [] l) line p = .error (.asm line)) :
    Dies Q (.asm line) (stages H c) (.shorthandPack line name imm) := by
  have hnl : ∀ l n, Item.shorthandPack line name imm ≠ .label l n := by intro l n h; cases h
  have hk := keepE_shorthand (line := line) (imm := imm) hs
  refine (front_fixed H c hnl (by intro _ _ h; cases h) (by intro _ _ _ h; cases h) hk).2 _ ?_
  unfold tailStages
  refine dies_cons_fixed hnl (fun _ _ => by simp [bodyStage, alignBody, hk]) ?_
  exact dies_cons_now hnl (fun p l hl => by simp [bodyStage, immBody_shorthand hs, hv p l hl])

theorem passes_shorthand (H : Hooks) (c : Bool) (Q : Dict → Prop) {line : Line} {name fmt : String} {imm : Imm}
    {n : Nat} {v : Int} {bs : List Nat} (hs : shorthandSize name = some n) (hv : LitImm H imm v)
    (hf : shorthandFmt name v = some fmt) (hb : packFmt fmt v = .ok (some bs)) :
    Passes Q (stages H c) (.shorthandPack line name imm) := by
  have hnl : ∀ (i : Imm) l n, Item.shorthandPack line name i ≠ .label l n := by intro i l n h; cases h
  have hk := keepE_shorthand (line := line) (imm := imm) hs
  refine (front_fixed H c (hnl imm) (by intro _ _ h; cases h) (by intro _ _ _ h; cases h) hk).1 ?_
  unfold tailStages
  refine passes_cons_fixed (hnl imm) (fun _ _ => by simp [bodyStage, alignBody, hk]) ?_
  refine passes_cons_to (hnl imm) (fun p l _ => ⟨.shorthandPack line name (.value v),
    by simp [bodyStage, immBody_shorthand hs, hv _ _ _], ?_⟩)
  unfold blobStages
  refine passes_cons_fixed (hnl _) (fun _ _ => rfl) ?_
  refine passes_cons_fixed (hnl _) (fun _ _ => rfl) ?_
  refine passes_cons_fixed (hnl _) (fun _ _ => rfl) ?_
  refine passes_cons_to (hnl _) (fun _ _ _ => ⟨.pack line fmt (.value v),
    by simp [stepStage, shorthandStep, hf, pure, Except.pure], ?_⟩)
  have hnlp : ∀ l n, Item.pack line fmt (.value v) ≠ .label l n := by intro l n h; cases h
  refine passes_cons_to hnlp (fun _ _ _ => ⟨.blob line bs, by simp [stepStage, packStep, hb, bind, Except.bind, pure, Except.pure], ?_⟩)
  exact passes_cons_fixed (by intro l n h; cases h) (fun _ _ => rfl) trivial

/-! ### `bytes shorts ints longs longlongs <literal> …` -/

theorem keepE_sequence {line : Line} {name : String} {vals : List String} {n : Nat} (h : sequenceElemSize name = some n) :
    keepItem (.sequence line name vals) = .ok ([.sequence line name vals], 0) := by
  simp [keepItem, Item.sizeE, Item.size?, h, bind, Except.bind, pure, Except.pure]

theorem passes_sequence (H : Hooks) (c : Bool) (Q : Dict → Prop) {line : Line} {name : String} {vals : List String}
    {n : Nat} {bs : List Nat} (hs : sequenceElemSize name = some n)
    (hb : seqStep (.sequence line name vals) = .ok (.blob line bs)) :
    Passes Q (stages H c) (.sequence line name vals) := by
  have hnl : ∀ l n, Item.sequence line name vals ≠ .label l n := by intro l n h; cases h
  have hnlb : ∀ l n, Item.blob line bs ≠ .label l n := by intro l n h; cases h
  have hk := keepE_sequence (line := line) (vals := vals) hs
  refine (front_fixed (Q := Q) H c hnl (by intro _ _ h; cases h) (by intro _ _ _ h; cases h) hk).1 ?_
  unfold tailStages
  refine passes_cons_fixed hnl (fun _ _ => by simp [bodyStage, alignBody, hk]) ?_
  refine passes_cons_fixed hnl (fun _ _ => by simp [bodyStage, immBody, hk]) ?_
  refine passes_cons_fixed hnl (fun _ _ => rfl) ?_
  unfold blobStages
  refine passes_cons_fixed hnl (fun _ _ => rfl) ?_
  refine passes_cons_to hnl (fun _ _ _ => ⟨.blob line bs, by simp [stepStage, hb], ?_⟩)
  refine passes_cons_fixed hnlb (fun _ _ => rfl) ?_
  refine passes_cons_fixed hnlb (fun _ _ => rfl) ?_
  exact passes_cons_fixed hnlb (fun _ _ => rfl) trivial

/-- `bytes 256 0`, `shorts -32769`, `bytes zz`: resolve_sequences refuses the directive -/
theorem dies_sequence (H : Hooks) (c : Bool) (Q : Dict → Prop) {line : Line} {name : String} {vals : List String}
    {n : Nat} (hs : sequenceElemSize name = some n)
    (he : seqStep (.sequence line name vals) = .error (.asm line)) :
    Dies Q (.asm line) (stages H c) (.sequence line name vals) := by
  have hnl : ∀ l n, Item.sequence line name vals ≠ .label l n := by intro l n h; cases h
  have hk := keepE_sequence (line := line) (vals := vals) hs
  refine (front_fixed (Q := Q) H c hnl (by intro _ _ h; cases h) (by intro _ _ _ h; cases h) hk).2 _ ?_
  unfold tailStages
  refine dies_cons_fixed hnl (fun _ _ => by simp [bodyStage, alignBody, hk]) ?_
  refine dies_cons_fixed hnl (fun _ _ => by simp [bodyStage, immBody, hk]) ?_
  refine dies_cons_fixed hnl (fun _ _ => rfl) ?_
  unfold blobStages
  refine dies_cons_fixed hnl (fun _ _ => rfl) ?_
  exact dies_cons_now hnl (fun _ _ _ => by simp [stepStage, he])

end BB.Lemmas
