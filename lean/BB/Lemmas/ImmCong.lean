/-
  BB.Lemmas.ImmCong — item lists that differ only in how their immediates are WRITTEN.

  `ImmRel H P a b` : the immediates `a`, `b` have the same shape, and where they differ it is in an
                     `Arithmetic` expression string whose value under `H.arith` is the same in every
                     environment satisfying `P`
  `InstrRel`, `ItemRel` : the same for instructions and items (a constant definition must agree in
                     EVERY environment; a pseudo-instruction may differ in its operand tokens when the
                     two expansions are related at every `P`-environment)
  `Rel2`           : pointwise on lists
  `ExRel`          : both fail with the same error, or both succeed with related results
  `walk_rel`       : the loop combinator maps related lists to related lists
-/
import BB.Lemmas.TrackLayout
set_option linter.unusedSimpArgs false
set_option linter.unusedVariables false
namespace BB.Lemmas
open BB

abbrev Env := String → Option Int

inductive ImmRel (H : Hooks) (P : Env → Prop) : Imm → Imm → Prop
  | refl (a : Imm) : ImmRel H P a a
  | arith (e e' : String) : (∀ env, P env → H.arith e env = H.arith e' env) → ImmRel H P (.arith e) (.arith e')
  | position (ref e e' : String) : (∀ env, P env → H.arith e env = H.arith e' env) →
      ImmRel H P (.position ref e) (.position ref e')
  | hi {a b : Imm} : ImmRel H P a b → ImmRel H P (.hi a) (.hi b)
  | lo {a b : Imm} : ImmRel H P a b → ImmRel H P (.lo a) (.lo b)

theorem ImmRel.eval {H : Hooks} {P : Env → Prop} {a b : Imm} (h : ImmRel H P a b) (env : Env) (hP : P env)
    (line : Line) (p : Int) : a.eval H env line p = b.eval H env line p := by
  induction h generalizing p with
  | refl a => rfl
  | arith e e' he => simp only [Imm.eval, he env hP]
  | position ref e e' he => simp only [Imm.eval, he env hP]
  | hi _ ih => simp only [Imm.eval, ih]
  | lo _ ih => simp only [Imm.eval, ih]

theorem ImmRel.value_left {H : Hooks} {P : Env → Prop} {v : Int} {b : Imm} (h : ImmRel H P (.value v) b) : b = .value v := by
  cases h; rfl

theorem ImmRel.mono {H : Hooks} {P Q : Env → Prop} (hPQ : ∀ env, Q env → P env) {a b : Imm} (h : ImmRel H P a b) :
    ImmRel H Q a b := by
  induction h with
  | refl a => exact .refl a
  | arith e e' he => exact .arith e e' (fun env hq => he env (hPQ env hq))
  | position ref e e' he => exact .position ref e e' (fun env hq => he env (hPQ env hq))
  | hi _ ih => exact .hi ih
  | lo _ ih => exact .lo ih

/-- the same instruction, up to how the immediate is written -/
def InstrRel (H : Hooks) (P : Env → Prop) (a b : Instr) : Prop :=
  a = b ∨ ∃ imm imm', a.imm? = some imm ∧ ImmRel H P imm imm' ∧ b = a.setImm imm'

theorem InstrRel.refl {H : Hooks} {P : Env → Prop} (a : Instr) : InstrRel H P a a := Or.inl rfl

theorem setImm_imm {a : Instr} {imm x : Imm} (h : a.imm? = some imm) : (a.setImm x).imm? = some x := by
  cases a <;> simp [Instr.imm?, Instr.setImm] at h ⊢

theorem setImm_name' (a : Instr) (x : Imm) : (a.setImm x).name = a.name := by cases a <;> rfl
theorem setImm_aj (a : Instr) (x : Imm) : (a.setImm x).isAuipcJump = a.isAuipcJump := by cases a <;> rfl
theorem setImm_fld' (a : Instr) (x : Imm) (f : Fld) : (a.setImm x).fld f = a.fld f := by cases a <;> cases f <;> rfl
theorem setImm_comp (a : Instr) (x : Imm) : (a.setImm x).isCompressed = a.isCompressed := by cases a <;> rfl
theorem setImm_mapRegs (g : RegOp → RegOp) (a : Instr) (x : Imm) : (a.setImm x).mapRegs g = (a.mapRegs g).setImm x := by
  cases a <;> rfl
theorem mapRegs_imm' (g : RegOp → RegOp) (a : Instr) : (a.mapRegs g).imm? = a.imm? := by cases a <;> rfl
theorem setImm_setImm (a : Instr) (x y : Imm) : (a.setImm x).setImm y = a.setImm y := by cases a <;> rfl

section InstrRel
variable {H : Hooks} {P : Env → Prop} {a b : Instr}

theorem InstrRel.name (h : InstrRel H P a b) : b.name = a.name := by
  rcases h with rfl | ⟨_, _, _, _, rfl⟩
  · rfl
  · exact setImm_name' _ _

theorem InstrRel.aj (h : InstrRel H P a b) : b.isAuipcJump = a.isAuipcJump := by
  rcases h with rfl | ⟨_, _, _, _, rfl⟩
  · rfl
  · exact setImm_aj _ _

theorem InstrRel.fld (h : InstrRel H P a b) (f : Fld) : b.fld f = a.fld f := by
  rcases h with rfl | ⟨_, _, _, _, rfl⟩
  · rfl
  · exact setImm_fld' _ _ f

theorem InstrRel.comp (h : InstrRel H P a b) : b.isCompressed = a.isCompressed := by
  rcases h with rfl | ⟨_, _, _, _, rfl⟩
  · rfl
  · exact setImm_comp _ _

theorem InstrRel.mapRegs (h : InstrRel H P a b) (g : RegOp → RegOp) : InstrRel H P (a.mapRegs g) (b.mapRegs g) := by
  rcases h with rfl | ⟨imm, imm', hi, hr, rfl⟩
  · exact Or.inl rfl
  · exact Or.inr ⟨imm, imm', by rw [mapRegs_imm']; exact hi, hr, setImm_mapRegs g a imm'⟩

/-- the immediates of related instructions: both absent, or related -/
theorem InstrRel.imm (h : InstrRel H P a b) :
    (a.imm? = none ∧ b.imm? = none) ∨ ∃ x y, a.imm? = some x ∧ b.imm? = some y ∧ ImmRel H P x y := by
  rcases h with rfl | ⟨imm, imm', hi, hr, rfl⟩
  · cases hi : a.imm? with
    | none => exact Or.inl ⟨rfl, rfl⟩
    | some x => exact Or.inr ⟨x, x, rfl, rfl, .refl x⟩
  · exact Or.inr ⟨imm, imm', hi, setImm_imm hi, hr⟩

theorem InstrRel.setValue (h : InstrRel H P a b) (v : Int) : b.setImm (.value v) = a.setImm (.value v) := by
  rcases h with rfl | ⟨_, _, _, _, rfl⟩
  · rfl
  · exact setImm_setImm _ _ _

theorem InstrRel.immOf (h : InstrRel H P a b) (env : Env) (hP : P env) (line : Line) (p : Int) :
    immOf H env line b p = immOf H env line a p := by
  unfold BB.immOf
  rcases h.imm with ⟨h1, h2⟩ | ⟨x, y, h1, h2, hr⟩
  · rw [h1, h2]
  · rw [h1, h2]; exact (hr.eval env hP line p).symm

theorem InstrRel.regOf (h : InstrRel H P a b) (line : Line) (f : Fld) : regOf line b f = regOf line a f := by
  unfold BB.regOf; rw [h.fld f]

theorem InstrRel.predEval (h : InstrRel H P a b) (env : Env) (hP : P env) (line : Line) (p : Int) (pr : Pred) :
    pr.eval H env line b p = pr.eval H env line a p := by
  cases pr <;> simp only [Pred.eval, h.name, h.regOf, h.immOf env hP]

theorem InstrRel.allPreds (h : InstrRel H P a b) (env : Env) (hP : P env) (line : Line) (p : Int) (preds : List Pred) :
    allPreds H env line b p preds = allPreds H env line a p preds := by
  induction preds with
  | nil => rfl
  | cons pr rest ih => simp only [BB.allPreds, h.predEval env hP, ih]

theorem InstrRel.firstMatch (h : InstrRel H P a b) (env : Env) (hP : P env) (line : Line) (p : Int)
    (cr : List (String × List Pred)) : firstMatch H env line b p cr = firstMatch H env line a p cr := by
  induction cr with
  | nil => rfl
  | cons e rest ih =>
    obtain ⟨nm, preds⟩ := e
    simp only [BB.firstMatch, h.allPreds env hP, ih]

theorem option_map_ite {α β : Type} (g : α → β) (c : Prop) [Decidable c] (a b : Option α) :
    Option.map g (if c then a else b) = if c then Option.map g a else Option.map g b := by
  split <;> rfl

theorem compressedForm_setImm {c : String} {a : Instr} {imm : Imm} (hi : a.imm? = some imm) (x : Imm) :
    compressedForm c (a.setImm x) = (compressedForm c a).map (fun cf => cf.setImm x) := by
  cases a <;> simp only [Instr.imm?, reduceCtorEq] at hi <;>
    simp only [compressedForm, Instr.setImm, option_map_ite, Option.map_some, Option.map_none]

theorem compressedForm_imm_of {c : String} {a cf : Instr} {imm : Imm} (hi : a.imm? = some imm)
    (h : compressedForm c a = some cf) : cf.imm? = none ∨ cf.imm? = some imm := by
  cases a <;> simp only [Instr.imm?, reduceCtorEq, Option.some.injEq] at hi <;> subst hi <;> simp only [compressedForm] at h
  all_goals (repeat' split at h)
  all_goals (first | (simp at h; done) | (simp only [Option.some.injEq] at h; subst h; simp [Instr.imm?]))

theorem InstrRel.compressedForm (h : InstrRel H P a b) (c : String) :
    (compressedForm c a = none ∧ compressedForm c b = none) ∨
    ∃ cf cf', compressedForm c a = some cf ∧ compressedForm c b = some cf' ∧ InstrRel H P cf cf' := by
  rcases h with rfl | ⟨imm, imm', hi, hr, rfl⟩
  · cases hc : BB.compressedForm c a with
    | none => exact Or.inl ⟨rfl, rfl⟩
    | some cf => exact Or.inr ⟨cf, cf, rfl, rfl, Or.inl rfl⟩
  · rw [compressedForm_setImm hi]
    cases hc : BB.compressedForm c a with
    | none => exact Or.inl ⟨rfl, rfl⟩
    | some cf =>
      refine Or.inr ⟨cf, cf.setImm imm', rfl, rfl, ?_⟩
      rcases compressedForm_imm_of hi hc with hn | hs
      · left
        cases cf <;> simp [Instr.imm?] at hn <;> rfl
      · exact Or.inr ⟨imm, imm', hs, hr, rfl⟩

end InstrRel

/-! ### items, lists, results -/

def ExRel {α β : Type} (R : α → β → Prop) : Except Err α → Except Err β → Prop
  | .ok a, .ok b => R a b
  | .error e, .error e' => e = e'
  | _, _ => False

theorem ExRel.bind {α β γ δ : Type} {R : α → β → Prop} {S : γ → δ → Prop} {x : Except Err α} {y : Except Err β}
    {f : α → Except Err γ} {g : β → Except Err δ} (h : ExRel R x y) (hf : ∀ a b, R a b → ExRel S (f a) (g b)) :
    ExRel S (x >>= f) (y >>= g) := by
  cases x <;> cases y <;> simp only [ExRel] at h
  · subst h; rfl
  · exact hf _ _ h

theorem ExRel.rfl' {α : Type} {R : α → α → Prop} (hR : ∀ a, R a a) (x : Except Err α) : ExRel R x x := by
  cases x with
  | error e => rfl
  | ok a => exact hR a

theorem ExRel.of_eq {α : Type} {x y : Except Err α} (h : x = y) : ExRel Eq x y := by
  subst h; cases x <;> simp [ExRel]

theorem ExRel.eq {α : Type} {x y : Except Err α} (h : ExRel Eq x y) : x = y := by
  cases x <;> cases y <;> simp only [ExRel] at h <;> subst h <;> rfl

/-- expansions of a pseudo-instruction: the same error, or the same flag and related instructions -/
inductive Rel2 {α : Type} (R : α → α → Prop) : List α → List α → Prop
  | nil : Rel2 R [] []
  | cons {a b : α} {l l' : List α} : R a b → Rel2 R l l' → Rel2 R (a :: l) (b :: l')

theorem Rel2.refl {α : Type} {R : α → α → Prop} (hR : ∀ a, R a a) : ∀ l : List α, Rel2 R l l
  | [] => .nil
  | a :: l => .cons (hR a) (Rel2.refl hR l)

theorem Rel2.append {α : Type} {R : α → α → Prop} {a b c d : List α} (h1 : Rel2 R a b) (h2 : Rel2 R c d) :
    Rel2 R (a ++ c) (b ++ d) := by
  induction h1 with
  | nil => exact h2
  | cons h _ ih => exact .cons h ih

theorem Rel2.map {α β : Type} {R : α → α → Prop} {S : β → β → Prop} {f g : α → β} (hf : ∀ a b, R a b → S (f a) (g b))
    {l l' : List α} (h : Rel2 R l l') : Rel2 S (l.map f) (l'.map g) := by
  induction h with
  | nil => exact .nil
  | cons h _ ih => exact .cons (hf _ _ h) ih

theorem Rel2.eq {α : Type} {l l' : List α} (h : Rel2 Eq l l') : l = l' := by
  induction h with
  | nil => rfl
  | cons h _ ih => rw [h, ih]

inductive ItemRel (H : Hooks) (P : Env → Prop) : Item → Item → Prop
  | refl (a : Item) : ItemRel H P a a
  | instr (line : Line) {a b : Instr} : InstrRel H P a b → ItemRel H P (.instr line a) (.instr line b)
  | constant (line : Line) (name : String) {e e' : Imm} : ImmRel H (fun _ => True) e e' →
      ItemRel H P (.constant line name e) (.constant line name e')
  | pack (line : Line) (fmt : String) {e e' : Imm} : ImmRel H P e e' → ItemRel H P (.pack line fmt e) (.pack line fmt e')
  | shorthand (line : Line) (name : String) {e e' : Imm} : ImmRel H P e e' →
      ItemRel H P (.shorthandPack line name e) (.shorthandPack line name e')
  | pseudo (line : Line) (name : String) (args args' : List String) :
      (∀ env p, P env → ExRel (fun r r' => Rel2 (InstrRel H P) r.1 r'.1 ∧ r.2 = r'.2)
        (expandPseudo H env line name args p) (expandPseudo H env line name args' p)) →
      ItemRel H P (.pseudo line name args) (.pseudo line name args')

section ItemRel
variable {H : Hooks} {P : Env → Prop} {a b : Item}

theorem ItemRel.size? (h : ItemRel H P a b) : b.size? = a.size? := by
  cases h with
  | refl => rfl
  | instr line hr => simp only [Item.size?, Instr.size, hr.comp]
  | _ => rfl

theorem ItemRel.sizeE (h : ItemRel H P a b) : b.sizeE = a.sizeE := by
  cases h with
  | refl => rfl
  | instr line hr => simp only [Item.sizeE, Item.size?, Instr.size, hr.comp]
  | _ => rfl

theorem ItemRel.sizeD (h : ItemRel H P a b) : b.sizeD = a.sizeD := by
  simp only [Item.sizeD, h.size?]

theorem ItemRel.label_left {l : Line} {n : String} (h : ItemRel H P (.label l n) b) : b = .label l n := by
  cases h; rfl

theorem ItemRel.label_right {l : Line} {n : String} (h : ItemRel H P a (.label l n)) : a = .label l n := by
  cases h; rfl

theorem rel2_sizeSum {l l' : List Item} (h : Rel2 (ItemRel H P) l l') : sizeSum l' = sizeSum l := by
  induction h with
  | nil => rfl
  | cons h _ ih => rw [sizeSum_cons, sizeSum_cons, h.sizeD, ih]

end ItemRel

/-- results of a loop body / of `walk` -/
def BodyRel (R : Item → Item → Prop) (r r' : List Item × Int) : Prop := Rel2 R r.1 r'.1 ∧ r.2 = r'.2
def WalkRel (R : Item → Item → Prop) (r r' : List Item × Dict) : Prop := Rel2 R r.1 r'.1 ∧ r.2 = r'.2

/-- **the loop combinator on related lists** -/
theorem walk_rel {f : Item → Int → Dict → Except Err (List Item × Int)} {R S : Item → Item → Prop}
    (hlabL : ∀ l n b, R (.label l n) b → b = .label l n) (hlabR : ∀ l n a, R a (.label l n) → a = .label l n)
    (hS : ∀ l n, S (.label l n) (.label l n))
    (hsz : ∀ r r' : List Item, Rel2 S r r' → sizeSum r' = sizeSum r)
    (hf : ∀ a b, R a b → (∀ l n, a ≠ .label l n) → ∀ p L, ExRel (BodyRel S) (f a p L) (f b p L))
    {G G' : List Item} (h : Rel2 R G G') : ∀ p L, ExRel (WalkRel S) (walk f G p L) (walk f G' p L) := by
  induction h with
  | nil => intro p L; exact ⟨.nil, rfl⟩
  | @cons a b l l' hab _ ih =>
    intro p L
    by_cases hl : ∃ ln n, a = .label ln n
    · obtain ⟨ln, n, rfl⟩ := hl
      have := hlabL ln n b hab
      subst this
      simp only [walk]
      refine ExRel.bind (ih p L) ?_
      rintro ⟨o, l1⟩ ⟨o', l1'⟩ ⟨h1, h2⟩
      exact ⟨.cons (hS ln n) h1, h2⟩
    · have hnl : ∀ ln n, a ≠ .label ln n := fun ln n e => hl ⟨ln, n, e⟩
      have hnl' : ∀ ln n, b ≠ .label ln n := by
        intro ln n e; subst e
        exact hnl ln n (hlabR ln n a hab)
      rw [walk_cons_of_not_label hnl, walk_cons_of_not_label hnl']
      refine ExRel.bind (hf a b hab hnl p L) ?_
      rintro ⟨r, n⟩ ⟨r', n'⟩ ⟨h1, h2⟩
      simp only at h1 h2
      subst h2
      simp only
      rw [hsz r r' h1]
      refine ExRel.bind (ih _ _) ?_
      rintro ⟨o, l1⟩ ⟨o', l1'⟩ ⟨h3, h4⟩
      exact ⟨h1.append h3, h4⟩

end BB.Lemmas
