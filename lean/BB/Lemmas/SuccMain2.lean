/-
  BB.Lemmas.SuccMain2 — the item-by-item argument of Lemmas/SuccMain without the 1 MiB span bound:
  `SpanA` (no `align` between a reference and its label), `two_run_dist'` (closer, same parity), and
  `lands_run1'` / `lands_final'`, where the one place that needed the bound — a far pair of the plain run
  that is a near `jal` in the -c run — takes the range as a hypothesis (`near_range`, Lemmas/NearRange,
  provides it).
-/
import BB.Lemmas.NearRange
set_option linter.unusedSimpArgs false
set_option linter.unusedVariables false
namespace BB.Lemmas
open BB BB.Spec
open BB.Props.C03 (Land Finish)

/-- no `align` between a reference and its label -/
def SpanA (G : List Item) : Prop :=
  ∀ P x S n, G = P ++ x :: S → Item.refs x n →
    (∀ Sa l Sb, S = Sa ++ .label l n :: Sb → NoAlign Sa) ∧ (∀ Pa l Pb, P = Pa ++ .label l n :: Pb → NoAlign Pb)

theorem Blocks.spanA {G G' : List Item} (h : Blocks G G') (hG : SpanA G) : SpanA G' := by
  intro P1 x S1 n e hrefs
  obtain ⟨A, s, B, P', rP, rS, S', eG, eP, eS, bA, bB, bs⟩ := h.split e
  have hsrefs : Item.refs s n := bs.refs x (List.mem_append_right _ List.mem_cons_self) n hrefs
  obtain ⟨hsnl, hsna⟩ := refs_not_marker hsrefs
  have hblock := bs.other hsnl hsna
  have hrP : NoLabel rP ∧ NoAlign rP :=
    ⟨fun y hy => (hblock y (List.mem_append_left _ hy)).1, fun y hy => (hblock y (List.mem_append_left _ hy)).2⟩
  have hrS : NoLabel rS ∧ NoAlign rS :=
    ⟨fun y hy => (hblock y (List.mem_append_right _ (List.mem_cons_of_mem _ hy))).1,
     fun y hy => (hblock y (List.mem_append_right _ (List.mem_cons_of_mem _ hy))).2⟩
  have hxna : ∀ l a, x ≠ .align l a := (refs_not_marker hrefs).2
  obtain ⟨hfw, hbw⟩ := hG A s B n eG hsrefs
  refine ⟨?_, ?_⟩
  · intro Sa l Sb eSa
    rw [eS] at eSa
    obtain ⟨c, rfl, eS'⟩ := noLabel_split hrS.1 eSa
    obtain ⟨A2, s2, B2, P2', rP2, rS2, S2', eB, ec, eSb, bA2, bB2, bs2⟩ := bB.split eS'
    obtain ⟨rfl, rfl, rfl⟩ := bs2.of_label
    simp only [List.append_nil] at ec
    subst ec
    exact hrS.2.append (bA2.noAlign (hfw A2 l B2 eB))
  · intro Pa l Pb ePa
    rw [eP] at ePa
    obtain ⟨c, eP', rfl⟩ := noLabel_split_left hrP.1 ePa
    have eP'' : P' = Pa ++ .label l n :: c := eP'
    obtain ⟨A2, s2, B2, P2', rP2, rS2, S2', eA, ePa2, ec, bA2, bB2, bs2⟩ := bA.split eP''
    obtain ⟨rfl, rfl, rfl⟩ := bs2.of_label
    simp only [List.nil_append] at ec
    subst ec
    exact (bB2.noAlign (hbw A2 l B2 eA)).append hrP.2


variable {H : Hooks} {constants : Dict}

/-- the near `jal` lands when its register is one, the distance is even and below 1 MiB -/
theorem lands_jal' {lb7 : Dict} {line : Line} {rd : RegOp} {n : String} {q1 d1 : Int} {r : Nat}
    (hr : lookR rd = .ok r) (hc : constants.get n = none) (h1 : lb7.get n = some (q1 + d1))
    (hev : d1 % 2 = 0) (hlo : -1048576 ≤ d1) (hhi : d1 ≤ 1048575) :
    Lands H constants lb7 q1 (.instr line (.j "jal" rd (.offset n))) := by
  obtain ⟨w, hw⟩ := (encJ_ok_iff (op := 111) (rd := rd) (v := d1)).mpr
    ⟨by rw [lookR_ok.mp hr]; rfl, by omega, by omega, hev⟩
  obtain ⟨bs, hbs⟩ := encodeInstr_of_encode line (.j "jal" rd (.value d1)) (w := w) rfl
    (by simp only [Instr.name, encode, lookup_jal, encodeKind]; exact hw)
  apply lands_of_accepts
  refine ⟨_, bs, ?_, hbs⟩
  have e1 : evalAt H (chainGet constants lb7) line q1 (.offset n) = some d1 := by
    rw [evalAt_offset q1 hc h1]; congr 1; omega
  simp only [ajPos, Instr.isAuipcJump, Bool.false_eq_true, if_false, resolveWith, Instr.imm?, e1, Option.map_some,
    Instr.setImm]


/-- the two final distances from corresponding items to a label -/
theorem two_run_dist' {A5 B6 P0 S0 P1 S1 m0 : List Item} {x : Item} {n : String}
    (hB : B6 = P1 ++ x :: S1) (hA : A5 = P0 ++ (m0 ++ S0))
    (cP : Corr H constants P0 P1) (cS : Corr H constants S0 S1) (cm : Corr H constants m0 [x])
    (hx : Item.refs x n) (hspan : SpanA B6) (hnn1 : NonNeg B6) (hnn0 : NonNeg A5) (hnd : (labelNames B6).Nodup)
    (hn : n ∈ labelNames B6) (hxpos : 0 < x.sizeD) :
    ∃ d0 d1 : Int,
      labelPos (alignImg A5 0) 0 n = some (sizeSum (alignImg P0 0) + d0) ∧
      labelPos (alignImg B6 0) 0 n = some (sizeSum (alignImg P1 0) + d1) ∧
      Closer d0 d1 ∧ d1 % 2 = d0 % 2 := by
  obtain ⟨hxnl, hxna⟩ := refs_not_marker hx
  have hnamesx : labelNames [x] = [] := by cases x <;> first | rfl | exact absurd rfl (hxnl _ _)
  have hm0names : labelNames m0 = [] := by rw [cm.labelNames_eq, hnamesx]
  have hm0na : NoAlign m0 := cm.noAlign (NoAlign.cons hxna noAlign_nil)
  have hnamesB : labelNames B6 = labelNames P1 ++ labelNames S1 := by
    rw [hB, labelNames_append, labelNames_cons_of_not_label hxnl]
  rw [hnamesB] at hn hnd
  have hndisj := List.nodup_append.mp hnd
  rcases List.mem_append.mp hn with hnP | hnS
  · -- the label is behind
    obtain ⟨Pa1, l, Pb1, rfl, hnPa1⟩ := labelNames_split hnP
    obtain ⟨Pa0, Pb0, rfl, cPa, cPb⟩ := cP.split_label
    have hna1 := (hspan _ x S1 n hB hx).2 Pa1 l Pb1 rfl
    have hna0 := cPb.noAlign hna1
    have hnPa0 : n ∉ labelNames Pa0 := by rw [cPa.labelNames_eq]; exact hnPa1
    have eP1 : alignImg (Pa1 ++ .label l n :: Pb1) 0 = alignImg Pa1 0 ++ (.label l n :: Pb1) := by
      have := alignImg_mid Pa1 (.label l n :: Pb1) [] (noAlign_label_cons hna1) 0
      simpa [alignImg] using this
    have eP0 : alignImg (Pa0 ++ .label l n :: Pb0) 0 = alignImg Pa0 0 ++ (.label l n :: Pb0) := by
      have := alignImg_mid Pa0 (.label l n :: Pb0) [] (noAlign_label_cons hna0) 0
      simpa [alignImg] using this
    have eB : alignImg B6 0 = alignImg Pa1 0 ++ (.label l n :: (Pb1 ++ alignImg (x :: S1) (0 + sizeSum (alignImg Pa1 0) + sizeSum (Item.label l n :: Pb1)))) := by
      rw [hB]
      have := alignImg_mid Pa1 (.label l n :: Pb1) (x :: S1) (noAlign_label_cons hna1) 0
      simpa [List.append_assoc] using this
    have eA : alignImg A5 0 = alignImg Pa0 0 ++ (.label l n :: (Pb0 ++ alignImg (m0 ++ S0) (0 + sizeSum (alignImg Pa0 0) + sizeSum (Item.label l n :: Pb0)))) := by
      rw [hA]
      have := alignImg_mid Pa0 (.label l n :: Pb0) (m0 ++ S0) (noAlign_label_cons hna0) 0
      simpa [List.append_assoc] using this
    obtain ⟨k, hk, hsz⟩ := cPb.size
    have hnnPb0 : 0 ≤ sizeSum Pb0 := sizeSum_nonneg (fun y hy => hnn0 y (by
      rw [hA]; exact List.mem_append_left _ (List.mem_append_right _ (List.mem_cons_of_mem _ hy))))
    have hnnPb1 : 0 ≤ sizeSum Pb1 := sizeSum_nonneg (fun y hy => hnn1 y (by
      rw [hB]; exact List.mem_append_left _ (List.mem_append_right _ (List.mem_cons_of_mem _ hy))))
    refine ⟨-sizeSum Pb0, -sizeSum Pb1, ?_, ?_, ?_, by omega⟩
    · rw [eA, labelPos_backward (by rw [labelNames_alignImg]; exact hnPa0), eP0, sizeSum_append, sizeSum_cons, sizeD_label]
      congr 1; omega
    · rw [eB, labelPos_backward (by rw [labelNames_alignImg]; exact hnPa1), eP1, sizeSum_append, sizeSum_cons, sizeD_label]
      congr 1; omega
    · unfold Closer; constructor <;> intro _ <;> omega
  · -- the label is ahead
    obtain ⟨Sa1, l, Sb1, rfl, hnSa1⟩ := labelNames_split hnS
    obtain ⟨Sa0, Sb0, rfl, cSa, cSb⟩ := cS.split_label
    have hna1 := (hspan P1 x _ n hB hx).1 Sa1 l Sb1 rfl
    have hna0 := cSa.noAlign hna1
    have hnP1 : n ∉ labelNames P1 := fun h => hndisj.2.2 n h n hnS rfl
    have hnP0 : n ∉ labelNames P0 := by rw [cP.labelNames_eq]; exact hnP1
    have hnM1 : n ∉ labelNames (x :: Sa1) := by rw [labelNames_cons_of_not_label hxnl]; exact hnSa1
    have hnM0 : n ∉ labelNames (m0 ++ Sa0) := by
      rw [labelNames_append, hm0names, cSa.labelNames_eq]; simpa using hnSa1
    have eB : alignImg B6 0 = alignImg P1 0 ++ ((x :: Sa1) ++ .label l n :: alignImg Sb1 (0 + sizeSum (alignImg P1 0) + sizeSum (x :: Sa1) + 0)) := by
      rw [hB]
      have := alignImg_mid P1 (x :: Sa1) (.label l n :: Sb1) (NoAlign.cons hxna hna1) 0
      simpa [alignImg, sizeD_label] using this
    have eA : alignImg A5 0 = alignImg P0 0 ++ ((m0 ++ Sa0) ++ .label l n :: alignImg Sb0 (0 + sizeSum (alignImg P0 0) + sizeSum (m0 ++ Sa0) + 0)) := by
      rw [hA]
      have := alignImg_mid P0 (m0 ++ Sa0) (.label l n :: Sb0) (hm0na.append hna0) 0
      simpa [alignImg, sizeD_label, List.append_assoc] using this
    obtain ⟨k, hk, hsz⟩ := (cm.append cSa).size
    have hnnSa1 : 0 ≤ sizeSum Sa1 := sizeSum_nonneg (fun y hy => hnn1 y (by
      rw [hB]; exact List.mem_append_right _ (List.mem_cons_of_mem _ (List.mem_append_left _ hy))))
    refine ⟨sizeSum (m0 ++ Sa0), sizeSum (x :: Sa1), ?_, ?_, ?_, ?_⟩
    · rw [eA, labelPos_fw (by rw [labelNames_alignImg]; exact hnP0) hnM0]
    · rw [eB, labelPos_fw (by rw [labelNames_alignImg]; exact hnP1) hnM1]
    · simp only [List.singleton_append] at hsz
      rw [sizeSum_cons] at hsz ⊢
      unfold Closer; constructor <;> intro _ <;> omega
    · simp only [List.singleton_append] at hsz
      omega


theorem lands_run1' {la7 lb7 : Dict} {A5 B6 : List Item} {names : List String}
    (hlit : ∀ line p env, LitOK (evalAt H env line p))
    (corr : Corr H constants A5 B6) (nn0 : NonNeg A5) (nn1 : NonNeg B6) (nodup : (labelNames B6).Nodup)
    (hnames : labelNames B6 = names)
    (agree0 : ∀ ℓ u, labelPos (alignImg A5 0) 0 ℓ = some u → la7.get ℓ = some u)
    (agree1 : ∀ ℓ u, labelPos (alignImg B6 0) 0 ℓ = some u → lb7.get ℓ = some u)
    (span : SpanA B6) (good : ∀ a ∈ A5, Good H constants names a)
    (lands0 : ∀ P a S, alignImg A5 0 = P ++ a :: S → (∀ l n, a ≠ .label l n) → Lands H constants la7 (sizeSum P) a)
    {P1 : List Item} {x : Item} {S1 : List Item} (hB : B6 = P1 ++ x :: S1)
    (hxnl : ∀ l n, x ≠ .label l n) (hxna : ∀ l a, x ≠ .align l a)
    (horacle : ∀ line cf, x = .instr line cf → cf.isCompressed = true →
      DecOracle H constants lb7 names (sizeSum (alignImg P1 0)) line cf)
    (hnear : ∀ line rd n, x = .instr line (.j "jal" rd (.offset n)) → n ∈ names → constants.get n = none →
      ∀ P0 S0 line' rd' rA imm, A5 = P0 ++ .instr line' (.u "auipc" rA (.hi imm)) :: .instr line' (.i "jalr" rd' rA (.lo imm) true) :: S0 →
      Corr H constants P0 P1 → ∀ d1, lb7.get n = some (sizeSum (alignImg P1 0) + d1) → -1048576 ≤ d1 ∧ d1 ≤ 1048575) :
    Lands H constants lb7 (sizeSum (alignImg P1 0)) x := by
  have corr' := corr
  rw [hB] at corr'
  obtain ⟨P0, S0, cP, cS, hor⟩ := corr'.split
  -- distances, once the label is known
  have dist : ∀ (m0 : List Item) (n : String), A5 = P0 ++ (m0 ++ S0) → Corr H constants m0 [x] → Item.refs x n →
      n ∈ names → 0 < x.sizeD →
      ∃ d0 d1 : Int, la7.get n = some (sizeSum (alignImg P0 0) + d0) ∧ lb7.get n = some (sizeSum (alignImg P1 0) + d1) ∧
        Closer d0 d1 ∧ d1 % 2 = d0 % 2 := by
    intro m0 n hA cm hr hn hpos
    obtain ⟨d0, d1, e0, e1, hcl, hpar⟩ :=
      two_run_dist' hB hA cP cS cm hr span nn1 nn0 nodup (by rw [hnames]; exact hn) hpos
    exact ⟨d0, d1, agree0 n _ e0, agree1 n _ e1, hcl, hpar⟩
  rcases hor with ⟨a, hA, hs⟩ | ⟨line, rd, rA, imm, hA, hs⟩
  · -- one item of the plain run
    have hanl : ∀ l n, a ≠ .label l n := hs.not_label.mpr hxnl
    have hana : ∀ l al, a ≠ .align l al := hs.not_align.mpr hxna
    have hA' : A5 = P0 ++ ([a] ++ S0) := by rw [hA]; rfl
    have himg : alignImg A5 0 = alignImg P0 0 ++ a :: alignImg S0 (0 + sizeSum (alignImg P0 0) + a.sizeD) := by
      rw [hA, alignImg_append, alignImg_cons_of_not_align hana]
    have hl0 := lands0 _ a _ himg hanl
    have hgood := good a (by rw [hA]; exact List.mem_append_right _ List.mem_cons_self)
    cases hs with
    | same =>
      -- the same item in both runs
      cases x with
      | instr line ins =>
        simp only [Good] at hgood
        rcases hgood with ⟨hfree, _⟩ | ⟨n, hn, hc, hshape⟩
        · exact lands_indep (x := .instr line ins) hfree hl0
        · have hrefs : Item.refs (.instr line ins) n := by
            rcases hshape with ⟨_, hi⟩ | ⟨rA, rfl⟩ | ⟨rd, rA, rfl⟩
            · exact refs_instr hi rfl
            · exact refs_instr rfl rfl
            · exact refs_instr rfl rfl
          obtain ⟨d0, d1, e0, e1, hcl, hpar⟩ :=
            dist [.instr line ins] n hA' (.step (.same _) .nil) hrefs hn (instr_pos line ins)
          rcases hshape with ht1 | ⟨rA, rfl⟩ | ⟨rd, rA, rfl⟩
          · exact lands_T1 ht1 hc e0 e1 hcl hpar hl0
          · exact lands_T2 hc e0 e1 hl0
          · exact lands_T3 hc e0 e1 hpar hl0
      | pack l f i => exact lands_indep (x := .pack l f i) hgood hl0
      | shorthandPack l f i => exact lands_indep (x := .shorthandPack l f i) hgood hl0
      | label l n => exact absurd rfl (hxnl l n)
      | constant l n e => exact lands_indep (x := .constant l n e) trivial hl0
      | includeBytes l pth sz => exact lands_indep (x := .includeBytes l pth sz) trivial hl0
      | string l v => exact lands_indep (x := .string l v) trivial hl0
      | sequence l nm vs => exact lands_indep (x := .sequence l nm vs) trivial hl0
      | align l al => exact absurd rfl (hxna l al)
      | blob l d => exact lands_indep (x := .blob l d) trivial hl0
      | pseudo l nm ar => exact lands_indep (x := .pseudo l nm ar) trivial hl0
    | comp line ins cf c preds p L d hfix =>
      simp only [Good] at hgood
      rcases hgood with ⟨hfree, _⟩ | ⟨n, hn, hc, hshape⟩
      · exact lands_comp_free hlit d hfree hl0
      · rcases hshape with ⟨htr, himm⟩ | ⟨rA, rfl⟩ | ⟨rd, rA, rfl⟩
        · -- a compressed transfer
          obtain ⟨hname, hcfimm⟩ := compressedForm_of_transfer d.2.2.2.2 htr.2
          have hcfi : cf.imm? = some (.offset n) := by rw [hcfimm]; exact himm
          obtain ⟨d0, d1, e0, e1, hcl, hpar⟩ :=
            dist [.instr line ins] n hA' (.step (.comp line ins cf c preds p L d hfix) .nil)
              (refs_instr hcfi rfl) hn (instr_pos line cf)
          -- the plain run's distance is even
          have hev0 : d0 % 2 = 0 := by
            obtain ⟨rins0, bs0, hres0, henc0⟩ := accepts_of_lands hl0
            simp only [ajPos, isTransfer_aj htr, Bool.false_eq_true, if_false] at hres0
            have ev0 : evalAt H (chainGet constants la7) line (sizeSum (alignImg P0 0)) (.offset n) = some d0 := by
              rw [evalAt_offset _ hc e0]; congr 1; omega
            simp only [resolveWith, himm, ev0, Option.map_some, Option.some.injEq] at hres0
            subst hres0
            exact ((transfer_encode_iff htr line d0).mp ⟨bs0, henc0⟩).2.2.2
          exact lands_comp_transfer (d1 := d1) hlit (horacle line cf rfl (compressedForm_sizes d.2.2.2.2).2) hname hcfi hn hc
            (by rw [e1]; congr 1; omega) (by omega)
        · exact absurd (decided_name_base d) (by simp [Instr.name, baseNames])
        · have := d.2.1
          simp [Instr.isAuipcJump] at this
  · -- a far pair of the plain run, near in the -c run
    have hA' : A5 = P0 ++ ([.instr line (.u "auipc" rA (.hi imm)), .instr line (.i "jalr" rd rA (.lo imm) true)] ++ S0) := by
      rw [hA]; rfl
    have hgood := good (.instr line (.i "jalr" rd rA (.lo imm) true))
      (by rw [hA]; exact List.mem_append_right _ (List.mem_cons_of_mem _ List.mem_cons_self))
    simp only [Good] at hgood
    rcases hgood with ⟨_, haj⟩ | ⟨n, hn, hc, hshape⟩
    · simp [Instr.isAuipcJump] at haj
    have himm : imm = .offset n := by
      rcases hshape with ⟨htr, _⟩ | ⟨rA', e⟩ | ⟨rd', rA', e⟩
      · rcases htr.2 with ⟨_, _, _, _, e⟩ | ⟨_, _, _, e⟩ <;> cases e
      · cases e
      · simp only [Instr.i.injEq, Imm.lo.injEq] at e; exact e.2.2.2.1
    subst himm
    -- the plain run's jalr
    have himg : alignImg A5 0 = (alignImg P0 0 ++ [.instr line (.u "auipc" rA (.hi (.offset n)))]) ++
        .instr line (.i "jalr" rd rA (.lo (.offset n)) true) :: alignImg S0 (0 + sizeSum (alignImg P0 0) + 4 + 4) := by
      rw [hA, alignImg_append, alignImg_cons_of_not_align (by intro l a e; cases e),
        alignImg_cons_of_not_align (by intro l a e; cases e)]
      simp [instr_sizeD, Instr.isCompressed]
    have hl0 := lands0 _ _ _ himg (by intro l m e; cases e)
    obtain ⟨rins0, bs0, hres0, henc0⟩ := accepts_of_lands hl0
    have hxrefs : Item.refs x n ∧ 0 < x.sizeD := by
      cases hs with
      | same => exact ⟨refs_instr rfl rfl, instr_pos _ _⟩
      | comp _ _ cf c preds p L d hfix =>
        obtain ⟨_, hcfimm⟩ := compressedForm_of_transfer d.2.2.2.2 (Or.inr ⟨_, _, _, rfl⟩)
        exact ⟨refs_instr hcfimm rfl, instr_pos _ _⟩
    obtain ⟨d0, d1, e0, e1, hcl, hpar⟩ := dist _ n hA' (.near line rd rA (.offset n) hs .nil) hxrefs.1 hn hxrefs.2
    have hq : sizeSum (alignImg P0 0 ++ [Item.instr line (.u "auipc" rA (.hi (.offset n)))]) - 4 = sizeSum (alignImg P0 0) := by
      rw [sizeSum_append]; simp [sizeSum, instr_sizeD, Instr.isCompressed]
    simp only [ajPos, Instr.isAuipcJump, if_true, resolveWith, Instr.imm?, hq, evalAt_lo _ hc e0,
      Option.map_some, Option.some.injEq, Instr.setImm] at hres0
    subst hres0
    obtain ⟨⟨r1, hr1⟩, _, hev⟩ := jalr_lo_facts henc0
    have hev1 : d1 % 2 = 0 := by omega
    cases hs with
    | same =>
      obtain ⟨hlo, hhi⟩ := hnear line rd n rfl hn hc P0 S0 line rd rA (.offset n) hA cP d1 e1
      exact lands_jal' hr1 hc e1 hev1 hlo hhi
    | comp _ _ cf c preds p L d hfix =>
      obtain ⟨hname, hcfimm⟩ := compressedForm_of_transfer d.2.2.2.2 (Or.inr ⟨_, _, _, rfl⟩)
      exact lands_comp_transfer (d1 := d1) hlit (horacle line cf rfl (compressedForm_sizes d.2.2.2.2).2) hname hcfimm hn hc
        (by rw [e1]; congr 1; omega) hev1

/-- every item of the -c run's final ghost list lands -/
theorem lands_final' {la7 lb7 : Dict} {A5 B6 : List Item} {names : List String}
    (hlit : ∀ line p env, LitOK (evalAt H env line p))
    (corr : Corr H constants A5 B6) (nn0 : NonNeg A5) (nn1 : NonNeg B6) (nodup : (labelNames B6).Nodup)
    (hnames : labelNames B6 = names)
    (agree0 : ∀ ℓ u, labelPos (alignImg A5 0) 0 ℓ = some u → la7.get ℓ = some u)
    (agree1 : ∀ ℓ u, labelPos (alignImg B6 0) 0 ℓ = some u → lb7.get ℓ = some u)
    (span : SpanA B6) (good : ∀ a ∈ A5, Good H constants names a)
    {out0 : List Item} (hland0 : Land H constants la7 0 (strip (alignImg A5 0)) out0)
    (horacle : ∀ P line cf S, alignImg B6 0 = P ++ .instr line cf :: S → cf.isCompressed = true →
      DecOracle H constants lb7 names (sizeSum P) line cf)
    (hnear : ∀ P1 S1 line rd n, B6 = P1 ++ .instr line (.j "jal" rd (.offset n)) :: S1 → n ∈ names → constants.get n = none →
      ∀ P0 S0 line' rd' rA imm, A5 = P0 ++ .instr line' (.u "auipc" rA (.hi imm)) :: .instr line' (.i "jalr" rd' rA (.lo imm) true) :: S0 →
      Corr H constants P0 P1 → ∀ d1, lb7.get n = some (sizeSum (alignImg P1 0) + d1) → -1048576 ≤ d1 ∧ d1 ≤ 1048575) :
    ∃ out1, Land H constants lb7 0 (strip (alignImg B6 0)) out1 := by
  apply landsG_to_land
  intro P x S e hxnl
  rw [Int.zero_add]
  rcases alignImg_split B6 0 P x S e with ⟨l, zs, rfl⟩ | ⟨P1, S1, hB, hxna, rfl⟩
  · exact lands_blob _ l zs
  · refine lands_run1' hlit corr nn0 nn1 nodup hnames agree0 agree1 span good ?_ hB hxnl hxna ?_ ?_
    · intro P a S' ea hanl
      have := land_ghost _ 0 out0 hland0 P a S' ea hanl
      rw [Int.zero_add] at this; exact this
    · intro line cf ex hc
      subst ex
      exact horacle _ line cf S e hc
    · intro line rd n ex
      subst ex
      exact hnear P1 S1 line rd n hB


end BB.Lemmas
