/-
  BB.Lemmas.ErrAssemble — the remaining passes keep `Item.line`, and the chain through
  `assembleItems`: an `Err.asm ln` it raises names the line of one of the items it was given.
-/
import BB.Lemmas.ErrPasses
namespace BB.Lemmas
open BB

/-- what a pass may do to the lines: on success the output carries only input lines; an
    AssemblerError names an input line -/
def PassLines {α : Type} (inp : List Item) (r : Except Err α) (itemsOf : α → List Item) : Prop :=
  (∀ a, r = .ok a → LinesSub (itemsOf a) inp) ∧ (∀ ln, r = .error (.asm ln) → ln ∈ linesOf inp)

/-! ### resolve_constants -/

theorem resolveConstants_cons_other (H : Hooks) {it : Item} (h : ∀ line n e, it ≠ .constant line n e)
    (rest : List Item) (constants : Dict) :
    resolveConstants H (it :: rest) constants =
      (match resolveConstants H rest constants with
       | .error e => .error e
       | .ok (out, c) => .ok (it :: out, c)) := by
  cases it <;> first
    | exact absurd rfl (h _ _ _)
    | (simp only [resolveConstants, bind, Except.bind, pure, Except.pure]
       cases resolveConstants H rest constants with
       | error e => rfl
       | ok r => rfl)

theorem bindRest_passLines {line : Line} {r : Except Err Int} (hA : AsmAt line r) {rest : List Item}
    {it : Item} (hline : it.line = line) (k : Int → Except Err (List Item × Dict))
    (hk : ∀ v, PassLines rest (k v) (·.1)) : PassLines (it :: rest) (r >>= k) (·.1) := by
  have hmem : line ∈ linesOf (it :: rest) := by rw [linesOf_cons, hline]; exact List.mem_cons_self
  cases r with
  | error e' =>
    refine ⟨fun a h => by simp [bind, Except.bind] at h, ?_⟩
    intro ln h
    simp only [bind, Except.bind, Except.error.injEq] at h
    subst h
    rw [hA ln rfl]; exact hmem
  | ok v =>
    simp only [bind, Except.bind]
    obtain ⟨i1, i2⟩ := hk v
    refine ⟨?_, ?_⟩
    · intro a h x hx
      rw [linesOf_cons]
      exact List.mem_cons_of_mem _ (i1 a h x hx)
    · intro ln h
      rw [linesOf_cons]
      exact List.mem_cons_of_mem _ (i2 ln h)

theorem resolveConstants_lines (H : Hooks) :
    ∀ (inp : List Item) (constants : Dict),
      PassLines inp (resolveConstants H inp constants) (·.1) := by
  intro inp
  induction inp with
  | nil =>
    intro constants
    refine ⟨?_, fun ln h => by simp [resolveConstants] at h⟩
    intro a h
    simp only [resolveConstants, Except.ok.injEq] at h
    subst h
    intro x hx; simp at hx
  | cons it rest ih =>
    intro constants
    by_cases hc : ∃ line n e, it = .constant line n e
    · obtain ⟨line, name, expr, rfl⟩ := hc
      have hmem : line ∈ linesOf (Item.constant line name expr :: rest) := by
        rw [linesOf_cons]; exact List.mem_cons_self
      cases expr with
      | arith e =>
        simp only [resolveConstants]
        split
        · exact ⟨fun a h => by simp at h, fun ln h => by
            simp only [Except.error.injEq, Err.asm.injEq] at h; rw [← h]; exact hmem⟩
        · split
          · exact ⟨fun a h => by simp at h, fun ln h => by
              simp only [Except.error.injEq, Err.asm.injEq] at h; rw [← h]; exact hmem⟩
          · -- the value is evaluated, then the rest of the list is processed
            exact bindRest_passLines (liftExpr_asmAt _ _) rfl _ (fun v => ih _)
      | position ref e =>
        exact ⟨fun a h => by simp [resolveConstants] at h, fun ln h => by
          simp only [resolveConstants, Except.error.injEq, Err.asm.injEq] at h; rw [← h]; exact hmem⟩
      | offset ref =>
        exact ⟨fun a h => by simp [resolveConstants] at h, fun ln h => by
          simp only [resolveConstants, Except.error.injEq, Err.asm.injEq] at h; rw [← h]; exact hmem⟩
      | hi e =>
        exact ⟨fun a h => by simp [resolveConstants] at h, fun ln h => by
          simp only [resolveConstants, Except.error.injEq, Err.asm.injEq] at h; rw [← h]; exact hmem⟩
      | lo e =>
        exact ⟨fun a h => by simp [resolveConstants] at h, fun ln h => by
          simp only [resolveConstants, Except.error.injEq, Err.asm.injEq] at h; rw [← h]; exact hmem⟩
      | value v =>
        exact ⟨fun a h => by simp [resolveConstants] at h, fun ln h => by
          simp only [resolveConstants, Except.error.injEq, Err.asm.injEq] at h; rw [← h]; exact hmem⟩
    · have hnc : ∀ line n e, it ≠ .constant line n e := fun line n e hh => hc ⟨line, n, e, hh⟩
      rw [resolveConstants_cons_other H hnc]
      obtain ⟨i1, i2⟩ := ih constants
      cases hr : resolveConstants H rest constants with
      | error e =>
        refine ⟨fun a h => by simp at h, ?_⟩
        intro ln h
        simp only [Except.error.injEq] at h
        subst h
        rw [linesOf_cons]; exact List.mem_cons_of_mem _ (i2 ln hr)
      | ok r =>
        obtain ⟨out, c⟩ := r
        refine ⟨?_, fun ln h => by simp at h⟩
        intro a h x hx
        simp only [Except.ok.injEq] at h
        subst h
        rw [linesOf_cons]
        simp only [List.mem_cons] at hx
        rcases hx with rfl | hx
        · exact List.mem_cons_self
        · exact List.mem_cons_of_mem _ (i1 (out, c) hr x hx)

/-! ### resolve_labels -/

theorem resolveLabelsAux_cons_other {it : Item} (h : ∀ line n, it ≠ .label line n)
    (rest : List Item) (p : Int) (labels : Dict) (defined : List String) :
    resolveLabelsAux (it :: rest) p labels defined =
      (match it.sizeE with
       | .error e => .error e
       | .ok sz =>
         match resolveLabelsAux rest (p + sz) labels defined with
         | .error e => .error e
         | .ok (out, l) => .ok (it :: out, l)) := by
  cases it <;> first
    | exact absurd rfl (h _ _)
    | (simp only [resolveLabelsAux, bind, Except.bind, pure, Except.pure]
       cases Item.sizeE _ with
       | error e => rfl
       | ok sz =>
         simp only
         cases resolveLabelsAux rest (p + sz) labels defined with
         | error e => rfl
         | ok r => rfl)

theorem resolveLabelsAux_lines :
    ∀ (inp : List Item) (p : Int) (labels : Dict) (defined : List String),
      PassLines inp (resolveLabelsAux inp p labels defined) (·.1) := by
  intro inp
  induction inp with
  | nil =>
    intro p labels defined
    refine ⟨?_, fun ln h => by simp [resolveLabelsAux] at h⟩
    intro a h
    simp only [resolveLabelsAux, Except.ok.injEq] at h
    subst h
    intro x hx; simp at hx
  | cons it rest ih =>
    intro p labels defined
    by_cases hlab : ∃ line nm, it = .label line nm
    · obtain ⟨line, nm, rfl⟩ := hlab
      simp only [resolveLabelsAux]
      split
      · refine ⟨fun a h => by simp at h, ?_⟩
        intro ln h
        simp only [Except.error.injEq, Err.asm.injEq] at h
        rw [← h, linesOf_cons]; exact List.mem_cons_self
      · obtain ⟨i1, i2⟩ := ih p (labels.set nm p) (nm :: defined)
        refine ⟨?_, ?_⟩
        · intro a h x hx
          rw [linesOf_cons]; exact List.mem_cons_of_mem _ (i1 a h x hx)
        · intro ln h
          rw [linesOf_cons]; exact List.mem_cons_of_mem _ (i2 ln h)
    · have hnl : ∀ line nm, it ≠ .label line nm := fun line nm hh => hlab ⟨line, nm, hh⟩
      rw [resolveLabelsAux_cons_other hnl]
      cases hs : it.sizeE with
      | error e =>
        refine ⟨fun a h => by simp at h, ?_⟩
        intro ln h
        simp only [Except.error.injEq] at h
        subst h
        exact absurd (sizeE_asmAt it.line it ln hs) (by
          intro hcontra
          -- sizeE never raises an AssemblerError at all
          unfold Item.sizeE at hs
          cases hq : it.size? with
          | some n => simp [hq] at hs
          | none => simp only [hq] at hs; cases it <;> simp at hs)
      | ok sz =>
        simp only
        obtain ⟨i1, i2⟩ := ih (p + sz) labels defined
        cases hr : resolveLabelsAux rest (p + sz) labels defined with
        | error e =>
          refine ⟨fun a h => by simp at h, ?_⟩
          intro ln h
          simp only [Except.error.injEq] at h
          subst h
          rw [linesOf_cons]; exact List.mem_cons_of_mem _ (i2 ln hr)
        | ok r =>
          obtain ⟨out, l⟩ := r
          refine ⟨?_, fun ln h => by simp at h⟩
          intro a h x hx
          simp only [Except.ok.injEq] at h
          subst h
          rw [linesOf_cons]
          simp only [List.mem_cons] at hx
          rcases hx with rfl | hx
          · exact List.mem_cons_self
          · exact List.mem_cons_of_mem _ (i1 (out, l) hr x hx)

/-! ### the `map` passes -/

theorem resolveRegisterAliases_lines (items : List Item) (constants : Dict) :
    linesOf (resolveRegisterAliases items constants) = linesOf items := by
  simp only [linesOf, resolveRegisterAliases, List.map_map]
  apply List.map_congr_left
  intro it _
  cases it <;> rfl

theorem resolveStrings_lines (items : List Item) : linesOf (resolveStrings items) = linesOf items := by
  simp only [linesOf, resolveStrings, List.map_map]
  apply List.map_congr_left
  intro it _
  cases it <;> rfl

/-! ### the `mapM` passes -/

theorem encodeInstr_asmAt (line : Line) (ins : Instr) : AsmAt line (encodeInstr line ins) := by
  unfold encodeInstr
  cases ins.args with
  | none => exact AsmAt.internal
  | some args =>
    simp only
    cases encode ins.name args with
    | ok w => exact AsmAt.ok
    | error e => cases e <;> first | exact AsmAt.asm | exact AsmAt.internal

theorem instrStep_stepLine : StepLine instrStep := by
  intro it
  cases it with
  | instr line ins =>
    simp only [instrStep]
    have hA := encodeInstr_asmAt line ins
    cases hb : encodeInstr line ins with
    | error e =>
      refine ⟨fun it' h => by simp [bind, Except.bind] at h, ?_⟩
      intro ln h
      simp only [bind, Except.bind, Except.error.injEq] at h
      subst h
      exact hA ln hb
    | ok bs =>
      refine ⟨?_, fun ln h => by simp [bind, Except.bind, pure, Except.pure] at h⟩
      intro it' h
      simp only [bind, Except.bind, pure, Except.pure, Except.ok.injEq] at h
      subst h; rfl
  | pseudo line name args =>
    exact ⟨fun it' h => by simp [instrStep] at h, fun ln h => by simp [instrStep] at h⟩
  | _ =>
    refine ⟨?_, fun ln h => by simp [instrStep, pure, Except.pure] at h⟩
    intro it' h
    simp only [instrStep, pure, Except.pure, Except.ok.injEq] at h
    subst h; rfl

theorem seqBytes_asmAt (line : Line) (n : Nat) (vals : List String) : AsmAt line (seqBytes line n vals) := by
  induction vals with
  | nil => exact AsmAt.ok
  | cons t rest ih =>
    simp only [seqBytes]
    cases pyInt0 t.toList with
    | none => exact AsmAt.asm
    | some v => exact AsmAt.bind ih (fun _ => AsmAt.pure)

theorem packSeq_asmAt (line : Line) (n : Nat) (vs : List Int) : AsmAt line (packSeq line n vs) := by
  induction vs with
  | nil => exact AsmAt.ok
  | cons v rest ih =>
    simp only [packSeq]
    cases packInt false (decide (v < 0)) n v with
    | none => exact AsmAt.asm
    | some bs => exact AsmAt.bind ih (fun _ => AsmAt.pure)

/-- a step of the shape "compute, then wrap in a blob / pack carrying the same line" -/
theorem stepLine_of {it : Item} {r : Except Err Item} (hA : AsmAt it.line r)
    (hok : ∀ it', r = .ok it' → it'.line = it.line) :
    (∀ it', r = .ok it' → it'.line = it.line) ∧ (∀ ln, r = .error (.asm ln) → ln = it.line) :=
  ⟨hok, hA⟩

theorem seqStep_stepLine : StepLine seqStep := by
  intro it
  cases it with
  | sequence line name values =>
    simp only [seqStep]
    cases sequenceElemSize name with
    | none => exact ⟨fun it' h => by simp at h, fun ln h => by simp at h⟩
    | some n =>
      simp only
      refine stepLine_of (it := .sequence line name values)
        (AsmAt.bind (seqBytes_asmAt line n values) (fun vs => AsmAt.bind (packSeq_asmAt line n vs) (fun _ => AsmAt.pure))) ?_
      intro it' h
      cases h1 : seqBytes line n values with
      | error e => simp [h1, bind, Except.bind] at h
      | ok vs =>
        cases h2 : packSeq line n vs with
        | error e => simp [h1, h2, bind, Except.bind] at h
        | ok bs =>
          simp only [h1, h2, bind, Except.bind, pure, Except.pure, Except.ok.injEq] at h
          subst h; rfl
  | _ =>
    refine ⟨?_, fun ln h => by simp [seqStep, pure, Except.pure] at h⟩
    intro it' h
    simp only [seqStep, pure, Except.pure, Except.ok.injEq] at h
    subst h; rfl

theorem shorthandStep_stepLine : StepLine shorthandStep := by
  intro it
  cases it with
  | shorthandPack line name imm =>
    cases imm with
    | value v =>
      simp only [shorthandStep]
      cases shorthandFmt name v with
      | none => exact ⟨fun it' h => by simp at h, fun ln h => by simp at h⟩
      | some fmt =>
        refine ⟨?_, fun ln h => by simp [pure, Except.pure] at h⟩
        intro it' h
        simp only [pure, Except.pure, Except.ok.injEq] at h
        subst h; rfl
    | _ => exact ⟨fun it' h => by simp [shorthandStep] at h, fun ln h => by simp [shorthandStep] at h⟩
  | _ =>
    refine ⟨?_, fun ln h => by simp [shorthandStep, pure, Except.pure] at h⟩
    intro it' h
    simp only [shorthandStep, pure, Except.pure, Except.ok.injEq] at h
    subst h; rfl

theorem packFmt_asmAt (line : Line) (fmt : String) (v : Int) : AsmAt line (packFmt fmt v) := by
  unfold packFmt
  split
  · split
    · dsimp only
      repeat' split
      all_goals first | exact AsmAt.ok | exact AsmAt.unsupported
    · exact AsmAt.unsupported
  · exact AsmAt.unsupported

theorem packStep_stepLine : StepLine packStep := by
  intro it
  cases it with
  | pack line fmt imm =>
    cases imm with
    | value v =>
      simp only [packStep]
      have hA := packFmt_asmAt line fmt v
      cases hp : packFmt fmt v with
      | error e =>
        refine ⟨fun it' h => by simp [bind, Except.bind] at h, ?_⟩
        intro ln h
        simp only [bind, Except.bind, Except.error.injEq] at h
        subst h
        exact hA ln hp
      | ok o =>
        cases o with
        | none =>
          refine ⟨fun it' h => by simp [bind, Except.bind] at h, ?_⟩
          intro ln h
          simp only [bind, Except.bind, Except.error.injEq, Err.asm.injEq] at h
          exact h.symm
        | some bs =>
          refine ⟨?_, fun ln h => by simp [bind, Except.bind, pure, Except.pure] at h⟩
          intro it' h
          simp only [bind, Except.bind, pure, Except.pure, Except.ok.injEq] at h
          subst h; rfl
    | _ => exact ⟨fun it' h => by simp [packStep] at h, fun ln h => by simp [packStep] at h⟩
  | _ =>
    refine ⟨?_, fun ln h => by simp [packStep, pure, Except.pure] at h⟩
    intro it' h
    simp only [packStep, pure, Except.pure, Except.ok.injEq] at h
    subst h; rfl

theorem includeBytesStep_stepLine (H : Hooks) : StepLine (includeBytesStep H) := by
  intro it
  cases it with
  | includeBytes line path fsize =>
    simp only [includeBytesStep]
    cases H.readFile path with
    | none => exact ⟨fun it' h => by simp at h, fun ln h => by simp at h⟩
    | some data =>
      simp only
      split
      · exact ⟨fun it' h => by simp at h, fun ln h => by simp at h⟩
      · refine ⟨?_, fun ln h => by simp [pure, Except.pure] at h⟩
        intro it' h
        simp only [pure, Except.pure, Except.ok.injEq] at h
        subst h; rfl
  | _ =>
    refine ⟨?_, fun ln h => by simp [includeBytesStep, pure, Except.pure] at h⟩
    intro it' h
    simp only [includeBytesStep, pure, Except.pure, Except.ok.injEq] at h
    subst h; rfl

/-! ### resolve_blobs never raises an AssemblerError -/

theorem resolveBlobs_no_asm (items : List Item) (ln : Line) : resolveBlobs items ≠ .error (.asm ln) := by
  induction items with
  | nil => simp [resolveBlobs]
  | cons it rest ih =>
    cases it with
    | blob line data =>
      simp only [resolveBlobs, bind, Except.bind]
      cases hr : resolveBlobs rest with
      | error e =>
        simp only [ne_eq, Except.error.injEq]
        intro he; subst he; exact ih hr
      | ok out => simp [pure, Except.pure]
    | _ => simp [resolveBlobs]

/-! ### the walks, as passes -/

theorem walk_passLines {f : Item → Int → Dict → Except Err (List Item × Int)} (hf : BodyLine f)
    (inp : List Item) (p : Int) (labels : Dict) : PassLines inp (walk f inp p labels) (·.1) := by
  obtain ⟨h1, h2⟩ := walk_lines hf inp p labels
  exact ⟨fun a h => h1 a.1 a.2 h, h2⟩

theorem maybeCompress_passLines (H : Hooks) (c : Bool) (inp : List Item) (constants labels : Dict) :
    PassLines inp (maybeCompress H c inp constants labels) (·.1) := by
  unfold maybeCompress
  cases c with
  | true => simpa [transformCompressible] using walk_passLines (compressBody_bodyLine H constants) inp 0 labels
  | false =>
    refine ⟨?_, fun ln h => by simp [pure, Except.pure] at h⟩
    intro a h
    simp only [Bool.false_eq_true, ↓reduceIte, pure, Except.pure, Except.ok.injEq] at h
    subst h
    exact LinesSub.refl inp

theorem mapM_passLines {g : Item → Except Err Item} (hg : StepLine g) (inp : List Item) :
    PassLines inp (inp.mapM g) id := by
  obtain ⟨h1, h2⟩ := mapM_lines hg inp
  exact ⟨fun a h => linesSub_of_linesOf_eq (h1 a h), h2⟩

end BB.Lemmas
