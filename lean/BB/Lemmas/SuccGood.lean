/-
  BB.Lemmas.SuccGood — the kinds of items the program-level theorem is about (`Good`): items that land
  the same way everywhere (`Indep`: no immediate or a label-free one), and the three shapes of a
  pc-relative reference to a label — a branch / jal on `%offset n` (T1), the `auipc %hi` (T2) and the
  `jalr %lo` (T3) of a far call.  Aliases keep them, pseudo-instruction expansions produce them.
-/
import BB.Lemmas.SuccBlocks
set_option linter.unusedSimpArgs false
set_option linter.unusedVariables false
namespace BB.Lemmas
open BB BB.Spec
open BB.Props.C05 (immTokens documented expand_matches_doc)

def T1 (ins : Instr) (n : String) : Prop := IsTransfer ins ∧ ins.imm? = some (.offset n)
def T2 (ins : Instr) (n : String) : Prop := ∃ rA, ins = .u "auipc" rA (.hi (.offset n))
def T3 (ins : Instr) (n : String) : Prop := ∃ rd rA, ins = .i "jalr" rd rA (.lo (.offset n)) true

def TShape (names : List String) (constants : Dict) (ins : Instr) : Prop :=
  ∃ n, n ∈ names ∧ constants.get n = none ∧ (T1 ins n ∨ T2 ins n ∨ T3 ins n)

def Good (H : Hooks) (constants : Dict) (names : List String) : Item → Prop
  | .instr _ ins =>
      ((∀ imm, ins.imm? = some imm → ImmLabelFree H constants imm) ∧ ins.isAuipcJump = false) ∨
      TShape names constants ins
  | .pack _ _ imm => ImmLabelFree H constants imm
  | .shorthandPack _ _ imm => ImmLabelFree H constants imm
  | _ => True

theorem mapRegs_aj (f : RegOp → RegOp) (ins : Instr) : (ins.mapRegs f).isAuipcJump = ins.isAuipcJump := by
  cases ins <;> rfl

theorem isTransfer_mapRegs {f : RegOp → RegOp} {ins : Instr} (h : IsTransfer ins) : IsTransfer (ins.mapRegs f) := by
  obtain ⟨hwk, hs⟩ := h
  refine ⟨by rw [wellKinded_mapRegs]; exact hwk, ?_⟩
  rcases hs with ⟨n, rs1, rs2, imm, rfl⟩ | ⟨n, rd, imm, rfl⟩
  · exact Or.inl ⟨_, _, _, _, rfl⟩
  · exact Or.inr ⟨_, _, _, rfl⟩

theorem good_alias {H : Hooks} {constants : Dict} {names : List String} (c : Dict) {x : Item}
    (h : Good H constants names x) : Good H constants names (aliasItem c x) := by
  cases x with
  | instr line ins =>
    simp only [aliasItem, Good] at h ⊢
    rcases h with ⟨h1, h2⟩ | ⟨n, hn, hc, hs⟩
    · exact Or.inl ⟨by rw [mapRegs_imm]; exact h1, by rw [mapRegs_aj]; exact h2⟩
    · refine Or.inr ⟨n, hn, hc, ?_⟩
      rcases hs with ⟨ht, hi⟩ | ⟨rA, rfl⟩ | ⟨rd, rA, rfl⟩
      · exact Or.inl ⟨isTransfer_mapRegs ht, by rw [mapRegs_imm]; exact hi⟩
      · exact Or.inr (Or.inl ⟨_, rfl⟩)
      · exact Or.inr (Or.inr ⟨_, _, rfl⟩)
  | _ => exact h

theorem good_aliases {H : Hooks} {constants : Dict} {names : List String} (c : Dict) {G : List Item}
    (h : ∀ x ∈ G, Good H constants names x) : ∀ y ∈ resolveRegisterAliases G c, Good H constants names y := by
  intro y hy
  unfold resolveRegisterAliases at hy
  obtain ⟨x, hx, rfl⟩ := List.mem_map.mp hy
  have := good_alias c (h x hx)
  cases x <;> exact this

/-! ### label-free immediates -/

theorem labelfree_lo {H : Hooks} {constants : Dict} {imm : Imm} (h : ImmLabelFree H constants imm) :
    ImmLabelFree H constants (.lo imm) := by
  intro L L' line p p'
  simp only [Imm.eval]
  rw [h L L' line p p']

theorem labelfree_hi {H : Hooks} {constants : Dict} {imm : Imm} (h : ImmLabelFree H constants imm) :
    ImmLabelFree H constants (.hi imm) := by
  intro L L' line p p'
  simp only [Imm.eval]
  rw [h L L' line p p']

/-- the evaluator gives −1 for the literal `-1` in every environment -/
def Neg1OK (H : Hooks) : Prop := ∀ env, H.arith "-1" env = .ok (-1)

theorem lit_eval {H : Hooks} (hlit : ∀ line p env, LitOK (evalAt H env line p)) (n : Nat) (hn : n < 32)
    (env : String → Option Int) (line : Line) (p : Int) :
    Imm.eval H env line (.arith (toString n)) p = .ok (n : Int) :=
  toOption_eq_some.mp (hlit line p env n hn)

theorem labelfree_lits {H : Hooks} (hlit : ∀ line p env, LitOK (evalAt H env line p)) (hneg : Neg1OK H)
    (constants : Dict) {x : Imm} (hx : x = .arith "0" ∨ x = .arith "-1" ∨ x = .arith "1") :
    ImmLabelFree H constants x ∧ ∀ env line p, ∃ v, x.eval H env line p = .ok v := by
  rcases hx with rfl | rfl | rfl
  · have e : ∀ env line p, Imm.eval H env line (.arith "0") p = .ok 0 := fun env line p => lit_eval hlit 0 (by omega) env line p
    exact ⟨fun L L' line p p' => by rw [e, e], fun env line p => ⟨0, e env line p⟩⟩
  · have e : ∀ env line p, Imm.eval H env line (.arith "-1") p = .ok (-1) := by
      intro env line p; simp only [Imm.eval, hneg env, liftExpr]
    exact ⟨fun L L' line p p' => by rw [e, e], fun env line p => ⟨-1, e env line p⟩⟩
  · have e : ∀ env line p, Imm.eval H env line (.arith "1") p = .ok 1 := fun env line p => lit_eval hlit 1 (by omega) env line p
    exact ⟨fun L L' line p p' => by rw [e, e], fun env line p => ⟨1, e env line p⟩⟩

/-! ### the shapes of an expansion -/

theorem expansion_shape {k : PKind} {args : List String} {imm : Imm} {short : Bool} {instrs : List Instr}
    (h : documented k args imm short = some instrs) :
    ∀ i ∈ instrs,
      (i.isAuipcJump = false ∧ ∀ x, i.imm? = some x → x = .arith "0" ∨ x = .arith "-1" ∨ x = .arith "1") ∨
      (k = .li ∧ i.isAuipcJump = false ∧ ∀ x, i.imm? = some x → x = .lo imm ∨ x = .hi imm) ∨
      (k ≠ .li ∧ (immTokens k args).isSome = true ∧
        ((∃ n rs1 rs2, i = .b n rs1 rs2 imm) ∨ (∃ n rd, i = .j n rd imm) ∨ (∃ rA, i = .u "auipc" rA (.hi imm)) ∨
         (∃ rd rA, i = .i "jalr" rd rA (.lo imm) true))) := by
  unfold documented at h
  simp only at h
  split at h
  all_goals (try (simp at h; done))
  all_goals (simp only [Option.some.injEq] at h; subst h)
  all_goals (intro i hi)
  all_goals (try split at hi)
  all_goals (simp only [List.mem_cons, List.mem_nil_iff, or_false] at hi)
  all_goals (
    first
      | (rcases hi with rfl | rfl <;> simp [Instr.imm?, Instr.isAuipcJump, immTokens])
      | (subst hi; simp [Instr.imm?, Instr.isAuipcJump, immTokens]))

/-- what is asked of a pseudo-instruction: a label-free `li` operand, and a branch / jump / call / tail
    target that is a label no constant shadows -/
def PseudoGood (H : Hooks) (constants : Dict) (names : List String) (line : Line) (name : String) (args : List String) : Prop :=
  (pseudoKind name = some .li → ∀ imm, H.parseImm args.tail line = .ok imm → ImmLabelFree H constants imm) ∧
  (∀ k r, pseudoKind name = some k → k ≠ .li → immTokens k args = some ["%offset", r] →
    r ∈ names ∧ constants.get r = none)

theorem immTokens_shape {k : PKind} {args toks : List String} (hk : k ≠ .li) (h : immTokens k args = some toks) :
    ∃ r, toks = ["%offset", r] := by
  unfold immTokens at h
  split at h <;> first | (simp only [Option.some.injEq] at h; exact ⟨_, h.symm⟩) | (exact absurd rfl hk) | simp at h

theorem immTokens_li {args toks : List String} (h : immTokens .li args = some toks) : toks = args.tail := by
  cases args with
  | nil => simp [immTokens] at h
  | cons rd t => simp only [immTokens, Option.some.injEq] at h; rw [← h]; rfl

/-- **the instructions of an expansion are `Good`** -/
theorem expansion_good {H : Hooks} (hoff : OffsetHook H) (hlit : ∀ line p env, LitOK (evalAt H env line p))
    (hneg : Neg1OK H) {constants : Dict} {names : List String} {env : String → Option Int} {line : Line}
    {name : String} {k : PKind} {args : List String} {p : Int} {instrs : List Instr} {short : Bool}
    (hk : pseudoKind name = some k) (hg : PseudoGood H constants names line name args)
    (h : expandKind H env line k args p = .ok (instrs, short)) :
    ∀ i ∈ instrs, Good H constants names (.instr line i) := by
  intro i hi
  have hwk := expandKind_wellKinded hk h i hi
  obtain ⟨imm, hparse, hdoc⟩ := expand_matches_doc H env line p h
  simp only [Good]
  rcases expansion_shape hdoc i hi with ⟨haj, hl⟩ | ⟨rfl, haj, hl⟩ | ⟨hkli, htok, hs⟩
  · exact Or.inl ⟨fun x hx => (labelfree_lits hlit hneg constants (hl x hx)).1, haj⟩
  · left
    refine ⟨fun x hx => ?_, haj⟩
    cases ht : immTokens .li args with
    | none =>
      -- no operand: the expansion failed
      exfalso
      cases args with
      | nil => simp [documented] at hdoc
      | cons rd t => simp [immTokens] at ht
    | some toks =>
      have hfree := hg.1 hk imm (by rw [← immTokens_li ht]; exact hparse toks ht)
      rcases hl x hx with rfl | rfl
      · exact labelfree_lo hfree
      · exact labelfree_hi hfree
  · right
    cases ht : immTokens k args with
    | none => simp [ht] at htok
    | some toks =>
      obtain ⟨r, rfl⟩ := immTokens_shape hkli ht
      have himm := hoff r line imm (hparse _ ht)
      subst himm
      obtain ⟨hr1, hr2⟩ := hg.2 k r hk hkli ht
      refine ⟨r, hr1, hr2, ?_⟩
      rcases hs with ⟨n, rs1, rs2, rfl⟩ | ⟨n, rd, rfl⟩ | ⟨rA, rfl⟩ | ⟨rd, rA, rfl⟩
      · exact Or.inl ⟨⟨hwk, Or.inl ⟨_, _, _, _, rfl⟩⟩, rfl⟩
      · exact Or.inl ⟨⟨hwk, Or.inr ⟨_, _, _, rfl⟩⟩, rfl⟩
      · exact Or.inr (Or.inl ⟨_, rfl⟩)
      · exact Or.inr (Or.inr ⟨_, _, rfl⟩)

end BB.Lemmas
