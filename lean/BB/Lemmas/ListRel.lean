/- BB.Lemmas.ListRel — two lists related element by element (core has no `List.Forall₂`). -/
namespace BB

inductive ListRel {α : Type} (R : α → α → Prop) : List α → List α → Prop
  | nil : ListRel R [] []
  | cons {a b : α} {as bs : List α} : R a b → ListRel R as bs → ListRel R (a :: as) (b :: bs)

theorem ListRel.refl {α : Type} {R : α → α → Prop} (hR : ∀ a, R a a) : ∀ l : List α, ListRel R l l
  | [] => .nil
  | a :: l => .cons (hR a) (ListRel.refl hR l)

theorem ListRel.append {α : Type} {R : α → α → Prop} {a a' b b' : List α}
    (h1 : ListRel R a a') (h2 : ListRel R b b') : ListRel R (a ++ b) (a' ++ b') := by
  induction h1 with
  | nil => exact h2
  | cons h _ ih => exact .cons h ih

theorem ListRel.eq_of_eq {α : Type} {a b : List α} (h : ListRel (· = ·) a b) : a = b := by
  induction h with
  | nil => rfl
  | cons h _ ih => rw [h, ih]

end BB
