/-
  BB.Lemmas.CompressSound — per criterion (`rs_*`, 29 of them): if the predicates of that entry of
  `criteria` hold of an instruction `ins` (of any class), `compressedForm` yields `cf`, `ins`
  resolves to `rins` naming the `Instr32` `i`, then `Compresses ev cf i`.
  (generated text, one lemma per entry; the proofs are the same three steps: invert the shape,
  turn the predicate list into arithmetic, apply the `cr_*` lemma of Lemmas/CompressRules)
-/
import BB.Lemmas.CompressRules
import Mathlib.Tactic.CasesM
set_option linter.unusedSimpArgs false
set_option linter.unusedVariables false
set_option linter.unusedTactic false
namespace BB.Lemmas
open BB BB.Spec
open BB.Props.C01 (denote32 denoteReg denoteInt)
open BB.Props.C02 (denote16 rowOf)

section
variable {ev : Imm → Option Int}

/-! ### inversion: a resolved instruction that names an `Instr32` has valid registers / immediate -/

theorem denoteReg_none {x : RegOp} (h : lookupRegister x = none) : denoteReg x = none := by
  simp [denoteReg, h]

theorem inv_i {n : String} {rd rs1 : RegOp} {imm : Imm} {aj : Bool} {rins : Instr} {i : Instr32}
    (hres : resolveWith ev (.i n rd rs1 imm aj) = some rins) (hden : denote32I rins = some i) :
    ∃ a b v, lookupRegister rd = some a ∧ lookupRegister rs1 = some b ∧ ev imm = some v ∧
      rins = .i n rd rs1 (.value v) aj := by
  simp only [resolveWith, Instr.imm?] at hres
  cases hv : ev imm with
  | none => simp [hv] at hres
  | some v =>
    simp only [hv, Option.map_some, Instr.setImm, Option.some.injEq] at hres
    subst hres
    unfold denote32I at hden
    simp only [Instr.name, Instr.args] at hden
    cases hk : instrTable.lookup n with
    | none => simp [hk] at hden
    | some k =>
      simp only [hk] at hden
      cases hrd : lookupRegister rd with
      | none => cases k <;> simp [denote32, denoteReg_none hrd, bind, Option.bind] at hden
      | some a =>
        cases hrs : lookupRegister rs1 with
        | none => cases k <;> simp [denote32, denoteReg_none hrs, denoteReg_of hrd, bind, Option.bind] at hden
        | some b => exact ⟨a, b, v, rfl, rfl, rfl, rfl⟩

theorem inv_s {n : String} {rs1 rs2 : RegOp} {imm : Imm} {rins : Instr} {i : Instr32}
    (hres : resolveWith ev (.s n rs1 rs2 imm) = some rins) (hden : denote32I rins = some i) :
    ∃ a b v, lookupRegister rs1 = some a ∧ lookupRegister rs2 = some b ∧ ev imm = some v ∧
      rins = .s n rs1 rs2 (.value v) := by
  simp only [resolveWith, Instr.imm?] at hres
  cases hv : ev imm with
  | none => simp [hv] at hres
  | some v =>
    simp only [hv, Option.map_some, Instr.setImm, Option.some.injEq] at hres
    subst hres
    unfold denote32I at hden
    simp only [Instr.name, Instr.args] at hden
    cases hk : instrTable.lookup n with
    | none => simp [hk] at hden
    | some k =>
      simp only [hk] at hden
      cases hrd : lookupRegister rs1 with
      | none => cases k <;> simp [denote32, denoteReg_none hrd, bind, Option.bind] at hden
      | some a =>
        cases hrs : lookupRegister rs2 with
        | none => cases k <;> simp [denote32, denoteReg_none hrs, denoteReg_of hrd, bind, Option.bind] at hden
        | some b => exact ⟨a, b, v, rfl, rfl, rfl, rfl⟩

theorem inv_b {n : String} {rs1 rs2 : RegOp} {imm : Imm} {rins : Instr} {i : Instr32}
    (hres : resolveWith ev (.b n rs1 rs2 imm) = some rins) (hden : denote32I rins = some i) :
    ∃ a b v, lookupRegister rs1 = some a ∧ lookupRegister rs2 = some b ∧ ev imm = some v ∧
      rins = .b n rs1 rs2 (.value v) := by
  simp only [resolveWith, Instr.imm?] at hres
  cases hv : ev imm with
  | none => simp [hv] at hres
  | some v =>
    simp only [hv, Option.map_some, Instr.setImm, Option.some.injEq] at hres
    subst hres
    unfold denote32I at hden
    simp only [Instr.name, Instr.args] at hden
    cases hk : instrTable.lookup n with
    | none => simp [hk] at hden
    | some k =>
      simp only [hk] at hden
      cases hrd : lookupRegister rs1 with
      | none => cases k <;> simp [denote32, denoteReg_none hrd, bind, Option.bind] at hden
      | some a =>
        cases hrs : lookupRegister rs2 with
        | none => cases k <;> simp [denote32, denoteReg_none hrs, denoteReg_of hrd, bind, Option.bind] at hden
        | some b => exact ⟨a, b, v, rfl, rfl, rfl, rfl⟩

theorem inv_u {n : String} {rd : RegOp} {imm : Imm} {rins : Instr} {i : Instr32}
    (hres : resolveWith ev (.u n rd imm) = some rins) (hden : denote32I rins = some i) :
    ∃ a v, lookupRegister rd = some a ∧ ev imm = some v ∧ rins = .u n rd (.value v) := by
  simp only [resolveWith, Instr.imm?] at hres
  cases hv : ev imm with
  | none => simp [hv] at hres
  | some v =>
    simp only [hv, Option.map_some, Instr.setImm, Option.some.injEq] at hres
    subst hres
    unfold denote32I at hden
    simp only [Instr.name, Instr.args] at hden
    cases hk : instrTable.lookup n with
    | none => simp [hk] at hden
    | some k =>
      simp only [hk] at hden
      cases hrd : lookupRegister rd with
      | none => cases k <;> simp [denote32, denoteReg_none hrd, bind, Option.bind] at hden
      | some a => exact ⟨a, v, rfl, rfl, rfl⟩

theorem inv_j {n : String} {rd : RegOp} {imm : Imm} {rins : Instr} {i : Instr32}
    (hres : resolveWith ev (.j n rd imm) = some rins) (hden : denote32I rins = some i) :
    ∃ a v, lookupRegister rd = some a ∧ ev imm = some v ∧ rins = .j n rd (.value v) := by
  simp only [resolveWith, Instr.imm?] at hres
  cases hv : ev imm with
  | none => simp [hv] at hres
  | some v =>
    simp only [hv, Option.map_some, Instr.setImm, Option.some.injEq] at hres
    subst hres
    unfold denote32I at hden
    simp only [Instr.name, Instr.args] at hden
    cases hk : instrTable.lookup n with
    | none => simp [hk] at hden
    | some k =>
      simp only [hk] at hden
      cases hrd : lookupRegister rd with
      | none => cases k <;> simp [denote32, denoteReg_none hrd, bind, Option.bind] at hden
      | some a => exact ⟨a, v, rfl, rfl, rfl⟩

theorem inv_r {n : String} {rd rs1 rs2 : RegOp} {rins : Instr} {i : Instr32}
    (hres : resolveWith ev (.r n rd rs1 rs2) = some rins) (hden : denote32I rins = some i) :
    ∃ a b c, lookupRegister rd = some a ∧ lookupRegister rs1 = some b ∧ lookupRegister rs2 = some c ∧
      rins = .r n rd rs1 rs2 := by
  simp only [resolveWith, Instr.imm?, Option.some.injEq] at hres
  subst hres
  unfold denote32I at hden
  simp only [Instr.name, Instr.args] at hden
  cases hk : instrTable.lookup n with
  | none => simp [hk] at hden
  | some k =>
    simp only [hk] at hden
    cases hrd : lookupRegister rd with
    | none => cases k <;> simp [denote32, denoteReg_none hrd, bind, Option.bind] at hden
    | some a =>
      cases hrs : lookupRegister rs1 with
      | none => cases k <;> simp [denote32, denoteReg_none hrs, denoteReg_of hrd, bind, Option.bind] at hden
      | some b =>
        cases hr2 : lookupRegister rs2 with
        | none =>
          cases k <;> simp [denote32, denoteReg_none hr2, denoteReg_of hrd, denoteReg_of hrs, bind, Option.bind] at hden
        | some c => exact ⟨a, b, c, rfl, rfl, rfl, rfl⟩

/-! ### `denote32I` of the 18 compressible base mnemonics -/

theorem b_addi {rd rs1 : RegOp} {a b : Nat} (v : Int) (aj : Bool) (hrd : lookupRegister rd = some a)
    (hrs : lookupRegister rs1 = some b) : denote32I (.i "addi" rd rs1 (.value v) aj) = some (.i .addi a b v) :=
  bridge_i v aj (by decide : instrTable.lookup "addi" = some (.i 19 0)) (by decide) hrd hrs
theorem b_andi {rd rs1 : RegOp} {a b : Nat} (v : Int) (aj : Bool) (hrd : lookupRegister rd = some a)
    (hrs : lookupRegister rs1 = some b) : denote32I (.i "andi" rd rs1 (.value v) aj) = some (.i .andi a b v) :=
  bridge_i v aj (by decide : instrTable.lookup "andi" = some (.i 19 7)) (by decide) hrd hrs
theorem b_lw {rd rs1 : RegOp} {a b : Nat} (v : Int) (aj : Bool) (hrd : lookupRegister rd = some a)
    (hrs : lookupRegister rs1 = some b) : denote32I (.i "lw" rd rs1 (.value v) aj) = some (.load .lw a b v) :=
  bridge_ld v aj (by decide : instrTable.lookup "lw" = some (.i 3 2)) (by decide) hrd hrs
theorem b_jalr {rd rs1 : RegOp} {a b : Nat} (v : Int) (aj : Bool) (hrd : lookupRegister rd = some a)
    (hrs : lookupRegister rs1 = some b) : denote32I (.i "jalr" rd rs1 (.value v) aj) = some (.jalr a b v) :=
  bridge_ij v aj (by decide : instrTable.lookup "jalr" = some (.ij 103 0)) (by decide) hrd hrs
theorem b_sw {rs1 rs2 : RegOp} {a b : Nat} (v : Int) (h1 : lookupRegister rs1 = some a)
    (h2 : lookupRegister rs2 = some b) : denote32I (.s "sw" rs1 rs2 (.value v)) = some (.store .sw a b v) :=
  bridge_s v (by decide : instrTable.lookup "sw" = some (.s 35 2)) (by decide) h1 h2
theorem b_beq {rs1 rs2 : RegOp} {a b : Nat} (v : Int) (h1 : lookupRegister rs1 = some a)
    (h2 : lookupRegister rs2 = some b) : denote32I (.b "beq" rs1 rs2 (.value v)) = some (.branch .beq a b v) :=
  bridge_b v (by decide : instrTable.lookup "beq" = some (.b 99 0)) (by decide) h1 h2
theorem b_bne {rs1 rs2 : RegOp} {a b : Nat} (v : Int) (h1 : lookupRegister rs1 = some a)
    (h2 : lookupRegister rs2 = some b) : denote32I (.b "bne" rs1 rs2 (.value v)) = some (.branch .bne a b v) :=
  bridge_b v (by decide : instrTable.lookup "bne" = some (.b 99 1)) (by decide) h1 h2
theorem b_jal {rd : RegOp} {a : Nat} (v : Int) (hrd : lookupRegister rd = some a) :
    denote32I (.j "jal" rd (.value v)) = some (.jal a v) :=
  bridge_j v (by decide : instrTable.lookup "jal" = some (.j 111)) (by decide) hrd
theorem b_lui {rd : RegOp} {a : Nat} (v : Int) (hrd : lookupRegister rd = some a) :
    denote32I (.u "lui" rd (.value v)) = some (.lui a (v % 1048576).toNat) :=
  bridge_lui v (by decide : instrTable.lookup "lui" = some (.u 55)) (by decide) hrd
theorem b_srli {rd rs1 rs2 : RegOp} {a b c : Nat} (hrd : lookupRegister rd = some a) (h1 : lookupRegister rs1 = some b)
    (h2 : lookupRegister rs2 = some c) : denote32I (.r "srli" rd rs1 rs2) = some (.sh .srli a b c) :=
  bridge_sh (by decide : instrTable.lookup "srli" = some (.r 19 5 0)) (by decide) hrd h1 h2
theorem b_srai {rd rs1 rs2 : RegOp} {a b c : Nat} (hrd : lookupRegister rd = some a) (h1 : lookupRegister rs1 = some b)
    (h2 : lookupRegister rs2 = some c) : denote32I (.r "srai" rd rs1 rs2) = some (.sh .srai a b c) :=
  bridge_sh (by decide : instrTable.lookup "srai" = some (.r 19 5 32)) (by decide) hrd h1 h2
theorem b_slli {rd rs1 rs2 : RegOp} {a b c : Nat} (hrd : lookupRegister rd = some a) (h1 : lookupRegister rs1 = some b)
    (h2 : lookupRegister rs2 = some c) : denote32I (.r "slli" rd rs1 rs2) = some (.sh .slli a b c) :=
  bridge_sh (by decide : instrTable.lookup "slli" = some (.r 19 1 0)) (by decide) hrd h1 h2
theorem b_add {rd rs1 rs2 : RegOp} {a b c : Nat} (hrd : lookupRegister rd = some a) (h1 : lookupRegister rs1 = some b)
    (h2 : lookupRegister rs2 = some c) : denote32I (.r "add" rd rs1 rs2) = some (.r .add a b c) :=
  bridge_r (by decide : instrTable.lookup "add" = some (.r 51 0 0)) (by decide) hrd h1 h2
theorem b_sub {rd rs1 rs2 : RegOp} {a b c : Nat} (hrd : lookupRegister rd = some a) (h1 : lookupRegister rs1 = some b)
    (h2 : lookupRegister rs2 = some c) : denote32I (.r "sub" rd rs1 rs2) = some (.r .sub a b c) :=
  bridge_r (by decide : instrTable.lookup "sub" = some (.r 51 0 32)) (by decide) hrd h1 h2
theorem b_xor {rd rs1 rs2 : RegOp} {a b c : Nat} (hrd : lookupRegister rd = some a) (h1 : lookupRegister rs1 = some b)
    (h2 : lookupRegister rs2 = some c) : denote32I (.r "xor" rd rs1 rs2) = some (.r .xor a b c) :=
  bridge_r (by decide : instrTable.lookup "xor" = some (.r 51 4 0)) (by decide) hrd h1 h2
theorem b_or {rd rs1 rs2 : RegOp} {a b c : Nat} (hrd : lookupRegister rd = some a) (h1 : lookupRegister rs1 = some b)
    (h2 : lookupRegister rs2 = some c) : denote32I (.r "or" rd rs1 rs2) = some (.r .or a b c) :=
  bridge_r (by decide : instrTable.lookup "or" = some (.r 51 6 0)) (by decide) hrd h1 h2
theorem b_and {rd rs1 rs2 : RegOp} {a b c : Nat} (hrd : lookupRegister rd = some a) (h1 : lookupRegister rs1 = some b)
    (h2 : lookupRegister rs2 = some c) : denote32I (.r "and" rd rs1 rs2) = some (.r .and a b c) :=
  bridge_r (by decide : instrTable.lookup "and" = some (.r 51 7 0)) (by decide) hrd h1 h2
theorem b_ebreak : denote32I (.ie "ebreak") = some .ebreak := by decide

set_option hygiene false in
/-- the predicate list of a criterion, on an instruction of known shape, as plain arithmetic -/
macro "hp_arith" : tactic =>
  `(tactic| (
    simp only [List.mem_cons, List.mem_nil_iff, or_false, forall_eq_or_imp, forall_eq, Pred.holds, regNum,
      immVal, Instr.fld, Instr.imm?, Instr.name, Option.bind_some, Option.some.injEq, exists_eq_left',
      exists_and_left, exists_eq_left, ge_iff_le, ne_eq, *] at hp
    casesm* _ ∧ _
    subst_vars))

theorem rs_addi16sp {preds : List Pred} {ins cf rins : Instr} {i : Instr32}
    (hmem : ("c.addi16sp", preds) ∈ criteria) (hlit : LitOK ev)
    (hp : ∀ pr ∈ preds, pr.holds ins ev) (hcf : compressedForm "c.addi16sp" ins = some cf)
    (hres : resolveWith ev ins = some rins) (hden : denote32I rins = some i) : Compresses ev cf i := by
  simp [criteria] at hmem
  subst hmem
  cases ins with
  | i n rd rs1 imm aj =>
    simp [compressedForm] at hcf
    subst hcf
    obtain ⟨a, b, v, hrd, hrs, hv, rfl⟩ := inv_i hres hden
    hp_arith
    rw [b_addi _ _ hrd hrs] at hden
    cases hden
    apply cr_addi16sp <;> first | assumption | omega
  | _ => simp [compressedForm] at hcf

theorem rs_addi4spn {preds : List Pred} {ins cf rins : Instr} {i : Instr32}
    (hmem : ("c.addi4spn", preds) ∈ criteria) (hlit : LitOK ev)
    (hp : ∀ pr ∈ preds, pr.holds ins ev) (hcf : compressedForm "c.addi4spn" ins = some cf)
    (hres : resolveWith ev ins = some rins) (hden : denote32I rins = some i) : Compresses ev cf i := by
  simp [criteria] at hmem
  subst hmem
  cases ins with
  | i n rd rs1 imm aj =>
    simp [compressedForm] at hcf
    subst hcf
    obtain ⟨a, b, v, hrd, hrs, hv, rfl⟩ := inv_i hres hden
    hp_arith
    rw [b_addi _ _ hrd hrs] at hden
    cases hden
    apply cr_addi4spn <;> first | assumption | omega
  | _ => simp [compressedForm] at hcf

theorem rs_lw {preds : List Pred} {ins cf rins : Instr} {i : Instr32}
    (hmem : ("c.lw", preds) ∈ criteria) (hlit : LitOK ev)
    (hp : ∀ pr ∈ preds, pr.holds ins ev) (hcf : compressedForm "c.lw" ins = some cf)
    (hres : resolveWith ev ins = some rins) (hden : denote32I rins = some i) : Compresses ev cf i := by
  simp [criteria] at hmem
  subst hmem
  cases ins with
  | i n rd rs1 imm aj =>
    simp [compressedForm] at hcf
    subst hcf
    obtain ⟨a, b, v, hrd, hrs, hv, rfl⟩ := inv_i hres hden
    hp_arith
    rw [b_lw _ _ hrd hrs] at hden
    cases hden
    apply cr_lw <;> first | assumption | omega
  | _ => simp [compressedForm] at hcf

theorem rs_sw {preds : List Pred} {ins cf rins : Instr} {i : Instr32}
    (hmem : ("c.sw", preds) ∈ criteria) (hlit : LitOK ev)
    (hp : ∀ pr ∈ preds, pr.holds ins ev) (hcf : compressedForm "c.sw" ins = some cf)
    (hres : resolveWith ev ins = some rins) (hden : denote32I rins = some i) : Compresses ev cf i := by
  simp [criteria] at hmem
  subst hmem
  cases ins with
  | s n rs1 rs2 imm =>
    simp [compressedForm] at hcf
    subst hcf
    obtain ⟨a, b, v, hrd, hrs, hv, rfl⟩ := inv_s hres hden
    hp_arith
    rw [b_sw _ hrd hrs] at hden
    cases hden
    apply cr_sw <;> first | assumption | omega
  | _ => simp [compressedForm] at hcf

theorem rs_nop {preds : List Pred} {ins cf rins : Instr} {i : Instr32}
    (hmem : ("c.nop", preds) ∈ criteria) (hlit : LitOK ev)
    (hp : ∀ pr ∈ preds, pr.holds ins ev) (hcf : compressedForm "c.nop" ins = some cf)
    (hres : resolveWith ev ins = some rins) (hden : denote32I rins = some i) : Compresses ev cf i := by
  simp [criteria] at hmem
  subst hmem
  cases ins with
  | i n rd rs1 imm aj =>
    simp [compressedForm] at hcf
    subst hcf
    obtain ⟨a, b, v, hrd, hrs, hv, rfl⟩ := inv_i hres hden
    hp_arith
    rw [b_addi _ _ hrd hrs] at hden
    cases hden
    apply cr_nop <;> first | assumption | omega
  | _ => simp [compressedForm] at hcf

theorem rs_addi {preds : List Pred} {ins cf rins : Instr} {i : Instr32}
    (hmem : ("c.addi", preds) ∈ criteria) (hlit : LitOK ev)
    (hp : ∀ pr ∈ preds, pr.holds ins ev) (hcf : compressedForm "c.addi" ins = some cf)
    (hres : resolveWith ev ins = some rins) (hden : denote32I rins = some i) : Compresses ev cf i := by
  simp [criteria] at hmem
  subst hmem
  cases ins with
  | i n rd rs1 imm aj =>
    simp [compressedForm] at hcf
    subst hcf
    obtain ⟨a, b, v, hrd, hrs, hv, rfl⟩ := inv_i hres hden
    hp_arith
    rw [b_addi _ _ hrd hrs] at hden
    cases hden
    apply cr_addi <;> first | assumption | omega
  | _ => simp [compressedForm] at hcf

theorem rs_jal {preds : List Pred} {ins cf rins : Instr} {i : Instr32}
    (hmem : ("c.jal", preds) ∈ criteria) (hlit : LitOK ev)
    (hp : ∀ pr ∈ preds, pr.holds ins ev) (hcf : compressedForm "c.jal" ins = some cf)
    (hres : resolveWith ev ins = some rins) (hden : denote32I rins = some i) : Compresses ev cf i := by
  simp [criteria] at hmem
  subst hmem
  cases ins with
  | j n rd imm =>
    simp [compressedForm] at hcf
    subst hcf
    obtain ⟨a, v, hrd, hv, rfl⟩ := inv_j hres hden
    hp_arith
    rw [b_jal _ hrd] at hden
    cases hden
    apply cr_jal <;> first | assumption | omega
  | _ => simp [compressedForm] at hcf

theorem rs_li {preds : List Pred} {ins cf rins : Instr} {i : Instr32}
    (hmem : ("c.li", preds) ∈ criteria) (hlit : LitOK ev)
    (hp : ∀ pr ∈ preds, pr.holds ins ev) (hcf : compressedForm "c.li" ins = some cf)
    (hres : resolveWith ev ins = some rins) (hden : denote32I rins = some i) : Compresses ev cf i := by
  simp [criteria] at hmem
  subst hmem
  cases ins with
  | i n rd rs1 imm aj =>
    simp [compressedForm] at hcf
    subst hcf
    obtain ⟨a, b, v, hrd, hrs, hv, rfl⟩ := inv_i hres hden
    hp_arith
    rw [b_addi _ _ hrd hrs] at hden
    cases hden
    apply cr_li <;> first | assumption | omega
  | _ => simp [compressedForm] at hcf

theorem rs_lui {preds : List Pred} {ins cf rins : Instr} {i : Instr32}
    (hmem : ("c.lui", preds) ∈ criteria) (hlit : LitOK ev)
    (hp : ∀ pr ∈ preds, pr.holds ins ev) (hcf : compressedForm "c.lui" ins = some cf)
    (hres : resolveWith ev ins = some rins) (hden : denote32I rins = some i) : Compresses ev cf i := by
  simp [criteria] at hmem
  subst hmem
  cases ins with
  | u n rd imm =>
    simp [compressedForm] at hcf
    subst hcf
    obtain ⟨a, v, hrd, hv, rfl⟩ := inv_u hres hden
    hp_arith
    rw [b_lui _ hrd] at hden
    cases hden
    apply cr_lui <;> first | assumption | omega
  | _ => simp [compressedForm] at hcf

theorem rs_lui_alt {preds : List Pred} {ins cf rins : Instr} {i : Instr32}
    (hmem : ("c.lui_alt", preds) ∈ criteria) (hlit : LitOK ev)
    (hp : ∀ pr ∈ preds, pr.holds ins ev) (hcf : compressedForm "c.lui_alt" ins = some cf)
    (hres : resolveWith ev ins = some rins) (hden : denote32I rins = some i) : Compresses ev cf i := by
  simp [criteria] at hmem
  subst hmem
  cases ins with
  | u n rd imm =>
    simp [compressedForm] at hcf
    subst hcf
    obtain ⟨a, v, hrd, hv, rfl⟩ := inv_u hres hden
    hp_arith
    rw [b_lui _ hrd] at hden
    cases hden
    apply cr_lui_alt <;> first | assumption | omega
  | _ => simp [compressedForm] at hcf

theorem rs_srli {preds : List Pred} {ins cf rins : Instr} {i : Instr32}
    (hmem : ("c.srli", preds) ∈ criteria) (hlit : LitOK ev)
    (hp : ∀ pr ∈ preds, pr.holds ins ev) (hcf : compressedForm "c.srli" ins = some cf)
    (hres : resolveWith ev ins = some rins) (hden : denote32I rins = some i) : Compresses ev cf i := by
  simp [criteria] at hmem
  subst hmem
  cases ins with
  | r n rd rs1 rs2 =>
    simp [compressedForm] at hcf
    subst hcf
    obtain ⟨a, b, c, hrd, hrs, hr2, rfl⟩ := inv_r hres hden
    hp_arith
    rw [b_srli hrd hrs hr2] at hden
    cases hden
    simp only [shamtImm, hr2]
    apply cr_srli hlit <;> first | assumption | omega
  | _ => simp [compressedForm] at hcf

theorem rs_srai {preds : List Pred} {ins cf rins : Instr} {i : Instr32}
    (hmem : ("c.srai", preds) ∈ criteria) (hlit : LitOK ev)
    (hp : ∀ pr ∈ preds, pr.holds ins ev) (hcf : compressedForm "c.srai" ins = some cf)
    (hres : resolveWith ev ins = some rins) (hden : denote32I rins = some i) : Compresses ev cf i := by
  simp [criteria] at hmem
  subst hmem
  cases ins with
  | r n rd rs1 rs2 =>
    simp [compressedForm] at hcf
    subst hcf
    obtain ⟨a, b, c, hrd, hrs, hr2, rfl⟩ := inv_r hres hden
    hp_arith
    rw [b_srai hrd hrs hr2] at hden
    cases hden
    simp only [shamtImm, hr2]
    apply cr_srai hlit <;> first | assumption | omega
  | _ => simp [compressedForm] at hcf

theorem rs_andi {preds : List Pred} {ins cf rins : Instr} {i : Instr32}
    (hmem : ("c.andi", preds) ∈ criteria) (hlit : LitOK ev)
    (hp : ∀ pr ∈ preds, pr.holds ins ev) (hcf : compressedForm "c.andi" ins = some cf)
    (hres : resolveWith ev ins = some rins) (hden : denote32I rins = some i) : Compresses ev cf i := by
  simp [criteria] at hmem
  subst hmem
  cases ins with
  | i n rd rs1 imm aj =>
    simp [compressedForm] at hcf
    subst hcf
    obtain ⟨a, b, v, hrd, hrs, hv, rfl⟩ := inv_i hres hden
    hp_arith
    rw [b_andi _ _ hrd hrs] at hden
    cases hden
    apply cr_andi <;> first | assumption | omega
  | _ => simp [compressedForm] at hcf

theorem rs_sub {preds : List Pred} {ins cf rins : Instr} {i : Instr32}
    (hmem : ("c.sub", preds) ∈ criteria) (hlit : LitOK ev)
    (hp : ∀ pr ∈ preds, pr.holds ins ev) (hcf : compressedForm "c.sub" ins = some cf)
    (hres : resolveWith ev ins = some rins) (hden : denote32I rins = some i) : Compresses ev cf i := by
  simp [criteria] at hmem
  subst hmem
  cases ins with
  | r n rd rs1 rs2 =>
    simp [compressedForm] at hcf
    subst hcf
    obtain ⟨a, b, c, hrd, hrs, hr2, rfl⟩ := inv_r hres hden
    hp_arith
    rw [b_sub hrd hrs hr2] at hden
    cases hden
    apply cr_sub <;> first | assumption | omega
  | _ => simp [compressedForm] at hcf

theorem rs_xor {preds : List Pred} {ins cf rins : Instr} {i : Instr32}
    (hmem : ("c.xor", preds) ∈ criteria) (hlit : LitOK ev)
    (hp : ∀ pr ∈ preds, pr.holds ins ev) (hcf : compressedForm "c.xor" ins = some cf)
    (hres : resolveWith ev ins = some rins) (hden : denote32I rins = some i) : Compresses ev cf i := by
  simp [criteria] at hmem
  subst hmem
  cases ins with
  | r n rd rs1 rs2 =>
    simp [compressedForm] at hcf
    subst hcf
    obtain ⟨a, b, c, hrd, hrs, hr2, rfl⟩ := inv_r hres hden
    hp_arith
    rw [b_xor hrd hrs hr2] at hden
    cases hden
    apply cr_xor <;> first | assumption | omega
  | _ => simp [compressedForm] at hcf

theorem rs_or {preds : List Pred} {ins cf rins : Instr} {i : Instr32}
    (hmem : ("c.or", preds) ∈ criteria) (hlit : LitOK ev)
    (hp : ∀ pr ∈ preds, pr.holds ins ev) (hcf : compressedForm "c.or" ins = some cf)
    (hres : resolveWith ev ins = some rins) (hden : denote32I rins = some i) : Compresses ev cf i := by
  simp [criteria] at hmem
  subst hmem
  cases ins with
  | r n rd rs1 rs2 =>
    simp [compressedForm] at hcf
    subst hcf
    obtain ⟨a, b, c, hrd, hrs, hr2, rfl⟩ := inv_r hres hden
    hp_arith
    rw [b_or hrd hrs hr2] at hden
    cases hden
    apply cr_or <;> first | assumption | omega
  | _ => simp [compressedForm] at hcf

theorem rs_and {preds : List Pred} {ins cf rins : Instr} {i : Instr32}
    (hmem : ("c.and", preds) ∈ criteria) (hlit : LitOK ev)
    (hp : ∀ pr ∈ preds, pr.holds ins ev) (hcf : compressedForm "c.and" ins = some cf)
    (hres : resolveWith ev ins = some rins) (hden : denote32I rins = some i) : Compresses ev cf i := by
  simp [criteria] at hmem
  subst hmem
  cases ins with
  | r n rd rs1 rs2 =>
    simp [compressedForm] at hcf
    subst hcf
    obtain ⟨a, b, c, hrd, hrs, hr2, rfl⟩ := inv_r hres hden
    hp_arith
    rw [b_and hrd hrs hr2] at hden
    cases hden
    apply cr_and <;> first | assumption | omega
  | _ => simp [compressedForm] at hcf

theorem rs_j {preds : List Pred} {ins cf rins : Instr} {i : Instr32}
    (hmem : ("c.j", preds) ∈ criteria) (hlit : LitOK ev)
    (hp : ∀ pr ∈ preds, pr.holds ins ev) (hcf : compressedForm "c.j" ins = some cf)
    (hres : resolveWith ev ins = some rins) (hden : denote32I rins = some i) : Compresses ev cf i := by
  simp [criteria] at hmem
  subst hmem
  cases ins with
  | j n rd imm =>
    simp [compressedForm] at hcf
    subst hcf
    obtain ⟨a, v, hrd, hv, rfl⟩ := inv_j hres hden
    hp_arith
    rw [b_jal _ hrd] at hden
    cases hden
    apply cr_j <;> first | assumption | omega
  | _ => simp [compressedForm] at hcf

theorem rs_beqz {preds : List Pred} {ins cf rins : Instr} {i : Instr32}
    (hmem : ("c.beqz", preds) ∈ criteria) (hlit : LitOK ev)
    (hp : ∀ pr ∈ preds, pr.holds ins ev) (hcf : compressedForm "c.beqz" ins = some cf)
    (hres : resolveWith ev ins = some rins) (hden : denote32I rins = some i) : Compresses ev cf i := by
  simp [criteria] at hmem
  subst hmem
  cases ins with
  | b n rs1 rs2 imm =>
    simp [compressedForm] at hcf
    subst hcf
    obtain ⟨a, b, v, hrd, hrs, hv, rfl⟩ := inv_b hres hden
    hp_arith
    rw [b_beq _ hrd hrs] at hden
    cases hden
    apply cr_beqz <;> first | assumption | omega
  | _ => simp [compressedForm] at hcf

theorem rs_bnez {preds : List Pred} {ins cf rins : Instr} {i : Instr32}
    (hmem : ("c.bnez", preds) ∈ criteria) (hlit : LitOK ev)
    (hp : ∀ pr ∈ preds, pr.holds ins ev) (hcf : compressedForm "c.bnez" ins = some cf)
    (hres : resolveWith ev ins = some rins) (hden : denote32I rins = some i) : Compresses ev cf i := by
  simp [criteria] at hmem
  subst hmem
  cases ins with
  | b n rs1 rs2 imm =>
    simp [compressedForm] at hcf
    subst hcf
    obtain ⟨a, b, v, hrd, hrs, hv, rfl⟩ := inv_b hres hden
    hp_arith
    rw [b_bne _ hrd hrs] at hden
    cases hden
    apply cr_bnez <;> first | assumption | omega
  | _ => simp [compressedForm] at hcf

theorem rs_slli {preds : List Pred} {ins cf rins : Instr} {i : Instr32}
    (hmem : ("c.slli", preds) ∈ criteria) (hlit : LitOK ev)
    (hp : ∀ pr ∈ preds, pr.holds ins ev) (hcf : compressedForm "c.slli" ins = some cf)
    (hres : resolveWith ev ins = some rins) (hden : denote32I rins = some i) : Compresses ev cf i := by
  simp [criteria] at hmem
  subst hmem
  cases ins with
  | r n rd rs1 rs2 =>
    simp [compressedForm] at hcf
    subst hcf
    obtain ⟨a, b, c, hrd, hrs, hr2, rfl⟩ := inv_r hres hden
    hp_arith
    rw [b_slli hrd hrs hr2] at hden
    cases hden
    simp only [shamtImm, hr2]
    apply cr_slli hlit <;> first | assumption | omega
  | _ => simp [compressedForm] at hcf

theorem rs_lwsp {preds : List Pred} {ins cf rins : Instr} {i : Instr32}
    (hmem : ("c.lwsp", preds) ∈ criteria) (hlit : LitOK ev)
    (hp : ∀ pr ∈ preds, pr.holds ins ev) (hcf : compressedForm "c.lwsp" ins = some cf)
    (hres : resolveWith ev ins = some rins) (hden : denote32I rins = some i) : Compresses ev cf i := by
  simp [criteria] at hmem
  subst hmem
  cases ins with
  | i n rd rs1 imm aj =>
    simp [compressedForm] at hcf
    subst hcf
    obtain ⟨a, b, v, hrd, hrs, hv, rfl⟩ := inv_i hres hden
    hp_arith
    rw [b_lw _ _ hrd hrs] at hden
    cases hden
    apply cr_lwsp <;> first | assumption | omega
  | _ => simp [compressedForm] at hcf

theorem rs_jr {preds : List Pred} {ins cf rins : Instr} {i : Instr32}
    (hmem : ("c.jr", preds) ∈ criteria) (hlit : LitOK ev)
    (hp : ∀ pr ∈ preds, pr.holds ins ev) (hcf : compressedForm "c.jr" ins = some cf)
    (hres : resolveWith ev ins = some rins) (hden : denote32I rins = some i) : Compresses ev cf i := by
  simp [criteria] at hmem
  subst hmem
  cases ins with
  | i n rd rs1 imm aj =>
    simp [compressedForm] at hcf
    subst hcf
    obtain ⟨a, b, v, hrd, hrs, hv, rfl⟩ := inv_i hres hden
    hp_arith
    rw [b_jalr _ _ hrd hrs] at hden
    cases hden
    apply cr_jr <;> first | assumption | omega
  | _ => simp [compressedForm] at hcf

theorem rs_mv {preds : List Pred} {ins cf rins : Instr} {i : Instr32}
    (hmem : ("c.mv", preds) ∈ criteria) (hlit : LitOK ev)
    (hp : ∀ pr ∈ preds, pr.holds ins ev) (hcf : compressedForm "c.mv" ins = some cf)
    (hres : resolveWith ev ins = some rins) (hden : denote32I rins = some i) : Compresses ev cf i := by
  simp [criteria] at hmem
  subst hmem
  cases ins with
  | r n rd rs1 rs2 =>
    simp [compressedForm] at hcf
    subst hcf
    obtain ⟨a, b, c, hrd, hrs, hr2, rfl⟩ := inv_r hres hden
    hp_arith
    rw [b_add hrd hrs hr2] at hden
    cases hden
    apply cr_mv <;> first | assumption | omega
  | _ => simp [compressedForm] at hcf

theorem rs_mv_alt {preds : List Pred} {ins cf rins : Instr} {i : Instr32}
    (hmem : ("c.mv_alt", preds) ∈ criteria) (hlit : LitOK ev)
    (hp : ∀ pr ∈ preds, pr.holds ins ev) (hcf : compressedForm "c.mv_alt" ins = some cf)
    (hres : resolveWith ev ins = some rins) (hden : denote32I rins = some i) : Compresses ev cf i := by
  simp [criteria] at hmem
  subst hmem
  cases ins with
  | i n rd rs1 imm aj =>
    simp [compressedForm] at hcf
    subst hcf
    obtain ⟨a, b, v, hrd, hrs, hv, rfl⟩ := inv_i hres hden
    hp_arith
    rw [b_addi _ _ hrd hrs] at hden
    cases hden
    apply cr_mv_alt <;> first | assumption | omega
  | _ => simp [compressedForm] at hcf

theorem rs_ebreak {preds : List Pred} {ins cf rins : Instr} {i : Instr32}
    (hmem : ("c.ebreak", preds) ∈ criteria) (hlit : LitOK ev)
    (hp : ∀ pr ∈ preds, pr.holds ins ev) (hcf : compressedForm "c.ebreak" ins = some cf)
    (hres : resolveWith ev ins = some rins) (hden : denote32I rins = some i) : Compresses ev cf i := by
  simp [criteria] at hmem
  subst hmem
  cases ins with
  | ie n =>
    simp [compressedForm] at hcf
    subst hcf
    simp only [resolveWith, Instr.imm?, Option.some.injEq] at hres
    subst hres
    have hn : n = "ebreak" := by simpa [Pred.holds, Instr.name] using hp
    subst hn
    rw [b_ebreak] at hden
    cases hden
    exact cr_ebreak
  | _ => simp [compressedForm] at hcf

theorem rs_add {preds : List Pred} {ins cf rins : Instr} {i : Instr32}
    (hmem : ("c.add", preds) ∈ criteria) (hlit : LitOK ev)
    (hp : ∀ pr ∈ preds, pr.holds ins ev) (hcf : compressedForm "c.add" ins = some cf)
    (hres : resolveWith ev ins = some rins) (hden : denote32I rins = some i) : Compresses ev cf i := by
  simp [criteria] at hmem
  subst hmem
  cases ins with
  | r n rd rs1 rs2 =>
    simp [compressedForm] at hcf
    subst hcf
    obtain ⟨a, b, c, hrd, hrs, hr2, rfl⟩ := inv_r hres hden
    hp_arith
    rw [b_add hrd hrs hr2] at hden
    cases hden
    apply cr_add <;> first | assumption | omega
  | _ => simp [compressedForm] at hcf

theorem rs_jalr {preds : List Pred} {ins cf rins : Instr} {i : Instr32}
    (hmem : ("c.jalr", preds) ∈ criteria) (hlit : LitOK ev)
    (hp : ∀ pr ∈ preds, pr.holds ins ev) (hcf : compressedForm "c.jalr" ins = some cf)
    (hres : resolveWith ev ins = some rins) (hden : denote32I rins = some i) : Compresses ev cf i := by
  simp [criteria] at hmem
  subst hmem
  cases ins with
  | i n rd rs1 imm aj =>
    simp [compressedForm] at hcf
    subst hcf
    obtain ⟨a, b, v, hrd, hrs, hv, rfl⟩ := inv_i hres hden
    hp_arith
    rw [b_jalr _ _ hrd hrs] at hden
    cases hden
    apply cr_jalr <;> first | assumption | omega
  | _ => simp [compressedForm] at hcf

theorem rs_swsp {preds : List Pred} {ins cf rins : Instr} {i : Instr32}
    (hmem : ("c.swsp", preds) ∈ criteria) (hlit : LitOK ev)
    (hp : ∀ pr ∈ preds, pr.holds ins ev) (hcf : compressedForm "c.swsp" ins = some cf)
    (hres : resolveWith ev ins = some rins) (hden : denote32I rins = some i) : Compresses ev cf i := by
  simp [criteria] at hmem
  subst hmem
  cases ins with
  | s n rs1 rs2 imm =>
    simp [compressedForm] at hcf
    subst hcf
    obtain ⟨a, b, v, hrd, hrs, hv, rfl⟩ := inv_s hres hden
    hp_arith
    rw [b_sw _ hrd hrs] at hden
    cases hden
    apply cr_swsp <;> first | assumption | omega
  | _ => simp [compressedForm] at hcf

end
end BB.Lemmas
