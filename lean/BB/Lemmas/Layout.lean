/-
  BB.Lemmas.Layout — the label table is the layout.

  `labelPos G p ℓ` is the position of the marker of label ℓ in a *ghost* item list `G` that still
  contains its `.label` items, laid out from position `p` with the sizes the items have in `G`.
  The central theorem `walk_layout` shows that the in-place label shifting of the three shrinking
  passes ("every label with value > position moves down by n") keeps the dictionary equal to that
  layout, for every list, every loop body that satisfies `BodyOK`, every position.
-/
import BB.Model
namespace BB.Lemmas
open BB

/-! ### Dict facts -/

theorem Dict.get_set (d : Dict) (k k' : String) (v : Int) :
    (d.set k v).get k' = if k' = k then some v else d.get k' := by
  induction d with
  | nil =>
    simp only [Dict.set, Dict.get, List.lookup]
    by_cases h : k' = k
    · subst h; simp
    · have : (k' == k) = false := by simpa using h
      simp [this, h]
  | cons e t ih =>
    obtain ⟨a, b⟩ := e
    simp only [Dict.set]
    by_cases hak : a = k
    · subst hak
      simp only [if_true, Dict.get, List.lookup]
      by_cases h : k' = a
      · subst h; simp
      · have : (k' == a) = false := by simpa using h
        simp [this, h]
    · simp only [hak, if_false, Dict.get, List.lookup]
      by_cases h : k' = a
      · subst h
        have : k' ≠ k := hak
        simp [this]
      · have hb : (k' == a) = false := by simpa using h
        simp only [hb]
        exact ih

theorem Dict.get_shiftAbove (d : Dict) (p n : Int) (k : String) :
    (d.shiftAbove p n).get k = (d.get k).map (fun v => if v > p then v - n else v) := by
  induction d with
  | nil => simp [Dict.shiftAbove, Dict.get, List.lookup]
  | cons e t ih =>
    obtain ⟨a, b⟩ := e
    simp only [Dict.shiftAbove, List.map_cons, Dict.get] at ih ⊢
    by_cases hb : b > p
    · simp only [hb, if_true, List.lookup]
      by_cases h : k == a
      · simp [h, hb]
      · simp only [h]; exact ih
    · simp only [hb, if_false, List.lookup]
      by_cases h : k == a
      · simp [h, hb]
      · simp only [h]; exact ih

theorem Dict.keys_shiftAbove (d : Dict) (p n : Int) :
    (d.shiftAbove p n).map Prod.fst = d.map Prod.fst := by
  induction d with
  | nil => rfl
  | cons e t ih =>
    obtain ⟨a, b⟩ := e
    simp only [Dict.shiftAbove, List.map_cons, List.map_map] at ih ⊢
    by_cases hb : b > p <;> simp [hb, ih]

/-! ### layout of a ghost list -/

/-- position of the marker of label ℓ (first occurrence) when `G` is laid out from `p` -/
def labelPos : List Item → Int → String → Option Int
  | [], _, _ => none
  | .label _ n :: rest, p, ℓ => if n = ℓ then some p else labelPos rest p ℓ
  | it :: rest, p, ℓ => labelPos rest (p + it.sizeD) ℓ

def labelNames : List Item → List String
  | [] => []
  | .label _ n :: rest => n :: labelNames rest
  | _ :: rest => labelNames rest

def NonNeg (G : List Item) : Prop := ∀ it ∈ G, 0 ≤ it.sizeD

def NoLabel (l : List Item) : Prop := ∀ it ∈ l, ∀ line n, it ≠ .label line n

theorem sizeSum_cons (it : Item) (l : List Item) : sizeSum (it :: l) = it.sizeD + sizeSum l := by
  simp [sizeSum]

theorem sizeSum_append (a b : List Item) : sizeSum (a ++ b) = sizeSum a + sizeSum b := by
  simp [sizeSum, List.sum_append]

theorem sizeSum_nonneg {l : List Item} (h : NonNeg l) : 0 ≤ sizeSum l := by
  induction l with
  | nil => simp [sizeSum]
  | cons a t ih =>
    rw [sizeSum_cons]
    have h1 := h a List.mem_cons_self
    have h2 := ih (fun it hit => h it (List.mem_cons_of_mem _ hit))
    omega

theorem labelPos_isSome_iff (G : List Item) (p : Int) (ℓ : String) :
    (labelPos G p ℓ).isSome ↔ ℓ ∈ labelNames G := by
  induction G generalizing p with
  | nil => simp [labelPos, labelNames]
  | cons it rest ih =>
    cases it with
    | label line n =>
      simp only [labelPos, labelNames, List.mem_cons]
      by_cases h : n = ℓ
      · simp [h]
      · simp only [h, if_false]
        rw [ih]
        constructor
        · intro hm; exact Or.inr hm
        · rintro (hm | hm)
          · exact absurd hm.symm h
          · exact hm
    | _ => simp only [labelPos, labelNames]; exact ih _

theorem labelPos_ge {G : List Item} (h : NonNeg G) {p : Int} {ℓ : String} {v : Int}
    (hv : labelPos G p ℓ = some v) : p ≤ v := by
  induction G generalizing p with
  | nil => simp [labelPos] at hv
  | cons it rest ih =>
    have hrest : NonNeg rest := fun x hx => h x (List.mem_cons_of_mem _ hx)
    have hit := h it List.mem_cons_self
    cases it with
    | label line n =>
      simp only [labelPos] at hv
      split at hv
      · simp only [Option.some.injEq] at hv; omega
      · exact ih hrest hv
    | _ =>
      simp only [labelPos] at hv
      have := ih hrest hv
      omega

/-- laying the same list out from a start that is `n` lower moves every marker down by `n` -/
theorem labelPos_shift (G : List Item) (p n : Int) (ℓ : String) :
    labelPos G (p - n) ℓ = (labelPos G p ℓ).map (· - n) := by
  induction G generalizing p with
  | nil => simp [labelPos]
  | cons it rest ih =>
    cases it with
    | label line m =>
      simp only [labelPos]
      split
      · simp
      · exact ih p
    | _ =>
      simp only [labelPos]
      have hs : ∀ s : Int, p - n + s = (p + s) - n := by intro s; omega
      rw [hs]
      exact ih _

/-- markers inside a label-free prefix do not exist; markers after it are laid out after it -/
theorem labelPos_append_noLabel (a b : List Item) (ha : NoLabel a) (p : Int) (ℓ : String) :
    labelPos (a ++ b) p ℓ = labelPos b (p + sizeSum a) ℓ := by
  induction a generalizing p with
  | nil => simp [sizeSum]
  | cons it rest ih =>
    have hrest : NoLabel rest := fun x hx => ha x (List.mem_cons_of_mem _ hx)
    have hit := ha it List.mem_cons_self
    cases it with
    | label line n => exact absurd rfl (hit line n)
    | _ =>
      simp only [List.cons_append, labelPos, sizeSum_cons]
      rw [ih hrest]
      congr 1
      omega

theorem labelNames_append_noLabel (a b : List Item) (ha : NoLabel a) :
    labelNames (a ++ b) = labelNames b := by
  induction a with
  | nil => rfl
  | cons it rest ih =>
    have hrest : NoLabel rest := fun x hx => ha x (List.mem_cons_of_mem _ hx)
    have hit := ha it List.mem_cons_self
    cases it with
    | label line n => exact absurd rfl (hit line n)
    | _ => simp only [List.cons_append, labelNames]; exact ih hrest

/-! ### the loop bodies -/

/-- what `walk_layout` needs of a loop body: the replacement has no labels, non-negative sizes,
    total size = old size − n with n ≥ 0, and only items of positive size ever shrink -/
structure BodyOK (f : Item → Int → Dict → Except Err (List Item × Int)) : Prop where
  ok : ∀ it p labels repl n, (∀ line nm, it ≠ .label line nm) → 0 ≤ it.sizeD →
        f it p labels = .ok (repl, n) →
        NoLabel repl ∧ NonNeg repl ∧ sizeSum repl = it.sizeD - n ∧ 0 ≤ n ∧ (0 < n → 0 < it.sizeD)

/-- **The label table is the layout.**  If, before the loop, every label of the ghost list `G` has
    in `labels` the value its marker has in the layout of `G` from `p`, and every other key of
    `labels` lies at or below `p`, then after the loop every label has the value of its marker in
    the layout of the *transformed* list, and no other key has moved. -/
theorem walk_layout {f : Item → Int → Dict → Except Err (List Item × Int)} (hf : BodyOK f)
    (G : List Item) (p : Int) (labels : Dict) (G' : List Item) (labels' : Dict)
    (hnn : NonNeg G) (hnd : (labelNames G).Nodup)
    (hagree : ∀ ℓ v, labelPos G p ℓ = some v → labels.get ℓ = some v)
    (hlow : ∀ ℓ v, ℓ ∉ labelNames G → labels.get ℓ = some v → v ≤ p)
    (hw : walk f G p labels = .ok (G', labels')) :
    (∀ ℓ v, labelPos G' p ℓ = some v → labels'.get ℓ = some v) ∧
    (∀ ℓ, ℓ ∉ labelNames G → labels'.get ℓ = labels.get ℓ) ∧
    labelNames G' = labelNames G ∧ NonNeg G' ∧
    labels'.map Prod.fst = labels.map Prod.fst := by
  induction G generalizing p labels G' labels' with
  | nil =>
    simp only [walk, Except.ok.injEq, Prod.mk.injEq] at hw
    obtain ⟨rfl, rfl⟩ := hw
    exact ⟨fun ℓ v h => by simp [labelPos] at h, fun _ _ => rfl, rfl, fun _ h => by simp at h, rfl⟩
  | cons it rest ih =>
    have hnnrest : NonNeg rest := fun x hx => hnn x (List.mem_cons_of_mem _ hx)
    by_cases hlab : ∃ line nm, it = .label line nm
    · -- a marker: passed through
      obtain ⟨line, nm, rfl⟩ := hlab
      simp only [labelNames, List.nodup_cons] at hnd
      obtain ⟨hnotin, hndrest⟩ := hnd
      simp only [walk, bind, Except.bind] at hw
      cases hr : walk f rest p labels with
      | error e => simp [hr] at hw
      | ok res =>
        obtain ⟨out, l⟩ := res
        simp only [hr, pure, Except.pure, Except.ok.injEq, Prod.mk.injEq] at hw
        obtain ⟨rfl, rfl⟩ := hw
        have hag : ∀ ℓ v, labelPos rest p ℓ = some v → labels.get ℓ = some v := by
          intro ℓ v hv
          apply hagree
          simp only [labelPos]
          have hne : nm ≠ ℓ := by
            intro heq; subst heq
            have := (labelPos_isSome_iff rest p nm).mp (by simp [hv])
            exact hnotin this
          simp [hne, hv]
        have hlo : ∀ ℓ v, ℓ ∉ labelNames rest → labels.get ℓ = some v → v ≤ p := by
          intro ℓ v hℓ hv
          by_cases he : ℓ = nm
          · subst he
            have := hagree ℓ p (by simp [labelPos])
            rw [this] at hv; simp only [Option.some.injEq] at hv; omega
          · exact hlow ℓ v (by simp [labelNames, he, hℓ]) hv
        obtain ⟨i1, i2, i3, i4, i5⟩ := ih p labels out _ hnnrest hndrest hag hlo hr
        refine ⟨?_, ?_, ?_, ?_, i5⟩
        · intro ℓ v hv
          simp only [labelPos] at hv
          split at hv
          · rename_i heq; subst heq
            simp only [Option.some.injEq] at hv; subst hv
            rw [i2 nm hnotin]
            exact hagree nm p (by simp [labelPos])
          · exact i1 ℓ v hv
        · intro ℓ hℓ
          simp only [labelNames, List.mem_cons, not_or] at hℓ
          exact i2 ℓ hℓ.2
        · simp [labelNames, i3]
        · intro x hx
          simp only [List.mem_cons] at hx
          rcases hx with rfl | hx
          · simp [Item.sizeD, Item.size?]
          · exact i4 x hx
    · -- an ordinary item: the body decides
      have hnl : ∀ line nm, it ≠ .label line nm := fun line nm h => hlab ⟨line, nm, h⟩
      have hsz : 0 ≤ it.sizeD := hnn it List.mem_cons_self
      have hnames : labelNames (it :: rest) = labelNames rest := by
        cases it <;> first | rfl | exact absurd rfl (hnl _ _)
      have hpos : ∀ ℓ, labelPos (it :: rest) p ℓ = labelPos rest (p + it.sizeD) ℓ := by
        intro ℓ; cases it <;> first | rfl | exact absurd rfl (hnl _ _)
      have hwalk : walk f (it :: rest) p labels = (do
          let (repl, n) ← f it p labels
          let (out, l) ← walk f rest (p + sizeSum repl) (labels.shiftAbove p n)
          pure (repl ++ out, l)) := by
        cases it <;> first | rfl | exact absurd rfl (hnl _ _)
      rw [hwalk] at hw
      simp only [bind, Except.bind] at hw
      cases hfb : f it p labels with
      | error e => simp [hfb] at hw
      | ok fb =>
        obtain ⟨repl, n⟩ := fb
        simp only [hfb] at hw
        cases hr : walk f rest (p + sizeSum repl) (labels.shiftAbove p n) with
        | error e => simp [hr] at hw
        | ok res =>
          obtain ⟨out, l⟩ := res
          simp only [hr, pure, Except.pure, Except.ok.injEq, Prod.mk.injEq] at hw
          obtain ⟨rfl, rfl⟩ := hw
          obtain ⟨b1, b2, b3, b4, b5⟩ := hf.ok it p labels repl n hnl hsz hfb
          rw [hnames] at hnd hlow ⊢
          have hp' : p + sizeSum repl = p + it.sizeD - n := by omega
          have hag : ∀ ℓ v, labelPos rest (p + sizeSum repl) ℓ = some v →
              (labels.shiftAbove p n).get ℓ = some v := by
            intro ℓ v hv
            rw [hp', labelPos_shift] at hv
            cases hq : labelPos rest (p + it.sizeD) ℓ with
            | none => simp [hq] at hv
            | some u =>
              simp only [hq, Option.map_some, Option.some.injEq] at hv
              have hget := hagree ℓ u (by rw [hpos]; exact hq)
              have hge := labelPos_ge hnnrest hq
              rw [Dict.get_shiftAbove, hget]
              simp only [Option.map_some, Option.some.injEq]
              by_cases hn0 : 0 < n
              · have := b5 hn0
                have : u > p := by omega
                simp [this]; omega
              · have : n = 0 := by omega
                subst this
                split <;> omega
          have hlo : ∀ ℓ v, ℓ ∉ labelNames rest → (labels.shiftAbove p n).get ℓ = some v →
              v ≤ p + sizeSum repl := by
            intro ℓ v hℓ hv
            rw [Dict.get_shiftAbove] at hv
            cases hg : labels.get ℓ with
            | none => simp [hg] at hv
            | some u =>
              have hu := hlow ℓ u hℓ hg
              simp only [hg, Option.map_some, Option.some.injEq] at hv
              have : ¬ u > p := by omega
              simp only [this, if_false] at hv
              have := sizeSum_nonneg b2
              omega
          obtain ⟨i1, i2, i3, i4, i5⟩ := ih _ _ out _ hnnrest hnd hag hlo hr
          refine ⟨?_, ?_, ?_, ?_, ?_⟩
          · intro ℓ v hv
            rw [labelPos_append_noLabel _ _ b1] at hv
            exact i1 ℓ v hv
          · intro ℓ hℓ
            rw [i2 ℓ hℓ, Dict.get_shiftAbove]
            cases hg : labels.get ℓ with
            | none => rfl
            | some u =>
              have hu := hlow ℓ u hℓ hg
              have : ¬ u > p := by omega
              simp [this]
          · rw [labelNames_append_noLabel _ _ b1, i3]
          · intro x hx
            rw [List.mem_append] at hx
            rcases hx with hx | hx
            · exact b2 x hx
            · exact i4 x hx
          · rw [i5, Dict.keys_shiftAbove]

end BB.Lemmas
