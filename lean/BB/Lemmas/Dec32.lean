/-
  BB.Lemmas.Dec32 — field extraction (`bits`, `immI/S/B/J`) from words written as sums of fields.
  Every `omega` call sees only generalised fields with their bounds (never the encoder).
-/
import BB.Lemmas.Enc32
namespace BB.Lemmas
open BB BB.Spec

/-- the R/I/S/B layout: slots of width 7,5,3,5,5,7 -/
theorem slots6 (a b c d e f : Nat) (ha : a < 128) (hb : b < 32) (hc : c < 8) (hd : d < 32)
    (he : e < 32) (hf : f < 128) :
    let w := a + b * 128 + c * 4096 + d * 32768 + e * 1048576 + f * 33554432
    w < 2 ^ 32 ∧ bits w 0 7 = a ∧ bits w 7 5 = b ∧ bits w 12 3 = c ∧ bits w 15 5 = d ∧
      bits w 20 5 = e ∧ bits w 25 7 = f := by
  intro w
  simp only [bits, Nat.reducePow, Nat.div_one]
  omega

/-- the I layout: 7,5,3,5,12 -/
theorem slots5 (a b c d e : Nat) (ha : a < 128) (hb : b < 32) (hc : c < 8) (hd : d < 32)
    (he : e < 4096) :
    let w := a + b * 128 + c * 4096 + d * 32768 + e * 1048576
    w < 2 ^ 32 ∧ bits w 0 7 = a ∧ bits w 7 5 = b ∧ bits w 12 3 = c ∧ bits w 15 5 = d ∧
      bits w 20 12 = e ∧ bits w 20 5 = e % 32 ∧ bits w 25 7 = e / 32 := by
  intro w
  simp only [bits, Nat.reducePow, Nat.div_one]
  omega

/-- the U layout: 7,5,20 -/
theorem slots3 (a b c : Nat) (ha : a < 128) (hb : b < 32) (hc : c < 1048576) :
    let w := a + b * 128 + c * 4096
    w < 2 ^ 32 ∧ bits w 0 7 = a ∧ bits w 7 5 = b ∧ bits w 12 20 = c ∧ bits w 12 3 = c % 8 := by
  intro w
  simp only [bits, Nat.reducePow, Nat.div_one]
  omega

/-- the S layout -/
theorem slotsS (a b c d e f : Nat) (ha : a < 128) (hb : b < 32) (hc : c < 8) (hd : d < 32)
    (he : e < 32) (hf : f < 128) :
    let w := a + b * 128 + c * 4096 + d * 32768 + e * 1048576 + f * 33554432
    bits w 25 7 * 32 + bits w 7 5 = f * 32 + b := by
  intro w
  simp only [bits, Nat.reducePow]
  omega

/-- the B layout: 7,1,4,3,5,5,6,1 -/
theorem slotsB (a i11 i41 c d e i105 i12 : Nat) (ha : a < 128) (h1 : i11 < 2) (h2 : i41 < 16)
    (hc : c < 8) (hd : d < 32) (he : e < 32) (h3 : i105 < 64) (h4 : i12 < 2) :
    let w := a + i11 * 128 + i41 * 256 + c * 4096 + d * 32768 + e * 1048576 + i105 * 33554432
               + i12 * 2147483648
    w < 2 ^ 32 ∧ bits w 0 7 = a ∧ bits w 12 3 = c ∧ bits w 15 5 = d ∧ bits w 20 5 = e ∧
      bits w 31 1 = i12 ∧ bits w 7 1 = i11 ∧ bits w 25 6 = i105 ∧ bits w 8 4 = i41 := by
  intro w
  simp only [bits, Nat.reducePow, Nat.div_one]
  omega

/-- the J layout: 7,5,8,1,10,1 -/
theorem slotsJ (a b i1912 i11 i101 i20 : Nat) (ha : a < 128) (hb : b < 32) (h1 : i1912 < 256)
    (h2 : i11 < 2) (h3 : i101 < 1024) (h4 : i20 < 2) :
    let w := a + b * 128 + i1912 * 4096 + i11 * 1048576 + i101 * 2097152 + i20 * 2147483648
    w < 2 ^ 32 ∧ bits w 0 7 = a ∧ bits w 7 5 = b ∧ bits w 31 1 = i20 ∧ bits w 12 8 = i1912 ∧
      bits w 20 1 = i11 ∧ bits w 21 10 = i101 := by
  intro w
  simp only [bits, Nat.reducePow, Nat.div_one]
  omega

/-- 12-bit two's complement round trip -/
theorem sext12 (imm : Int) (h : -2048 ≤ imm ∧ imm ≤ 2047) : sext 12 (imm % 4096).toNat = imm := by
  unfold sext
  simp only [Nat.reducePow, Nat.reduceSub, Int.ofNat_eq_coe]
  split <;> omega

theorem sext12_split (imm : Int) (h : -2048 ≤ imm ∧ imm ≤ 2047) :
    sext 12 ((imm % 4096).toNat / 32 % 128 * 32 + (imm % 4096).toNat % 32) = imm := by
  have : (imm % 4096).toNat / 32 % 128 * 32 + (imm % 4096).toNat % 32 = (imm % 4096).toNat := by omega
  rw [this]; exact sext12 imm h

theorem sext13_b (imm : Int) (h : -4096 ≤ imm ∧ imm ≤ 4095) (he : imm % 2 = 0) :
    let u := ((imm / 2) % 4096).toNat
    sext 13 ((u / 2048 % 2) * 4096 + (u / 1024 % 2) * 2048 + (u / 16 % 64) * 32 + (u % 16) * 2) = imm := by
  intro u
  have hu : (u / 2048 % 2) * 4096 + (u / 1024 % 2) * 2048 + (u / 16 % 64) * 32 + (u % 16) * 2 = u * 2 := by
    omega
  rw [hu]
  unfold sext
  simp only [Nat.reducePow, Nat.reduceSub, Int.ofNat_eq_coe]
  split <;> omega

theorem sext21_j (imm : Int) (h : -1048576 ≤ imm ∧ imm ≤ 1048575) (he : imm % 2 = 0) :
    let u := ((imm / 2) % 1048576).toNat
    sext 21 ((u / 524288 % 2) * 1048576 + (u / 2048 % 256) * 4096 + (u / 1024 % 2) * 2048
             + (u % 1024) * 2) = imm := by
  intro u
  have hu : (u / 524288 % 2) * 1048576 + (u / 2048 % 256) * 4096 + (u / 1024 % 2) * 2048
             + (u % 1024) * 2 = u * 2 := by omega
  rw [hu]
  unfold sext
  simp only [Nat.reducePow, Nat.reduceSub, Int.ofNat_eq_coe]
  split <;> omega

end BB.Lemmas
