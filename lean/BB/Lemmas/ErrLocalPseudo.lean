/-
  BB.Lemmas.ErrLocalPseudo — pseudo-instructions as good and as faulty items: the error surfaces while
  expanding (`call nowhere`) or in an instruction of the expansion (`li x99, 5`, `mv x1, q7`), and still
  carries the pseudo-instruction's line.
-/
import BB.Lemmas.ErrLocalData
namespace BB.Lemmas
open BB

/-- the stages an instruction produced by the expansion still has to go through -/
def lateStages (H : Hooks) (c : Bool) : List Stage := compressStage H c :: tailStages H

theorem passes_late_instr {H : Hooks} {c : Bool} (Q : Dict → Prop) {line : Line} {ins : Instr}
    (hg : GoodInstr H c line ins) : Passes Q (lateStages H c) (.instr line ins) := by
  unfold lateStages
  refine passes_compress_then hg (passes_tail_instr hg.res) ?_
  intro cn ci _ _ hr
  exact passes_tail_instr hr

theorem dies_late_instr {H : Hooks} {c : Bool} {Q : Dict → Prop} {line : Line} {ins : Instr}
    (hb : BadInstr H c Q line ins) : Dies Q (.asm line) (lateStages H c) (.instr line ins) := by
  unfold lateStages
  refine dies_compress_then hb (dies_tail_instr hb.ref) ?_
  intro cn ci _ _ hr
  exact dies_tail_instr hr

theorem keepE_pseudo (line : Line) (name : String) (args : List String) :
    keepItem (.pseudo line name args) = .ok ([.pseudo line name args], 0) := by
  simp [keepItem, Item.sizeE, Item.size?, bind, Except.bind, pure, Except.pure]

theorem compressStage_pseudo (H : Hooks) (c : Bool) (line : Line) (name : String) (args : List String) (p : Int) (l : Dict) :
    compressStage H c (.pseudo line name args) p l = .ok [.pseudo line name args] :=
  compressStage_other H c _ (by intro _ _ h; cases h) (keepE_pseudo line name args) p l

theorem pseudoStage_pseudo (H : Hooks) (line : Line) (name : String) (args : List String) (p : Int) (l : Dict) :
    bodyStage (pseudoBody H []) (.pseudo line name args) p l =
      (match expandPseudo H (chainGet [] l) line name args p with
       | .ok (instrs, _) => .ok (instrs.map (Item.instr line))
       | .error e => .error e) := by
  simp only [bodyStage, pseudoBody, bind, Except.bind, pure, Except.pure]
  cases expandPseudo H (chainGet [] l) line name args p with
  | error e => rfl
  | ok r => rfl

/-- a pseudo-instruction whose expansion consists of good instructions in every context passes -/
theorem passes_pseudo {H : Hooks} {c : Bool} (Q : Dict → Prop) {line : Line} {name : String} {args : List String}
    (h : ∀ p l, Q l → ∃ instrs short, expandPseudo H (chainGet [] l) line name args p = .ok (instrs, short) ∧
      ∀ i ∈ instrs, GoodInstr H c line i) :
    Passes Q (stages H c) (.pseudo line name args) := by
  have hnl : ∀ l n, Item.pseudo line name args ≠ .label l n := by intro l n h; cases h
  rw [stages_eq]
  refine passes_cons_fixed hnl (compressStage_pseudo H c line name args) ?_
  refine ⟨hnl, fun p l hl => ?_⟩
  obtain ⟨instrs, short, he, hg⟩ := h p l hl
  refine ⟨instrs.map (Item.instr line), by rw [pseudoStage_pseudo, he], ?_⟩
  intro z hz
  simp only [List.mem_map] at hz
  obtain ⟨i, hi, rfl⟩ := hz
  exact passes_late_instr Q (hg i hi)

/-- a pseudo-instruction that cannot be expanded, or whose expansion contains a bad instruction (the
    others being good), dies with its own line -/
theorem dies_pseudo {H : Hooks} {c : Bool} {Q : Dict → Prop} {line : Line} {name : String} {args : List String}
    (h : ∀ p l, Q l → expandPseudo H (chainGet [] l) line name args p = .error (.asm line) ∨
      ∃ instrs short, expandPseudo H (chainGet [] l) line name args p = .ok (instrs, short) ∧
        (∀ i ∈ instrs, BadInstr H c Q line i ∨ GoodInstr H c line i) ∧ ∃ i ∈ instrs, BadInstr H c Q line i) :
    Dies Q (.asm line) (stages H c) (.pseudo line name args) := by
  have hnl : ∀ l n, Item.pseudo line name args ≠ .label l n := by intro l n h; cases h
  rw [stages_eq]
  refine dies_cons_fixed hnl (compressStage_pseudo H c line name args) ?_
  refine ⟨hnl, fun p l hl => ?_⟩
  rcases h p l hl with he | ⟨instrs, short, he, hall, i, hi, hbi⟩
  · exact Or.inl (by rw [pseudoStage_pseudo, he])
  · refine Or.inr ⟨instrs.map (Item.instr line), by rw [pseudoStage_pseudo, he], ?_, ?_⟩
    · intro z hz
      simp only [List.mem_map] at hz
      obtain ⟨j, hj, rfl⟩ := hz
      rcases hall j hj with hb | hg
      · exact Or.inl (dies_late_instr hb)
      · exact Or.inr (passes_late_instr Q hg)
    · exact ⟨.instr line i, List.mem_map_of_mem hi, dies_late_instr hbi⟩

end BB.Lemmas
