/-
  BB.Lemmas.ErrStages — lifting item-local fault behaviour to the whole pipeline.

  After `resolve_constants` / `resolve_labels`, `assemble()` is a sequence of eleven item-wise stages
  (`stages H c`): transform_compressible (if -c), transform_pseudo_instructions, transform_compressible
  again, resolve_aligns, resolve_immediates, resolve_instructions, resolve_strings, resolve_sequences,
  transform_shorthand_packs, resolve_packs, resolve_include_bytes.  Each stage looks at one item, at the
  position and with the label table the loop has reached.

  * `Passes Q ss y` : in EVERY context (position, label table satisfying `Q`) item `y` goes through the
                      stages `ss`, and so does everything it is replaced by ("good in any context").
  * `Dies Q e ss x` : in every such context item `x` is refused with exactly `e` by one of the stages
                      `ss` - possibly after having been rewritten (pseudo-instruction expansion, compression)
                      into items at least one of which is refused with `e` later.

  `fault_lifts`: a program of items that pass, with at least one that dies with `e`, is refused with
  exactly `e` by `assembleItems` - wherever the dying item stands, with and without compression.
  `Q` is an invariant of the label table that the shifting rule preserves (e.g. "`nowhere` is not a key").
-/
import BB.Lemmas.ErrClasses
import BB.Lemmas.Pipeline
namespace BB.Lemmas
open BB

abbrev Stage := Item → Int → Dict → Except Err (List Item)

/-- a loop body as a stage (the label shift amount is dropped) -/
def bodyStage (f : Item → Int → Dict → Except Err (List Item × Int)) : Stage :=
  fun x p l => match f x p l with
    | .ok (r, _) => .ok r
    | .error e => .error e

/-- a one-to-one step as a stage -/
def stepStage (g : Item → Except Err Item) : Stage :=
  fun x _ _ => match g x with
    | .ok y => .ok [y]
    | .error e => .error e

def mapStage (h : Item → Item) : Stage := fun x _ _ => .ok [h x]

def idStage : Stage := fun x _ _ => .ok [x]

/-- the per-item function of resolve_strings -/
def strStep : Item → Item
  | .string line v => .blob line (utf8Bytes v)
  | other => other

theorem resolveStrings_eq (items : List Item) : resolveStrings items = items.map strStep := by
  unfold resolveStrings
  apply List.map_congr_left
  intro it _
  cases it <;> rfl

def compressStage (H : Hooks) (c : Bool) : Stage :=
  if c then bodyStage (compressBody H []) else idStage

/-- the item-wise stages of `assembleItems` after resolve_labels, for a program without constants -/
def stages (H : Hooks) (c : Bool) : List Stage :=
  [compressStage H c, bodyStage (pseudoBody H []), compressStage H c, bodyStage alignBody,
   bodyStage (immBody H []), stepStage instrStep, mapStage strStep, stepStage seqStep,
   stepStage shorthandStep, stepStage packStep, stepStage (includeBytesStep H)]

/-- good in any context: goes through every stage, and so does whatever it is replaced by -/
def Passes (Q : Dict → Prop) : List Stage → Item → Prop
  | [], _ => True
  | s :: ss, y => (∀ l n, y ≠ .label l n) ∧
      ∀ p l, Q l → ∃ repl, s y p l = .ok repl ∧ ∀ z ∈ repl, Passes Q ss z

/-- refused with exactly `e` in any context, now or (after rewriting) by a later stage -/
def Dies (Q : Dict → Prop) (e : Err) : List Stage → Item → Prop
  | [], _ => False
  | s :: ss, x => (∀ l n, x ≠ .label l n) ∧
      ∀ p l, Q l → s x p l = .error e ∨
        ∃ repl, s x p l = .ok repl ∧ (∀ z ∈ repl, Dies Q e ss z ∨ Passes Q ss z) ∧ ∃ z ∈ repl, Dies Q e ss z

def Tracked (Q : Dict → Prop) (e : Err) (ss : List Stage) (L : List Item) : Prop :=
  ∀ y ∈ L, Dies Q e ss y ∨ Passes Q ss y

def HasDying (Q : Dict → Prop) (e : Err) (ss : List Stage) (L : List Item) : Prop :=
  ∃ y ∈ L, Dies Q e ss y

theorem Tracked.tail {Q e ss x L} (h : Tracked Q e ss (x :: L)) : Tracked Q e ss L :=
  fun y hy => h y (List.mem_cons_of_mem _ hy)

theorem Tracked.append {Q e ss A B} (ha : Tracked Q e ss A) (hb : Tracked Q e ss B) : Tracked Q e ss (A ++ B) := by
  intro y hy
  rcases List.mem_append.mp hy with hy | hy
  · exact ha y hy
  · exact hb y hy

theorem bodyStage_ok {f : Item → Int → Dict → Except Err (List Item × Int)} {x : Item} {p : Int} {l : Dict}
    {r : List Item} (h : bodyStage f x p l = .ok r) : ∃ n, f x p l = .ok (r, n) := by
  unfold bodyStage at h
  cases hf : f x p l with
  | error e => simp [hf] at h
  | ok rn =>
    obtain ⟨r', n⟩ := rn
    simp only [hf, Except.ok.injEq] at h
    subst h
    exact ⟨n, rfl⟩

theorem bodyStage_error {f : Item → Int → Dict → Except Err (List Item × Int)} {x : Item} {p : Int} {l : Dict}
    {e : Err} (h : bodyStage f x p l = .error e) : f x p l = .error e := by
  unfold bodyStage at h
  cases hf : f x p l with
  | error e' => simp only [hf, Except.error.injEq] at h; subst h; rfl
  | ok rn => obtain ⟨r', n⟩ := rn; simp [hf] at h

/-- one `walk` pass over a tracked list: it fails with `e`, or every output item is tracked for the
    remaining stages and a dying item is still among them -/
theorem walk_stage {f : Item → Int → Dict → Except Err (List Item × Int)} {Q : Dict → Prop}
    (hQ : ∀ l p n, Q l → Q (l.shiftAbove p n)) (e : Err) (ss : List Stage) :
    ∀ (L : List Item) (p : Int) (l : Dict), Q l → Tracked Q e (bodyStage f :: ss) L →
      walk f L p l = .error e ∨
      ∃ L' l', walk f L p l = .ok (L', l') ∧ Q l' ∧ Tracked Q e ss L' ∧
        (HasDying Q e (bodyStage f :: ss) L → HasDying Q e ss L') := by
  intro L
  induction L with
  | nil =>
    intro p l hl _
    exact Or.inr ⟨[], l, rfl, hl, fun y hy => by simp at hy, fun ⟨y, hy, _⟩ => by simp at hy⟩
  | cons x rest ih =>
    intro p l hl htr
    have hx := htr x List.mem_cons_self
    -- what the body does to x here
    have key : (∀ ln nm, x ≠ .label ln nm) ∧ (f x p l = .error e ∨
        ∃ repl n, f x p l = .ok (repl, n) ∧ Tracked Q e ss repl ∧ (Dies Q e (bodyStage f :: ss) x → HasDying Q e ss repl)) := by
      rcases hx with hd | hp
      · obtain ⟨hnl, hb⟩ := hd
        refine ⟨hnl, ?_⟩
        rcases hb p l hl with he | ⟨repl, hr, ht, hz⟩
        · exact Or.inl (bodyStage_error he)
        · obtain ⟨n, hn⟩ := bodyStage_ok hr
          exact Or.inr ⟨repl, n, hn, ht, fun _ => hz⟩
      · obtain ⟨hnl, hb⟩ := hp
        refine ⟨hnl, ?_⟩
        obtain ⟨repl, hr, ht⟩ := hb p l hl
        obtain ⟨n, hn⟩ := bodyStage_ok hr
        refine Or.inr ⟨repl, n, hn, fun z hz => Or.inr (ht z hz), ?_⟩
        intro hd
        -- x cannot both pass and die here: dying means an error or a dying replacement, in this very context
        obtain ⟨_, hb'⟩ := hd
        rcases hb' p l hl with he | ⟨repl', hr', _, hz'⟩
        · rw [hr] at he; cases he
        · rw [hr] at hr'; simp only [Except.ok.injEq] at hr'; subst hr'; exact hz'
    obtain ⟨hnl, hb⟩ := key
    rw [walk_cons_nonlabel hnl]
    rcases hb with he | ⟨repl, n, hn, htrepl, hdrepl⟩
    · left; rw [he]
    · rw [hn]
      simp only
      rcases ih (p + sizeSum repl) (l.shiftAbove p n) (hQ l p n hl) htr.tail with he | ⟨L', l', hw, hl', ht', hd'⟩
      · left; rw [he]
      · right
        refine ⟨repl ++ L', l', by rw [hw], hl', htrepl.append ht', ?_⟩
        rintro ⟨y, hy, hdy⟩
        simp only [List.mem_cons] at hy
        rcases hy with rfl | hy
        · obtain ⟨z, hz, hdz⟩ := hdrepl hdy
          exact ⟨z, List.mem_append_left _ hz, hdz⟩
        · obtain ⟨z, hz, hdz⟩ := hd' ⟨y, hy, hdy⟩
          exact ⟨z, List.mem_append_right _ hz, hdz⟩

/-- the same for a one-to-one pass (`List.mapM`); `l` is any label table satisfying `Q` -/
theorem mapM_stage {g : Item → Except Err Item} {Q : Dict → Prop} (e : Err) (ss : List Stage) (l : Dict) (hl : Q l) :
    ∀ (L : List Item), Tracked Q e (stepStage g :: ss) L →
      L.mapM g = .error e ∨
      ∃ L', L.mapM g = .ok L' ∧ Tracked Q e ss L' ∧ (HasDying Q e (stepStage g :: ss) L → HasDying Q e ss L') := by
  intro L
  induction L with
  | nil =>
    intro _
    exact Or.inr ⟨[], rfl, fun y hy => by simp at hy, fun ⟨y, hy, _⟩ => by simp at hy⟩
  | cons x rest ih =>
    intro htr
    have hx := htr x List.mem_cons_self
    have key : g x = .error e ∨ ∃ y, g x = .ok y ∧ (Dies Q e ss y ∨ Passes Q ss y) ∧
        (Dies Q e (stepStage g :: ss) x → Dies Q e ss y) := by
      have hstep : ∀ r, stepStage g x 0 l = .ok r → ∃ y, g x = .ok y ∧ r = [y] := by
        intro r hr
        unfold stepStage at hr
        cases hg : g x with
        | error e' => simp [hg] at hr
        | ok y => simp only [hg, Except.ok.injEq] at hr; exact ⟨y, rfl, hr.symm⟩
      rcases hx with hd | hp
      · rcases hd.2 0 l hl with he | ⟨repl, hr, ht, z, hz, hdz⟩
        · left
          unfold stepStage at he
          cases hg : g x with
          | error e' => simp only [hg, Except.error.injEq] at he; subst he; rfl
          | ok y => simp [hg] at he
        · obtain ⟨y, hy, rfl⟩ := hstep repl hr
          simp only [List.mem_singleton] at hz
          subst hz
          exact Or.inr ⟨z, hy, Or.inl hdz, fun _ => hdz⟩
      · obtain ⟨repl, hr, ht⟩ := hp.2 0 l hl
        obtain ⟨y, hy, rfl⟩ := hstep repl hr
        refine Or.inr ⟨y, hy, Or.inr (ht y (by simp)), ?_⟩
        intro hd
        rcases hd.2 0 l hl with he | ⟨repl', hr', _, z, hz, hdz⟩
        · rw [hr] at he; cases he
        · rw [hr] at hr'; simp only [Except.ok.injEq] at hr'; subst hr'
          simp only [List.mem_singleton] at hz; subst hz; exact hdz
    rw [mapM_cons_eq]
    rcases key with he | ⟨y, hy, hty, hdy⟩
    · left; rw [he]
    · rw [hy]
      simp only
      rcases ih htr.tail with he | ⟨L', hm, ht', hd'⟩
      · left; rw [he]
      · right
        refine ⟨y :: L', by rw [hm], ?_, ?_⟩
        · intro z hz
          simp only [List.mem_cons] at hz
          rcases hz with rfl | hz
          · exact hty
          · exact ht' z hz
        · rintro ⟨z, hz, hdz⟩
          simp only [List.mem_cons] at hz
          rcases hz with rfl | hz
          · exact ⟨y, List.mem_cons_self, hdy hdz⟩
          · obtain ⟨w, hw, hdw⟩ := hd' ⟨z, hz, hdz⟩
            exact ⟨w, List.mem_cons_of_mem _ hw, hdw⟩

/-- a `map` pass -/
theorem map_stage {h : Item → Item} {Q : Dict → Prop} (e : Err) (ss : List Stage) (l : Dict) (hl : Q l)
    (L : List Item) (htr : Tracked Q e (mapStage h :: ss) L) :
    Tracked Q e ss (L.map h) ∧ (HasDying Q e (mapStage h :: ss) L → HasDying Q e ss (L.map h)) := by
  have one : ∀ x, (Dies Q e (mapStage h :: ss) x ∨ Passes Q (mapStage h :: ss) x) →
      (Dies Q e ss (h x) ∨ Passes Q ss (h x)) ∧ (Dies Q e (mapStage h :: ss) x → Dies Q e ss (h x)) := by
    intro x hx
    have hdie : Dies Q e (mapStage h :: ss) x → Dies Q e ss (h x) := by
      intro hd
      rcases hd.2 0 l hl with he | ⟨repl, hr, _, z, hz, hdz⟩
      · simp [mapStage] at he
      · simp only [mapStage, Except.ok.injEq] at hr
        subst hr
        simp only [List.mem_singleton] at hz; subst hz; exact hdz
    refine ⟨?_, hdie⟩
    rcases hx with hd | hp
    · exact Or.inl (hdie hd)
    · obtain ⟨repl, hr, ht⟩ := hp.2 0 l hl
      simp only [mapStage, Except.ok.injEq] at hr
      subst hr
      exact Or.inr (ht _ (by simp))
  refine ⟨?_, ?_⟩
  · intro y hy
    simp only [List.mem_map] at hy
    obtain ⟨x, hx, rfl⟩ := hy
    exact (one x (htr x hx)).1
  · rintro ⟨x, hx, hdx⟩
    exact ⟨h x, List.mem_map_of_mem hx, (one x (htr x hx)).2 hdx⟩

/-- a stage that does nothing (transform_compressible without -c) -/
theorem id_stage {Q : Dict → Prop} (e : Err) (ss : List Stage) (l : Dict) (hl : Q l)
    (L : List Item) (htr : Tracked Q e (idStage :: ss) L) :
    Tracked Q e ss L ∧ (HasDying Q e (idStage :: ss) L → HasDying Q e ss L) := by
  have h := map_stage (h := id) e ss l hl L (by
    intro y hy
    have : (idStage : Stage) = mapStage id := rfl
    rw [← this]; exact htr y hy)
  simp only [List.map_id] at h
  exact h

/-! ### the passes in front of the stages, for a program without constants -/

theorem resolveConstants_noconst (H : Hooks) (items : List Item) (cs : Dict)
    (h : ∀ it ∈ items, ∀ l n x, it ≠ .constant l n x) : resolveConstants H items cs = .ok (items, cs) := by
  induction items with
  | nil => rfl
  | cons it rest ih =>
    rw [resolveConstants_cons_other H (h it List.mem_cons_self), ih (fun x hx => h x (List.mem_cons_of_mem _ hx))]

theorem aliasReg_nil (r : RegOp) : aliasReg [] r = r := by
  cases r <;> rfl

theorem mapRegs_id (ins : Instr) : ins.mapRegs (aliasReg []) = ins := by
  cases ins <;> simp [Instr.mapRegs, aliasReg_nil]

theorem resolveRegisterAliases_nil (items : List Item) : resolveRegisterAliases items [] = items := by
  unfold resolveRegisterAliases
  conv => rhs; rw [← List.map_id items]
  apply List.map_congr_left
  intro it _
  cases it <;> simp [mapRegs_id]

/-- resolve_labels succeeds on a program whose labels are pairwise different and whose items have sizes;
    names that are not labels of the program stay undefined -/
theorem resolveLabelsAux_ok : ∀ (G : List Item) (p : Int) (labels : Dict) (defined : List String),
    (labelNames G).Nodup → (∀ n ∈ labelNames G, n ∉ defined) → (∀ it ∈ G, ∃ v, it.sizeE = .ok v) →
    ∃ l', resolveLabelsAux G p labels defined = .ok (strip G, l') ∧
      ∀ k, k ∉ labelNames G → l'.get k = labels.get k := by
  intro G
  induction G with
  | nil => intro p labels defined _ _ _; exact ⟨labels, rfl, fun _ _ => rfl⟩
  | cons it rest ih =>
    intro p labels defined hnd hfresh hsz
    by_cases hlab : ∃ line nm, it = .label line nm
    · obtain ⟨line, nm, rfl⟩ := hlab
      simp only [labelNames, List.nodup_cons] at hnd
      have hnm : nm ∉ defined := hfresh nm (by simp [labelNames])
      have hc : defined.contains nm = false := by simpa using hnm
      obtain ⟨l', hr, hk⟩ := ih p (labels.set nm p) (nm :: defined) hnd.2
        (by
          intro n hn
          simp only [List.mem_cons, not_or]
          exact ⟨fun heq => by subst heq; exact hnd.1 hn, hfresh n (by simp [labelNames, hn])⟩)
        (fun x hx => hsz x (List.mem_cons_of_mem _ hx))
      refine ⟨l', ?_, ?_⟩
      · simp only [resolveLabelsAux, hc, Bool.false_eq_true, ↓reduceIte, strip_label]
        exact hr
      · intro k hkn
        simp only [labelNames, List.mem_cons, not_or] at hkn
        rw [hk k hkn.2, Dict.get_set]
        simp only [ite_eq_right_iff]
        intro heq
        exact absurd heq hkn.1
    · have hnl : ∀ line nm, it ≠ .label line nm := fun line nm hh => hlab ⟨line, nm, hh⟩
      obtain ⟨v, hv⟩ := hsz it List.mem_cons_self
      have hnames : labelNames (it :: rest) = labelNames rest := by
        cases it <;> first | rfl | exact absurd rfl (hnl _ _)
      rw [hnames] at hnd hfresh
      obtain ⟨l', hr, hk⟩ := ih (p + v) labels defined hnd hfresh (fun x hx => hsz x (List.mem_cons_of_mem _ hx))
      refine ⟨l', ?_, by rw [hnames]; exact hk⟩
      rw [resolveLabelsAux_cons_other hnl, hv]
      simp only [hr, strip_cons_of_not_label hnl]

theorem Dies.nil_false {Q : Dict → Prop} {e : Err} {x : Item} (h : Dies Q e [] x) : False := h

/-- **Lifting.**  A program without constants whose labels are pairwise different and whose items have
    sizes; every (non-label) item either passes in any context or dies with `e` in any context, and at
    least one dies: `assembleItems` fails with exactly `e`, with and without compression. -/
theorem fault_lifts {H : Hooks} {c : Bool} {Q : Dict → Prop} {e : Err}
    (hQ : ∀ l p n, Q l → Q (l.shiftAbove p n)) (items : List Item)
    (hnc : ∀ it ∈ items, ∀ l n x, it ≠ .constant l n x)
    (hnd : (labelNames items).Nodup) (hsz : ∀ it ∈ items, ∃ v, it.sizeE = .ok v)
    (hQ0 : ∀ l : Dict, (∀ k, k ∉ labelNames items → l.get k = none) → Q l)
    (htr : Tracked Q e (stages H c) (strip items)) (hd : HasDying Q e (stages H c) (strip items)) :
    assembleItems H c items [] [] = .error e := by
  unfold assembleItems
  rw [resolveConstants_noconst H items [] hnc]
  obtain ⟨l0, hl0, hk0⟩ := resolveLabelsAux_ok items 0 [] [] hnd (fun _ _ h => by cases h) hsz
  have hres : resolveLabels items [] = .ok (strip items, l0) := hl0
  have hq0 : Q l0 := hQ0 l0 (fun k hk => by rw [hk0 k hk]; rfl)
  simp only [bind, Except.bind, hres, resolveRegisterAliases_nil]
  unfold stages at htr hd
  -- stage: transform_compressible (first)
  have stageC : ∀ (ss : List Stage) (L : List Item) (l : Dict), Q l → Tracked Q e (compressStage H c :: ss) L →
      maybeCompress H c L [] l = .error e ∨ ∃ L' l', maybeCompress H c L [] l = .ok (L', l') ∧ Q l' ∧
        Tracked Q e ss L' ∧ (HasDying Q e (compressStage H c :: ss) L → HasDying Q e ss L') := by
    intro ss L l hl ht
    cases c with
    | true =>
      simp only [maybeCompress, ↓reduceIte, transformCompressible]
      exact walk_stage hQ e ss L 0 l hl (by simpa [compressStage] using ht)
    | false =>
      have ht' : Tracked Q e (idStage :: ss) L := by simpa [compressStage] using ht
      obtain ⟨a, b⟩ := id_stage e ss l hl L ht'
      refine Or.inr ⟨L, l, by simp [maybeCompress, pure, Except.pure], hl, a, ?_⟩
      intro hh; exact b (by simpa [compressStage] using hh)
  rcases stageC _ _ l0 hq0 htr with he | ⟨L1, l1, h1, q1, t1, d1⟩
  · rw [he]
  rw [h1]; simp only
  have hd1 := d1 hd
  -- transform_pseudo_instructions
  rcases walk_stage hQ e _ L1 0 l1 q1 t1 with he | ⟨L2, l2, h2, q2, t2, d2⟩
  · simp only [transformPseudo, he]
  simp only [transformPseudo, h2]
  have hd2 := d2 hd1
  -- transform_compressible (second)
  rcases stageC _ _ l2 q2 t2 with he | ⟨L3, l3, h3, q3, t3, d3⟩
  · rw [he]
  rw [h3]; simp only
  have hd3 := d3 hd2
  -- resolve_aligns
  rcases walk_stage hQ e _ L3 0 l3 q3 t3 with he | ⟨L4, l4, h4, q4, t4, d4⟩
  · simp only [resolveAligns, he]
  simp only [resolveAligns, h4]
  have hd4 := d4 hd3
  -- resolve_immediates
  rcases walk_stage hQ e _ L4 0 l4 q4 t4 with he | ⟨L5, l5, h5, q5, t5, d5⟩
  · simp only [resolveImmediates, bind, Except.bind, he]
  simp only [resolveImmediates, bind, Except.bind, h5, pure, Except.pure]
  have hd5 := d5 hd4
  -- resolve_instructions
  rcases mapM_stage e _ l5 q5 L5 t5 with he | ⟨L6, h6, t6, d6⟩
  · simp only [resolveInstructions, he]
  simp only [resolveInstructions, h6]
  have hd6 := d6 hd5
  -- resolve_strings
  rw [resolveStrings_eq]
  obtain ⟨t7, d7⟩ := map_stage e _ l5 q5 L6 t6
  have hd7 := d7 hd6
  -- resolve_sequences
  rcases mapM_stage e _ l5 q5 _ t7 with he | ⟨L8, h8, t8, d8⟩
  · simp only [resolveSequences, he]
  simp only [resolveSequences, h8]
  have hd8 := d8 hd7
  -- transform_shorthand_packs
  rcases mapM_stage e _ l5 q5 _ t8 with he | ⟨L9, h9, t9, d9⟩
  · simp only [transformShorthandPacks, he]
  simp only [transformShorthandPacks, h9]
  have hd9 := d9 hd8
  -- resolve_packs
  rcases mapM_stage e _ l5 q5 _ t9 with he | ⟨L10, h10, t10, d10⟩
  · simp only [resolvePacks, he]
  simp only [resolvePacks, h10]
  have hd10 := d10 hd9
  -- resolve_include_bytes
  rcases mapM_stage e _ l5 q5 _ t10 with he | ⟨L11, h11, t11, d11⟩
  · simp only [resolveIncludeBytes, he]
  -- every stage has run and something is still due to die: impossible
  obtain ⟨y, _, hy⟩ := d11 hd10
  exact absurd hy Dies.nil_false

end BB.Lemmas
