/-
  BB.Lemmas.SpellProgram — lifting per-line facts to whole source texts.

  `read_lines`, the lexer, the parser work line by line; what a line that is not an include /
  include_bytes line contributes to the program is the list of its (erased) items `lineItems raw`
  — nothing for a blank line, nothing for a line without tokens.  Two line lists related line by
  line (`LinesRel R`: a line kept, a line replaced by one whose items are `R`-related, a silent
  line inserted or deleted) give `R`-related item lists, at any nesting of the include lines that
  are kept; and whenever `R`-related item lists assemble alike, the two texts have the same result.
-/
import BB.Lemmas.ReadFront
import BB.Lemmas.ListRel
namespace BB

/-- fail if either failed, else concatenate -/
def oseq {α : Type} : Option (List α) → Option (List α) → Option (List α)
  | some a, some b => some (a ++ b)
  | _, _ => none

@[simp] theorem oseq_nil_left {α : Type} (x : Option (List α)) : oseq (some []) x = x := by
  cases x <;> rfl

theorem lexAllO_append (a b : List String) : lexAllO (a ++ b) = oseq (lexAllO a) (lexAllO b) := by
  induction a with
  | nil => simp [lexAllO]
  | cons c rest ih =>
    simp only [List.cons_append, lexAllO, ih]
    cases lexTokens c.toList with
    | error e => cases lexAllO rest <;> cases lexAllO b <;> rfl
    | ok toks =>
      cases lexAllO rest with
      | none => cases lexAllO b <;> rfl
      | some r =>
        cases lexAllO b with
        | none => rfl
        | some s => cases toks <;> simp [oseq]

theorem parseAllO_append (a b : List (List String)) :
    parseAllO (a ++ b) = oseq (parseAllO a) (parseAllO b) := by
  induction a with
  | nil => simp [parseAllO]
  | cons t rest ih =>
    simp only [List.cons_append, parseAllO, ih]
    cases parseItem default t with
    | error e => cases parseAllO rest <;> cases parseAllO b <;> rfl
    | ok it =>
      cases parseAllO rest with
      | none => cases parseAllO b <;> rfl
      | some r => cases parseAllO b <;> simp [oseq]

theorem itemsOfContents_append (a b : List String) :
    itemsOfContents (a ++ b) = oseq (itemsOfContents a) (itemsOfContents b) := by
  unfold itemsOfContents
  rw [List.filter_append, lexAllO_append]
  cases h1 : lexAllO (a.filter (fun c => c.length > 0)) with
  | none => cases lexAllO (b.filter (fun c => c.length > 0)) <;> rfl
  | some x =>
    cases h2 : lexAllO (b.filter (fun c => c.length > 0)) with
    | none => simp only [oseq, Option.bind]; cases parseAllO x <;> rfl
    | some y => simp only [oseq, Option.bind, parseAllO_append]

/-- the erased items a read contributes; `none` = the read, the lexer or the parser failed -/
def itemView (r : Except Err (List Line)) : Option (List Item) := (contentsOf r).bind itemsOfContents

theorem itemView_seq (x y : Except Err (List Line)) :
    itemView (seqLines x y) = oseq (itemView x) (itemView y) := by
  unfold itemView
  rw [contentsOf_seq]
  cases x with
  | error e => rfl
  | ok a =>
    cases y with
    | error e =>
      simp only [contentsOf, optSeq, Option.bind]
      cases itemsOfContents (a.map (·.contents)) <;> rfl
    | ok b => simp only [contentsOf, optSeq, Option.bind, itemsOfContents_append]

theorem erasedItems_bind_itemsOfLines (r : Except Err (List Line)) :
    erasedItems (r.bind itemsOfLines) = itemView r := by
  cases r with
  | error e => rfl
  | ok ls => simp only [Except.bind, itemView, contentsOf, Option.bind, erasedItems_itemsOfLines]

/-- what a line that is neither an include nor an include_bytes line contributes -/
def lineItems (raw : List Char) : Option (List Item) :=
  if (stripWs raw).isEmpty then some [] else itemsOfContents [String.ofList raw]

theorem itemView_lineHead_plain (fs : FS) (dirs : List String) (fuel : Nat) (path : String)
    (cd : List String) (n : Nat) (raw : List Char) (h : IsPlainLine raw) :
    itemView (lineHead fs dirs fuel path cd n raw) = lineItems raw := by
  unfold itemView lineItems
  rw [contentsOf_lineHead_plain fs dirs fuel path cd n raw h]
  split <;> rfl

/-- the items of a kept line do not depend on the file name and line number it is attributed to -/
theorem itemView_lineHead_renumber (fs : FS) (dirs : List String) (fuel : Nat) (path path' : String)
    (cd : List String) (n n' : Nat) (raw : List Char) :
    itemView (lineHead fs dirs fuel path cd n raw) = itemView (lineHead fs dirs fuel path' cd n' raw) := by
  unfold itemView
  rw [contentsOf_lineHead fs dirs fuel path path' cd n n' raw]

/-- both fail, or both succeed with pairwise related items -/
def ORel (R : Item → Item → Prop) : Option (List Item) → Option (List Item) → Prop
  | none, none => True
  | some a, some b => ListRel R a b
  | _, _ => False

theorem ORel.refl' {R : Item → Item → Prop} (hR : ∀ it, R it it) (x : Option (List Item)) : ORel R x x := by
  cases x with
  | none => trivial
  | some a => exact ListRel.refl hR a

theorem ORel.oseq {R : Item → Item → Prop} {a a' b b' : Option (List Item)}
    (h1 : ORel R a a') (h2 : ORel R b b') : ORel R (BB.oseq a b) (BB.oseq a' b') := by
  cases a <;> cases a' <;> cases b <;> cases b' <;> simp_all [ORel, BB.oseq]
  exact ListRel.append h1 h2

theorem ORel.of_eq {R : Item → Item → Prop} (hR : ∀ it, R it it) {x y : Option (List Item)} (h : x = y) :
    ORel R x y := by subst h; exact ORel.refl' hR x

/-- line lists related line by line -/
inductive LinesRel (R : Item → Item → Prop) : List (List Char) → List (List Char) → Prop
  | nil : LinesRel R [] []
  /-- any line kept as it is (include and include_bytes lines too) -/
  | same (l : List Char) {as bs : List (List Char)} : LinesRel R as bs → LinesRel R (l :: as) (l :: bs)
  /-- a line replaced by one contributing related items -/
  | change {a b : List Char} {as bs : List (List Char)} : IsPlainLine a → IsPlainLine b →
      ORel R (lineItems a) (lineItems b) → LinesRel R as bs → LinesRel R (a :: as) (b :: bs)
  /-- a line contributing nothing inserted -/
  | insert {l : List Char} {as bs : List (List Char)} : IsPlainLine l → lineItems l = some [] →
      LinesRel R as bs → LinesRel R as (l :: bs)
  /-- a line contributing nothing deleted -/
  | delete {l : List Char} {as bs : List (List Char)} : IsPlainLine l → lineItems l = some [] →
      LinesRel R as bs → LinesRel R (l :: as) bs

theorem go_linesRel {R : Item → Item → Prop} (hR : ∀ it, R it it) (fs : FS) (dirs : List String)
    (fuel : Nat) (path : String) (cd : List String) {as bs : List (List Char)} (h : LinesRel R as bs) :
    ∀ n m, ORel R (itemView (readLinesAux.go fs dirs fuel path cd n as))
                 (itemView (readLinesAux.go fs dirs fuel path cd m bs)) := by
  induction h with
  | nil => intro n m; rw [go_nil, go_nil]; exact ORel.refl' hR _
  | same l _ ih =>
    intro n m
    rw [go_cons, go_cons, itemView_seq, itemView_seq]
    exact ORel.oseq (ORel.of_eq hR (itemView_lineHead_renumber fs dirs fuel path path cd n m l)) (ih _ _)
  | change ha hb hab _ ih =>
    intro n m
    rw [go_cons, go_cons, itemView_seq, itemView_seq, itemView_lineHead_plain _ _ _ _ _ _ _ ha,
      itemView_lineHead_plain _ _ _ _ _ _ _ hb]
    exact ORel.oseq hab (ih _ _)
  | insert hl hs _ ih =>
    intro n m
    rw [go_cons fs dirs fuel path cd m, itemView_seq, itemView_lineHead_plain _ _ _ _ _ _ _ hl, hs, oseq_nil_left]
    exact ih _ _
  | delete hl hs _ ih =>
    intro n m
    rw [go_cons fs dirs fuel path cd n, itemView_seq, itemView_lineHead_plain _ _ _ _ _ _ _ hl, hs, oseq_nil_left]
    exact ih _ _

/-- two source texts whose lines are related give related item lists … -/
theorem frontEnd_linesRel {R : Item → Item → Prop} (hR : ∀ it, R it it) (fs : FS) (cwd : String)
    (dirs : List String) (A B : String)
    (hcwd : normAbs cwd = true) (hdirs : dirs.all absOk = true)
    (hA : A.toList.all (fun c => c.toNat < 128) = true) (hB : B.toList.all (fun c => c.toNat < 128) = true)
    (h : LinesRel R (splitLines A.toList) (splitLines B.toList)) :
    ORel R (erasedItems (frontEnd fs cwd dirs (.source A))) (erasedItems (frontEnd fs cwd dirs (.source B))) := by
  rw [frontEnd_source fs cwd dirs A hcwd hdirs hA, frontEnd_source fs cwd dirs B hcwd hdirs hB,
    erasedItems_bind_itemsOfLines, erasedItems_bind_itemsOfLines, readLinesAux.eq_2, readLinesAux.eq_2]
  exact go_linesRel hR fs dirs _ _ _ h 1 1

/-- … and, when related item lists assemble alike, the same result: bytes, labels, constants, or
    failure of both -/
theorem assembleText_linesRel {R : Item → Item → Prop} (hR : ∀ it, R it it) (fs : FS) (cwd : String)
    (dirs : List String) (c : Bool) (A B : String)
    (hcwd : normAbs cwd = true) (hdirs : dirs.all absOk = true)
    (hA : A.toList.all (fun c => c.toNat < 128) = true) (hB : B.toList.all (fun c => c.toNat < 128) = true)
    (hasm : ∀ its its', ListRel R its its' →
      resultOf (assembleItems (textHooks fs) c its [] []) = resultOf (assembleItems (textHooks fs) c its' [] []))
    (h : LinesRel R (splitLines A.toList) (splitLines B.toList)) :
    resultOf (assembleText fs cwd dirs c (.source A)) = resultOf (assembleText fs cwd dirs c (.source B)) := by
  rw [resultOf_assembleText, resultOf_assembleText]
  have hrel := frontEnd_linesRel hR fs cwd dirs A B hcwd hdirs hA hB h
  cases hx : erasedItems (frontEnd fs cwd dirs (.source A)) with
  | none =>
    cases hy : erasedItems (frontEnd fs cwd dirs (.source B)) with
    | none => rfl
    | some b => rw [hx, hy] at hrel; exact absurd hrel (by simp [ORel])
  | some a =>
    cases hy : erasedItems (frontEnd fs cwd dirs (.source B)) with
    | none => rw [hx, hy] at hrel; exact absurd hrel (by simp [ORel])
    | some b =>
      rw [hx, hy] at hrel
      exact hasm a b hrel

end BB
