/-
  BB.Lemmas.ReadPasses — no pass of the assembler model inspects the `Line` an item carries: it is
  only copied into the items a pass produces and into the errors it raises.  Hence rewriting every
  `Line` of the input with a function `f` rewrites the error (if any) with `f` and leaves the
  successful result untouched (`assembleItems_mapLine`).
-/
import BB.Lemmas.ReadLineMeta
namespace BB

/-- rewrite the line of a failure with `f`, the value of a success with `g` -/
def natE {α β : Type} (f : Line → Line) (g : α → β) : Except Err α → Except Err β
  | .ok a => .ok (g a)
  | .error e => .error (e.mapLine f)

@[simp] theorem natE_ok {α β : Type} (f : Line → Line) (g : α → β) (a : α) :
    natE f g (.ok a : Except Err α) = .ok (g a) := rfl

@[simp] theorem natE_error {α β : Type} (f : Line → Line) (g : α → β) (e : Err) :
    natE f g (.error e : Except Err α) = .error (e.mapLine f) := rfl

theorem mapErrLine_eq_natE {α : Type} (f : Line → Line) (x : Except Err α) :
    mapErrLine f x = natE f id x := by cases x <;> rfl

theorem natE_id {α : Type} (f : Line → Line) (x : Except Err α) :
    natE f (fun a => a) x = mapErrLine f x := by cases x <;> rfl

@[simp] theorem bind_ok' {α β : Type} (a : α) (k : α → Except Err β) :
    ((Except.ok a : Except Err α) >>= k) = k a := rfl

@[simp] theorem bind_error' {α β : Type} (e : Err) (k : α → Except Err β) :
    ((Except.error e : Except Err α) >>= k) = .error e := rfl

@[simp] theorem pure_eq_ok {α : Type} (a : α) : (pure a : Except Err α) = .ok a := rfl

/-- the generic step: naturality is preserved by `>>=` -/
theorem natE_bind {α α' β β' : Type} (f : Line → Line) (h : α → α') (g : β → β')
    (x : Except Err α) (x' : Except Err α') (k : α → Except Err β) (k' : α' → Except Err β')
    (hx : x' = natE f h x) (hk : ∀ a, k' (h a) = natE f g (k a)) :
    (x' >>= k') = natE f g (x >>= k) := by
  subst hx
  cases x with
  | error e => rfl
  | ok a => simp [hk]

theorem mapErrLine_bind {α β : Type} (f : Line → Line) (x : Except Err α) (k : α → Except Err β) :
    mapErrLine f (x >>= k) = (mapErrLine f x >>= fun a => mapErrLine f (k a)) := by
  cases x <;> rfl

/-! ### expressions and sizes -/

theorem liftExpr_mapLine (f : Line → Line) (line : Line) (r : Except ExprErr Int) :
    liftExpr (f line) r = mapErrLine f (liftExpr line r) := by
  cases r with
  | ok v => rfl
  | error e => cases e <;> rfl

theorem Imm.eval_mapLine (H : Hooks) (f : Line → Line) (env : String → Option Int) (line : Line)
    (imm : Imm) (pos : Int) :
    Imm.eval H env (f line) imm pos = mapErrLine f (Imm.eval H env line imm pos) := by
  induction imm generalizing pos with
  | arith e => simp [Imm.eval, liftExpr_mapLine]
  | position ref e =>
    simp only [Imm.eval]
    cases env ref with
    | none => rfl
    | some d =>
      simp only [liftExpr_mapLine]
      cases liftExpr line (H.arith e env) <;> rfl
  | offset ref =>
    simp only [Imm.eval]
    cases env ref <;> rfl
  | hi e ih =>
    simp only [Imm.eval, ih]
    cases Imm.eval H env line e pos <;> rfl
  | lo e ih =>
    simp only [Imm.eval, ih]
    cases Imm.eval H env line e pos <;> rfl
  | value v => rfl

@[simp] theorem Item.size?_mapLine (f : Line → Line) (it : Item) : (it.mapLine f).size? = it.size? := by
  cases it <;> rfl

theorem Item.sizeE_mapLine (f : Line → Line) (it : Item) : (it.mapLine f).sizeE = it.sizeE := by
  cases it <;> rfl

theorem Item.sizeE_noLine (f : Line → Line) (it : Item) : mapErrLine f it.sizeE = it.sizeE := by
  unfold Item.sizeE
  cases it.size? with
  | some n => rfl
  | none => cases it <;> rfl

@[simp] theorem Item.sizeD_mapLine (f : Line → Line) (it : Item) : (it.mapLine f).sizeD = it.sizeD := by
  simp [Item.sizeD]

@[simp] theorem sizeSum_mapLine (f : Line → Line) (l : List Item) :
    sizeSum (l.map (Item.mapLine f)) = sizeSum l := by
  simp [sizeSum, List.map_map, Function.comp_def]

/-- how a loop body / a `walk` result is rewritten -/
abbrev mapFst {γ : Type} (f : Line → Line) : List Item × γ → List Item × γ :=
  fun r => (r.1.map (Item.mapLine f), r.2)

theorem keepItem_mapLine (f : Line → Line) (it : Item) :
    keepItem (it.mapLine f) = natE f (mapFst f) (keepItem it) := by
  unfold keepItem
  rw [Item.sizeE_mapLine]
  have h := Item.sizeE_noLine f it
  cases hs : it.sizeE with
  | ok n => rfl
  | error e =>
    rw [hs] at h
    simp only [mapErrLine_error, Except.error.injEq] at h
    simp [h]

/-! ### the shared loop -/

theorem walk_mapLine (f : Line → Line) (g : Item → Int → Dict → Except Err (List Item × Int))
    (hg : ∀ it p l, g (it.mapLine f) p l = natE f (mapFst f) (g it p l))
    (items : List Item) (p : Int) (l : Dict) :
    walk g (items.map (Item.mapLine f)) p l = natE f (mapFst f) (walk g items p l) := by
  induction items generalizing p l with
  | nil => rfl
  | cons it rest ih =>
    have step : ∀ it, (∀ ln nm, it ≠ .label ln nm) →
        (g (it.mapLine f) p l >>= fun (r : List Item × Int) =>
          walk g (rest.map (Item.mapLine f)) (p + sizeSum r.1) (l.shiftAbove p r.2) >>= fun o =>
            pure (r.1 ++ o.1, o.2)) =
        natE f (mapFst f) (g it p l >>= fun (r : List Item × Int) =>
          walk g rest (p + sizeSum r.1) (l.shiftAbove p r.2) >>= fun o =>
            pure (r.1 ++ o.1, o.2)) := by
      intro it _
      refine natE_bind f (mapFst f) (mapFst f) _ _ _ _ (hg it p l) ?_
      intro r
      simp only [sizeSum_mapLine]
      refine natE_bind f (mapFst f) (mapFst f) _ _ _ _ (ih _ _) ?_
      intro o
      simp
    cases it with
    | label ln nm =>
      simp only [List.map, Item.mapLine, walk]
      refine natE_bind f (mapFst f) (mapFst f) _ _ _ _ (ih _ _) ?_
      intro o
      simp [Item.mapLine]
    | _ =>
      simp only [List.map, walk]
      exact step _ (by intro _ _ h; cases h)

/-! ### resolve_constants, resolve_labels, resolve_register_aliases -/

theorem resolveConstants_mapLine (H : Hooks) (f : Line → Line) (items : List Item) (cs : Dict) :
    resolveConstants H (items.map (Item.mapLine f)) cs = natE f (mapFst f) (resolveConstants H items cs) := by
  induction items generalizing cs with
  | nil => rfl
  | cons it rest ih =>
    cases it with
    | constant ln nm e =>
      cases e with
      | arith e =>
        simp only [List.map, Item.mapLine, resolveConstants]
        split
        · rfl
        · split
          · rfl
          · refine natE_bind f id (mapFst f) _ _ _ _ ?_ ?_
            · rw [liftExpr_mapLine, mapErrLine_eq_natE]
            · intro v; exact ih _
      | _ => rfl
    | _ =>
      simp only [List.map, Item.mapLine, resolveConstants]
      refine natE_bind f (mapFst f) (mapFst f) _ _ _ _ (ih _) ?_
      intro o
      simp [Item.mapLine]

theorem resolveLabelsAux_mapLine (f : Line → Line) (items : List Item) (p : Int) (ls : Dict)
    (defined : List String) :
    resolveLabelsAux (items.map (Item.mapLine f)) p ls defined
      = natE f (mapFst f) (resolveLabelsAux items p ls defined) := by
  induction items generalizing p ls defined with
  | nil => rfl
  | cons it rest ih =>
    cases it with
    | label ln nm =>
      simp only [List.map, Item.mapLine, resolveLabelsAux]
      split
      · rfl
      · exact ih _ _ _
    | _ =>
      simp only [List.map, resolveLabelsAux]
      refine natE_bind f id (mapFst f) _ _ _ _ ?_ ?_
      · rw [← mapErrLine_eq_natE, Item.sizeE_noLine, Item.sizeE_mapLine]
      · intro sz
        refine natE_bind f (mapFst f) (mapFst f) _ _ _ _ (ih _ _ _) ?_
        intro o
        simp [Item.mapLine]

theorem resolveLabels_mapLine (f : Line → Line) (items : List Item) (ls : Dict) :
    resolveLabels (items.map (Item.mapLine f)) ls = natE f (mapFst f) (resolveLabels items ls) :=
  resolveLabelsAux_mapLine f items 0 ls []

theorem resolveRegisterAliases_mapLine (f : Line → Line) (items : List Item) (cs : Dict) :
    resolveRegisterAliases (items.map (Item.mapLine f)) cs
      = (resolveRegisterAliases items cs).map (Item.mapLine f) := by
  simp only [resolveRegisterAliases, List.map_map]
  congr 1
  funext it
  cases it <;> rfl

/-! ### transform_compressible -/

theorem regOf_mapLine (f : Line → Line) (line : Line) (ins : Instr) (fl : Fld) :
    regOf (f line) ins fl = mapErrLine f (regOf line ins fl) := by
  unfold regOf
  cases ins.fld fl with
  | none => rfl
  | some r => dsimp only; cases lookupRegister r <;> rfl

theorem immOf_mapLine (H : Hooks) (f : Line → Line) (env : String → Option Int) (line : Line)
    (ins : Instr) (p : Int) :
    immOf H env (f line) ins p = mapErrLine f (immOf H env line ins p) := by
  unfold immOf
  cases ins.imm? with
  | none => rfl
  | some imm => exact Imm.eval_mapLine H f env line imm p

theorem Pred.eval_mapLine (H : Hooks) (f : Line → Line) (env : String → Option Int) (line : Line)
    (ins : Instr) (p : Int) (pr : Pred) :
    pr.eval H env (f line) ins p = mapErrLine f (pr.eval H env line ins p) := by
  cases pr with
  | nameEq s => rfl
  | regsMatch a b =>
    simp only [Pred.eval, regOf_mapLine]
    cases regOf line ins a with
    | error e => rfl
    | ok ra => cases regOf line ins b <;> rfl
  | regEq fl v => simp only [Pred.eval, regOf_mapLine]; cases regOf line ins fl <;> rfl
  | regNe fl v => simp only [Pred.eval, regOf_mapLine]; cases regOf line ins fl <;> rfl
  | regBetween fl lo hi => simp only [Pred.eval, regOf_mapLine]; cases regOf line ins fl <;> rfl
  | immEq v => simp only [Pred.eval, immOf_mapLine]; cases immOf H env line ins p <;> rfl
  | immNe v => simp only [Pred.eval, immOf_mapLine]; cases immOf H env line ins p <;> rfl
  | immDiv v => simp only [Pred.eval, immOf_mapLine]; cases immOf H env line ins p <;> rfl
  | immBetween lo hi => simp only [Pred.eval, immOf_mapLine]; cases immOf H env line ins p <;> rfl

theorem allPreds_mapLine (H : Hooks) (f : Line → Line) (env : String → Option Int) (line : Line)
    (ins : Instr) (p : Int) (prs : List Pred) :
    allPreds H env (f line) ins p prs = mapErrLine f (allPreds H env line ins p prs) := by
  induction prs with
  | nil => rfl
  | cons pr rest ih =>
    simp only [allPreds, Pred.eval_mapLine]
    cases pr.eval H env line ins p with
    | error e => rfl
    | ok b => cases b <;> simp [ih]

theorem firstMatch_mapLine (H : Hooks) (f : Line → Line) (env : String → Option Int) (line : Line)
    (ins : Instr) (p : Int) (cr : List (String × List Pred)) :
    firstMatch H env (f line) ins p cr = mapErrLine f (firstMatch H env line ins p cr) := by
  induction cr with
  | nil => rfl
  | cons c rest ih =>
    obtain ⟨name, preds⟩ := c
    simp only [firstMatch, allPreds_mapLine]
    cases allPreds H env line ins p preds with
    | error e => rfl
    | ok b => cases b <;> simp [ih]

theorem compressBody_mapLine (H : Hooks) (f : Line → Line) (cs : Dict) (it : Item) (p : Int) (l : Dict) :
    compressBody H cs (it.mapLine f) p l = natE f (mapFst f) (compressBody H cs it p l) := by
  cases it with
  | instr line ins =>
    simp only [Item.mapLine, compressBody]
    split
    · exact keepItem_mapLine f (.instr line ins)
    · rw [firstMatch_mapLine]
      cases firstMatch H (chainGet cs l) line ins p criteria with
      | error e =>
        cases e with
        | asm l' => rfl
        | unsupported w => rfl
        | internal t =>
          by_cases ht : t = "UnicodeDecodeError"
          · subst ht; rfl
          · simp only [mapErrLine_error, Err.mapLine]
            split
            · rename_i h; injection h with h; injection h with h; exact absurd h ht
            · rename_i h; injection h with h; subst h; rfl
            · rename_i h; cases h
            · rename_i h; cases h
      | ok m =>
        cases m with
        | none => exact keepItem_mapLine f (.instr line ins)
        | some c =>
          simp only [mapErrLine_ok]
          cases compressedForm c ins <;> rfl
  | _ => exact keepItem_mapLine f _

theorem transformCompressible_mapLine (H : Hooks) (f : Line → Line) (items : List Item) (cs ls : Dict) :
    transformCompressible H (items.map (Item.mapLine f)) cs ls
      = natE f (mapFst f) (transformCompressible H items cs ls) :=
  walk_mapLine f _ (compressBody_mapLine H f cs) items 0 ls

theorem maybeCompress_mapLine (H : Hooks) (f : Line → Line) (c : Bool) (items : List Item) (cs ls : Dict) :
    maybeCompress H c (items.map (Item.mapLine f)) cs ls
      = natE f (mapFst f) (maybeCompress H c items cs ls) := by
  cases c
  · rfl
  · exact transformCompressible_mapLine H f items cs ls

/-! ### transform_pseudo_instructions -/

theorem mapErrLine_ite {α : Type} (f : Line → Line) (c : Prop) [Decidable c] (a b : Except Err α) :
    mapErrLine f (if c then a else b) = if c then mapErrLine f a else mapErrLine f b := by
  split <;> rfl

theorem expandKind_mapLine (H : Hooks) (f : Line → Line) (hH : HooksNatural H f)
    (env : String → Option Int) (line : Line) (k : PKind) (args : List String) (p : Int) :
    expandKind H env (f line) k args p = mapErrLine f (expandKind H env line k args p) := by
  have hp : ∀ toks l, H.parseImm toks (f l) = mapErrLine f (H.parseImm toks l) := hH
  rcases args with _ | ⟨a, _ | ⟨b, _ | ⟨c, _ | ⟨d, rest⟩⟩⟩⟩ <;> cases k <;>
    simp only [expandKind, hp, Imm.eval_mapLine, mapErrLine_bind, mapErrLine_ok, mapErrLine_error,
      Err.mapLine, pure_eq_ok, mapErrLine_ite]

theorem expandPseudo_mapLine (H : Hooks) (f : Line → Line) (hH : HooksNatural H f)
    (env : String → Option Int) (line : Line) (name : String) (args : List String) (p : Int) :
    expandPseudo H env (f line) name args p = mapErrLine f (expandPseudo H env line name args p) := by
  unfold expandPseudo
  cases pseudoKind name with
  | none => rfl
  | some k => exact expandKind_mapLine H f hH env line k args p

theorem pseudoBody_mapLine (H : Hooks) (f : Line → Line) (hH : HooksNatural H f) (cs : Dict)
    (it : Item) (p : Int) (l : Dict) :
    pseudoBody H cs (it.mapLine f) p l = natE f (mapFst f) (pseudoBody H cs it p l) := by
  cases it with
  | pseudo line name args =>
    simp only [Item.mapLine, pseudoBody, expandPseudo_mapLine H f hH]
    cases expandPseudo H (chainGet cs l) line name args p with
    | error e => rfl
    | ok r => simp [mapFst, List.map_map, Function.comp_def, Item.mapLine]
  | _ => exact keepItem_mapLine f _

theorem transformPseudo_mapLine (H : Hooks) (f : Line → Line) (hH : HooksNatural H f)
    (items : List Item) (cs ls : Dict) :
    transformPseudo H (items.map (Item.mapLine f)) cs ls
      = natE f (mapFst f) (transformPseudo H items cs ls) :=
  walk_mapLine f _ (pseudoBody_mapLine H f hH cs) items 0 ls

/-! ### resolve_aligns, resolve_immediates -/

theorem alignBody_mapLine (f : Line → Line) (it : Item) (p : Int) (l : Dict) :
    alignBody (it.mapLine f) p l = natE f (mapFst f) (alignBody it p l) := by
  cases it with
  | align line a =>
    simp only [Item.mapLine, alignBody]
    cases alignPadding a p with
    | none => rfl
    | some padding =>
      dsimp only
      split
      · rfl
      · split <;> rfl
  | _ => exact keepItem_mapLine f _

theorem resolveAligns_mapLine (f : Line → Line) (items : List Item) (ls : Dict) :
    resolveAligns (items.map (Item.mapLine f)) ls = natE f (mapFst f) (resolveAligns items ls) :=
  walk_mapLine f _ (alignBody_mapLine f) items 0 ls

theorem immBody_mapLine (H : Hooks) (f : Line → Line) (cs : Dict) (it : Item) (p : Int) (l : Dict) :
    immBody H cs (it.mapLine f) p l = natE f (mapFst f) (immBody H cs it p l) := by
  cases it with
  | instr line ins =>
    simp only [Item.mapLine, immBody]
    cases hi : ins.imm? with
    | none => exact keepItem_mapLine f (.instr line ins)
    | some imm =>
      simp only [Imm.eval_mapLine]
      cases Imm.eval H (chainGet cs l) line imm (if ins.isAuipcJump = true then p - 4 else p) <;> rfl
  | pack line fmt imm =>
    simp only [Item.mapLine, immBody, Imm.eval_mapLine]
    cases Imm.eval H (chainGet cs l) line imm p with
    | error e => rfl
    | ok v =>
      have h := keepItem_mapLine f (.pack line fmt (.value v))
      simpa [keepItem, Item.mapLine] using h
  | shorthandPack line name imm =>
    simp only [Item.mapLine, immBody, Imm.eval_mapLine]
    cases Imm.eval H (chainGet cs l) line imm p with
    | error e => rfl
    | ok v =>
      have h := keepItem_mapLine f (.shorthandPack line name (.value v))
      simpa [keepItem, Item.mapLine] using h
  | _ => exact keepItem_mapLine f _

theorem resolveImmediates_mapLine (H : Hooks) (f : Line → Line) (items : List Item) (cs ls : Dict) :
    resolveImmediates H (items.map (Item.mapLine f)) cs ls
      = natE f (List.map (Item.mapLine f)) (resolveImmediates H items cs ls) := by
  unfold resolveImmediates
  refine natE_bind f (mapFst f) (List.map (Item.mapLine f)) _ _ _ _
    (walk_mapLine f _ (immBody_mapLine H f cs) items 0 ls) ?_
  intro o
  rfl

/-! ### the `mapM` passes -/

theorem mapM_mapLine (f : Line → Line) (step : Item → Except Err Item)
    (hs : ∀ it, step (it.mapLine f) = natE f (Item.mapLine f) (step it)) (items : List Item) :
    (items.map (Item.mapLine f)).mapM step = natE f (List.map (Item.mapLine f)) (items.mapM step) := by
  induction items with
  | nil => rfl
  | cons it rest ih =>
    simp only [List.map, List.mapM_cons]
    refine natE_bind f (Item.mapLine f) (List.map (Item.mapLine f)) _ _ _ _ (hs it) ?_
    intro a
    refine natE_bind f (List.map (Item.mapLine f)) (List.map (Item.mapLine f)) _ _ _ _ ih ?_
    intro r
    rfl

theorem encodeInstr_mapLine (f : Line → Line) (line : Line) (ins : Instr) :
    encodeInstr (f line) ins = mapErrLine f (encodeInstr line ins) := by
  unfold encodeInstr
  cases ins.args with
  | none => rfl
  | some args =>
    dsimp only
    cases encode ins.name args with
    | ok w => rfl
    | error e => cases e <;> rfl

theorem instrStep_mapLine (f : Line → Line) (it : Item) :
    instrStep (it.mapLine f) = natE f (Item.mapLine f) (instrStep it) := by
  cases it with
  | instr line ins =>
    simp only [Item.mapLine, instrStep, encodeInstr_mapLine]
    cases encodeInstr line ins <;> rfl
  | _ => rfl

theorem resolveInstructions_mapLine (f : Line → Line) (items : List Item) :
    resolveInstructions (items.map (Item.mapLine f))
      = natE f (List.map (Item.mapLine f)) (resolveInstructions items) :=
  mapM_mapLine f _ (instrStep_mapLine f) items

theorem resolveStrings_mapLine (f : Line → Line) (items : List Item) :
    resolveStrings (items.map (Item.mapLine f)) = (resolveStrings items).map (Item.mapLine f) := by
  simp only [resolveStrings, List.map_map]
  congr 1
  funext it
  cases it <;> rfl

theorem seqBytes_mapLine (f : Line → Line) (line : Line) (n : Nat) (ts : List String) :
    seqBytes (f line) n ts = mapErrLine f (seqBytes line n ts) := by
  induction ts with
  | nil => rfl
  | cons t rest ih =>
    simp only [seqBytes]
    cases pyInt0 t.toList with
    | none => rfl
    | some v =>
      dsimp only
      rw [ih]
      cases seqBytes line n rest <;> rfl

theorem packSeq_mapLine (f : Line → Line) (line : Line) (n : Nat) (vs : List Int) :
    packSeq (f line) n vs = mapErrLine f (packSeq line n vs) := by
  induction vs with
  | nil => rfl
  | cons v rest ih =>
    simp only [packSeq]
    cases packInt false (decide (v < 0)) n v with
    | none => rfl
    | some bs =>
      dsimp only
      rw [ih]
      cases packSeq line n rest <;> rfl

theorem seqStep_mapLine (f : Line → Line) (it : Item) :
    seqStep (it.mapLine f) = natE f (Item.mapLine f) (seqStep it) := by
  cases it with
  | sequence line name values =>
    simp only [Item.mapLine, seqStep]
    cases sequenceElemSize name with
    | none => rfl
    | some n =>
      dsimp only
      rw [seqBytes_mapLine]
      cases seqBytes line n values with
      | error e => rfl
      | ok vs =>
        simp only [mapErrLine_ok, bind_ok', packSeq_mapLine]
        cases packSeq line n vs <;> rfl
  | _ => rfl

theorem resolveSequences_mapLine (f : Line → Line) (items : List Item) :
    resolveSequences (items.map (Item.mapLine f))
      = natE f (List.map (Item.mapLine f)) (resolveSequences items) :=
  mapM_mapLine f _ (seqStep_mapLine f) items

theorem shorthandStep_mapLine (f : Line → Line) (it : Item) :
    shorthandStep (it.mapLine f) = natE f (Item.mapLine f) (shorthandStep it) := by
  cases it with
  | shorthandPack line name imm =>
    cases imm with
    | value v =>
      simp only [Item.mapLine, shorthandStep]
      cases shorthandFmt name v <;> rfl
    | _ => rfl
  | _ => rfl

theorem transformShorthandPacks_mapLine (f : Line → Line) (items : List Item) :
    transformShorthandPacks (items.map (Item.mapLine f))
      = natE f (List.map (Item.mapLine f)) (transformShorthandPacks items) :=
  mapM_mapLine f _ (shorthandStep_mapLine f) items

theorem packFmt_noLine (f : Line → Line) (fmt : String) (v : Int) :
    mapErrLine f (packFmt fmt v) = packFmt fmt v := by
  unfold packFmt
  split
  · dsimp only
    repeat' split
    all_goals rfl
  · rfl

theorem packStep_mapLine (f : Line → Line) (it : Item) :
    packStep (it.mapLine f) = natE f (Item.mapLine f) (packStep it) := by
  cases it with
  | pack line fmt imm =>
    cases imm with
    | value v =>
      simp only [Item.mapLine, packStep]
      have hn := packFmt_noLine f fmt v
      cases hp : packFmt fmt v with
      | error e =>
        rw [hp] at hn
        simp only [mapErrLine_error, Except.error.injEq] at hn
        simp [hn]
      | ok o => cases o <;> rfl
    | _ => rfl
  | _ => rfl

theorem resolvePacks_mapLine (f : Line → Line) (items : List Item) :
    resolvePacks (items.map (Item.mapLine f))
      = natE f (List.map (Item.mapLine f)) (resolvePacks items) :=
  mapM_mapLine f _ (packStep_mapLine f) items

theorem includeBytesStep_mapLine (H : Hooks) (f : Line → Line) (it : Item) :
    includeBytesStep H (it.mapLine f) = natE f (Item.mapLine f) (includeBytesStep H it) := by
  cases it with
  | includeBytes line path fsize =>
    simp only [Item.mapLine, includeBytesStep]
    cases H.readFile path with
    | none => rfl
    | some data =>
      dsimp only
      split <;> rfl
  | _ => rfl

theorem resolveIncludeBytes_mapLine (H : Hooks) (f : Line → Line) (items : List Item) :
    resolveIncludeBytes H (items.map (Item.mapLine f))
      = natE f (List.map (Item.mapLine f)) (resolveIncludeBytes H items) :=
  mapM_mapLine f _ (includeBytesStep_mapLine H f) items

theorem resolveBlobs_mapLine (f : Line → Line) (items : List Item) :
    resolveBlobs (items.map (Item.mapLine f)) = mapErrLine f (resolveBlobs items) := by
  induction items with
  | nil => rfl
  | cons it rest ih =>
    cases it with
    | blob line d =>
      simp only [List.map, Item.mapLine, resolveBlobs, ih]
      cases resolveBlobs rest <;> rfl
    | _ => rfl

/-! ### assemble -/

theorem assembleItems_mapLine (H : Hooks) (f : Line → Line) (hH : HooksNatural H f) (c : Bool)
    (items : List Item) (cs ls : Dict) :
    assembleItems H c (items.map (Item.mapLine f)) cs ls = mapErrLine f (assembleItems H c items cs ls) := by
  rw [mapErrLine_eq_natE]
  unfold assembleItems
  refine natE_bind f (mapFst f) id _ _ _ _ (resolveConstants_mapLine H f items cs) ?_
  intro ⟨its, cs'⟩
  dsimp only [mapFst]
  refine natE_bind f (mapFst f) id _ _ _ _ (resolveLabels_mapLine f its ls) ?_
  intro ⟨its, ls⟩
  dsimp only [mapFst]
  rw [resolveRegisterAliases_mapLine]
  refine natE_bind f (mapFst f) id _ _ _ _ (maybeCompress_mapLine H f c _ cs' ls) ?_
  intro ⟨its, ls⟩
  dsimp only [mapFst]
  refine natE_bind f (mapFst f) id _ _ _ _ (transformPseudo_mapLine H f hH its cs' ls) ?_
  intro ⟨its, ls⟩
  dsimp only [mapFst]
  rw [resolveRegisterAliases_mapLine]
  refine natE_bind f (mapFst f) id _ _ _ _ (maybeCompress_mapLine H f c _ cs' ls) ?_
  intro ⟨its, ls⟩
  dsimp only [mapFst]
  refine natE_bind f (mapFst f) id _ _ _ _ (resolveAligns_mapLine f its ls) ?_
  intro ⟨its, ls⟩
  dsimp only [mapFst]
  refine natE_bind f (List.map (Item.mapLine f)) id _ _ _ _ (resolveImmediates_mapLine H f its cs' ls) ?_
  intro its
  refine natE_bind f (List.map (Item.mapLine f)) id _ _ _ _ (resolveInstructions_mapLine f its) ?_
  intro its
  rw [resolveStrings_mapLine]
  refine natE_bind f (List.map (Item.mapLine f)) id _ _ _ _ (resolveSequences_mapLine f _) ?_
  intro its
  refine natE_bind f (List.map (Item.mapLine f)) id _ _ _ _ (transformShorthandPacks_mapLine f its) ?_
  intro its
  refine natE_bind f (List.map (Item.mapLine f)) id _ _ _ _ (resolvePacks_mapLine f its) ?_
  intro its
  refine natE_bind f (List.map (Item.mapLine f)) id _ _ _ _ (resolveIncludeBytes_mapLine H f its) ?_
  intro its
  refine natE_bind f id id _ _ _ _ ?_ ?_
  · rw [resolveBlobs_mapLine, mapErrLine_eq_natE]
  · intro bytes
    rfl


end BB
