/-
  BB.Lemmas.Enc32 — each 32-bit encoder, as a sum of fields (so that `omega` can extract them).
-/
import BB.Lemmas.Bits
namespace BB.Lemmas
open BB BB.Spec

theorem rTypeN_eq (rd rs1 rs2 op f3 f7 : Nat) (h1 : rd < 32) (h2 : rs1 < 32) (h3 : rs2 < 32)
    (h4 : op < 128) (h5 : f3 < 8) :
    rTypeN rd rs1 rs2 op f3 f7
      = op + rd * 128 + f3 * 4096 + rs1 * 32768 + rs2 * 1048576 + f7 * 33554432 := by
  unfold rTypeN
  rw [Nat.zero_or]
  rw [lor_shl_eq_add _ _ 7 (by omega), lor_shl_eq_add _ _ 12 (by omega),
      lor_shl_eq_add _ _ 15 (by omega), lor_shl_eq_add _ _ 20 (by omega),
      lor_shl_eq_add _ _ 25 (by omega)]

theorem iTypeN_eq (rd rs1 : Nat) (imm : Int) (op f3 : Nat) (h1 : rd < 32) (h2 : rs1 < 32)
    (h4 : op < 128) (h5 : f3 < 8) :
    iTypeN rd rs1 imm op f3 =
      if imm < -2048 ∨ imm > 2047 then none
      else some (op + rd * 128 + f3 * 4096 + rs1 * 32768 + (imm % 4096).toNat * 1048576) := by
  unfold iTypeN
  split
  · rfl
  · rename_i h
    bits_norm
    rw [lor_shl_eq_add _ _ 7 (by omega), lor_shl_eq_add _ _ 12 (by omega),
        lor_shl_eq_add _ _ 15 (by omega), lor_shl_eq_add _ _ 20 (by omega)]
    have hu : (imm % 4294967296).toNat % 4096 = (imm % 4096).toNat := by omega
    rw [hu]

theorem ijTypeN_eq (rd rs1 : Nat) (imm : Int) (op f3 : Nat) (h1 : rd < 32) (h2 : rs1 < 32)
    (h4 : op < 128) (h5 : f3 < 8) :
    ijTypeN rd rs1 imm op f3 =
      if imm < -2048 ∨ imm > 2047 then none
      else if imm % 2 ≠ 0 then none
      else some (op + rd * 128 + f3 * 4096 + rs1 * 32768 + (imm % 4096).toNat * 1048576) := by
  unfold ijTypeN
  split
  · rfl
  · split
    · rfl
    · bits_norm
      rw [lor_shl_eq_add _ _ 7 (by omega), lor_shl_eq_add _ _ 12 (by omega),
          lor_shl_eq_add _ _ 15 (by omega), lor_shl_eq_add _ _ 20 (by omega)]
      have hu : (imm % 4294967296).toNat % 4096 = (imm % 4096).toNat := by omega
      rw [hu]

theorem sTypeN_eq (rs1 rs2 : Nat) (imm : Int) (op f3 : Nat) (h1 : rs1 < 32) (h2 : rs2 < 32)
    (h4 : op < 128) (h5 : f3 < 8) :
    sTypeN rs1 rs2 imm op f3 =
      if imm < -2048 ∨ imm > 2047 then none
      else some (op + ((imm % 4096).toNat % 32) * 128 + f3 * 4096 + rs1 * 32768 + rs2 * 1048576
                 + ((imm % 4096).toNat / 32 % 128) * 33554432) := by
  unfold sTypeN
  split
  · rfl
  · bits_norm
    rw [lor_shl_eq_add _ _ 7 (by omega), lor_shl_eq_add _ _ 12 (by omega),
        lor_shl_eq_add _ _ 15 (by omega), lor_shl_eq_add _ _ 20 (by omega),
        lor_shl_eq_add _ _ 25 (by omega)]
    have hu : (imm % 4294967296).toNat % 4096 = (imm % 4096).toNat := by omega
    rw [hu]

theorem bTypeN_eq (rs1 rs2 : Nat) (imm : Int) (op f3 : Nat) (h1 : rs1 < 32) (h2 : rs2 < 32)
    (h4 : op < 128) (h5 : f3 < 8) :
    bTypeN rs1 rs2 imm op f3 =
      if imm < -4096 ∨ imm > 4095 then none
      else if imm % 2 ≠ 0 then none
      else
        let u := ((imm / 2) % 4096).toNat
        some (op + (u / 1024 % 2) * 128 + (u % 16) * 256 + f3 * 4096 + rs1 * 32768 + rs2 * 1048576
              + (u / 16 % 64) * 33554432 + (u / 2048 % 2) * 2147483648) := by
  unfold bTypeN
  split
  · rfl
  · split
    · rfl
    · bits_norm
      rw [lor_shl_eq_add _ _ 7 (by omega), lor_shl_eq_add _ _ 8 (by omega),
          lor_shl_eq_add _ _ 12 (by omega), lor_shl_eq_add _ _ 15 (by omega),
          lor_shl_eq_add _ _ 20 (by omega), lor_shl_eq_add _ _ 25 (by omega),
          lor_shl_eq_add _ _ 31 (by omega)]
      have hu : (imm / 2 % 4294967296).toNat % 4096 = (imm / 2 % 4096).toNat := by omega
      rw [hu]

theorem uTypeN_eq (rd : Nat) (imm : Int) (op : Nat) (h1 : rd < 32) (h4 : op < 128) :
    uTypeN rd imm op =
      if imm < -524288 ∨ imm > 1048575 then none
      else some (op + rd * 128 + (imm % 1048576).toNat * 4096) := by
  unfold uTypeN
  by_cases hdual : imm ≥ 0x80000 ∧ imm ≤ 0xfffff
  · simp only [hdual, and_self, ↓reduceIte]
    have : ¬ (imm - 1048576 < -0x80000 ∨ imm - 1048576 > 0x7ffff) := by omega
    rw [if_neg this, if_neg (by omega)]
    bits_norm
    rw [lor_shl_eq_add _ _ 7 (by omega), lor_shl_eq_add _ _ 12 (by omega)]
    have hu : ((imm - 1048576) % 4294967296).toNat % 1048576 = (imm % 1048576).toNat := by omega
    rw [hu]
  · rw [if_neg hdual]
    by_cases hr : imm < -0x80000 ∨ imm > 0x7ffff
    · rw [if_pos hr, if_pos (by omega)]
    · rw [if_neg hr, if_neg (by omega)]
      bits_norm
      rw [lor_shl_eq_add _ _ 7 (by omega), lor_shl_eq_add _ _ 12 (by omega)]
      have hu : (imm % 4294967296).toNat % 1048576 = (imm % 1048576).toNat := by omega
      rw [hu]

theorem jTypeN_eq (rd : Nat) (imm : Int) (op : Nat) (h1 : rd < 32) (h4 : op < 128) :
    jTypeN rd imm op =
      if imm < -1048576 ∨ imm > 1048575 then none
      else if imm % 2 ≠ 0 then none
      else
        let u := ((imm / 2) % 1048576).toNat
        some (op + rd * 128 + (u / 2048 % 256) * 4096 + (u / 1024 % 2) * 1048576
              + (u % 1024) * 2097152 + (u / 524288 % 2) * 2147483648) := by
  unfold jTypeN
  split
  · rfl
  · split
    · rfl
    · bits_norm
      rw [lor_shl_eq_add _ _ 7 (by omega), lor_shl_eq_add _ _ 12 (by omega),
          lor_shl_eq_add _ _ 20 (by omega), lor_shl_eq_add _ _ 21 (by omega),
          lor_shl_eq_add _ _ 31 (by omega)]
      have hu : (imm / 2 % 4294967296).toNat % 1048576 = (imm / 2 % 1048576).toNat := by omega
      rw [hu]

end BB.Lemmas
