/-
  BB.Lemmas.SuccLayout — the passes of the -c run up to resolve_aligns, item by item: stage predicates
  `S2 … S6` ("on this item the body of this pass succeeds at every position and every table with the
  right keys, and what it turns into satisfies the predicate of the next pass"), and how a whole list
  goes through (`run1_layout_of_S2`).
-/
import BB.Lemmas.SuccRun0
set_option linter.unusedSimpArgs false
set_option linter.unusedVariables false
set_option linter.unusedTactic false
set_option linter.unreachableTactic false
namespace BB.Lemmas
open BB BB.Spec

def KeysP (K : List String) (L : Dict) : Prop := L.map Prod.fst = K

theorem KeysP.shift {K : List String} (L : Dict) (p n : Int) (h : KeysP K L) : KeysP K (L.shiftAbove p n) := by
  unfold KeysP at *; rw [Dict.keys_shiftAbove, h]

theorem KeysP.defined {K : List String} {L : Dict} (h : KeysP K L) : Defined K L := defined_of_keys h

def NotLabel (x : Item) : Prop := ∀ l n, x ≠ .label l n

section Stages
variable (H : Hooks) (constants : Dict) (K : List String)

/-- resolve_aligns succeeds on `x` -/
def S6 (x : Item) : Prop :=
  NotLabel x ∧ ∀ p L, KeysP K L → ∃ r, alignBody x p L = .ok r ∧ ∀ y ∈ r.1, True
/-- the second transform_compressible succeeds on `x`, into items on which resolve_aligns succeeds -/
def S5 (x : Item) : Prop :=
  NotLabel x ∧ ∀ p L, KeysP K L → ∃ r, compressBody H constants x p L = .ok r ∧ ∀ y ∈ r.1, S6 K y
def S4 (x : Item) : Prop := S5 H constants K (aliasItem constants x)
def S3 (x : Item) : Prop :=
  NotLabel x ∧ ∀ p L, KeysP K L → ∃ r, pseudoBody H constants x p L = .ok r ∧ ∀ y ∈ r.1, S4 H constants K y
def S2 (x : Item) : Prop :=
  NotLabel x ∧ ∀ p L, KeysP K L → ∃ r, compressBody H constants x p L = .ok r ∧ ∀ y ∈ r.1, S3 H constants K y

end Stages

theorem keepItem_of_size {x : Item} (h : ∃ v, x.sizeE = .ok v) : keepItem x = .ok ([x], 0) := by
  obtain ⟨v, hv⟩ := h
  simp [keepItem, hv, bind, Except.bind, pure, Except.pure]

theorem instr_size (line : Line) (ins : Instr) : ∃ v, (Item.instr line ins).sizeE = .ok v :=
  ⟨ins.size, by simp [Item.sizeE, Item.size?]⟩

variable {H : Hooks} {constants : Dict} {K : List String}

/-! ### resolve_aligns -/

theorem s6_keep {x : Item} (hnl : NotLabel x) (hna : ∀ l a, x ≠ .align l a) (hsz : ∃ v, x.sizeE = .ok v) : S6 K x := by
  refine ⟨hnl, fun p L _ => ⟨([x], 0), ?_, fun _ _ => trivial⟩⟩
  have hk := keepItem_of_size hsz
  cases x <;> first | (simpa [alignBody] using hk) | exact absurd rfl (hna _ _)

theorem s6_instr (line : Line) (ins : Instr) : S6 K (.instr line ins) :=
  s6_keep (by intro l n e; cases e) (by intro l a e; cases e) (instr_size line ins)

theorem s6_align {l : Line} {a : Int} (ha : 1 ≤ a) : S6 K (.align l a) := by
  refine ⟨(by intro l' n e; cases e), fun p L _ => ?_⟩
  simp only [alignBody]
  cases hp : alignPadding a p with
  | none =>
    unfold alignPadding at hp; rw [if_neg (by omega)] at hp
    simp only at hp; split at hp <;> cases hp
  | some pad =>
    obtain ⟨r1, _, _⟩ := alignPadding_range (by omega) hp
    simp only
    by_cases h0 : pad = 0
    · rw [if_pos h0]; exact ⟨_, rfl, fun _ _ => trivial⟩
    · rw [if_neg h0, if_neg (by omega)]; exact ⟨_, rfl, fun _ _ => trivial⟩

/-! ### transform_compressible (second) -/

theorem s5_of_keep {x : Item} (hnl : NotLabel x) (hni : ∀ l i, x ≠ .instr l i) (hsz : ∃ v, x.sizeE = .ok v)
    (h6 : S6 K x) : S5 H constants K x := by
  refine ⟨hnl, fun p L _ => ⟨([x], 0), ?_, ?_⟩⟩
  · have hk := keepItem_of_size hsz
    cases x <;> first | (simpa [compressBody] using hk) | exact absurd rfl (hni _ _)
  · intro y hy; simp only [List.mem_singleton] at hy; subst hy; exact h6

theorem s5_instr_keep {line : Line} {ins : Instr}
    (h : ∀ p L, compressBody H constants (.instr line ins) p L = keepItem (.instr line ins)) :
    S5 H constants K (.instr line ins) := by
  refine ⟨(by intro l n e; cases e), fun p L _ => ⟨([.instr line ins], 0), ?_, ?_⟩⟩
  · rw [h, keepItem_of_size (instr_size line ins)]
  · intro y hy; simp only [List.mem_singleton] at hy; subst hy; exact s6_instr line ins

/-- what `compressBody` returns on an instruction is one instruction -/
theorem compressBody_instr_out {line : Line} {ins : Instr} {p : Int} {L : Dict} {r : List Item × Int}
    (h : compressBody H constants (.instr line ins) p L = .ok r) :
    r.1 = [.instr line ins] ∨ ∃ c cf, compressedForm c ins = some cf ∧ r.1 = [.instr line cf] := by
  obtain ⟨repl, n⟩ := r
  rcases BB.Props.C04.compressBody_instr H constants line ins p L repl n h with ⟨rfl, _⟩ | ⟨c, _, cf, _, _, _, _, hcf, rfl, _⟩
  · exact Or.inl rfl
  · exact Or.inr ⟨c, cf, hcf, rfl⟩

/-- the three ways an instruction gets through a compression pass -/
def PassOK (H : Hooks) (constants : Dict) (K : List String) (line : Line) (ins : Instr) : Prop :=
  ins.name ∈ criteria.map Prod.fst ∨ ins.name ∉ baseNames ∨ InstrOK H constants K line ins

theorem compressBody_pass_ok {line : Line} {ins : Instr} (h : PassOK H constants K line ins) (p : Int) (L : Dict)
    (hL : KeysP K L) : ∃ r, compressBody H constants (.instr line ins) p L = .ok r := by
  rcases h with h | h | h
  · exact ⟨_, by rw [compressBody_cname_ok h, keepItem_of_size (instr_size line ins)]⟩
  · exact ⟨_, by rw [compressBody_other_ok h, keepItem_of_size (instr_size line ins)]⟩
  · exact compressBody_instr_ok h p L hL.defined

theorem s5_instr {line : Line} {ins : Instr} (h : PassOK H constants K line ins) :
    S5 H constants K (.instr line ins) := by
  refine ⟨(by intro l n e; cases e), fun p L hL => ?_⟩
  obtain ⟨r, hr⟩ := compressBody_pass_ok h p L hL
  refine ⟨r, hr, ?_⟩
  intro y hy
  rcases compressBody_instr_out hr with e | ⟨c, cf, _, e⟩ <;> rw [e] at hy <;>
    simp only [List.mem_singleton] at hy <;> subst hy <;> exact s6_instr _ _

/-! ### aliases, the pseudo-instruction pass, the first transform_compressible -/

theorem mapRegs_name (f : RegOp → RegOp) (ins : Instr) : (ins.mapRegs f).name = ins.name := by
  cases ins <;> rfl

theorem s4_cform {line : Line} {c : String} {ins cf : Instr} (h : compressedForm c ins = some cf) :
    S4 H constants K (.instr line cf) := by
  unfold S4 aliasItem
  exact s5_instr (Or.inl (by rw [mapRegs_name]; exact compressedForm_name h))

theorem s3_of_keep {x : Item} (hnl : NotLabel x) (hnp : ∀ l n a, x ≠ .pseudo l n a) (hsz : ∃ v, x.sizeE = .ok v)
    (h4 : S4 H constants K x) : S3 H constants K x := by
  refine ⟨hnl, fun p L _ => ⟨([x], 0), ?_, ?_⟩⟩
  · have hk := keepItem_of_size hsz
    cases x <;> first | (simpa [pseudoBody] using hk) | exact absurd rfl (hnp _ _ _)
  · intro y hy; simp only [List.mem_singleton] at hy; subst hy; exact h4

theorem s3_pseudo {line : Line} {name : String} {args : List String}
    (h : ∀ p L, KeysP K L → ∃ instrs short, expandPseudo H (chainGet constants L) line name args p = .ok (instrs, short) ∧
      ∀ i ∈ instrs, S4 H constants K (.instr line i)) : S3 H constants K (.pseudo line name args) := by
  refine ⟨(by intro l n e; cases e), fun p L hL => ?_⟩
  obtain ⟨instrs, short, he, hs⟩ := h p L hL
  refine ⟨(instrs.map (Item.instr line), if short then 4 else 0), ?_, ?_⟩
  · simp only [pseudoBody, he, bind, Except.bind, pure, Except.pure]
  · intro y hy
    obtain ⟨i, hi, rfl⟩ := List.mem_map.mp hy
    exact hs i hi

/-- a data / align item (neither instruction nor pseudo-instruction) goes through all four passes -/
theorem s2_plain {x : Item} (hnl : NotLabel x) (hni : ∀ l i, x ≠ .instr l i) (hnp : ∀ l n a, x ≠ .pseudo l n a)
    (hsz : ∃ v, x.sizeE = .ok v) (h6 : S6 K x) : S2 H constants K x := by
  have ha : aliasItem constants x = x := by cases x <;> first | rfl | exact absurd rfl (hni _ _)
  have h5 : S5 H constants K x := s5_of_keep hnl hni hsz h6
  have h4 : S4 H constants K x := by unfold S4; rw [ha]; exact h5
  have h3 : S3 H constants K x := s3_of_keep hnl hnp hsz h4
  refine ⟨hnl, fun p L _ => ⟨([x], 0), ?_, ?_⟩⟩
  · have hk := keepItem_of_size hsz
    cases x <;> first | (simpa [compressBody] using hk) | exact absurd rfl (hni _ _)
  · intro y hy; simp only [List.mem_singleton] at hy; subst hy; exact h3

/-- a source instruction (already aliased) -/
theorem s2_instr {line : Line} {ins : Instr} (hfix : ins.mapRegs (aliasReg constants) = ins)
    (h : PassOK H constants K line ins) : S2 H constants K (.instr line ins) := by
  have h4 : S4 H constants K (.instr line ins) := by unfold S4 aliasItem; simp only [hfix]; exact s5_instr h
  have h3 : S3 H constants K (.instr line ins) :=
    s3_of_keep (by intro l n e; cases e) (by intro l n a e; cases e) (instr_size line ins) h4
  refine ⟨(by intro l n e; cases e), fun p L hL => ?_⟩
  obtain ⟨r, hr⟩ := compressBody_pass_ok h p L hL
  refine ⟨r, hr, ?_⟩
  intro y hy
  rcases compressBody_instr_out hr with e | ⟨c, cf, hcf, e⟩ <;> rw [e] at hy <;>
    simp only [List.mem_singleton] at hy <;> subst hy
  · exact h3
  · exact s3_of_keep (by intro l n e; cases e) (by intro l n a e; cases e) (instr_size line cf) (s4_cform hcf)

/-- a pseudo-instruction -/
theorem s2_pseudo {line : Line} {name : String} {args : List String}
    (h : ∀ p L, KeysP K L → ∃ instrs short, expandPseudo H (chainGet constants L) line name args p = .ok (instrs, short) ∧
      ∀ i ∈ instrs, PassOK H constants K line (i.mapRegs (aliasReg constants))) :
    S2 H constants K (.pseudo line name args) := by
  have h3 : S3 H constants K (.pseudo line name args) := by
    apply s3_pseudo
    intro p L hL
    obtain ⟨instrs, short, he, hs⟩ := h p L hL
    exact ⟨instrs, short, he, fun i hi => by unfold S4 aliasItem; exact s5_instr (hs i hi)⟩
  refine ⟨(by intro l n e; cases e), fun p L _ => ⟨([.pseudo line name args], 0), ?_, ?_⟩⟩
  · simp [compressBody, keepItem, Item.sizeE, Item.size?, bind, Except.bind, pure, Except.pure]
  · intro y hy; simp only [List.mem_singleton] at hy; subst hy; exact h3

/-! ### the whole list -/

theorem mapM_alias_stage {G : List Item} (h : ∀ x ∈ G, S4 H constants K x) :
    ∀ y ∈ resolveRegisterAliases G constants, S5 H constants K y := by
  intro y hy
  unfold resolveRegisterAliases at hy
  obtain ⟨x, hx, rfl⟩ := List.mem_map.mp hy
  have := h x hx
  unfold S4 aliasItem at this
  cases x <;> exact this

/-- **if every item satisfies `S2`, the -c run goes through both compression passes, the
    pseudo-instruction pass and resolve_aligns** -/
theorem run1_layout_of_S2 (H : Hooks) (constants : Dict) (G : List Item) (labels2 : Dict)
    (h : ∀ x ∈ G, S2 H constants (labels2.map Prod.fst) x) :
    ∃ b3 lb3 b4 lb4 b6 lb6 b7 lb7,
      maybeCompress H true G constants labels2 = .ok (b3, lb3) ∧
      transformPseudo H b3 constants lb3 = .ok (b4, lb4) ∧
      maybeCompress H true (resolveRegisterAliases b4 constants) constants lb4 = .ok (b6, lb6) ∧
      resolveAligns b6 lb6 = .ok (b7, lb7) := by
  have hP := fun (L : Dict) (p n : Int) (hL : KeysP (labels2.map Prod.fst) L) => hL.shift L p n
  obtain ⟨b3, lb3, w3, k3, q3⟩ := walk_ok_stage (f := compressBody H constants) hP G h 0 labels2 rfl
  obtain ⟨b4, lb4, w4, k4, q4⟩ := walk_ok_stage (f := pseudoBody H constants) hP b3 q3 0 lb3 k3
  obtain ⟨b6, lb6, w6, k6, q6⟩ := walk_ok_stage (f := compressBody H constants) hP _ (mapM_alias_stage q4) 0 lb4 k4
  obtain ⟨b7, lb7, w7, _, _⟩ := walk_ok_stage (f := alignBody) (Q := fun _ => True) hP b6 q6 0 lb6 k6
  exact ⟨b3, lb3, b4, lb4, b6, lb6, b7, lb7, by simp [maybeCompress, transformCompressible, w3], w4,
    by simp [maybeCompress, transformCompressible, w6], w7⟩

end BB.Lemmas
