/-
  BB.Lemmas.SuccRun1 — `SrcOK` (what the program-level theorem asks of each source item) and
  `run1_layout`: if the plain run succeeds, the -c run goes through its two compression passes, the
  pseudo-instruction pass and resolve_aligns.
-/
import BB.Lemmas.SuccStage1
set_option linter.unusedSimpArgs false
set_option linter.unusedVariables false
namespace BB.Lemmas
open BB BB.Spec
open BB.Props.C03 (Land Finish)
open BB.Props.C04 (aliased_fixed mapRegs_idem')
open BB.Props.C05 (immTokens)
open BB.Props.C20 (GrowHyps)

/-- what is asked of one source item: an instruction is a 32-bit one in its own class whose immediate is
    label-free, or a branch / jal whose immediate is `%offset n` for a label `n` no constant shadows; data
    immediates are label-free; the target of a branch / jump / call / tail pseudo-instruction is a label
    no constant shadows -/
def SrcOK (H : Hooks) (constants : Dict) (names : List String) : Item → Prop
  | .instr _ ins => ins.wellKinded = true ∧ ins.isAuipcJump = false ∧
      ((∀ imm, ins.imm? = some imm → ImmLabelFree H constants imm) ∨
       ∃ n, n ∈ names ∧ constants.get n = none ∧ ins.imm? = some (.offset n) ∧
         ((∃ nm rs1 rs2 imm, ins = .b nm rs1 rs2 imm) ∨ (∃ nm rd imm, ins = .j nm rd imm)))
  | .pack _ _ imm => ImmLabelFree H constants imm
  | .shorthandPack _ _ imm => ImmLabelFree H constants imm
  | .pseudo _ name args => ∀ k r, pseudoKind name = some k → k ≠ .li → immTokens k args = some ["%offset", r] →
      r ∈ names ∧ constants.get r = none
  | _ => True

theorem mem_strip {G : List Item} {x : Item} (h : x ∈ strip G) : x ∈ G ∧ ∀ l n, x ≠ .label l n := by
  unfold strip at h
  obtain ⟨h1, h2⟩ := List.mem_filter.mp h
  refine ⟨h1, ?_⟩
  intro l n e
  subst e
  simp [Item.isLabel] at h2

theorem aliasItem_sizeE (constants : Dict) (x : Item) (h : ∃ v, x.sizeE = .ok v) : ∃ v, (aliasItem constants x).sizeE = .ok v := by
  cases x with
  | instr line ins => exact instr_size line _
  | _ => exact h

theorem run1_layout (H : Hooks) (items : List Item) (hyp : GrowHyps H items)
    (hlit : ∀ line p env, LitOK (evalAt H env line p)) (hneg : Neg1OK H)
    {items1 items2 a4 a7 out0 : List Item} {constants labels2 la4 la7 : Dict}
    (h1 : resolveConstants H items [] = .ok (items1, constants))
    (h2 : resolveLabels items1 [] = .ok (items2, labels2))
    (ha4 : transformPseudo H (resolveRegisterAliases items2 constants) constants labels2 = .ok (a4, la4))
    (ha7 : resolveAligns (resolveRegisterAliases a4 constants) la4 = .ok (a7, la7))
    (hland : Land H constants la7 0 a7 out0)
    (hsrc : ∀ x ∈ items, SrcOK H constants (labelNames items) x) :
    ∃ b3 lb3 b4 lb4 b6 lb6 b7 lb7,
      maybeCompress H true (resolveRegisterAliases items2 constants) constants labels2 = .ok (b3, lb3) ∧
      transformPseudo H b3 constants lb3 = .ok (b4, lb4) ∧
      maybeCompress H true (resolveRegisterAliases b4 constants) constants lb4 = .ok (b6, lb6) ∧
      resolveAligns b6 lb6 = .ok (b7, lb7) := by
  apply run1_layout_of_S2
  unfold transformPseudo at ha4
  unfold resolveAligns at ha7
  obtain ⟨c1, _, c3⟩ := BB.Props.C03.resolveConstants_spec H items [] items1 constants h1
  obtain ⟨l1, _, _, l4, _⟩ := resolveLabelsAux_spec items1 0 [] [] items2 labels2 h2
  have hsizes := resolveLabelsAux_sizes items1 0 [] [] items2 labels2 h2
  -- the labels of the program are keys of the table
  have hK : ∀ n, n ∈ labelNames items → n ∈ labels2.map Prod.fst := by
    intro n hn
    rw [← c1] at hn
    have hs := (labelPos_isSome_iff items1 0 n).mpr hn
    cases hu : labelPos items1 0 n with
    | none => simp [hu] at hs
    | some u =>
      rw [← get_isSome_iff_mem_keys, l4 n u hu]; rfl
  intro x hx
  unfold resolveRegisterAliases at hx
  obtain ⟨x0, hx0, rfl⟩ := List.mem_map.mp hx
  have hxa : aliasItem constants x0 ∈ resolveRegisterAliases items2 constants := mem_aliases_of_mem hx0
  rw [l1] at hx0
  obtain ⟨hx1, hnl⟩ := mem_strip hx0
  have hsrc0 := hsrc x0 (c3 x0 hx1)
  have hsz0 := hsizes x0 hx1
  cases x0 with
  | label l n => exact absurd rfl (hnl l n)
  | instr line ins =>
    simp only [SrcOK] at hsrc0
    obtain ⟨hwk, haj, himm⟩ := hsrc0
    show S2 H constants _ (aliasItem constants (.instr line ins))
    simp only [aliasItem] at hxa ⊢
    apply s2_instr (mapRegs_idem' constants ins)
    by_cases hb : (ins.mapRegs (aliasReg constants)).name ∈ baseNames
    swap
    · exact Or.inr (Or.inl hb)
    refine Or.inr (Or.inr ⟨by rw [wellKinded_mapRegs]; exact hwk, ?_, ?_⟩)
    · -- registers: the plain run encoded this very instruction
      have h7 := run0_keeps ha4 ha7 hxa (by intro l n e; cases e) (by intro l n a e; cases e) (by intro l a e; cases e)
      simp only [aliasItem, mapRegs_idem'] at h7
      exact (run0_instr_facts hland h7).2 (by rw [wellKinded_mapRegs]; exact hwk) hb
    · intro imm hi
      rw [mapRegs_imm] at hi
      rcases himm with hfree | ⟨n, hn, hc, hoff, _⟩
      · have h7 := run0_keeps ha4 ha7 hxa (by intro l n e; cases e) (by intro l n a e; cases e) (by intro l a e; cases e)
        simp only [aliasItem, mapRegs_idem'] at h7
        obtain ⟨q, v, hv⟩ := (run0_instr_facts hland h7).1 imm (by rw [mapRegs_imm]; exact hi)
        exact evalsOn_labelfree (hfree imm hi) hv
      · rw [hoff] at hi
        simp only [Option.some.injEq] at hi
        subst hi
        exact evalsOn_offset (Or.inr (hK n hn))
  | pseudo line name args =>
    simp only [SrcOK] at hsrc0
    show S2 H constants _ (.pseudo line name args)
    have hxa' : Item.pseudo line name args ∈ resolveRegisterAliases items2 constants := hxa
    obtain ⟨q, Lq, instrs0, short0, h0, hmem0⟩ := run0_expands ha4 ha7 hxa'
    have hmemI : Item.pseudo line name args ∈ items := c3 _ hx1
    have hli : pseudoKind name = some .li → ∀ imm, H.parseImm args.tail line = .ok imm → ImmLabelFree H constants imm :=
      fun hk imm hp => hyp.li items1 constants h1 line name args hmemI hk imm hp
    have htg : TargetsIn (labels2.map Prod.fst) name args := fun k r hk hkli ht => hK r (hsrc0 k r hk hkli ht).1
    have hct : ∀ r, (pseudoKind name = some .call ∨ pseudoKind name = some .tail) → args = [r] → constants.get r = none :=
      fun r hk ha => hyp.calls items1 constants h1 line name args r hmemI hk ha
    apply s2_pseudo
    intro p L hL
    obtain ⟨instrs, short, he, hsame⟩ := expand_any hyp.offset h0 hli htg hct p L hL.defined
    refine ⟨instrs, short, he, ?_⟩
    intro i hi
    by_cases hb : (i.mapRegs (aliasReg constants)).name ∈ baseNames
    swap
    · exact Or.inr (Or.inl hb)
    have he' := he
    unfold expandPseudo at he'
    cases hk : pseudoKind name with
    | none => simp [hk] at he'
    | some k =>
      simp only [hk] at he'
      have hwk : (i.mapRegs (aliasReg constants)).wellKinded = true := by
        rw [wellKinded_mapRegs]; exact expandKind_wellKinded hk he' i hi
      refine Or.inr (Or.inr ⟨hwk, ?_, ?_⟩)
      · by_cases hcall : k = .call ∨ k = .tail
        · -- x0, x1, x6 only
          intro f x hf
          rw [mapRegs_fld] at hf
          obtain ⟨imm, _, hdoc⟩ := BB.Props.C05.expand_matches_doc H _ line p he'
          cases hfi : i.fld f with
          | none => simp [hfi] at hf
          | some x1 =>
            simp only [hfi, Option.map_some, Option.some.injEq] at hf
            subst hf
            rcases expansion_regs hdoc i hi f x1 hfi with rfl | rfl | rfl | ⟨a, ha, _⟩
            · exact alias_fixed_regs h1 (Or.inl rfl)
            · exact alias_fixed_regs h1 (Or.inr (Or.inl rfl))
            · exact alias_fixed_regs h1 (Or.inr (Or.inr rfl))
            · rcases hcall with rfl | rfl <;> simp [regArgs] at ha
        · have hne : pseudoKind name ≠ some .call ∧ pseudoKind name ≠ some .tail := by
            rw [hk]
            exact ⟨fun e => hcall (Or.inl (by injection e)), fun e => hcall (Or.inr (by injection e))⟩
          have hi0 : i ∈ instrs0 := by rw [← hsame hne]; exact hi
          exact (run0_instr_facts hland (hmem0 i hi0)).2 hwk hb
      · intro imm himm
        rw [mapRegs_imm] at himm
        exact expansion_evalsOn hyp.offset hlit hneg hk hli htg he' i hi imm himm
  | align l a =>
    show S2 H constants _ (.align l a)
    exact s2_plain hnl (by intro l i e; cases e) (by intro l n a e; cases e) hsz0
      (s6_align (hyp.aligns l a (c3 _ hx1)))
  | constant l n e =>
    exact s2_plain hnl (by intro l i e; cases e) (by intro l n a e; cases e) hsz0
      (s6_keep hnl (by intro l a e; cases e) hsz0)
  | includeBytes l pth sz =>
    exact s2_plain hnl (by intro l i e; cases e) (by intro l n a e; cases e) hsz0
      (s6_keep hnl (by intro l a e; cases e) hsz0)
  | string l v =>
    exact s2_plain hnl (by intro l i e; cases e) (by intro l n a e; cases e) hsz0
      (s6_keep hnl (by intro l a e; cases e) hsz0)
  | sequence l nm vs =>
    exact s2_plain hnl (by intro l i e; cases e) (by intro l n a e; cases e) hsz0
      (s6_keep hnl (by intro l a e; cases e) hsz0)
  | pack l fmt imm =>
    exact s2_plain hnl (by intro l i e; cases e) (by intro l n a e; cases e) hsz0
      (s6_keep hnl (by intro l a e; cases e) hsz0)
  | shorthandPack l nm imm =>
    exact s2_plain hnl (by intro l i e; cases e) (by intro l n a e; cases e) hsz0
      (s6_keep hnl (by intro l a e; cases e) hsz0)
  | blob l d =>
    exact s2_plain hnl (by intro l i e; cases e) (by intro l n a e; cases e) hsz0
      (s6_keep hnl (by intro l a e; cases e) hsz0)

end BB.Lemmas
