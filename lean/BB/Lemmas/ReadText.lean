/-
  BB.Lemmas.ReadText — source texts inside the model: an ASCII text always is (`sourceOk_of_ascii`),
  so the theorems stated for ASCII sources keep their hypotheses after the reader stopped refusing
  non-ASCII text outright.
-/
import BB.Read
namespace BB

/-- every character of a line `splitlines()` produces is a character of the text -/
theorem splitLinesAux_mem (s cur : List Char) :
    ∀ raw ∈ splitLinesAux s cur, ∀ c ∈ raw, c ∈ s ∨ c ∈ cur := by
  fun_induction splitLinesAux s cur
  all_goals intro raw hraw c hc
  · simp at hraw
  · simp only [List.mem_cons, List.not_mem_nil, or_false] at hraw
    subst hraw; right; simpa using hc
  · rename_i rest cur ih
    rcases List.mem_cons.mp hraw with h | h
    · subst h; right; simpa using hc
    · rcases ih raw h c hc with h | h
      · left; simp [h]
      · simp at h
  · rename_i c' rest cur _ _ ih
    rcases List.mem_cons.mp hraw with h | h
    · subst h; right; simpa using hc
    · rcases ih raw h c hc with h | h
      · left; simp [h]
      · simp at h
  · rename_i c' rest cur _ _ ih
    rcases ih raw hraw c hc with h | h
    · left; simp [h]
    · rcases List.mem_cons.mp h with h | h
      · left; simp [h]
      · right; exact h

theorem splitLines_mem (s : List Char) : ∀ raw ∈ splitLines s, ∀ c ∈ raw, c ∈ s := by
  intro raw hraw c hc
  rcases splitLinesAux_mem s [] raw hraw c hc with h | h
  · exact h
  · simp at h

/-- an ASCII text is inside the model -/
theorem sourceOk_of_ascii (text : List Char) (h : text.all (fun c => c.toNat < 128) = true) :
    sourceOk text = true := by
  unfold sourceOk
  rw [List.all_eq_true]
  intro raw hraw
  unfold includeLineOk
  split
  · rw [List.all_eq_true]
    intro c hc
    exact (List.all_eq_true.mp h) c (splitLines_mem text raw hraw c hc)
  · rfl

end BB
