/-
  BB.Lemmas.Inv32 — inversion of the 32-bit encoder calls: if `encX … args = .ok w` then the
  arguments have the expected shape, the registers resolve, the immediate is in range, and the
  word's fields are the operands.
-/
import BB.Lemmas.Dec32
namespace BB.Lemmas
open BB BB.Spec

theorem lookR_ok {x : RegOp} {n : Nat} : lookR x = .ok n ↔ lookupRegister x = some n := by
  unfold lookR; split <;> simp_all

theorem lookR_err {x : RegOp} {e : EncErr} : lookR x = .error e → lookupRegister x = none := by
  unfold lookR; split <;> simp_all

theorem regByInt_lt {i : Int} {n : Nat} (h : regByInt i = some n) : n < 32 := by
  unfold regByInt at h
  split at h
  · simp only [Option.some.injEq] at h; omega
  · simp at h

theorem lookup_mem {α β} [BEq α] [LawfulBEq α] {k : α} {v : β} {l : List (α × β)}
    (h : l.lookup k = some v) : (k, v) ∈ l := by
  induction l with
  | nil => simp [List.lookup] at h
  | cons e t ih =>
    obtain ⟨k', v'⟩ := e
    simp only [List.lookup] at h
    split at h
    · rename_i heq
      simp only [Option.some.injEq] at h
      have : k = k' := by simpa using heq
      subst this; subst h; exact List.mem_cons_self
    · exact List.mem_cons_of_mem _ (ih h)

theorem regNames_lt : ∀ e ∈ regNames, e.2 < 32 := by decide

theorem lookupRegister_lt {x : RegOp} {n : Nat} (h : lookupRegister x = some n) : n < 32 := by
  unfold lookupRegister at h
  cases x with
  | int i => exact regByInt_lt h
  | str s =>
    simp only at h
    split at h
    · exact regByInt_lt h
    · unfold regByName at h
      have hm : (s, n) ∈ regNames := lookup_mem h
      exact regNames_lt _ hm

theorem ofOpt_ok {o : Option Nat} {w : Nat} : ofOpt o = .ok w ↔ o = some w := by
  unfold ofOpt; split <;> simp_all

theorem intOrParse_ok {x : RegOp} {i : Int} :
    intOrParse x = .ok i ↔ (match x with | .int j => j = i | .str s => pyInt0 s.toList = some i) := by
  unfold intOrParse
  cases x with
  | int j => simp
  | str s => simp only; split <;> simp_all

/-! ### R -/
theorem r_inv {op f3 f7 : Nat} (hop : op < 128) (hf3 : f3 < 8) (hf7 : f7 < 128) {args : List Arg} {w : Nat}
    (h : encR op f3 f7 args = .ok w) :
    ∃ a b c rd rs1 rs2, args = [.r a, .r b, .r c] ∧ lookupRegister a = some rd ∧
      lookupRegister b = some rs1 ∧ lookupRegister c = some rs2 ∧ rd < 32 ∧ rs1 < 32 ∧ rs2 < 32 ∧
      w < 2 ^ 32 ∧ bits w 0 7 = op ∧ bits w 7 5 = rd ∧ bits w 12 3 = f3 ∧ bits w 15 5 = rs1 ∧
      bits w 20 5 = rs2 ∧ bits w 25 7 = f7 := by
  unfold encR at h
  split at h
  · rename_i a b c
    cases ha : lookR a with
    | error e => simp [ha, bind, Except.bind] at h
    | ok rd =>
    cases hb : lookR b with
    | error e => simp [ha, hb, bind, Except.bind] at h
    | ok rs1 =>
    cases hc : lookR c with
    | error e => simp [ha, hb, hc, bind, Except.bind] at h
    | ok rs2 =>
    simp only [ha, hb, hc, bind, Except.bind, pure, Except.pure, Except.ok.injEq] at h
    have h1 := lookupRegister_lt (lookR_ok.mp ha)
    have h2 := lookupRegister_lt (lookR_ok.mp hb)
    have h3 := lookupRegister_lt (lookR_ok.mp hc)
    rw [rTypeN_eq _ _ _ _ _ _ h1 h2 h3 hop hf3] at h
    subst h
    exact ⟨a, b, c, rd, rs1, rs2, rfl, lookR_ok.mp ha, lookR_ok.mp hb, lookR_ok.mp hc, h1, h2, h3,
      slots6 op rd f3 rs1 rs2 f7 hop h1 hf3 h2 h3 hf7⟩
  · simp at h

/-! ### I / IJ -/
theorem i_inv {op f3 : Nat} (hop : op < 128) (hf3 : f3 < 8) {args : List Arg} {w : Nat}
    (h : encI op f3 args = .ok w) :
    ∃ a b imm rd rs1, args = [.r a, .r b, .i imm] ∧ lookupRegister a = some rd ∧
      lookupRegister b = some rs1 ∧ rd < 32 ∧ rs1 < 32 ∧ -2048 ≤ imm ∧ imm ≤ 2047 ∧
      w < 2 ^ 32 ∧ bits w 0 7 = op ∧ bits w 7 5 = rd ∧ bits w 12 3 = f3 ∧ bits w 15 5 = rs1 ∧
      bits w 20 12 = (imm % 4096).toNat ∧ bits w 20 5 = (imm % 4096).toNat % 32 ∧
      bits w 25 7 = (imm % 4096).toNat / 32 ∧ immI w = imm := by
  unfold encI at h
  split at h
  · rename_i a b imm
    cases ha : lookR a with
    | error e => simp [ha, bind, Except.bind] at h
    | ok rd =>
    cases hb : lookR b with
    | error e => simp [ha, hb, bind, Except.bind] at h
    | ok rs1 =>
    simp only [ha, hb, bind, Except.bind] at h
    have h1 := lookupRegister_lt (lookR_ok.mp ha)
    have h2 := lookupRegister_lt (lookR_ok.mp hb)
    rw [ofOpt_ok, iTypeN_eq _ _ _ _ _ h1 h2 hop hf3] at h
    split at h
    · simp at h
    · rename_i hr
      simp only [Option.some.injEq] at h
      have hu : (imm % 4096).toNat < 4096 := by omega
      obtain ⟨s0, s1, s2, s3, s4, s5, s6, s7⟩ := slots5 op rd f3 rs1 _ hop h1 hf3 h2 hu
      rw [h] at s0 s1 s2 s3 s4 s5 s6 s7
      refine ⟨a, b, imm, rd, rs1, rfl, lookR_ok.mp ha, lookR_ok.mp hb, h1, h2, by omega, by omega,
        s0, s1, s2, s3, s4, s5, s6, s7, ?_⟩
      unfold immI; rw [s5]; exact sext12 imm (by omega)
  · simp at h

theorem ij_inv {op f3 : Nat} (hop : op < 128) (hf3 : f3 < 8) {args : List Arg} {w : Nat}
    (h : encIj op f3 args = .ok w) :
    ∃ a b imm rd rs1, args = [.r a, .r b, .i imm] ∧ lookupRegister a = some rd ∧
      lookupRegister b = some rs1 ∧ rd < 32 ∧ rs1 < 32 ∧ -2048 ≤ imm ∧ imm ≤ 2047 ∧ imm % 2 = 0 ∧
      w < 2 ^ 32 ∧ bits w 0 7 = op ∧ bits w 7 5 = rd ∧ bits w 12 3 = f3 ∧ bits w 15 5 = rs1 ∧
      immI w = imm := by
  unfold encIj at h
  split at h
  · rename_i a b imm
    cases ha : lookR a with
    | error e => simp [ha, bind, Except.bind] at h
    | ok rd =>
    cases hb : lookR b with
    | error e => simp [ha, hb, bind, Except.bind] at h
    | ok rs1 =>
    simp only [ha, hb, bind, Except.bind] at h
    have h1 := lookupRegister_lt (lookR_ok.mp ha)
    have h2 := lookupRegister_lt (lookR_ok.mp hb)
    rw [ofOpt_ok, ijTypeN_eq _ _ _ _ _ h1 h2 hop hf3] at h
    split at h
    · simp at h
    · split at h
      · simp at h
      · rename_i hr he
        simp only [Option.some.injEq] at h
        have hu : (imm % 4096).toNat < 4096 := by omega
        obtain ⟨s0, s1, s2, s3, s4, s5, _, _⟩ := slots5 op rd f3 rs1 _ hop h1 hf3 h2 hu
        rw [h] at s0 s1 s2 s3 s4 s5
        refine ⟨a, b, imm, rd, rs1, rfl, lookR_ok.mp ha, lookR_ok.mp hb, h1, h2, by omega, by omega,
          by omega, s0, s1, s2, s3, s4, ?_⟩
        unfold immI; rw [s5]; exact sext12 imm (by omega)
  · simp at h

/-! ### S -/
theorem s_inv {op f3 : Nat} (hop : op < 128) (hf3 : f3 < 8) {args : List Arg} {w : Nat}
    (h : encS op f3 args = .ok w) :
    ∃ a b imm rs1 rs2, args = [.r a, .r b, .i imm] ∧ lookupRegister a = some rs1 ∧
      lookupRegister b = some rs2 ∧ rs1 < 32 ∧ rs2 < 32 ∧ -2048 ≤ imm ∧ imm ≤ 2047 ∧
      w < 2 ^ 32 ∧ bits w 0 7 = op ∧ bits w 12 3 = f3 ∧ bits w 15 5 = rs1 ∧ bits w 20 5 = rs2 ∧
      immS w = imm := by
  unfold encS at h
  split at h
  · rename_i a b imm
    cases ha : lookR a with
    | error e => simp [ha, bind, Except.bind] at h
    | ok rs1 =>
    cases hb : lookR b with
    | error e => simp [ha, hb, bind, Except.bind] at h
    | ok rs2 =>
    simp only [ha, hb, bind, Except.bind] at h
    have h1 := lookupRegister_lt (lookR_ok.mp ha)
    have h2 := lookupRegister_lt (lookR_ok.mp hb)
    rw [ofOpt_ok, sTypeN_eq _ _ _ _ _ h1 h2 hop hf3] at h
    split at h
    · simp at h
    · rename_i hr
      simp only [Option.some.injEq] at h
      have hlo : (imm % 4096).toNat % 32 < 32 := by omega
      have hhi : (imm % 4096).toNat / 32 % 128 < 128 := by omega
      obtain ⟨s0, s1, _, s3, s4, s5, _⟩ := slots6 op _ f3 rs1 rs2 _ hop hlo hf3 h1 h2 hhi
      have sS := slotsS op _ f3 rs1 rs2 _ hop hlo hf3 h1 h2 hhi
      rw [h] at s0 s1 s3 s4 s5 sS
      refine ⟨a, b, imm, rs1, rs2, rfl, lookR_ok.mp ha, lookR_ok.mp hb, h1, h2, by omega, by omega,
        s0, s1, s3, s4, s5, ?_⟩
      unfold immS; rw [sS]; exact sext12_split imm (by omega)
  · simp at h

/-! ### B -/
theorem b_inv {op f3 : Nat} (hop : op < 128) (hf3 : f3 < 8) {args : List Arg} {w : Nat}
    (h : encB op f3 args = .ok w) :
    ∃ a b imm rs1 rs2, args = [.r a, .r b, .i imm] ∧ lookupRegister a = some rs1 ∧
      lookupRegister b = some rs2 ∧ rs1 < 32 ∧ rs2 < 32 ∧ -4096 ≤ imm ∧ imm ≤ 4095 ∧ imm % 2 = 0 ∧
      w < 2 ^ 32 ∧ bits w 0 7 = op ∧ bits w 12 3 = f3 ∧ bits w 15 5 = rs1 ∧ bits w 20 5 = rs2 ∧
      immB w = imm := by
  unfold encB at h
  split at h
  · rename_i a b imm
    cases ha : lookR a with
    | error e => simp [ha, bind, Except.bind] at h
    | ok rs1 =>
    cases hb : lookR b with
    | error e => simp [ha, hb, bind, Except.bind] at h
    | ok rs2 =>
    simp only [ha, hb, bind, Except.bind] at h
    have h1 := lookupRegister_lt (lookR_ok.mp ha)
    have h2 := lookupRegister_lt (lookR_ok.mp hb)
    rw [ofOpt_ok, bTypeN_eq _ _ _ _ _ h1 h2 hop hf3] at h
    split at h
    · simp at h
    · split at h
      · simp at h
      · rename_i hr he
        simp only [Option.some.injEq] at h
        generalize hu : ((imm / 2) % 4096).toNat = u at h
        have hub : u < 4096 := by omega
        obtain ⟨s0, s1, s2, s3, s4, s5, s6, s7, s8⟩ :=
          slotsB op (u / 1024 % 2) (u % 16) f3 rs1 rs2 (u / 16 % 64) (u / 2048 % 2) hop (by omega)
            (by omega) hf3 h1 h2 (by omega) (by omega)
        rw [h] at s0 s1 s2 s3 s4 s5 s6 s7 s8
        refine ⟨a, b, imm, rs1, rs2, rfl, lookR_ok.mp ha, lookR_ok.mp hb, h1, h2, by omega, by omega,
          by omega, s0, s1, s2, s3, s4, ?_⟩
        unfold immB; rw [s5, s6, s7, s8, ← hu]
        exact sext13_b imm (by omega) (by omega)
  · simp at h

/-! ### U -/
theorem u_inv {op : Nat} (hop : op < 128) {args : List Arg} {w : Nat}
    (h : encU op args = .ok w) :
    ∃ a imm rd, args = [.r a, .i imm] ∧ lookupRegister a = some rd ∧ rd < 32 ∧
      -524288 ≤ imm ∧ imm ≤ 1048575 ∧
      w < 2 ^ 32 ∧ bits w 0 7 = op ∧ bits w 7 5 = rd ∧ bits w 12 20 = (imm % 1048576).toNat := by
  unfold encU at h
  split at h
  · rename_i a imm
    cases ha : lookR a with
    | error e => simp [ha, bind, Except.bind] at h
    | ok rd =>
    simp only [ha, bind, Except.bind] at h
    have h1 := lookupRegister_lt (lookR_ok.mp ha)
    rw [ofOpt_ok, uTypeN_eq _ _ _ h1 hop] at h
    split at h
    · simp at h
    · rename_i hr
      simp only [Option.some.injEq] at h
      have hu : (imm % 1048576).toNat < 1048576 := by omega
      obtain ⟨s0, s1, s2, s3, _⟩ := slots3 op rd _ hop h1 hu
      rw [h] at s0 s1 s2 s3
      exact ⟨a, imm, rd, rfl, lookR_ok.mp ha, h1, by omega, by omega, s0, s1, s2, s3⟩
  · simp at h

/-! ### J -/
theorem j_inv {op : Nat} (hop : op < 128) {args : List Arg} {w : Nat}
    (h : encJ op args = .ok w) :
    ∃ a imm rd, args = [.r a, .i imm] ∧ lookupRegister a = some rd ∧ rd < 32 ∧
      -1048576 ≤ imm ∧ imm ≤ 1048575 ∧ imm % 2 = 0 ∧
      w < 2 ^ 32 ∧ bits w 0 7 = op ∧ bits w 7 5 = rd ∧ immJ w = imm := by
  unfold encJ at h
  split at h
  · rename_i a imm
    cases ha : lookR a with
    | error e => simp [ha, bind, Except.bind] at h
    | ok rd =>
    simp only [ha, bind, Except.bind] at h
    have h1 := lookupRegister_lt (lookR_ok.mp ha)
    rw [ofOpt_ok, jTypeN_eq _ _ _ h1 hop] at h
    split at h
    · simp at h
    · split at h
      · simp at h
      · rename_i hr he
        simp only [Option.some.injEq] at h
        generalize hu : ((imm / 2) % 1048576).toNat = u at h
        have hub : u < 1048576 := by omega
        obtain ⟨s0, s1, s2, s3, s4, s5, s6⟩ :=
          slotsJ op rd (u / 2048 % 256) (u / 1024 % 2) (u % 1024) (u / 524288 % 2) hop h1 (by omega)
            (by omega) (by omega) (by omega)
        rw [h] at s0 s1 s2 s3 s4 s5 s6
        refine ⟨a, imm, rd, rfl, lookR_ok.mp ha, h1, by omega, by omega, by omega, s0, s1, s2, ?_⟩
        unfold immJ; rw [s3, s4, s5, s6, ← hu]
        exact sext21_j imm (by omega) (by omega)
  · simp at h

/-! ### IE (ecall / ebreak / fence.i) -/
theorem ie_inv {op f3 imm : Nat} (hop : op < 128) (hf3 : f3 < 8) (himm : imm < 2048)
    {args : List Arg} {w : Nat} (h : encIe op f3 imm args = .ok w) :
    args = [] ∧ w < 2 ^ 32 ∧ bits w 0 7 = op ∧ bits w 7 5 = 0 ∧ bits w 12 3 = f3 ∧ bits w 15 5 = 0 ∧
      bits w 20 12 = imm := by
  unfold encIe at h
  split at h
  · rw [ofOpt_ok, iTypeN_eq _ _ _ _ _ (by omega) (by omega) hop hf3] at h
    split at h
    · rename_i hr; simp only [Int.ofNat_eq_natCast] at hr; omega
    · simp only [Option.some.injEq, Int.ofNat_eq_natCast] at h
      have hu : ((imm : Int) % 4096).toNat = imm := by omega
      rw [hu] at h
      obtain ⟨s0, s1, s2, s3, s4, s5, _, _⟩ := slots5 op 0 f3 0 imm hop (by omega) hf3 (by omega) (by omega)
      rw [h] at s0 s1 s2 s3 s4 s5
      exact ⟨rfl, s0, s1, s2, s3, s4, s5⟩
  · simp at h

/-! ### FENCE -/
theorem fenceN_eq (succ pred : Int) (op f3 : Nat) (hop : op < 128) (hf3 : f3 < 8) :
    fenceN succ pred op f3 0 0 0 =
      if succ < 0 ∨ succ > 15 then none else if pred < 0 ∨ pred > 15 then none
      else some (op + 0 * 128 + f3 * 4096 + 0 * 32768 + (pred.toNat * 16 + succ.toNat) * 1048576) := by
  unfold fenceN
  split
  · rfl
  · split
    · rfl
    · rename_i hs hp
      have h1 : (0 <<< 8 ||| pred.toNat <<< 4 ||| succ.toNat) = pred.toNat * 16 + succ.toNat := by
        rw [Nat.zero_shiftLeft, Nat.zero_or, ← Nat.shiftLeft_add_eq_or_of_lt (by omega), Nat.shiftLeft_eq]
      rw [h1, iTypeN_eq _ _ _ _ _ (by omega) (by omega) hop hf3]
      simp only [Int.ofNat_eq_natCast]
      rw [if_neg (by omega)]
      have hu : (((pred.toNat * 16 + succ.toNat : Nat) : Int) % 4096).toNat = pred.toNat * 16 + succ.toNat := by
        omega
      rw [hu]

theorem fence_inv {op f3 : Nat} (hop : op < 128) (hf3 : f3 < 8) {args : List Arg} {w : Nat}
    (h : encFence op f3 args = .ok w) :
    ∃ a b succ pred, args = [.r a, .r b] ∧ intOrParse a = .ok succ ∧ intOrParse b = .ok pred ∧
      0 ≤ succ ∧ succ ≤ 15 ∧ 0 ≤ pred ∧ pred ≤ 15 ∧
      w < 2 ^ 32 ∧ bits w 0 7 = op ∧ bits w 7 5 = 0 ∧ bits w 12 3 = f3 ∧ bits w 15 5 = 0 ∧
      bits w 20 4 = succ.toNat ∧ bits w 24 4 = pred.toNat ∧ bits w 28 4 = 0 := by
  unfold encFence at h
  split at h
  · rename_i a b
    cases ha : intOrParse a with
    | error e => simp [ha, bind, Except.bind] at h
    | ok succ =>
    cases hb : intOrParse b with
    | error e => simp [ha, hb, bind, Except.bind] at h
    | ok pred =>
    simp only [ha, hb, bind, Except.bind] at h
    rw [ofOpt_ok, fenceN_eq _ _ _ _ hop hf3] at h
    split at h
    · simp at h
    · split at h
      · simp at h
      · rename_i hs hp
        simp only [Option.some.injEq] at h
        generalize hsn : succ.toNat = sn at h
        generalize hpn : pred.toNat = pn at h
        have h1 : sn < 16 := by omega
        have h2 : pn < 16 := by omega
        obtain ⟨s0, s1, s2, s3, s4, _, _, _⟩ := slots5 op 0 f3 0 (pn * 16 + sn) hop (by omega) hf3 (by omega) (by omega)
        have hx : bits w 20 4 = sn ∧ bits w 24 4 = pn ∧ bits w 28 4 = 0 := by
          rw [← h]; simp only [bits, Nat.reducePow]; omega
        rw [h] at s0 s1 s2 s3 s4
        subst hsn hpn
        exact ⟨a, b, succ, pred, rfl, ha, hb, by omega, by omega, by omega, by omega, s0, s1, s2, s3, s4, hx⟩
  · simp at h

/-! ### A / AL -/
theorem f7_eq (f5 a b : Nat) (ha : a < 2) (hb : b < 2) :
    (f5 <<< 2 ||| a <<< 1 ||| b) = f5 * 4 + a * 2 + b := by
  have e1 : f5 <<< 2 ||| a <<< 1 = (f5 * 2 + a) <<< 1 := by
    rw [← Nat.shiftLeft_add_eq_or_of_lt (by rw [Nat.shiftLeft_eq]; omega)]
    simp only [Nat.shiftLeft_eq]; omega
  rw [e1, ← Nat.shiftLeft_add_eq_or_of_lt (by omega), Nat.shiftLeft_eq]; omega

theorem aTypeN_eq (rd rs1 rs2 op f3 f5 : Nat) (aq rl : Int) (h1 : rd < 32) (h2 : rs1 < 32) (h3 : rs2 < 32)
    (hop : op < 128) (hf3 : f3 < 8) (haq : aq = 0 ∨ aq = 1) (hrl : rl = 0 ∨ rl = 1) :
    aTypeN rd rs1 rs2 op f3 f5 aq rl =
      some (op + rd * 128 + f3 * 4096 + rs1 * 32768 + rs2 * 1048576
            + (f5 * 4 + aq.toNat * 2 + rl.toNat) * 33554432) := by
  unfold aTypeN
  rw [if_neg (fun hn => hn haq), if_neg (fun hn => hn hrl)]
  simp only
  rw [f7_eq _ _ _ (by omega) (by omega), rTypeN_eq _ _ _ _ _ _ h1 h2 h3 hop hf3]

theorem a_inv {op f3 f5 : Nat} (hop : op < 128) (hf3 : f3 < 8) (hf5 : f5 < 32) {args : List Arg} {w : Nat}
    (h : encA op f3 f5 args = .ok w) :
    ∃ a b c qa ql rd rs1 rs2 aq rl, args = [.r a, .r b, .r c, .r qa, .r ql] ∧
      lookupRegister a = some rd ∧ lookupRegister b = some rs1 ∧ lookupRegister c = some rs2 ∧
      intOrParse qa = .ok aq ∧ intOrParse ql = .ok rl ∧ rd < 32 ∧ rs1 < 32 ∧ rs2 < 32 ∧
      (aq = 0 ∨ aq = 1) ∧ (rl = 0 ∨ rl = 1) ∧
      w < 2 ^ 32 ∧ bits w 0 7 = op ∧ bits w 7 5 = rd ∧ bits w 12 3 = f3 ∧ bits w 15 5 = rs1 ∧
      bits w 20 5 = rs2 ∧ bits w 27 5 = f5 ∧ bits w 26 1 = aq.toNat ∧ bits w 25 1 = rl.toNat := by
  unfold encA at h
  split at h
  · rename_i a b c qa ql
    cases hqa : intOrParse qa with
    | error e => simp [hqa, bind, Except.bind] at h
    | ok aq =>
    cases hql : intOrParse ql with
    | error e => simp [hqa, hql, bind, Except.bind] at h
    | ok rl =>
    simp only [hqa, hql, bind, Except.bind] at h
    by_cases haq : aq = 0 ∨ aq = 1
    · by_cases hrl : rl = 0 ∨ rl = 1
      · simp only [haq, hrl, not_true_eq_false, ↓reduceIte] at h
        cases ha : lookR a with
        | error e => simp [ha] at h
        | ok rd =>
        cases hb : lookR b with
        | error e => simp [ha, hb] at h
        | ok rs1 =>
        cases hc : lookR c with
        | error e => simp [ha, hb, hc] at h
        | ok rs2 =>
        simp only [ha, hb, hc] at h
        have h1 := lookupRegister_lt (lookR_ok.mp ha)
        have h2 := lookupRegister_lt (lookR_ok.mp hb)
        have h3 := lookupRegister_lt (lookR_ok.mp hc)
        rw [ofOpt_ok, aTypeN_eq _ _ _ _ _ _ _ _ h1 h2 h3 hop hf3 haq hrl] at h
        simp only [Option.some.injEq] at h
        generalize hqn : aq.toNat = qn at h
        generalize hln : rl.toNat = ln at h
        have hq2 : qn < 2 := by omega
        have hl2 : ln < 2 := by omega
        obtain ⟨s0, s1, s2, s3, s4, s5, _⟩ :=
          slots6 op rd f3 rs1 rs2 (f5 * 4 + qn * 2 + ln) hop h1 hf3 h2 h3 (by omega)
        have hx : bits w 27 5 = f5 ∧ bits w 26 1 = qn ∧ bits w 25 1 = ln := by
          rw [← h]; simp only [bits, Nat.reducePow]; omega
        rw [h] at s0 s1 s2 s3 s4 s5
        subst hqn hln
        exact ⟨a, b, c, qa, ql, rd, rs1, rs2, aq, rl, rfl, lookR_ok.mp ha, lookR_ok.mp hb, lookR_ok.mp hc,
          hqa, hql, h1, h2, h3, haq, hrl, s0, s1, s2, s3, s4, s5, hx⟩
      · simp [haq, hrl, throw, throwThe, MonadExceptOf.throw] at h
    · simp [haq, throw, throwThe, MonadExceptOf.throw] at h
  · simp at h

theorem al_inv {op f3 f5 : Nat} (hop : op < 128) (hf3 : f3 < 8) (hf5 : f5 < 32) {args : List Arg} {w : Nat}
    (h : encAl op f3 f5 args = .ok w) :
    ∃ a b qa ql rd rs1 aq rl, args = [.r a, .r b, .r qa, .r ql] ∧
      lookupRegister a = some rd ∧ lookupRegister b = some rs1 ∧
      intOrParse qa = .ok aq ∧ intOrParse ql = .ok rl ∧ rd < 32 ∧ rs1 < 32 ∧
      (aq = 0 ∨ aq = 1) ∧ (rl = 0 ∨ rl = 1) ∧
      w < 2 ^ 32 ∧ bits w 0 7 = op ∧ bits w 7 5 = rd ∧ bits w 12 3 = f3 ∧ bits w 15 5 = rs1 ∧
      bits w 20 5 = 0 ∧ bits w 27 5 = f5 ∧ bits w 26 1 = aq.toNat ∧ bits w 25 1 = rl.toNat := by
  unfold encAl at h
  split at h
  · rename_i a b qa ql
    cases hqa : intOrParse qa with
    | error e => simp [hqa, bind, Except.bind] at h
    | ok aq =>
    cases hql : intOrParse ql with
    | error e => simp [hqa, hql, bind, Except.bind] at h
    | ok rl =>
    simp only [hqa, hql, bind, Except.bind] at h
    by_cases haq : aq = 0 ∨ aq = 1
    · by_cases hrl : rl = 0 ∨ rl = 1
      · simp only [haq, hrl, not_true_eq_false, ↓reduceIte] at h
        cases ha : lookR a with
        | error e => simp [ha] at h
        | ok rd =>
        cases hb : lookR b with
        | error e => simp [ha, hb] at h
        | ok rs1 =>
        simp only [ha, hb] at h
        have h1 := lookupRegister_lt (lookR_ok.mp ha)
        have h2 := lookupRegister_lt (lookR_ok.mp hb)
        rw [ofOpt_ok, aTypeN_eq _ _ _ _ _ _ _ _ h1 h2 (by omega) hop hf3 haq hrl] at h
        simp only [Option.some.injEq] at h
        generalize hqn : aq.toNat = qn at h
        generalize hln : rl.toNat = ln at h
        have hq2 : qn < 2 := by omega
        have hl2 : ln < 2 := by omega
        obtain ⟨s0, s1, s2, s3, s4, s5, _⟩ :=
          slots6 op rd f3 rs1 0 (f5 * 4 + qn * 2 + ln) hop h1 hf3 h2 (by omega) (by omega)
        have hx : bits w 27 5 = f5 ∧ bits w 26 1 = qn ∧ bits w 25 1 = ln := by
          rw [← h]; simp only [bits, Nat.reducePow]; omega
        rw [h] at s0 s1 s2 s3 s4 s5
        subst hqn hln
        exact ⟨a, b, qa, ql, rd, rs1, aq, rl, rfl, lookR_ok.mp ha, lookR_ok.mp hb,
          hqa, hql, h1, h2, haq, hrl, s0, s1, s2, s3, s4, s5, hx⟩
      · simp [haq, hrl, throw, throwThe, MonadExceptOf.throw] at h
    · simp [haq, throw, throwThe, MonadExceptOf.throw] at h
  · simp at h

end BB.Lemmas
