/-
  BB.Lemmas.FrontLex — lemmas about the ordinary path of the lexer model.

  `BB.plainTokens` (the scanner that keeps quoted characters whole) equals `BB.plainTokensOld`
  (strip the comment, pad parentheses, split) on every line that has no apostrophe in front of its
  comment (`plainTokens_eq_old`); the rest of the file is about `plainTokensOld`: how comment
  stripping, parenthesis padding and chunking behave under concatenation.
-/
import BB.Lex
namespace BB

/-! ### chunking -/

theorem chunkGo_append (x z : List Char) (h : (chunkGo z).1 = []) :
    chunkGo (x ++ z) = ((chunkGo x).1, (chunkGo x).2 ++ (chunkGo z).2) := by
  induction x with
  | nil =>
    simp only [List.nil_append, chunkGo]
    exact Prod.ext h rfl
  | cons c x ih =>
    simp only [List.cons_append, chunkGo, ih]
    by_cases hc : isSep c = true
    · simp only [hc, if_true]
      by_cases hw : (chunkGo x).1 = [] <;> simp [hw]
    · simp [hc]

theorem chunkGo_sep_run (s y : List Char) (hs : s ≠ []) (hall : ∀ c ∈ s, isSep c = true) :
    chunkGo (s ++ y) = ([], chunks y) := by
  induction s with
  | nil => exact absurd rfl hs
  | cons c s ih =>
    have hc : isSep c = true := hall c (List.mem_cons_self ..)
    by_cases hs' : s = []
    · subst hs'
      simp [chunkGo, hc, chunks]
    · have := ih hs' (fun d hd => hall d (List.mem_cons_of_mem _ hd))
      simp only [List.cons_append, chunkGo, this, hc, if_true]

/-- a non-empty run of separators between two pieces of text splits the chunk lists -/
theorem chunks_append_sep (x s y : List Char) (hs : s ≠ []) (hall : ∀ c ∈ s, isSep c = true) :
    chunks (x ++ (s ++ y)) = chunks x ++ chunks y := by
  have h := chunkGo_sep_run s y hs hall
  have h2 := chunkGo_append x (s ++ y) (by rw [h])
  unfold chunks
  rw [h2, h]
  by_cases hw : (chunkGo x).1 = [] <;> simp [hw, chunks]

/-- leading separators do not matter -/
theorem chunks_sep_prefix (s y : List Char) (hall : ∀ c ∈ s, isSep c = true) :
    chunks (s ++ y) = chunks y := by
  by_cases hs : s = []
  · simp [hs]
  · have := chunks_append_sep [] s y hs hall
    simpa [chunks, chunkGo] using this

/-- trailing separators do not matter -/
theorem chunks_sep_suffix (x s : List Char) (hall : ∀ c ∈ s, isSep c = true) :
    chunks (x ++ s) = chunks x := by
  by_cases hs : s = []
  · simp [hs]
  · have := chunks_append_sep x s [] hs hall
    simpa [chunks, chunkGo] using this

theorem chunks_all_sep (s : List Char) (hall : ∀ c ∈ s, isSep c = true) : chunks s = [] := by
  have := chunks_sep_prefix s [] hall
  simpa [chunks, chunkGo] using this

/-- a word (no separator inside, not empty) is one chunk -/
theorem chunkGo_word (w : List Char) (hw : ∀ c ∈ w, isSep c = false) : chunkGo w = (w, []) := by
  induction w with
  | nil => rfl
  | cons c w ih =>
    have hc := hw c (List.mem_cons_self ..)
    simp [chunkGo, hc, ih (fun d hd => hw d (List.mem_cons_of_mem _ hd))]

theorem chunks_word (w : List Char) (hne : w ≠ []) (hw : ∀ c ∈ w, isSep c = false) :
    chunks w = [w] := by
  simp [chunks, chunkGo_word w hw, hne]

/-- word, separator run, rest -/
theorem chunks_word_sep (w s y : List Char) (hne : w ≠ []) (hw : ∀ c ∈ w, isSep c = false)
    (hs : s ≠ []) (hall : ∀ c ∈ s, isSep c = true) :
    chunks (w ++ (s ++ y)) = w :: chunks y := by
  rw [chunks_append_sep w s y hs hall, chunks_word w hne hw]; rfl

/-! ### comments -/

theorem stripComment_hash (a r : List Char) : stripComment (a ++ '#' :: r) = stripComment a := by
  induction a with
  | nil => simp [stripComment]
  | cons c a ih =>
    by_cases hc : c = '#'
    · simp [stripComment, hc]
    · simp [stripComment, hc, ih]

theorem stripComment_append_of_mem (a b : List Char) (h : '#' ∈ a) :
    stripComment (a ++ b) = stripComment a := by
  induction a with
  | nil => cases h
  | cons c a ih =>
    by_cases hc : c = '#'
    · simp [stripComment, hc]
    · have : '#' ∈ a := by
        rcases List.mem_cons.mp h with h | h
        · exact absurd h.symm hc
        · exact h
      simp [stripComment, hc, ih this]

theorem stripComment_append_of_not_mem (a b : List Char) (h : '#' ∉ a) :
    stripComment (a ++ b) = a ++ stripComment b := by
  induction a with
  | nil => rfl
  | cons c a ih =>
    have hc : c ≠ '#' := fun e => h (e ▸ List.mem_cons_self ..)
    have : '#' ∉ a := fun m => h (List.mem_cons_of_mem _ m)
    simp [stripComment, hc, ih this]

theorem stripComment_of_not_mem (a : List Char) (h : '#' ∉ a) : stripComment a = a := by
  have := stripComment_append_of_not_mem a [] h
  simpa [stripComment] using this

theorem sep_ne_hash {c : Char} (h : isSep c = true) : c ≠ '#' := by
  intro e; subst e; revert h; decide

theorem sep_not_paren {c : Char} (h : isSep c = true) : ¬ (c = '(' ∨ c = ')') := by
  intro e; rcases e with e | e <;> subst e <;> revert h <;> decide

theorem hash_not_mem_of_sep (s : List Char) (hall : ∀ c ∈ s, isSep c = true) : '#' ∉ s :=
  fun m => sep_ne_hash (hall _ m) rfl

/-! ### parenthesis padding -/

theorem padParens_append (a b : List Char) : padParens (a ++ b) = padParens a ++ padParens b := by
  induction a with
  | nil => rfl
  | cons c a ih =>
    by_cases hc : c = '(' ∨ c = ')'
    · simp [padParens, hc, ih]
    · simp [padParens, hc, ih]

theorem padParens_sep (s : List Char) (hall : ∀ c ∈ s, isSep c = true) : padParens s = s := by
  induction s with
  | nil => rfl
  | cons c s ih =>
    have hc := sep_not_paren (hall c (List.mem_cons_self ..))
    simp [padParens, hc, ih (fun d hd => hall d (List.mem_cons_of_mem _ hd))]

theorem padParens_noparen (w : List Char) (h : ∀ c ∈ w, c ≠ '(' ∧ c ≠ ')') : padParens w = w := by
  induction w with
  | nil => rfl
  | cons c w ih =>
    have hc : ¬ (c = '(' ∨ c = ')') := by
      have := h c (List.mem_cons_self ..); simp [this.1, this.2]
    simp [padParens, hc, ih (fun d hd => h d (List.mem_cons_of_mem _ hd))]

/-! ### the ordinary token list of a line -/

/-- replacing one non-empty run of separators by another -/
theorem plainTokensOld_sep_run (pre post s t : List Char)
    (hs : s ≠ []) (ht : t ≠ [])
    (hsa : ∀ c ∈ s, isSep c = true) (hta : ∀ c ∈ t, isSep c = true) :
    plainTokensOld (pre ++ (s ++ post)) = plainTokensOld (pre ++ (t ++ post)) := by
  unfold plainTokensOld
  by_cases hp : '#' ∈ pre
  · rw [stripComment_append_of_mem _ _ hp, stripComment_append_of_mem _ _ hp]
  · rw [stripComment_append_of_not_mem _ _ hp, stripComment_append_of_not_mem _ _ hp,
      stripComment_append_of_not_mem _ _ (hash_not_mem_of_sep s hsa),
      stripComment_append_of_not_mem _ _ (hash_not_mem_of_sep t hta)]
    simp only [padParens_append, padParens_sep s hsa, padParens_sep t hta]
    rw [chunks_append_sep _ s _ hs hsa, chunks_append_sep _ t _ ht hta]

/-- leading separators -/
theorem plainTokensOld_sep_prefix (s a : List Char) (hsa : ∀ c ∈ s, isSep c = true) :
    plainTokensOld (s ++ a) = plainTokensOld a := by
  unfold plainTokensOld
  rw [stripComment_append_of_not_mem _ _ (hash_not_mem_of_sep s hsa), padParens_append,
    padParens_sep s hsa, chunks_sep_prefix _ _ hsa]

/-- trailing separators -/
theorem plainTokensOld_sep_suffix (a s : List Char) (hsa : ∀ c ∈ s, isSep c = true) :
    plainTokensOld (a ++ s) = plainTokensOld a := by
  unfold plainTokensOld
  by_cases hp : '#' ∈ a
  · rw [stripComment_append_of_mem _ _ hp]
  · rw [stripComment_append_of_not_mem _ _ hp, stripComment_of_not_mem s (hash_not_mem_of_sep s hsa),
      stripComment_of_not_mem a hp, padParens_append, padParens_sep s hsa, chunks_sep_suffix _ _ hsa]

/-- a trailing comment -/
theorem plainTokensOld_comment (a r : List Char) : plainTokensOld (a ++ '#' :: r) = plainTokensOld a := by
  unfold plainTokensOld
  rw [stripComment_hash]

/-! ### the scanner and the pipeline it replaced -/

theorem tokGo_eq_old (l : List Char) (h : '\'' ∉ stripComment l) :
    tokGo 0 l = chunkGo (padParens (stripComment l)) := by
  induction l with
  | nil => rfl
  | cons c cs ih =>
    by_cases hh : c = '#'
    · simp [tokGo, stripComment, padParens, chunkGo, hh]
    · have hs : stripComment (c :: cs) = c :: stripComment cs := by simp [stripComment, hh]
      rw [hs] at h ⊢
      have hq : c ≠ '\'' := fun e => h (e ▸ List.mem_cons_self ..)
      have ih' := ih (fun m => h (List.mem_cons_of_mem _ m))
      by_cases hsep : isSep c = true
      · have hp := sep_not_paren hsep
        simp [tokGo, hh, hsep, padParens, hp, chunkGo, ih', pushChunk]
      · by_cases hp : c = '(' ∨ c = ')'
        · have hsp : isSep ' ' = true := by decide
          simp [tokGo, hh, hsep, padParens, hp, chunkGo, ih', pushChunk, hsp]
        · simp [tokGo, hh, hsep, padParens, hp, chunkGo, ih', hq]

/-- a line without an apostrophe in front of its comment is lexed as before -/
theorem plainTokens_eq_old (l : List Char) (h : '\'' ∉ stripComment l) :
    plainTokens l = plainTokensOld l := by
  unfold plainTokens plainTokensOld chunks
  rw [tokGo_eq_old l h]; rfl

theorem not_mem_stripComment {c : Char} (l : List Char) (h : c ∉ l) : c ∉ stripComment l := by
  induction l with
  | nil => simp [stripComment]
  | cons d ds ih =>
    by_cases hd : d = '#'
    · simp [stripComment, hd]
    · simp only [stripComment, hd, if_false, List.mem_cons, not_or]
      exact ⟨fun e => h (e ▸ List.mem_cons_self ..), ih (fun m => h (List.mem_cons_of_mem _ m))⟩

/-! ### the code part of a line (what must be ASCII) -/

theorem codePart_mem : ∀ (l : List Char) (k : Nat), ∀ c ∈ codePart k l, c ∈ l
  | [], k, c, h => by cases k <;> simp [codePart] at h
  | d :: ds, k + 1, c, h => by
    simp only [codePart, List.mem_cons] at h ⊢
    rcases h with h | h
    · exact .inl h
    · exact .inr (codePart_mem ds k c h)
  | d :: ds, 0, c, h => by
    simp only [codePart] at h
    split at h
    · simp at h
    · simp only [List.mem_cons] at h ⊢
      rcases h with h | h
      · exact .inl h
      · exact .inr (codePart_mem ds _ c h)

/-- an ASCII line has an ASCII code part -/
theorem codePart_ascii {l : List Char} (h : l.all isAsciiC = true) (k : Nat) :
    (codePart k l).all isAsciiC = true := by
  rw [List.all_eq_true] at h ⊢
  exact fun c hc => h c (codePart_mem l k c hc)

/-- without an apostrophe in front of the comment, the code part is the line minus its comment -/
theorem codePart_eq_strip (l : List Char) (h : '\'' ∉ stripComment l) : codePart 0 l = stripComment l := by
  induction l with
  | nil => rfl
  | cons c cs ih =>
    by_cases hh : c = '#'
    · simp [codePart, stripComment, hh]
    · have hs : stripComment (c :: cs) = c :: stripComment cs := by simp [stripComment, hh]
      rw [hs] at h ⊢
      have hq : c ≠ '\'' := fun e => h (e ▸ List.mem_cons_self ..)
      simp only [codePart, hh, if_false, hq, ih (fun m => h (List.mem_cons_of_mem _ m))]

/-! ### source-level operands -/

/-- a source-level operand / mnemonic: not empty, free of separators, parentheses, `#` and quotes
    (a quoted character is an operand too, and may hold any of these: Props/C11Char) -/
def SrcWord (w : List Char) : Prop :=
  w ≠ [] ∧ ∀ c ∈ w, isSep c = false ∧ c ≠ '(' ∧ c ≠ ')' ∧ c ≠ '#' ∧ c ≠ '\''

instance (w : List Char) : Decidable (SrcWord w) := by unfold SrcWord; infer_instance

theorem SrcWord.sep {w : List Char} (h : SrcWord w) : ∀ c ∈ w, isSep c = false := fun c hc => (h.2 c hc).1
theorem SrcWord.noparen {w : List Char} (h : SrcWord w) : ∀ c ∈ w, c ≠ '(' ∧ c ≠ ')' :=
  fun c hc => ⟨(h.2 c hc).2.1, (h.2 c hc).2.2.1⟩
theorem SrcWord.nohash {w : List Char} (h : SrcWord w) : '#' ∉ w := fun m => (h.2 _ m).2.2.2.1 rfl
theorem SrcWord.noquote {w : List Char} (h : SrcWord w) : '\'' ∉ w := fun m => (h.2 _ m).2.2.2.2 rfl

/-- the tokens of `m rd, off(base)` -/
theorem plainTokensOld_paren_form (m rd off base : List Char)
    (hm : SrcWord m) (hrd : SrcWord rd) (hoff : SrcWord off) (hbase : SrcWord base) :
    plainTokensOld (m ++ ([' '] ++ (rd ++ ([',', ' '] ++ (off ++ (['('] ++ (base ++ [')']))))))) =
      [m, rd, off, ['('], base, [')']] := by
  unfold plainTokensOld
  rw [stripComment_of_not_mem]
  · simp only [padParens_append, padParens_noparen _ hm.noparen, padParens_noparen _ hrd.noparen,
      padParens_noparen _ hoff.noparen, padParens_noparen _ hbase.noparen]
    show chunks (m ++ ([' '] ++ (rd ++ ([',', ' '] ++ (off ++ ([' '] ++ (['('] ++ ([' '] ++
      (base ++ ([' '] ++ ([')'] ++ ([' '] ++ [])))))))))))) = _
    rw [chunks_word_sep m _ _ hm.1 hm.sep (by decide) (by decide),
      chunks_word_sep rd _ _ hrd.1 hrd.sep (by decide) (by decide),
      chunks_word_sep off _ _ hoff.1 hoff.sep (by decide) (by decide),
      chunks_word_sep ['('] _ _ (by decide) (by decide) (by decide) (by decide),
      chunks_word_sep base _ _ hbase.1 hbase.sep (by decide) (by decide),
      chunks_word_sep [')'] _ _ (by decide) (by decide) (by decide) (by decide)]
    rfl
  · simp [hm.nohash, hrd.nohash, hoff.nohash, hbase.nohash]

/-- the tokens of `m a, b, c` -/
theorem plainTokensOld_flat_form (m a b c : List Char)
    (hm : SrcWord m) (ha : SrcWord a) (hb : SrcWord b) (hc : SrcWord c) :
    plainTokensOld (m ++ ([' '] ++ (a ++ ([',', ' '] ++ (b ++ ([',', ' '] ++ c)))))) = [m, a, b, c] := by
  unfold plainTokensOld
  rw [stripComment_of_not_mem]
  · simp only [padParens_append, padParens_noparen _ hm.noparen, padParens_noparen _ ha.noparen,
      padParens_noparen _ hb.noparen, padParens_noparen _ hc.noparen]
    show chunks (m ++ ([' '] ++ (a ++ ([',', ' '] ++ (b ++ ([',', ' '] ++ c)))))) = _
    rw [chunks_word_sep m _ _ hm.1 hm.sep (by decide) (by decide),
      chunks_word_sep a _ _ ha.1 ha.sep (by decide) (by decide),
      chunks_word_sep b _ _ hb.1 hb.sep (by decide) (by decide),
      chunks_word c hc.1 hc.sep]
  · simp [hm.nohash, ha.nohash, hb.nohash, hc.nohash]

/-- if `kw ␣` is a prefix of `m ␣ …` and neither `kw` nor `m` contains a blank, then `m = kw` -/
theorem word_of_prefix (kw m r : List Char) (hk : ' ' ∉ kw) (hm : ' ' ∉ m)
    (h : (kw ++ [' ']).isPrefixOf (m ++ ' ' :: r) = true) : m = kw := by
  induction kw generalizing m with
  | nil =>
    cases m with
    | nil => rfl
    | cons c m =>
      simp only [List.nil_append, List.cons_append, List.isPrefixOf, Bool.and_eq_true, beq_iff_eq] at h
      exact absurd (List.mem_cons.mpr (.inl h.1)) hm
  | cons k kw ih =>
    cases m with
    | nil =>
      simp only [List.cons_append, List.nil_append, List.isPrefixOf, Bool.and_eq_true, beq_iff_eq] at h
      exact absurd (List.mem_cons.mpr (.inl h.1.symm)) hk
    | cons c m =>
      simp only [List.cons_append, List.isPrefixOf, Bool.and_eq_true, beq_iff_eq] at h
      rw [h.1, ih m (fun x => hk (List.mem_cons_of_mem _ x)) (fun x => hm (List.mem_cons_of_mem _ x)) h.2]

end BB
