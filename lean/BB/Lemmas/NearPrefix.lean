/-
  BB.Lemmas.NearPrefix — tools for reading two runs at one SOURCE position:
  `walk_append_inv` (a walk over `A ++ R` is the walk over `A` followed by the walk over `R`),
  `prefix_inv` (the layout invariant after the walk over a prefix, with the rest still to come),
  `walk_find` (an output item, the input item it came from, and the walk over the input prefix),
  and the determinism of `Corr`: `Corr.left_unique`, `Corr.cancel_left`, `Corr.split_heads`.
-/
import BB.Lemmas.SuccMain
set_option linter.unusedSimpArgs false
set_option linter.unusedVariables false
namespace BB.Lemmas
open BB BB.Spec

/-! ### walks over a prefix -/

theorem walk_append_inv {f : Item → Int → Dict → Except Err (List Item × Int)} (A : List Item) :
    ∀ (R : List Item) (p : Int) (L : Dict) (G' : List Item) (L' : Dict), walk f (A ++ R) p L = .ok (G', L') →
    ∃ oA Lm out, walk f A p L = .ok (oA, Lm) ∧ walk f R (p + sizeSum oA) Lm = .ok (out, L') ∧ G' = oA ++ out := by
  induction A with
  | nil =>
    intro R p L G' L' h
    exact ⟨[], L, G', rfl, by simpa [sizeSum] using h, rfl⟩
  | cons a A ih =>
    intro R p L G' L' h
    by_cases hl : ∃ l n, a = .label l n
    · obtain ⟨l, n, rfl⟩ := hl
      simp only [List.cons_append, walk, bind, Except.bind] at h
      cases hr : walk f (A ++ R) p L with
      | error e => simp [hr] at h
      | ok r =>
        obtain ⟨o, l2⟩ := r
        simp only [hr, pure, Except.pure, Except.ok.injEq, Prod.mk.injEq] at h
        obtain ⟨oA, Lm, out, h1, h2, rfl⟩ := ih R p L o l2 hr
        refine ⟨.label l n :: oA, Lm, out, ?_, ?_, by rw [← h.1]; rfl⟩
        · simp only [walk, h1, bind, Except.bind, pure, Except.pure]
        · rw [sizeSum_cons, sizeD_label, ← h.2]
          have : p + (0 + sizeSum oA) = p + sizeSum oA := by omega
          rw [this]; exact h2
    · have hnl : ∀ l n, a ≠ .label l n := fun l n e => hl ⟨l, n, e⟩
      rw [List.cons_append, walk_cons_of_not_label hnl] at h
      simp only [bind, Except.bind] at h
      cases hb : f a p L with
      | error e => simp [hb] at h
      | ok rn =>
        obtain ⟨repl, n⟩ := rn
        simp only [hb] at h
        cases hr : walk f (A ++ R) (p + sizeSum repl) (L.shiftAbove p n) with
        | error e => simp [hr] at h
        | ok r =>
          obtain ⟨o, l2⟩ := r
          simp only [hr, pure, Except.pure, Except.ok.injEq, Prod.mk.injEq] at h
          obtain ⟨oA, Lm, out, h1, h2, rfl⟩ := ih R _ _ o l2 hr
          refine ⟨repl ++ oA, Lm, out, ?_, ?_, by rw [← h.1, List.append_assoc]⟩
          · rw [walk_cons_of_not_label hnl]
            simp only [hb, h1, bind, Except.bind, pure, Except.pure]
          · rw [sizeSum_append, ← Int.add_assoc, ← h.2]; exact h2

/-- a walk never moves a table entry that lies at or below its start position -/
theorem walk_low_fixed {f : Item → Int → Dict → Except Err (List Item × Int)} (hf : BodyOK f) (A : List Item) :
    ∀ (p : Int) (L : Dict) (oA : List Item) (Lm : Dict), NonNeg A → walk f A p L = .ok (oA, Lm) →
    ∀ ℓ v, L.get ℓ = some v → v ≤ p → Lm.get ℓ = some v := by
  induction A with
  | nil =>
    intro p L oA Lm _ h ℓ v hv _
    simp only [walk, Except.ok.injEq, Prod.mk.injEq] at h
    rw [← h.2]; exact hv
  | cons a A ih =>
    intro p L oA Lm hnn h ℓ v hv hle
    have hnnrest : NonNeg A := fun x hx => hnn x (List.mem_cons_of_mem _ hx)
    by_cases hl : ∃ l n, a = .label l n
    · obtain ⟨line, nm, rfl⟩ := hl
      simp only [walk, bind, Except.bind] at h
      cases hr : walk f A p L with
      | error e => simp [hr] at h
      | ok r =>
        obtain ⟨o, l2⟩ := r
        simp only [hr, pure, Except.pure, Except.ok.injEq, Prod.mk.injEq] at h
        rw [← h.2]
        exact ih p L o l2 hnnrest hr ℓ v hv hle
    · have hnl : ∀ l n, a ≠ .label l n := fun l n e => hl ⟨l, n, e⟩
      rw [walk_cons_of_not_label hnl] at h
      simp only [bind, Except.bind] at h
      cases hfb : f a p L with
      | error e => simp [hfb] at h
      | ok fb =>
        obtain ⟨repl, n⟩ := fb
        simp only [hfb] at h
        cases hr : walk f A (p + sizeSum repl) (L.shiftAbove p n) with
        | error e => simp [hr] at h
        | ok res =>
          obtain ⟨o, l2⟩ := res
          simp only [hr, pure, Except.pure, Except.ok.injEq, Prod.mk.injEq] at h
          rw [← h.2]
          obtain ⟨_, b2, _, _, _⟩ := hf.ok a p L repl n hnl (hnn a List.mem_cons_self) hfb
          have := sizeSum_nonneg b2
          refine ih _ _ o l2 hnnrest hr ℓ v ?_ (by omega)
          rw [Dict.get_shiftAbove, hv]
          have : ¬ v > p := by omega
          simp [this]

/-- the layout invariant after the walk over a prefix `A` of `A ++ R` -/
theorem prefix_inv {f : Item → Int → Dict → Except Err (List Item × Int)} (hf : BodyOK f) (A : List Item) :
    ∀ (R : List Item) (p : Int) (L : Dict) (oA : List Item) (Lm : Dict),
    NonNeg (A ++ R) → (labelNames (A ++ R)).Nodup →
    (∀ ℓ v, labelPos (A ++ R) p ℓ = some v → L.get ℓ = some v) →
    (∀ ℓ v, ℓ ∉ labelNames (A ++ R) → L.get ℓ = some v → v ≤ p) →
    walk f A p L = .ok (oA, Lm) →
    (∀ ℓ v, labelPos R (p + sizeSum oA) ℓ = some v → Lm.get ℓ = some v) ∧
    (∀ ℓ v, labelPos oA p ℓ = some v → Lm.get ℓ = some v) ∧
    Shrinks A oA ∧ labelNames oA = labelNames A ∧ 0 ≤ sizeSum oA ∧ sizeSum oA ≤ sizeSum A := by
  induction A with
  | nil =>
    intro R p L oA Lm _ _ hag _ h
    simp only [walk, Except.ok.injEq, Prod.mk.injEq] at h
    obtain ⟨rfl, rfl⟩ := h
    refine ⟨by simpa [sizeSum] using hag, fun ℓ v hv => by simp [labelPos] at hv, .nil, rfl, by simp [sizeSum], by simp [sizeSum]⟩
  | cons a A ih =>
    intro R p L oA Lm hnn hnd hag hlow h
    have hnnrest : NonNeg (A ++ R) := fun x hx => hnn x (List.mem_cons_of_mem _ hx)
    by_cases hl : ∃ l n, a = .label l n
    · obtain ⟨line, nm, rfl⟩ := hl
      simp only [List.cons_append, labelNames, List.nodup_cons] at hnd
      obtain ⟨hnotin, hndrest⟩ := hnd
      simp only [walk, bind, Except.bind] at h
      cases hr : walk f A p L with
      | error e => simp [hr] at h
      | ok r =>
        obtain ⟨o, l2⟩ := r
        simp only [hr, pure, Except.pure, Except.ok.injEq, Prod.mk.injEq] at h
        obtain ⟨rfl, rfl⟩ := h
        have hag' : ∀ ℓ v, labelPos (A ++ R) p ℓ = some v → L.get ℓ = some v := by
          intro ℓ v hv
          apply hag
          simp only [List.cons_append, labelPos]
          have hne : nm ≠ ℓ := by
            intro heq; subst heq
            exact hnotin ((labelPos_isSome_iff (A ++ R) p nm).mp (by simp [hv]))
          simp [hne, hv]
        have hlo' : ∀ ℓ v, ℓ ∉ labelNames (A ++ R) → L.get ℓ = some v → v ≤ p := by
          intro ℓ v hℓ hv
          by_cases he : ℓ = nm
          · subst he
            have := hag ℓ p (by simp [labelPos])
            rw [this] at hv; simp only [Option.some.injEq] at hv; omega
          · exact hlow ℓ v (by simp [labelNames, he, hℓ]) hv
        obtain ⟨i1, i2, i3, i4, i5, i6⟩ := ih R p L o l2 hnnrest hndrest hag' hlo' hr
        refine ⟨by simpa [sizeSum_cons, sizeD_label] using i1, ?_, .label line nm i3, by simp [labelNames, i4],
          by simpa [sizeSum_cons, sizeD_label] using i5, by simpa [sizeSum_cons, sizeD_label] using i6⟩
        intro ℓ v hv
        simp only [labelPos] at hv
        split at hv
        · rename_i heq; subst heq
          simp only [Option.some.injEq] at hv; subst hv
          -- the marker's own value is at the start of the walk over `A`: nothing moves it
          have hL : L.get nm = some p := hag nm p (by simp [labelPos])
          exact walk_low_fixed hf A p L o l2 (fun x hx => hnnrest x (List.mem_append_left _ hx)) hr nm p hL (Int.le_refl _)
        · exact i2 ℓ v hv
    · have hnl : ∀ l n, a ≠ .label l n := fun l n e => hl ⟨l, n, e⟩
      rw [walk_cons_of_not_label hnl] at h
      simp only [bind, Except.bind] at h
      cases hfb : f a p L with
      | error e => simp [hfb] at h
      | ok fb =>
        obtain ⟨repl, n⟩ := fb
        simp only [hfb] at h
        cases hr : walk f A (p + sizeSum repl) (L.shiftAbove p n) with
        | error e => simp [hr] at h
        | ok res =>
          obtain ⟨o, l2⟩ := res
          simp only [hr, pure, Except.pure, Except.ok.injEq, Prod.mk.injEq] at h
          obtain ⟨rfl, rfl⟩ := h
          obtain ⟨b1, b2, b3, b4, b5⟩ := hf.ok a p L repl n hnl (hnn a List.mem_cons_self) hfb
          have hnn' : NonNeg (a :: (A ++ R)) := hnn
          obtain ⟨s1, s2, s3⟩ := step_inv hf hnl hnn' hag hlow hfb
          have hnd' : (labelNames (A ++ R)).Nodup := by
            rw [List.cons_append, labelNames_cons_of_not_label hnl] at hnd; exact hnd
          obtain ⟨i1, i2, i3, i4, i5, i6⟩ := ih R _ _ o l2 hnnrest hnd' s1 s2 hr
          have := sizeSum_nonneg b2
          refine ⟨?_, ?_, .item hnl b1 b2 (by omega) i3, ?_, ?_, ?_⟩
          · rw [sizeSum_append, ← Int.add_assoc]; exact i1
          · intro ℓ v hv
            rw [labelPos_append_noLabel _ _ b1] at hv
            exact i2 ℓ v hv
          · rw [labelNames_append_noLabel _ _ b1, i4, labelNames_cons_of_not_label hnl]
          · rw [sizeSum_append]; omega
          · rw [sizeSum_append, sizeSum_cons]; omega

/-- an output item of a walk: the input item it came from, and the walk over the input prefix -/
theorem walk_find {f : Item → Int → Dict → Except Err (List Item × Int)} (G : List Item) :
    ∀ (p : Int) (L : Dict) (G' : List Item) (L' : Dict), walk f G p L = .ok (G', L') →
    ∀ (A' : List Item) (x' : Item) (B' : List Item), G' = A' ++ x' :: B' → (∀ l n, x' ≠ .label l n) →
    ∃ (A : List Item) (y : Item) (B oA : List Item) (Lm : Dict) (P S : List Item) (n : Int),
      G = A ++ y :: B ∧ (∀ l n, y ≠ .label l n) ∧ walk f A p L = .ok (oA, Lm) ∧
      f y (p + sizeSum oA) Lm = .ok (P ++ x' :: S, n) ∧ A' = oA ++ P := by
  induction G with
  | nil =>
    intro p L G' L' h A' x' B' hG'
    simp only [walk, Except.ok.injEq, Prod.mk.injEq] at h
    rw [← h.1] at hG'
    exact absurd hG' (by simp)
  | cons it rest ih =>
    intro p L G' L' h A' x' B' hG' hx'
    by_cases hl : ∃ l n, it = .label l n
    · obtain ⟨line, nm, rfl⟩ := hl
      simp only [walk, bind, Except.bind] at h
      cases hr : walk f rest p L with
      | error e => simp [hr] at h
      | ok res =>
        obtain ⟨out, l⟩ := res
        simp only [hr, pure, Except.pure, Except.ok.injEq, Prod.mk.injEq] at h
        obtain ⟨rfl, rfl⟩ := h
        cases A' with
        | nil =>
          simp only [List.nil_append, List.cons.injEq] at hG'
          exact absurd hG'.1.symm (hx' line nm)
        | cons a A'' =>
          simp only [List.cons_append, List.cons.injEq] at hG'
          obtain ⟨rfl, hout⟩ := hG'
          obtain ⟨A, y, B, oA, Lm, P, S, n, e1, e2, e3, e4, e5⟩ := ih p L out l hr A'' x' B' hout hx'
          refine ⟨.label line nm :: A, y, B, .label line nm :: oA, Lm, P, S, n, by rw [e1]; rfl, e2, ?_, ?_, by rw [e5]; rfl⟩
          · simp only [walk, e3, bind, Except.bind, pure, Except.pure]
          · rw [sizeSum_cons, sizeD_label]
            have : p + (0 + sizeSum oA) = p + sizeSum oA := by omega
            rw [this]; exact e4
    · have hnl : ∀ l n, it ≠ .label l n := fun l n e => hl ⟨l, n, e⟩
      rw [walk_cons_of_not_label hnl] at h
      simp only [bind, Except.bind] at h
      cases hfb : f it p L with
      | error e => simp [hfb] at h
      | ok fb =>
        obtain ⟨repl, n⟩ := fb
        simp only [hfb] at h
        cases hr : walk f rest (p + sizeSum repl) (L.shiftAbove p n) with
        | error e => simp [hr] at h
        | ok res =>
          obtain ⟨out, l⟩ := res
          simp only [hr, pure, Except.pure, Except.ok.injEq, Prod.mk.injEq] at h
          obtain ⟨rfl, rfl⟩ := h
          rcases append_eq_append_cons hG' with ⟨S, hrepl, hB'⟩ | ⟨A'', hA', hout⟩
          · exact ⟨[], it, rest, [], L, A', S, n, rfl, hnl, rfl, by simpa [sizeSum, hrepl] using hfb, by simp⟩
          · obtain ⟨A, y, B, oA, Lm, P, S, n', e1, e2, e3, e4, e5⟩ := ih _ _ out l hr A'' x' B' hout hx'
            refine ⟨it :: A, y, B, repl ++ oA, Lm, P, S, n', by rw [e1]; rfl, e2, ?_, ?_, by rw [hA', e5, List.append_assoc]⟩
            · rw [walk_cons_of_not_label hnl]
              simp only [hfb, e3, bind, Except.bind, pure, Except.pure]
            · rw [sizeSum_append, ← Int.add_assoc]; exact e4

/-! ### `Corr` is deterministic -/

variable {H : Hooks} {constants : Dict}

/-- nothing stands for both an `auipc` and a `jal` -/
theorem not_auipc_and_jal {l l' : Line} {rA rd : RegOp} {imm imm' : Imm} {y : Item}
    (h1 : StepRel H constants (.instr l (.u "auipc" rA imm)) y)
    (h2 : StepRel H constants (.instr l' (.j "jal" rd imm')) y) : False := by
  cases h1 with
  | same =>
    cases h2 with
    | comp _ _ cf c preds p L d _ =>
      have := (compressedForm_sizes d.2.2.2.2).2
      simp [Instr.isCompressed] at this
  | comp _ _ cf c preds p L d _ => exact absurd (decided_name_base d) (by simp [Instr.name, baseNames])

theorem Corr.left_unique {X Y : List Item} (h : Corr H constants X Y) :
    ∀ {X' T T' : List Item}, Corr H constants X' Y → X ++ T = X' ++ T' → X = X' := by
  induction h with
  | nil => intro X' T T' h' _; cases h'; rfl
  | @step a b G0 G1 hs _ ih =>
    intro X' T T' h' e
    cases h' with
    | @step a' _ G0' _ hs' hr' =>
      simp only [List.cons_append, List.cons.injEq] at e
      obtain ⟨rfl, e⟩ := e
      rw [ih hr' e]
    | @near line rd rA imm _ G0' _ hs' hr' =>
      simp only [List.cons_append, List.cons.injEq] at e
      obtain ⟨rfl, _⟩ := e
      exact (not_auipc_and_jal hs hs').elim
  | @near line rd rA imm x G0 G1 hs _ ih =>
    intro X' T T' h' e
    cases h' with
    | @step a' _ G0' _ hs' hr' =>
      simp only [List.cons_append, List.cons.injEq] at e
      obtain ⟨rfl, _⟩ := e
      exact (not_auipc_and_jal hs' hs).elim
    | @near line' rd' rA' imm' _ G0' _ hs' hr' =>
      simp only [List.cons_append, List.cons.injEq] at e
      obtain ⟨e1, e2, e⟩ := e
      rw [e1, e2, ih hr' e]

/-- the head of the plain side is consumed by a step unless it is the `auipc` of a pair that a `jal` stands for -/
theorem Corr.head_cases {a x : Item} {G0 G1 : List Item} (h : Corr H constants (a :: G0) (x :: G1)) :
    (StepRel H constants a x ∧ Corr H constants G0 G1) ∨
    ∃ line rd rA imm G0', a = .instr line (.u "auipc" rA (.hi imm)) ∧ G0 = .instr line (.i "jalr" rd rA (.lo imm) true) :: G0' ∧
      StepRel H constants (.instr line (.j "jal" rd imm)) x ∧ Corr H constants G0' G1 := by
  cases h with
  | step hs hr => exact Or.inl ⟨hs, hr⟩
  | near line rd rA imm hs hr => exact Or.inr ⟨line, rd, rA, imm, _, rfl, rfl, hs, hr⟩

theorem Corr.cancel_left {X Y : List Item} (h : Corr H constants X Y) :
    ∀ {U V : List Item}, Corr H constants (X ++ U) (Y ++ V) → Corr H constants U V := by
  induction h with
  | nil => intro U V h'; exact h'
  | @step a b G0 G1 hs _ ih =>
    intro U V h'
    simp only [List.cons_append] at h'
    rcases Corr.head_cases h' with ⟨_, hr'⟩ | ⟨line, rd, rA, imm, G0', ea, _, hs', _⟩
    · exact ih hr'
    · subst ea; exact (not_auipc_and_jal hs hs').elim
  | @near line rd rA imm x G0 G1 hs _ ih =>
    intro U V h'
    simp only [List.cons_append] at h'
    rcases Corr.head_cases h' with ⟨hs', _⟩ | ⟨line', rd', rA', imm', G0', ea, eG, hs', hr'⟩
    · exact (not_auipc_and_jal hs' hs).elim
    · simp only [List.cons.injEq] at eG
      rw [← eG.2] at hr'
      exact ih hr'


end BB.Lemmas
