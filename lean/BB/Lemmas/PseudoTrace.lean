/-
  BB.Lemmas.PseudoTrace — one source pseudo-instruction followed through a successful run (either value
  of `compress`) to the list held after resolve_aligns, as ghost lists: `pseudo_trace`.

  The source item `.pseudo line name args` at `items = A ++ _ :: B` was expanded at some position and
  label table (`expandPseudo … = .ok (instrs, short)`); its block in the final ghost list `G7` is one
  item per instruction of the expansion — the instruction with its register aliases resolved, or the
  compressed form a compression pass decided for it (`FinalOf`) — and every item of `G7` is placed at
  the byte offset given by the sizes before it (`PlacedAt`, Lemmas/TwoOutputs).

  `G7` is not free: `strip G7 = lay.aligned` for the layout `layoutOf H compress items = .ok lay` (Props/C04, a
  function of the inputs, tables = the returned ones), the part `P` before the block is the image of the source
  prefix `A` and the part `S` after it of the source suffix `B` (`Expands`, Lemmas/Order), and `G7` has no item of
  negative size.  `SourceAt` / `sourceAt_of_trace` package this as "the block stands at byte offset
  `off = sizeSum P ≥ 0`", which is what the C05 program-level theorems conclude about their `off`.
-/
import BB.Lemmas.TwoOutputs
import BB.Lemmas.LayoutAnchor
import BB.Props.C12Program
set_option linter.unusedSimpArgs false
set_option linter.unusedVariables false
namespace BB.Lemmas
open BB BB.Spec
open BB.Props.C03 (Land Finish Stage)
open BB.Props.C04 (Layout layoutOf)

/-! ### blocks with a per-item description -/

inductive BlocksP (Φ : Item → List Item → Prop) : List Item → List Item → Prop
  | nil : BlocksP Φ [] []
  | cons {s : Item} {repl rest out : List Item} : Φ s repl → BlocksP Φ rest out → BlocksP Φ (s :: rest) (repl ++ out)

theorem BlocksP.append_inv {Φ : Item → List Item → Prop} {a c : List Item} : ∀ {out : List Item}, BlocksP Φ (a ++ c) out →
    ∃ o1 o2, out = o1 ++ o2 ∧ BlocksP Φ a o1 ∧ BlocksP Φ c o2 := by
  induction a with
  | nil => intro out h; exact ⟨[], out, rfl, .nil, by simpa using h⟩
  | cons s a ih =>
    intro out h
    rw [List.cons_append] at h
    cases h with
    | cons hb hr =>
      obtain ⟨o1, o2, rfl, e1, e2⟩ := ih hr
      exact ⟨_ ++ o1, o2, by rw [List.append_assoc], .cons hb e1, e2⟩

/-- read at one SOURCE item -/
theorem BlocksP.src_split {Φ : Item → List Item → Prop} {A B out : List Item} {s : Item} (h : BlocksP Φ (A ++ s :: B) out) :
    ∃ oA r oB, out = oA ++ (r ++ oB) ∧ BlocksP Φ A oA ∧ Φ s r ∧ BlocksP Φ B oB := by
  obtain ⟨oA, o2, rfl, hA, h2⟩ := h.append_inv
  cases h2 with
  | cons hs hB => exact ⟨oA, _, _, rfl, hA, hs, hB⟩

theorem BlocksP.mono {Φ Ψ : Item → List Item → Prop} (hm : ∀ s r, Φ s r → Ψ s r) {a b : List Item} (h : BlocksP Φ a b) :
    BlocksP Ψ a b := by
  induction h with
  | nil => exact .nil
  | cons hs _ ih => exact .cons (hm _ _ hs) ih

theorem BlocksP.refl {Φ : Item → List Item → Prop} (hΦ : ∀ s, Φ s [s]) : ∀ G : List Item, BlocksP Φ G G
  | [] => .nil
  | s :: G => by simpa using BlocksP.cons (hΦ s) (BlocksP.refl hΦ G)

/-- what one call of a loop body did to a source item -/
def BodyΦ (f : Item → Int → Dict → Except Err (List Item × Int)) (s : Item) (r : List Item) : Prop :=
  (∃ l n, s = .label l n ∧ r = [s]) ∨ ((∀ l n, s ≠ .label l n) ∧ ∃ q Lq n, f s q Lq = .ok (r, n))

theorem walk_blocksP {f : Item → Int → Dict → Except Err (List Item × Int)} (G : List Item) :
    ∀ (p : Int) (L : Dict) (G' : List Item) (L' : Dict), walk f G p L = .ok (G', L') → BlocksP (BodyΦ f) G G' := by
  induction G with
  | nil =>
    intro p L G' L' h
    simp only [walk, Except.ok.injEq, Prod.mk.injEq] at h
    rw [← h.1]; exact .nil
  | cons it rest ih =>
    intro p L G' L' h
    by_cases hlab : ∃ line nm, it = .label line nm
    · obtain ⟨line, nm, rfl⟩ := hlab
      simp only [walk, bind, Except.bind] at h
      cases hr : walk f rest p L with
      | error e => simp [hr] at h
      | ok r =>
        obtain ⟨o, l2⟩ := r
        simp only [hr, pure, Except.pure, Except.ok.injEq, Prod.mk.injEq] at h
        rw [← h.1]
        exact BlocksP.cons (repl := [_]) (Or.inl ⟨line, nm, rfl, rfl⟩) (ih p L o l2 hr)
    · have hnl : ∀ l n, it ≠ .label l n := fun l n e => hlab ⟨l, n, e⟩
      rw [walk_cons_of_not_label hnl] at h
      simp only [bind, Except.bind] at h
      cases hb : f it p L with
      | error e => simp [hb] at h
      | ok rn =>
        obtain ⟨repl, n⟩ := rn
        simp only [hb] at h
        cases hr : walk f rest (p + sizeSum repl) (L.shiftAbove p n) with
        | error e => simp [hr] at h
        | ok r =>
          obtain ⟨o, l2⟩ := r
          simp only [hr, pure, Except.pure, Except.ok.injEq, Prod.mk.injEq] at h
          rw [← h.1]
          exact BlocksP.cons (Or.inr ⟨hnl, p, L, n, hb⟩) (ih _ _ o l2 hr)

/-! ### the passes, read at a pseudo-instruction or at the instructions it became -/

/-- an instruction of the expansion, as it stands in the final list: itself, or the compressed form a
    compression pass decided for it -/
def FinalOf (H : Hooks) (constants : Dict) (compress : Bool) (line : Line) (i : Instr) (x : Item) : Prop :=
  x = .instr line i ∨ (compress = true ∧ ∃ cf c preds p L, x = .instr line cf ∧ DecidedAt H constants line cf i c preds p L)

inductive Zip {α β : Type} (Q : α → β → Prop) : List α → List β → Prop
  | nil : Zip Q [] []
  | cons {a : α} {b : β} {l : List α} {l' : List β} : Q a b → Zip Q l l' → Zip Q (a :: l) (b :: l')

theorem resolveConstants_keep (H : Hooks) {s : Item} (hs : ∀ l n e, s ≠ .constant l n e) (A : List Item) :
    ∀ (B : List Item) (c : Dict) (out : List Item) (c' : Dict), resolveConstants H (A ++ s :: B) c = .ok (out, c') →
    ∃ A1 B1, out = A1 ++ s :: B1 ∧ Expands A A1 ∧ Expands B B1 := by
  induction A with
  | nil =>
    intro B c out c' h
    have : resolveConstants H (s :: B) c = (do let (o, c2) ← resolveConstants H B c; pure (s :: o, c2)) := by
      cases s <;> first | rfl | exact absurd rfl (hs _ _ _)
    simp only [List.nil_append, this, bind, Except.bind] at h
    cases hr : resolveConstants H B c with
    | error e => simp [hr] at h
    | ok r =>
      simp only [hr, pure, Except.pure, Except.ok.injEq, Prod.mk.injEq] at h
      exact ⟨[], r.1, by rw [← h.1]; rfl, .nil, resolveConstants_expands H B c r.1 r.2 hr⟩
  | cons a A ih =>
    intro B c out c' h
    by_cases hc : ∃ l n e, a = .constant l n e
    · obtain ⟨l, n, e, rfl⟩ := hc
      simp only [List.cons_append, resolveConstants] at h
      cases e with
      | arith ex =>
        simp only at h
        split at h
        · simp at h
        · split at h
          · simp at h
          · simp only [bind, Except.bind] at h
            split at h
            · simp at h
            · obtain ⟨A1, B1, e1, eA, eB⟩ := ih _ _ _ _ h
              exact ⟨A1, B1, e1, Expands.cons (repl := []) (Img.drop rfl) eA, eB⟩
      | _ => simp at h
    · have ha : ∀ l n e, a ≠ .constant l n e := fun l n e h => hc ⟨l, n, e, h⟩
      have : resolveConstants H (a :: (A ++ s :: B)) c = (do let (o, c2) ← resolveConstants H (A ++ s :: B) c; pure (a :: o, c2)) := by
        cases a <;> first | rfl | exact absurd rfl (ha _ _ _)
      simp only [List.cons_append, this, bind, Except.bind] at h
      cases hr : resolveConstants H (A ++ s :: B) c with
      | error e => simp [hr] at h
      | ok r =>
        obtain ⟨o, c2⟩ := r
        simp only [hr, pure, Except.pure, Except.ok.injEq, Prod.mk.injEq] at h
        obtain ⟨A1, B1, rfl, eA, eB⟩ := ih _ _ _ _ hr
        exact ⟨a :: A1, B1, by rw [← h.1]; rfl, Expands.cons (repl := [a]) (Img.refl a) eA, eB⟩

/-- a (possibly absent) compression pass, on ghost lists -/
def CompΦ (H : Hooks) (constants : Dict) (compress : Bool) (s : Item) (r : List Item) : Prop :=
  r = [s] ∨ (compress = true ∧ ∃ line ins cf c preds p L, s = .instr line ins ∧ r = [.instr line cf] ∧
    DecidedAt H constants line cf ins c preds p L)

theorem iwd_blocksP {H : Hooks} {constants : Dict} {G G' : List Item} (h : IWd H constants G G') :
    BlocksP (CompΦ H constants true) G G' := by
  induction h with
  | nil => exact .nil
  | same it _ ih => exact BlocksP.cons (repl := [it]) (Or.inl rfl) ih
  | comp line ins cf c preds p L d _ ih =>
    exact BlocksP.cons (repl := [_]) (Or.inr ⟨rfl, line, ins, cf, c, preds, p, L, rfl, rfl, d⟩) ih

theorem comp_stage (H : Hooks) (compress : Bool) (constants : Dict) {G real out : List Item} {L L' : Dict} {names : List String}
    (st : Stage G real L names) (h : maybeCompress H compress real constants L = .ok (out, L')) :
    ∃ G', Stage G' out L' names ∧ BlocksP (CompΦ H constants compress) G G' := by
  cases compress with
  | false =>
    simp only [maybeCompress, Bool.false_eq_true, if_false, pure, Except.pure, Except.ok.injEq, Prod.mk.injEq] at h
    obtain ⟨rfl, rfl⟩ := h
    exact ⟨G, st, BlocksP.refl (fun s => Or.inl rfl) G⟩
  | true =>
    simp only [maybeCompress, if_true, transformCompressible] at h
    obtain ⟨G', hw, st', _⟩ := stage_walk'' (compressBody_ok H constants) st h
    exact ⟨G', st', iwd_blocksP (walk_compress_IWd H constants _ 0 L G' L' hw)⟩

theorem compΦ_not_instr {H : Hooks} {constants : Dict} {compress : Bool} {s : Item} {r : List Item}
    (h : CompΦ H constants compress s r) (hs : ∀ l i, s ≠ .instr l i) : r = [s] := by
  rcases h with h | ⟨_, line, ins, _, _, _, _, _, e, _⟩
  · exact h
  · exact absurd e (hs line ins)

/-- a compression pass on the instructions of an expansion -/
theorem compΦ_instrs {H : Hooks} {constants : Dict} {compress : Bool} (line : Line) : ∀ (l : List Instr) (out : List Item),
    BlocksP (CompΦ H constants compress) (l.map (Item.instr line)) out → Zip (FinalOf H constants compress line) l out := by
  intro l
  induction l with
  | nil => intro out h; cases h; exact .nil
  | cons i l ih =>
    intro out h
    simp only [List.map_cons] at h
    cases h with
    | cons hs hr =>
      rcases hs with rfl | ⟨hc, line', ins, cf, c, preds, p, L, e, rfl, d⟩
      · exact .cons (Or.inl rfl) (ih _ hr)
      · cases e
        exact .cons (Or.inr ⟨hc, cf, c, preds, p, L, rfl, d⟩) (ih _ hr)

/-- resolve_aligns leaves instruction items alone -/
theorem align_instrs : ∀ (xs out : List Item), (∀ x ∈ xs, ∃ l i, x = .instr l i) →
    BlocksP (BodyΦ alignBody) xs out → out = xs := by
  intro xs
  induction xs with
  | nil => intro out _ h; cases h; rfl
  | cons x xs ih =>
    intro out hx h
    cases h with
    | @cons _ repl _ o hs hr =>
      obtain ⟨l, i, rfl⟩ := hx x List.mem_cons_self
      have : repl = [.instr l i] := by
        rcases hs with ⟨_, _, e, _⟩ | ⟨_, q, Lq, n, hb⟩
        · cases e
        · exact (keepItem_ok (by simpa [alignBody] using hb)).1
      rw [this, ih o (fun y hy => hx y (List.mem_cons_of_mem _ hy)) hr]
      rfl

theorem zip_all_instr {H : Hooks} {constants : Dict} {compress : Bool} {line : Line} {l : List Instr} {xs : List Item}
    (h : Zip (FinalOf H constants compress line) l xs) : ∀ x ∈ xs, ∃ l' i, x = .instr l' i := by
  induction h with
  | nil => intro x hx; simp at hx
  | cons hq _ ih =>
    intro x hx
    rcases List.mem_cons.mp hx with rfl | hx
    · rcases hq with rfl | ⟨_, cf, _, _, _, _, rfl, _⟩
      · exact ⟨_, _, rfl⟩
      · exact ⟨_, _, rfl⟩
    · exact ih x hx

theorem aliases_map_instr (constants : Dict) (line : Line) (l : List Instr) :
    resolveRegisterAliases (l.map (Item.instr line)) constants = (l.map (fun i => i.mapRegs (aliasReg constants))).map (Item.instr line) := by
  simp [resolveRegisterAliases, List.map_map, Function.comp_def]

/-! ### blocks are images in the sense of `Expands` (Lemmas/Order) -/

theorem blocksP_expands {Φ : Item → List Item → Prop} (hΦ : ∀ s r, Φ s r → Img s r) {a b : List Item}
    (h : BlocksP Φ a b) : Expands a b := by
  induction h with
  | nil => exact .nil
  | cons hs _ ih => exact .cons (hΦ _ _ hs) ih

/-- an instruction item replaced by another instruction item of the same line -/
theorem img_instr (line : Line) (i i' : Instr) : Img (.instr line i) [.instr line i'] :=
  Img.same rfl rfl (fun h => by cases h) (fun h => by cases h) (fun _ => rfl)

theorem compΦ_img {H : Hooks} {constants : Dict} {compress : Bool} {s : Item} {r : List Item}
    (h : CompΦ H constants compress s r) : Img s r := by
  rcases h with rfl | ⟨_, line, ins, cf, _, _, _, _, rfl, rfl, _⟩
  · exact Img.refl s
  · exact img_instr line ins cf

theorem bodyΦ_img {f : Item → Int → Dict → Except Err (List Item × Int)}
    (hf : ∀ it p L repl n, (∀ line nm, it ≠ .label line nm) → f it p L = .ok (repl, n) → Img it repl)
    {s : Item} {r : List Item} (h : BodyΦ f s r) : Img s r := by
  rcases h with ⟨_, _, _, rfl⟩ | ⟨hnl, q, Lq, n, hb⟩
  · exact Img.refl s
  · exact hf s q Lq r n hnl hb

theorem strip_expands : ∀ G : List Item, Expands G (strip G)
  | [] => .nil
  | it :: G => by
    by_cases hl : ∃ l n, it = .label l n
    · obtain ⟨l, n, rfl⟩ := hl
      exact Expands.cons (repl := []) (Img.drop rfl) (strip_expands G)
    · have hnl : ∀ l n, it ≠ .label l n := fun l n e => hl ⟨l, n, e⟩
      rw [strip_cons_of_not_label hnl]
      exact Expands.cons (repl := [it]) (Img.refl it) (strip_expands G)

/-- **a source pseudo-instruction, followed to the final list** -/
theorem pseudo_trace (H : Hooks) (compress : Bool) (items : List Item) (r : AsmResult) (hnn : NonNeg items)
    (h : assembleItems H compress items [] [] = .ok r)
    {A B : List Item} {line : Line} {name : String} {args : List String} (e : items = A ++ .pseudo line name args :: B) :
    ∃ (G7 P blk S : List Item) (q : Int) (Lq : Dict) (instrs : List Instr) (short : Bool),
      G7 = P ++ (blk ++ S) ∧
      expandPseudo H (chainGet r.constants Lq) line name args q = .ok (instrs, short) ∧
      Zip (FinalOf H r.constants compress line) (instrs.map (fun i => i.mapRegs (aliasReg r.constants))) blk ∧
      (∀ P' a S', G7 = P' ++ a :: S' → (∀ l n, a ≠ .label l n) → ∃ d, PlacedAt H r (sizeSum P') a d) ∧
      (∀ ℓ u, labelPos G7 0 ℓ = some u → r.labels.get ℓ = some u) ∧ labelNames G7 = labelNames items ∧
      (compress = true → (∀ ln ins, Item.instr ln ins ∈ items → ins.isCompressed = false) →
        ∀ P' ln cf S', G7 = P' ++ .instr ln cf :: S' → cf.isCompressed = true →
          DecOracle H r.constants r.labels (labelNames items) (sizeSum P') ln cf) ∧
      (∃ lay, layoutOf H compress items = .ok lay ∧ lay.labels = r.labels ∧ lay.constants = r.constants ∧
        strip G7 = lay.aligned) ∧
      Expands A P ∧ Expands B S ∧ NonNeg G7 := by
  obtain ⟨items1, items2, i3, i4, i6, i7, out, l2, l3, l4, l6, hlay, _, h1, h2, h3, h4, h6, h7, hland, hbytes⟩ :=
    assemble_anchor H compress items r h
  unfold transformPseudo at h4
  unfold resolveAligns at h7
  obtain ⟨c1, c2, c3⟩ := BB.Props.C03.resolveConstants_spec H items [] items1 r.constants h1
  obtain ⟨e1, e2, _, e4, e5⟩ := resolveLabelsAux_spec items1 0 [] [] items2 l2 h2
  have st0 : Stage items1 items2 l2 (labelNames items) := by
    refine ⟨e1.symm, c2 hnn, e2, c1, e4, ?_⟩
    intro ℓ v hℓ hv
    rw [e5 ℓ hℓ] at hv
    simp [Dict.get, List.lookup] at hv
  have st1 := BB.Props.C03.stage_aliases st0 r.constants
  obtain ⟨G3, st3, b3⟩ := comp_stage H compress r.constants st1 h3
  obtain ⟨G4, w4, st4, _⟩ := stage_walk'' (pseudoBody_ok H r.constants) st3 h4
  have st5 := BB.Props.C03.stage_aliases st4 r.constants
  obtain ⟨G6, st6, b6⟩ := comp_stage H compress r.constants st5 h6
  obtain ⟨G7, w7, st7, _⟩ := stage_walk'' alignBody_ok st6 h7
  have hs7 := st7.strip_eq
  subst hs7
  have b4 := walk_blocksP _ 0 l3 G4 l4 w4
  have b7 := walk_blocksP _ 0 l6 G7 r.labels w7
  -- the item in the list after resolve_constants, and after the aliases
  rw [e] at h1
  obtain ⟨A1, B1, rfl, xA1, xB1⟩ := resolveConstants_keep H (by intro l n ex hx; cases hx) A B [] items1 r.constants h1
  have eG1 : resolveRegisterAliases (A1 ++ Item.pseudo line name args :: B1) r.constants =
      resolveRegisterAliases A1 r.constants ++ Item.pseudo line name args :: resolveRegisterAliases B1 r.constants := by
    rw [aliases_append, aliases_cons]; rfl
  rw [eG1] at b3
  -- compression pass 1 keeps it
  obtain ⟨A3, r3, B3, rfl, bA3, hs3, bB3⟩ := b3.src_split
  have hr3 := compΦ_not_instr hs3 (by intro l i ex; cases ex)
  subst hr3
  -- the pseudo-instruction pass expands it
  obtain ⟨A4, r4, B4, rfl, bA4, hs4, bB4⟩ := b4.src_split
  have hexp : ∃ q Lq instrs short, expandPseudo H (chainGet r.constants Lq) line name args q = .ok (instrs, short) ∧
      r4 = instrs.map (Item.instr line) := by
    rcases hs4 with ⟨_, _, ex, _⟩ | ⟨_, q, Lq, n, hb⟩
    · cases ex
    · simp only [pseudoBody, bind, Except.bind] at hb
      cases he : expandPseudo H (chainGet r.constants Lq) line name args q with
      | error err => simp [he] at hb
      | ok res =>
        obtain ⟨instrs, short⟩ := res
        simp only [he, pure, Except.pure, Except.ok.injEq, Prod.mk.injEq] at hb
        exact ⟨q, Lq, instrs, short, he, hb.1.symm⟩
  obtain ⟨q, Lq, instrs, short, hexp, rfl⟩ := hexp
  -- aliases, compression pass 2, resolve_aligns
  rw [aliases_append, aliases_append, aliases_map_instr] at b6
  obtain ⟨A6, o6, rfl, bA6, b6'⟩ := b6.append_inv
  obtain ⟨r6, B6, rfl, b6r, bB6⟩ := b6'.append_inv
  have hz := compΦ_instrs line _ r6 b6r
  obtain ⟨A7, o7, rfl, bA7, b7'⟩ := b7.append_inv
  obtain ⟨r7, B7, rfl, b7r, bB7⟩ := b7'.append_inv
  -- the prefix and the suffix, as images of the source prefix and suffix
  have chain : ∀ {X X1 X3 X4 X6 X7 : List Item}, Expands X X1 →
      BlocksP (CompΦ H r.constants compress) (resolveRegisterAliases X1 r.constants) X3 →
      BlocksP (BodyΦ (pseudoBody H r.constants)) X3 X4 →
      BlocksP (CompΦ H r.constants compress) (resolveRegisterAliases X4 r.constants) X6 →
      BlocksP (BodyΦ alignBody) X6 X7 → Expands X X7 := by
    intro X X1 X3 X4 X6 X7 e1 e3 e4 e6 e7
    exact ((((e1.trans (aliases_expands X1 r.constants)).trans (blocksP_expands (fun _ _ => compΦ_img) e3)).trans
      (blocksP_expands (fun _ _ => bodyΦ_img (pseudoBody_img H r.constants)) e4)).trans
      ((aliases_expands X4 r.constants).trans (blocksP_expands (fun _ _ => compΦ_img) e6))).trans
      (blocksP_expands (fun _ _ => bodyΦ_img alignBody_img) e7)
  have xA : Expands A A7 := chain xA1 bA3 bA4 bA6 bA7
  have xB : Expands B B7 := chain xB1 bB3 bB4 bB6 bB7
  have hr7 := align_instrs r6 r7 (zip_all_instr hz) b7r
  subst hr7
  refine ⟨A7 ++ (r7 ++ B7), A7, r7, B7, q, Lq, instrs, short, rfl, hexp, hz, ?_, st7.agree, st7.names_eq, ?_,
    ⟨_, hlay, rfl, rfl, rfl⟩, xA, xB, st7.nonneg⟩
  · intro P' a S' eG hnl
    exact placed_of_land hland hbytes eG hnl
  · intro hc hsrc P' ln cf S' eG hcc
    subst hc
    obtain ⟨i, hi, hit, htake⟩ := BB.Props.C12.strip_index eG (by intro l n ex; cases ex)
    rcases decided_holds_final H r.constants hnn (by rw [e]; exact h1) h2 h3 h4 h6 h7 i hi hit hcc with
      ho | ⟨ins, c, preds, p, L, hdec, _, _, htr⟩
    · exfalso
      obtain ⟨x0, hx0, rfl⟩ := mem_aliases ho
      rw [e1] at hx0
      have := hsrc _ _ (c3 _ (mem_strip hx0).1)
      rw [mapRegs_isCompressed, this] at hcc
      cases hcc
    · refine ⟨ins, c, preds, p, L, hdec, ?_⟩
      have hq : sizeSum ((strip (A7 ++ (r7 ++ B7))).take i) = sizeSum P' := by rw [htake, sizeSum_strip]
      rw [hq] at htr
      exact htr

/-! ### where the block stands: the byte offset, tied to the layout and to the source prefix -/

/-- **`off` is the byte offset of the source item of `items = A ++ s :: B` (source line `line`) in the output.**
    `lay` is the layout the model computes (`layoutOf`, Props/C04: a function of the inputs; its tables are the
    returned ones); the list it holds after resolve_aligns is `P7 ++ blk ++ S7`, where `P7` is the image of the
    source PREFIX `A` and `S7` of the source SUFFIX `B` (`Expands`, Lemmas/Order: item by item, in order — a marker
    disappears, data stays one item of the same size, an instruction stays one item, a pseudo-instruction
    becomes one or two instructions, an `align` becomes its padding), `blk` consists of instruction items of
    the line `line` only, and `off` is the total size of `P7` — hence `0 ≤ off`, and `off` is the offset `Land`
    gives the first item of `blk` in `r.bytes`. -/
def SourceAt (H : Hooks) (compress : Bool) (items : List Item) (r : AsmResult) (A B : List Item) (line : Line)
    (off : Int) : Prop :=
  ∃ (lay : Layout) (P7 blk S7 : List Item), layoutOf H compress items = .ok lay ∧ lay.labels = r.labels ∧
    lay.constants = r.constants ∧ lay.aligned = P7 ++ (blk ++ S7) ∧ Expands A P7 ∧ Expands B S7 ∧
    blk ≠ [] ∧ (∀ x ∈ blk, ∃ i, x = .instr line i) ∧ off = sizeSum P7 ∧ 0 ≤ off

theorem zip_line {H : Hooks} {constants : Dict} {compress : Bool} {line : Line} {l : List Instr} {xs : List Item}
    (h : Zip (FinalOf H constants compress line) l xs) : ∀ x ∈ xs, ∃ i, x = .instr line i := by
  induction h with
  | nil => intro x hx; simp at hx
  | cons hq _ ih =>
    intro x hx
    rcases List.mem_cons.mp hx with rfl | hx
    · rcases hq with rfl | ⟨_, cf, _, _, _, _, rfl, _⟩
      · exact ⟨_, rfl⟩
      · exact ⟨_, rfl⟩
    · exact ih x hx

theorem Zip.length_eq {α β : Type} {Q : α → β → Prop} {l : List α} {l' : List β} (h : Zip Q l l') : l.length = l'.length := by
  induction h with
  | nil => rfl
  | cons _ _ ih => simp [ih]

theorem strip_instrs {line : Line} : ∀ {xs : List Item}, (∀ x ∈ xs, ∃ i, x = .instr line i) → strip xs = xs
  | [], _ => rfl
  | x :: xs, h => by
    obtain ⟨i, rfl⟩ := h x List.mem_cons_self
    rw [strip_cons_of_not_label (by intro l n e; cases e), strip_instrs (fun y hy => h y (List.mem_cons_of_mem _ hy))]

/-- what `pseudo_trace` returns, packaged -/
theorem sourceAt_of_trace {H : Hooks} {compress : Bool} {items : List Item} {r : AsmResult} {A B G7 P blk S : List Item}
    {line : Line} {l : List Instr} (eG : G7 = P ++ (blk ++ S))
    (hz : Zip (FinalOf H r.constants compress line) l blk) (hne : l ≠ [])
    (hlay : ∃ lay, layoutOf H compress items = .ok lay ∧ lay.labels = r.labels ∧ lay.constants = r.constants ∧
      strip G7 = lay.aligned)
    (xA : Expands A P) (xB : Expands B S) (hnn : NonNeg G7) : SourceAt H compress items r A B line (sizeSum P) := by
  obtain ⟨lay, h1, h2, h3, h4⟩ := hlay
  have hb := zip_line hz
  refine ⟨lay, strip P, blk, strip S, h1, h2, h3, ?_, xA.trans (strip_expands P), xB.trans (strip_expands S), ?_, hb,
    (sizeSum_strip P).symm, ?_⟩
  · rw [← h4, eG, strip_append, strip_append, strip_instrs hb]
  · intro e
    have := hz.length_eq
    rw [e] at this
    exact hne (List.length_eq_zero_iff.mp this)
  · apply sizeSum_nonneg
    intro y hy
    exact hnn y (by rw [eG]; exact List.mem_append_left _ hy)

end BB.Lemmas
