/-
  BB.Lemmas.NearRange — a `call` / `tail` that is far in the plain run and near in the -c run: the `jal`
  of the -c run is within ±1 MiB of its label in the FINAL layout (`near_range`).

  The `jal` item is followed back through the -c run (compression pass 2 and the aliases are item-wise,
  the pseudo-instruction pass by `walk_find`) to the source item `y` that produced it and the state
  `(sizeSum oA1, Lm)` at which it was expanded.  `corr_prefix` and the determinism of `Corr` identify `y`
  with the source item of the far pair of the plain run: it is a `call` / `tail`, so the -c run chose the
  near form there because the distance in the hybrid layout (`prefix_inv`) was within range; every later
  pass only brings that distance closer (`dist_shrink`).
-/
import BB.Lemmas.NearAlign
set_option linter.unusedSimpArgs false
set_option linter.unusedVariables false
namespace BB.Lemmas
open BB BB.Spec
open BB.Props.C05 (documented expand_matches_doc)

variable {H : Hooks} {constants : Dict}

theorem IWd.split_right {P : List Item} : ∀ {G : List Item} {x : Item} {S : List Item}, IWd H constants G (P ++ x :: S) →
    ∃ P' y S', G = P' ++ y :: S' ∧ IWd H constants P' P ∧ IWd H constants S' S ∧
      (y = x ∨ ∃ line ins cf c preds p L, y = .instr line ins ∧ x = .instr line cf ∧ DecidedAt H constants line cf ins c preds p L) := by
  induction P with
  | nil =>
    intro G x S h
    simp only [List.nil_append] at h
    cases h with
    | same _ hr => exact ⟨[], x, _, rfl, .nil, hr, Or.inl rfl⟩
    | comp line ins cf c preds p L d hr => exact ⟨[], _, _, rfl, .nil, hr, Or.inr ⟨line, ins, cf, c, preds, p, L, rfl, rfl, d⟩⟩
  | cons z P ih =>
    intro G x S h
    simp only [List.cons_append] at h
    cases h with
    | same _ hr =>
      obtain ⟨P', y, S', rfl, h1, h2, h3⟩ := ih hr
      exact ⟨z :: P', y, S', rfl, .same z h1, h2, h3⟩
    | comp line ins cf c preds p L d hr =>
      obtain ⟨P', y, S', rfl, h1, h2, h3⟩ := ih hr
      exact ⟨.instr line ins :: P', y, S', rfl, .comp line ins cf c preds p L d h1, h2, h3⟩

theorem iwd_shrinks {G G' : List Item} (h : IWd H constants G G') (hnn : NonNeg G) : Shrinks G G' := by
  induction h with
  | nil => exact .nil
  | @same it G0 G1 _ ih =>
    have hrest : NonNeg G0 := fun y hy => hnn y (List.mem_cons_of_mem _ hy)
    by_cases hl : ∃ l n, it = .label l n
    · obtain ⟨l, n, rfl⟩ := hl; exact .label l n (ih hrest)
    · have hnl : ∀ l n, it ≠ .label l n := fun l n e => hl ⟨l, n, e⟩
      exact Shrinks.item (repl := [it]) hnl
        (by intro x hx; simp only [List.mem_singleton] at hx; subst hx; exact hnl)
        (by intro x hx; simp only [List.mem_singleton] at hx; subst hx; exact hnn _ List.mem_cons_self)
        (by simp [sizeSum]) (ih hrest)
  | @comp line ins cf c preds p L G0 G1 d _ ih =>
    have hrest : NonNeg G0 := fun y hy => hnn y (List.mem_cons_of_mem _ hy)
    obtain ⟨h0, h1⟩ := decided_uncompressed d
    exact Shrinks.item (repl := [.instr line cf]) (by intro l n e; cases e)
      (by intro x hx; simp only [List.mem_singleton] at hx; subst hx; intro l n e; cases e)
      (by intro x hx; simp only [List.mem_singleton] at hx; subst hx; rw [instr_sizeD, h1]; simp)
      (by simp [sizeSum, instr_sizeD, h0, h1]) (ih hrest)

/-- an expansion that contains a `jal` instruction is that instruction alone: `j`, `jal`, or the near form of
    `call` / `tail` -/
theorem expansion_with_jal {env : String → Option Int} {line : Line} {name : String} {args : List String} {p : Int}
    {instrs : List Instr} {short : Bool} (h : expandPseudo H env line name args p = .ok (instrs, short))
    {nm : String} {rd : RegOp} {imm : Imm} (hm : Instr.j nm rd imm ∈ instrs) :
    instrs = [.j nm rd imm] ∧
    (pseudoKind name = some .j ∨ pseudoKind name = some .jal ∨
      ((pseudoKind name = some .call ∨ pseudoKind name = some .tail) ∧ short = true)) := by
  unfold expandPseudo at h
  cases hk : pseudoKind name with
  | none => simp [hk] at h
  | some k =>
    simp only [hk] at h
    obtain ⟨im, _, hdoc⟩ := expand_matches_doc H env line p h
    unfold documented at hdoc
    simp only at hdoc
    split at hdoc
    all_goals (try (simp at hdoc; done))
    all_goals (simp only [Option.some.injEq] at hdoc; subst hdoc)
    all_goals (try split at hm)
    all_goals (simp only [List.mem_cons, List.mem_nil_iff, or_false, reduceCtorEq, false_or, Instr.j.injEq] at hm)
    all_goals (first
      | (obtain ⟨rfl, rfl, rfl⟩ := hm; simp_all)
      | (exact hm.elim))

theorem pseudoBody_pseudo_inv {l : Line} {nm : String} {args : List String} {p : Int} {L : Dict} {r : List Item} {n : Int}
    (h : pseudoBody H constants (.pseudo l nm args) p L = .ok (r, n)) :
    ∃ instrs short, expandPseudo H (chainGet constants L) l nm args p = .ok (instrs, short) ∧ r = instrs.map (Item.instr l) := by
  simp only [pseudoBody, bind, Except.bind] at h
  cases he : expandPseudo H (chainGet constants L) l nm args p with
  | error err => rw [he] at h; simp at h
  | ok res =>
    obtain ⟨instrs, short⟩ := res
    rw [he] at h
    simp only [pure, Except.pure, Except.ok.injEq, Prod.mk.injEq] at h
    exact ⟨instrs, short, rfl, h.1.symm⟩

theorem singleton_split {α : Type} {a b : α} {P S : List α} (h : [a] = P ++ b :: S) : P = [] ∧ S = [] ∧ a = b := by
  cases P with
  | nil => simp only [List.nil_append, List.cons.injEq] at h; exact ⟨rfl, h.2.symm, h.1⟩
  | cons p0 P => cases P <;> simp at h

theorem dist_aliases (constants : Dict) (A : List Item) (y : Item) (B : List Item) (ℓ : String) :
    dist (resolveRegisterAliases A constants) (aliasItem constants y) (resolveRegisterAliases B constants) ℓ = dist A y B ℓ := by
  unfold dist
  have : resolveRegisterAliases A constants ++ aliasItem constants y :: resolveRegisterAliases B constants
      = resolveRegisterAliases (A ++ y :: B) constants := by
    rw [aliases_append, aliases_cons]
  rw [this, aliases_labelPos, sizeSum_aliases]

/-- **far without -c, near with it: the near `jal` is in range at the end.** -/
theorem near_range (hoff : OffsetHook H) {T : Int} (hT : T < 2147483648)
    {G1 B3 A4 B4 B6 B7 : List Item} {la la4 lb3 lb4 lb6 lb7 : Dict}
    (hiw3 : IWd H constants G1 B3)
    (wa4 : walk (pseudoBody H constants) G1 0 la = .ok (A4, la4))
    (wb4 : walk (pseudoBody H constants) B3 0 lb3 = .ok (B4, lb4))
    (hcorr4 : Corr H constants A4 B4)
    (hiw6 : IWd H constants (resolveRegisterAliases B4 constants) B6)
    (wb7 : walk alignBody B6 0 lb6 = .ok (B7, lb7))
    (hli : ∀ line name args, Item.pseudo line name args ∈ G1 → pseudoKind name = some .li →
      ∀ imm, H.parseImm args.tail line = .ok imm → ImmLabelFree H constants imm)
    (hfix : ∀ l i, Item.instr l i ∈ G1 → i.mapRegs (aliasReg constants) = i)
    (nn3 : NonNeg B3) (nd3 : (labelNames B3).Nodup)
    (ag3 : ∀ ℓ v, labelPos B3 0 ℓ = some v → lb3.get ℓ = some v)
    (lo3 : ∀ ℓ v, ℓ ∉ labelNames B3 → lb3.get ℓ = some v → v ≤ 0)
    (sz3 : sizeSum B3 ≤ T)
    (ag7 : ∀ ℓ u, labelPos B7 0 ℓ = some u → lb7.get ℓ = some u)
    {P1 S1 : List Item} {line : Line} {rd : RegOp} {n : String}
    (hB : B6 = P1 ++ .instr line (.j "jal" rd (.offset n)) :: S1)
    (hn : n ∈ labelNames B3) (hc : constants.get n = none)
    {P0 S0 : List Item} {line' : Line} {rd' rA : RegOp} {imm : Imm}
    (hA : resolveRegisterAliases A4 constants =
      P0 ++ .instr line' (.u "auipc" rA (.hi imm)) :: .instr line' (.i "jalr" rd' rA (.lo imm) true) :: S0)
    (cP : Corr H constants P0 P1) :
    ∀ d1, lb7.get n = some (sizeSum (alignImg P1 0) + d1) → -1048576 ≤ d1 ∧ d1 ≤ 1048575 := by
  intro d1 hd1
  -- sizes are non-negative all along the -c run
  have sh4 := walk_shrinks (pseudoBody_ok H constants) B3 0 lb3 B4 lb4 nn3 wb4
  have nn4 : NonNeg B4 := sh4.nonneg
  have nn5 : NonNeg (resolveRegisterAliases B4 constants) := aliases_nonNeg constants nn4
  have nn6 : NonNeg B6 := (iwd_shrinks hiw6 nn5).nonneg
  -- back through compression pass 2 and the aliases
  rw [hB] at hiw6
  obtain ⟨P5, y5, S5, e5, iP5, iS5, hy5⟩ := IWd.split_right hiw6
  have hy5' : y5 = .instr line (.j "jal" rd (.offset n)) := by
    rcases hy5 with h | ⟨_, _, cf, _, _, _, _, _, e, d⟩
    · exact h
    · cases e
      have := (compressedForm_sizes d.2.2.2.2).2
      simp [Instr.isCompressed] at this
  subst hy5'
  unfold resolveRegisterAliases at e5
  obtain ⟨P4, x4, S4, e4, eP4, ex4, eS4⟩ := map_split e5
  obtain ⟨rd4, rfl⟩ : ∃ rd4, x4 = .instr line (.j "jal" rd4 (.offset n)) := by
    cases x4 <;> simp only [Item.instr.injEq, reduceCtorEq] at ex4
    obtain ⟨rfl, hi⟩ := ex4
    rename_i i4
    cases i4 <;> simp only [Instr.mapRegs, Instr.j.injEq, reduceCtorEq] at hi
    obtain ⟨rfl, _, rfl⟩ := hi
    exact ⟨_, rfl⟩
  -- back through the pseudo-instruction pass
  obtain ⟨A3, y, R3, oA1, Lm, P, S, nn, eB3, hynl, hw1, hby, ePA⟩ :=
    walk_find B3 0 lb3 B4 lb4 wb4 P4 _ S4 e4 (by intro l m e; cases e)
  -- the input item of the plain run at the same place
  have hiw3' := hiw3
  rw [eB3] at hiw3'
  obtain ⟨A, s, R, eG1, iA, iR, hs⟩ := IWd.split_right hiw3'
  -- the walks over the source prefix
  have wa4' := wa4
  rw [eG1] at wa4'
  obtain ⟨oA0, L0, out0, hw0, hout0, eA4⟩ := walk_append_inv A (s :: R) 0 la A4 la4 wa4'
  obtain ⟨r0, L0', rest0, hs0, _, eout0⟩ := walk_append_inv [s] R _ _ out0 la4 hout0
  have hcp := corr_prefix hoff hiw3 wa4 wb4 hcorr4 hli hfix A (s :: R) A3 (y :: R3) oA0 oA1 L0 Lm eG1 eB3 iA hw0 hw1
  -- lifted through the aliases and compression pass 2
  have ePA' : P4 = oA1 ++ P := ePA
  -- the jal is the whole output of its input item
  have hPS : P = [] ∧ S = [] ∧ ((∀ l nm a, y ≠ .pseudo l nm a) ∧ y = .instr line (.j "jal" rd4 (.offset n)) ∨
      ∃ nm args short instrs, y = .pseudo line nm args ∧
        expandPseudo H (chainGet constants Lm) line nm args (0 + sizeSum oA1) = .ok (instrs, short) ∧
        instrs = [.j "jal" rd4 (.offset n)] ∧
        (pseudoKind nm = some .j ∨ pseudoKind nm = some .jal ∨
          ((pseudoKind nm = some .call ∨ pseudoKind nm = some .tail) ∧ short = true))) := by
    by_cases hp : ∃ l nm a, y = .pseudo l nm a
    · obtain ⟨l, nm, args, rfl⟩ := hp
      obtain ⟨instrs, short, he, er⟩ := pseudoBody_pseudo_inv hby
      have hmem : Item.instr line (.j "jal" rd4 (.offset n)) ∈ instrs.map (Item.instr l) := by
        rw [← er]; simp
      obtain ⟨i, hi, ei⟩ := List.mem_map.mp hmem
      simp only [Item.instr.injEq] at ei
      obtain ⟨rfl, rfl⟩ := ei
      obtain ⟨e1, e2⟩ := expansion_with_jal he hi
      rw [e1] at er
      simp only [List.map_cons, List.map_nil] at er
      obtain ⟨rfl, rfl, _⟩ := singleton_split er.symm
      exact ⟨rfl, rfl, Or.inr ⟨nm, args, short, _, rfl, he, e1, e2⟩⟩
    · have hnp : ∀ l nm a, y ≠ .pseudo l nm a := fun l nm a e => hp ⟨l, nm, a, e⟩
      obtain ⟨e1, _⟩ := keep_pseudoBody hnp hby
      obtain ⟨rfl, rfl, e3⟩ := singleton_split e1.symm
      exact ⟨rfl, rfl, Or.inl ⟨hnp, e3⟩⟩
  obtain ⟨rfl, rfl, hykind⟩ := hPS
  have ePA'' : oA1 = P4 := by simpa using ePA'.symm
  subst ePA''
  -- y is not a compressed form: it is the input item of the plain run too
  have hsy : s = y := by
    rcases hs with h | ⟨_, _, cf, _, _, _, _, _, e, d⟩
    · exact h
    · exfalso
      rcases hykind with ⟨_, e'⟩ | ⟨_, _, _, _, e', _⟩
      · rw [e'] at e; cases e
        have := (compressedForm_sizes d.2.2.2.2).2
        simp [Instr.isCompressed] at this
      · rw [e'] at e; cases e
  subst hsy
  -- the prefixes of the two decided lists correspond
  have hcp6 : Corr H constants (resolveRegisterAliases oA0 constants) P1 := by
    have h5 := hcp.aliases
    have hP5 : P5 = resolveRegisterAliases oA1 constants := eP4.symm
    rw [hP5] at iP5
    exact h5.then_iwd (fun l i hm => BB.Props.C04.aliased_fixed hm) iP5
  -- so the far pair is what the plain run made of `s`
  have hA5 : resolveRegisterAliases A4 constants =
      resolveRegisterAliases oA0 constants ++ resolveRegisterAliases (r0 ++ rest0) constants := by
    rw [eA4, eout0, aliases_append]
  have hP0 : resolveRegisterAliases oA0 constants = P0 := hcp6.left_unique cP (by rw [← hA5, hA])
  have hrest : resolveRegisterAliases (r0 ++ rest0) constants =
      .instr line' (.u "auipc" rA (.hi imm)) :: .instr line' (.i "jalr" rd' rA (.lo imm) true) :: S0 := by
    rw [hA5, hP0] at hA
    exact List.append_cancel_left hA
  -- `s` is a call / tail, near in the -c run
  have hcall : ∃ nm args instrs, s = .pseudo line nm args ∧
      expandPseudo H (chainGet constants Lm) line nm args (0 + sizeSum oA1) = .ok (instrs, true) ∧
      (pseudoKind nm = some .call ∨ pseudoKind nm = some .tail) := by
    rcases hykind with ⟨hnp, e'⟩ | ⟨nm, args, short, instrs, e', he, ei, hk⟩
    · -- an instruction: the plain run keeps it, it is no auipc
      exfalso
      subst e'
      obtain ⟨n0, hb0⟩ := walk_single (by intro l m e; cases e) hs0
      obtain ⟨e1, _⟩ := keep_pseudoBody (by intro l m a e; cases e) hb0
      subst e1
      simp [resolveRegisterAliases, Instr.mapRegs] at hrest
    · subst e'
      obtain ⟨n0, hb0⟩ := walk_single (by intro l m e; cases e) hs0
      rcases hk with hk | hk | ⟨hk, rfl⟩
      · exfalso
        obtain ⟨i0, s0, he0, er0⟩ := pseudoBody_pseudo_inv hb0
        simp only [expandPseudo, hk] at he he0
        rw [expandKind_small_indep H (chainGet constants L0) (chainGet constants Lm) line .j args _ (0 + sizeSum oA1) rfl, he] at he0
        simp only [Except.ok.injEq, Prod.mk.injEq] at he0
        rw [er0, ← he0.1, ei] at hrest
        simp [resolveRegisterAliases, Instr.mapRegs] at hrest
      · exfalso
        obtain ⟨i0, s0, he0, er0⟩ := pseudoBody_pseudo_inv hb0
        simp only [expandPseudo, hk] at he he0
        rw [expandKind_small_indep H (chainGet constants L0) (chainGet constants Lm) line .jal args _ (0 + sizeSum oA1) rfl, he] at he0
        simp only [Except.ok.injEq, Prod.mk.injEq] at he0
        rw [er0, ← he0.1, ei] at hrest
        simp [resolveRegisterAliases, Instr.mapRegs] at hrest
      · exact ⟨nm, args, instrs, rfl, he, hk⟩
  obtain ⟨nm, args, instrs, rfl, he, hk⟩ := hcall
  -- the decision of the -c run: the distance in the hybrid layout is within range
  have hkk : ∃ k, pseudoKind nm = some k ∧ (k = .call ∨ k = .tail) := by
    rcases hk with h | h
    · exact ⟨_, h, Or.inl rfl⟩
    · exact ⟨_, h, Or.inr rfl⟩
  obtain ⟨k, hk', hkc⟩ := hkk
  simp only [expandPseudo, hk'] at he
  obtain ⟨ref, im, v1, eargs, hpi, hv1, hshort⟩ := call_short hkc he
  have him := hoff ref line im hpi
  subst him
  have hrange := hshort.mp rfl
  -- which reference?  the expansion is `jal rd4, %offset n`
  have hrefn : ref = n := by
    subst eargs
    rcases hkc with rfl | rfl
    · rw [BB.Props.C05.expand_call H _ line _ ref _ v1 hpi hv1, if_pos hrange] at he
      simp only [Except.ok.injEq, Prod.mk.injEq, and_true] at he
      have hby' := hby
      simp only [pseudoBody, expandPseudo, hk', BB.Props.C05.expand_call H _ line _ ref _ v1 hpi hv1, if_pos hrange, bind,
        Except.bind, pure, Except.pure, Except.ok.injEq, Prod.mk.injEq, List.map_cons, List.map_nil, List.nil_append,
        List.cons.injEq, Item.instr.injEq, Instr.j.injEq, Imm.offset.injEq, true_and, and_true] at hby'
      exact hby'.1.2
    · rw [BB.Props.C05.expand_tail H _ line _ ref _ v1 hpi hv1, if_pos hrange] at he
      simp only [Except.ok.injEq, Prod.mk.injEq, and_true] at he
      have hby' := hby
      simp only [pseudoBody, expandPseudo, hk', BB.Props.C05.expand_tail H _ line _ ref _ v1 hpi hv1, if_pos hrange, bind,
        Except.bind, pure, Except.pure, Except.ok.injEq, Prod.mk.injEq, List.map_cons, List.map_nil, List.nil_append,
        List.cons.injEq, Item.instr.injEq, Instr.j.injEq, Imm.offset.injEq, true_and, and_true] at hby'
      exact hby'.1.2
  have hrefn' : n = ref := hrefn.symm
  subst hrefn'
  obtain ⟨u, hu, hv1u⟩ := offset_eval_ok hc hv1
  -- the hybrid layout
  have nnB3' : NonNeg (A3 ++ Item.pseudo line nm args :: R3) := by rw [← eB3]; exact nn3
  obtain ⟨i1, i2, i3, i4, i5, i6⟩ := prefix_inv (pseudoBody_ok H constants) A3 (.pseudo line nm args :: R3) 0 lb3 oA1 Lm nnB3'
    (by rw [← eB3]; exact nd3) (by rw [← eB3]; exact ag3) (by rw [← eB3]; exact lo3) hw1
  have hynl' : ∀ l m, Item.pseudo line nm args ≠ .label l m := by intro l m e; cases e
  have nnA3 : NonNeg A3 := fun z hz => nnB3' z (List.mem_append_left _ hz)
  have nnR3 : NonNeg R3 := fun z hz => nnB3' z (List.mem_append_right _ (List.mem_cons_of_mem _ hz))
  have nnoA1 : NonNeg oA1 := i3.nonneg
  have hy0 : 0 ≤ (Item.pseudo line nm args).sizeD := nnB3' _ (List.mem_append_right _ List.mem_cons_self)
  have nnHy : NonNeg (oA1 ++ Item.pseudo line nm args :: R3) := by
    intro z hz
    rcases List.mem_append.mp hz with hz | hz
    · exact nnoA1 z hz
    · rcases List.mem_cons.mp hz with rfl | hz
      · exact hy0
      · exact nnR3 z hz
  -- (a) the value the expansion saw is the distance in the hybrid layout
  have hnHy : n ∈ labelNames (oA1 ++ Item.pseudo line nm args :: R3) := by
    rw [labelNames_append, i4, ← labelNames_append, ← eB3]; exact hn
  obtain ⟨vh, hvh⟩ := dist_exists hnHy
  have hw : ∃ w, labelPos (oA1 ++ Item.pseudo line nm args :: R3) 0 n = some w ∧ vh = w - sizeSum oA1 ∧ Lm.get n = some w := by
    unfold dist at hvh
    cases hq : labelPos (oA1 ++ Item.pseudo line nm args :: R3) 0 n with
    | none => simp [hq] at hvh
    | some w =>
      simp only [hq, Option.map_some, Option.some.injEq] at hvh
      refine ⟨w, rfl, hvh.symm, ?_⟩
      by_cases hm : n ∈ labelNames oA1
      · rw [labelPos_append_mem _ _ _ _ hm] at hq
        exact i2 n w hq
      · rw [labelPos_append_not_mem _ _ _ _ hm] at hq
        exact i1 n w hq
  obtain ⟨w, hwpos, hvhw, hLw⟩ := hw
  rw [hu] at hLw
  simp only [Option.some.injEq] at hLw
  subst hLw
  have hv1eq : v1 = vh := by omega
  -- (b) the distance is far from overflowing 32 bits
  have hw0 : 0 ≤ u := labelPos_ge nnHy hwpos
  have hwT : u ≤ 0 + sizeSum (oA1 ++ Item.pseudo line nm args :: R3) := labelPos_le nnHy hwpos
  have hszHy : sizeSum (oA1 ++ Item.pseudo line nm args :: R3) ≤ T := by
    rw [sizeSum_append]
    have : sizeSum B3 = sizeSum A3 + sizeSum (Item.pseudo line nm args :: R3) := by rw [eB3, sizeSum_append]
    omega
  have hnnrest : 0 ≤ sizeSum (Item.pseudo line nm args :: R3) :=
    sizeSum_nonneg (fun z hz => nnB3' z (List.mem_append_right _ hz))
  have hszoA1 : sizeSum oA1 ≤ T := by rw [sizeSum_append] at hszHy; omega
  have hci : cI32 v1 = v1 := cI32_id (by omega) (by omega)
  rw [hci, hv1eq] at hrange
  -- (c) every later pass brings it closer
  -- the pseudo-instruction pass: the rest of the list
  have wb4' := wb4
  rw [eB3] at wb4'
  obtain ⟨oA1', Lm', out4, g1, g2, eB4⟩ := walk_append_inv A3 (Item.pseudo line nm args :: R3) 0 lb3 B4 lb4 wb4'
  rw [hw1] at g1
  cases g1
  obtain ⟨r4, L4', S4', g3, g4, eout4⟩ := walk_append_inv [Item.pseudo line nm args] R3 _ _ out4 lb4 g2
  obtain ⟨n4, g5⟩ := walk_single hynl' g3
  rw [hby] at g5
  simp only [List.nil_append, Except.ok.injEq, Prod.mk.injEq] at g5
  have hS4 : S4 = S4' := by
    rw [eB4, eout4, ← g5.1] at e4
    have := List.append_cancel_left e4
    simp only [List.cons_append, List.nil_append, List.cons.injEq, true_and] at this
    exact this.symm
  subst hS4
  have shR : Shrinks R3 S4 := walk_shrinks (pseudoBody_ok H constants) R3 _ _ S4 lb4 nnR3 g4
  have hx4nl : ∀ l m, Item.instr line (.j "jal" rd4 (.offset n)) ≠ .label l m := by intro l m e; cases e
  have hx4sz : (Item.instr line (.j "jal" rd4 (.offset n))).sizeD = 4 := by rw [instr_sizeD]; rfl
  have hysz : 4 ≤ (Item.pseudo line nm args).sizeD := by
    simp only [Item.sizeD, Item.size?, Option.getD_some]; split <;> omega
  obtain ⟨v4, hv4, c4⟩ := dist_shrink (Shrinks.refl nnoA1) shR hynl' hx4nl (by omega) (by omega) hvh
  -- the aliases
  have hv5 : dist (resolveRegisterAliases oA1 constants) (aliasItem constants (.instr line (.j "jal" rd4 (.offset n))))
      (resolveRegisterAliases S4 constants) n = some v4 := by rw [dist_aliases]; exact hv4
  -- compression pass 2
  have e5' : resolveRegisterAliases B4 constants =
      resolveRegisterAliases oA1 constants ++ aliasItem constants (.instr line (.j "jal" rd4 (.offset n))) :: resolveRegisterAliases S4 constants := by
    rw [e4, aliases_append, aliases_cons]
  have nn5a : NonNeg (resolveRegisterAliases oA1 constants) := fun z hz => nn5 z (by rw [e5']; exact List.mem_append_left _ hz)
  have nn5s : NonNeg (resolveRegisterAliases S4 constants) :=
    fun z hz => nn5 z (by rw [e5']; exact List.mem_append_right _ (List.mem_cons_of_mem _ hz))
  have iP5' : IWd H constants (resolveRegisterAliases oA1 constants) P1 := by
    have : P5 = resolveRegisterAliases oA1 constants := eP4.symm
    rw [this] at iP5; exact iP5
  have iS5' : IWd H constants (resolveRegisterAliases S4 constants) S1 := by
    have : S5 = resolveRegisterAliases S4 constants := eS4.symm
    rw [this] at iS5; exact iS5
  have hxa : aliasItem constants (.instr line (.j "jal" rd4 (.offset n))) = .instr line (.j "jal" rd (.offset n)) := ex4
  rw [hxa] at hv5
  have hxnl : ∀ l m, Item.instr line (.j "jal" rd (.offset n)) ≠ .label l m := by intro l m e; cases e
  have hxsz : (Item.instr line (.j "jal" rd (.offset n))).sizeD = 4 := by rw [instr_sizeD]; rfl
  obtain ⟨v6, hv6, c6⟩ := dist_shrink (iwd_shrinks iP5' nn5a) (iwd_shrinks iS5' nn5s) hxnl hxnl (by omega) (by omega) hv5
  -- resolve_aligns
  have wb7' := wb7
  rw [hB] at wb7'
  obtain ⟨P7, Lm7, out7, k1, k2, eB7⟩ := walk_append_inv P1 (_ :: S1) 0 lb6 B7 lb7 wb7'
  obtain ⟨r7, L7', S7, k3, k4, eout7⟩ := walk_append_inv [Item.instr line (.j "jal" rd (.offset n))] S1 _ _ out7 lb7 k2
  obtain ⟨n7, k5⟩ := walk_single hxnl k3
  have hr7 : r7 = [Item.instr line (.j "jal" rd (.offset n))] := (keepItem_ok (by simpa [alignBody] using k5)).1
  have nnP1 : NonNeg P1 := fun z hz => nn6 z (by rw [hB]; exact List.mem_append_left _ hz)
  have nnS1 : NonNeg S1 := fun z hz => nn6 z (by rw [hB]; exact List.mem_append_right _ (List.mem_cons_of_mem _ hz))
  have shP := walk_shrinks alignBody_ok P1 0 lb6 P7 Lm7 nnP1 k1
  have shS := walk_shrinks alignBody_ok S1 _ _ S7 lb7 nnS1 k4
  obtain ⟨v7, hv7, c7⟩ := dist_shrink shP shS hxnl hxnl (by omega) (by omega) hv6
  have hP7 : P7 = alignImg P1 0 := walk_alignImg P1 0 lb6 P7 Lm7 k1
  -- the final distance is `d1`
  have hfin : lb7.get n = some (v7 + sizeSum P7) := by
    unfold dist at hv7
    cases hq : labelPos (P7 ++ Item.instr line (.j "jal" rd (.offset n)) :: S7) 0 n with
    | none => simp [hq] at hv7
    | some w7 =>
      simp only [hq, Option.map_some, Option.some.injEq] at hv7
      have := ag7 n w7 (by rw [eB7, eout7, hr7]; exact hq)
      rw [this]; congr 1; omega
  rw [hd1, ← hP7] at hfin
  simp only [Option.some.injEq] at hfin
  have hd : d1 = v7 := by omega
  rw [hd]
  exact ((c4.trans c6).trans c7).between (by omega) (by omega) hrange.1 hrange.2

end BB.Lemmas
