/-
  BB.Lemmas.Order — every pass maps the item list item by item, in order.

  `Img it repl` is what one source item may turn into: items carrying the same source line, markers
  (labels, constants) only into markers, data items into data of the same total size, an instruction
  into one instruction or into 2 / 4 bytes of data.  `Expands items out` says `out` is the
  concatenation, in order, of one such image per item.  It is reflexive-ish (`Expands.refl`),
  transitive, and every pass of `assembleItems` satisfies it.
-/
import BB.Lemmas.Final
namespace BB.Lemmas
open BB

def Item.isMarker : Item → Bool
  | .label .. => true
  | .constant .. => true
  | _ => false

def Item.isData : Item → Bool
  | .includeBytes .. => true
  | .string .. => true
  | .sequence .. => true
  | .pack .. => true
  | .shorthandPack .. => true
  | .blob .. => true
  | _ => false

def Item.isInstr : Item → Bool
  | .instr .. => true
  | _ => false

structure Img (it : Item) (repl : List Item) : Prop where
  line : ∀ x ∈ repl, x.line = it.line
  marker : Item.isMarker it = true → ∀ x ∈ repl, Item.isMarker x = true
  data : Item.isData it = true → (∀ x ∈ repl, Item.isData x = true) ∧ sizeSum repl = it.sizeD
  instr : Item.isInstr it = true →
    (∃ x, repl = [x] ∧ Item.isInstr x = true) ∨
    ((∀ x ∈ repl, Item.isData x = true) ∧ (sizeSum repl = 2 ∨ sizeSum repl = 4))

inductive Expands : List Item → List Item → Prop
  | nil : Expands [] []
  | cons {it : Item} {rest repl out : List Item} : Img it repl → Expands rest out →
      Expands (it :: rest) (repl ++ out)

theorem Img.same {it it' : Item} (hl : it'.line = it.line)
    (hm : Item.isMarker it = true → Item.isMarker it' = true)
    (hd : Item.isData it = true → Item.isData it' = true ∧ it'.sizeD = it.sizeD)
    (hi : Item.isInstr it = true → Item.isInstr it' = true) : Img it [it'] := by
  refine ⟨?_, ?_, ?_, ?_⟩
  · intro x hx; simp only [List.mem_singleton] at hx; subst hx; exact hl
  · intro h x hx; simp only [List.mem_singleton] at hx; subst hx; exact hm h
  · intro h
    refine ⟨?_, ?_⟩
    · intro x hx; simp only [List.mem_singleton] at hx; subst hx; exact (hd h).1
    · simp [sizeSum, (hd h).2]
  · intro h; exact Or.inl ⟨it', rfl, hi h⟩

theorem Img.refl (it : Item) : Img it [it] :=
  Img.same rfl (fun h => h) (fun h => ⟨h, rfl⟩) (fun h => h)

/-- an item that is neither marker, data nor instruction (pseudo, align): only the line is tracked -/
theorem Img.other {it : Item} {repl : List Item} (hl : ∀ x ∈ repl, x.line = it.line)
    (hm : Item.isMarker it = false) (hd : Item.isData it = false) (hi : Item.isInstr it = false) :
    Img it repl :=
  ⟨hl, fun h => by simp [hm] at h, fun h => by simp [hd] at h, fun h => by simp [hi] at h⟩

theorem Img.drop {it : Item} (hd : Item.isData it = false) (hi : Item.isInstr it = false) : Img it [] :=
  ⟨fun x hx => by simp at hx, fun _ x hx => by simp at hx, fun h => by simp [hd] at h,
   fun h => by simp [hi] at h⟩

theorem Expands.refl : ∀ l : List Item, Expands l l
  | [] => .nil
  | it :: rest => by
    have := Expands.cons (Img.refl it) (Expands.refl rest)
    simpa using this

theorem Expands.append {a b c d : List Item} (h1 : Expands a b) (h2 : Expands c d) :
    Expands (a ++ c) (b ++ d) := by
  induction h1 with
  | nil => simpa using h2
  | cons hi _ ih =>
    rw [List.cons_append, List.append_assoc]
    exact .cons hi ih

theorem Expands.append_inv {a c : List Item} : ∀ {out : List Item}, Expands (a ++ c) out →
    ∃ o1 o2, out = o1 ++ o2 ∧ Expands a o1 ∧ Expands c o2 := by
  induction a with
  | nil => intro out h; exact ⟨[], out, rfl, .nil, by simpa using h⟩
  | cons it rest ih =>
    intro out h
    rw [List.cons_append] at h
    cases h with
    | cons hi hr =>
      obtain ⟨o1, o2, rfl, e1, e2⟩ := ih hr
      exact ⟨_ ++ o1, o2, by rw [List.append_assoc], .cons hi e1, e2⟩

theorem Expands.nil_inv {out : List Item} (h : Expands [] out) : out = [] := by
  cases h; rfl

theorem Expands.line_mem {a out : List Item} (h : Expands a out) :
    ∀ x ∈ out, ∃ y ∈ a, x.line = y.line := by
  induction h with
  | nil => intro x hx; simp at hx
  | cons hi _ ih =>
    intro x hx
    rcases List.mem_append.mp hx with hx | hx
    · exact ⟨_, List.mem_cons_self, hi.line x hx⟩
    · obtain ⟨y, hy, e⟩ := ih x hx
      exact ⟨y, List.mem_cons_of_mem _ hy, e⟩

theorem Expands.all_marker {a out : List Item} (h : Expands a out)
    (ha : ∀ y ∈ a, Item.isMarker y = true) : ∀ x ∈ out, Item.isMarker x = true := by
  induction h with
  | nil => intro x hx; simp at hx
  | cons hi _ ih =>
    intro x hx
    rcases List.mem_append.mp hx with hx | hx
    · exact hi.marker (ha _ List.mem_cons_self) x hx
    · exact ih (fun y hy => ha y (List.mem_cons_of_mem _ hy)) x hx

theorem Expands.all_data {a out : List Item} (h : Expands a out)
    (ha : ∀ y ∈ a, Item.isData y = true) :
    (∀ x ∈ out, Item.isData x = true) ∧ sizeSum out = sizeSum a := by
  induction h with
  | nil => exact ⟨fun x hx => by simp at hx, rfl⟩
  | cons hi _ ih =>
    obtain ⟨d1, d2⟩ := hi.data (ha _ List.mem_cons_self)
    obtain ⟨i1, i2⟩ := ih (fun y hy => ha y (List.mem_cons_of_mem _ hy))
    refine ⟨?_, ?_⟩
    · intro x hx
      rcases List.mem_append.mp hx with hx | hx
      · exact d1 x hx
      · exact i1 x hx
    · rw [sizeSum_append, sizeSum_cons, d2, i2]

theorem Img.trans {it : Item} {repl out : List Item} (h1 : Img it repl) (h2 : Expands repl out) :
    Img it out := by
  refine ⟨?_, ?_, ?_, ?_⟩
  · intro x hx
    obtain ⟨y, hy, e⟩ := h2.line_mem x hx
    rw [e]; exact h1.line y hy
  · intro hm; exact h2.all_marker (h1.marker hm)
  · intro hd
    obtain ⟨d1, d2⟩ := h1.data hd
    obtain ⟨e1, e2⟩ := h2.all_data d1
    exact ⟨e1, by rw [e2, d2]⟩
  · intro hi
    rcases h1.instr hi with ⟨x, rfl, hx⟩ | ⟨d1, d2⟩
    · cases h2 with
      | cons hix hr =>
        have := Expands.nil_inv hr
        subst this
        simpa using hix.instr hx
    · obtain ⟨e1, e2⟩ := h2.all_data d1
      exact Or.inr ⟨e1, by rw [e2]; exact d2⟩

theorem Expands.trans {a b : List Item} (h1 : Expands a b) : ∀ {c : List Item}, Expands b c → Expands a c := by
  induction h1 with
  | nil => intro c h; rw [Expands.nil_inv h]; exact .nil
  | cons hi _ ih =>
    intro c h
    obtain ⟨o1, o2, rfl, e1, e2⟩ := Expands.append_inv h
    exact .cons (hi.trans e1) (ih e2)

/-! ### the loop combinator and List.mapM -/

theorem walk_expands {f : Item → Int → Dict → Except Err (List Item × Int)}
    (hf : ∀ it p L repl n, (∀ line nm, it ≠ .label line nm) → f it p L = .ok (repl, n) → Img it repl)
    (G : List Item) : ∀ (p : Int) (L : Dict) (G' : List Item) (L' : Dict),
    walk f G p L = .ok (G', L') → Expands G G' := by
  induction G with
  | nil =>
    intro p L G' L' h
    simp only [walk, Except.ok.injEq, Prod.mk.injEq] at h
    rw [← h.1]; exact .nil
  | cons it rest ih =>
    intro p L G' L' h
    by_cases hlab : ∃ line nm, it = .label line nm
    · obtain ⟨line, nm, rfl⟩ := hlab
      simp only [walk, bind, Except.bind] at h
      cases hr : walk f rest p L with
      | error e => simp [hr] at h
      | ok r =>
        obtain ⟨out, l⟩ := r
        simp only [hr, pure, Except.pure, Except.ok.injEq, Prod.mk.injEq] at h
        rw [← h.1]
        exact Expands.cons (repl := [Item.label line nm]) (Img.refl _) (ih p L out l hr)
    · have hnl : ∀ line nm, it ≠ .label line nm := fun line nm e => hlab ⟨line, nm, e⟩
      have hw : walk f (it :: rest) p L = (do
          let (repl, n) ← f it p L
          let (out, l) ← walk f rest (p + sizeSum repl) (L.shiftAbove p n)
          pure (repl ++ out, l)) := by
        cases it <;> first | rfl | exact absurd rfl (hnl _ _)
      rw [hw] at h
      simp only [bind, Except.bind] at h
      cases hb : f it p L with
      | error e => simp [hb] at h
      | ok r =>
        obtain ⟨repl, n⟩ := r
        simp only [hb] at h
        cases hr : walk f rest (p + sizeSum repl) (L.shiftAbove p n) with
        | error e => simp [hr] at h
        | ok r2 =>
          obtain ⟨out, l⟩ := r2
          simp only [hr, pure, Except.pure, Except.ok.injEq, Prod.mk.injEq] at h
          rw [← h.1]
          exact .cons (hf it p L repl n hnl hb) (ih _ _ out l hr)

theorem mapM_expands {g : Item → Except Err Item} (hg : ∀ it it', g it = .ok it' → Img it [it'])
    (G : List Item) : ∀ out, G.mapM g = .ok out → Expands G out := by
  induction G with
  | nil =>
    intro out h
    simp only [List.mapM_nil, pure, Except.pure, Except.ok.injEq] at h
    rw [← h]; exact .nil
  | cons it rest ih =>
    intro out h
    obtain ⟨it', out', h1, h2, rfl⟩ := mapM_cons_ok h
    exact Expands.cons (repl := [it']) (hg it it' h1) (ih out' h2)

theorem map_expands (g : Item → Item) (hg : ∀ it, Img it [g it]) (G : List Item) : Expands G (G.map g) := by
  induction G with
  | nil => exact .nil
  | cons it rest ih => exact Expands.cons (repl := [g it]) (hg it) ih

end BB.Lemmas
