/-
  BB.Lemmas.Order — every pass maps the item list item by item, in order.

  `Img it repl` is what one source item may turn into: items carrying the same source line; a marker
  (label, constant) stays or disappears; a data item stays ONE data item of the same size (a blob stays
  the same blob); an instruction stays ONE item, an instruction or its 2 / 4 bytes; a pseudo-instruction
  stays or becomes one or two machine instructions (2 / 4 / 6 / 8 bytes - never dropped, never more);
  an `align a` stays or becomes nothing or one blob of `0 < n < a` zero bytes.  `Expands items out` says `out` is the
  concatenation, in order, of one such image per item.  It is reflexive-ish (`Expands.refl`),
  transitive, and every pass of `assembleItems` satisfies it.
-/
import BB.Lemmas.Final
namespace BB.Lemmas
open BB

def Item.isMarker : Item → Bool
  | .label .. => true
  | .constant .. => true
  | _ => false

def Item.isData : Item → Bool
  | .includeBytes .. => true
  | .string .. => true
  | .sequence .. => true
  | .pack .. => true
  | .shorthandPack .. => true
  | .blob .. => true
  | _ => false

def Item.isInstr : Item → Bool
  | .instr .. => true
  | _ => false

/-- items whose image is pinned down exactly (`SpecImg`) -/
def Item.isSpecial : Item → Bool
  | .label .. => true
  | .constant .. => true
  | .blob .. => true
  | .pseudo .. => true
  | .align .. => true
  | _ => false

/-- one machine instruction, still an instruction item or already its 2 / 4 bytes -/
def Item.isCode (x : Item) : Prop :=
  Item.isInstr x = true ∨ (Item.isData x = true ∧ (x.sizeD = 2 ∨ x.sizeD = 4))

/-- image of a pseudo-instruction once it is expanded: one or two machine instructions -/
def PseudoImg (r : List Item) : Prop :=
  (∃ x, r = [x] ∧ Item.isCode x) ∨ (∃ x y, r = [x, y] ∧ Item.isCode x ∧ Item.isCode y)

/-- what a marker, a blob, a pseudo-instruction, an alignment may turn into when it does not stay as
    it is: a label / constant disappears (its value has gone to the tables), a blob never changes, a
    pseudo-instruction becomes one or two machine instructions (never nothing, never more), an
    `align a` becomes nothing or ONE blob of `0 < n < a` zero bytes -/
def SpecImg : Item → List Item → Prop
  | .label .., repl => repl = []
  | .constant .., repl => repl = []
  | .pseudo .., repl => PseudoImg repl
  | .align line a, repl =>
      repl = [] ∨ ∃ n : Nat, 0 < n ∧ (n : Int) < a ∧ repl = [.blob line (List.replicate n 0)]
  | _, _ => False

structure Img (it : Item) (repl : List Item) : Prop where
  line : ∀ x ∈ repl, x.line = it.line
  marker : Item.isMarker it = true → ∀ x ∈ repl, Item.isMarker x = true
  /-- a data item stays ONE data item of the same size -/
  data : Item.isData it = true → ∃ x, repl = [x] ∧ Item.isData x = true ∧ x.sizeD = it.sizeD
  /-- an instruction stays ONE item: an instruction, or its 2 / 4 bytes -/
  instr : Item.isInstr it = true → ∃ x, repl = [x] ∧ Item.isCode x
  /-- markers, blobs, pseudo-instructions and alignments: unchanged, or exactly as `SpecImg` says -/
  special : Item.isSpecial it = true → repl = [it] ∨ SpecImg it repl

inductive Expands : List Item → List Item → Prop
  | nil : Expands [] []
  | cons {it : Item} {rest repl out : List Item} : Img it repl → Expands rest out →
      Expands (it :: rest) (repl ++ out)

theorem Item.isCode_size {x : Item} (h : Item.isCode x) : x.sizeD = 2 ∨ x.sizeD = 4 := by
  rcases h with h | ⟨_, h⟩
  · cases x with
    | instr line ins =>
      simp only [Item.sizeD, Item.size?, Option.getD_some, Instr.size]
      split <;> simp
    | _ => simp [Item.isInstr] at h
  · exact h

/-- an expanded pseudo-instruction totals 2, 4, 6 or 8 bytes -/
theorem PseudoImg.size {r : List Item} (h : PseudoImg r) :
    sizeSum r = 2 ∨ sizeSum r = 4 ∨ sizeSum r = 6 ∨ sizeSum r = 8 := by
  rcases h with ⟨x, rfl, hx⟩ | ⟨x, y, rfl, hx, hy⟩
  · have := Item.isCode_size hx
    simp only [sizeSum, List.map_cons, List.map_nil, List.sum_cons, List.sum_nil]; omega
  · have h1 := Item.isCode_size hx
    have h2 := Item.isCode_size hy
    simp only [sizeSum, List.map_cons, List.map_nil, List.sum_cons, List.sum_nil]; omega

theorem Img.same {it it' : Item} (hl : it'.line = it.line)
    (hs : Item.isSpecial it = false)
    (hm : Item.isMarker it = true → Item.isMarker it' = true)
    (hd : Item.isData it = true → Item.isData it' = true ∧ it'.sizeD = it.sizeD)
    (hi : Item.isInstr it = true → Item.isInstr it' = true) : Img it [it'] := by
  refine ⟨?_, ?_, ?_, ?_, ?_⟩
  · intro x hx; simp only [List.mem_singleton] at hx; subst hx; exact hl
  · intro h x hx; simp only [List.mem_singleton] at hx; subst hx; exact hm h
  · intro h; exact ⟨it', rfl, (hd h).1, (hd h).2⟩
  · intro h; exact ⟨it', rfl, Or.inl (hi h)⟩
  · intro h; rw [hs] at h; cases h

theorem Img.refl (it : Item) : Img it [it] := by
  refine ⟨?_, ?_, ?_, ?_, ?_⟩
  · intro x hx; simp only [List.mem_singleton] at hx; subst hx; rfl
  · intro h x hx; simp only [List.mem_singleton] at hx; subst hx; exact h
  · intro h; exact ⟨it, rfl, h, rfl⟩
  · intro h; exact ⟨it, rfl, Or.inl h⟩
  · intro _; exact Or.inl rfl

/-- a label / constant is consumed -/
theorem Img.drop {it : Item} (hm : Item.isMarker it = true) : Img it [] := by
  refine ⟨fun x hx => by simp at hx, fun _ x hx => by simp at hx, ?_, ?_, ?_⟩
  · intro h; cases it <;> simp [Item.isMarker, Item.isData] at hm h
  · intro h; cases it <;> simp [Item.isMarker, Item.isInstr] at hm h
  · intro _; cases it <;> first | (simp [Item.isMarker] at hm; done) | exact Or.inr rfl

/-- a special item with a given `SpecImg` -/
theorem Img.spec {it : Item} {repl : List Item} (hl : ∀ x ∈ repl, x.line = it.line)
    (hm : Item.isMarker it = false) (hd : Item.isData it = false) (hi : Item.isInstr it = false)
    (h : SpecImg it repl) : Img it repl :=
  ⟨hl, fun h => by simp [hm] at h, fun h => by simp [hd] at h, fun h => by simp [hi] at h, fun _ => Or.inr h⟩

theorem Expands.refl : ∀ l : List Item, Expands l l
  | [] => .nil
  | it :: rest => by
    have := Expands.cons (Img.refl it) (Expands.refl rest)
    simpa using this

theorem Expands.append {a b c d : List Item} (h1 : Expands a b) (h2 : Expands c d) :
    Expands (a ++ c) (b ++ d) := by
  induction h1 with
  | nil => simpa using h2
  | cons hi _ ih =>
    rw [List.cons_append, List.append_assoc]
    exact .cons hi ih

theorem Expands.append_inv {a c : List Item} : ∀ {out : List Item}, Expands (a ++ c) out →
    ∃ o1 o2, out = o1 ++ o2 ∧ Expands a o1 ∧ Expands c o2 := by
  induction a with
  | nil => intro out h; exact ⟨[], out, rfl, .nil, by simpa using h⟩
  | cons it rest ih =>
    intro out h
    rw [List.cons_append] at h
    cases h with
    | cons hi hr =>
      obtain ⟨o1, o2, rfl, e1, e2⟩ := ih hr
      exact ⟨_ ++ o1, o2, by rw [List.append_assoc], .cons hi e1, e2⟩

theorem Expands.nil_inv {out : List Item} (h : Expands [] out) : out = [] := by
  cases h; rfl

theorem Expands.line_mem {a out : List Item} (h : Expands a out) :
    ∀ x ∈ out, ∃ y ∈ a, x.line = y.line := by
  induction h with
  | nil => intro x hx; simp at hx
  | cons hi _ ih =>
    intro x hx
    rcases List.mem_append.mp hx with hx | hx
    · exact ⟨_, List.mem_cons_self, hi.line x hx⟩
    · obtain ⟨y, hy, e⟩ := ih x hx
      exact ⟨y, List.mem_cons_of_mem _ hy, e⟩

theorem Expands.all_marker {a out : List Item} (h : Expands a out)
    (ha : ∀ y ∈ a, Item.isMarker y = true) : ∀ x ∈ out, Item.isMarker x = true := by
  induction h with
  | nil => intro x hx; simp at hx
  | cons hi _ ih =>
    intro x hx
    rcases List.mem_append.mp hx with hx | hx
    · exact hi.marker (ha _ List.mem_cons_self) x hx
    · exact ih (fun y hy => ha y (List.mem_cons_of_mem _ hy)) x hx

theorem Expands.all_data {a out : List Item} (h : Expands a out)
    (ha : ∀ y ∈ a, Item.isData y = true) :
    (∀ x ∈ out, Item.isData x = true) ∧ sizeSum out = sizeSum a := by
  induction h with
  | nil => exact ⟨fun x hx => by simp at hx, rfl⟩
  | cons hi _ ih =>
    obtain ⟨x, rfl, d1, d2⟩ := hi.data (ha _ List.mem_cons_self)
    obtain ⟨i1, i2⟩ := ih (fun y hy => ha y (List.mem_cons_of_mem _ hy))
    refine ⟨?_, ?_⟩
    · intro z hz
      rcases List.mem_append.mp hz with hz | hz
      · simp only [List.mem_singleton] at hz; subst hz; exact d1
      · exact i1 z hz
    · rw [sizeSum_append, sizeSum_cons, i2]
      simp [sizeSum, d2]

/-- the image of a one-item list is an image of that item -/
theorem Expands.single_inv {x : Item} {out : List Item} (h : Expands [x] out) : Img x out := by
  cases h with
  | cons hix hr =>
    have := Expands.nil_inv hr
    subst this
    simpa using hix

theorem Img.code {x : Item} {out : List Item} (h : Img x out) (hx : Item.isCode x) : ∃ y, out = [y] ∧ Item.isCode y := by
  rcases hx with hx | ⟨hx, hs⟩
  · exact h.instr hx
  · obtain ⟨y, rfl, hy, he⟩ := h.data hx
    exact ⟨y, rfl, Or.inr ⟨hy, by rw [he]; exact hs⟩⟩

theorem PseudoImg.expands {r out : List Item} (h : PseudoImg r) (he : Expands r out) : PseudoImg out := by
  rcases h with ⟨x, rfl, hx⟩ | ⟨x, y, rfl, hx, hy⟩
  · exact Or.inl (he.single_inv.code hx)
  · obtain ⟨o1, o2, rfl, e1, e2⟩ := Expands.append_inv (a := [x]) (c := [y]) he
    obtain ⟨x', rfl, hx'⟩ := e1.single_inv.code hx
    obtain ⟨y', rfl, hy'⟩ := e2.single_inv.code hy
    exact Or.inr ⟨x', y', rfl, hx', hy'⟩

theorem Img.trans {it : Item} {repl out : List Item} (h1 : Img it repl) (h2 : Expands repl out) :
    Img it out := by
  refine ⟨?_, ?_, ?_, ?_, ?_⟩
  · intro x hx
    obtain ⟨y, hy, e⟩ := h2.line_mem x hx
    rw [e]; exact h1.line y hy
  · intro hm; exact h2.all_marker (h1.marker hm)
  · intro hd
    obtain ⟨x, rfl, d1, d2⟩ := h1.data hd
    obtain ⟨y, rfl, e1, e2⟩ := h2.single_inv.data d1
    exact ⟨y, rfl, e1, by rw [e2, d2]⟩
  · intro hi
    obtain ⟨x, rfl, hx⟩ := h1.instr hi
    exact h2.single_inv.code hx
  · intro hs
    rcases h1.special hs with rfl | hsp
    · exact h2.single_inv.special hs
    · refine Or.inr ?_
      cases it with
      | label line n =>
        simp only [SpecImg] at hsp ⊢; subst hsp; exact Expands.nil_inv h2
      | constant line n e =>
        simp only [SpecImg] at hsp ⊢; subst hsp; exact Expands.nil_inv h2
      | pseudo line n args =>
        simp only [SpecImg] at hsp ⊢; exact hsp.expands h2
      | align line a =>
        simp only [SpecImg] at hsp ⊢
        rcases hsp with rfl | ⟨n, h0, hn, rfl⟩
        · exact Or.inl (Expands.nil_inv h2)
        · rcases h2.single_inv.special rfl with e | e
          · exact Or.inr ⟨n, h0, hn, e⟩
          · simp [SpecImg] at e
      | _ => simp [SpecImg] at hsp

theorem Expands.trans {a b : List Item} (h1 : Expands a b) : ∀ {c : List Item}, Expands b c → Expands a c := by
  induction h1 with
  | nil => intro c h; rw [Expands.nil_inv h]; exact .nil
  | cons hi _ ih =>
    intro c h
    obtain ⟨o1, o2, rfl, e1, e2⟩ := Expands.append_inv h
    exact .cons (hi.trans e1) (ih e2)

/-! ### the loop combinator and List.mapM -/

theorem walk_expands {f : Item → Int → Dict → Except Err (List Item × Int)}
    (hf : ∀ it p L repl n, (∀ line nm, it ≠ .label line nm) → f it p L = .ok (repl, n) → Img it repl)
    (G : List Item) : ∀ (p : Int) (L : Dict) (G' : List Item) (L' : Dict),
    walk f G p L = .ok (G', L') → Expands G G' := by
  induction G with
  | nil =>
    intro p L G' L' h
    simp only [walk, Except.ok.injEq, Prod.mk.injEq] at h
    rw [← h.1]; exact .nil
  | cons it rest ih =>
    intro p L G' L' h
    by_cases hlab : ∃ line nm, it = .label line nm
    · obtain ⟨line, nm, rfl⟩ := hlab
      simp only [walk, bind, Except.bind] at h
      cases hr : walk f rest p L with
      | error e => simp [hr] at h
      | ok r =>
        obtain ⟨out, l⟩ := r
        simp only [hr, pure, Except.pure, Except.ok.injEq, Prod.mk.injEq] at h
        rw [← h.1]
        exact Expands.cons (repl := [Item.label line nm]) (Img.refl _) (ih p L out l hr)
    · have hnl : ∀ line nm, it ≠ .label line nm := fun line nm e => hlab ⟨line, nm, e⟩
      have hw : walk f (it :: rest) p L = (do
          let (repl, n) ← f it p L
          let (out, l) ← walk f rest (p + sizeSum repl) (L.shiftAbove p n)
          pure (repl ++ out, l)) := by
        cases it <;> first | rfl | exact absurd rfl (hnl _ _)
      rw [hw] at h
      simp only [bind, Except.bind] at h
      cases hb : f it p L with
      | error e => simp [hb] at h
      | ok r =>
        obtain ⟨repl, n⟩ := r
        simp only [hb] at h
        cases hr : walk f rest (p + sizeSum repl) (L.shiftAbove p n) with
        | error e => simp [hr] at h
        | ok r2 =>
          obtain ⟨out, l⟩ := r2
          simp only [hr, pure, Except.pure, Except.ok.injEq, Prod.mk.injEq] at h
          rw [← h.1]
          exact .cons (hf it p L repl n hnl hb) (ih _ _ out l hr)

theorem mapM_expands {g : Item → Except Err Item} (hg : ∀ it it', g it = .ok it' → Img it [it'])
    (G : List Item) : ∀ out, G.mapM g = .ok out → Expands G out := by
  induction G with
  | nil =>
    intro out h
    simp only [List.mapM_nil, pure, Except.pure, Except.ok.injEq] at h
    rw [← h]; exact .nil
  | cons it rest ih =>
    intro out h
    obtain ⟨it', out', h1, h2, rfl⟩ := mapM_cons_ok h
    exact Expands.cons (repl := [it']) (hg it it' h1) (ih out' h2)

theorem map_expands (g : Item → Item) (hg : ∀ it, Img it [g it]) (G : List Item) : Expands G (G.map g) := by
  induction G with
  | nil => exact .nil
  | cons it rest ih => exact Expands.cons (repl := [g it]) (hg it) ih

end BB.Lemmas
