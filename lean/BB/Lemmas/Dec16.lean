/-
  BB.Lemmas.Dec16 — field extraction (`bits`, `bit`) from halfwords written as sums of fields, and
  the reassembly / sign-extension round trips of every scattered RVC immediate.
  Every `omega` call sees only generalised fields with their bounds (never an encoder).
-/
import BB.Lemmas.Enc16
namespace BB.Lemmas
open BB BB.Spec

/-! ### slot lemmas, one per RVC layout -/

/-- CR layout: op[1:0] rs2[6:2] rd/rs1[11:7] funct4[15:12] -/
theorem slotsCR (a rs2 rd f4 : Nat) (ha : a < 4) (h2 : rs2 < 32) (h1 : rd < 32) (hf : f4 < 16) :
    let w := a + rs2 * 4 + rd * 128 + f4 * 4096
    w < 65536 ∧ bits w 0 2 = a ∧ bits w 13 3 = f4 / 2 ∧ bit w 12 = f4 % 2 ∧ bits w 7 5 = rd ∧
      bits w 2 5 = rs2 := by
  intro w
  simp only [bits, bit, Nat.reducePow, Nat.div_one]
  omega

/-- CI layout: op[1:0] imm[4:0]→[6:2] rd[11:7] imm[5]→[12] funct3[15:13] -/
theorem slotsCI (a lo rd b5 f3 : Nat) (ha : a < 4) (hlo : lo < 32) (h1 : rd < 32) (hb : b5 < 2)
    (hf : f3 < 8) :
    let w := a + lo * 4 + rd * 128 + b5 * 4096 + f3 * 8192
    w < 65536 ∧ bits w 0 2 = a ∧ bits w 13 3 = f3 ∧ bits w 7 5 = rd ∧ bits w 2 5 = lo ∧
      bit w 12 = b5 := by
  intro w
  simp only [bits, bit, Nat.reducePow, Nat.div_one]
  omega

/-- c.addi16sp layout: nzimm[5]→[2] [8:7]→[4:3] [6]→[5] [4]→[6], rd = 2, nzimm[9]→[12] -/
theorem slotsCIA (a i5 i87 i6 i4 i9 f3 : Nat) (ha : a < 4) (h5 : i5 < 2) (h87 : i87 < 4) (h6 : i6 < 2)
    (h4 : i4 < 2) (h9 : i9 < 2) (hf : f3 < 8) :
    let w := a + i5 * 4 + i87 * 8 + i6 * 32 + i4 * 64 + 2 * 128 + i9 * 4096 + f3 * 8192
    w < 65536 ∧ bits w 0 2 = a ∧ bits w 13 3 = f3 ∧ bits w 7 5 = 2 ∧ bit w 12 = i9 ∧ bit w 6 = i4 ∧
      bit w 5 = i6 ∧ bits w 3 2 = i87 ∧ bit w 2 = i5 := by
  intro w
  simp only [bits, bit, Nat.reducePow, Nat.div_one]
  omega

/-- c.lwsp layout: uimm[7:6]→[3:2] [4:2]→[6:4] rd[11:7] uimm[5]→[12] -/
theorem slotsCIL (a i76 i42 rd i5 f3 : Nat) (ha : a < 4) (h76 : i76 < 4) (h42 : i42 < 8) (h1 : rd < 32)
    (h5 : i5 < 2) (hf : f3 < 8) :
    let w := a + i76 * 4 + i42 * 16 + rd * 128 + i5 * 4096 + f3 * 8192
    w < 65536 ∧ bits w 0 2 = a ∧ bits w 13 3 = f3 ∧ bits w 7 5 = rd ∧ bit w 12 = i5 ∧
      bits w 4 3 = i42 ∧ bits w 2 2 = i76 := by
  intro w
  simp only [bits, bit, Nat.reducePow, Nat.div_one]
  omega

/-- c.swsp layout: rs2[6:2] uimm[7:6]→[8:7] [5:2]→[12:9] -/
theorem slotsCSS (a rs2 i76 i52 f3 : Nat) (ha : a < 4) (h2 : rs2 < 32) (h76 : i76 < 4) (h52 : i52 < 16)
    (hf : f3 < 8) :
    let w := a + rs2 * 4 + i76 * 128 + i52 * 512 + f3 * 8192
    w < 65536 ∧ bits w 0 2 = a ∧ bits w 13 3 = f3 ∧ bits w 2 5 = rs2 ∧ bits w 9 4 = i52 ∧
      bits w 7 2 = i76 := by
  intro w
  simp only [bits, Nat.reducePow, Nat.div_one]
  omega

/-- c.addi4spn layout: rd'[4:2] nzuimm[3]→[5] [2]→[6] [9:6]→[10:7] [5:4]→[12:11] -/
theorem slotsCIW (a rd i3 i2 i96 i54 f3 : Nat) (ha : a < 4) (h1 : rd < 8) (h3 : i3 < 2) (h2 : i2 < 2)
    (h96 : i96 < 16) (h54 : i54 < 4) (hf : f3 < 8) :
    let w := a + rd * 4 + i3 * 32 + i2 * 64 + i96 * 128 + i54 * 2048 + f3 * 8192
    w < 65536 ∧ bits w 0 2 = a ∧ bits w 13 3 = f3 ∧ bits w 2 3 = rd ∧ bits w 11 2 = i54 ∧
      bits w 7 4 = i96 ∧ bit w 6 = i2 ∧ bit w 5 = i3 := by
  intro w
  simp only [bits, bit, Nat.reducePow, Nat.div_one]
  omega

/-- c.lw / c.sw layout: r'[4:2] uimm[6]→[5] [2]→[6] rs1'[9:7] uimm[5:3]→[12:10] -/
theorem slotsCL (a r i6 i2 rs1 i53 f3 : Nat) (ha : a < 4) (hr : r < 8) (h6 : i6 < 2) (h2 : i2 < 2)
    (h1 : rs1 < 8) (h53 : i53 < 8) (hf : f3 < 8) :
    let w := a + r * 4 + i6 * 32 + i2 * 64 + rs1 * 128 + i53 * 1024 + f3 * 8192
    w < 65536 ∧ bits w 0 2 = a ∧ bits w 13 3 = f3 ∧ bits w 2 3 = r ∧ bits w 7 3 = rs1 ∧
      bits w 10 3 = i53 ∧ bit w 6 = i2 ∧ bit w 5 = i6 := by
  intro w
  simp only [bits, bit, Nat.reducePow, Nat.div_one]
  omega

/-- CA layout: rs2'[4:2] funct2[6:5] rd'[9:7] funct6[15:10] -/
theorem slotsCA (a rs2 f2 rd f6 : Nat) (ha : a < 4) (h2 : rs2 < 8) (hf2 : f2 < 4) (h1 : rd < 8)
    (hf : f6 < 64) :
    let w := a + rs2 * 4 + f2 * 32 + rd * 128 + f6 * 1024
    w < 65536 ∧ bits w 0 2 = a ∧ bits w 13 3 = f6 / 8 ∧ bits w 10 2 = f6 % 4 ∧ bit w 12 = f6 / 4 % 2 ∧
      bits w 5 2 = f2 ∧ bits w 2 3 = rs2 ∧ bits w 7 3 = rd := by
  intro w
  simp only [bits, bit, Nat.reducePow, Nat.div_one]
  omega

/-- CB layout: offset[5]→[2] [2:1]→[4:3] [7:6]→[6:5] rs1'[9:7] offset[4:3]→[11:10] [8]→[12] -/
theorem slotsCB (a i5 i21 i76 rs1 i43 i8 f3 : Nat) (ha : a < 4) (h5 : i5 < 2) (h21 : i21 < 4)
    (h76 : i76 < 4) (h1 : rs1 < 8) (h43 : i43 < 4) (h8 : i8 < 2) (hf : f3 < 8) :
    let w := a + i5 * 4 + i21 * 8 + i76 * 32 + rs1 * 128 + i43 * 1024 + i8 * 4096 + f3 * 8192
    w < 65536 ∧ bits w 0 2 = a ∧ bits w 13 3 = f3 ∧ bits w 7 3 = rs1 ∧ bit w 12 = i8 ∧
      bits w 10 2 = i43 ∧ bits w 5 2 = i76 ∧ bits w 3 2 = i21 ∧ bit w 2 = i5 := by
  intro w
  simp only [bits, bit, Nat.reducePow, Nat.div_one]
  omega

/-- c.srli / c.srai / c.andi layout: imm[4:0]→[6:2] rd'[9:7] funct2[11:10] imm[5]→[12] -/
theorem slotsCBI (a lo rd f2 b5 f3 : Nat) (ha : a < 4) (hlo : lo < 32) (h1 : rd < 8) (hf2 : f2 < 4)
    (hb : b5 < 2) (hf : f3 < 8) :
    let w := a + lo * 4 + rd * 128 + f2 * 1024 + b5 * 4096 + f3 * 8192
    w < 65536 ∧ bits w 0 2 = a ∧ bits w 13 3 = f3 ∧ bits w 7 3 = rd ∧ bits w 10 2 = f2 ∧
      bit w 12 = b5 ∧ bits w 2 5 = lo := by
  intro w
  simp only [bits, bit, Nat.reducePow, Nat.div_one]
  omega

/-- CJ layout: imm[5]→[2] [3:1]→[5:3] [7]→[6] [6]→[7] [10]→[8] [9:8]→[10:9] [4]→[11] [11]→[12] -/
theorem slotsCJ (a i5 i31 i7 i6 i10 i98 i4 i11 f3 : Nat) (ha : a < 4) (h5 : i5 < 2) (h31 : i31 < 8)
    (h7 : i7 < 2) (h6 : i6 < 2) (h10 : i10 < 2) (h98 : i98 < 4) (h4 : i4 < 2) (h11 : i11 < 2)
    (hf : f3 < 8) :
    let w := a + i5 * 4 + i31 * 8 + i7 * 64 + i6 * 128 + i10 * 256 + i98 * 512 + i4 * 2048 + i11 * 4096
               + f3 * 8192
    w < 65536 ∧ bits w 0 2 = a ∧ bits w 13 3 = f3 ∧ bit w 12 = i11 ∧ bit w 11 = i4 ∧ bits w 9 2 = i98 ∧
      bit w 8 = i10 ∧ bit w 7 = i6 ∧ bit w 6 = i7 ∧ bits w 3 3 = i31 ∧ bit w 2 = i5 := by
  intro w
  simp only [bits, bit, Nat.reducePow, Nat.div_one]
  omega

/-! ### immediate reassembly and sign-extension round trips -/

/-- CI imm[5|4:0]: the 6-bit field is `imm mod 64` -/
theorem ci_field (u : Nat) (hu : u < 64) : u / 32 % 2 * 32 + u % 32 = u := by omega

/-- CI imm[5|4:0], signed reading -/
theorem sext6 (imm : Int) (h : -32 ≤ imm ∧ imm ≤ 31) : sext 6 (imm % 64).toNat = imm := by
  unfold sext
  simp only [Nat.reducePow, Nat.reduceSub, Int.ofNat_eq_natCast]
  split <;> omega

theorem sext6_ci (imm : Int) (h : -32 ≤ imm ∧ imm ≤ 31) :
    let u := (imm % 64).toNat
    sext 6 (u / 32 % 2 * 32 + u % 32) = imm := by
  intro u
  rw [ci_field u (by omega)]
  exact sext6 imm h

/-- a non-negative CI immediate has imm[5] = 0 and is its own field -/
theorem ci_nonneg (imm : Int) (h : 0 ≤ imm ∧ imm ≤ 31) :
    (imm % 64).toNat / 32 % 2 = 0 ∧ (imm % 64).toNat = imm.toNat := by omega

/-- c.addi4spn nzuimm[5:4|9:6|2|3] -/
theorem uimm_ciw (imm : Int) (h : 0 ≤ imm ∧ imm ≤ 1023) (he : imm % 4 = 0) :
    let u := (imm / 4 % 256).toNat
    (u / 4 % 4) * 16 + (u / 16 % 16) * 64 + (u % 2) * 4 + (u / 2 % 2) * 8 = imm.toNat := by
  intro u
  have hu : (u / 4 % 4) * 16 + (u / 16 % 16) * 64 + (u % 2) * 4 + (u / 2 % 2) * 8 = u * 4 := by omega
  rw [hu]; omega

/-- c.lw / c.sw uimm[5:3|2|6] -/
theorem uimm_cl (imm : Int) (h : 0 ≤ imm ∧ imm ≤ 127) (he : imm % 4 = 0) :
    let u := (imm / 4 % 32).toNat
    (u / 2 % 8) * 8 + (u % 2) * 4 + (u / 16 % 2) * 64 = imm.toNat := by
  intro u
  have hu : (u / 2 % 8) * 8 + (u % 2) * 4 + (u / 16 % 2) * 64 = u * 4 := by omega
  rw [hu]; omega

/-- c.lwsp uimm[5|4:2|7:6] -/
theorem uimm_cil (imm : Int) (h : 0 ≤ imm ∧ imm ≤ 255) (he : imm % 4 = 0) :
    let u := (imm / 4 % 64).toNat
    (u / 8 % 2) * 32 + (u % 8) * 4 + (u / 16 % 4) * 64 = imm.toNat := by
  intro u
  have hu : (u / 8 % 2) * 32 + (u % 8) * 4 + (u / 16 % 4) * 64 = u * 4 := by omega
  rw [hu]; omega

/-- c.swsp uimm[5:2|7:6] -/
theorem uimm_css (imm : Int) (h : 0 ≤ imm ∧ imm ≤ 255) (he : imm % 4 = 0) :
    let u := (imm / 4 % 64).toNat
    (u % 16) * 4 + (u / 16 % 4) * 64 = imm.toNat := by
  intro u
  have hu : (u % 16) * 4 + (u / 16 % 4) * 64 = u * 4 := by omega
  rw [hu]; omega

/-- c.addi16sp nzimm[9|4|6|8:7|5] -/
theorem sext10_cia (imm : Int) (h : -512 ≤ imm ∧ imm ≤ 511) (he : imm % 16 = 0) :
    let u := (imm / 16 % 64).toNat
    sext 10 ((u / 32 % 2) * 512 + (u % 2) * 16 + (u / 4 % 2) * 64 + (u / 8 % 4) * 128 + (u / 2 % 2) * 32)
      = imm := by
  intro u
  have hu : (u / 32 % 2) * 512 + (u % 2) * 16 + (u / 4 % 2) * 64 + (u / 8 % 4) * 128 + (u / 2 % 2) * 32
      = u * 16 := by omega
  rw [hu]
  unfold sext
  simp only [Nat.reducePow, Nat.reduceSub, Int.ofNat_eq_natCast]
  split <;> omega

/-- CB offset[8|4:3|7:6|2:1|5] -/
theorem sext9_cb (imm : Int) (h : -256 ≤ imm ∧ imm ≤ 255) (he : imm % 2 = 0) :
    let u := (imm / 2 % 256).toNat
    sext 9 ((u / 128 % 2) * 256 + (u / 4 % 4) * 8 + (u / 32 % 4) * 64 + (u % 4) * 2 + (u / 16 % 2) * 32)
      = imm := by
  intro u
  have hu : (u / 128 % 2) * 256 + (u / 4 % 4) * 8 + (u / 32 % 4) * 64 + (u % 4) * 2 + (u / 16 % 2) * 32
      = u * 2 := by omega
  rw [hu]
  unfold sext
  simp only [Nat.reducePow, Nat.reduceSub, Int.ofNat_eq_natCast]
  split <;> omega

/-- CJ imm[11|4|9:8|10|6|7|3:1|5] -/
theorem sext12_cj (imm : Int) (h : -2048 ≤ imm ∧ imm ≤ 2047) (he : imm % 2 = 0) :
    let u := (imm / 2 % 2048).toNat
    sext 12 ((u / 1024 % 2) * 2048 + (u / 8 % 2) * 16 + (u / 128 % 4) * 256 + (u / 512 % 2) * 1024
             + (u / 32 % 2) * 64 + (u / 64 % 2) * 128 + (u % 8) * 2 + (u / 16 % 2) * 32) = imm := by
  intro u
  have hu : (u / 1024 % 2) * 2048 + (u / 8 % 2) * 16 + (u / 128 % 4) * 256 + (u / 512 % 2) * 1024
             + (u / 32 % 2) * 64 + (u / 64 % 2) * 128 + (u % 8) * 2 + (u / 16 % 2) * 32 = u * 2 := by
    omega
  rw [hu]
  unfold sext
  simp only [Nat.reducePow, Nat.reduceSub, Int.ofNat_eq_natCast]
  split <;> omega

/-! ### the `ShamtBit5Zero` constraint: `imm & (1 << 5) == 0` on a 6-bit signed value -/

theorem pyShl_1_5 : pyShl 1 5 = 32 := by decide

theorem and32_lt : ∀ m < 32, m &&& 32 = 0 := by decide

theorem shamt_bit5 (imm : Int) (h : -32 ≤ imm ∧ imm ≤ 31) : pyAnd imm (pyShl 1 5) = 0 ↔ 0 ≤ imm := by
  rw [pyShl_1_5]
  cases imm with
  | ofNat m =>
    simp only [Int.ofNat_eq_natCast] at h
    have hm : m < 32 := by omega
    show Int.ofNat (m &&& 32) = 0 ↔ _
    rw [and32_lt m hm]
    simp only [Int.ofNat_eq_natCast]; omega
  | negSucc m =>
    have hm : m < 32 := by omega
    show Int.ofNat (32 - (32 &&& m)) = 0 ↔ _
    rw [Nat.and_comm, and32_lt m hm]
    simp only [Int.ofNat_eq_natCast]; omega

end BB.Lemmas
