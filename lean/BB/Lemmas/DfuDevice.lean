/-
  BB.Lemmas.DfuDevice — how the device specification answers each request the host can make,
  in terms of a `View`: the part of the device state the proofs track exactly.  The rest
  (clock, readyAt, counters) is only constrained by "no monitor has fired" and "the last
  requested poll delay will have elapsed after `slack` more milliseconds of sleep".
-/
import BB.Lemmas.DfuBasic
namespace BB.Dfu

structure View where
  state : DState
  status : Nat
  flash : Nat → Cell
  ptr : Nat
  pending : Option Op
  busyLeft : List Nat
  doneTimeout : Nat
  fault : Nat
  soft : Bool
  opIdx : Nat
  erasedLog : List Nat
  writtenLog : List Nat
  mon : Monitors

/-- device `d` (of a `pcnt`-page part following schedule `s`) looks like `v`, no monitor has fired,
    and `slack` ms of sleep make it ready for the next request -/
structure Sees (pcnt : Nat) (s : Schedule) (d : Device) (v : View) (slack : Nat) : Prop where
  pageCount : d.pageCount = pcnt
  sched : d.sched = s
  state : d.state = v.state
  status : d.status = v.status
  flash : d.flash = v.flash
  ptr : d.ptr = v.ptr
  pending : d.pending = v.pending
  busyLeft : d.busyLeft = v.busyLeft
  doneTimeout : d.doneTimeout = v.doneTimeout
  fault : d.fault = v.fault
  soft : d.soft = v.soft
  opIdx : d.opIdx = v.opIdx
  erasedLog : d.erasedLog = v.erasedLog
  writtenLog : d.writtenLog = v.writtenLog
  mon : d.mon = v.mon
  ready : d.readyAt ≤ d.clock + slack

variable {pcnt : Nat} {s : Schedule}

theorem Sees.tick {d : Device} {v : View} {slack : Nat} (h : Sees pcnt s d v slack) (ms : Nat) :
    Sees pcnt s (d.tick ms) v (slack - ms) := by
  obtain ⟨h1, h2, h3, h4, h5, h6, h7, h8, h9, h10, hso, h11, h12, h13, h14, h15⟩ := h
  constructor <;> simp_all [Device.tick] <;> (cases hvm : v.mon; simp_all; try (intro hlt; omega))
  omega

theorem Sees.weaken {d : Device} {v : View} {a b : Nat} (h : Sees pcnt s d v a) (hab : a ≤ b) :
    Sees pcnt s d v b := by
  obtain ⟨h1, h2, h3, h4, h5, h6, h7, h8, h9, h10, hso, h11, h12, h13, h14, h15⟩ := h
  constructor <;> first | assumption | omega

theorem init_sees (pcnt : Nat) (s : Schedule) (f : Nat → Cell) :
    Sees pcnt s (Device.init pcnt s f)
      { state := if s.startErr % 256 = 0 then .idle else .error, status := s.startErr % 256, flash := f,
        ptr := flashBase, pending := none, busyLeft := [], doneTimeout := 0, fault := 0, soft := false, opIdx := 0,
        erasedLog := [], writtenLog := [], mon := Monitors.clean } 0 := by
  constructor <;> simp [Device.init, Monitors.clean]

/-- GETSTATUS outside an operation: reports status and state, changes nothing we track -/
theorem getStatus_idle {d : Device} {v : View} (h : Sees pcnt s d v 0)
    (hp : v.pending = none) (hst : v.state ≠ .manifestSync) :
    ∃ t, (d.handle getStatusReq).2 = .bytes (statusReply v.status t v.state.code) ∧
      Sees pcnt s (d.handle getStatusReq).1 v (t % 16777216) := by
  obtain ⟨h1, h2, h3, h4, h5, h6, h7, h8, h9, h10, hso, h11, h12, h13, h14, h15⟩ := h
  have hr : ¬ d.clock < d.readyAt := by omega
  have hclk : decide (d.clock < d.readyAt) = false := decide_eq_false hr
  have he : d.handle getStatusReq = (d.observe.getStatus 6) := by simp [Device.handle, getStatusReq]
  refine ⟨d.sched.idleTimeout d.idleIdx, ?_, ?_⟩
  · simp [he, Device.getStatus, Device.observe, h7, hp, h3, hst, h4, take6_statusReply]
  · rw [he]
    constructor <;> simp_all [Device.getStatus, Device.observe, Monitors.clean] <;> (cases hvm : v.mon; simp_all; try (intro hlt; omega))

/-- GETSTATUS while the pending operation still has busy polls to give -/
theorem getStatus_busy {d : Device} {v : View} {op : Op} {t : Nat} {rest : List Nat}
    (h : Sees pcnt s d v 0) (hp : v.pending = some op) (hb : v.busyLeft = t :: rest) :
    (d.handle getStatusReq).2 = .bytes (statusReply v.status t 4) ∧
      Sees pcnt s (d.handle getStatusReq).1 { v with state := .dnBusy, busyLeft := rest } (t % 16777216) := by
  obtain ⟨h1, h2, h3, h4, h5, h6, h7, h8, h9, h10, hso, h11, h12, h13, h14, h15⟩ := h
  have hr : ¬ d.clock < d.readyAt := by omega
  have hclk : decide (d.clock < d.readyAt) = false := decide_eq_false hr
  have he : d.handle getStatusReq = (d.observe.getStatus 6) := by simp [Device.handle, getStatusReq]
  refine ⟨?_, ?_⟩
  · simp [he, Device.getStatus, Device.observe, h7, hp, h8, hb, h4, take6_statusReply, DState.code]
  · rw [he]
    constructor <;> simp_all [Device.getStatus, Device.observe, Monitors.clean] <;> (cases hvm : v.mon; simp_all; try (intro hlt; omega))

/-- the state a failing operation leaves the device in: dfuERROR, or — status-only flavour —
    dfuDNLOAD_IDLE as after a success -/
def failState (soft : Bool) : DState := if soft then .dnloadIdle else .error

/-- GETSTATUS completing an operation that the schedule makes fail (either flavour): the reply
    carries the error status; the default flavour latches it in dfuERROR, the status-only flavour
    leaves the device in dfuDNLOAD_IDLE with nothing latched -/
theorem getStatus_fault {d : Device} {v : View} {op : Op}
    (h : Sees pcnt s d v 0) (hp : v.pending = some op) (hb : v.busyLeft = [])
    (hf : v.fault % 256 ≠ 0) :
    (d.handle getStatusReq).2 = .bytes (statusReply (v.fault % 256) v.doneTimeout (failState v.soft).code) ∧
      Sees pcnt s (d.handle getStatusReq).1
        { v with state := failState v.soft, status := if v.soft then v.status else v.fault % 256,
                 pending := none, busyLeft := [] }
        (v.doneTimeout % 16777216) := by
  obtain ⟨h1, h2, h3, h4, h5, h6, h7, h8, h9, h10, hso, h11, h12, h13, h14, h15⟩ := h
  have hr : ¬ d.clock < d.readyAt := by omega
  have hclk : decide (d.clock < d.readyAt) = false := decide_eq_false hr
  have he : d.handle getStatusReq = (d.observe.getStatus 6) := by simp [Device.handle, getStatusReq]
  cases hsv : v.soft with
  | false =>
    refine ⟨?_, ?_⟩
    · simp [he, Device.getStatus, Device.observe, h7, hp, h8, hb, h10, hf, h9, hso, hsv, Device.fail, failState,
        take6_statusReply, DState.code]
    · rw [he]
      constructor <;> simp_all [Device.getStatus, Device.observe, Monitors.clean, Device.fail, failState] <;> (cases hvm : v.mon; simp_all; try (intro hlt; omega))
  | true =>
    refine ⟨?_, ?_⟩
    · simp [he, Device.getStatus, Device.observe, h7, hp, h8, hb, h10, hf, h9, hso, hsv, Device.failSoft, failState,
        take6_statusReply, DState.code]
    · rw [he]
      constructor <;> simp_all [Device.getStatus, Device.observe, Monitors.clean, Device.failSoft, failState] <;> (cases hvm : v.mon; simp_all; try (intro hlt; omega))

theorem pageAddr_page (p : Nat) : (pageAddr p - flashBase) / pageSize = p := by
  simp only [pageAddr, flashBase, pageSize]; omega

theorem pageAddr_aligned (p : Nat) : (pageAddr p - flashBase) % pageSize = 0 := by
  simp only [pageAddr, flashBase, pageSize]; omega

theorem inRange_page {n p len : Nat} (hp : p < n) (hl : len ≤ 1024) :
    inRange n (pageAddr p) len = true := by
  simp [inRange, pageAddr, flashBase, pageSize]
  exact decide_eq_true (by omega)

/-- GETSTATUS completing a successful page erase -/
theorem getStatus_done_erase {d : Device} {v : View} {p : Nat}
    (h : Sees pcnt s d v 0) (hp : v.pending = some (.erase (pageAddr p))) (hb : v.busyLeft = [])
    (hf : v.fault % 256 = 0) (hpg : p < pcnt) :
    (d.handle getStatusReq).2 = .bytes (statusReply v.status v.doneTimeout 5) ∧
      Sees pcnt s (d.handle getStatusReq).1
        { v with state := .dnloadIdle, pending := none, flash := setCell v.flash p .erased,
                 erasedLog := v.erasedLog ++ [p] }
        (v.doneTimeout % 16777216) := by
  obtain ⟨h1, h2, h3, h4, h5, h6, h7, h8, h9, h10, hso, h11, h12, h13, h14, h15⟩ := h
  have hr : ¬ d.clock < d.readyAt := by omega
  have hclk : decide (d.clock < d.readyAt) = false := decide_eq_false hr
  have he : d.handle getStatusReq = (d.observe.getStatus 6) := by simp [Device.handle, getStatusReq]
  have hin : inRange d.pageCount (pageAddr p) 1 = true := inRange_page (by omega) (by omega)
  refine ⟨?_, ?_⟩
  · simp [he, Device.getStatus, h7, hp, h8, hb, h10, hf, h9, Device.apply, hin, take6_statusReply, DState.code, Device.observe, h4]
  · rw [he]
    constructor <;> simp_all [Device.getStatus, Device.observe, Monitors.clean, Device.apply, pageAddr_page] <;> (cases hvm : v.mon; simp_all; try (intro hlt; omega))

/-- GETSTATUS completing a successful set-address -/
theorem getStatus_done_setAddr {d : Device} {v : View} {p : Nat}
    (h : Sees pcnt s d v 0) (hp : v.pending = some (.setAddr (pageAddr p))) (hb : v.busyLeft = [])
    (hf : v.fault % 256 = 0) (hpg : p < pcnt) :
    (d.handle getStatusReq).2 = .bytes (statusReply v.status v.doneTimeout 5) ∧
      Sees pcnt s (d.handle getStatusReq).1
        { v with state := .dnloadIdle, pending := none, ptr := pageAddr p }
        (v.doneTimeout % 16777216) := by
  obtain ⟨h1, h2, h3, h4, h5, h6, h7, h8, h9, h10, hso, h11, h12, h13, h14, h15⟩ := h
  have hr : ¬ d.clock < d.readyAt := by omega
  have hclk : decide (d.clock < d.readyAt) = false := decide_eq_false hr
  have he : d.handle getStatusReq = (d.observe.getStatus 6) := by simp [Device.handle, getStatusReq]
  have hin : inRange d.pageCount (pageAddr p) 1 = true := inRange_page (by omega) (by omega)
  refine ⟨?_, ?_⟩
  · simp [he, Device.getStatus, h7, hp, h8, hb, h10, hf, h9, Device.apply, hin, take6_statusReply, DState.code, Device.observe, h4]
  · rw [he]
    constructor <;> simp_all [Device.getStatus, Device.observe, Monitors.clean, Device.apply] <;> (cases hvm : v.mon; simp_all; try (intro hlt; omega))

/-- GETSTATUS completing a successful one-page write to an erased page -/
theorem getStatus_done_write {d : Device} {v : View} {p : Nat} {bs : List Nat}
    (h : Sees pcnt s d v 0) (hp : v.pending = some (.write (pageAddr p) bs)) (hb : v.busyLeft = [])
    (hf : v.fault % 256 = 0) (hpg : p < pcnt) (hlen : bs.length = 1024) (her : v.flash p = .erased) :
    (d.handle getStatusReq).2 = .bytes (statusReply v.status v.doneTimeout 5) ∧
      Sees pcnt s (d.handle getStatusReq).1
        { v with state := .dnloadIdle, pending := none, flash := setCell v.flash p (.data bs),
                 writtenLog := v.writtenLog ++ [p] }
        (v.doneTimeout % 16777216) := by
  obtain ⟨h1, h2, h3, h4, h5, h6, h7, h8, h9, h10, hso, h11, h12, h13, h14, h15⟩ := h
  have hr : ¬ d.clock < d.readyAt := by omega
  have hclk : decide (d.clock < d.readyAt) = false := decide_eq_false hr
  have he : d.handle getStatusReq = (d.observe.getStatus 6) := by simp [Device.handle, getStatusReq]
  have hin : inRange d.pageCount (pageAddr p) bs.length = true := inRange_page (by omega) (by omega)
  refine ⟨?_, ?_⟩
  · simp [he, Device.getStatus, h7, hp, h8, hb, h10, hf, h9, Device.apply, hin, take6_statusReply, DState.code, Device.observe, h4]
  · rw [he]
    constructor <;> simp_all [Device.getStatus, Device.observe, Monitors.clean, Device.apply, pageAddr_page, pageAddr_aligned] <;> (cases hvm : v.mon; simp_all; try (intro hlt; omega))

/-- CLRSTATUS in dfuERROR -/
theorem clrStatus_error {d : Device} {v : View}
    (h : Sees pcnt s d v 0) (hst : v.state = .error) :
    (d.handle clrStatusReq).2 = .count 0 ∧
      Sees pcnt s (d.handle clrStatusReq).1 { v with state := .idle, status := 0 } 0 := by
  obtain ⟨h1, h2, h3, h4, h5, h6, h7, h8, h9, h10, hso, h11, h12, h13, h14, h15⟩ := h
  have hr : ¬ d.clock < d.readyAt := by omega
  have hclk : decide (d.clock < d.readyAt) = false := decide_eq_false hr
  have he : d.handle clrStatusReq = d.observe.clrStatus := by simp [Device.handle, clrStatusReq, reqCLRSTATUS, reqDNLOAD]
  refine ⟨?_, ?_⟩
  · simp [he, Device.clrStatus, Device.observe, h3, hst]
  · rw [he]
    constructor <;> simp_all [Device.clrStatus, Device.observe, Monitors.clean] <;> (cases hvm : v.mon; simp_all; try (intro hlt; omega))

/-- a DNLOAD carrying a well-formed DfuSe operation inside the flash, in dfuIDLE / dfuDNLOAD_IDLE -/
theorem dnload_accept {d : Device} {v : View} {wValue : Nat} {data : List Nat} {op : Op}
    (h : Sees pcnt s d v 0) (hp : v.pending = none) (hst : v.state = .idle ∨ v.state = .dnloadIdle)
    (hne : data ≠ []) (hdec : decodeOp v.ptr wValue data = some op)
    (hin : opOutside pcnt op = false) :
    (d.handle (dnloadReq wValue data)).2 = .count data.length ∧
      Sees pcnt s (d.handle (dnloadReq wValue data)).1
        { v with state := .dnloadSync, pending := some op, busyLeft := (s.op v.opIdx).busy,
                 doneTimeout := (s.op v.opIdx).doneTimeout, fault := (s.op v.opIdx).fault,
                 soft := (s.op v.opIdx).statusOnly, opIdx := v.opIdx + 1 } 0 := by
  obtain ⟨h1, h2, h3, h4, h5, h6, h7, h8, h9, h10, hso, h11, h12, h13, h14, h15⟩ := h
  have hr : ¬ d.clock < d.readyAt := by omega
  have hclk : decide (d.clock < d.readyAt) = false := decide_eq_false hr
  have he : d.handle (dnloadReq wValue data) = d.observe.dnload wValue data := by simp [Device.handle, dnloadReq]
  have hst' : d.state = .idle ∨ d.state = .dnloadIdle := by rw [h3]; exact hst
  have ho : opOutside d.pageCount op = false := by rw [h1]; exact hin
  refine ⟨?_, ?_⟩
  · simp [he, Device.dnload, Device.observe, h7, hp, hst', hne, h6, hdec]
  · rw [he]
    constructor <;> simp_all [Device.dnload, Device.observe, Monitors.clean] <;> (cases hvm : v.mon; simp_all; try (intro hlt; omega))

/-- a DNLOAD in dfuERROR is stalled and changes nothing we track -/
theorem dnload_in_error {d : Device} {v : View} {wValue : Nat} {data : List Nat}
    (h : Sees pcnt s d v 0) (hp : v.pending = none) (hst : v.state = .error) (hb : v.busyLeft = []) :
    (d.handle (dnloadReq wValue data)).2 = .stall ∧
      Sees pcnt s (d.handle (dnloadReq wValue data)).1 v 0 := by
  obtain ⟨h1, h2, h3, h4, h5, h6, h7, h8, h9, h10, hso, h11, h12, h13, h14, h15⟩ := h
  have hr : ¬ d.clock < d.readyAt := by omega
  have hclk : decide (d.clock < d.readyAt) = false := decide_eq_false hr
  have he : d.handle (dnloadReq wValue data) = d.observe.dnload wValue data := by simp [Device.handle, dnloadReq]
  refine ⟨?_, ?_⟩
  · simp [he, Device.dnload, Device.observe, h7, hp, h3, hst, Device.stallErr]
  · rw [he]
    constructor <;> simp_all [Device.dnload, Device.observe, Monitors.clean, Device.stallErr] <;> (cases hvm : v.mon; simp_all; try (intro hlt; omega))

end BB.Dfu
