/-
  BB.Lemmas.ErrClasses — helper lemmas for the per-fault-class theorems of C15: a missing include
  file is reported on its line; the second definition of a label is reported on its line.
-/
import BB.Lemmas.ErrRead
import BB.Lemmas.ErrAssemble
namespace BB.Lemmas
open BB

/-! ### missing include -/

/-- a line `read_lines` passes on or skips: blank, or neither an `include` nor an `include_bytes` line -/
def PlainLine (raw : List Char) : Prop :=
  (stripWs raw).isEmpty = true ∨
  (("include ".toList).isPrefixOf (lowerL raw) = false ∧ ("include_bytes ".toList).isPrefixOf (lowerL raw) = false)

/-- an `include <rel>` line whose file the include search does not find -/
structure MissingInclude (fs : FS) (cd : List String) (raw : List Char) : Prop where
  notBlank : (stripWs raw).isEmpty = false
  isInclude : ("include ".toList).isPrefixOf (lowerL raw) = true
  shape : ∃ kw relc, splitWs (stripComment raw) = [kw, relc] ∧
            pathOk (String.ofList (stripQuotes relc)) = true ∧
            lookupPath fs (String.ofList (stripQuotes relc)) cd = none

theorem go_missing_include (fs : FS) (dirs : List String) (fuel : Nat) (path : String) (cd : List String)
    (raw : List Char) (post : List (List Char)) (hraw : MissingInclude fs cd raw) :
    ∀ (pre : List (List Char)) (n : Nat), (∀ r ∈ pre, PlainLine r) →
      readLinesAux.go fs dirs fuel path cd n (pre ++ raw :: post) =
        .error (.asm { file := path, number := n + pre.length, contents := String.ofList raw }) := by
  intro pre
  induction pre with
  | nil =>
    intro n _
    obtain ⟨h1, h2, kw, relc, h3, h4, h5⟩ := hraw
    simp only [List.nil_append, List.length_nil, Nat.add_zero]
    rw [readLinesAux.go.eq_2]
    simp only [h1, Bool.false_eq_true, ↓reduceIte, h2, h3, h4, Bool.not_true, h5]
  | cons r pre ih =>
    intro n hpre
    have hr := hpre r List.mem_cons_self
    have ih' := ih (n + 1) (fun x hx => hpre x (List.mem_cons_of_mem _ hx))
    have hnum : n + 1 + pre.length = n + (r :: pre).length := by simp only [List.length_cons]; omega
    rw [hnum] at ih'
    simp only [List.cons_append]
    rw [readLinesAux.go.eq_2]
    rcases hr with hb | ⟨hi, hib⟩
    · simp only [hb, ↓reduceIte]
      exact ih'
    · by_cases hb : (stripWs r).isEmpty = true
      · simp only [hb, ↓reduceIte]
        exact ih'
      · simp only [hb, Bool.false_eq_true, ↓reduceIte, hi, hib, ih', bind, Except.bind]

/-- **A missing include file is reported on the include line** (lines before it: anything but
    include / include_bytes lines). -/
theorem readLinesAux_missing_include (fs : FS) (dirs : List String) (fuel : Nat) (path base : String)
    (src : List Char) (pre : List (List Char)) (raw : List Char) (post : List (List Char))
    (hsplit : splitLines src = pre ++ raw :: post) (hpre : ∀ r ∈ pre, PlainLine r)
    (hraw : MissingInclude fs (dirs ++ [base]) raw) :
    readLinesAux fs dirs (fuel + 1) path base src =
      .error (.asm { file := path, number := pre.length + 1, contents := String.ofList raw }) := by
  rw [readLinesAux.eq_2, hsplit, go_missing_include fs dirs fuel path _ raw post hraw pre 1 hpre]
  simp only [Nat.add_comm]

/-! ### duplicate label -/

/-- names of the labels defined in a list of items -/
def labelsIn : List Item → List String
  | [] => []
  | .label _ n :: rest => n :: labelsIn rest
  | _ :: rest => labelsIn rest

theorem labelsIn_cons_other {it : Item} (h : ∀ line n, it ≠ .label line n) (rest : List Item) :
    labelsIn (it :: rest) = labelsIn rest := by
  cases it <;> first | rfl | exact absurd rfl (h _ _)

/-- A prefix of items with sizes, whose labels are fresh and pairwise different, does not stop
    `resolve_labels`: whatever error the rest of the list raises is the result. -/
theorem resolveLabelsAux_prefix_error (a b : List Item) (e : Err) :
    ∀ (p : Int) (labels : Dict) (defined : List String),
      (∀ it ∈ a, ∃ v, it.sizeE = .ok v) → (labelsIn a).Nodup → (∀ n ∈ labelsIn a, n ∉ defined) →
      (∀ p' labels' defined', (∀ n, n ∈ defined' ↔ (n ∈ labelsIn a ∨ n ∈ defined)) →
          resolveLabelsAux b p' labels' defined' = .error e) →
      resolveLabelsAux (a ++ b) p labels defined = .error e := by
  induction a with
  | nil =>
    intro p labels defined _ _ _ hb
    exact hb p labels defined (fun n => by simp [labelsIn])
  | cons it rest ih =>
    intro p labels defined hsz hnd hfresh hb
    by_cases hlab : ∃ line nm, it = .label line nm
    · obtain ⟨line, nm, rfl⟩ := hlab
      simp only [labelsIn, List.nodup_cons] at hnd
      have hnm : nm ∉ defined := hfresh nm (by simp [labelsIn])
      have hc : defined.contains nm = false := by simpa using hnm
      simp only [List.cons_append, resolveLabelsAux, hc, Bool.false_eq_true, ↓reduceIte]
      apply ih
      · exact fun x hx => hsz x (List.mem_cons_of_mem _ hx)
      · exact hnd.2
      · intro n hn
        simp only [List.mem_cons, not_or]
        refine ⟨?_, hfresh n (by simp [labelsIn, hn])⟩
        intro heq; subst heq; exact hnd.1 hn
      · intro p' labels' defined' hdef
        apply hb
        intro n
        rw [hdef n]
        simp only [labelsIn, List.mem_cons]
        constructor
        · rintro (h | h | h)
          · exact Or.inl (Or.inr h)
          · exact Or.inl (Or.inl h)
          · exact Or.inr h
        · rintro ((h | h) | h)
          · exact Or.inr (Or.inl h)
          · exact Or.inl h
          · exact Or.inr (Or.inr h)
    · have hnl : ∀ line nm, it ≠ .label line nm := fun line nm hh => hlab ⟨line, nm, hh⟩
      obtain ⟨v, hv⟩ := hsz it List.mem_cons_self
      rw [labelsIn_cons_other hnl] at hnd hfresh
      simp only [List.cons_append]
      rw [resolveLabelsAux_cons_other hnl, hv]
      simp only
      rw [ih (p + v) labels defined (fun x hx => hsz x (List.mem_cons_of_mem _ hx)) hnd hfresh
        (fun p' labels' defined' hdef => hb p' labels' defined' (by
          intro n; rw [hdef n, labelsIn_cons_other hnl]))]

theorem labelsIn_append (a b : List Item) : labelsIn (a ++ b) = labelsIn a ++ labelsIn b := by
  induction a with
  | nil => rfl
  | cons it rest ih =>
    cases it <;> simp [labelsIn, ih]

/-! ### the first failing item of a loop decides the outcome -/

/-- a one-to-one pass fails with the error of the first item whose step fails -/
theorem mapM_first_error {g : Item → Except Err Item} (pre : List Item) (it : Item) (post : List Item)
    (e : Err) (hpre : ∀ x ∈ pre, ∃ x', g x = .ok x') (hit : g it = .error e) :
    (pre ++ it :: post).mapM g = .error e := by
  induction pre with
  | nil => rw [List.nil_append, mapM_cons_eq, hit]
  | cons x rest ih =>
    obtain ⟨x', hx⟩ := hpre x List.mem_cons_self
    rw [List.cons_append, mapM_cons_eq, hx, ih (fun y hy => hpre y (List.mem_cons_of_mem _ hy))]

/-- `walk` fails with the error of the first item whose body fails (at the position and with the
    label table the loop has reached there) -/
theorem walk_first_error {f : Item → Int → Dict → Except Err (List Item × Int)} (it : Item)
    (hnl : ∀ line n, it ≠ .label line n) (post : List Item) (e : Err) :
    ∀ (pre : List Item) (p : Int) (labels : Dict) (out : List Item) (l : Dict),
      walk f pre p labels = .ok (out, l) →
      (∀ p' , f it p' l = .error e) →
      walk f (pre ++ it :: post) p labels = .error e := by
  intro pre
  induction pre with
  | nil =>
    intro p labels out l h hit
    simp only [walk, Except.ok.injEq, Prod.mk.injEq] at h
    obtain ⟨_, rfl⟩ := h
    rw [List.nil_append, walk_cons_nonlabel hnl, hit p]
  | cons x rest ih =>
    intro p labels out l h hit
    by_cases hlab : ∃ line nm, x = .label line nm
    · obtain ⟨line, nm, rfl⟩ := hlab
      rw [walk_cons_label] at h
      rw [List.cons_append, walk_cons_label]
      cases hr : walk f rest p labels with
      | error e' => simp [hr] at h
      | ok r =>
        obtain ⟨out', l'⟩ := r
        simp only [hr, Except.ok.injEq, Prod.mk.injEq] at h
        obtain ⟨_, rfl⟩ := h
        rw [ih p labels out' l' hr hit]
    · have hxl : ∀ line nm, x ≠ .label line nm := fun line nm hh => hlab ⟨line, nm, hh⟩
      rw [walk_cons_nonlabel hxl] at h
      rw [List.cons_append, walk_cons_nonlabel hxl]
      cases hb : f x p labels with
      | error e' => simp [hb] at h
      | ok r =>
        obtain ⟨repl, n⟩ := r
        simp only [hb] at h ⊢
        cases hr : walk f rest (p + sizeSum repl) (labels.shiftAbove p n) with
        | error e' => simp [hr] at h
        | ok r2 =>
          obtain ⟨out', l'⟩ := r2
          simp only [hr, Except.ok.injEq, Prod.mk.injEq] at h
          obtain ⟨_, rfl⟩ := h
          rw [ih _ _ out' l' hr hit]

end BB.Lemmas
