/-
  BB.Lemmas.SuccAccept — one item at one position: `Lands` (resolve_immediates evaluates it and the
  later passes turn it into a blob of its size), for instructions `Accepts` (it resolves and its encoder
  accepts it); which items land independently of position and label table; and how acceptance of a
  branch / jal moves along `Closer` distances of the same parity.
-/
import BB.Lemmas.SuccTail
set_option linter.unusedSimpArgs false
set_option linter.unusedVariables false
namespace BB.Lemmas
open BB BB.Spec
open BB.Props.C03 (Land Finish Pw stringStep)

def Lands (H : Hooks) (constants L : Dict) (q : Int) (x : Item) : Prop :=
  ∃ it' line d, immBody H constants x q L = .ok ([it'], 0) ∧ Finish H it' (.blob line d) ∧ (d.length : Int) = x.sizeD

/-- the position an instruction's immediate is evaluated at (fix F3) -/
def ajPos (ins : Instr) (q : Int) : Int := if ins.isAuipcJump then q - 4 else q

def Accepts (H : Hooks) (constants L : Dict) (line : Line) (q : Int) (ins : Instr) : Prop :=
  ∃ rins bs, resolveWith (evalAt H (chainGet constants L) line (ajPos ins q)) ins = some rins ∧
    encodeInstr line rins = .ok bs

theorem finish_of_encode {H : Hooks} {line : Line} {rins : Instr} {bs : List Nat}
    (h : encodeInstr line rins = .ok bs) : Finish H (.instr line rins) (.blob line bs) :=
  ⟨.blob line bs, .blob line bs, .blob line bs, .blob line bs,
    by simp [instrStep, h, bind, Except.bind, pure, Except.pure], rfl, rfl, rfl, rfl⟩

theorem resolveWith_isCompressed {ev : Imm → Option Int} {ins rins : Instr} (h : resolveWith ev ins = some rins) :
    rins.isCompressed = ins.isCompressed := by
  unfold resolveWith at h
  cases hi : ins.imm? with
  | none => simp [hi] at h; rw [← h]
  | some imm =>
    simp only [hi, Option.map_eq_some_iff] at h
    obtain ⟨v, _, rfl⟩ := h
    exact setImm_isCompressed ins _

theorem lands_of_accepts {H : Hooks} {constants L : Dict} {line : Line} {q : Int} {ins : Instr}
    (h : Accepts H constants L line q ins) : Lands H constants L q (.instr line ins) := by
  obtain ⟨rins, bs, hres, henc⟩ := h
  have hlen : (bs.length : Int) = (Item.instr line ins).sizeD := by
    rw [encodeInstr_length henc, instr_sizeD, ← resolveWith_isCompressed hres]
    simp [Instr.size]
  refine ⟨.instr line rins, line, bs, ?_, finish_of_encode henc, hlen⟩
  unfold resolveWith at hres
  cases hi : ins.imm? with
  | none =>
    simp only [hi, Option.some.injEq] at hres
    subst hres
    simp [immBody, hi, keepItem, Item.sizeE, Item.size?, bind, Except.bind, pure, Except.pure]
  | some imm =>
    simp only [hi, Option.map_eq_some_iff] at hres
    obtain ⟨v, hv, rfl⟩ := hres
    have hv' := toOption_eq_some.mp hv
    unfold ajPos at hv'
    simp only [immBody, hi, bind, Except.bind, hv', pure, Except.pure]

theorem accepts_of_lands {H : Hooks} {constants L : Dict} {line : Line} {q : Int} {ins : Instr}
    (h : Lands H constants L q (.instr line ins)) : Accepts H constants L line q ins := by
  obtain ⟨it', line', d, hb, hf, _⟩ := h
  cases hi : ins.imm? with
  | none =>
    simp only [immBody, hi] at hb
    have := (keepItem_ok hb).1
    simp only [List.cons.injEq, and_true] at this
    subst this
    exact ⟨ins, d, by simp [resolveWith, hi], encodeInstr_of_finish hf⟩
  | some imm =>
    obtain ⟨v, hv, rfl⟩ := BB.Props.C08.instr_item_value H constants L line ins imm q it' hi hb
    refine ⟨_, d, ?_, encodeInstr_of_finish hf⟩
    simp [resolveWith, hi, evalAt, ajPos, hv, Except.toOption]

/-! ### items that land the same way everywhere -/

/-- no immediate, or a label-free one -/
def Indep (H : Hooks) (constants : Dict) : Item → Prop
  | .instr _ ins => ∀ imm, ins.imm? = some imm → ImmLabelFree H constants imm
  | .pack _ _ imm => ImmLabelFree H constants imm
  | .shorthandPack _ _ imm => ImmLabelFree H constants imm
  | _ => True

theorem immBody_indep {H : Hooks} {constants : Dict} {x : Item} (h : Indep H constants x) (q q' : Int) (L L' : Dict) :
    immBody H constants x q L = immBody H constants x q' L' := by
  cases x with
  | instr line ins =>
    simp only [immBody]
    cases hi : ins.imm? with
    | none => rfl
    | some imm =>
      simp only
      rw [h imm hi L L' line _ (if ins.isAuipcJump = true then q' - 4 else q')]
  | pack line fmt imm => simp only [immBody]; rw [h L L' line q q']
  | shorthandPack line name imm => simp only [immBody]; rw [h L L' line q q']
  | _ => rfl

theorem lands_indep {H : Hooks} {constants : Dict} {x : Item} (h : Indep H constants x) {q q' : Int} {L L' : Dict}
    (hl : Lands H constants L q x) : Lands H constants L' q' x := by
  unfold Lands at *
  rw [immBody_indep h q' q L' L]; exact hl

/-! ### encoders -/

theorem bTypeN_some {r1 r2 op f3 : Nat} {v : Int} (h1 : -4096 ≤ v) (h2 : v ≤ 4095) (h3 : v % 2 = 0) :
    ∃ w, bTypeN r1 r2 v op f3 = some w := by
  unfold bTypeN
  rw [if_neg (by omega), if_neg (by omega)]
  exact ⟨_, rfl⟩

theorem bTypeN_range {r1 r2 op f3 : Nat} {v : Int} {w : Nat} (h : bTypeN r1 r2 v op f3 = some w) :
    -4096 ≤ v ∧ v ≤ 4095 ∧ v % 2 = 0 := by
  unfold bTypeN at h
  split at h
  · cases h
  · split at h
    · cases h
    · omega

theorem jTypeN_some {rd op : Nat} {v : Int} (h1 : -1048576 ≤ v) (h2 : v ≤ 1048575) (h3 : v % 2 = 0) :
    ∃ w, jTypeN rd v op = some w := by
  unfold jTypeN
  rw [if_neg (by omega), if_neg (by omega)]
  exact ⟨_, rfl⟩

theorem jTypeN_range {rd op : Nat} {v : Int} {w : Nat} (h : jTypeN rd v op = some w) :
    -1048576 ≤ v ∧ v ≤ 1048575 ∧ v % 2 = 0 := by
  unfold jTypeN at h
  split at h
  · cases h
  · split at h
    · cases h
    · omega

/-- what the encoder of a b-type row accepts -/
theorem encB_ok_iff {op f3 : Nat} {rs1 rs2 : RegOp} {v : Int} :
    (∃ w, encB op f3 [.r rs1, .r rs2, .i v] = .ok w) ↔
      (lookupRegister rs1).isSome = true ∧ (lookupRegister rs2).isSome = true ∧ -4096 ≤ v ∧ v ≤ 4095 ∧ v % 2 = 0 := by
  simp only [encB, bind, Except.bind]
  constructor
  · rintro ⟨w, h⟩
    cases h1 : lookR rs1 with
    | error e => simp [h1] at h
    | ok r1 =>
      cases h2 : lookR rs2 with
      | error e => simp [h1, h2] at h
      | ok r2 =>
        simp only [h1, h2] at h
        have := bTypeN_range (ofOpt_ok.mp h)
        exact ⟨by rw [lookR_ok.mp h1]; rfl, by rw [lookR_ok.mp h2]; rfl, this⟩
  · rintro ⟨h1, h2, h3, h4, h5⟩
    cases e1 : lookupRegister rs1 with
    | none => simp [e1] at h1
    | some r1 =>
      cases e2 : lookupRegister rs2 with
      | none => simp [e2] at h2
      | some r2 =>
        obtain ⟨w, hw⟩ := bTypeN_some (r1 := r1) (r2 := r2) (op := op) (f3 := f3) h3 h4 h5
        exact ⟨w, by simp [lookR, e1, e2, hw, ofOpt]⟩

theorem encJ_ok_iff {op : Nat} {rd : RegOp} {v : Int} :
    (∃ w, encJ op [.r rd, .i v] = .ok w) ↔
      (lookupRegister rd).isSome = true ∧ -1048576 ≤ v ∧ v ≤ 1048575 ∧ v % 2 = 0 := by
  simp only [encJ, bind, Except.bind]
  constructor
  · rintro ⟨w, h⟩
    cases h1 : lookR rd with
    | error e => simp [h1] at h
    | ok r1 =>
      simp only [h1] at h
      have := jTypeN_range (ofOpt_ok.mp h)
      exact ⟨by rw [lookR_ok.mp h1]; rfl, this⟩
  · rintro ⟨h1, h3, h4, h5⟩
    cases e1 : lookupRegister rd with
    | none => simp [e1] at h1
    | some r1 =>
      obtain ⟨w, hw⟩ := jTypeN_some (rd := r1) (op := op) h3 h4 h5
      exact ⟨w, by simp [lookR, e1, hw, ofOpt]⟩

theorem encodeInstr_ok_iff {line : Line} {rins : Instr} :
    (∃ bs, encodeInstr line rins = .ok bs) ↔ ∃ args w, rins.args = some args ∧ encode rins.name args = .ok w := by
  unfold encodeInstr
  constructor
  · rintro ⟨bs, h⟩
    cases ha : rins.args with
    | none => simp [ha] at h
    | some args =>
      simp only [ha] at h
      cases he : encode rins.name args with
      | error e => rw [he] at h; cases e <;> simp at h
      | ok w => exact ⟨args, w, rfl, he⟩
  · rintro ⟨args, w, ha, he⟩
    exact ⟨leBytes (if rins.isCompressed then 2 else 4) w, by simp [ha, he]⟩

/-- a transfer instruction: a b-type or j-type row with its own class -/
def IsTransfer (ins : Instr) : Prop :=
  ins.wellKinded = true ∧ ((∃ n rs1 rs2 imm, ins = .b n rs1 rs2 imm) ∨ (∃ n rd imm, ins = .j n rd imm))

/-- acceptance of a resolved transfer instruction is: registers valid, value in the row's range, even -/
theorem transfer_encode_iff {ins : Instr} (ht : IsTransfer ins) (line : Line) (v : Int) :
    (∃ bs, encodeInstr line (ins.setImm (.value v)) = .ok bs) ↔
      (∀ f x, ins.fld f = some x → (lookupRegister x).isSome = true) ∧
      ((∃ n rs1 rs2 imm, ins = .b n rs1 rs2 imm) → -4096 ≤ v ∧ v ≤ 4095) ∧
      ((∃ n rd imm, ins = .j n rd imm) → -1048576 ≤ v ∧ v ≤ 1048575) ∧ v % 2 = 0 := by
  obtain ⟨hwk, hk⟩ := ht
  rw [encodeInstr_ok_iff]
  unfold Instr.wellKinded at hwk
  rcases hk with ⟨n, rs1, rs2, imm, rfl⟩ | ⟨n, rd, imm, rfl⟩
  · simp only [Instr.name] at hwk
    cases hl : instrTable.lookup n with
    | none => simp [hl] at hwk
    | some k =>
      simp only [hl] at hwk
      cases k <;> simp only [kindMatches, Bool.false_eq_true] at hwk
      rename_i op f3
      simp only [Instr.setImm, Instr.args, Instr.name, encode, hl, encodeKind, Option.some.injEq, exists_and_left,
        exists_eq_left']
      rw [encB_ok_iff]
      constructor
      · rintro ⟨h1, h2, h3, h4, h5⟩
        refine ⟨?_, fun _ => ⟨h3, h4⟩, (fun ⟨_, _, _, e⟩ => by cases e), h5⟩
        intro f x hf
        cases f <;> simp only [Instr.fld, Option.some.injEq, reduceCtorEq] at hf <;> subst hf <;> assumption
      · rintro ⟨h1, h2, _, h5⟩
        obtain ⟨h3, h4⟩ := h2 ⟨_, _, _, _, rfl⟩
        exact ⟨h1 .rs1 rs1 rfl, h1 .rs2 rs2 rfl, h3, h4, h5⟩
  · simp only [Instr.name] at hwk
    cases hl : instrTable.lookup n with
    | none => simp [hl] at hwk
    | some k =>
      simp only [hl] at hwk
      cases k <;> simp only [kindMatches, Bool.false_eq_true] at hwk
      rename_i op
      simp only [Instr.setImm, Instr.args, Instr.name, encode, hl, encodeKind, Option.some.injEq, exists_and_left,
        exists_eq_left']
      rw [encJ_ok_iff]
      constructor
      · rintro ⟨h1, h3, h4, h5⟩
        refine ⟨?_, (fun ⟨_, _, _, _, e⟩ => by cases e), fun _ => ⟨h3, h4⟩, h5⟩
        intro f x hf
        cases f <;> simp only [Instr.fld, Option.some.injEq, reduceCtorEq] at hf <;> subst hf <;> assumption
      · rintro ⟨h1, _, h2, h5⟩
        obtain ⟨h3, h4⟩ := h2 ⟨_, _, _, rfl⟩
        exact ⟨h1 .rd rd rfl, h3, h4, h5⟩

/-- **acceptance moves along closer distances of the same parity** -/
theorem transfer_accept_closer {ins : Instr} (ht : IsTransfer ins) (line : Line) {v0 v1 : Int}
    (h0 : ∃ bs, encodeInstr line (ins.setImm (.value v0)) = .ok bs) (hc : Closer v0 v1) (hp : v1 % 2 = v0 % 2) :
    ∃ bs, encodeInstr line (ins.setImm (.value v1)) = .ok bs := by
  rw [transfer_encode_iff ht] at h0 ⊢
  obtain ⟨h1, h2, h3, h4⟩ := h0
  unfold Closer at hc
  refine ⟨h1, fun e => ?_, fun e => ?_, by omega⟩
  · have := h2 e; omega
  · have := h3 e; omega

end BB.Lemmas
